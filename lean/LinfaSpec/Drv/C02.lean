import LinfaSpec.Model.Proto
import LinfaSpec.Model.Dataset

namespace LinfaSpec.Drv.C02
open LinfaSpec.Proto LinfaSpec.Dataset

/-- datasets of the correspondence: record cells and weights are identity tags
(`Nat`), labels travel as their codes (`Nat`) -/
abbrev D := DS Nat Nat Nat

def sortCounts (m : List (Nat × Nat)) : List (Nat × Nat) :=
  (m.toArray.qsort (fun a b => a.1 < b.1)).toList

def showNames (l : List String) : String := if l.isEmpty then "-" else ",".intercalate l
def showRows (r : List (List Nat)) : String := if r.isEmpty then "-" else showList2 toString r

def showCounts : Option (List (List (Nat × Nat))) → String
  | none => "x"
  | some cs => if cs.isEmpty then "-" else
    ";".intercalate (cs.map fun m => if m.isEmpty then "-" else
      ",".intercalate ((sortCounts m).map fun (l, c) => s!"{l}*{c}"))

def showDS (d : D) : String :=
  s!"{d.recs.length}x{d.p}x{d.t}x{if d.ix1 then 1 else 0}[R:{showRows d.recs}][T:{showRows d.tgts}]" ++
  s!"[W:{if d.weights.isEmpty then "-" else showList toString d.weights}][F:{showNames d.fnames}]" ++
  s!"[N:{showNames d.tnames}][C:{showCounts d.counts}]"

def ofBool (b : Bool) : Nat := if b then 1 else 0

/-- initial tagged dataset: record cell `(id, j)` = `id*8 + j`, weight of `id` = `1000 + id`,
feature names `f<j>`, target names `t<c>` -/
def initDS (n p t : Nat) (ix1 : Bool) (w : Nat) (fn tn cnt : Bool) (y : List (List Nat)) : D :=
  { p := p, t := t, ix1 := ix1,
    recs := (List.range n).map fun id => (List.range p).map fun j => id * 8 + j,
    tgts := y,
    -- `w`: 0 none, 1 one per sample, 2 one too many, 3 one too few (`with_weights` checks nothing)
    weights := (List.range (match w with | 0 => 0 | 1 => n | 2 => n + 1 | _ => n - 1)).map (1000 + ·),
    fnames := if fn then (List.range p).map (s!"f{·}") else [],
    tnames := if tn then (List.range t).map (s!"t{·}") else [],
    counts := if cnt then some (labelCount t y) else none }

def argBool (f : List String) (k : String) : Option Bool :=
  match argNat f k with
  | some 0 => some false
  | some 1 => some true
  | _ => none

/-- what one token of a history asks for -/
inductive Req where
  /-- ill-formed, or a call the Rust type system does not admit on this dataset -/
  | bad
  /-- a ratio outside `[0, 1]` (an `Op` only shows the split point): nothing is promised -/
  | unpromised
  /-- one of the dataset operations: answered by `apply`, guarded by `guardB` -/
  | op (o : Op Nat)
  /-- an accessor that returns no dataset (`sample_iter`, `weight_for`, `label_frequencies*`): answered
  by its model function, the history goes on with the same dataset; `none` = it panics -/
  | observe (txt : Option String)

def inUnit (r : Float32) : Bool := decide ((0 : Float32) ≤ r) && decide (r ≤ (1 : Float32))

def dump (outs : List D) : String := "+".intercalate (outs.map showDS)

def showFreqs (m : List (Nat × Nat)) : String :=
  if m.isEmpty then "-" else ",".intercalate ((sortCounts m).map fun (l, c) => s!"{l}*{c}")

/-- the request of one token, read against the current dataset (the split point is
`ceilRatio` of *its* sample count) -/
def parse (name : String) (f : List String) (ds : D) : Req :=
  let r : Option Req := do
    match name with
    | "splitV" =>
      let r ← (arg f "r").bind parseF32
      pure (if inUnit r then .op (.splitView (ceilRatio ds.n r)) else .unpromised)
    | "splitO" =>
      let r ← (arg f "r").bind parseF32
      let std ← argBool f "std"
      -- only `Dataset` (plain array targets) has the owned split
      if ds.counted then none
      else pure (if inUnit r then .op (.splitOwned std (ceilRatio ds.n r)) else .unpromised)
    | "shuffle" =>
      let idx ← argNats f "idx"
      pure (.op (.shuffle idx))
    | "boot" =>
      let ns ← argNat f "ns"; let nf ← argNat f "nf"
      let idx ← argNats f "idx"; let fidx ← argNats f "fidx"
      -- the index vectors are the RNG's draws: `ns` resp. `nf` of them (none when the source is empty)
      if (idx.length = ns ∧ fidx.length = nf) ∨ !(guardB (.bootstrap ns nf idx fidx) ds) then
        pure (.op (.bootstrap ns nf idx fidx)) else none
    | "bootS" =>
      let ns ← argNat f "ns"; let idx ← argNats f "idx"
      if idx.length = ns ∨ !(guardB (.bootstrapSamples ns idx) ds) then pure (.op (.bootstrapSamples ns idx)) else none
    | "bootF" =>
      let nf ← argNat f "nf"; let fidx ← argNats f "fidx"
      if fidx.length = nf ∨ !(guardB (.bootstrapFeatures nf fidx) ds) then pure (.op (.bootstrapFeatures nf fidx)) else none
    | "withLabels" =>
      let labs ← argNats f "labs"
      pure (.op (.withLabels labs))
    | "oneVsAll" => if !ds.ix1 then none else pure (.op .oneVsAll)
    | "map" =>
      let tab ← argNats f "tab"
      pure (.op (.mapTargets fun c => tab.getD c c))
    | "view" => pure (.op .view)
    | "toOwned" => pure (.op .toOwned)
    | "intoSingle" => if ds.ix1 ∨ ds.counted then none else pure (.op .intoSingleTarget)
    | "featureIter" => pure (.op .featureIter)
    | "targetIter" => pure (.op .targetIter)
    | "chunks" =>
      let size ← argNat f "size"
      pure (.op (.sampleChunks size))
    | "sampleIter" =>
      pure (.observe ((sampleIter ds).map fun prs =>
        if prs.isEmpty then "-" else
          ";".intercalate (prs.map fun (r, g) => s!"{showList toString r}>{showList toString g}")))
    | "weightFor" =>
      -- `weight_for(i)` for every sample `i < n`
      pure (.observe (some (showList toString ((List.range ds.n).map (weightFor 1 ds)))))
    | "labelFreq" =>
      let mask ← argNats f "mask"
      -- one mask entry per sample, or none at all (`label_frequencies()`)
      if mask.length ≠ 0 ∧ mask.length ≠ ds.n then none
      else pure (.observe (some (showFreqs (labelFreqsWithMask 0 1 (mask.map (· != 0)) ds))))
    | _ => none
  r.getD .bad

/-- the text of a step: the dumps of the datasets `apply` returned, in its order; for `one_vs_all`
each with its label and listed by label code (the order of the views is not part of the property;
`pick` still counts in `apply`'s order, the order of `labelsOf`) -/
def showOuts (o : Op Nat) (ds : D) (outs : List D) : String :=
  match o with
  | .oneVsAll =>
    let prs := (labelsOf ds).zip outs
    let sorted := (prs.toArray.qsort (fun a b => a.1 < b.1)).toList
    "+".intercalate (sorted.map fun (l, d) => s!"{l}>{showDS d}")
  | _ => dump outs

structure Run where
  /-- the response tokens, newest first -/
  acc : List String
  /-- the operations that returned, with the pick, in order, newest first -/
  ops : List (Op Nat × Nat)
  /-- the dumps of what they returned, newest first -/
  dumps : List String
  /-- where the history stands -/
  cur : D

/-- runs the tokens: every dataset operation is `guardB` then `apply`; a panic or a request outside
the guard ends the history -/
def runSteps : List String → Run → Option Run
  | [], st => some st
  | tok :: rest, st =>
    match tok.splitOn ":" with
    | [] => none
    | name :: f =>
      match parse name f st.cur with
      | .bad => none
      | .unpromised => some { st with acc := s!"{name}:unpromised" :: st.acc }
      | .observe none => some { st with acc := s!"{name}:panic" :: st.acc }
      | .observe (some txt) => runSteps rest { st with acc := s!"{name}:{txt}" :: st.acc }
      | .op o =>
        if !(guardB o st.cur) then some { st with acc := s!"{name}:unpromised" :: st.acc }
        else match apply ofBool o st.cur with
          | none => some { st with acc := s!"{name}:panic" :: st.acc }
          | some outs =>
            match argNat f "pick" with
            | none => none
            | some k =>
              let acc := s!"{name}:{showOuts o st.cur outs}" :: st.acc
              match outs[k]? with
              | none => if rest.isEmpty ∧ outs.isEmpty then some { st with acc := acc } else none
              | some d => runSteps rest { acc := acc, ops := (o, k) :: st.ops, dumps := dump outs :: st.dumps, cur := d }

def handleSeq (toks : List String) : Option String := do
  let n ← argNat toks "n"; let p ← argNat toks "p"; let t ← argNat toks "t"
  let ix1 ← argBool toks "ix1"; let w ← argNat toks "w"; let fn ← argBool toks "fn"
  let tn ← argBool toks "tn"; let cnt ← argBool toks "cnt"
  let y ← argNats2 toks "y"
  let ops ← arg toks "ops"
  if y.length ≠ n ∨ y.any (·.length ≠ t) ∨ (ix1 ∧ t ≠ 1) ∨ w > 3 then none
  else
    let ds := initDS n p t ix1 w fn tn cnt y
    let st ← runSteps (splitOn' ops "/") { acc := [], ops := [], dumps := [], cur := ds }
    -- the steps that returned are a history in the sense of the theorems: `runSeq` (through
    -- `runTrace`, which keeps the intermediate results) must retrace them
    let tr := runTrace ofBool st.ops.reverse ds
    if tr.1.map dump ≠ st.dumps.reverse ∨ tr.2.map showDS ≠ some (showDS st.cur) then pure "runSeq-mismatch"
    else
      let outs := st.acc.reverse
      pure ("ok init:" ++ showDS ds ++ (if outs.isEmpty then "" else " " ++ " ".intercalate outs))

/-- `ceil n=<n> r=<f32 bits>`: the split point -/
def handleCeil (toks : List String) : Option String := do
  let n ← argNat toks "n"
  let r ← (arg toks "r").bind parseF32
  -- a ratio outside `[0, 1]` is outside the property; `split_at` panics when the split point lies
  -- beyond the last sample (`n as f32` may round up)
  pure (if !inUnit r then "unpromised" else if ceilRatio n r ≤ n then s!"ok {ceilRatio n r}" else "panic")

def handle (toks : List String) : String :=
  let r := match toks with
    | "seq" :: rest => handleSeq rest
    | "ceil" :: rest => handleCeil rest
    -- the owned split computes the same expression (and panics beyond the last sample)
    | "ceilo" :: rest => handleCeil rest
    | _ => none
  r.getD "bad-op"

end LinfaSpec.Drv.C02
