import LinfaSpec.Model.Proto
import LinfaSpec.Model.Scalar
import LinfaSpec.Model.Predict

namespace LinfaSpec.Drv.C03
open LinfaSpec.Proto LinfaSpec.Predict

/-- scripted member: on a batch of row tags it answers `tab[tag]` per row; `adj = 1` appends one
spurious cell, `adj = 2` drops the last cell (ill-behaved members, outside the property) -/
def scripted {β : Type} (tab : List β) (extra : β) (adj : Nat) (tags : List Nat) : List β :=
  let out := tags.filterMap fun t => tab[t]?
  if adj = 1 then out ++ [extra] else if adj = 2 then out.dropLast else out

def handleMt (toks : List String) : Option String := do
  let tags ← argNats toks "tags"
  let tab ← argInts2 toks "tab"
  let adj ← argNats toks "adj"
  if tab.length ≠ adj.length then none
  let members := (tab.zip adj).map fun (t, a) => scripted t (-1 : Int) a
  -- `pre=` present: `predict_inplace` into that caller-supplied buffer; absent: the `Predict` form
  let res ← match arg toks "pre" with
    | none => some (multiTargetBatch members tags)
    | some _ => (argInts2 toks "pre").map fun pre => multiTargetInplace members tags pre
  match res with
  | none => some "panic"
  | some out => some ("ok " ++ showList2 toString out)

/-- labels of the members whose probability for tag `t` is maximal -/
def tiedLabels (labels : List Nat) (tab : List (List Nat)) (t : Nat) : List Nat :=
  let ps := tab.map fun r => (r[t]?).getD 0
  let mx := ps.foldl max 0
  ((labels.zip ps).filter fun lp => lp.2 == mx).map (·.1)

def insertSorted (x : Nat) : List Nat → List Nat
  | [] => [x]
  | y :: ys => if x ≤ y then x :: y :: ys else y :: insertSorted x ys

def sortNats (l : List Nat) : List Nat := l.foldr insertSorted []

/-- a cell on which several candidates tie is written as the set of the tied candidates when the
value returned is one of them: which of them wins is not part of the property -/
def tieCell (tied : List Nat) (l : Nat) : String :=
  if tied.length > 1 ∧ l ∈ tied then "t" ++ "|".intercalate ((sortNats tied).map toString) else toString l

def showMc (labels : List Nat) (tab : List (List Nat)) (adj tags out : List Nat) : String :=
  if adj.all (· == 0) ∧ ¬ tab.isEmpty ∧ out.length = tags.length then
    ",".intercalate ((tags.zip out).map fun (t, l) => tieCell (tiedLabels labels tab t) l)
  else showList toString out

def handleMc (toks : List String) : Option String := do
  let tags ← argNats toks "tags"
  let labels ← argNats toks "labels"
  let tab ← argNats2 toks "tab"
  let adj ← argNats toks "adj"
  if tab.length ≠ adj.length ∨ tab.length ≠ labels.length then none
  let members := (labels.zip (tab.zip adj)).map fun (l, t, a) =>
    (l, fun tags => (scripted t 0 a tags).map fun q => Float.ofNat q / 64)
  match arg toks "pre" with
  | none => some ("ok " ++ showMc labels tab adj tags (multiClassBatch members tags 0))
  | some _ =>
    let pre ← argNats toks "pre"
    match multiClassInplace members tags pre with
    | none => some "panic"
    | some out => some ("ok " ++ showMc labels tab adj tags out)

def showPr (p : Float32) : String := "~" ++ showF64 p.toFloat

def handlePlatt (toks : List String) : Option String := do
  let a ← argF64 toks "a"; let b ← argF64 toks "b"; let xs ← argF64s toks "xs"
  match plattBatch (β := Float32) Float.toFloat32 (fun (r : List Float) => r) a b xs with
  | none => some "panic"
  | some ps => some ("ok " ++ showList showPr ps)

/-- `platt_predict::<f32>`: the linear form is evaluated in `f32`, the cast is the identity -/
def handlePlatt32 (toks : List String) : Option String := do
  let a ← (arg toks "a").bind parseF32; let b ← (arg toks "b").bind parseF32
  let xs ← (arg toks "xs").bind (parseList parseF32)
  match plattBatch (α := Float32) (β := Float32) (fun v => v) (fun (r : List Float32) => r) a b xs with
  | none => some "panic"
  | some ps => some ("ok " ++ showList showPr ps)

def handleKmeans (toks : List String) : Option String := do
  let cents ← argF64s2 toks "cents"; let rows ← argF64s2 toks "rows"
  let res ← match arg toks "pre" with
    | none => some (kmeansBatch cents rows)
    | some _ => (argNats toks "pre").map fun pre => kmeansInplace cents rows pre
  match res with
  | none => some "panic"
  | some l =>
    if l.length = rows.length then
      some ("ok " ++ ",".intercalate ((rows.zip l).map fun (r, i) =>
        let d := cents.map fun c => sqDist c r
        let dm := d.foldl (fun m x => if x < m then x else m) (1.0 / 0.0)
        tieCell (((List.range d.length).zip d).filter (fun id => id.2 == dm) |>.map (·.1)) i))
    else some ("ok " ++ showList toString l)

def showT (x : Float) : String := "~" ++ showF64c x

def handleAffine (toks : List String) : Option String := do
  let w ← argF64s toks "w"; let b ← argF64 toks "b"; let rows ← argF64s2 toks "rows"
  match arg toks "pre" with
  | none => some ("ok " ++ showList showT (affineBatch rows w b))
  | some _ =>
    let pre ← argF64s toks "pre"
    match affineInplace rows w b pre with
    | none => some "panic"
    | some out => some ("ok " ++ showList showT out)

def handleLinmap (toks : List String) : Option String := do
  let mean ← argF64s toks "mean"; let std ← argF64s toks "std"
  let cols ← argF64s2 toks "cols"; let bias ← argF64s toks "bias"
  let rows ← argF64s2 toks "rows"
  match arg toks "pre" with
  | none => some ("ok " ++ showList2 showT (linMapBatch mean std cols bias rows))
  | some _ =>
    let pre ← argF64s2 toks "pre"
    match linMapInplace mean std cols bias rows pre with
    | none => some "panic"
    | some out => some ("ok " ++ showList2 showT out)

/-- pre-order tree: `L<label>` | `S<feature>:<hex threshold>` followed by the two subtrees -/
def parseTree : Nat → List String → Option (Tree Float Nat × List String)
  | 0, _ => none
  | _, [] => none
  | fuel + 1, t :: rest =>
    if t.startsWith "L" then
      ((t.drop 1).toString.toNat?).map fun l => (Tree.leaf l, rest)
    else if t.startsWith "S" then
      match ((t.drop 1).toString.splitOn ":") with
      | [f, h] =>
        match f.toNat?, parseF64 h, parseTree fuel rest with
        | some f, some thr, some (lo, rest1) =>
          match parseTree fuel rest1 with
          | some (hi, rest2) => some (Tree.node f thr lo hi, rest2)
          | none => none
        | _, _, _ => none
      | _ => none
    else none

def handleTree (toks : List String) : Option String := do
  let t ← arg toks "t"
  let rows ← argF64s2 toks "rows"
  let ts := t.splitOn ","
  match parseTree (ts.length + 1) ts with
  | some (tree, []) =>
    let res ← match arg toks "pre" with
      | none => some (treeBatch tree rows)
      | some _ => (argNats toks "pre").map fun pre => treeInplace tree rows pre
    match res with
    | none => some "panic"
    | some l => some ("ok " ++ showList toString l)
  | _ => none

def handleIso (toks : List String) : Option String := do
  let reg ← argF64s toks "reg"; let resp ← argF64s toks "resp"; let rows ← argF64s2 toks "rows"
  let res ← match arg toks "pre" with
    | none => some (isoBatch reg resp rows)
    | some _ => (argF64s toks "pre").map fun pre => isoInplace reg resp rows pre
  match res with
  | none => some "panic"
  | some l => some ("ok " ++ showList showF64c l)

def handle (toks : List String) : String :=
  let r := match toks with
    | "mt" :: rest => handleMt rest
    | "mc" :: rest => handleMc rest
    | "platt" :: rest => handlePlatt rest
    | "platt32" :: rest => handlePlatt32 rest
    | "kmeans" :: rest => handleKmeans rest
    | "affine" :: rest => handleAffine rest
    | "linmap" :: rest => handleLinmap rest
    | "tree" :: rest => handleTree rest
    | "iso" :: rest => handleIso rest
    | _ => none
  r.getD "bad-op"

end LinfaSpec.Drv.C03
