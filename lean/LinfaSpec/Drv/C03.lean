import LinfaSpec.Model.Proto
import LinfaSpec.Model.Scalar
import LinfaSpec.Model.Predict

namespace LinfaSpec.Drv.C03
open LinfaSpec.Proto LinfaSpec.Predict

/-- scripted member: on a batch of row tags it answers `tab[tag]` per row; `adj = 1` appends one
spurious cell, `adj = 2` drops the last cell (ill-behaved members, outside the property) -/
def scripted {β : Type} (tab : List β) (extra : β) (adj : Nat) (tags : List Nat) : List β :=
  let out := tags.filterMap fun t => tab[t]?
  if adj = 1 then out ++ [extra] else if adj = 2 then out.dropLast else out

/-! Every family request names the calling form (`form=ref|own|dsref|dsown|inplace|into`) and is answered
by `predictForm <family>Model form rows buf` — the very terms the `*_perSample` / `*_forms_are_batch`
theorems of `Props/C03.lean` are about.  `pre=` (the caller's buffer) is present exactly for `form=into`. -/

def parseForm : String → Option Form
  | "ref" => some .refArray
  | "own" => some .ownedArray
  | "dsref" => some .refDataset
  | "dsown" => some .ownedDataset
  | "inplace" => some .inplace
  | "into" => some .inplaceInto
  | _ => none

def formOf (toks : List String) : Option Form := do
  let f ← (arg toks "form").bind parseForm
  if (decide (f = .inplaceInto)) != (arg toks "pre").isSome then none else some f

/-- `panic`, or `ok <targets>` followed by ` rec=same` / ` rec=changed` for the forms that hand the
records back -/
def showForm {R T : Type} (showR : List R → String) (showT : T → String) (rows : List R)
    (o : FormOut R (Option T)) : String :=
  match o.targets with
  | none => "panic"
  | some t =>
    "ok " ++ showT t ++
      (match o.records with
       | none => ""
       | some r => if showR r == showR rows then " rec=same" else " rec=changed")

def showRowsF (rows : List (List Float)) : String := showList2 showF64c rows

def handleMt (toks : List String) : Option String := do
  let tags ← argNats toks "tags"
  let tab ← argInts2 toks "tab"
  let adj ← argNats toks "adj"
  if tab.length ≠ adj.length then none
  let members := (tab.zip adj).map fun (t, a) => scripted t (-1 : Int) a
  let form ← formOf toks
  let pre ← if form = .inplaceInto then argInts2 toks "pre" else some []
  some (showForm (showList toString) (showList2 toString) tags
    (predictForm (multiTargetModel members (0 : Int)) form tags pre))

/-- labels of the members whose probability for tag `t` is maximal -/
def tiedLabels (labels : List Nat) (tab : List (List Nat)) (t : Nat) : List Nat :=
  let ps := tab.map fun r => (r[t]?).getD 0
  let mx := ps.foldl max 0
  ((labels.zip ps).filter fun lp => lp.2 == mx).map (·.1)

def insertSorted (x : Nat) : List Nat → List Nat
  | [] => [x]
  | y :: ys => if x ≤ y then x :: y :: ys else y :: insertSorted x ys

def sortNats (l : List Nat) : List Nat := l.foldr insertSorted []

/-- a cell on which several candidates tie is written as the set of the tied candidates when the
value returned is one of them: which of them wins is not part of the property -/
def tieCell (tied : List Nat) (l : Nat) : String :=
  if tied.length > 1 ∧ l ∈ tied then "t" ++ "|".intercalate ((sortNats tied).map toString) else toString l

def showMc (labels : List Nat) (tab : List (List Nat)) (adj tags out : List Nat) : String :=
  if adj.all (· == 0) ∧ ¬ tab.isEmpty ∧ out.length = tags.length then
    ",".intercalate ((tags.zip out).map fun (t, l) => tieCell (tiedLabels labels tab t) l)
  else showList toString out

def handleMc (toks : List String) : Option String := do
  let tags ← argNats toks "tags"
  let labels ← argNats toks "labels"
  let tab ← argNats2 toks "tab"
  let adj ← argNats toks "adj"
  if tab.length ≠ adj.length ∨ tab.length ≠ labels.length then none
  let members := (labels.zip (tab.zip adj)).map fun (l, t, a) =>
    (l, fun tags => (scripted t 0 a tags).map fun q => Float.ofNat q / 64)
  let form ← formOf toks
  let pre ← if form = .inplaceInto then argNats toks "pre" else some []
  some (showForm (showList toString) (showMc labels tab adj tags) tags
    (predictForm (multiClassModel members 0) form tags pre))

def showPr (p : Float32) : String := "~" ++ showF64 p.toFloat

def handlePlatt (toks : List String) : Option String := do
  let a ← argF64 toks "a"; let b ← argF64 toks "b"; let xs ← argF64s toks "xs"
  match plattBatch (β := Float32) Float.toFloat32 (fun (r : List Float) => r) a b xs with
  | none => some "panic"
  | some ps => some ("ok " ++ showList showPr ps)

/-- `platt_predict::<f32>`: the linear form is evaluated in `f32`, the cast is the identity -/
def handlePlatt32 (toks : List String) : Option String := do
  let a ← (arg toks "a").bind parseF32; let b ← (arg toks "b").bind parseF32
  let xs ← (arg toks "xs").bind (parseList parseF32)
  match plattBatch (α := Float32) (β := Float32) (fun v => v) (fun (r : List Float32) => r) a b xs with
  | none => some "panic"
  | some ps => some ("ok " ++ showList showPr ps)

/-- the `Platt` wrapper itself (`Platt::predict_inplace` over a scripted inner model answering `xs[tag]`;
row `i` carries tag `i`), through every calling form; `pre` = the caller's probability buffer -/
def handlePlattW (toks : List String) : Option String := do
  let a ← argF64 toks "a"; let b ← argF64 toks "b"; let xs ← argF64s toks "xs"
  let form ← formOf toks
  let pre ← if form = .inplaceInto then argF64s toks "pre" else some []
  let rows := List.range xs.length
  some (showForm (showList toString) (showList showPr) rows
    (predictForm (plattModel (β := Float32) Float.toFloat32 (fun (rs : List Nat) => rs.filterMap (xs[·]?)) a b)
      form rows (pre.map Float.toFloat32)))

def tiedIdx (d : List Float) (best : Float) : List Nat :=
  ((List.range d.length).zip d).filter (fun id => id.2 == best) |>.map (·.1)

def handleKmeans (toks : List String) : Option String := do
  let cents ← argF64s2 toks "cents"; let rows ← argF64s2 toks "rows"
  let form ← formOf toks
  let pre ← if form = .inplaceInto then argNats toks "pre" else some []
  let cells := fun (l : List Nat) =>
    if l.length = rows.length then
      ",".intercalate ((rows.zip l).map fun (r, i) =>
        let d := cents.map fun c => sqDist c r
        let dm := d.foldl (fun m x => if x < m then x else m) (1.0 / 0.0)
        tieCell (tiedIdx d dm) i)
    else showList toString l
  some (showForm showRowsF cells rows (predictForm (kmeansModel cents) form rows pre))

def showT (x : Float) : String := "~" ++ showF64c x

def handleAffine (toks : List String) : Option String := do
  let w ← argF64s toks "w"; let b ← argF64 toks "b"; let rows ← argF64s2 toks "rows"
  let form ← formOf toks
  let pre ← if form = .inplaceInto then argF64s toks "pre" else some []
  some (showForm showRowsF (showList showT) rows (predictForm (affineModel w b) form rows pre))

def handleLinmap (toks : List String) : Option String := do
  let mean ← argF64s toks "mean"; let std ← argF64s toks "std"
  let cols ← argF64s2 toks "cols"; let bias ← argF64s toks "bias"
  let rows ← argF64s2 toks "rows"
  let form ← formOf toks
  let pre ← if form = .inplaceInto then argF64s2 toks "pre" else some []
  some (showForm showRowsF (showList2 showT) rows
    (predictForm (linMapModel mean std cols bias) form rows pre))

/-- pre-order tree: `L<label>` | `S<feature>:<hex threshold>` followed by the two subtrees -/
def parseTree : Nat → List String → Option (Tree Float Nat × List String)
  | 0, _ => none
  | _, [] => none
  | fuel + 1, t :: rest =>
    if t.startsWith "L" then
      ((t.drop 1).toString.toNat?).map fun l => (Tree.leaf l, rest)
    else if t.startsWith "S" then
      match ((t.drop 1).toString.splitOn ":") with
      | [f, h] =>
        match f.toNat?, parseF64 h, parseTree fuel rest with
        | some f, some thr, some (lo, rest1) =>
          match parseTree fuel rest1 with
          | some (hi, rest2) => some (Tree.node f thr lo hi, rest2)
          | none => none
        | _, _, _ => none
      | _ => none
    else none

def handleTree (toks : List String) : Option String := do
  let t ← arg toks "t"
  let rows ← argF64s2 toks "rows"
  let ts := t.splitOn ","
  match parseTree (ts.length + 1) ts with
  | some (tree, []) =>
    let form ← formOf toks
    let pre ← if form = .inplaceInto then argNats toks "pre" else some []
    some (showForm showRowsF (showList toString) rows (predictForm (treeModel tree 0) form rows pre))
  | _ => none

def handleIso (toks : List String) : Option String := do
  let reg ← argF64s toks "reg"; let resp ← argF64s toks "resp"; let rows ← argF64s2 toks "rows"
  let form ← formOf toks
  let pre ← if form = .inplaceInto then argF64s toks "pre" else some []
  some (showForm showRowsF (showList showT) rows (predictForm (isoModel reg resp) form rows pre))

/-- score-table family (multinomial logistic `x·W + b`, GMM responsibilities): `scores` is the `n × k`
sample-major matrix the real model computes; the model reads it as the class-major table
`tableBatch` is about (class `c`'s score vector over the whole batch = column `c`) and answers the
first maximal class per row — a row with several exactly maximal classes is written as their set -/
def handleTable (toks : List String) : Option String := do
  let sc ← argF64s2 toks "scores"
  let k ← argNat toks "k"
  if sc.any (·.length ≠ k) then none
  let rows := List.range sc.length
  let scores : List (List Nat → List Float) :=
    (List.range k).map fun c => fun rs => rs.filterMap fun i => (sc[i]?).bind (·[c]?)
  match tableBatch scores rows with
  | none => some "panic"
  | some l =>
    if l.length = sc.length then
      some ("ok " ++ ",".intercalate ((sc.zip l).map fun (r, i) =>
        let mx := r.foldl (fun m x => if m < x then x else m) (-(1.0 / 0.0))
        tieCell (tiedIdx r mx) i))
    else some ("ok " ++ showList toString l)

/-- threshold family (binary logistic `p >= threshold`, SVM `decision >= 0`): `dec` = the decision values
the real model computes for the batch -/
def handleThresh (toks : List String) : Option String := do
  let dec ← argF64s toks "dec"
  let thr ← argF64 toks "thr"
  let rows := List.range dec.length
  some ("ok " ++ showList toString
    (threshBatch (fun (rs : List Nat) => rs.filterMap (dec[·]?)) thr rows))

def handle (toks : List String) : String :=
  let r := match toks with
    | "mt" :: rest => handleMt rest
    | "mc" :: rest => handleMc rest
    | "platt" :: rest => handlePlatt rest
    | "platt32" :: rest => handlePlatt32 rest
    | "kmeans" :: rest => handleKmeans rest
    | "affine" :: rest => handleAffine rest
    | "linmap" :: rest => handleLinmap rest
    | "tree" :: rest => handleTree rest
    | "iso" :: rest => handleIso rest
    | "plattw" :: rest => handlePlattW rest
    | "table" :: rest => handleTable rest
    | "thresh" :: rest => handleThresh rest
    | _ => none
  r.getD "bad-op"

end LinfaSpec.Drv.C03
