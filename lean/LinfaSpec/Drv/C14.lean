import LinfaSpec.Model.Proto
import LinfaSpec.Model.Scalar
import LinfaSpec.Model.Tree

/-!
Driver for C14.  Request

  `fit ft=64|32 form=<k> crit=g|e md=none|<n> mws4=<q> mwl4=<q> mid=<f64 hex> xd=<k> xe=<k> p=<p> xs=<ints2>
       ys=<nats> lo=<nats> ws=none|<ints> wd=<k> wq=<q> pr=<ints2> lt=<k>`

features are `int / 2^xd * 2^xe` (exactly representable in the feature type `ft`; `xe` reaches the
top of the exponent range: sums of two such values overflow), the integers `±2^62` stand for `±inf`;
the weight list may be shorter than the data (`weight_for` then answers `1.0`, as `Data.w`); weights
`f32(int / (2^wd * wq))` (`wq = 1`: dyadic, exact; `wq = 10`: decimal weights, rounded to `f32` as
the harness does), `min_weight_split = mws4/4`, `min_weight_leaf = mwl4/4`, `mid` the
`min_impurity_decrease` (rounded to `f32` when `ft=32`), `lo` the class indices in the order of the
label type the harness used.  `form` (calling form / memory layout on the Rust side) and `lt` (label
type) have no influence on the model; they are validated and ignored.

The model runs with `α = Float` (`DecisionTree<f64, _>`) or `α = Float32` (`DecisionTree<f32, _>`),
`β = Float32` in both.

Response `panic` or
  `ok tree=<preorder walk> imp=<importances> pred=<class of every training row, then of every probe row>
      nl=<num_leaves> dmax=<max_depth()> feats=<features(), in the order returned> bfs=<iter_nodes: depth and L/N per node>`

The request is answered THROUGH `Tree.fit` (the function the theorems of `Props/C14.lean` are stated
about, with `ord = id`; `fit_order_irrelevant` covers every other order), `Tree.predict`,
`importances`, `numLeaves`, `maxDepthOf`, `featuresOf`, `iterNodes`.

Everything is compared exactly (bit patterns): after the C20 repair of linfa every f32 sum over
the class map runs in label order (`sorted_frequencies`) and modal ties are decided by label order,
the model does the same operations in the same order, and `f32::log2` is the platform's `log2f` on
both sides.
-/
namespace LinfaSpec.Drv.C14
open LinfaSpec.Proto LinfaSpec.Tree

instance : NatCast Float32 := ⟨Float32.ofNat⟩

def pow2 (k : Nat) : Float := Float.ofNat (2 ^ k)

/-- the integer that stands for an infinite feature value (`2^62`) -/
def infCode : Int := 4611686018427387904

/-- number of calling forms the harness knows (see `harness/src/c14.rs`) -/
def nForms : Nat := 4536

section
variable {α : Type}
variable [Add α] [Sub α] [Div α] [Neg α] [LT α] [DecidableLT α] [LE α] [DecidableLE α]
  [OfNat α 0] [NatCast α]

/-- tokens of the preorder walk -/
def walk (toF64 : α → Float) : Tree α → List String
  | .leaf p d => ["L", toString p, toString d]
  | .node f s dec _ d l r =>
    ["N", toString f, showF64 (toF64 s), showF64c (toF64 dec), toString d] ++ walk toF64 l ++ walk toF64 r
  | .half f s dec p d il c =>
    ["H", toString f, showF64 (toF64 s), showF64c (toF64 dec), toString p, toString d,
      (if il then "l" else "r")] ++ walk toF64 c

def bfsTok : Tree α → String
  | .node f _ _ _ d _ _ => s!"{d}N{f}"
  | .leaf p d => s!"{d}L{p}"
  | .half _ _ _ p d _ _ => s!"{d}L{p}"

/-- the fit in the feature type `α`: `ofF64` = `F::cast` of an `f64`, `toF64` the exact embedding,
`cast` = `F::cast` of an `f32` -/
def handleFitG (ofF64 : Float → α) (toF64 : α → Float) (cast : Float32 → α) (toks : List String) :
    Option String := do
  let form ← argNat toks "form"
  let lt ← argNat toks "lt"
  let crit ← arg toks "crit"
  let entropy ← (if crit == "g" then some false else if crit == "e" then some true else none)
  let mdS ← arg toks "md"
  let md ← (if mdS == "none" then some none else (parseNat mdS).map some)
  let mws4 ← argNat toks "mws4"
  let mwl4 ← argNat toks "mwl4"
  let mid ← argF64 toks "mid"
  let xd ← argNat toks "xd"
  let xe ← argNat toks "xe"
  let xsI ← argInts2 toks "xs"
  let ys ← argNats toks "ys"
  let lo ← argNats toks "lo"
  let wsS ← arg toks "ws"
  let wd ← argNat toks "wd"
  let wq ← argNat toks "wq"
  let wsI ← (if wsS == "none" then some [] else parseList parseInt wsS)
  let prI ← argInts2 toks "pr"
  let p ← argNat toks "p"
  let conv := fun (r : List Int) => r.map fun q =>
    if q == infCode then ofF64 (1.0 / 0.0) else if q == -infCode then ofF64 (-1.0 / 0.0)
    else ofF64 (Float.ofInt q / pow2 xd * pow2 xe)
  let xs := xsI.map conv
  let K := if ys.isEmpty then 0 else (ys.foldl max 0) + 1
  -- well-formed request: rectangular, one label per row, weights absent or one per row, `lo` a
  -- permutation of the class indices
  if !(xs.all fun r => r.length == p) || ys.length != xs.length || wq == 0 || form ≥ nForms || lt > 3 ||
      !(wsI.length ≤ xs.length) || !(prI.all fun r => r.length == p) ||
      lo.length != K || !((List.range K).all fun c => lo.contains c) then none
  let Pm : Params α Float32 :=
    { entropy := entropy, maxDepth := md,
      minSplit := (Float.ofNat mws4 / 4).toFloat32, minLeaf := (Float.ofNat mwl4 / 4).toFloat32,
      minDec := ofF64 mid, eps := ofF64 1e-5, log2 := Float32.log2, cast := cast }
  let Dt : Data α Float32 :=
    { xs := xs, ys := ys, ws := wsI.map fun q => (Float.ofInt q / (pow2 wd * Float.ofNat wq)).toFloat32,
      K := K, lord := lo }
  match fit Pm Dt id p with
  | some t =>
    let preds := (xs ++ prI.map conv).map fun r => predict r t
    some (s!"ok tree={showList id (walk toF64 t)} imp={showList (fun x => showF64c (toF64 x)) (importances t p)} " ++
      s!"pred={showList toString preds} nl={numLeaves t} dmax={maxDepthOf t} " ++
      s!"feats={showList toString (featuresOf t)} bfs={showList bfsTok (iterNodes t)}")
  | none => some "panic"

end

def handleFit (toks : List String) : Option String := do
  let ft ← argNat toks "ft"
  if ft == 64 then handleFitG (α := Float) id id Float32.toFloat toks
  else if ft == 32 then handleFitG (α := Float32) Float.toFloat32 Float32.toFloat id toks
  else none

def handle (toks : List String) : String :=
  let r := match toks with
    | "fit" :: rest => handleFit rest
    | _ => none
  r.getD "bad-op"

end LinfaSpec.Drv.C14
