import LinfaSpec.Model.Proto
import LinfaSpec.Model.Scalar
import LinfaSpec.Model.Tree

/-!
Driver for C14.  Request

  `fit crit=g|e md=none|<n> mws4=<q> mwl4=<q> mid=<f64 hex> xd=<k> xs=<ints2> ys=<nats>
       ws=none|<ints> wd=<k> pr=<ints2>`

features are `int / 2^xd`, weights `int / 2^wd`, `min_weight_split = mws4/4`,
`min_weight_leaf = mwl4/4` (all exact in f32/f64).  The model runs with `α = Float` (the
harness fits `DecisionTree<f64, _>`), `β = Float32`.

Response `panic` or
  `ok tree=<preorder walk> imp=<importances> pred=<class of every training row, then of every probe row> margin=~<1|0>`

`margin` is 1 when every discrete decision of the fit is safe to compare, 0 otherwise:
* a modal tie at any node whose prediction survives (hash-map order decides in linfa):
  detected by running the model with the two extreme iteration orders;
* at a node with ≥ 3 classes present, or under the entropy criterion, the f32 score of a split
  depends on the hash map's summation order / on libm in the last bits: every comparison
  `score < best_score` and `decrease < min_impurity_decrease` must then be decided with a
  margin of at least `4e-6`.  With ≤ 2 classes present and Gini the f32 arithmetic is
  order-independent (two-term sums commute) and compared bit for bit.
-/
namespace LinfaSpec.Drv.C14
open LinfaSpec.Proto LinfaSpec.Tree

instance : NatCast Float32 := ⟨Float32.ofNat⟩

abbrev P := Params Float Float32
abbrev D := Data Float Float32

def pow2 (k : Nat) : Float := Float.ofNat (2 ^ k)

/-- tokens of the preorder walk; `tl` marks impurity decreases as tolerance-compared -/
def walk (tl : Bool) : Tree Float → List String
  | .leaf p d => ["L", toString p, toString d]
  | .node f s dec _ d l r =>
    ["N", toString f, showF64 s, (if tl then "~" else "") ++ showF64c dec, toString d] ++ walk tl l ++ walk tl r
  | .half f s dec p d il c =>
    ["H", toString f, showF64 s, (if tl then "~" else "") ++ showF64c dec, toString p, toString d,
      (if il then "l" else "r")] ++ walk tl c

def absF (x : Float) : Float := if x < 0 then -x else x

/-- smallest distance of a float comparison made while fitting the node with rows `mask`,
following the unpruned tree `t` that the fit produced (see the file header) -/
def nodeMargin (Pm : P) (Dt : D) (sorted : List (List (Nat × Float))) (mask : List Bool) (depth : Nat) : Float :=
  let rows := rowsOf mask
  let pf := freqOf Dt rows
  let guarded := decide ((rows.length : Float32) < Pm.minSplit) ||
    (match Pm.maxDepth with | some d => decide (d ≤ depth) | none => false)
  if guarded then 1.0
  else if (presentClasses Dt rows).length ≤ 2 && !Pm.entropy then 1.0
  else
    let cands := candidates Pm Dt sorted mask pf
    match pickBest cands with
    | none => 1.0
    | some b =>
      let bs := b.score.toFloat
      let widx := (cands.findIdx? fun c => c.score == b.score).getD 0
      let m1 := (cands.zipIdx).foldl (fun m (c, i) =>
        if i == widx then m else minS m (absF (c.score.toFloat - bs))) 1.0
      let dec := Pm.cast (impurity Pm pf) - Pm.cast b.score
      minS m1 (absF (dec - Pm.minDec))

def marginWalk (Pm : P) (Dt : D) (sorted : List (List (Nat × Float))) : Tree Float → List Bool → Float
  | .leaf _ d, mask => nodeMargin Pm Dt sorted mask d
  | .node f s _ _ d l r, mask =>
    minS (nodeMargin Pm Dt sorted mask d) (minS (marginWalk Pm Dt sorted l (leftMask Dt mask f s))
      (marginWalk Pm Dt sorted r (rightMask Dt mask f s)))
  | .half f s _ _ d il c, mask =>
    minS (nodeMargin Pm Dt sorted mask d)
      (marginWalk Pm Dt sorted c (if il then leftMask Dt mask f s else rightMask Dt mask f s))

def handleFit (toks : List String) : Option String := do
  let crit ← arg toks "crit"
  let entropy ← (if crit == "g" then some false else if crit == "e" then some true else none)
  let mdS ← arg toks "md"
  let md ← (if mdS == "none" then some none else (parseNat mdS).map some)
  let mws4 ← argNat toks "mws4"
  let mwl4 ← argNat toks "mwl4"
  let mid ← argF64 toks "mid"
  let xd ← argNat toks "xd"
  let xsI ← argInts2 toks "xs"
  let ys ← argNats toks "ys"
  let wsS ← arg toks "ws"
  let wd ← argNat toks "wd"
  let wsI ← (if wsS == "none" then some [] else parseList parseInt wsS)
  let prI ← argInts2 toks "pr"
  let p ← argNat toks "p"
  let conv := fun (r : List Int) => r.map fun q => Float.ofInt q / pow2 xd
  let xs := xsI.map conv
  -- well-formed request: rectangular, one label per row, weights absent or one per row
  if !(xs.all fun r => r.length == p) || ys.length != xs.length ||
      !(wsI.isEmpty || wsI.length == xs.length) || !(prI.all fun r => r.length == p) then none
  let K := (ys.foldl max 0) + 1
  let Pm : P := { entropy := entropy, maxDepth := md,
                  minSplit := (Float.ofNat mws4 / 4).toFloat32, minLeaf := (Float.ofNat mwl4 / 4).toFloat32,
                  minDec := mid, eps := 1e-5, log2 := Float32.log2, cast := Float32.toFloat }
  let Dt : D := { xs := xs, ys := ys, ws := wsI.map fun q => (Float.ofInt q / pow2 wd).toFloat32, K := K }
  let sorted := sortedAll Dt p
  let raw1 := fitNode Pm Dt id sorted (Dt.n + 1) (allMask Dt) 0
  let raw2 := fitNode Pm Dt List.reverse sorted (Dt.n + 1) (allMask Dt) 0
  match raw1, raw2 with
  | some u1, some u2 =>
    let t1 := (prune u1).1
    let t2 := (prune u2).1
    let distinct := ((List.range K).filter fun c => ys.contains c).length
    let tl := entropy || distinct > 2
    let tie := !(walk tl t1 == walk tl t2)
    let mg := marginWalk Pm Dt sorted u1 (allMask Dt)
    let safe := !tie && (mg ≥ 4e-6)
    let preds := (xs ++ prI.map conv).map fun r => predict r t1
    some (s!"ok tree={showList id (walk tl t1)} imp={showList (fun x => (if tl then "~" else "") ++ showF64c x) (importances t1 p)} " ++
      s!"pred={showList toString preds} margin=~{showF64 (if safe then 1.0 else if tie then 0.0 else 0.25)}")
  | _, _ => some "panic"

def handle (toks : List String) : String :=
  let r := match toks with
    | "fit" :: rest => handleFit rest
    | _ => none
  r.getD "bad-op"

end LinfaSpec.Drv.C14
