/-! shared read-dispatch-print loop of the model drivers -/
namespace LinfaSpec.Drv

partial def loop (dispatch : List String → String) (h : IO.FS.Stream) (out : IO.FS.Stream) : IO Unit := do
  let line ← h.getLine
  if line.isEmpty then return ()
  let toks := (line.trimAscii.toString.splitOn " ").filter (· ≠ "")
  out.putStrLn (dispatch toks)
  loop dispatch h out

def run (dispatch : List String → String) : IO Unit := do
  let i ← IO.getStdin
  let o ← IO.getStdout
  loop dispatch i o
  o.flush

end LinfaSpec.Drv
