import LinfaSpec.Model.Proto
import LinfaSpec.Model.Scalar
import LinfaSpec.Model.Incremental

namespace LinfaSpec.Drv.C15
open LinfaSpec.Proto LinfaSpec.Incremental

def sortByLabel {β : Type} (st : List (Nat × β)) : List (Nat × β) :=
  (st.toArray.qsort (fun a b => a.1 < b.1)).toList

def tF (x : Float) : String := "~" ++ showF64c x

/-- batches from `x=` (batch | row ; value ,) and `y=` (batch ; label ,) -/
def parseHist (toks : List String) : Option (List (Batch Float)) := do
  let xs ← (arg toks "x").bind (parseList3 parseF64)
  let ys ← argNats2 toks "y"
  if xs.length != ys.length then none else
  let bs := (xs.zip ys).map fun (bx, bl) => if bx.length != bl.length then none else some (bx.zip bl)
  bs.mapM id

def showG (st : GState Float) : String :=
  let parts := (sortByLabel st).map fun (c, i) =>
    s!"c={c}/n={i.count}/pr={showF64c i.prior}/th={showList showF64c i.theta}/sg={showList tF i.sigma}"
  if parts.isEmpty then "-" else ";".intercalate parts

def showM (st : MState Float) : String :=
  let parts := (sortByLabel st).map fun (c, i) =>
    s!"c={c}/n={i.count}/pr={showF64c i.prior}/fc={showList showF64c i.fcount}/lp={showList tF i.flogp}"
  if parts.isEmpty then "-" else ";".intercalate parts

def handleGnb (toks : List String) : Option String := do
  let vs ← argF64 toks "vs"; let p ← argNat toks "p"
  let hist ← parseHist toks
  match nbFitHistory (gnbStep vs p) [] (nbGuard p) none hist with
  | none => some "err"
  | some sts => some ("ok " ++ " ".intercalate (sts.map showG))

def handleMnb (toks : List String) : Option String := do
  let a ← argF64 toks "alpha"; let p ← argNat toks "p"
  let hist ← parseHist toks
  match nbFitHistory (mnbStep a p) [] (fun _ => true) none hist with
  | none => some "err"
  | some sts => some ("ok " ++ " ".intercalate (sts.map showM))

/-- one `fit` on a whole dataset, answered through the TEXTBOOK model (`gnbTextbookState`): class
frequencies, per-class means, variances + `var_smoothing * max_j Var_j` (not through `gnbStep`) -/
def handleGnbBatch (toks : List String) : Option String := do
  let vs ← argF64 toks "vs"; let p ← argNat toks "p"
  match ← parseHist toks with
  | [d] => if nbGuard p d then some ("ok " ++ showG (gnbTextbookState vs p d)) else some "err"
  | _ => none

def handleMnbBatch (toks : List String) : Option String := do
  let a ← argF64 toks "alpha"; let p ← argNat toks "p"
  match ← parseHist toks with
  | [d] => some ("ok " ++ showM (mnbTextbookState a p d))
  | _ => none

def twoPi : Float := Float.ofBits 0x401921FB54442D18
def inf : Float := Float.ofBits 0x7FF0000000000000

def predLine {ι : Type} (jll : ι → List Float → Float) (st : List (Nat × ι)) (qs : List (List Float)) : String :=
  let st := sortByLabel st
  let preds := qs.map fun x => ((nbPredict jll st x).map toString).getD "none"
  -- relative margin: gap between best and second best over `1 + |best|` (scores can be huge when a
  -- smoothed variance is tiny, so an absolute gap says nothing about the rounding noise)
  let margin := qs.foldl (fun m x =>
    let sc := st.map fun ci => (ci.1, jll ci.2 x)
    match scoreMargin sc, argmaxScore sc with
    | some g, some b => let r := g / (1.0 + b.2.abs); if r < m then r else m
    | _, _ => m) inf
  s!"ok pred={",".intercalate preds} margin={tF margin}"

def handleGnbPred (toks : List String) : Option String := do
  let vs ← argF64 toks "vs"; let p ← argNat toks "p"
  let hist ← parseHist toks
  let qs ← argF64s2 toks "q"
  match nbFitHistory (gnbStep vs p) [] (nbGuard p) none hist with
  | none => some "err"
  | some sts => some (predLine (gnbJll twoPi 0.5) (sts.getLastD []) qs)

def handleMnbPred (toks : List String) : Option String := do
  let a ← argF64 toks "alpha"; let p ← argNat toks "p"
  let hist ← parseHist toks
  let qs ← argF64s2 toks "q"
  match nbFitHistory (mnbStep a p) [] (fun _ => true) none hist with
  | none => some "err"
  | some sts => some (predLine mnbJll (sts.getLastD []) qs)

def parseMetric (toks : List String) : Option Metric :=
  match arg toks "m" with
  | some "l2" => some .l2
  | some "l1" => some .l1
  | some "linf" => some .linf
  | _ => none

def handleKm (toks : List String) : Option String := do
  let tol ← argF64 toks "tol"
  let m ← parseMetric toks
  let c0 ← argF64s2 toks "c0"
  let xs ← (arg toks "x").bind (parseList3 parseF64)
  if c0.isEmpty then none else
  let rs := kmFitHistory m tol c0 none xs
  let parts := rs.map fun (s, conv, inertia) =>
    s!"cs={showList2 showF64c s.centroids}/cnt={showList showF64c s.counts}/conv={if conv then 1 else 0}/in={tF inertia}"
  some ("ok " ++ " ".intercalate parts)

/-- `fit_with(None, ..)` with a non-precomputed initialisation: the `n_runs` candidates (drawn by the
real `KMeansInit::run`) travel in the request; the selection (`pickInit` on the costs of the first batch)
and everything after it is the model's -/
def handleKmInitFit (toks : List String) : Option String := do
  let tol ← argF64 toks "tol"
  let m ← parseMetric toks
  let cands ← (arg toks "cands").bind (parseList3 parseF64)
  let xs ← (arg toks "x").bind (parseList3 parseF64)
  match kmFitInitHistory m tol cands xs with
  | none => some "err"
  | some rs =>
    let parts := rs.map fun (s, conv, inertia) =>
      s!"cs={showList2 showF64c s.centroids}/cnt={showList showF64c s.counts}/conv={if conv then 1 else 0}/in={tF inertia}"
    some ("ok " ++ " ".intercalate parts)

def parseHp (toks : List String) : Option (FtrlHp Float) := do
  match ← argF64s toks "hp" with
  | [a, b, l1, l2] => some ⟨a, b, l1, l2⟩
  | _ => none

def showF (hp : FtrlHp Float) (s : FState Float) : String :=
  s!"z={showList tF s.z}/n={showList tF s.n}/w={showList tF (ftrlWeights hp s)}"

/-- `Ftrl::update` with externally supplied probabilities (already `f32` values) -/
def handleFtrlUpdate (toks : List String) : Option String := do
  let hp ← parseHp toks
  let z ← argF64s toks "z"; let n ← argF64s toks "n"
  let probs ← argF64s toks "probs"
  let xs ← argF64s2 toks "x"
  let ys ← argNats toks "y"
  if z.length != n.length || probs.length != xs.length || ys.length != xs.length then none else
  let st : FState Float := ⟨z, n⟩
  let g := ftrlGradient z.length probs xs (ys.map (· != 0))
  some (s!"ok w0={showList tF (ftrlWeights hp st)} " ++ showF hp (ftrlUpdate hp st g))

def r32 (v : Float) : Float := v.toFloat32.toFloat

/-- `Ftrl::predict` of a given state: `Pr(f32)` values widened to f64 -/
def handleFtrlPred (toks : List String) : Option String := do
  let hp ← parseHp toks
  let z ← argF64s toks "z"; let n ← argF64s toks "n"
  let xs ← argF64s2 toks "x"
  if z.length != n.length then none else
  some ("ok p=" ++ showList tF (ftrlProbs 35.0 r32 hp ⟨z, n⟩ xs))

/-- a history of `fit_with` calls; `hps` = the hyper-parameters of the PARAMETERS of each call (the model
keeps the ones it was created with) -/
def handleFtrlFit (toks : List String) : Option String := do
  let hps ← (← argF64s2 toks "hps").mapM fun
    | [a, b, l1, l2] => some (⟨a, b, l1, l2⟩ : FtrlHp Float)
    | _ => none
  let z0 ← argF64s toks "z0"
  let xs ← (arg toks "x").bind (parseList3 parseF64)
  let ys ← argNats2 toks "y"
  if xs.length != ys.length || hps.length != xs.length then none else
  let hist := hps.zip ((xs.zip ys).map fun b => (b.1, b.2.map (· != 0)))
  let ms := ftrlFitHistoryM 35.0 r32 z0 none hist
  some ("ok " ++ " ".intercalate (ms.map fun m => showF m.hp m.st))

def handle (toks : List String) : String :=
  let r := match toks with
    | "gnb" :: rest => handleGnb rest
    | "mnb" :: rest => handleMnb rest
    | "gnb_pred" :: rest => handleGnbPred rest
    | "mnb_pred" :: rest => handleMnbPred rest
    | "gnb_batch" :: rest => handleGnbBatch rest
    | "mnb_batch" :: rest => handleMnbBatch rest
    | "km" :: rest => handleKm rest
    | "km_initfit" :: rest => handleKmInitFit rest
    | "ftrl_update" :: rest => handleFtrlUpdate rest
    | "ftrl_fit" :: rest => handleFtrlFit rest
    | "ftrl_pred" :: rest => handleFtrlPred rest
    | _ => none
  r.getD "bad-op"

end LinfaSpec.Drv.C15
