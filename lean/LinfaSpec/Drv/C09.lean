import LinfaSpec.Model.Proto
import LinfaSpec.Model.Scalar
import LinfaSpec.Model.KMeans

/-!
Driver of C09.  Every handler is written once for an arbitrary scalar carrying the core notation
classes and a `Codec` (wire format, `sqrt`, `+∞`); it is instantiated at `Float` (requests without a
`prec` key or with `prec=64`, 16-hex-digit floats) and at `Float32` (`prec=32`, 8-hex-digit floats),
so the f32 instantiation of linfa's generic code is compared bit for bit with the same model.
-/
namespace LinfaSpec.Drv.C09
open LinfaSpec.Proto LinfaSpec.KMeans

local instance : NatCast Float32 := ⟨Float32.ofNat⟩

/-- what the driver needs from the scalar besides the arithmetic classes -/
structure Codec (α : Type) where
  parse : String → Option α
  /-- canonical NaN so that payload differences never show up -/
  shw : α → String
  sqrt : α → α
  inf : α

def codec64 : Codec Float :=
  { parse := fun s => if s.length == 16 then parseF64 s else none
    shw := showF64c
    sqrt := Float.sqrt
    inf := 1.0 / 0.0 }

def codec32 : Codec Float32 :=
  { parse := fun s => if s.length == 8 then parseF32 s else none
    shw := fun x => if x.isNaN then "nan" else showF32 x
    sqrt := Float32.sqrt
    inf := 1.0 / 0.0 }

section Generic
variable {α : Type} [Add α] [Sub α] [Mul α] [Div α] [Neg α] [LT α] [DecidableLT α] [OfNat α 0]
  [NatCast α] (cd : Codec α)

/-- `Distance::rdistance` of the three metrics the harness uses -/
def rdOf (metric : String) : Option (List α → List α → α) :=
  if metric == "l2" then some sqL2
  else if metric == "l1" then some l1
  else if metric == "linf" then some linf
  else none

/-- `Distance::distance` on the two centroid matrices (one `Zip` over all cells, row-major) -/
def distOf (metric : String) (a b : List (List α)) : α :=
  if metric == "l2" then cd.sqrt (sqL2 a.flatten b.flatten)
  else if metric == "l1" then l1 a.flatten b.flatten
  else linf a.flatten b.flatten

/-- rectangular -/
def wellFormed (p : Nat) (m : List (List α)) : Bool := m.all (fun r => r.length == p)

def showMat (m : List (List α)) : String := showList2 cd.shw m

def showFitted (f : Option (Fitted α)) : String :=
  match f with
  | none => "err"
  | some f => s!"C={showMat cd f.centroids} n={showList toString f.counts} in={cd.shw f.inertia}"

structure Setup (α : Type) where
  metric : String
  rd : List α → List α → α
  xs : List (List α)
  p : Nat
  tol : α

def argS (toks : List String) (key : String) : Option α := (arg toks key).bind cd.parse
def argSs (toks : List String) (key : String) : Option (List α) :=
  (arg toks key).bind (parseList cd.parse)
def argSs2 (toks : List String) (key : String) : Option (List (List α)) :=
  (arg toks key).bind (parseList2 cd.parse)

def setup (toks : List String) : Option (Setup α) := do
  let metric ← arg toks "metric"
  let rd ← rdOf metric
  let xs ← argSs2 cd toks "X"
  let tol ← argS cd toks "tol"
  let p := (xs.headD []).length
  if xs.isEmpty || p == 0 || !wellFormed p xs then none
  else some { metric, rd, xs, p, tol }

def okInit (s : Setup α) (k : Nat) (c : List (List α)) : Bool :=
  c.length == k && k != 0 && wellFormed s.p c

def conv (s : Setup α) (a b : List (List α)) : Bool := distOf cd s.metric a b < s.tol

/-- `min_inertia` starts at `F::infinity()`: the selection is `fit` with the sentinel test `ltThr +∞`
(the function `Props.C09.fit_err_iff`, `fit_inertia_is_min_of_sentinel`, … are about) -/
def doFit (s : Setup α) (k m : Nat) (inits : List (List (List α))) : Option (Fitted α) :=
  fit s.rd (conv cd s) (ltThr cd.inf) k s.xs m inits

def handleClosest (toks : List String) : Option String := do
  let metric ← arg toks "metric"
  let rd ← rdOf metric
  let cs ← argSs2 cd toks "C"
  let x ← argSs cd toks "x"
  if cs.isEmpty || x.isEmpty || !wellFormed x.length cs then none else
  let r := closest rd cs x
  some s!"ok {r.1} {cd.shw r.2}"

def handleUpdate (toks : List String) : Option String := do
  let cs ← argSs2 cd toks "C"
  let xs ← argSs2 cd toks "X"
  let mem ← argNats toks "mem"
  let p := (cs.headD []).length
  if cs.isEmpty || p == 0 || !wellFormed p cs || !wellFormed p xs || mem.length != xs.length
     || mem.any (fun j => j ≥ cs.length) then none else
  some ("ok " ++ showMat cd (updateCentroids cs xs mem))

/-- one fit from a precomputed matrix; then every calling form of predict / transform on the
training rows followed by `Q`: the matrix form, the one-observation form row by row,
`predict_inplace` on a caller-supplied buffer filled with `7`s and on a buffer one cell short -/
def handleFit (toks : List String) : Option String := do
  let s ← setup cd toks
  let init ← argSs2 cd toks "init"
  let m ← argNat toks "m"
  let q ← argSs2 cd toks "Q"
  if m == 0 || !okInit s init.length init || !wellFormed s.p q then none else
  match doFit cd s init.length m [init] with
  | none => some "err"
  | some f =>
    let all := s.xs ++ q
    let pr := predict s.rd f.centroids all
    let p1 := all.map (predict1 s.rd f.centroids)
    let pi := match predictInplace s.rd f.centroids all (List.replicate all.length 7) with
      | some r => showList toString r
      | none => "panic"
    -- the same call with a buffer one cell short: the `assert_eq!` (`none`) is what the code must answer
    let sh := match predictInplace s.rd f.centroids all (List.replicate (all.length - 1) 0) with
      | some _ => "accepted"
      | none => "panic"
    let tr := transform s.rd f.centroids all
    some s!"ok {showFitted cd (some f)} pred={showList toString pr} pred1={showList toString p1} inplace={pi} short={sh} tr={showList cd.shw tr}"

/-- the whole trajectory: budgets `1..M` from the same initial matrix -/
def handleTraj (toks : List String) : Option String := do
  let s ← setup cd toks
  let init ← argSs2 cd toks "init"
  let mm ← argNat toks "M"
  if mm == 0 || !okInit s init.length init then none else
  let parts := (List.range mm).map fun i =>
    s!"m={i + 1} {showFitted cd (doFit cd s init.length (i + 1) [init])}"
  some ("ok " ++ " ".intercalate parts)

/-- restarts `1..R`: run `i` starts from `inits[i]` (observed through the hook) -/
def handleRestarts (toks : List String) : Option String := do
  let s ← setup cd toks
  let inits ← (arg toks "inits").bind (parseList3 cd.parse)
  let m ← argNat toks "m"
  let k ← argNat toks "k"
  if m == 0 || inits.isEmpty || !inits.all (okInit s k) then none else
  let rs := (List.range inits.length).map (· + 1)
  let parts := rs.map fun r => s!"r={r} {showFitted cd (doFit cd s k m (inits.take r))}"
  some ("ok " ++ " ".intercalate parts)

/-- budget sweep with restarts: for every budget in `ms` one `fit` with **all** the restarts
(`n_runs = inits.length`, the same initial matrices whatever the budget) -/
def handleSweep (toks : List String) : Option String := do
  let s ← setup cd toks
  let inits ← (arg toks "inits").bind (parseList3 cd.parse)
  let ms ← argNats toks "ms"
  let k ← argNat toks "k"
  if ms.isEmpty || ms.any (· == 0) || inits.isEmpty || !inits.all (okInit s k) then none else
  let parts := ms.map fun m => s!"m={m} {showFitted cd (doFit cd s k m inits)}"
  some ("ok " ++ " ".intercalate parts)

def handleG (toks : List String) : Option String :=
  match toks with
  | "closest" :: rest => handleClosest cd rest
  | "update" :: rest => handleUpdate cd rest
  | "fit" :: rest => handleFit cd rest
  | "traj" :: rest => handleTraj cd rest
  | "restarts" :: rest => handleRestarts cd rest
  | "sweep" :: rest => handleSweep cd rest
  | _ => none

end Generic

def handle (toks : List String) : String :=
  let r := match arg toks "prec" with
    | none => handleG codec64 toks
    | some "64" => handleG codec64 toks
    | some "32" => handleG codec32 toks
    | some _ => none
  r.getD "bad-op"

end LinfaSpec.Drv.C09
