import LinfaSpec.Model.Proto
import LinfaSpec.Model.Scalar
import LinfaSpec.Model.KMeans

namespace LinfaSpec.Drv.C09
open LinfaSpec.Proto LinfaSpec.KMeans

abbrev Mat := List (List Float)

/-- `Distance::rdistance` of the three metrics the harness uses -/
def rdOf (metric : String) : Option (List Float → List Float → Float) :=
  if metric == "l2" then some sqL2
  else if metric == "l1" then some l1
  else if metric == "linf" then some linf
  else none

/-- `Distance::distance` on the two centroid matrices (one `Zip` over all cells, row-major) -/
def distOf (metric : String) (a b : Mat) : Float :=
  if metric == "l2" then Float.sqrt (sqL2 a.flatten b.flatten)
  else if metric == "l1" then l1 a.flatten b.flatten
  else linf a.flatten b.flatten

def inf : Float := 1.0 / 0.0
def ltInf (x : Float) : Bool := x < inf

/-- rectangular, at least one column -/
def wellFormed (p : Nat) (m : Mat) : Bool := m.all (fun r => r.length == p)

def showMat (m : Mat) : String := showList2 showF64 m

def showFitted (f : Option (Fitted Float)) : String :=
  match f with
  | none => "err"
  | some f => s!"C={showMat f.centroids} n={showList toString f.counts} in={showF64c f.inertia}"

structure Setup where
  metric : String
  rd : List Float → List Float → Float
  xs : Mat
  p : Nat
  tol : Float

def setup (toks : List String) : Option Setup := do
  let metric ← arg toks "metric"
  let rd ← rdOf metric
  let xs ← argF64s2 toks "X"
  let tol ← argF64 toks "tol"
  let p := (xs.headD []).length
  if xs.isEmpty || p == 0 || !wellFormed p xs then none
  else some { metric, rd, xs, p, tol }

def okInit (s : Setup) (k : Nat) (c : Mat) : Bool := c.length == k && k != 0 && wellFormed s.p c

def conv (s : Setup) (a b : Mat) : Bool := distOf s.metric a b < s.tol

def doFit (s : Setup) (k m : Nat) (inits : List Mat) : Option (Fitted Float) :=
  fit s.rd (conv s) ltInf k s.xs m inits

def handleClosest (toks : List String) : Option String := do
  let metric ← arg toks "metric"
  let rd ← rdOf metric
  let cs ← argF64s2 toks "C"
  let x ← argF64s toks "x"
  if cs.isEmpty || x.isEmpty || !wellFormed x.length cs then none else
  let r := closest rd cs x
  some s!"ok {r.1} {showF64c r.2}"

def handleUpdate (toks : List String) : Option String := do
  let cs ← argF64s2 toks "C"
  let xs ← argF64s2 toks "X"
  let mem ← argNats toks "mem"
  let p := (cs.headD []).length
  if cs.isEmpty || p == 0 || !wellFormed p cs || !wellFormed p xs || mem.length != xs.length
     || mem.any (fun j => j ≥ cs.length) then none else
  some ("ok " ++ showMat (updateCentroids cs xs mem))

/-- one fit from a precomputed matrix; then predict / transform on the training rows and on `Q` -/
def handleFit (toks : List String) : Option String := do
  let s ← setup toks
  let init ← argF64s2 toks "init"
  let m ← argNat toks "m"
  let q ← argF64s2 toks "Q"
  if m == 0 || !okInit s init.length init || !wellFormed s.p q then none else
  match doFit s init.length m [init] with
  | none => some "err"
  | some f =>
    let a := assign s.rd f.centroids (s.xs ++ q)
    some s!"ok {showFitted (some f)} pred={showList toString (a.map (·.1))} tr={showList showF64c (a.map (·.2))}"

/-- the whole trajectory: budgets `1..M` from the same initial matrix -/
def handleTraj (toks : List String) : Option String := do
  let s ← setup toks
  let init ← argF64s2 toks "init"
  let mm ← argNat toks "M"
  if mm == 0 || !okInit s init.length init then none else
  let parts := (List.range mm).map fun i => s!"m={i + 1} {showFitted (doFit s init.length (i + 1) [init])}"
  some ("ok " ++ " ".intercalate parts)

/-- restarts `1..R`: run `i` starts from `inits[i]` (observed through the hook) -/
def handleRestarts (toks : List String) : Option String := do
  let s ← setup toks
  let inits ← (arg toks "inits").bind (parseList3 parseF64)
  let m ← argNat toks "m"
  let k ← argNat toks "k"
  if m == 0 || inits.isEmpty || !inits.all (okInit s k) then none else
  let rs := (List.range inits.length).map (· + 1)
  let parts := rs.map fun r => s!"r={r} {showFitted (doFit s k m (inits.take r))}"
  some ("ok " ++ " ".intercalate parts)

def handle (toks : List String) : String :=
  let r := match toks with
    | "closest" :: rest => handleClosest rest
    | "update" :: rest => handleUpdate rest
    | "fit" :: rest => handleFit rest
    | "traj" :: rest => handleTraj rest
    | "restarts" :: rest => handleRestarts rest
    | _ => none
  r.getD "bad-op"

end LinfaSpec.Drv.C09
