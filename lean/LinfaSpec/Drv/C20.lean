import LinfaSpec.Model.Proto
import LinfaSpec.Model.Determinism

namespace LinfaSpec.Drv.C20
open LinfaSpec.Proto LinfaSpec.Determinism

def showInts (xs : List Int) : String := showList toString xs
def showNats (xs : List Nat) : String := showList toString xs

/-- events of a request: compute `i` is coded `2*i`, write `i` is `2*i+1` -/
def decodeEvents (codes : List Nat) : List Event :=
  codes.map fun c => if c % 2 = 0 then Event.compute (c / 2) else Event.write (c / 2)

def metricOf (s : String) : Option (List Int → List Int → Int) :=
  match s with
  | "l2" => some sqDist
  | "l1" => some l1Dist
  | _ => none

/-- `parfor which=memb|dist|both metric=l2|l1 mode=tasks|events threads=_ n= d= k= cents= obs= sched=`:
the three k-means updaters executed under the schedule of the request (`mode=tasks`: a permutation of
the tasks; `mode=events`: an interleaving of coded compute / write events, `which=both` only), on
integer lattice data (all arithmetic exact, in f64 and in f32).  Output cells start from sentinels so
that an unwritten cell would show. -/
def handleParFor (toks : List String) : Option String := do
  let which ← arg toks "which"
  let dist ← (arg toks "metric").bind metricOf
  let mode ← arg toks "mode"
  let n ← argNat toks "n"; let d ← argNat toks "d"; let k ← argNat toks "k"
  let cents ← argInts2 toks "cents"; let obs ← argInts2 toks "obs"
  let sched ← argNats toks "sched"
  if cents.length ≠ k ∨ obs.length ≠ n ∨ cents.any (·.length ≠ d) ∨ obs.any (·.length ≠ d) then none
  if k = 0 then some "panic" else
  match mode, which with
  | "tasks", "memb" =>
    let m := updateMemberships dist cents obs sched (List.replicate n 1000000)
    some s!"ok m={showNats m} d=- sum=-"
  | "tasks", "dist" =>
    let ds := updateMinDists dist cents obs sched (List.replicate n (-1))
    some s!"ok m=- d={showInts ds} sum={sumAfterJoin ds}"
  | "tasks", "both" =>
    let r := updateBoth dist cents obs sched (List.replicate n (1000000, (-1 : Int)))
    let ds := r.map (·.2)
    some s!"ok m={showNats (r.map (·.1))} d={showInts ds} sum={sumAfterJoin ds}"
  | "events", "both" =>
    let r := updateBothEvents dist cents obs (decodeEvents sched) (List.replicate n (1000000, (-1 : Int)))
    let ds := r.map (·.2)
    some s!"ok m={showNats (r.map (·.1))} d={showInts ds} sum={sumAfterJoin ds}"
  | _, _ => none

/-- `fitsum form=fit_with|fit metric= n= d= k= cents= obs= sched=`: the assignment step and the
reduction after the join as they run inside `KMeansValidParams::fit_with(None, ·)` / at the end of a
restart of `fit` (precomputed centroids): cluster counts and the inertia numerator `dists.sum()`. -/
def handleFitSum (toks : List String) : Option String := do
  let form ← arg toks "form"
  if form ≠ "fit_with" ∧ form ≠ "fit" then none
  let dist ← (arg toks "metric").bind metricOf
  let n ← argNat toks "n"; let d ← argNat toks "d"; let k ← argNat toks "k"
  let cents ← argInts2 toks "cents"; let obs ← argInts2 toks "obs"
  let sched ← argNats toks "sched"
  if cents.length ≠ k ∨ obs.length ≠ n ∨ cents.any (·.length ≠ d) ∨ obs.any (·.length ≠ d) then none
  if k = 0 ∨ n = 0 then none
  let r := fitWithStep dist cents obs sched (List.replicate n (1000000, (-1 : Int)))
  some s!"ok count={showNats r.1} sum={r.2}"

/-- `fitseq est=_ table=<row of generator state 0>;<row of state 1> seq=<data-set numbers>`: one
parameter object fitted on the data sets `seq` one after another; the answer is the list of model
digests `fitSession` returns (every fit = the first-fit entry of the table). -/
def handleFitSeq (toks : List String) : Option String := do
  let _ ← arg toks "est"
  let tbl ← argNats2 toks "table"
  let seq ← argNats toks "seq"
  if tbl.length ≠ 2 ∨ seq.any (fun d => tbl.any (·.length ≤ d)) then none
  some s!"ok {showNats (fitSession tbl seq)}"

/-- `modal keys= freqs=`: entries in the iteration order of the request -/
def handleModal (toks : List String) : Option String := do
  let keys ← argNats toks "keys"; let freqs ← argInts toks "freqs"
  if keys.length ≠ freqs.length then none
  let m := keys.zip freqs
  match findModalClass m with
  | none => some "panic"
  | some k =>
    -- the statement promises no particular tie-break: with tied maxima only the frequency of the
    -- returned class is compared
    let f := ((m.find? (·.1 == k)).map (·.2)).getD (-1)
    if (m.filter (·.2 == f)).length > 1 then some s!"ok tie max={f}" else some s!"ok {k}"

/-- `nbargmax classes= jll=` (`jll[c][i]`, f64 bit patterns) -/
def handleNb (toks : List String) : Option String := do
  let classes ← argNats toks "classes"
  let jll ← (match arg toks "jll" with
    | some s => parseList2 parseF64 s
    | none => some [])
  if classes.length ≠ jll.length then none
  let n := match jll with | [] => 0 | r :: _ => r.length
  if jll.any (·.length ≠ n) then none
  let tbl := classes.zip jll
  match nbPredict tbl n with
  | none => some "panic"
  | some ps =>
    -- a sample whose maximum is attained by several classes is shown as `t` (any of them is allowed)
    let toks := ps.zipIdx.map fun (c, i) =>
      let v := (((tbl.find? (·.1 == c)).map (·.2)).getD []).getD i 0
      if (tbl.filter fun e => e.2.getD i 0 == v).length > 1 then "t" else toString c
    some s!"ok {",".intercalate toks}"

/-- `labels t= a=<rows> b=<single column> g=<ground truth for column 0>`: rows of a `t`-column target matrix -/
def handleLabels (toks : List String) : Option String := do
  let t ← argNat toks "t"
  let a ← (match arg toks "a" with
    | some s => parseList2 parseNat s
    | none => some [])
  let b ← (match arg toks "b" with
    | some s => parseList parseNat s
    | none => some [])
  if a.any (·.length ≠ t) then none
  let g ← (match arg toks "g" with
    | some s => parseList parseNat s
    | none => some [])
  let cols := (List.range t).map fun j => a.map fun r => r.getD j 0
  -- `confusion_matrix` of the first target column against `g` (same length): its sorted `members`
  let cm := if g.length = a.length then showNats (cmMembers (cols.getD 0 []) g) else "mismatch"
  some s!"ok labels={showNats (sortedLabels cols)} combined={showNats (sortedCombinedLabels cols [b])} cm={cm}"

def parseStop (s : String) : Option (Stop Float) :=
  match s.splitOn ":" with
  | ["num", k] => (parseNat k).map Stop.numClusters
  | ["dist", h] => (parseF64 h).map Stop.distance
  | _ => none

/-- `hier n= stop=num:k|dist:<f64> steps=c1,c2;… diss=<f64>,…` -/
def handleHier (toks : List String) : Option String := do
  let n ← argNat toks "n"
  let stop ← (arg toks "stop").bind parseStop
  let steps ← (match arg toks "steps" with
    | some s => parseList2 parseNat s
    | none => some [])
  let diss ← (match arg toks "diss" with
    | some s => parseList parseF64 s
    | none => some [])
  if steps.length ≠ diss.length ∨ steps.any (·.length ≠ 2) then none
  -- ParamGuard::check_ref
  let invalid := match stop with
    | .numClusters 0 => true
    | .distance x => x < 0 || x.isNaN || x.isInf
    | _ => false
  if invalid then some "err" else
  let st := (steps.zip diss).map fun (p, d) => (p.getD 0 0, p.getD 1 0, d)
  match hierTransform n stop st with
  | none => some "panic"
  | some ls => some s!"ok {showNats ls}"

def showWord (w : List Nat) : String := ".".intercalate (w.map toString)

/-- `vocab docs=<token ids per document> lo= hi= minabs= maxabs= stop=<words> cap=none|k rev=0|1`:
`CountVectorizer::fit` on documents given as token-id lists (a word = its token list, ordered like
the strings the harness builds from fixed-width tokens).  The per-document hash set is handed to
the model in first-occurrence order (`rev=0`) or reversed (`rev=1`) — the theorems say the order
cannot matter.  Answer: the learned (word, document frequency) pairs sorted by word. -/
def handleVocab (toks : List String) : Option String := do
  let docs ← argNats2 toks "docs"
  let lo ← argNat toks "lo"; let hi ← argNat toks "hi"
  let minabs ← argNat toks "minabs"; let maxabs ← argNat toks "maxabs"
  let stop ← argNats2 toks "stop"
  let cap ← (match arg toks "cap" with
    | some "none" => some none
    | some s => (parseNat s).map some
    | none => none)
  let rev ← argNat toks "rev"
  if rev > 1 then none
  -- ParamGuard::check_ref of CountVectorizerParams (n-gram boundaries)
  if lo = 0 ∨ hi = 0 ∨ hi < lo then some "err" else
  let sets := docs.map fun d =>
    let s := (ngrams d lo hi).eraseDups
    if rev = 1 then s.reverse else s
  let v := sortByKey (fitVocabulary sets minabs maxabs stop cap)
  let showV := fun (l : List (List Nat × Nat)) => showList (fun e => showWord e.1 ++ "=" ++ toString e.2) l
  -- the statement promises the same vocabulary on every run, not which of several words of equal
  -- document frequency survive the cut: when the cut falls inside a group of equal frequencies
  -- only the words above that frequency and the number kept at it are compared
  let fs := ((fitVocabulary sets minabs maxabs stop none).map (·.2)).mergeSort (fun x y => decide (y ≤ x))
  match cap with
  | some k =>
    if k ≥ 1 ∧ k < fs.length ∧ fs.getD (k - 1) 0 = fs.getD k 0 then
      let f := fs.getD k 0
      let above := v.filter (fun e => f < e.2)
      some s!"ok n={v.length} vocab={showV above} tie={f}x{(v.filter (fun e => e.2 = f)).length}"
    else some s!"ok n={v.length} vocab={showV v} tie=-"
  | none => some s!"ok n={v.length} vocab={showV v} tie=-"

def handle (toks : List String) : String :=
  let r := match toks with
    | "parfor" :: rest => handleParFor rest
    | "fitsum" :: rest => handleFitSum rest
    | "fitseq" :: rest => handleFitSeq rest
    | "modal" :: rest => handleModal rest
    | "nbargmax" :: rest => handleNb rest
    | "labels" :: rest => handleLabels rest
    | "hier" :: rest => handleHier rest
    | "vocab" :: rest => handleVocab rest
    | _ => none
  r.getD "bad-op"

end LinfaSpec.Drv.C20
