import LinfaSpec.Model.Proto
import LinfaSpec.Model.ParamGuard
import LinfaSpec.Model.ParamRanges
import LinfaSpec.Gen.C04Params

namespace LinfaSpec.Drv.C04
open LinfaSpec.Proto LinfaSpec.ParamGuard

def showRes : Except String Unit → String
  | .ok _ => "ok"
  | .error t => "err:" ++ t

/-- the constants `SvmParams::new()` and the regression setters insert, as f64 bit patterns
(`F::one()`, `F::cast(0.1)`, `F::cast(1e-7)`): the setter model runs on the request's hex tokens -/
def svmConsts : SvmConsts String := { one := "3ff0000000000000", tenth := "3fb999999999999a", eps0 := "3e7ad7f29abcaf48" }

def optTok (s : String) : Option (Option String) :=
  if s = "none" then some none else if s.length = 16 then some (some s) else none
def hexTok (s : String) : Option String := if s.length = 16 && (parseHex s).isSome then some s else none

/-- one setter call `name:arg[,arg]` -/
def parseSvmSet (s : String) : Option (SvmSet String) :=
  match s.splitOn ":" with
  | [name, args] =>
    match name, args.splitOn "," with
    | "eps", [x] => (hexTok x).map .eps
    | "pn", [a, b] => do pure (.posNeg (← hexTok a) (← hexTok b))
    | "nuw", [v] => (hexTok v).map .nuWeight
    | "ceps", [c, e] => do pure (.cEps (← hexTok c) (← hexTok e))
    | "nueps", [n, e] => do pure (.nuEps (← hexTok n) (← hexTok e))
    | "csvr", [c, l] => do pure (.cSvr (← hexTok c) (← optTok l))
    | "nusvr", [n, c] => do pure (.nuSvr (← hexTok n) (← optTok c))
    | _, _ => none
  | _ => none

def showPairTok : Option (String × String) → String
  | none => "none"
  | some (a, b) => a ++ "," ++ b

/-- `b=Svm via=setters ops=s1;s2;…`: the call chain is run through the setter model; the resulting fields are
handed to the generated guard as if they had been in the request -/
def svmSetterToks (toks : List String) : Option (List String × String) := do
  let ops ← (arg toks "ops").bind fun s => (splitOn' (if s = "-" then "" else s) ";").mapM parseSvmSet
  let st := svmRun svmConsts ops
  let extra := [s!"solver_params_eps={st.eps}", s!"c={showPairTok st.c}", s!"nu={showPairTok st.nu}"]
  some (toks ++ extra, s!" eps={st.eps} c={showPairTok st.c} nu={showPairTok st.nu}")

/-- `grid b=<Builder> [via=<form>] field=value …`: the generated `check` on the decoded parameter point, through the
trait-level code (`check_ref`, `check`, and the entry point named by `via`: blanket `fit`/`fit_with`/`transform`,
or one of the hand-written forms, over an abstract inner fit that always trains), next to the documented range and
finiteness of the point. -/
def handleGrid (toks0 : List String) : Option String := do
  let b ← arg toks0 "b"
  let via := (arg toks0 "via").getD "blanket"
  let (toks, tail) ← if b = "Svm" && via = "setters" then svmSetterToks toks0 else some (toks0, "")
  -- `rebuild=<setter>[:after|:before]`: a setter that does not assign a guarded field was applied after / before the
  -- value setters of the request; the model applies its rebuild function to the decoded point
  -- `b=CountVectorizer sets=<call chain>`: the request carries only the setter calls; the parameters are what the setter
  -- model (`cvRun`; through the wrapper's `tfidfSet` for the TfIdfVectorizer entry points) leaves in the builder
  let cvChain := b = "CountVectorizer" && (arg toks0 "sets").isSome
  let (chk, inr, fin, tail) ←
    if cvChain then do
      let p ← Ranges.cvOfChain (via.startsWith "wrap") toks0
      some (Gen.C04.CountVectorizer.check p, decide (Ranges.CountVectorizer.InRange p), decide (Ranges.CountVectorizer.Finite p),
        s!" ng={p.n_gram_range.1},{p.n_gram_range.2} rok={if p.split_regex_ok then 1 else 0}")
    else do
      let chk ← match arg toks0 "rebuild" with
        | none => Gen.C04.checkByName b toks
        | some variant => Ranges.checkRebuilt b variant toks
      let (inr, fin) ← Ranges.rangeByName b toks
      some (chk, inr, fin, tail)
  -- `b=ElasticNet … max_iterations=<n>`: the full documented range (`DocRange`: the parameter table also bounds a field
  -- no guard reads) on the request's own `max_iterations`
  let tail ← match (if b = "ElasticNet" then arg toks0 "max_iterations" else none) with
    | none => some tail
    | some s => do
      let mi ← parseNat s
      let p ← Gen.C04.ElasticNet.parse toks
      some (tail ++ s!" docrange={if decide (Ranges.ElasticNet.DocRange p mi) then 1 else 0}")
  -- trait level: the parameter point is a token (`()`): the decision depends on the guard only
  let guard : Unit → Except String Unit := fun _ => chk
  let r := checkRef guard ()
  let v := checkVal guard ()
  let f : Except String String := fitUnchecked guard id (fun _ (_ : Unit) => .ok "as-checked") () ()
  let fw : Except String String := fitWithUnchecked guard id (fun _ (_ : Unit) (_ : Unit) => .ok "as-checked") () () ()
  let tr : Except String String := transformUnchecked guard (fun _ (_ : Unit) => "as-checked") () ()
  let tt : Except String String := tryTransformUnchecked guard id (fun _ (_ : Unit) => .ok "as-checked") () ()
  let at_ : Except String String := andThenUnchecked guard (fun _ (_ : Unit) => .ok "as-checked") () ()
  let wr : Except String String := wrapUnchecked guard (fun _ (_ : Unit) => (.ok () : Except String Unit)) (fun _ => "as-checked") () ()
  let sh : Except String String → String := fun x => match x with | .ok s => s | .error t => "err:" ++ t
  -- the entry point the request went through (the family is the part of `via` before the first `:`)
  let fam := (via.splitOn ":").headD ""
  let res ← match fam with
    | "blanket" => if (sh f != sh fw) || (sh f != sh tr) then none else some f
    | "setters" => some f
    | "fit" => some f
    | "fit_with" => some fw
    | "transform" => some tr
    | "try" => some tt
    | "and_then" => some at_
    | "wrap" => some wr
    | _ => none
  -- accepted non-finite points are outside the property: the harness does not train with them
  let fitS := if (match chk with | .ok _ => true | _ => false) && !fin then "skipped" else sh res
  some s!"ref={showRes (r.map fun _ => ())} val={showRes (v.map fun _ => ())} fit={fitS} inrange={if inr then 1 else 0} finite={if fin then 1 else 0}{tail}"

def handle (toks : List String) : String :=
  let r := match toks with
    | "grid" :: rest => handleGrid rest
    | _ => none
  r.getD "bad-op"

end LinfaSpec.Drv.C04
