import LinfaSpec.Model.Proto
import LinfaSpec.Model.ParamGuard
import LinfaSpec.Model.ParamRanges
import LinfaSpec.Gen.C04Params

namespace LinfaSpec.Drv.C04
open LinfaSpec.Proto LinfaSpec.ParamGuard

def showRes : Except String Unit → String
  | .ok _ => "ok"
  | .error t => "err:" ++ t

/-- `grid b=<Builder> field=value …`: the generated `check` on the decoded parameter point, through the
trait-level code (`check_ref`, `check`, blanket `fit`/`fit_with`/`transform` over an abstract inner fit that
always trains), next to the documented range and finiteness of the point. -/
def handleGrid (toks : List String) : Option String := do
  let b ← arg toks "b"
  let chk ← Gen.C04.checkByName b toks
  let (inr, fin) ← Ranges.rangeByName b toks
  -- trait level: the parameter point is a token (`()`): the decision depends on the guard only
  let guard : Unit → Except String Unit := fun _ => chk
  let r := checkRef guard ()
  let v := checkVal guard ()
  let f : Except String String := fitUnchecked guard id (fun _ (_ : Unit) => .ok "as-checked") () ()
  let fw : Except String String := fitWithUnchecked guard id (fun _ (_ : Unit) (_ : Unit) => .ok "as-checked") () () ()
  let tr : Except String String := transformUnchecked guard (fun _ (_ : Unit) => "as-checked") () ()
  let sh : Except String String → String := fun x => match x with | .ok s => s | .error t => "err:" ++ t
  -- the three blanket impls take the same decision; the harness reports the one the builder has
  if (sh f != sh fw) || (sh f != sh tr) then none else
  -- accepted non-finite points are outside the property: the harness does not train with them
  let fitS := if (match chk with | .ok _ => true | _ => false) && !fin then "skipped" else sh f
  some s!"ref={showRes (r.map fun _ => ())} val={showRes (v.map fun _ => ())} fit={fitS} inrange={if inr then 1 else 0} finite={if fin then 1 else 0}"

def handle (toks : List String) : String :=
  let r := match toks with
    | "grid" :: rest => handleGrid rest
    | _ => none
  r.getD "bad-op"

end LinfaSpec.Drv.C04
