import LinfaSpec.Model.Proto
import LinfaSpec.Model.Scalar
import LinfaSpec.Model.Scaling

namespace LinfaSpec.Drv.C16
open LinfaSpec.Proto LinfaSpec.Scaling

/-- `f64::EPSILON` = 2^-52 -/
def epsF : Float := Float.ofBits 0x3CB0000000000000

def errName : FitErr → String
  | .notEnoughSamples => "NotEnoughSamples"
  | .flippedMinMaxRange => "FlippedMinMaxRange"

def tilde (x : Float) : String := "~" ++ showF64c x

/-- `approx` marks the tokens compared with a tolerance (`~`), `exact` the bit-compared ones -/
def showScaler (approx : Bool) (sc : Scaler Float) (y : Option (List (List Float))) : String :=
  let f := if approx then tilde else showF64c
  match y with
  | none => "panic"
  | some y => s!"ok off={showList showF64c sc.offsets} sc={showList f sc.scales} y={showList2 f y}"

def finish (approx : Bool) (px : Nat) (x : List (List Float)) :
    Except FitErr (Scaler Float) → String
  | .error e => "err " ++ errName e
  | .ok sc => showScaler approx sc (transform sc px x)

/-- memory layouts the harness drives (`C`, `F`, strided window `S`): the model is layout-free, the
token is validated so that an unknown form is never answered silently -/
def layOk (toks : List String) (key : String) : Option Unit :=
  match arg toks key with
  | some "C" | some "F" | some "S" => some ()
  | _ => none

/-- the parameter object built by the calling form `via` -/
def paramsVia (via : String) (m : Method Float) : Option (Params Float) :=
  match via with
  | "new" => some (Params.new m)
  | "setter" =>
    match m with
    | .maxAbs => some (Params.standard.setMethod m)
    | _ => some (Params.maxAbs.setMethod m)
  | "ctor" =>
    match m with
    | .standard true true => some Params.standard
    | .standard false true => some Params.standardNoMean
    | .standard true false => some Params.standardNoStd
    | .standard false false => none
    | .minMax lo hi => if lo == 0 && hi == 1 then some Params.minMax else some (Params.minMaxRange lo hi)
    | .maxAbs => some Params.maxAbs
  | _ => none

/-- the dataset handed to `fit`: the records and (possibly) sample weights, one per row -/
def fitDs (toks : List String) (fit : List (List Float)) : Option (DS (List (List Float)) Unit (List Nat)) := do
  let w ← argNats toks "wts"
  if w.isEmpty || w.length == fit.length then
    some { records := fit, targets := (), weights := w, featureNames := [], targetNames := [] }
  else none

def handleLin (approx : Bool) (m : Method Float) (toks : List String) : Option String := do
  let via ← arg toks "via"
  layOk toks "layf"; layOk toks "layx"
  let pf ← argNat toks "pf"; let px ← argNat toks "px"
  let fit ← argF64s2 toks "fit"; let x ← argF64s2 toks "x"
  let q ← paramsVia via m
  let ds ← fitDs toks fit
  some (finish approx px x (fitDataset epsF pf q ds))

def handleStd (toks : List String) : Option String := do
  let wm ← argNat toks "wm"; let ws ← argNat toks "ws"
  if wm > 1 ∨ ws > 1 then none
  else handleLin true (.standard (wm == 1) (ws == 1)) toks

def handleMinMax (toks : List String) : Option String := do
  let lo ← argF64 toks "lo"; let hi ← argF64 toks "hi"
  handleLin false (.minMax lo hi) toks

def handleMaxAbs (toks : List String) : Option String := handleLin false .maxAbs toks

def parseKind : String → Option NormKind
  | "l1" => some .l1 | "l2" => some .l2 | "max" => some .max | _ => none

def handleNorm (toks : List String) : Option String := do
  let k ← (arg toks "kind").bind parseKind
  layOk toks "lay"
  let x ← argF64s2 toks "x"
  some ("ok y=" ++ showList2 showF64c (normTransform k x))

def parseWMethod : String → Option WMethod
  | "pca" => some .pca | "zca" => some .zca | "chol" => some .cholesky | _ => none

/-- the `Whitener` built by the calling form: constructor, or another constructor then the setter -/
def wparamsVia (via : String) (m : WMethod) : Option WParams :=
  match via with
  | "ctor" => some (match m with | .pca => WParams.pca | .zca => WParams.zca | .cholesky => WParams.cholesky)
  | "setter" =>
    some (match m with
      | .pca => WParams.zca.setMethod .pca
      | .zca => WParams.cholesky.setMethod .zca
      | .cholesky => WParams.pca.setMethod .cholesky)
  | _ => none

/-- `F::cast(1e-8)`, the floor of the PCA / ZCA branches -/
def floorF : Float := Float.ofBits 0x3E45798EE2308C3A

/-- the external factorisations as the request delivers them: `s=`, `vt=` (the result of
`sigma.svd(false, true)`, used by the PCA branch only) and `W=` together with the method whose branch
produced it (ZCA, Cholesky: the whole branch is external).  A branch whose factor is not in the
request fails, so the branch that runs is the one of the parameter object the calling form built. -/
def factorOf (toks : List String) : Factor Float Unit :=
  { svdVt := fun _ =>
      match argF64s toks "s", argF64s2 toks "vt" with
      | some s, some vt => .ok (s, vt)
      | _, _ => .error ()
    zca := fun _ =>
      match arg toks "method", argF64s2 toks "W" with
      | some "zca", some W => .ok W
      | _, _ => .error ()
    chol := fun _ =>
      match arg toks "method", argF64s2 toks "W" with
      | some "chol", some W => .ok W
      | _, _ => .error () }

/-- whitening, answered through `whitenFitDataset` (emptiness guard, mean, centring, the branch of the
parameter object's method): PCA assembles its matrix in the model (`pcaAssemble`: floor `1e-8`,
`sqrt(n-1) / s`) from the singular values and `Vᵀ` in the request and returns it bit for bit; for ZCA and
Cholesky the matrix of the real factorisation travels in the request.  Each output entry is divided by
its backward-error scale `Σ_i |x_i - mean_i| |W_ai|` (same operations as the harness). -/
def handleWhiten (toks : List String) : Option String := do
  let m ← (arg toks "method").bind parseWMethod
  let via ← arg toks "via"
  layOk toks "layf"; layOk toks "layx"
  let pf ← argNat toks "pf"
  let fit ← argF64s2 toks "fit"; let x ← argF64s2 toks "x"
  let q ← wparamsVia via m
  let ds ← fitDs toks fit
  match whitenFitDataset floorF (factorOf toks) q pf ds with
  | .error (.inl e) => some ("err " ++ errName e)
  | .error (.inr _) => none
  | .ok (mean, W) =>
    let y := x.map fun r =>
      let c := List.zipWith (fun v m => v - m) r mean
      List.zipWith (fun (v : Float) (w : List Float) =>
        let scale := (List.zipWith (fun ci wi => absS ci * absS wi) c w).foldl (· + ·) 0
        if scale > 0 then v / scale else v) (whitenRow mean W r) W
    let wtok := if m == .pca then " W=" ++ showList2 showF64c W else ""
    some s!"ok mean={showList showF64c mean}{wtok} y={showList2 tilde y}"

/-- dataset form: records are abstracted to their width; `pout` is the width of
the transformed records, targets are `n × t` tags, weights a list of tags. -/
def handleDs (toks : List String) : Option String := do
  let pout ← argNat toks "pout"; let t ← argNat toks "t"
  let tg ← argNats2 toks "tg"; let w ← argNats toks "w"
  let fnm ← argNats toks "fn"; let tn ← argNats toks "tn"
  let fails ← argNat toks "fpanic"
  let _ ← argNat toks "var"
  layOk toks "lay"
  let carrier ← arg toks "carrier"; let view ← argNat toks "view"
  if (carrier != "f32" && carrier != "f64") || view > 1 then none else
  let ds : DS Unit (List (List Nat)) (List Nat) :=
    { records := (), targets := tg, weights := w,
      featureNames := fnm.map toString, targetNames := tn.map toString }
  match transformDataset (R' := Nat) (fun _ => if fails = 1 then none else some pout) id (fun _ => t) ds with
  | none => some "panic"
  | some o =>
    some s!"ok tg={showList2 toString o.targets} w={showList toString o.weights} fn={",".intercalate o.featureNames} tn={",".intercalate o.targetNames}"

def handle (toks : List String) : String :=
  let r := match toks with
    | "std" :: rest => handleStd rest
    | "minmax" :: rest => handleMinMax rest
    | "maxabs" :: rest => handleMaxAbs rest
    | "norm" :: rest => handleNorm rest
    | "whiten" :: rest => handleWhiten rest
    | "ds" :: rest => handleDs rest
    | _ => none
  r.getD "bad-op"

end LinfaSpec.Drv.C16
