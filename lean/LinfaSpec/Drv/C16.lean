import LinfaSpec.Model.Proto
import LinfaSpec.Model.Scalar
import LinfaSpec.Model.Scaling

namespace LinfaSpec.Drv.C16
open LinfaSpec.Proto LinfaSpec.Scaling

/-- `f64::EPSILON` = 2^-52 -/
def epsF : Float := Float.ofBits 0x3CB0000000000000

def errName : FitErr → String
  | .notEnoughSamples => "NotEnoughSamples"
  | .flippedMinMaxRange => "FlippedMinMaxRange"

def tilde (x : Float) : String := "~" ++ showF64c x

/-- `approx` marks the tokens compared with a tolerance (`~`), `exact` the bit-compared ones -/
def showScaler (approx : Bool) (sc : Scaler Float) (y : Option (List (List Float))) : String :=
  let f := if approx then tilde else showF64c
  match y with
  | none => "panic"
  | some y => s!"ok off={showList showF64c sc.offsets} sc={showList f sc.scales} y={showList2 f y}"

def finish (approx : Bool) (px : Nat) (x : List (List Float)) :
    Except FitErr (Scaler Float) → String
  | .error e => "err " ++ errName e
  | .ok sc => showScaler approx sc (transform sc px x)

def handleStd (toks : List String) : Option String := do
  let wm ← argNat toks "wm"; let ws ← argNat toks "ws"
  let pf ← argNat toks "pf"; let px ← argNat toks "px"
  let fit ← argF64s2 toks "fit"; let x ← argF64s2 toks "x"
  if wm > 1 ∨ ws > 1 then none
  else some (finish true px x (fitStandard epsF pf fit (wm == 1) (ws == 1)))

def handleMinMax (toks : List String) : Option String := do
  let lo ← argF64 toks "lo"; let hi ← argF64 toks "hi"
  let pf ← argNat toks "pf"; let px ← argNat toks "px"
  let fit ← argF64s2 toks "fit"; let x ← argF64s2 toks "x"
  some (finish false px x (fitMinMax epsF pf fit lo hi))

def handleMaxAbs (toks : List String) : Option String := do
  let pf ← argNat toks "pf"; let px ← argNat toks "px"
  let fit ← argF64s2 toks "fit"; let x ← argF64s2 toks "x"
  some (finish false px x (fitMaxAbs epsF pf fit))

def parseKind : String → Option NormKind
  | "l1" => some .l1 | "l2" => some .l2 | "max" => some .max | _ => none

def handleNorm (toks : List String) : Option String := do
  let k ← (arg toks "kind").bind parseKind
  let x ← argF64s2 toks "x"
  some ("ok y=" ++ showList2 showF64c (normTransform k x))

/-- whitening: the matrix `W` found by the real SVD / Cholesky travels in the
request (external, validated by its contract in the harness); the model supplies
the emptiness guard, the mean and the transform. -/
def handleWhiten (toks : List String) : Option String := do
  let pf ← argNat toks "pf"
  let fit ← argF64s2 toks "fit"; let x ← argF64s2 toks "x"
  let W ← argF64s2 toks "W"
  match whitenFit (ε := Unit) (fun _ => .ok W) pf fit with
  | .error (.inl e) => some ("err " ++ errName e)
  | .error (.inr _) => none
  | .ok (mean, W) =>
    -- backward-error scale of the matrix product (see harness): p * max|W| * max|x - mean|
    let wmax := W.flatten.foldl (fun a v => if a < absS v then absS v else a) 0
    let cmax := (x.map fun r => List.zipWith (fun v m => absS (v - m)) r mean).flatten.foldl
      (fun a c => if a < c then c else a) 0
    let kappa := Float.ofNat pf * wmax * cmax
    let kappa := if kappa > 0 then kappa else 1
    let y := (whitenTransform mean W x).map fun r => r.map (· / kappa)
    some s!"ok mean={showList showF64c mean} kappa={showF64c kappa} y={showList2 tilde y}"

/-- dataset form: records are abstracted to their width; `pout` is the width of
the transformed records, targets are `n × t` tags, weights a list of tags. -/
def handleDs (toks : List String) : Option String := do
  let pout ← argNat toks "pout"; let t ← argNat toks "t"
  let tg ← argNats2 toks "tg"; let w ← argNats toks "w"
  let fnm ← argNats toks "fn"; let tn ← argNats toks "tn"
  let fails ← argNat toks "fpanic"
  let ds : DS Unit (List (List Nat)) (List Nat) :=
    { records := (), targets := tg, weights := w,
      featureNames := fnm.map toString, targetNames := tn.map toString }
  match transformDataset (R' := Nat) (fun _ => if fails = 1 then none else some pout) id (fun _ => t) ds with
  | none => some "panic"
  | some o =>
    some s!"ok tg={showList2 toString o.targets} w={showList toString o.weights} fn={",".intercalate o.featureNames} tn={",".intercalate o.targetNames}"

def handle (toks : List String) : String :=
  let r := match toks with
    | "std" :: rest => handleStd rest
    | "minmax" :: rest => handleMinMax rest
    | "maxabs" :: rest => handleMaxAbs rest
    | "norm" :: rest => handleNorm rest
    | "whiten" :: rest => handleWhiten rest
    | "ds" :: rest => handleDs rest
    | _ => none
  r.getD "bad-op"

end LinfaSpec.Drv.C16
