import LinfaSpec.Model.Scaling
import Mathlib.Algebra.Order.Field.Basic
import Mathlib.Algebra.BigOperators.Group.List.Basic
import Mathlib.Tactic.Ring
import Mathlib.Tactic.Linarith
import Mathlib.Tactic.FieldSimp
import Mathlib.Tactic.Positivity

/-!
Helper lemmas for C16 (`Model/Scaling.lean`) over an ordered field.
-/
namespace LinfaSpec.Proofs.Scaling
open LinfaSpec LinfaSpec.Scaling

set_option linter.unusedSectionVars false
set_option linter.unusedVariables false

variable {α : Type} [Field α] [LinearOrder α] [IsStrictOrderedRing α]

theorem sumS_eq (l : List α) : sumS l = l.sum := by
  unfold sumS
  rw [List.sum_eq_foldl]

theorem absS_eq (x : α) : absS x = |x| := by
  unfold absS
  split
  · rename_i h; rw [abs_of_neg h]
  · rename_i h; rw [abs_of_nonneg (not_lt.mp h)]

/-- sum of an affine image -/
theorem sum_map_affine (l : List α) (a b : α) :
    (l.map fun x => a * x + b).sum = a * l.sum + (l.length : α) * b := by
  induction l with
  | nil => simp
  | cons x xs ih => simp only [List.map_cons, List.sum_cons, List.length_cons, ih]; push_cast; ring

/-- sum of squares of an affine image -/
theorem sumsq_map_affine (l : List α) (a b : α) :
    (l.map fun x => (a * x + b) * (a * x + b)).sum =
      a * a * (l.map fun x => x * x).sum + 2 * a * b * l.sum + (l.length : α) * (b * b) := by
  induction l with
  | nil => simp
  | cons x xs ih => simp only [List.map_cons, List.sum_cons, List.length_cons, ih]; push_cast; ring

/-- the state of ndarray's Welford loop after a whole lane:
`(S/n, Q - S²/n, n)` with `S = Σx`, `Q = Σx²` -/
theorem welford_state (l : List α) :
    l.foldl welfordStep ((0 : α), (0 : α), 0) =
      (l.sum / (l.length : α), (l.map fun x => x * x).sum - l.sum * l.sum / (l.length : α), l.length) := by
  induction l using List.reverseRecOn with
  | nil => simp
  | append_singleton xs x ih =>
    rw [List.foldl_append, ih]
    simp only [List.foldl_cons, List.foldl_nil, welfordStep, List.map_append, List.sum_append,
      List.map_cons, List.map_nil, List.sum_cons, List.sum_nil, List.length_append, List.length_cons,
      List.length_nil]
    rcases xs with _ | ⟨y, ys⟩
    · simp
    · have hn : ((List.length (y :: ys) : Nat) : α) ≠ 0 := by
        simp only [List.length_cons]; push_cast; positivity
      have hn1 : (((List.length (y :: ys) + 1 : Nat)) : α) ≠ 0 := by push_cast; positivity
      refine Prod.ext ?_ (Prod.ext ?_ rfl)
      · simp only; push_cast at hn hn1 ⊢; field_simp; ring
      · simp only; push_cast at hn hn1 ⊢; field_simp; ring



theorem meanCol_eq (l : List α) : meanCol l = l.sum / (l.length : α) := by
  unfold meanCol; rw [sumS_eq]

theorem varCol_eq (l : List α) :
    varCol 0 l = ((l.map fun x => x * x).sum - l.sum * l.sum / (l.length : α)) / (l.length : α) := by
  unfold varCol; rw [welford_state]; simp

theorem length_pos_cast {l : List α} (h : l ≠ []) : (0 : α) < (l.length : α) := by
  have : 0 < l.length := List.length_pos_iff.mpr h
  exact_mod_cast this

/-- mean of an affine image -/
theorem meanCol_affine (l : List α) (h : l ≠ []) (a b : α) :
    meanCol (l.map fun x => a * x + b) = a * meanCol l + b := by
  have hn := (length_pos_cast h).ne'
  rw [meanCol_eq, meanCol_eq, sum_map_affine, List.length_map]
  field_simp

/-- variance of an affine image -/
theorem varCol_affine (l : List α) (a b : α) :
    varCol 0 (l.map fun x => a * x + b) = a * a * varCol 0 l := by
  rcases l with _ | ⟨y, ys⟩
  · simp [varCol_eq]
  · have hn := (length_pos_cast (List.cons_ne_nil y ys)).ne'
    rw [varCol_eq, varCol_eq, sum_map_affine, List.length_map, List.map_map]
    have := sumsq_map_affine (y :: ys) a b
    simp only [Function.comp_def] at this ⊢
    rw [this]
    field_simp
    ring

/-- Welford's result is the textbook population variance -/
theorem varCol_textbook (l : List α) (h : l ≠ []) :
    varCol 0 l = (l.map fun x => (x - meanCol l) * (x - meanCol l)).sum / (l.length : α) := by
  have hn := (length_pos_cast h).ne'
  have := sumsq_map_affine l 1 (-meanCol l)
  simp only [one_mul] at this
  have e : (l.map fun x => (x - meanCol l) * (x - meanCol l)) =
      (l.map fun x => (x + -meanCol l) * (x + -meanCol l)) := by
    apply List.map_congr_left; intro x _; ring
  rw [e, this, varCol_eq, meanCol_eq]
  field_simp
  ring

theorem sum_nonneg_of_sq (l : List α) (m : α) : 0 ≤ (l.map fun x => (x - m) * (x - m)).sum := by
  induction l with
  | nil => simp
  | cons x xs ih => simp only [List.map_cons, List.sum_cons]; have := mul_self_nonneg (x - m); linarith

theorem varCol_nonneg (l : List α) : 0 ≤ varCol 0 l := by
  rcases l with _ | ⟨y, ys⟩
  · simp [varCol_eq]
  · rw [varCol_textbook _ (List.cons_ne_nil y ys)]
    exact div_nonneg (sum_nonneg_of_sq _ _) (length_pos_cast (List.cons_ne_nil y ys)).le

theorem sum_const (l : List α) (c : α) (h : ∀ x ∈ l, x = c) : l.sum = (l.length : α) * c := by
  induction l with
  | nil => simp
  | cons x xs ih =>
    have hx : x = c := h x (by simp)
    have := ih (fun y hy => h y (by simp [hy]))
    simp only [List.sum_cons, List.length_cons, this, hx]; push_cast; ring

theorem meanCol_const (l : List α) (hl : l ≠ []) (c : α) (h : ∀ x ∈ l, x = c) : meanCol l = c := by
  have hn := (length_pos_cast hl).ne'
  rw [meanCol_eq, sum_const l c h]; field_simp

theorem varCol_const (l : List α) (c : α) (h : ∀ x ∈ l, x = c) : varCol 0 l = 0 := by
  rcases l with _ | ⟨y, ys⟩
  · simp [varCol_eq]
  · have hl := List.cons_ne_nil y ys
    rw [varCol_textbook _ hl, meanCol_const _ hl c h]
    have : ((y :: ys).map fun x => (x - c) * (x - c)) = (y :: ys).map fun _ => (0 : α) := by
      apply List.map_congr_left; intro x hx; rw [h x hx]; ring
    rw [this]; simp

/-! ### columns of a transformed matrix -/

theorem getD_zipWith3 (f : α → α × α → α) (r o s : List α) (j : Nat) (hr : j < r.length)
    (ho : j < o.length) (hs : j < s.length) :
    (List.zipWith f r (o.zip s)).getD j 0 = f (r.getD j 0) (o.getD j 0, s.getD j 0) := by
  have hz : j < (o.zip s).length := by simp only [List.length_zip]; omega
  simp [List.getD_eq_getElem?_getD, List.getElem?_zipWith, List.getElem?_eq_getElem hr,
    List.getElem?_eq_getElem ho, List.getElem?_eq_getElem hs, List.getElem?_eq_getElem hz,
    List.getElem_zip]

theorem col_map_transformRow (sc : Scaler α) (p : Nat) (rows : List (List α))
    (ho : sc.offsets.length = p) (hs : sc.scales.length = p)
    (hrows : ∀ r ∈ rows, r.length = p) (j : Nat) (hj : j < p) :
    col (rows.map (transformRow sc)) j =
      (col rows j).map fun x => transformCell sc.method x (sc.offsets.getD j 0) (sc.scales.getD j 0) := by
  unfold col
  rw [List.map_map, List.map_map]
  apply List.map_congr_left
  intro r hr
  simp only [Function.comp_def, transformRow]
  rw [getD_zipWith3 _ _ _ _ _ (by rw [hrows r hr]; exact hj) (by omega) (by omega)]

theorem transform_some (sc : Scaler α) (p : Nat) (rows : List (List α)) (ho : sc.offsets.length = p)
    (hrows : ∀ r ∈ rows, r.length = p) : transform sc p rows = some (rows.map (transformRow sc)) := by
  unfold transform
  by_cases h0 : rows.length = 0 ∨ p = 0
  · rw [if_pos h0]
    rcases h0 with h0 | h0
    · rw [List.length_eq_zero_iff.mp h0]; rfl
    · congr 1
      symm
      have : ∀ r ∈ rows, transformRow sc r = r := by
        intro r hr
        have : r = [] := List.length_eq_zero_iff.mp (by rw [hrows r hr, h0])
        subst this; simp [transformRow]
      rw [List.map_congr_left this]; simp
  · rw [if_neg h0, if_neg (by omega)]

theorem getD_cols_map (f : List α → α) (p : Nat) (rows : List (List α)) (j : Nat) (hj : j < p) :
    ((cols p rows).map f).getD j 0 = f (col rows j) := by
  simp [cols, List.getD_eq_getElem?_getD, List.getElem?_map, List.getElem?_range hj]



/-! ### the constant-feature guard -/

theorem invOrOne_of_gt (eps s : α) (h0 : 0 ≤ eps) (h : eps < s) : invOrOne eps s = 1 / s := by
  unfold invOrOne absDiffEq
  rw [absS_eq, sub_zero, abs_of_pos (lt_of_le_of_lt h0 h)]
  simp [not_le.mpr h]

theorem invOrOne_zero (eps : α) (h0 : 0 ≤ eps) : invOrOne eps 0 = 1 := by
  unfold invOrOne absDiffEq
  rw [absS_eq, sub_zero, abs_zero]
  simp [h0]

/-! ### running minimum / maximum -/

theorem foldl_min_spec (l : List α) (a : α) :
    let R := l.foldl (fun acc el => if acc < el then acc else el) a
    R ≤ a ∧ (∀ x ∈ l, R ≤ x) ∧ (R = a ∨ R ∈ l) := by
  induction l generalizing a with
  | nil => simp
  | cons y ys ih =>
    simp only [List.foldl_cons]
    have := ih (if a < y then a else y)
    simp only at this
    obtain ⟨h1, h2, h3⟩ := this
    by_cases hay : a < y
    · simp only [hay, if_true] at h1 h2 h3 ⊢
      refine ⟨h1, ?_, ?_⟩
      · intro x hx
        rcases List.mem_cons.mp hx with rfl | hx
        · exact le_trans h1 hay.le
        · exact h2 x hx
      · rcases h3 with h3 | h3
        · exact Or.inl h3
        · exact Or.inr (List.mem_cons_of_mem _ h3)
    · simp only [hay, if_false] at h1 h2 h3 ⊢
      refine ⟨le_trans h1 (not_lt.mp hay), ?_, ?_⟩
      · intro x hx
        rcases List.mem_cons.mp hx with rfl | hx
        · exact h1
        · exact h2 x hx
      · rcases h3 with h3 | h3
        · exact Or.inr (by rw [h3]; simp)
        · exact Or.inr (List.mem_cons_of_mem _ h3)

theorem foldl_max_spec (l : List α) (a : α) :
    let R := l.foldl (fun acc el => if el < acc then acc else el) a
    a ≤ R ∧ (∀ x ∈ l, x ≤ R) ∧ (R = a ∨ R ∈ l) := by
  induction l generalizing a with
  | nil => simp
  | cons y ys ih =>
    simp only [List.foldl_cons]
    have := ih (if y < a then a else y)
    simp only at this
    obtain ⟨h1, h2, h3⟩ := this
    by_cases hay : y < a
    · simp only [hay, if_true] at h1 h2 h3 ⊢
      refine ⟨h1, ?_, ?_⟩
      · intro x hx
        rcases List.mem_cons.mp hx with rfl | hx
        · exact le_trans hay.le h1
        · exact h2 x hx
      · rcases h3 with h3 | h3
        · exact Or.inl h3
        · exact Or.inr (List.mem_cons_of_mem _ h3)
    · simp only [hay, if_false] at h1 h2 h3 ⊢
      refine ⟨le_trans (not_lt.mp hay) h1, ?_, ?_⟩
      · intro x hx
        rcases List.mem_cons.mp hx with rfl | hx
        · exact h1
        · exact h2 x hx
      · rcases h3 with h3 | h3
        · exact Or.inr (by rw [h3]; simp)
        · exact Or.inr (List.mem_cons_of_mem _ h3)

theorem minCol_spec (l : List α) (h : l ≠ []) : (∀ x ∈ l, minCol l ≤ x) ∧ minCol l ∈ l := by
  rcases l with _ | ⟨y, ys⟩
  · exact absurd rfl h
  · have := foldl_min_spec ys y
    simp only at this
    obtain ⟨h1, h2, h3⟩ := this
    show (∀ x ∈ y :: ys, List.foldl (fun acc el => if acc < el then acc else el) y ys ≤ x) ∧
      List.foldl (fun acc el => if acc < el then acc else el) y ys ∈ y :: ys
    refine ⟨?_, ?_⟩
    · intro x hx
      rcases List.mem_cons.mp hx with rfl | hx
      · exact h1
      · exact h2 x hx
    · rcases h3 with h3 | h3
      · rw [h3]; simp
      · exact List.mem_cons_of_mem _ h3

theorem maxCol_spec (l : List α) (h : l ≠ []) : (∀ x ∈ l, x ≤ maxCol l) ∧ maxCol l ∈ l := by
  rcases l with _ | ⟨y, ys⟩
  · exact absurd rfl h
  · have := foldl_max_spec ys y
    simp only at this
    obtain ⟨h1, h2, h3⟩ := this
    show (∀ x ∈ y :: ys, x ≤ List.foldl (fun acc el => if el < acc then acc else el) y ys) ∧
      List.foldl (fun acc el => if el < acc then acc else el) y ys ∈ y :: ys
    refine ⟨?_, ?_⟩
    · intro x hx
      rcases List.mem_cons.mp hx with rfl | hx
      · exact h1
      · exact h2 x hx
    · rcases h3 with h3 | h3
      · rw [h3]; simp
      · exact List.mem_cons_of_mem _ h3

/-- `norm_max` is the largest absolute value (0 for an empty lane) -/
theorem normMax_fold_spec (l : List α) (a : α) :
    let R := l.foldl (fun f v => maxS (absS v) f) a
    a ≤ R ∧ (∀ x ∈ l, |x| ≤ R) ∧ (R = a ∨ ∃ x ∈ l, R = |x|) := by
  induction l generalizing a with
  | nil => simp
  | cons y ys ih =>
    simp only [List.foldl_cons]
    have := ih (maxS (absS y) a)
    simp only at this
    obtain ⟨h1, h2, h3⟩ := this
    have hm : maxS (absS y) a = max |y| a := by
      unfold maxS; rw [absS_eq]
      split
      · rename_i h; exact (max_eq_right h.le).symm
      · rename_i h; exact (max_eq_left (not_lt.mp h)).symm
    rw [hm] at h1 h2 h3 ⊢
    refine ⟨le_trans (le_max_right _ _) h1, ?_, ?_⟩
    · intro x hx
      rcases List.mem_cons.mp hx with rfl | hx
      · exact le_trans (le_max_left _ _) h1
      · exact h2 x hx
    · rcases h3 with h3 | ⟨x, hx, h3⟩
      · rcases max_choice |y| a with hc | hc
        · exact Or.inr ⟨y, by simp, by rw [h3, hc]⟩
        · exact Or.inl (by rw [h3, hc])
      · exact Or.inr ⟨x, List.mem_cons_of_mem _ hx, h3⟩

theorem normMax_spec (l : List α) :
    0 ≤ normMax l ∧ (∀ x ∈ l, |x| ≤ normMax l) ∧ (normMax l = 0 ∨ ∃ x ∈ l, normMax l = |x|) :=
  normMax_fold_spec l 0

/-! ### sums of scaled lists -/

theorem sum_map_div (l : List α) (N : α) : (l.map fun x => x / N).sum = l.sum / N := by
  induction l with
  | nil => simp
  | cons x xs ih => simp only [List.map_cons, List.sum_cons, ih]; ring

theorem sum_abs_nonneg (l : List α) : 0 ≤ (l.map fun x => |x|).sum := by
  induction l with
  | nil => simp
  | cons x xs ih => simp only [List.map_cons, List.sum_cons]; have := abs_nonneg x; linarith

theorem sum_sq_nonneg (l : List α) : 0 ≤ (l.map fun x => x * x).sum := by
  induction l with
  | nil => simp
  | cons x xs ih => simp only [List.map_cons, List.sum_cons]; have := mul_self_nonneg x; linarith

theorem sum_abs_pos (l : List α) (h : ∃ x ∈ l, x ≠ 0) : 0 < (l.map fun x => |x|).sum := by
  induction l with
  | nil => simp at h
  | cons y ys ih =>
    simp only [List.map_cons, List.sum_cons]
    obtain ⟨x, hx, hx0⟩ := h
    rcases List.mem_cons.mp hx with rfl | hx
    · have := abs_pos.mpr hx0; have := sum_abs_nonneg ys; linarith
    · have := ih ⟨x, hx, hx0⟩; have := abs_nonneg y; linarith

theorem sum_sq_pos (l : List α) (h : ∃ x ∈ l, x ≠ 0) : 0 < (l.map fun x => x * x).sum := by
  induction l with
  | nil => simp at h
  | cons y ys ih =>
    simp only [List.map_cons, List.sum_cons]
    obtain ⟨x, hx, hx0⟩ := h
    rcases List.mem_cons.mp hx with rfl | hx
    · have := mul_self_pos.mpr hx0; have := sum_sq_nonneg ys; linarith
    · have := ih ⟨x, hx, hx0⟩; have := mul_self_nonneg y; linarith

/-- the contract assumed of the square root primitive (holds for `Real.sqrt`) -/
def SqrtContract (α : Type) [Mul α] [LE α] [OfNat α 0] [Transc α] : Prop :=
  ∀ x : α, 0 ≤ x → Transc.sqrt x * Transc.sqrt x = x ∧ 0 ≤ Transc.sqrt x

theorem sqrt_zero_of [Transc α] (h : SqrtContract α) : Transc.sqrt (0 : α) = 0 := by
  have := (h 0 le_rfl).1
  exact mul_self_eq_zero.mp this

theorem sqrt_one_of [Transc α] (h : SqrtContract α) : Transc.sqrt (1 : α) = 1 := by
  obtain ⟨h1, h2⟩ := h 1 zero_le_one
  have : (Transc.sqrt (1 : α) - 1) * (Transc.sqrt (1 : α) + 1) = 0 := by
    have e : (Transc.sqrt (1 : α) - 1) * (Transc.sqrt (1 : α) + 1) =
        Transc.sqrt (1 : α) * Transc.sqrt (1 : α) - 1 := by ring
    rw [e, h1]; ring
  rcases mul_eq_zero.mp this with h3 | h3
  · linarith
  · linarith

theorem sqrt_pos_of [Transc α] (h : SqrtContract α) (x : α) (hx : 0 < x) : 0 < Transc.sqrt x := by
  obtain ⟨h1, h2⟩ := h x hx.le
  rcases h2.lt_or_eq with h3 | h3
  · exact h3
  · rw [← h3] at h1; simp at h1; linarith



/-- variance with any `ddof` of an affine image (used with `ddof = 1` for covariances) -/
theorem varCol_affine_ddof (d : α) (l : List α) (a b : α) :
    varCol d (l.map fun x => a * x + b) = a * a * varCol d l := by
  unfold varCol
  rw [welford_state, welford_state]
  simp only [List.length_map]
  rw [← mul_div_assoc]
  congr 1
  rcases l with _ | ⟨y, ys⟩
  · simp
  · have hn := (length_pos_cast (List.cons_ne_nil y ys)).ne'
    rw [sum_map_affine, List.map_map]
    have := sumsq_map_affine (y :: ys) a b
    simp only [Function.comp_def] at this ⊢
    rw [this]
    field_simp
    ring

end LinfaSpec.Proofs.Scaling
