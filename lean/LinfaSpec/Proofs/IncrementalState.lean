import LinfaSpec.Proofs.Incremental

/-!
C15: lifting the per-class replay lemmas through the association-list state of the Gaussian
naive-Bayes model (`HashMap<L, GaussianClassInfo>`), for `var_smoothing = 0`.
-/
namespace LinfaSpec.Incremental
open LinfaSpec

set_option linter.unusedSectionVars false
set_option linter.unusedSimpArgs false

section Assoc
variable {β γ : Type}

theorem lookup_upsert (c k : Nat) (v : β) (l : List (Nat × β)) :
    lookup c (upsert k v l) = if k = c then some v else lookup c l := by
  induction l with
  | nil => simp [upsert, lookup]
  | cons kv rest ih =>
    obtain ⟨k', w⟩ := kv
    simp only [upsert]
    by_cases h : k' = k
    · subst h
      simp only [if_true, lookup]
      by_cases h2 : k' = c <;> simp [h2]
    · simp only [h, if_false, lookup, ih]
      by_cases h2 : k' = c
      · have : ¬ k = c := by
          intro h3; exact h (h2.trans h3.symm)
        simp [h2, this]
      · simp [h2]

theorem lookup_mapVals (f : β → γ) (c : Nat) (l : List (Nat × β)) :
    lookup c (mapVals f l) = (lookup c l).map f := by
  induction l with
  | nil => simp [mapVals, lookup]
  | cons kv rest ih =>
    obtain ⟨k', w⟩ := kv
    simp only [mapVals, List.map_cons, lookup] at ih ⊢
    by_cases h : k' = c
    · simp [h]
    · simp [h, ih]

theorem lookup_foldl_upsert (F : Nat → Option β → β) (L : List Nat) (hL : L.Nodup)
    (st : List (Nat × β)) (c : Nat) :
    lookup c (L.foldl (fun s k => upsert k (F k (lookup k s)) s) st) =
      if c ∈ L then some (F c (lookup c st)) else lookup c st := by
  induction L generalizing st with
  | nil => simp
  | cons k L ih =>
    obtain ⟨hk, hL'⟩ := List.nodup_cons.mp hL
    simp only [List.foldl_cons]
    rw [ih hL', lookup_upsert]
    by_cases hc : c ∈ L
    · have hne : ¬ k = c := by rintro rfl; exact hk hc
      simp [hc, hne]
    · by_cases hkc : k = c
      · subst hkc; simp [hc]
      · have : ¬ c = k := fun h => hkc h.symm
        simp [hc, hkc, this]

theorem nodup_eraseDups : ∀ (l : List Nat), l.eraseDups.Nodup
  | [] => by simp
  | a :: as => by
    rw [List.eraseDups_cons]
    have ih := nodup_eraseDups (as.filter fun b => !b == a)
    refine List.nodup_cons.mpr ⟨?_, ih⟩
    simp [List.mem_eraseDups]
termination_by l => l.length
decreasing_by
  simp only [List.length_cons]
  exact Nat.lt_succ_of_le (List.length_filter_le _ _)

end Assoc

theorem nodup_labelsOf {α : Type} (b : Batch α) : (labelsOf b).Nodup := nodup_eraseDups _

section Field
variable {α : Type} [Field α] [LinearOrder α] [IsStrictOrderedRing α]

omit [Field α] [LinearOrder α] [IsStrictOrderedRing α] in
theorem mem_labelsOf (c : Nat) (b : Batch α) : c ∈ labelsOf b ↔ rowsOf c b ≠ [] := by
  simp only [labelsOf, List.mem_eraseDups, List.mem_map, rowsOf, ne_eq, List.map_eq_nil_iff,
    List.filter_eq_nil_iff, not_forall]
  constructor
  · rintro ⟨r, hr, rfl⟩; exact ⟨r, hr, by simp⟩
  · rintro ⟨r, hr, h⟩; exact ⟨r, hr, by simpa using h⟩

omit [Field α] [LinearOrder α] [IsStrictOrderedRing α] in
theorem rowsOf_append (c : Nat) (d b : Batch α) : rowsOf c (d ++ b) = rowsOf c d ++ rowsOf c b := by
  simp [rowsOf]

/-- what the property is about: count, means, variances (the prior is treated separately) -/
def gProj (i : GInfo α) : Nat × List α × List α := (i.count, i.theta, i.sigma)

/-- textbook statistics of class `c` in the data `d` (`none` if the class does not occur) -/
def gnbStats (p : Nat) (d : Batch α) (c : Nat) : Option (Nat × List α × List α) :=
  if rowsOf c d = [] then none
  else some ((rowsOf c d).length, (columns p (rowsOf c d)).map meanL, (columns p (rowsOf c d)).map varL)

/-- the update of one class inside the class loop -/
def gnbF (p : Nat) (b : Batch α) (k : Nat) (o : Option (GInfo α)) : GInfo α :=
  let info := o.getD GInfo.default
  let ts := gnbUpdateClass info (columns p (rowsOf k b))
  { info with theta := ts.1, sigma := ts.2, count := info.count + (rowsOf k b).length }

theorem gnbClassLoop_eq (p : Nat) (b : Batch α) (st : GState α) :
    gnbClassLoop p b st = (labelsOf b).foldl (fun s k => upsert k (gnbF p b k (lookup k s)) s) st := rfl

theorem gnbUpdateClass_fresh (info : GInfo α) (h : info.count = 0) (cols : List (List α)) :
    gnbUpdateClass info cols = (cols.map meanL, cols.map varL) := by
  simp [gnbUpdateClass, h, gnbMerge_zero]

theorem gnbEps_zero (p : Nat) (b : Batch α) : gnbEps (0 : α) p b = 0 := by simp [gnbEps]

theorem gnbStep_invariant (p : Nat) (st : GState α) (d b : Batch α)
    (H : ∀ c, (lookup c st).map gProj = gnbStats p d c) :
    ∀ c, (lookup c (gnbStep 0 p st b)).map gProj = gnbStats p (d ++ b) c := by
  intro c
  have Hc := H c
  simp only [gnbStep, gnbPriors, gnbEps_zero, lookup_mapVals, gnbClassLoop_eq,
    lookup_foldl_upsert _ _ (nodup_labelsOf _), Option.map_map]
  simp only [gnbStats, rowsOf_append] at Hc ⊢
  by_cases hl : c ∈ labelsOf b
  · have hb : rowsOf c b ≠ [] := (mem_labelsOf c b).mp hl
    simp only [hl, if_true, Option.map_some, Function.comp, gProj]
    cases ho : lookup c st with
    | none =>
      rw [ho] at Hc
      by_cases hd : rowsOf c d = []
      · simp [hd, hb, gnbF, GInfo.default, gnbUpdateClass_fresh]
      · simp [hd] at Hc
    | some i =>
      rw [ho] at Hc
      by_cases hd : rowsOf c d = []
      · simp [hd] at Hc
      · simp only [hd, if_false, Option.map_some, gProj, Option.some.injEq, Prod.mk.injEq] at Hc
        obtain ⟨h1, h2, h3⟩ := Hc
        have hne : ¬ (rowsOf c d ++ rowsOf c b = []) := by simp [hd]
        have := gnbUpdateClass_replay p i.prior (rowsOf c d) (rowsOf c b)
        simp only [hne, if_false, Option.map_some, gnbF, Option.getD_some, sub_zero, List.map_id',
          h1, h2, h3, this, add_zero, List.length_append]
  · have hb : rowsOf c b = [] := by
      by_contra h; exact hl ((mem_labelsOf c b).mpr h)
    simp only [hl, if_false, hb, List.append_nil, Option.map_map]
    rw [← Hc]
    cases lookup c st with
    | none => simp
    | some i => simp [gProj, Function.comp]

/-- **Gaussian NB, `var_smoothing = 0`: replay over every history.**  After feeding any list of
batches, every class holds exactly the count, the per-feature means and the per-feature population
variances of its rows in the concatenated data; classes that never occurred are absent. -/
theorem gnbRun_stats (p : Nat) (hist : List (Batch α)) (c : Nat) :
    (lookup c (gnbRun 0 p hist)).map gProj = gnbStats p hist.flatten c := by
  have key : ∀ (hist : List (Batch α)) (st : GState α) (d : Batch α),
      (∀ c, (lookup c st).map gProj = gnbStats p d c) →
      ∀ c, (lookup c (hist.foldl (gnbStep 0 p) st)).map gProj = gnbStats p (d ++ hist.flatten) c := by
    intro hist
    induction hist with
    | nil => intro st d H c; simpa using H c
    | cons b rest ih =>
      intro st d H c
      simp only [List.foldl_cons, List.flatten_cons, ← List.append_assoc]
      exact ih _ _ (gnbStep_invariant p st d b H) c
  have := key hist [] [] (by intro c; simp [lookup, gnbStats, rowsOf]) c
  simpa [gnbRun] using this

theorem counts_mapVals_prior (g : GInfo α → α) (s : GState α) :
    (mapVals (fun i => ({ i with prior := g i } : GInfo α)) s).map (fun ci => ci.2.count) =
      s.map (fun ci => ci.2.count) := by
  simp [mapVals, Function.comp]

/-- the prior of every stored class is its count over the sum of the stored counts -/
theorem gnbStep_prior (vs : α) (p : Nat) (st : GState α) (b : Batch α) (c : Nat) (i : GInfo α)
    (h : lookup c (gnbStep vs p st b) = some i) :
    i.prior = (i.count : α) /
      (((gnbStep vs p st b).map fun ci => ci.2.count).foldl (fun (a b : Nat) => a + b) 0 : Nat) := by
  simp only [gnbStep, gnbPriors, lookup_mapVals, counts_mapVals_prior] at h ⊢
  obtain ⟨j, _, rfl⟩ := Option.map_eq_some_iff.mp h
  rfl

end Field
end LinfaSpec.Incremental
