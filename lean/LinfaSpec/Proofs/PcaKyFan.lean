/-
Ky Fan maximum principle in certificate form (C18, PCA): for `C = Uᵀ diag(lam) U` with `U`
orthogonal and `lam` non-increasing, any `Q` with `k` orthonormal rows retains at most the sum of
the `k` largest eigenvalues, `trace (Q C Qᵀ) ≤ ∑ i < k, lam i`; and a `V` with orthonormal rows
that are eigenvectors for the values `s` retains exactly `∑ s`.
-/
import Mathlib.LinearAlgebra.Matrix.NonsingularInverse
import Mathlib.LinearAlgebra.Matrix.Trace
import Mathlib.Data.Matrix.Mul
import Mathlib.Data.Matrix.Diagonal
import Mathlib.Algebra.BigOperators.Fin
import Mathlib.Algebra.Order.BigOperators.Group.Finset
import Mathlib.Algebra.Order.Field.Basic
import Mathlib.Tactic.Ring
import Mathlib.Tactic.Linarith
import Mathlib.Tactic.Positivity

namespace LinfaSpec.PcaKyFan
open Matrix

section Reindex
variable {β : Type} [AddCommMonoid β] {p k : Nat}

/-- the sum over the first `k` indices of `Fin p`, written with an indicator -/
theorem sum_ite_lt_eq (f : Fin p → β) (hk : k ≤ p) :
    ∑ j : Fin p, (if (j : ℕ) < k then f j else 0) = ∑ i : Fin k, f (Fin.castLE hk i) := by
  rw [← Finset.sum_filter]
  have e : (Finset.univ.filter fun j : Fin p => (j : ℕ) < k)
      = Finset.univ.map (Fin.castLEEmb hk) := by
    ext j
    simp only [Finset.mem_filter, Finset.mem_univ, true_and, Finset.mem_map, Fin.castLEEmb_apply]
    constructor
    · intro h
      exact ⟨⟨j, h⟩, by ext; rfl⟩
    · rintro ⟨i, rfl⟩
      exact i.isLt
  rw [e, Finset.sum_map]
  rfl

end Reindex

variable {α : Type} [Field α] [LinearOrder α] [IsStrictOrderedRing α] {p k : Nat}

/-- scalar core: weights in [0,1] summing to k cannot beat the k largest values -/
theorem weighted_sum_le_top (lam w : Fin p → α) (hk : k ≤ p)
    (hmono : ∀ i j : Fin p, i ≤ j → lam j ≤ lam i)
    (hw0 : ∀ j, 0 ≤ w j) (hw1 : ∀ j, w j ≤ 1) (hsum : ∑ j, w j = (k : α)) :
    ∑ j, lam j * w j ≤ ∑ i : Fin k, lam (Fin.castLE hk i) := by
  rcases Nat.eq_zero_or_pos k with h0 | hpos
  · subst h0
    have hz : ∀ j, w j = 0 := by
      have h := (Finset.sum_eq_zero_iff_of_nonneg (fun j _ => hw0 j)).mp
        (by rw [hsum]; simp : ∑ j, w j = 0)
      intro j
      exact h j (Finset.mem_univ j)
    have : ∑ j, lam j * w j = 0 := by
      apply Finset.sum_eq_zero
      intro j _
      rw [hz j, mul_zero]
    rw [this]
    simp
  · have hkp : k - 1 < p := by omega
    set c : α := lam ⟨k - 1, hkp⟩ with hc
    have hone : ∑ j : Fin p, (if (j : ℕ) < k then (1 : α) else 0) = (k : α) := by
      rw [sum_ite_lt_eq (fun _ => (1 : α)) hk]
      simp
    have hterm : ∀ j : Fin p,
        lam j * w j - (if (j : ℕ) < k then lam j else 0)
          ≤ c * (w j - (if (j : ℕ) < k then (1 : α) else 0)) := by
      intro j
      by_cases hj : (j : ℕ) < k
      · simp only [hj, if_true]
        have h1 : c ≤ lam j := by
          apply hmono
          rw [Fin.le_def]
          simp only
          omega
        have h2 : w j - 1 ≤ 0 := by linarith [hw1 j]
        have h3 : lam j * (w j - 1) ≤ c * (w j - 1) :=
          mul_le_mul_of_nonpos_right h1 h2
        linarith
      · simp only [hj, if_false, sub_zero]
        have h1 : lam j ≤ c := by
          apply hmono
          rw [Fin.le_def]
          simp only
          omega
        exact mul_le_mul_of_nonneg_right h1 (hw0 j)
    have hs := Finset.sum_le_sum (s := Finset.univ) (fun j _ => hterm j)
    rw [Finset.sum_sub_distrib, ← Finset.mul_sum, Finset.sum_sub_distrib, hsum, hone, sub_self,
      mul_zero, sum_ite_lt_eq lam hk] at hs
    linarith

/-- column weights of a matrix with orthonormal rows: `R Rᵀ = 1` ⇒ each `∑ i, R i j ^ 2`
(written `R i j * R i j`) is in [0,1] and they sum to k -/
theorem col_weights (R : Matrix (Fin k) (Fin p) α) (hR : R * Rᵀ = 1) :
    (∀ j, 0 ≤ ∑ i, R i j * R i j) ∧ (∀ j, ∑ i, R i j * R i j ≤ 1)
      ∧ ∑ j, ∑ i, R i j * R i j = (k : α) := by
  refine ⟨?_, ?_, ?_⟩
  · intro j
    exact Finset.sum_nonneg fun i _ => mul_self_nonneg _
  · intro j
    have hidem : (Rᵀ * R) * (Rᵀ * R) = Rᵀ * R := by
      calc (Rᵀ * R) * (Rᵀ * R) = Rᵀ * ((R * Rᵀ) * R) := by simp only [Matrix.mul_assoc]
        _ = Rᵀ * R := by rw [hR, Matrix.one_mul]
    have hsymm : ∀ a b, (Rᵀ * R) a b = (Rᵀ * R) b a := by
      intro a b
      simp only [Matrix.mul_apply, Matrix.transpose_apply]
      apply Finset.sum_congr rfl
      intro i _
      ring
    have hjj : (Rᵀ * R) j j = ∑ i, R i j * R i j := by
      simp only [Matrix.mul_apply, Matrix.transpose_apply]
    have h1 : (Rᵀ * R) j j = ∑ l, (Rᵀ * R) j l * (Rᵀ * R) j l := by
      conv_lhs => rw [← hidem]
      rw [Matrix.mul_apply]
      apply Finset.sum_congr rfl
      intro l _
      rw [hsymm l j]
    have h2 : (Rᵀ * R) j j * (Rᵀ * R) j j ≤ ∑ l, (Rᵀ * R) j l * (Rᵀ * R) j l :=
      Finset.single_le_sum (f := fun l => (Rᵀ * R) j l * (Rᵀ * R) j l)
        (fun l _ => mul_self_nonneg _) (Finset.mem_univ j)
    rw [← h1] at h2
    rw [← hjj]
    by_contra hgt
    replace hgt := not_le.mp hgt
    have hpos : 0 < (Rᵀ * R) j j := lt_trans one_pos hgt
    have : (Rᵀ * R) j j * 1 < (Rᵀ * R) j j * (Rᵀ * R) j j :=
      mul_lt_mul_of_pos_left hgt hpos
    rw [mul_one] at this
    exact absurd h2 (not_le.mpr this)
  · rw [Finset.sum_comm]
    have h1 : ∀ i, ∑ j, R i j * R i j = 1 := by
      intro i
      have h : (R * Rᵀ) i i = 1 := by rw [hR]; simp
      rw [Matrix.mul_apply] at h
      simpa only [Matrix.transpose_apply] using h
    rw [Finset.sum_congr rfl fun i _ => h1 i]
    simp

omit [LinearOrder α] [IsStrictOrderedRing α] in
/-- trace of `R diag(lam) Rᵀ` as a weighted sum of `lam` with the column weights of `R` -/
theorem trace_diag_conj (R : Matrix (Fin k) (Fin p) α) (lam : Fin p → α) :
    trace (R * diagonal lam * Rᵀ) = ∑ j, lam j * ∑ i, R i j * R i j := by
  have h : ∀ i, (R * diagonal lam * Rᵀ) i i = ∑ j, R i j * lam j * R i j := by
    intro i
    rw [Matrix.mul_apply]
    simp only [Matrix.mul_diagonal, Matrix.transpose_apply]
  simp only [Matrix.trace, Matrix.diag_apply, h]
  rw [Finset.sum_comm]
  apply Finset.sum_congr rfl
  intro j _
  rw [Finset.mul_sum]
  apply Finset.sum_congr rfl
  intro i _
  ring

/-- **Ky Fan**: `C = Uᵀ diag(lam) U` with `U` orthogonal (rows of `U` = eigenvectors) and `lam`
non-increasing; any `Q` with orthonormal rows retains at most the sum of the `k` largest
eigenvalues -/
theorem ky_fan (C U : Matrix (Fin p) (Fin p) α) (lam : Fin p → α) (hU : U * Uᵀ = 1)
    (hC : C = Uᵀ * diagonal lam * U) (hmono : ∀ i j : Fin p, i ≤ j → lam j ≤ lam i) (hk : k ≤ p)
    (Q : Matrix (Fin k) (Fin p) α) (hQ : Q * Qᵀ = 1) :
    trace (Q * C * Qᵀ) ≤ ∑ i : Fin k, lam (Fin.castLE hk i) := by
  have hU' : Uᵀ * U = 1 := mul_eq_one_comm.mp hU
  have hR : (Q * Uᵀ) * (Q * Uᵀ)ᵀ = 1 := by
    rw [Matrix.transpose_mul, Matrix.transpose_transpose]
    calc Q * Uᵀ * (U * Qᵀ) = Q * ((Uᵀ * U) * Qᵀ) := by simp only [Matrix.mul_assoc]
      _ = 1 := by rw [hU', Matrix.one_mul, hQ]
  have hconj : Q * C * Qᵀ = (Q * Uᵀ) * diagonal lam * (Q * Uᵀ)ᵀ := by
    rw [hC, Matrix.transpose_mul, Matrix.transpose_transpose]
    simp only [Matrix.mul_assoc]
  obtain ⟨hw0, hw1, hsum⟩ := col_weights (Q * Uᵀ) hR
  rw [hconj, trace_diag_conj]
  exact weighted_sum_le_top lam (fun j => ∑ i, (Q * Uᵀ) i j * (Q * Uᵀ) i j) hk hmono hw0 hw1 hsum

/-- non-vacuity of the hypotheses of `ky_fan` over `Rat`: `p = 2`, `k = 1`, `U = 1`,
`lam = ![2, 1]`, `Q = !![0, 1]`; the bound reads `1 ≤ 2` -/
example : trace ((!![0, 1] : Matrix (Fin 1) (Fin 2) Rat)
      * ((1 : Matrix (Fin 2) (Fin 2) Rat)ᵀ * diagonal ![2, 1] * 1)
      * (!![0, 1] : Matrix (Fin 1) (Fin 2) Rat)ᵀ)
    ≤ ∑ i : Fin 1, (![2, 1] : Fin 2 → Rat) (Fin.castLE (by decide : 1 ≤ 2) i) := by
  refine ky_fan (k := 1) (p := 2) _ (1 : Matrix (Fin 2) (Fin 2) Rat) ![2, 1] (by simp) rfl ?_
    (by decide) _ ?_
  · intro i j hij
    fin_cases i <;> fin_cases j <;> simp_all
  · ext a b
    fin_cases a; fin_cases b
    simp [Matrix.mul_apply]

omit [LinearOrder α] [IsStrictOrderedRing α] in
/-- a `V` with orthonormal rows whose rows are eigenvectors of `C` for the values `s` retains
exactly `∑ s` -/
theorem trace_of_certificate (C : Matrix (Fin p) (Fin p) α) (V : Matrix (Fin k) (Fin p) α)
    (s : Fin k → α) (hV : V * Vᵀ = 1) (hc : C * Vᵀ = Vᵀ * diagonal s) :
    trace (V * C * Vᵀ) = ∑ i, s i := by
  have e : V * C * Vᵀ = diagonal s := by
    calc V * C * Vᵀ = V * (C * Vᵀ) := by rw [Matrix.mul_assoc]
      _ = (V * Vᵀ) * diagonal s := by rw [hc, Matrix.mul_assoc]
      _ = diagonal s := by rw [hV, Matrix.one_mul]
  rw [e, Matrix.trace_diagonal]

end LinfaSpec.PcaKyFan
