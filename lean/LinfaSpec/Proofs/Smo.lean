/-
Helper lemmas for C13 (SMO solver model `LinfaSpec.Smo`), over any linearly ordered field.
-/
import LinfaSpec.Model.Smo
import Mathlib.Algebra.Order.Field.Basic
import Mathlib.Algebra.BigOperators.Group.Finset.Basic
import Mathlib.Tactic.Linarith
import Mathlib.Tactic.Ring

namespace LinfaSpec.Smo

section scalar
variable {α : Type} [Field α] [LinearOrder α] [IsStrictOrderedRing α]

/-- labels differ: for a pair on the line `a_i - a_j = diff` with `-b_j ≤ diff ≤ b_i` the clipped
pair lies in the box and still on the line -/
theorem clipOpp_spec (ai aj diff bi bj : α) (hline : ai - aj = diff)
    (h1 : -bj ≤ diff) (h2 : diff ≤ bi) (hbi : 0 ≤ bi) (hbj : 0 ≤ bj) :
    0 ≤ (clipOpp ai aj diff bi bj).1 ∧ (clipOpp ai aj diff bi bj).1 ≤ bi ∧
    0 ≤ (clipOpp ai aj diff bi bj).2 ∧ (clipOpp ai aj diff bi bj).2 ≤ bj ∧
    (clipOpp ai aj diff bi bj).1 - (clipOpp ai aj diff bi bj).2 = diff := by
  unfold clipOpp
  split_ifs <;> (try dsimp only) <;> (try split_ifs) <;> (try dsimp only) <;> (try split_ifs) <;>
    refine ⟨?_, ?_, ?_, ?_, ?_⟩ <;> (try dsimp only) <;> linarith

/-- labels agree: for a pair on the line `a_i + a_j = sum` with `0 ≤ sum ≤ b_i + b_j` the clipped
pair lies in the box and still on the line -/
theorem clipSame_spec (ai aj sum bi bj : α) (hline : ai + aj = sum)
    (h1 : 0 ≤ sum) (h2 : sum ≤ bi + bj) (hbi : 0 ≤ bi) (hbj : 0 ≤ bj) :
    0 ≤ (clipSame ai aj sum bi bj).1 ∧ (clipSame ai aj sum bi bj).1 ≤ bi ∧
    0 ≤ (clipSame ai aj sum bi bj).2 ∧ (clipSame ai aj sum bi bj).2 ≤ bj ∧
    (clipSame ai aj sum bi bj).1 + (clipSame ai aj sum bi bj).2 = sum := by
  unfold clipSame
  split_ifs <;> (try dsimp only) <;> (try split_ifs) <;> (try dsimp only) <;> (try split_ifs) <;>
    refine ⟨?_, ?_, ?_, ?_, ?_⟩ <;> (try dsimp only) <;> linarith


theorem stepPair_opp (tiny oi oj gi gj qii qjj qij bi bj : α)
    (hi0 : 0 ≤ oi) (hi1 : oi ≤ bi) (hj0 : 0 ≤ oj) (hj1 : oj ≤ bj) :
    0 ≤ (stepPair tiny true oi oj gi gj qii qjj qij bi bj).1 ∧
    (stepPair tiny true oi oj gi gj qii qjj qij bi bj).1 ≤ bi ∧
    0 ≤ (stepPair tiny true oi oj gi gj qii qjj qij bi bj).2 ∧
    (stepPair tiny true oi oj gi gj qii qjj qij bi bj).2 ≤ bj ∧
    (stepPair tiny true oi oj gi gj qii qjj qij bi bj).1 -
      (stepPair tiny true oi oj gi gj qii qjj qij bi bj).2 = oi - oj := by
  simp only [stepPair, if_true]
  exact clipOpp_spec _ _ _ _ _ (by ring) (by linarith) (by linarith) (by linarith) (by linarith)

theorem stepPair_same (tiny oi oj gi gj qii qjj qij bi bj : α)
    (hi0 : 0 ≤ oi) (hi1 : oi ≤ bi) (hj0 : 0 ≤ oj) (hj1 : oj ≤ bj) :
    0 ≤ (stepPair tiny false oi oj gi gj qii qjj qij bi bj).1 ∧
    (stepPair tiny false oi oj gi gj qii qjj qij bi bj).1 ≤ bi ∧
    0 ≤ (stepPair tiny false oi oj gi gj qii qjj qij bi bj).2 ∧
    (stepPair tiny false oi oj gi gj qii qjj qij bi bj).2 ≤ bj ∧
    (stepPair tiny false oi oj gi gj qii qjj qij bi bj).1 +
      (stepPair tiny false oi oj gi gj qii qjj qij bi bj).2 = oi + oj := by
  simp only [stepPair, Bool.false_eq_true, if_false]
  exact clipSame_spec _ _ _ _ _ (by ring) (by linarith) (by linarith) (by linarith) (by linarith)

/-! ### list access -/

theorem gf_set (l : List α) (i k : Nat) (v : α) :
    gf (l.set i v) k = if i = k ∧ i < l.length then v else gf l k := by
  unfold gf
  rw [List.getD_eq_getElem?_getD, List.getD_eq_getElem?_getD, List.getElem?_set]
  by_cases h : i = k
  · subst h
    by_cases h2 : i < l.length
    · simp [h2]
    · simp [h2]
  · simp [h]

/-! ### what `update` does to the fields the invariants speak about -/

/-- the pair `update` writes into positions `i`, `j` -/
def newPair (e : Env α) (s : St α) (i j : Nat) : α × α :=
  stepPair e.tiny (gb s.y i != gb s.y j) (gf s.alpha i) (gf s.alpha j) (gf s.grad i) (gf s.grad j)
    (selfDist e s i) (selfDist e s j) (gf (dist e s i s.nactive) j) (gf s.bounds i) (gf s.bounds j)

theorem update_alpha (e : Env α) (s : St α) (i j : Nat) :
    (update e s i j).alpha = (s.alpha.set i (newPair e s i j).1).set j (newPair e s i j).2 := by
  unfold update newPair
  dsimp only
  split_ifs <;> rfl

theorem update_bounds (e : Env α) (s : St α) (i j : Nat) : (update e s i j).bounds = s.bounds := by
  unfold update
  dsimp only
  split_ifs <;> rfl

theorem update_y (e : Env α) (s : St α) (i j : Nat) : (update e s i j).y = s.y := by
  unfold update
  dsimp only
  split_ifs <;> rfl


/-! ### feasibility: box and equality constraint -/

/-- `0 ≤ alpha_k ≤ bounds_k` at every position -/
def Box (s : St α) : Prop :=
  s.bounds.length = s.alpha.length ∧
  ∀ k, k < s.alpha.length → 0 ≤ gf s.alpha k ∧ gf s.alpha k ≤ gf s.bounds k

/-- `Σ_k y_k alpha_k` over the positions -/
def ySum (s : St α) : α := ∑ k ∈ Finset.range s.alpha.length, tgt s k * gf s.alpha k

theorem update_alpha_length (e : Env α) (s : St α) (i j : Nat) :
    (update e s i j).alpha.length = s.alpha.length := by
  rw [update_alpha]; simp

theorem gf_update_alpha (e : Env α) (s : St α) (i j k : Nat) (hij : i ≠ j)
    (hi : i < s.alpha.length) (hj : j < s.alpha.length) :
    gf (update e s i j).alpha k =
      if k = j then (newPair e s i j).2 else if k = i then (newPair e s i j).1 else gf s.alpha k := by
  rw [update_alpha, gf_set, gf_set]
  by_cases h1 : k = j
  · subst h1; simp [hj]
  · by_cases h2 : k = i
    · subst h2; simp [hi, h1, Ne.symm h1]
    · simp [h1, h2, Ne.symm h1, Ne.symm h2]

theorem newPair_spec (e : Env α) (s : St α) (i j : Nat)
    (hi0 : 0 ≤ gf s.alpha i) (hi1 : gf s.alpha i ≤ gf s.bounds i)
    (hj0 : 0 ≤ gf s.alpha j) (hj1 : gf s.alpha j ≤ gf s.bounds j) :
    0 ≤ (newPair e s i j).1 ∧ (newPair e s i j).1 ≤ gf s.bounds i ∧
    0 ≤ (newPair e s i j).2 ∧ (newPair e s i j).2 ≤ gf s.bounds j ∧
    tgt s i * (newPair e s i j).1 + tgt s j * (newPair e s i j).2 =
      tgt s i * gf s.alpha i + tgt s j * gf s.alpha j := by
  unfold newPair tgt
  cases hyi : gb s.y i <;> cases hyj : gb s.y j <;> simp only [bne_self_eq_false, Bool.true_bne, Bool.false_bne, Bool.not_true, Bool.not_false, if_true, Bool.false_eq_true, if_false]
  · obtain ⟨a, b, c, d, h⟩ := stepPair_same e.tiny (gf s.alpha i) (gf s.alpha j) (gf s.grad i) (gf s.grad j)
      (selfDist e s i) (selfDist e s j) (gf (dist e s i s.nactive) j) (gf s.bounds i) (gf s.bounds j) hi0 hi1 hj0 hj1
    exact ⟨a, b, c, d, by linarith⟩
  · obtain ⟨a, b, c, d, h⟩ := stepPair_opp e.tiny (gf s.alpha i) (gf s.alpha j) (gf s.grad i) (gf s.grad j)
      (selfDist e s i) (selfDist e s j) (gf (dist e s i s.nactive) j) (gf s.bounds i) (gf s.bounds j) hi0 hi1 hj0 hj1
    exact ⟨a, b, c, d, by linarith⟩
  · obtain ⟨a, b, c, d, h⟩ := stepPair_opp e.tiny (gf s.alpha i) (gf s.alpha j) (gf s.grad i) (gf s.grad j)
      (selfDist e s i) (selfDist e s j) (gf (dist e s i s.nactive) j) (gf s.bounds i) (gf s.bounds j) hi0 hi1 hj0 hj1
    exact ⟨a, b, c, d, by linarith⟩
  · obtain ⟨a, b, c, d, h⟩ := stepPair_same e.tiny (gf s.alpha i) (gf s.alpha j) (gf s.grad i) (gf s.grad j)
      (selfDist e s i) (selfDist e s j) (gf (dist e s i s.nactive) j) (gf s.bounds i) (gf s.bounds j) hi0 hi1 hj0 hj1
    exact ⟨a, b, c, d, by linarith⟩

theorem update_box (e : Env α) (s : St α) (i j : Nat) (hij : i ≠ j)
    (hi : i < s.alpha.length) (hj : j < s.alpha.length) (hb : Box s) : Box (update e s i j) := by
  obtain ⟨hlen, hbox⟩ := hb
  obtain ⟨a, b, c, d, _⟩ := newPair_spec e s i j (hbox i hi).1 (hbox i hi).2 (hbox j hj).1 (hbox j hj).2
  refine ⟨by rw [update_bounds, update_alpha_length]; exact hlen, ?_⟩
  intro k hk
  rw [update_alpha_length] at hk
  rw [gf_update_alpha e s i j k hij hi hj, update_bounds]
  by_cases h1 : k = j
  · subst h1; simp only [if_true]; exact ⟨c, d⟩
  · by_cases h2 : k = i
    · subst h2; simp only [h1, if_false, if_true]; exact ⟨a, b⟩
    · simp only [h1, h2, if_false]; exact hbox k hk

theorem tgt_update (e : Env α) (s : St α) (i j k : Nat) : tgt (update e s i j) k = tgt s k := by
  unfold tgt; rw [update_y]

theorem update_ySum (e : Env α) (s : St α) (i j : Nat) (hij : i ≠ j)
    (hi : i < s.alpha.length) (hj : j < s.alpha.length) (hb : Box s) :
    ySum (update e s i j) = ySum s := by
  obtain ⟨_, hbox⟩ := hb
  obtain ⟨_, _, _, _, heq⟩ := newPair_spec e s i j (hbox i hi).1 (hbox i hi).2 (hbox j hj).1 (hbox j hj).2
  unfold ySum
  rw [update_alpha_length]
  rw [← sub_eq_zero, ← Finset.sum_sub_distrib]
  rw [Finset.sum_eq_add_of_mem i j (Finset.mem_range.mpr hi) (Finset.mem_range.mpr hj) hij]
  · rw [tgt_update, tgt_update, gf_update_alpha e s i j i hij hi hj, gf_update_alpha e s i j j hij hi hj]
    simp only [hij, if_false, if_true]
    linarith
  · intro c _ hc
    rw [tgt_update, gf_update_alpha e s i j c hij hi hj]
    simp only [hc.1, hc.2, if_false]
    ring

/-- a working-set sequence the solver can produce: distinct in-range positions -/
def ValidSteps (n : Nat) (steps : List (Nat × Nat)) : Prop :=
  ∀ st ∈ steps, st.1 ≠ st.2 ∧ st.1 < n ∧ st.2 < n

theorem updates_feasible (e : Env α) (steps : List (Nat × Nat)) (s : St α)
    (hv : ValidSteps s.alpha.length steps) (hb : Box s) :
    Box (steps.foldl (fun s st => update e s st.1 st.2) s) ∧
    ySum (steps.foldl (fun s st => update e s st.1 st.2) s) = ySum s ∧
    (steps.foldl (fun s st => update e s st.1 st.2) s).bounds = s.bounds := by
  induction steps generalizing s with
  | nil => exact ⟨hb, rfl, rfl⟩
  | cons st rest ih =>
    have h0 := hv st (List.mem_cons_self ..)
    have hb' := update_box e s st.1 st.2 h0.1 h0.2.1 h0.2.2 hb
    have hv' : ValidSteps (update e s st.1 st.2).alpha.length rest := by
      rw [update_alpha_length]
      intro x hx
      exact hv x (List.mem_cons_of_mem _ hx)
    obtain ⟨r1, r2, r3⟩ := ih (update e s st.1 st.2) hv' hb'
    simp only [List.foldl_cons]
    exact ⟨r1, by rw [r2, update_ySum e s st.1 st.2 h0.1 h0.2.1 h0.2.2 hb], by rw [r3, update_bounds]⟩


end scalar

/-! ### bookkeeping of shrinking: `swap`, `active_set`, write-back -/

/-- the transposition of positions `i` and `j` -/
def swapIdx (i j k : Nat) : Nat := if k = i then j else if k = j then i else k

theorem swapL_length {β : Type} (l : List β) (i j : Nat) : (swapL l i j).length = l.length := by
  unfold swapL
  split <;> simp

theorem swapL_getElem? {β : Type} (l : List β) (i j k : Nat) (hi : i < l.length) (hj : j < l.length) :
    (swapL l i j)[k]? = l[swapIdx i j k]? := by
  unfold swapL swapIdx
  rw [List.getElem?_eq_getElem hi, List.getElem?_eq_getElem hj]
  simp only [List.getElem?_set]
  by_cases h1 : j = k
  · subst h1
    by_cases h2 : j = i
    · subst h2; simp [hi]
    · simp [h2, hj, hi]
  · by_cases h2 : i = k
    · subst h2; simp [h1, hi, hj]
    · simp [h1, h2, Ne.symm h1, Ne.symm h2]

section align
variable {α : Type} [OfNat α 0]

theorem gf_swapL (l : List α) (i j k : Nat) (hi : i < l.length) (hj : j < l.length) :
    gf (swapL l i j) k = gf l (swapIdx i j k) := by
  unfold gf
  rw [List.getD_eq_getElem?_getD, List.getD_eq_getElem?_getD, swapL_getElem? l i j k hi hj]

theorem gb_swapL (l : List Bool) (i j k : Nat) (hi : i < l.length) (hj : j < l.length) :
    gb (swapL l i j) k = gb l (swapIdx i j k) := by
  unfold gb
  rw [List.getD_eq_getElem?_getD, List.getD_eq_getElem?_getD, swapL_getElem? l i j k hi hj]

theorem gn_swapL (l : List Nat) (i j k : Nat) (hi : i < l.length) (hj : j < l.length) :
    gn (swapL l i j) k = gn l (swapIdx i j k) := by
  unfold gn
  rw [List.getD_eq_getElem?_getD, List.getD_eq_getElem?_getD, swapL_getElem? l i j k hi hj]

theorem swapIdx_lt (i j k n : Nat) (hi : i < n) (hj : j < n) (hk : k < n) : swapIdx i j k < n := by
  unfold swapIdx; split_ifs <;> assumption

/-- position `k` holds the linear term, label, bound (both copies) and kernel row of sample
`active_set[k]`; `p0 y0 b0` are the problem data in sample order -/
def Aligned (p0 b0 : List α) (y0 : List Bool) (s : St α) : Prop :=
  (s.p.length = s.alpha.length ∧ s.y.length = s.alpha.length ∧ s.bounds.length = s.alpha.length ∧
   s.ub.length = s.alpha.length ∧ s.active.length = s.alpha.length ∧ s.kidx.length = s.alpha.length) ∧
  ∀ k, k < s.alpha.length →
    gf s.p k = gf p0 (gn s.active k) ∧ gb s.y k = gb y0 (gn s.active k) ∧
    gf s.bounds k = gf b0 (gn s.active k) ∧ gf s.ub k = gf b0 (gn s.active k) ∧
    gn s.kidx k = gn s.active k

theorem swap_aligned (p0 b0 : List α) (y0 : List Bool) (s : St α) (i j : Nat)
    (hi : i < s.alpha.length) (hj : j < s.alpha.length) (h : Aligned p0 b0 y0 s) :
    Aligned p0 b0 y0 (swap s i j) := by
  obtain ⟨⟨l1, l2, l3, l4, l5, l6⟩, hk⟩ := h
  refine ⟨?_, ?_⟩
  · simp only [swap, swapL_length]; exact ⟨l1, l2, l3, l4, l5, l6⟩
  · intro k hk'
    simp only [swap, swapL_length] at hk' ⊢
    have hs := swapIdx_lt i j k _ hi hj hk'
    obtain ⟨a, b, c, d, e⟩ := hk (swapIdx i j k) hs
    rw [gf_swapL _ i j k (l1 ▸ hi) (l1 ▸ hj), gb_swapL _ i j k (l2 ▸ hi) (l2 ▸ hj),
      gf_swapL _ i j k (l3 ▸ hi) (l3 ▸ hj), gf_swapL _ i j k (l4 ▸ hi) (l4 ▸ hj),
      gn_swapL _ i j k (l5 ▸ hi) (l5 ▸ hj), gn_swapL _ i j k (l6 ▸ hi) (l6 ▸ hj)]
    exact ⟨a, b, c, d, e⟩

/-- `swap` moves the variables themselves the same way -/
theorem swap_alpha (s : St α) (i j k : Nat) (hi : i < s.alpha.length) (hj : j < s.alpha.length) :
    gf (swap s i j).alpha k = gf s.alpha (swapIdx i j k) := by
  simp only [swap]; exact gf_swapL _ i j k hi hj

theorem gf_set' (l : List α) (i k : Nat) (v : α) :
    gf (l.set i v) k = if i = k ∧ i < l.length then v else gf l k := by
  unfold gf
  rw [List.getD_eq_getElem?_getD, List.getD_eq_getElem?_getD, List.getElem?_set]
  by_cases h : i = k
  · subst h
    by_cases h2 : i < l.length
    · simp [h2]
    · simp [h2]
  · simp [h]

/-- the write-back loop after `m` rounds -/
def writeBackN (s : St α) (m : Nat) : List α :=
  (List.range m).foldl (fun out i => out.set (gn s.active i) (gf s.alpha i))
    (List.replicate (ntotal s) 0)

theorem writeBackN_spec (s : St α) (hlen : s.active.length = s.alpha.length)
    (hnd : s.active.Nodup) (hr : ∀ a ∈ s.active, a < s.alpha.length) (m : Nat)
    (hm : m ≤ s.alpha.length) :
    (writeBackN s m).length = s.alpha.length ∧
    ∀ i, i < m → gf (writeBackN s m) (gn s.active i) = gf s.alpha i := by
  induction m with
  | zero => exact ⟨by simp [writeBackN, ntotal], fun i hi => absurd hi (Nat.not_lt_zero i)⟩
  | succ m ih =>
    obtain ⟨hl, hv⟩ := ih (Nat.le_of_succ_le hm)
    have hstep : writeBackN s (m + 1) = (writeBackN s m).set (gn s.active m) (gf s.alpha m) := by
      simp [writeBackN, List.range_succ, List.foldl_append]
    have hmlt : m < s.active.length := by omega
    have hgm : gn s.active m = s.active[m] := by
      unfold gn; rw [List.getD_eq_getElem?_getD, List.getElem?_eq_getElem hmlt]; rfl
    refine ⟨by rw [hstep, List.length_set]; exact hl, ?_⟩
    intro i hi
    rw [hstep, gf_set']
    by_cases him : i = m
    · subst him
      have : gn s.active i < (writeBackN s i).length := by
        rw [hl, hgm]; exact hr _ (List.getElem_mem hmlt)
      simp [this]
    · have hilt : i < s.active.length := by omega
      have hgi : gn s.active i = s.active[i] := by
        unfold gn; rw [List.getD_eq_getElem?_getD, List.getElem?_eq_getElem hilt]; rfl
      have hne : gn s.active m ≠ gn s.active i := by
        rw [hgm, hgi]
        intro heq
        exact him ((hnd.getElem_inj_iff).mp heq).symm
      simp only [hne, false_and, if_false]
      exact hv i (by omega)


/-- filtering positions and then reading equals filtering the values -/
theorem filter_range_map (l : List α) (P : α → Bool) :
    ((List.range l.length).filter (fun i => P (gf l i))).map (gf l) = l.filter P := by
  induction l using List.reverseRecOn with
  | nil => simp
  | append_singleton l a ih =>
    have hpre : ∀ i, i < l.length → gf (l ++ [a]) i = gf l i := by
      intro i hi
      unfold gf
      rw [List.getD_eq_getElem?_getD, List.getD_eq_getElem?_getD, List.getElem?_append_left hi]
    have hlast : gf (l ++ [a]) l.length = a := by
      unfold gf
      rw [List.getD_eq_getElem?_getD]
      simp
    rw [List.length_append, List.length_singleton, List.range_succ, List.filter_append,
      List.map_append, List.filter_append]
    have h1 : (List.range l.length).filter (fun i => P (gf (l ++ [a]) i)) =
        (List.range l.length).filter (fun i => P (gf l i)) := by
      apply List.filter_congr
      intro i hi
      rw [hpre i (List.mem_range.mp hi)]
    rw [h1]
    have h2 : ((List.range l.length).filter (fun i => P (gf l i))).map (gf (l ++ [a])) =
        ((List.range l.length).filter (fun i => P (gf l i))).map (gf l) := by
      apply List.map_congr_left
      intro i hi
      exact hpre i (List.mem_range.mp (List.mem_filter.mp hi).1)
    rw [h2, ih]
    congr 1
    by_cases hp : P a
    · simp [hlast, hp]
    · simp [hlast, hp]

end align

section more
variable {α : Type} [Field α] [LinearOrder α] [IsStrictOrderedRing α]

theorem update_p (e : Env α) (s : St α) (i j : Nat) : (update e s i j).p = s.p := by
  unfold update; dsimp only; split_ifs <;> rfl
theorem update_active (e : Env α) (s : St α) (i j : Nat) : (update e s i j).active = s.active := by
  unfold update; dsimp only; split_ifs <;> rfl
theorem update_kidx (e : Env α) (s : St α) (i j : Nat) : (update e s i j).kidx = s.kidx := by
  unfold update; dsimp only; split_ifs <;> rfl
theorem update_ub (e : Env α) (s : St α) (i j : Nat) :
    (update e s i j).ub = (s.ub.set i (gf s.bounds i)).set j (gf s.bounds j) := by
  unfold update; dsimp only; split_ifs <;> rfl

theorem update_aligned (e : Env α) (p0 b0 : List α) (y0 : List Bool) (s : St α) (i j : Nat)
    (hi : i < s.alpha.length) (hj : j < s.alpha.length) (h : Aligned p0 b0 y0 s) :
    Aligned p0 b0 y0 (update e s i j) := by
  obtain ⟨⟨l1, l2, l3, l4, l5, l6⟩, hk⟩ := h
  refine ⟨?_, ?_⟩
  · rw [update_p, update_y, update_bounds, update_ub, update_active, update_kidx, update_alpha_length]
    simp only [List.length_set]
    exact ⟨l1, l2, l3, l4, l5, l6⟩
  · intro k hk'
    rw [update_alpha_length] at hk'
    rw [update_p, update_y, update_bounds, update_ub, update_active, update_kidx]
    obtain ⟨a, b, c, d, e'⟩ := hk k hk'
    refine ⟨a, b, c, ?_, e'⟩
    rw [gf_set, gf_set]
    by_cases h1 : j = k
    · subst h1
      simp only [List.length_set, l4, hj, and_self, if_true]
      exact c
    · by_cases h2 : i = k
      · subst h2
        simp only [h1, false_and, if_false, l4, hi, and_self, if_true]
        exact c
      · simp only [h1, h2, false_and, if_false]
        exact d

end more
/-! ### the working pair `select_working_set` returns is a legal one -/

theorem foldl_inv {β γ : Type} (P : β → Prop) (f : β → γ → β) (l : List γ) (b : β)
    (h0 : P b) (hstep : ∀ acc x, x ∈ l → P acc → P (f acc x)) : P (l.foldl f b) := by
  induction l generalizing b with
  | nil => simpa using h0
  | cons x xs ih =>
    simp only [List.foldl_cons]
    exact ih (f b x) (hstep b x (by simp) h0) (fun acc y hy => hstep acc y (by simp [hy]))

section select
variable {α : Type} [Field α] [LinearOrder α] [IsStrictOrderedRing α]

/-- a maximal violator record `(value, index)`: the index is an active position and the value is
`-y_i G_i` of that position -/
def MvpOk (s : St α) (g : α × Option Nat) : Prop :=
  ∀ i, g.2 = some i → i < s.nactive ∧ g.1 = (if gb s.y i then -gf s.grad i else gf s.grad i)

theorem mvpOk_none (s : St α) (v : α) : MvpOk s (v, none) := by
  intro i h; simp at h

theorem mvpOk_pos (s : St α) (i : Nat) (hi : i < s.nactive) (hy : gb s.y i = true) :
    MvpOk s (-gf s.grad i, some i) := by
  intro k hk
  simp only [Option.some.injEq] at hk
  subst hk
  exact ⟨hi, by simp [hy]⟩

theorem mvpOk_neg (s : St α) (i : Nat) (hi : i < s.nactive) (hy : ¬ gb s.y i = true) :
    MvpOk s (gf s.grad i, some i) := by
  intro k hk
  simp only [Option.some.injEq] at hk
  subst hk
  exact ⟨hi, by simp [hy]⟩

theorem maxViolatingPair_fst (e : Env α) (s : St α) : MvpOk s (maxViolatingPair e s).1 := by
  unfold maxViolatingPair
  refine foldl_inv (fun acc : (α × Option Nat) × (α × Option Nat) => MvpOk s acc.1) _ _ _ ?_ ?_
  · exact mvpOk_none s _
  · intro acc i hi hP
    have hi' : i < s.nactive := List.mem_range.mp hi
    dsimp only
    split_ifs with hy h1 h2 <;> dsimp only <;>
      first
        | exact hP
        | exact mvpOk_pos s i hi' hy
        | exact mvpOk_neg s i hi' hy

/-- a second-order candidate `(objective decrease, index)` relative to the violator value `gm` -/
def ObjOk (s : St α) (gm : α) (m : α × Option Nat) : Prop :=
  ∀ j, m.2 = some j → j < s.nactive ∧
    (if gb s.y j then 0 < gm + gf s.grad j else 0 < gm - gf s.grad j)

theorem objOk_none (s : St α) (gm v : α) : ObjOk s gm (v, none) := by
  intro i h; simp at h

theorem objOk_new (s : St α) (gm v : α) (j : Nat) (hj : j < s.nactive)
    (h : if gb s.y j then 0 < gm + gf s.grad j else 0 < gm - gf s.grad j) :
    ObjOk s gm (v, some j) := by
  intro k hk
  simp only [Option.some.injEq] at hk
  subst hk
  exact ⟨hj, h⟩

theorem selectObjMin_ok (e : Env α) (s : St α) (gm : α) (i : Nat) :
    ObjOk s gm (selectObjMin e s gm i) := by
  unfold selectObjMin
  refine foldl_inv (fun m : α × Option Nat => ObjOk s gm m) _ _ _ ?_ ?_
  · exact objOk_none s _ _
  · intro m j hj hP
    have hj' : j < s.nactive := List.mem_range.mp hj
    dsimp only
    split_ifs with hy h1 h2 h3 h4 h5 h6 h7 <;>
      first
        | exact hP
        | exact objOk_new s _ _ j hj' (by simp only [hy, if_true]; assumption)
        | exact objOk_new s _ _ j hj' (by simp only [hy, if_false]; assumption)
        | exact objOk_new s _ _ j hj' (by simp only [hy]; assumption)

/-- **`select_working_set` (plain form) returns a legal working pair**: two distinct active positions -/
theorem selectWorkingSetC_valid (e : Env α) (s : St α) (i j : Nat)
    (h : selectWorkingSetC e s = (i, j, false)) : i ≠ j ∧ i < s.nactive ∧ j < s.nactive := by
  unfold selectWorkingSetC at h
  have hm := maxViolatingPair_fst e s
  generalize maxViolatingPair e s = mv at hm h
  dsimp only at h
  cases hg : mv.1.2 with
  | none => rw [hg] at h; simp at h
  | some i0 =>
    rw [hg] at h
    dsimp only at h
    obtain ⟨hi0, hv⟩ := hm i0 hg
    have hom := selectObjMin_ok e s mv.1.1 i0
    generalize selectObjMin e s mv.1.1 i0 = om at hom h
    cases ho : om.2 with
    | none => rw [ho] at h; simp at h
    | some j0 =>
      rw [ho] at h
      dsimp only at h
      split_ifs at h with hstop
      · simp at h
      · simp only [Prod.mk.injEq, and_true] at h
        obtain ⟨rfl, rfl⟩ := h
        obtain ⟨hj0, hgd⟩ := hom j0 ho
        refine ⟨?_, hi0, hj0⟩
        intro heq
        subst heq
        rw [hv] at hgd
        split_ifs at hgd <;> simp at hgd

/-! the nu form: the two class violators carry their label -/

def MvpPos (s : St α) (g : α × Option Nat) : Prop :=
  ∀ i, g.2 = some i → i < s.nactive ∧ gb s.y i = true ∧ g.1 = -gf s.grad i

def MvpNeg (s : St α) (g : α × Option Nat) : Prop :=
  ∀ i, g.2 = some i → i < s.nactive ∧ gb s.y i = false ∧ g.1 = gf s.grad i

theorem maxViolatingPairNu_ok (e : Env α) (s : St α) :
    MvpPos s (maxViolatingPairNu e s).1 ∧ MvpNeg s (maxViolatingPairNu e s).2.1 := by
  unfold maxViolatingPairNu
  refine foldl_inv (fun acc : (α × Option Nat) × (α × Option Nat) × (α × Option Nat) × (α × Option Nat) =>
    MvpPos s acc.1 ∧ MvpNeg s acc.2.1) _ _ _ ?_ ?_
  · exact ⟨fun i h => by simp at h, fun i h => by simp at h⟩
  · intro acc i hi hP
    have hi' : i < s.nactive := List.mem_range.mp hi
    have hnew1 : gb s.y i = true → MvpPos s (-gf s.grad i, some i) := by
      intro hy k hk
      simp only [Option.some.injEq] at hk
      subst hk
      exact ⟨hi', hy, rfl⟩
    have hnew2 : ¬ gb s.y i = true → MvpNeg s (gf s.grad i, some i) := by
      intro hy k hk
      simp only [Option.some.injEq] at hk
      subst hk
      exact ⟨hi', by simpa using hy, rfl⟩
    dsimp only
    split_ifs with hy h1 h2 <;> dsimp only <;>
      first
        | exact hP
        | exact ⟨hnew1 hy, hP.2⟩
        | exact ⟨hP.1, hnew2 hy⟩

def ObjOkNu (s : St α) (gp1 gn1 : α × Option Nat) (m : α × Option Nat) : Prop :=
  ∀ j, m.2 = some j → j < s.nactive ∧
    (if gb s.y j then (∃ i, gp1.2 = some i) ∧ 0 < gp1.1 + gf s.grad j
     else (∃ i, gn1.2 = some i) ∧ 0 < gn1.1 - gf s.grad j)

theorem selectNuObjMin_ok (e : Env α) (s : St α) (gp1 gn1 : α × Option Nat) :
    ObjOkNu s gp1 gn1 (selectNuObjMin e s gp1 gn1) := by
  unfold selectNuObjMin
  refine foldl_inv (fun m : α × Option Nat => ObjOkNu s gp1 gn1 m) _ _ _ ?_ ?_
  · intro i h; simp at h
  · intro m j hj hP
    have hj' : j < s.nactive := List.mem_range.mp hj
    have hnew : ∀ v : α, (if gb s.y j then (∃ i, gp1.2 = some i) ∧ 0 < gp1.1 + gf s.grad j
        else (∃ i, gn1.2 = some i) ∧ 0 < gn1.1 - gf s.grad j) → ObjOkNu s gp1 gn1 (v, some j) := by
      intro v hc k hk
      simp only [Option.some.injEq] at hk
      subst hk
      exact ⟨hj', hc⟩
    dsimp only
    cases hgp : gp1.2 <;> cases hgn : gn1.2 <;> simp only [Option.map_none, Option.map_some] <;>
      split_ifs with hy h1 h2 h3 h4 h5 h6 h7 <;>
      first
        | exact hP
        | exact hnew _ (by simp only [hy, if_true]; exact ⟨⟨_, hgp⟩, by assumption⟩)
        | exact hnew _ (by simp only [hy]; exact ⟨⟨_, hgn⟩, by assumption⟩)

/-- **`select_working_set_nu` returns a legal working pair of one class**: two distinct active
positions with the same label (so that each class keeps its own sum `e'α`) -/
theorem selectWorkingSetNu_valid (e : Env α) (s : St α) (i j : Nat)
    (h : selectWorkingSetNu e s = (i, j, false)) :
    i ≠ j ∧ i < s.nactive ∧ j < s.nactive ∧ gb s.y i = gb s.y j := by
  unfold selectWorkingSetNu at h
  obtain ⟨hp, hn⟩ := maxViolatingPairNu_ok e s
  generalize maxViolatingPairNu e s = mv at hp hn h
  dsimp only at h
  have hom := selectNuObjMin_ok e s mv.1 mv.2.1
  generalize selectNuObjMin e s mv.1 mv.2.1 = om at hom h
  cases ho : om.2 with
  | none => rw [ho] at h; simp at h
  | some j0 =>
    rw [ho] at h
    dsimp only at h
    split_ifs at h with hstop hy
    · simp at h
    · simp only [Prod.mk.injEq, and_true] at h
      obtain ⟨rfl, rfl⟩ := h
      obtain ⟨hj0, hgd⟩ := hom j0 ho
      simp only [hy, if_true] at hgd
      obtain ⟨⟨i0, hi0⟩, hpos⟩ := hgd
      obtain ⟨h1, h2, h3⟩ := hp i0 hi0
      rw [hi0, Option.getD_some]
      refine ⟨?_, h1, hj0, by rw [h2, hy]⟩
      intro heq
      subst heq
      rw [h3] at hpos
      simp at hpos
    · simp only [Prod.mk.injEq, and_true] at h
      obtain ⟨rfl, rfl⟩ := h
      obtain ⟨hj0, hgd⟩ := hom j0 ho
      simp only [hy] at hgd
      obtain ⟨⟨i0, hi0⟩, hpos⟩ := hgd
      obtain ⟨h1, h2, h3⟩ := hn i0 hi0
      rw [hi0, Option.getD_some]
      refine ⟨?_, h1, hj0, by rw [h2]; simpa using hy⟩
      intro heq
      subst heq
      rw [h3] at hpos
      simp at hpos

/-- **`select_working_set`, both forms** -/
theorem selectWorkingSet_valid (e : Env α) (s : St α) (i j : Nat)
    (h : selectWorkingSet e s = (i, j, false)) : i ≠ j ∧ i < s.nactive ∧ j < s.nactive := by
  unfold selectWorkingSet at h
  split_ifs at h
  · obtain ⟨a, b, c, _⟩ := selectWorkingSetNu_valid e s i j h
    exact ⟨a, b, c⟩
  · exact selectWorkingSetC_valid e s i j h

/-! ### nu duals: every class keeps its own sum, and the two multipliers -/

/-- `Σ_{k : y_k = c} alpha_k` over the positions -/
def classSum (s : St α) (c : Bool) : α :=
  ∑ k ∈ Finset.range s.alpha.length, if gb s.y k = c then gf s.alpha k else 0

theorem update_classSum (e : Env α) (s : St α) (i j : Nat) (hij : i ≠ j)
    (hi : i < s.alpha.length) (hj : j < s.alpha.length) (hb : Box s)
    (hy : gb s.y i = gb s.y j) (c : Bool) :
    classSum (update e s i j) c = classSum s c := by
  obtain ⟨_, hbox⟩ := hb
  obtain ⟨_, _, _, _, heq⟩ := newPair_spec e s i j (hbox i hi).1 (hbox i hi).2 (hbox j hj).1 (hbox j hj).2
  have hsum : (newPair e s i j).1 + (newPair e s i j).2 = gf s.alpha i + gf s.alpha j := by
    unfold tgt at heq
    rw [hy] at heq
    split_ifs at heq <;> linarith
  unfold classSum
  rw [update_alpha_length, update_y]
  rw [← sub_eq_zero, ← Finset.sum_sub_distrib]
  rw [Finset.sum_eq_add_of_mem i j (Finset.mem_range.mpr hi) (Finset.mem_range.mpr hj) hij]
  · rw [gf_update_alpha e s i j i hij hi hj, gf_update_alpha e s i j j hij hi hj]
    simp only [hij, if_false, if_true]
    rw [hy]
    split_ifs <;> linarith
  · intro k _ hk
    rw [gf_update_alpha e s i j k hij hi hj]
    simp only [hk.1, hk.2, if_false]
    ring

theorem calculateRhoNu_split (e : Env α) (s : St α) :
    (calculateRhoNu e s).2 + (calculateRhoNu e s).1 = rhoNuClass e s true ∧
    (calculateRhoNu e s).2 - (calculateRhoNu e s).1 = rhoNuClass e s false := by
  unfold calculateRhoNu
  dsimp only
  have h2 : (1 + 1 : α) ≠ 0 := by
    have : (0 : α) < 1 + 1 := by linarith [zero_lt_one (α := α)]
    exact ne_of_gt this
  constructor
  · rw [← add_div, div_eq_iff h2]; ring
  · rw [← sub_div, div_eq_iff h2]; ring

/-- the regression fold: `2 m` variables become `m` coefficients `alpha_i - alpha_{i+m}` -/
theorem foldRegression_spec (alpha : List α) (m : Nat) (hm : m < alpha.length) :
    (foldRegression alpha m).length = m ∧
    ∀ i, i < m → gf (foldRegression alpha m) i = gf alpha i - gf alpha (i + m) := by
  unfold foldRegression
  simp only [hm, if_true]
  refine ⟨by simp, ?_⟩
  intro i hi
  unfold gf
  rw [List.getD_eq_getElem?_getD]
  simp [hi]

/-! ### feasibility along the whole main loop (selection, update, shrinking, reconstruction) -/

/-- the point is feasible, the arrays have the size `n` of the problem, `Σ y α = c` -/
def Feas (n : Nat) (c : α) (s : St α) : Prop :=
  Box s ∧ s.y.length = s.alpha.length ∧ s.alpha.length = n ∧ s.nactive ≤ n ∧ ySum s = c

theorem feas_congr (n : Nat) (c : α) (s t : St α) (ha : t.alpha = s.alpha) (hy : t.y = s.y)
    (hb : t.bounds = s.bounds) (hn : t.nactive ≤ n) (h : Feas n c s) : Feas n c t := by
  obtain ⟨h1, h2, h3, _, h5⟩ := h
  refine ⟨?_, by rw [hy, ha]; exact h2, by rw [ha]; exact h3, hn, ?_⟩
  · unfold Box at h1 ⊢; rw [ha, hb]; exact h1
  · unfold ySum tgt at h5 ⊢; rw [ha, hy]; exact h5

theorem reconstructGradient_core (e : Env α) (s : St α) :
    (reconstructGradient e s).alpha = s.alpha ∧ (reconstructGradient e s).y = s.y ∧
    (reconstructGradient e s).bounds = s.bounds ∧ (reconstructGradient e s).nactive = s.nactive := by
  unfold reconstructGradient
  dsimp only
  split_ifs <;> exact ⟨rfl, rfl, rfl, rfl⟩

theorem swapIdx_invol (i j k : Nat) : swapIdx i j (swapIdx i j k) = k := by
  unfold swapIdx
  split_ifs <;> simp_all

theorem swap_feas (n : Nat) (c : α) (s : St α) (i j : Nat) (hi : i < n) (hj : j < n)
    (h : Feas n c s) : Feas n c (swap s i j) := by
  obtain ⟨⟨hbl, hbox⟩, hyl, hal, hna, hsum⟩ := h
  have hi' : i < s.alpha.length := hal ▸ hi
  have hj' : j < s.alpha.length := hal ▸ hj
  refine ⟨⟨?_, ?_⟩, ?_, ?_, hna, ?_⟩
  · simp only [swap, swapL_length]; exact hbl
  · intro k hk
    simp only [swap, swapL_length] at hk ⊢
    rw [gf_swapL _ i j k hi' hj', gf_swapL _ i j k (hbl ▸ hi') (hbl ▸ hj')]
    exact hbox _ (swapIdx_lt i j k _ hi' hj' hk)
  · simp only [swap, swapL_length]; exact hyl
  · simp only [swap, swapL_length]; exact hal
  · rw [← hsum]
    unfold ySum tgt
    simp only [swap, swapL_length]
    apply Finset.sum_nbij' (swapIdx i j) (swapIdx i j)
    · intro k hk
      exact Finset.mem_range.mpr (swapIdx_lt i j k _ hi' hj' (Finset.mem_range.mp hk))
    · intro k hk
      exact Finset.mem_range.mpr (swapIdx_lt i j k _ hi' hj' (Finset.mem_range.mp hk))
    · intro k _; exact swapIdx_invol i j k
    · intro k _; exact swapIdx_invol i j k
    · intro k _
      simp only [gf_swapL _ i j k hi' hj', gb_swapL _ i j k (hyl ▸ hi') (hyl ▸ hj')]

theorem shrinkInner_feas (n : Nat) (c : α) (sh : St α → Nat → Bool) (i : Nat) (fuel : Nat) (s : St α)
    (hlt : s.nactive < n) (h : Feas n c s) : Feas n c (shrinkInner sh i fuel s) := by
  induction fuel generalizing s with
  | zero => exact h
  | succ fuel ih =>
    unfold shrinkInner
    split_ifs with h1 h2
    · exact swap_feas n c s i s.nactive (by omega) hlt h
    · apply ih
      · show s.nactive - 1 < n; omega
      · exact feas_congr n c s _ rfl rfl rfl (by show s.nactive - 1 ≤ n; omega) h
    · exact h

theorem shrinkOuter_feas (n : Nat) (c : α) (sh : St α → Nat → Bool) (fuel i : Nat) (s : St α)
    (h : Feas n c s) : Feas n c (shrinkOuter sh fuel i s) := by
  induction fuel generalizing s i with
  | zero => exact h
  | succ fuel ih =>
    unfold shrinkOuter
    by_cases h1 : i < s.nactive
    · simp only [h1, if_true]
      apply ih
      split_ifs with h2
      · have hn := h.2.2.2.1
        apply shrinkInner_feas
        · show s.nactive - 1 < n; omega
        · exact feas_congr n c s _ rfl rfl rfl (by show s.nactive - 1 ≤ n; omega) h
      · exact h
    · simp only [h1, if_false]; exact h

theorem doShrinking_feas (n : Nat) (c : α) (e : Env α) (s : St α) (h : Feas n c s) :
    Feas n c (doShrinking e s) := by
  have hrec : ∀ s : St α, Feas n c s →
      Feas n c { reconstructGradient e { s with unshrink := true } with
                 nactive := ntotal (reconstructGradient e { s with unshrink := true }) } := by
    intro s hs
    obtain ⟨a, b, c', _⟩ := reconstructGradient_core e { s with unshrink := true }
    refine feas_congr n c s _ a b c' ?_ hs
    show ntotal _ ≤ n
    unfold ntotal
    rw [a]
    exact le_of_eq hs.2.2.1
  unfold doShrinking
  split_ifs
  · unfold doShrinkingNu
    dsimp only
    apply shrinkOuter_feas
    split_ifs
    · exact hrec s h
    · exact h
  · unfold doShrinkingC
    dsimp only
    apply shrinkOuter_feas
    split_ifs
    · exact hrec s h
    · exact h

theorem update_nactive (e : Env α) (s : St α) (i j : Nat) : (update e s i j).nactive = s.nactive := by
  unfold update; dsimp only; split_ifs <;> rfl

theorem update_feas (n : Nat) (c : α) (e : Env α) (s : St α) (i j : Nat) (hij : i ≠ j)
    (hi : i < s.nactive) (hj : j < s.nactive) (h : Feas n c s) : Feas n c (update e s i j) := by
  obtain ⟨hb, hyl, hal, hna, hsum⟩ := h
  have hi' : i < s.alpha.length := by omega
  have hj' : j < s.alpha.length := by omega
  refine ⟨update_box e s i j hij hi' hj' hb, ?_, ?_, ?_, ?_⟩
  · rw [update_y, update_alpha_length]; exact hyl
  · rw [update_alpha_length]; exact hal
  · rw [update_nactive]; exact hna
  · rw [update_ySum e s i j hij hi' hj' hb]; exact hsum

/-- the triple `select_working_set` returned, spelled out -/
theorem select_eq (e : Env α) (s : St α) (h : (selectWorkingSet e s).2.2 = false) :
    selectWorkingSet e s = ((selectWorkingSet e s).1, (selectWorkingSet e s).2.1, false) := by
  rw [← h]

theorem solveLoop_feas (n : Nat) (c : α) (e : Env α) (shrinking : Bool) (fuel : Nat) (s : St α)
    (iter counter : Nat) (h : Feas n c s) : Feas n c (solveLoop e shrinking fuel s iter counter).1 := by
  induction fuel generalizing s iter counter with
  | zero => exact h
  | succ fuel ih =>
    unfold solveLoop
    dsimp only
    have h1 : Feas n c (if (counter - 1 == 0 && shrinking) = true then doShrinking e s else s) := by
      split_ifs
      · exact doShrinking_feas n c e s h
      · exact h
    generalize (if (counter - 1 == 0 && shrinking) = true then doShrinking e s else s) = s1 at h1 ⊢
    generalize (if (counter - 1 == 0) = true then min (ntotal s) 1000 else counter - 1) = c1
    split_ifs with ho ho2
    · -- optimal twice: the loop ends on the re-activated state
      obtain ⟨a, b, c', _⟩ := reconstructGradient_core e s1
      refine feas_congr n c s1 _ a b c' ?_ h1
      show ntotal _ ≤ n
      unfold ntotal; rw [a]; exact le_of_eq h1.2.2.1
    · apply ih
      have h3 : Feas n c { reconstructGradient e s1 with nactive := ntotal (reconstructGradient e s1) } := by
        obtain ⟨a, b, c', _⟩ := reconstructGradient_core e s1
        refine feas_congr n c s1 _ a b c' ?_ h1
        show ntotal _ ≤ n
        unfold ntotal; rw [a]; exact le_of_eq h1.2.2.1
      have hv := selectWorkingSet_valid e _ _ _ (select_eq e _ (by simpa using ho2))
      exact update_feas n c e _ _ _ hv.1 hv.2.1 hv.2.2 h3
    · apply ih
      have hv := selectWorkingSet_valid e _ _ _ (select_eq e _ (by simpa using ho))
      exact update_feas n c e _ _ _ hv.1 hv.2.1 hv.2.2 h1

end select

end LinfaSpec.Smo
