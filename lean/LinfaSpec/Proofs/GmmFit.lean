import LinfaSpec.Model.Gmm
import Mathlib.Algebra.Order.Field.Basic
import Mathlib.Algebra.Order.AbsoluteValue.Basic
import Mathlib.Tactic.Linarith

/-!
Helper lemmas for C10, third part: invariants of the loop of `GmmValidParams::fit`
(`runLoop`, `fitRuns`, `fitOutcome` of `Model/Gmm.lean`).
-/
set_option linter.unusedSectionVars false

namespace LinfaSpec.Gmm
open LinfaSpec

section
variable {α : Type} [Field α] [LinearOrder α] [IsStrictOrderedRing α]

theorem absS_eq_abs (x : α) : absS x = |x| := by
  unfold absS
  split
  · rw [abs_of_neg ‹_›]
  · rw [abs_of_nonneg (not_lt.mp ‹_›)]

/-- "the state with chain index `i` was accepted as converged": the two steps that led to it are
consecutive error-free steps whose lower bounds differ by less than the tolerance -/
def ConvergedAt (tol : α) (tr : List (Except String α)) (i : Nat) : Prop :=
  2 ≤ i ∧ ∃ p v, tr[i - 2]? = some (.ok p) ∧ tr[i - 1]? = some (.ok v) ∧ |v - p| < tol

/-- every step of the chain in `[lo, hi)` succeeded -/
def StepsOk (tr : List (Except String α)) (lo hi : Nat) : Prop :=
  ∀ t, lo ≤ t → t < hi → ∃ v, tr[t]? = some (.ok v)

/-- invariant of one run -/
theorem runLoop_ok (tol : α) (tr : List (Except String α)) :
    ∀ (fuel iter pos : Nat) (prev : Option α) (pos' : Nat) (lb : Option α) (conv : Option Nat),
      (∀ p, prev = some p → 1 ≤ pos ∧ tr[pos - 1]? = some (.ok p)) →
      runLoop tol tr fuel iter pos prev = .ok (pos', lb, conv) →
      pos ≤ pos' ∧ pos' ≤ pos + fuel ∧ StepsOk tr pos pos' ∧
      (∀ it, conv = some it → ConvergedAt tol tr pos') ∧
      (lb = none → pos' = pos ∧ prev = none) := by
  intro fuel
  induction fuel with
  | zero =>
    intro iter pos prev pos' lb conv _ h
    simp only [runLoop, Except.ok.injEq, Prod.mk.injEq] at h
    obtain ⟨rfl, rfl, rfl⟩ := h
    refine ⟨le_refl _, le_refl _, ?_, ?_, ?_⟩
    · intro t h1 h2; omega
    · intro it hit; cases hit
    · intro hp; exact ⟨rfl, hp⟩
  | succ fuel ih =>
    intro iter pos prev pos' lb conv hprev h
    unfold runLoop at h
    cases htr : tr[pos]? with
    | none => rw [htr] at h; simp at h
    | some st =>
      rw [htr] at h
      cases st with
      | error e => simp at h
      | ok v =>
        simp only at h
        by_cases hconv : convTest tol prev v = true
        · -- converged at this step
          rw [if_pos hconv] at h
          simp only [Except.ok.injEq, Prod.mk.injEq] at h
          obtain ⟨rfl, rfl, rfl⟩ := h
          refine ⟨by omega, by omega, ?_, ?_, ?_⟩
          · intro t h1 h2
            have : t = pos := by omega
            subst this
            exact ⟨v, htr⟩
          · intro it _
            cases hp : prev with
            | none => rw [hp] at hconv; simp [convTest] at hconv
            | some p =>
              rw [hp] at hconv
              simp only [convTest, decide_eq_true_eq] at hconv
              obtain ⟨h1, h2⟩ := hprev p hp
              refine ⟨by omega, p, v, ?_, ?_, ?_⟩
              · have : pos + 1 - 2 = pos - 1 := by omega
                rw [this]; exact h2
              · have : pos + 1 - 1 = pos := by omega
                rw [this]; exact htr
              · rw [← absS_eq_abs]; exact hconv
          · intro hn; cases hn
        · -- not converged: next iteration
          rw [if_neg hconv] at h
          have hprev' : ∀ p, some v = some p → 1 ≤ pos + 1 ∧ tr[pos + 1 - 1]? = some (.ok p) := by
            intro p hp
            cases hp
            exact ⟨by omega, by simpa using htr⟩
          obtain ⟨h1, h2, h3, h4, h5⟩ := ih (iter + 1) (pos + 1) (some v) pos' lb conv hprev' h
          refine ⟨by omega, by omega, ?_, h4, ?_⟩
          · intro t ht1 ht2
            by_cases ht : t = pos
            · subst ht; exact ⟨v, htr⟩
            · exact h3 t (by omega) ht2
          · intro hn
            obtain ⟨_, hc⟩ := h5 hn
            cases hc

/-- a step that fails ends the run with that error (the `?` of `fit`) -/
theorem runLoop_step_error (tol : α) (tr : List (Except String α)) (fuel iter pos : Nat)
    (prev : Option α) (e : String) (h : tr[pos]? = some (.error e)) :
    runLoop tol tr (fuel + 1) iter pos prev = .error e := by
  unfold runLoop
  rw [h]

/-- bookkeeping invariant of the loop over the runs -/
def BestInv (tol : α) (tr : List (Except String α)) (pos : Nat) (b : Best α) : Prop :=
  (∀ it, b.bestIter = some it → ∃ i, b.best = some i) ∧
  (∀ i, b.best = some i → i ≤ pos) ∧
  (∀ i it, b.best = some i → b.bestIter = some it → ConvergedAt tol tr i)

theorem fitRuns_ok (tol : α) (maxIter : Nat) (tr : List (Except String α)) :
    ∀ (runs pos : Nat) (b b' : Best α) (posEnd : Nat),
      StepsOk tr 0 pos → BestInv tol tr pos b →
      fitRuns tol maxIter tr runs pos b = .ok (b', posEnd) →
      pos ≤ posEnd ∧ posEnd ≤ pos + runs * maxIter ∧ StepsOk tr 0 posEnd ∧ BestInv tol tr posEnd b' := by
  intro runs
  induction runs with
  | zero =>
    intro pos b b' posEnd hs hb h
    simp only [fitRuns, Except.ok.injEq, Prod.mk.injEq] at h
    obtain ⟨rfl, rfl⟩ := h
    exact ⟨le_refl _, by omega, hs, hb⟩
  | succ runs ih =>
    intro pos b b' posEnd hs hb h
    unfold fitRuns at h
    cases hr : runLoop tol tr maxIter 0 pos none with
    | error e => rw [hr] at h; simp at h
    | ok res =>
      obtain ⟨pos', lb, conv⟩ := res
      rw [hr] at h
      simp only at h
      obtain ⟨h1, h2, h3, h4, _⟩ := runLoop_ok tol tr maxIter 0 pos none pos' lb conv (fun p hp => by cases hp) hr
      have hs' : StepsOk tr 0 pos' := by
        intro t ht1 ht2
        by_cases hlt : t < pos
        · exact hs t ht1 hlt
        · exact h3 t (by omega) ht2
      have hb' : BestInv tol tr pos'
          (if lbGreater lb b.maxLb then (⟨lb, some pos', conv⟩ : Best α) else b) := by
        split
        · refine ⟨fun it _ => ⟨pos', rfl⟩, ?_, ?_⟩
          · intro i hi; simp only [Option.some.injEq] at hi; omega
          · intro i it hi hit
            simp only [Option.some.injEq] at hi
            subst hi
            exact h4 it hit
        · obtain ⟨g1, g2, g3⟩ := hb
          exact ⟨g1, fun i hi => le_trans (g2 i hi) h1, g3⟩
      obtain ⟨k1, k2, k3, k4⟩ := ih pos' _ b' posEnd hs' hb' h
      refine ⟨by omega, ?_, k3, k4⟩
      have : (runs + 1) * maxIter = runs * maxIter + maxIter := Nat.succ_mul runs maxIter
      omega

/-- a run that fails makes the whole fit fail with that error -/
theorem fitRuns_run_error (tol : α) (maxIter : Nat) (tr : List (Except String α)) (runs pos : Nat)
    (b : Best α) (e : String) (h : runLoop tol tr maxIter 0 pos none = .error e) :
    fitRuns tol maxIter tr (runs + 1) pos b = .error e := by
  unfold fitRuns
  rw [h]

end

/-! ### The chain of EM states generated by a step function (`chainFrom`) -/
section chain
variable {α σ : Type}

theorem chainFrom_head (step : σ → Except String (α × σ)) (fuel : Nat) (s : σ) :
    (chainFrom step fuel s).2[0]? = some s := by
  cases fuel with
  | zero => simp [chainFrom]
  | succ fuel =>
    unfold chainFrom
    cases hs : step s with
    | error e => simp
    | ok r => obtain ⟨lb, s'⟩ := r; simp

/-- every state of the chain but the first is the output of a successful step from its predecessor, and
the trace records the lower bound of that step -/
theorem chainFrom_succ (step : σ → Except String (α × σ)) :
    ∀ (fuel : Nat) (s0 : σ) (t : Nat) (b : σ), (chainFrom step fuel s0).2[t + 1]? = some b →
      ∃ a lb, (chainFrom step fuel s0).2[t]? = some a ∧ step a = .ok (lb, b) ∧
        (chainFrom step fuel s0).1[t]? = some (.ok lb) := by
  intro fuel
  induction fuel with
  | zero => intro s0 t b h; simp [chainFrom] at h
  | succ fuel ih =>
    intro s0 t b h
    unfold chainFrom at h ⊢
    cases hs : step s0 with
    | error e => rw [hs] at h; simp at h
    | ok r =>
      obtain ⟨lb, s'⟩ := r
      rw [hs] at h
      simp only [List.getElem?_cons_succ] at h
      cases t with
      | zero =>
        rw [chainFrom_head] at h
        cases h
        exact ⟨s0, lb, by simp, hs, by simp⟩
      | succ t =>
        obtain ⟨a, lb', h1, h2, h3⟩ := ih s' t b h
        exact ⟨a, lb', by simpa using h1, h2, by simpa using h3⟩

/-- an invariant of the step function holds in every state of the chain -/
theorem chainFrom_inv (step : σ → Except String (α × σ)) (Inv : σ → Prop) (fuel : Nat) (s0 : σ)
    (h0 : Inv s0) (hstep : ∀ a lb b, Inv a → step a = .ok (lb, b) → Inv b) :
    ∀ (t : Nat) (a : σ), (chainFrom step fuel s0).2[t]? = some a → Inv a := by
  intro t
  induction t with
  | zero => intro a h; rw [chainFrom_head] at h; cases h; exact h0
  | succ t ih =>
    intro b h
    obtain ⟨a, lb, h1, h2, _⟩ := chainFrom_succ step fuel s0 t b h
    exact hstep a lb b (ih a h1) h2

end chain

end LinfaSpec.Gmm
