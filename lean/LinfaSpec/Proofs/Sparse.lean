import LinfaSpec.Model.Kernel
import Mathlib.Tactic.Ring

/-! Helper lemmas for the sparse-kernel half of C06 (structure only, no arithmetic). -/
namespace LinfaSpec.Kernel
open LinfaSpec

theorem find?_map_pair {β : Type} (f : Nat → β) (l : List Nat) (j : Nat) :
    (l.map fun c => (c, f c)).find? (fun e => e.1 == j) = if j ∈ l then some (j, f j) else none := by
  induction l with
  | nil => simp
  | cons x xs ih =>
    simp only [List.map_cons, List.find?_cons, List.mem_cons]
    by_cases hx : x = j
    · subst hx; simp
    · have : (x == j) = false := by simp [hx]
      rw [this, ih]
      have : ¬ j = x := fun h => hx h.symm
      simp [this]

theorem adjPattern_getD (n : Nat) (nb : List (List Nat)) (i : Nat) (hi : i < n) :
    (adjPattern n nb).getD i [] = i :: ((nb.getD i []).filter (· != i)) := by
  simp [adjPattern, List.getD_eq_getElem?_getD, hi]

theorem adjPattern_contains (n : Nat) (nb : List (List Nat)) (i j : Nat) (hi : i < n) :
    ((adjPattern n nb).getD i []).contains j = true ↔ (j = i ∨ j ∈ nb.getD i []) := by
  rw [adjPattern_getD n nb i hi]
  simp only [List.contains_eq_mem, List.mem_cons, List.mem_filter, bne_iff_ne, ne_eq, decide_eq_true_eq]
  constructor
  · rintro (h | ⟨h, _⟩)
    · exact Or.inl h
    · exact Or.inr h
  · rintro (h | h)
    · exact Or.inl h
    · by_cases hji : j = i
      · exact Or.inl hji
      · exact Or.inr ⟨h, hji⟩

theorem support_getD (n : Nat) (pat : List (List Nat)) (i : Nat) (hi : i < n) :
    (support n pat).getD i [] = (List.range n).filter fun j =>
      (pat.getD i []).contains j || (pat.getD j []).contains i := by
  simp [support, List.getD_eq_getElem?_getD, hi]

/-- the relation whose pairs are stored: the diagonal and the symmetric closure of "is among the
returned neighbours of" -/
def Stored (n : Nat) (nb : List (List Nat)) (i j : Nat) : Prop :=
  i < n ∧ j < n ∧ (j = i ∨ j ∈ nb.getD i [] ∨ i ∈ nb.getD j [])

instance (n : Nat) (nb : List (List Nat)) (i j : Nat) : Decidable (Stored n nb i j) := by
  unfold Stored; infer_instance

theorem stored_symm (n : Nat) (nb : List (List Nat)) (i j : Nat) : Stored n nb i j ↔ Stored n nb j i := by
  unfold Stored
  constructor <;> rintro ⟨a, b, c⟩ <;> refine ⟨b, a, ?_⟩ <;> rcases c with c | c | c
  · exact Or.inl c.symm
  · exact Or.inr (Or.inr c)
  · exact Or.inr (Or.inl c)
  · exact Or.inl c.symm
  · exact Or.inr (Or.inr c)
  · exact Or.inr (Or.inl c)

theorem mem_support (n : Nat) (nb : List (List Nat)) (i j : Nat) (hi : i < n) :
    j ∈ (support n (adjPattern n nb)).getD i [] ↔ Stored n nb i j := by
  rw [support_getD n _ i hi]
  simp only [List.mem_filter, List.mem_range, Bool.or_eq_true]
  unfold Stored
  constructor
  · rintro ⟨hj, h⟩
    refine ⟨hi, hj, ?_⟩
    rcases h with h | h
    · rcases (adjPattern_contains n nb i j hi).mp h with h | h
      · exact Or.inl h
      · exact Or.inr (Or.inl h)
    · rcases (adjPattern_contains n nb j i hj).mp h with h | h
      · exact Or.inl h.symm
      · exact Or.inr (Or.inr h)
  · rintro ⟨_, hj, h⟩
    refine ⟨hj, ?_⟩
    rcases h with h | h | h
    · exact Or.inl ((adjPattern_contains n nb i j hi).mpr (Or.inl h))
    · exact Or.inl ((adjPattern_contains n nb i j hi).mpr (Or.inr h))
    · exact Or.inr ((adjPattern_contains n nb j i hj).mpr (Or.inr h))

section
variable {α : Type} [Add α] [Sub α] [Mul α] [Div α] [Neg α] [OfNat α 0] [Transc α] [KPow α]

theorem sparse_some (m : Method α) (X : List (List α)) (k : Nat) (nb : List (List Nat)) (S : Csr α)
    (h : sparseFromFn m X k nb = some S) :
    (k < X.length ∧ 0 < k) ∧
    S = (support X.length (adjPattern X.length nb)).mapIdx fun i js =>
      js.map fun j => (j, kernelFn m (X.getD i []) (X.getD j [])) := by
  unfold sparseFromFn at h
  simp only [] at h
  split at h
  · rename_i hk
    exact ⟨hk, (Option.some.inj h).symm⟩
  · cases h

theorem sparse_row (m : Method α) (X : List (List α)) (k : Nat) (nb : List (List Nat)) (S : Csr α)
    (h : sparseFromFn m X k nb = some S) (i : Nat) (hi : i < X.length) :
    S.getD i [] = ((support X.length (adjPattern X.length nb)).getD i []).map fun j =>
      (j, kernelFn m (X.getD i []) (X.getD j [])) := by
  obtain ⟨_, rfl⟩ := sparse_some m X k nb S h
  have hl : (support X.length (adjPattern X.length nb)).length = X.length := by simp [support]
  simp [List.getD_eq_getElem?_getD, List.getElem?_mapIdx, hl, hi]

theorem sparse_length (m : Method α) (X : List (List α)) (k : Nat) (nb : List (List Nat)) (S : Csr α)
    (h : sparseFromFn m X k nb = some S) : S.length = X.length := by
  obtain ⟨_, rfl⟩ := sparse_some m X k nb S h
  simp [support]

end
end LinfaSpec.Kernel
