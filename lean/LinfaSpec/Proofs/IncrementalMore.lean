import LinfaSpec.Proofs.IncrementalFull

/-!
C15: multinomial naive Bayes through the whole association-list state; mini-batch k-means with any
metric (assignment to a nearest centroid, truthful `converged`, `n_runs` selection); FTRL sigmoid clamp.
-/
namespace LinfaSpec.Incremental
open LinfaSpec

set_option linter.unusedSectionVars false
set_option linter.unusedSimpArgs false
set_option linter.unusedVariables false

section Field
variable {α : Type} [Field α] [LinearOrder α] [IsStrictOrderedRing α]

/-! ### multinomial naive Bayes: whole state -/

/-- what the property is about: count, feature counts, log-frequencies -/
def mProj (i : MInfo α) : Nat × List α × List α := (i.count, i.fcount, i.flogp)

/-- textbook statistics of class `c` in the data `d` (`none` if the class does not occur) -/
def mnbStats [Transc α] (a : α) (p : Nat) (d : Batch α) (c : Nat) : Option (Nat × List α × List α) :=
  if rowsOf c d = [] then none
  else some ((rowsOf c d).length, (columns p (rowsOf c d)).map sumS,
    mnbLogProb a ((columns p (rowsOf c d)).map sumS))

/-- the update of one class inside the class loop -/
def mnbF [Transc α] (a : α) (p : Nat) (b : Batch α) (k : Nat) (o : Option (MInfo α)) : MInfo α :=
  let info := o.getD MInfo.default
  let r := mnbUpdateClass a info (columns p (rowsOf k b)) (rowsOf k b).length
  { info with flogp := r.1, fcount := r.2, count := info.count + (rowsOf k b).length }

theorem mnbClassLoop_eq [Transc α] (a : α) (p : Nat) (b : Batch α) (st : MState α) :
    mnbClassLoop a p b st =
      (labelsOf b).foldl (fun s k => upsert k (mnbF a p b k (lookup k s)) s) st := rfl

theorem mnbUpdateClass_replay [Transc α] (a pr : α) (lp : List α) (p : Nat) (r1 r2 : List (List α))
    (h2 : r2 ≠ []) :
    mnbUpdateClass a ⟨r1.length, pr, (columns p r1).map sumS, lp⟩ (columns p r2) r2.length =
      (mnbLogProb a ((columns p (r1 ++ r2)).map sumS), (columns p (r1 ++ r2)).map sumS) := by
  have h2' : r2.length ≠ 0 := by simpa using h2
  unfold mnbUpdateClass
  simp only [h2', if_false]
  by_cases h1 : 0 < r1.length
  · simp only [h1, if_true, colsum_append]
  · have : r1 = [] := List.eq_nil_of_length_eq_zero (by omega)
    subst this
    simp

theorem mnbStep_invariant [Transc α] (a : α) (p : Nat) (st : MState α) (d b : Batch α)
    (H : ∀ c, (lookup c st).map mProj = mnbStats a p d c) :
    ∀ c, (lookup c (mnbStep a p st b)).map mProj = mnbStats a p (d ++ b) c := by
  intro c
  have Hc := H c
  simp only [mnbStep, mnbPriors, lookup_mapVals, mnbClassLoop_eq,
    lookup_foldl_upsert _ _ (nodup_labelsOf _), Option.map_map]
  simp only [mnbStats, rowsOf_append] at Hc ⊢
  by_cases hl : c ∈ labelsOf b
  · have hb : rowsOf c b ≠ [] := (mem_labelsOf c b).mp hl
    have hb0 : (rowsOf c b).length ≠ 0 := by simpa using hb
    simp only [hl, if_true, Option.map_some, Function.comp, mProj]
    cases ho : lookup c st with
    | none =>
      rw [ho] at Hc
      by_cases hd : rowsOf c d = []
      · simp [hd, hb, hb0, mnbF, MInfo.default, mnbUpdateClass]
      · simp [hd] at Hc
    | some i =>
      rw [ho] at Hc
      by_cases hd : rowsOf c d = []
      · simp [hd] at Hc
      · simp only [hd, if_false, Option.map_some, mProj, Option.some.injEq, Prod.mk.injEq] at Hc
        obtain ⟨h1, h2, h3⟩ := Hc
        have hne : ¬ (rowsOf c d ++ rowsOf c b = []) := by simp [hd]
        have := mnbUpdateClass_replay a i.prior i.flogp p (rowsOf c d) (rowsOf c b) hb
        have hi : i = ⟨(rowsOf c d).length, i.prior, (columns p (rowsOf c d)).map sumS, i.flogp⟩ := by
          cases i; simp only [MInfo.mk.injEq] at *; exact ⟨h1, trivial, h2, trivial⟩
        simp only [hne, if_false, mnbF, Option.getD_some, List.length_append]
        rw [hi, this]
  · have hb : rowsOf c b = [] := by
      by_contra h; exact hl ((mem_labelsOf c b).mpr h)
    simp only [hl, if_false, hb, List.append_nil, Option.map_map]
    rw [← Hc]
    cases lookup c st with
    | none => simp
    | some i => simp [mProj, Function.comp]

/-- **multinomial NB: replay over every history through the whole state.**  After feeding any list
of batches every class holds exactly the number of its rows, the per-feature sums of its rows in the
concatenated data and the smoothed log-frequencies of those sums; classes never seen are absent. -/
theorem mnbRun_stats [Transc α] (a : α) (p : Nat) (hist : List (Batch α)) (c : Nat) :
    (lookup c (mnbRun a p hist)).map mProj = mnbStats a p hist.flatten c := by
  have key : ∀ (hist : List (Batch α)) (st : MState α) (d : Batch α),
      (∀ c, (lookup c st).map mProj = mnbStats a p d c) →
      ∀ c, (lookup c (hist.foldl (mnbStep a p) st)).map mProj = mnbStats a p (d ++ hist.flatten) c := by
    intro hist
    induction hist with
    | nil => intro st d H c; simpa using H c
    | cons b rest ih =>
      intro st d H c
      simp only [List.foldl_cons, List.flatten_cons, ← List.append_assoc]
      exact ih _ _ (mnbStep_invariant a p st d b H) c
  have := key hist [] [] (by intro c; simp [lookup, mnbStats, rowsOf]) c
  simpa [mnbRun] using this

def mnbTotal (st : MState α) : Nat := tot MInfo.count st

theorem mnbF_count [Transc α] (a : α) (p : Nat) (b : Batch α) (k : Nat) (o : Option (MInfo α)) :
    (mnbF a p b k o).count = (o.map MInfo.count).getD 0 + (rowsOf k b).length := by
  cases o <;> simp [mnbF, MInfo.default]

theorem mnbStep_total [Transc α] (a : α) (p : Nat) (st : MState α) (b : Batch α) :
    mnbTotal (mnbStep a p st b) = mnbTotal st + b.length := by
  simp only [mnbStep, mnbPriors, mnbTotal]
  refine Eq.trans (tot_mapVals MInfo.count MInfo.count _ ?_ _) ?_
  · intro x; rfl
  rw [mnbClassLoop_eq,
    tot_foldl_upsert MInfo.count (mnbF a p b) (fun k => (rowsOf k b).length) (mnbF_count a p b),
    sum_rows_labelsOf]

theorem mnbRun_total [Transc α] (a : α) (p : Nat) (hist : List (Batch α)) :
    mnbTotal (mnbRun a p hist) = hist.flatten.length := by
  have key : ∀ (hist : List (Batch α)) (st : MState α),
      mnbTotal (hist.foldl (mnbStep a p) st) = mnbTotal st + hist.flatten.length := by
    intro hist
    induction hist with
    | nil => intro st; simp
    | cons b rest ih =>
      intro st
      simp only [List.foldl_cons, List.flatten_cons, List.length_append]
      rw [ih, mnbStep_total]; omega
  have := key hist []
  simpa [mnbRun, mnbTotal, tot] using this

theorem mnbStep_prior [Transc α] (a : α) (p : Nat) (st : MState α) (b : Batch α) (c : Nat)
    (i : MInfo α) (h : lookup c (mnbStep a p st b) = some i) :
    i.prior = (i.count : α) / ((mnbTotal (mnbStep a p st b) : Nat) : α) := by
  have ht : mnbTotal (mnbStep a p st b) = mnbTotal (mnbClassLoop a p b st) := by
    simp only [mnbStep, mnbPriors, mnbTotal]
    refine tot_mapVals MInfo.count MInfo.count _ ?_ _
    intro x; rfl
  rw [ht]
  simp only [mnbStep, mnbPriors, lookup_mapVals] at h
  obtain ⟨j, _, rfl⟩ := Option.map_eq_some_iff.mp h
  simp [mnbTotal, tot, List.sum_eq_foldl]

/-! ### mini-batch k-means with any metric -/

theorem closestBy_fold_spec (m : Metric) (x : List α) (l : List (List α × Nat)) (init : Nat × α) :
    let r := l.foldl (fun (best : Nat × α) (ci : List α × Nat) =>
      let d := rdistBy m ci.1 x
      if d < best.2 then (ci.2, d) else best) init
    r.2 ≤ init.2 ∧ ∀ ci ∈ l, r.2 ≤ rdistBy m ci.1 x := by
  induction l generalizing init with
  | nil => simp
  | cons ci rest ih =>
    simp only [List.foldl_cons]
    by_cases h : rdistBy m ci.1 x < init.2
    · simp only [h, if_true]
      obtain ⟨h1, h2⟩ := ih (ci.2, rdistBy m ci.1 x)
      refine ⟨le_trans h1 (le_of_lt h), ?_⟩
      intro cj hcj
      rcases List.mem_cons.mp hcj with rfl | hcj
      · exact h1
      · exact h2 cj hcj
    · simp only [h, if_false]
      obtain ⟨h1, h2⟩ := ih init
      refine ⟨h1, ?_⟩
      intro cj hcj
      rcases List.mem_cons.mp hcj with rfl | hcj
      · exact le_trans h1 (not_lt.mp h)
      · exact h2 cj hcj

/-- **the assignment is to a nearest centroid** (any metric): the distance returned by
`closest_centroid` is at most the distance to every centroid -/
theorem closestBy_le (m : Metric) (cs : List (List α)) (x : List α) (c : List α) (hc : c ∈ cs) :
    (closestBy m cs x).2 ≤ rdistBy m c x := by
  cases cs with
  | nil => simp at hc
  | cons c0 rest =>
    simp only [closestBy]
    obtain ⟨_, h2⟩ := closestBy_fold_spec m x (c0 :: rest).zipIdx (0, rdistBy m c0 x)
    obtain ⟨i, hi⟩ := List.getElem_of_mem hc
    obtain ⟨hi1, hi2⟩ := hi
    exact h2 (c, i) (List.mk_mem_zipIdx_iff_getElem?.mpr (by simp [List.getElem?_eq_getElem hi1, hi2]))

/-- the L2 instance of the generic step is the step the earlier theorems talk about -/
theorem kmStepBy_l2 [Transc α] (tol : α) (st : KState α) (obs : List (List α)) :
    ((kmStepBy .l2 tol st obs).1, (kmStepBy .l2 tol st obs).2.1) = kmStep tol st obs := by
  rfl

/-- the `n_runs` selection keeps a candidate of minimal inertia -/
theorem pickInit_fold_spec {β : Type} (l : List (β × α)) (x : β × α) :
    let b := l.foldl (fun best y => if best.2 < y.2 then best else y) x
    (b = x ∨ b ∈ l) ∧ b.2 ≤ x.2 ∧ ∀ y ∈ l, b.2 ≤ y.2 := by
  induction l generalizing x with
  | nil => simp
  | cons y rest ih =>
    simp only [List.foldl_cons]
    by_cases h : x.2 < y.2
    · simp only [h, if_true]
      obtain ⟨h1, h2, h3⟩ := ih x
      refine ⟨?_, h2, ?_⟩
      · rcases h1 with h1 | h1
        · left; exact h1
        · right; exact List.mem_cons_of_mem _ h1
      · intro w hw
        rcases List.mem_cons.mp hw with rfl | hw
        · exact le_trans h2 (le_of_lt h)
        · exact h3 w hw
    · simp only [h, if_false]
      obtain ⟨h1, h2, h3⟩ := ih y
      refine ⟨?_, le_trans h2 (not_lt.mp h), ?_⟩
      · rcases h1 with h1 | h1
        · right; rw [h1]; exact List.mem_cons_self
        · right; exact List.mem_cons_of_mem _ h1
      · intro w hw
        rcases List.mem_cons.mp hw with rfl | hw
        · exact h2
        · exact h3 w hw

theorem pickInit_spec {β : Type} (l : List (β × α)) (b : β × α) (h : pickInit l = some b) :
    b ∈ l ∧ ∀ y ∈ l, b.2 ≤ y.2 := by
  cases l with
  | nil => simp [pickInit] at h
  | cons x rest =>
    simp only [pickInit, Option.some.injEq] at h
    obtain ⟨h1, h2, h3⟩ := pickInit_fold_spec rest x
    rw [h] at h1 h2 h3
    refine ⟨?_, ?_⟩
    · rcases h1 with h1 | h1
      · rw [h1]; exact List.mem_cons_self
      · exact List.mem_cons_of_mem _ h1
    · intro y hy
      rcases List.mem_cons.mp hy with rfl | hy
      · exact h2
      · exact h3 y hy

/-! ### FTRL: the clamp of the sigmoid -/

/-- beyond the clamp the sigmoid does not depend on the logit any more -/
theorem sigmoid_clamp_hi [Transc α] (m v : α) (hm : 0 ≤ m) (hv : m ≤ v) : sigmoid m v = sigmoid m m := by
  have h1 : minS v m = m := by
    unfold minS; by_cases h : m < v
    · simp [h]
    · simp [h]; exact le_antisymm (not_lt.mp h) hv
  have h2 : minS m m = m := by unfold minS; simp
  unfold sigmoid
  simp only [h1, h2]

theorem sigmoid_clamp_lo [Transc α] (m v : α) (hm : 0 ≤ m) (hv : v ≤ -m) :
    sigmoid m v = sigmoid m (-m) := by
  have hvm : v ≤ m := le_trans hv (neg_le_self hm)
  have h1 : minS v m = v := by
    unfold minS; simp [not_lt.mpr hvm]
  have h1' : minS (-m) m = -m := by
    unfold minS
    have : -m ≤ m := neg_le_self hm
    simp [not_lt.mpr this]
  have h2 : maxS v (-m) = -m := by
    unfold maxS
    by_cases h : v < -m
    · simp [h]
    · simp [h]; exact le_antisymm hv (not_lt.mp h)
  have h2' : maxS (-m) (-m) = -m := by unfold maxS; simp
  unfold sigmoid
  simp only [h1, h1', h2, h2']

end Field
end LinfaSpec.Incremental
