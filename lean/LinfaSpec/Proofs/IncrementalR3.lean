import LinfaSpec.Proofs.IncrementalHist

/-!
C15, fourth layer (audit 2, "theorems weaker than they look"): lemmas that tie the functions the
driver runs to the statements.

* association lists: membership against `lookup` (needed to move a prediction from one model to
  another model with the same records);
* `closest_centroid`: the returned INDEX denotes a centroid at the returned distance;
* the L2 trace of the metric-generic step is the trace of `kmStep` over a whole history;
* `fit_with(None, ..)` with `n_runs` initialisations continues a candidate of lowest cost;
* FTRL: the hyper-parameters of the carried model are the ones used; the gradient vectors of a
  history written out.
-/
namespace LinfaSpec.Incremental
open LinfaSpec

set_option linter.unusedSectionVars false
set_option linter.unusedSimpArgs false
set_option linter.unusedVariables false

section Field
variable {α : Type} [Field α] [LinearOrder α] [IsStrictOrderedRing α]

/-! ### association lists -/

theorem mem_of_lookup {β : Type} (c : Nat) (v : β) (l : List (Nat × β)) (h : lookup c l = some v) :
    (c, v) ∈ l := by
  induction l with
  | nil => simp [lookup] at h
  | cons kv rest ih =>
    obtain ⟨k, w⟩ := kv
    by_cases hk : k = c
    · simp only [lookup, hk, if_true, Option.some.injEq] at h
      rw [hk, h]; exact List.mem_cons_self
    · simp only [lookup, hk, if_false] at h
      exact List.mem_cons_of_mem _ (ih h)

theorem lookup_of_mem_nodup {β : Type} (c : Nat) (v : β) (l : List (Nat × β))
    (hn : (keys l).Nodup) (h : (c, v) ∈ l) : lookup c l = some v := by
  induction l with
  | nil => simp at h
  | cons kv rest ih =>
    obtain ⟨k, w⟩ := kv
    simp only [keys, List.map_cons, List.nodup_cons] at hn
    rcases List.mem_cons.mp h with heq | hmem
    · have h1 : c = k := (Prod.mk.injEq _ _ _ _ ▸ heq).1
      have h2 : v = w := (Prod.mk.injEq _ _ _ _ ▸ heq).2
      simp [lookup, h1, h2]
    · have hk : k ≠ c := by
        intro hk
        exact hn.1 (List.mem_map.mpr ⟨(c, v), hmem, by simp [hk]⟩)
      simp only [lookup, hk, if_false]
      exact ih hn.2 hmem

theorem mnbStep_keys_nodup [Transc α] (a : α) (p : Nat) (st : MState α) (b : Batch α)
    (h : (keys st).Nodup) : (keys (mnbStep a p st b)).Nodup := by
  simp only [mnbStep, mnbPriors, keys_mapVals, mnbClassLoop_eq]
  exact nodup_keys_foldl_upsert (fun s k => mnbF a p b k (lookup k s)) _ _ h

theorem mnbRun_keys_nodup [Transc α] (a : α) (p : Nat) (hist : List (Batch α)) :
    (keys (mnbRun a p hist)).Nodup := by
  have key : ∀ (hist : List (Batch α)) (st : MState α), (keys st).Nodup →
      (keys (hist.foldl (mnbStep a p) st)).Nodup := by
    intro hist
    induction hist with
    | nil => intro st h; simpa using h
    | cons b rest ih => intro st h; simp only [List.foldl_cons]; exact ih _ (mnbStep_keys_nodup a p st b h)
  exact key hist [] (by simp [keys])

/-! ### `closest_centroid`: the index denotes a centroid at the returned distance -/

theorem closestBy_fold_at (m : Metric) (x : List α) (cs : List (List α)) (l : List (List α × Nat))
    (hl : ∀ ci ∈ l, cs[ci.2]? = some ci.1) (init : Nat × α)
    (hi : ∃ c, cs[init.1]? = some c ∧ rdistBy m c x = init.2) :
    ∃ c, cs[(l.foldl (fun (best : Nat × α) (ci : List α × Nat) =>
        let d := rdistBy m ci.1 x
        if d < best.2 then (ci.2, d) else best) init).1]? = some c ∧
      rdistBy m c x = (l.foldl (fun (best : Nat × α) (ci : List α × Nat) =>
        let d := rdistBy m ci.1 x
        if d < best.2 then (ci.2, d) else best) init).2 := by
  induction l generalizing init with
  | nil => simpa using hi
  | cons ci rest ih =>
    simp only [List.foldl_cons]
    apply ih (fun cj hcj => hl cj (List.mem_cons_of_mem _ hcj))
    by_cases h : rdistBy m ci.1 x < init.2
    · simp only [h, if_true]; exact ⟨ci.1, hl ci List.mem_cons_self, rfl⟩
    · simp only [h, if_false]; exact hi

theorem closestBy_at (m : Metric) (cs : List (List α)) (x : List α) (h : cs ≠ []) :
    ∃ c, cs[(closestBy m cs x).1]? = some c ∧ rdistBy m c x = (closestBy m cs x).2 := by
  cases cs with
  | nil => exact absurd rfl h
  | cons c0 rest =>
    simp only [closestBy]
    apply closestBy_fold_at m x (c0 :: rest)
    · intro ci hci
      obtain ⟨c, i⟩ := ci
      exact List.mk_mem_zipIdx_iff_getElem?.mp hci
    · exact ⟨c0, by simp, rfl⟩

/-! ### the L2 trace over a whole history -/

theorem kmRunBy_l2 [Transc α] (tol : α) (hist : List (List (List α))) : ∀ st : KState α,
    (kmRunBy .l2 tol st hist).map (fun r => (r.1, r.2.1)) = kmRun tol st hist := by
  induction hist with
  | nil => intro st; simp [kmRunBy, kmRun]
  | cons b rest ih =>
    intro st
    simp only [kmRunBy, kmRun, List.map_cons]
    have h := kmStepBy_l2 tol st b
    have h1 : (kmStepBy .l2 tol st b).1 = (kmStep tol st b).1 := congrArg Prod.fst h
    rw [ih, h, h1]

/-! ### `fit_with(None, ..)` with `n_runs` initialisation runs -/

theorem kmFitInitHistory_spec [Transc α] (m : Metric) (tol : α) (cands : List (List (List α)))
    (first : List (List α)) (rest : List (List (List α))) (tr : List (KState α × Bool × α))
    (h : kmFitInitHistory m tol cands (first :: rest) = some tr) :
    ∃ c ∈ cands, (∀ c' ∈ cands, kmInitCost m first c ≤ kmInitCost m first c') ∧
      tr = kmRunBy m tol (kmFresh c) (first :: rest) := by
  simp only [kmFitInitHistory] at h
  cases hp : pickInit (cands.map fun c => (c, kmInitCost m first c)) with
  | none => simp [hp] at h
  | some best =>
    simp only [hp, Option.some.injEq] at h
    obtain ⟨hmem, hmin⟩ := pickInit_spec _ best hp
    obtain ⟨c, hc, hbe⟩ := List.mem_map.mp hmem
    refine ⟨c, hc, ?_, ?_⟩
    · intro c' hc'
      have := hmin (c', kmInitCost m first c') (List.mem_map.mpr ⟨c', hc', rfl⟩)
      rw [← hbe] at this; exact this
    · rw [← h, kmFitHistory_eq_run, ← hbe]; rfl

theorem kmFitInitHistory_isSome [Transc α] (m : Metric) (tol : α) (cands : List (List (List α)))
    (hist : List (List (List α))) (hc : cands ≠ []) :
    (kmFitInitHistory m tol cands hist).isSome = true := by
  cases hist with
  | nil => simp [kmFitInitHistory]
  | cons first rest =>
    cases cands with
    | nil => exact absurd rfl hc
    | cons c cs => simp [kmFitInitHistory, pickInit]

/-! ### FTRL: the carried model's hyper-parameters; the gradients written out -/

theorem ftrlFitHistoryM_some [Transc α] (max35 : α) (r32 : α → α) (z0 : List α)
    (hist : List (FtrlHp α × (List (List α) × List Bool))) : ∀ m0 : FModel α,
    ftrlFitHistoryM max35 r32 z0 (some m0) hist =
      (ftrlFitHistory max35 r32 m0.hp z0 (some m0.st) (hist.map (·.2))).map (fun s => ⟨m0.hp, s⟩) := by
  induction hist with
  | nil => intro m0; simp [ftrlFitHistoryM, ftrlFitHistory]
  | cons hb rest ih =>
    intro m0
    simp only [ftrlFitHistoryM, ftrlFitHistory, List.map_cons, ftrlFitWithM, ftrlFitWith,
      Option.getD_some]
    rw [ih]

theorem ftrlFitHistoryM_none [Transc α] (max35 : α) (r32 : α → α) (z0 : List α)
    (hp1 : FtrlHp α) (b : List (List α) × List Bool)
    (rest : List (FtrlHp α × (List (List α) × List Bool))) :
    ftrlFitHistoryM max35 r32 z0 none ((hp1, b) :: rest) =
      (ftrlFitHistory max35 r32 hp1 z0 none (b :: rest.map (·.2))).map (fun s => ⟨hp1, s⟩) := by
  simp only [ftrlFitHistoryM, ftrlFitHistory, List.map_cons, ftrlFitWithM, ftrlFitWith,
    Option.getD_none]
  rw [ftrlFitHistoryM_some]

theorem ftrlRun_eq_fold_gradSeq [Transc α] (m : α) (r32 : α → α) (hp : FtrlHp α) (p : Nat)
    (hist : List (List (List α) × List Bool)) : ∀ st : FState α,
    ftrlRun m r32 hp p st hist = (ftrlGradSeq m r32 hp p st hist).foldl (ftrlUpdate hp) st ∧
    (ftrlGradSeq m r32 hp p st hist).length = hist.length := by
  induction hist with
  | nil => intro st; simp [ftrlRun, ftrlGradSeq]
  | cons b rest ih =>
    intro st
    obtain ⟨h1, h2⟩ := ih (ftrlUpdate hp st (ftrlGradient p (ftrlProbs m r32 hp st b.1) b.1 b.2))
    refine ⟨?_, by simp [ftrlGradSeq, h2]⟩
    simp only [ftrlRun, List.foldl_cons, ftrlGradSeq] at h1 ⊢
    rw [← h1]; rfl

theorem ftrlGradient_getElem (p : Nat) (probs : List α) (xs : List (List α)) (ys : List Bool) (j : Nat)
    (hj : j < p) :
    (ftrlGradient p probs xs ys)[j]? =
      some (dotS (List.zipWith (fun pr (y : Bool) => pr - (if y then 1 else 0)) probs ys) (column j xs)) := by
  simp [ftrlGradient, List.getElem?_map, List.getElem?_range, hj]

end Field

/-! ### over the reals: the Gaussian joint log-likelihood is the log of prior × normal densities -/

section Reals
attribute [local instance] LinfaSpec.Incremental.transcReal

/-- log of the normal density with mean `θ` and variance `σ` at `x` -/
noncomputable def gaussLogPdf (twoPi x θ σ : ℝ) : ℝ := -(1 / 2) * Real.log (twoPi * σ) - (x - θ) * (x - θ) / (2 * σ)

theorem exp_gaussLogPdf (twoPi x θ σ : ℝ) (hp : 0 < twoPi) (hs : 0 < σ) :
    Real.exp (gaussLogPdf twoPi x θ σ) = 1 / Real.sqrt (twoPi * σ) * Real.exp (-((x - θ) * (x - θ)) / (2 * σ)) := by
  have hy : 0 < twoPi * σ := by positivity
  unfold gaussLogPdf
  rw [sub_eq_add_neg, Real.exp_add]
  congr 1
  · set A := Real.exp (-(1 / 2) * Real.log (twoPi * σ)) with hA
    have hApos : 0 < A := Real.exp_pos _
    have hAA : A * A = (twoPi * σ)⁻¹ := by
      rw [hA, ← Real.exp_add, show -(1 / 2) * Real.log (twoPi * σ) + -(1 / 2) * Real.log (twoPi * σ) = -Real.log (twoPi * σ) by ring,
        Real.exp_neg, Real.exp_log hy]
    rw [← Real.sqrt_mul_self hApos.le, hAA, Real.sqrt_inv, one_div]
  · congr 1; ring

theorem gnbJll_eq (twoPi : ℝ) (l : List (ℝ × ℝ × ℝ)) (cnt : Nat) (prior : ℝ) :
    gnbJll (twoPi) (1 / 2) ⟨cnt, prior, l.map (·.2.1), l.map (·.2.2)⟩ (l.map (·.1)) =
      Real.log prior + sumS (l.map fun t => gaussLogPdf twoPi t.1 t.2.1 t.2.2) := by
  have hz : ∀ l : List (ℝ × ℝ × ℝ), List.zipWith (fun (xt : ℝ × ℝ) s => ((xt.1 - xt.2) * (xt.1 - xt.2)) / s)
      ((l.map (·.1)).zip (l.map (·.2.1))) (l.map (·.2.2)) =
      l.map (fun t => ((t.1 - t.2.1) * (t.1 - t.2.1)) / t.2.2) := by
    intro l; induction l with
    | nil => rfl
    | cons t r ih => simp [ih]
  unfold gnbJll
  simp only [hz, sumS_eq_sum, List.map_map]
  induction l with
  | nil => simp [Transc.ln]
  | cons t r ih =>
    simp only [List.map_cons, List.sum_cons, Function.comp, gaussLogPdf, Transc.ln] at ih ⊢
    have : (t.1 - t.2.1) * (t.1 - t.2.1) / (2 * t.2.2) = (t.1 - t.2.1) * (t.1 - t.2.1) / t.2.2 * (1 / 2) := by
      by_cases h : t.2.2 = 0
      · simp [h]
      · field_simp
    linarith
end Reals

end LinfaSpec.Incremental
