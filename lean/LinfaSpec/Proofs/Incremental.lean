import LinfaSpec.Model.Incremental
import Mathlib.Algebra.Order.Field.Basic
import Mathlib.Tactic.Ring
import Mathlib.Tactic.FieldSimp
import Mathlib.Tactic.Linarith
import Mathlib.Tactic.Positivity

/-!
Helper lemmas for C15 (incremental learners): sums over concatenated batches, the pooled
mean/variance identity, the running-mean recurrence of mini-batch k-means.
-/
namespace LinfaSpec.Incremental
open LinfaSpec

set_option linter.unusedSectionVars false

section Field
variable {α : Type} [Field α] [LinearOrder α] [IsStrictOrderedRing α]

theorem sumS_eq_sum (l : List α) : sumS l = l.sum := by
  unfold sumS
  rw [List.sum_eq_foldl]

theorem sumS_nil : sumS ([] : List α) = 0 := rfl

theorem sumS_append (a b : List α) : sumS (a ++ b) = sumS a + sumS b := by
  simp [sumS_eq_sum]

theorem sumS_cons (x : α) (l : List α) : sumS (x :: l) = x + sumS l := by
  simp [sumS_eq_sum]

/-- sum of squares -/
def sumSq (l : List α) : α := sumS (l.map fun x => x * x)

theorem sumSq_append (a b : List α) : sumSq (a ++ b) = sumSq a + sumSq b := by
  simp [sumSq, sumS_append]

/-- squared deviations from an arbitrary centre in terms of the two power sums -/
theorem sum_sqdev (m : α) (l : List α) :
    sumS (l.map fun x => (x - m) * (x - m)) = sumSq l - 2 * m * sumS l + (l.length : α) * (m * m) := by
  induction l with
  | nil => simp [sumSq, sumS_nil]
  | cons x l ih =>
    simp only [List.map_cons, sumS_cons, sumSq, List.length_cons, Nat.cast_succ] at ih ⊢
    rw [ih]; ring

theorem meanL_def (l : List α) : meanL l = sumS l / (l.length : α) := rfl

theorem varL_eq (l : List α) :
    varL l = (sumSq l - 2 * meanL l * sumS l + (l.length : α) * (meanL l * meanL l)) / (l.length : α) := by
  unfold varL
  rw [sum_sqdev]

/-- the pooled update of `update_mean_variance` is exact: merging the statistics of `xs` with a
new batch `ys` gives the statistics of `xs ++ ys` (no hypothesis: an empty side is the early return) -/
theorem gnbMerge_spec (xs ys : List α) :
    gnbMerge xs.length (meanL xs) (varL xs) ys = (meanL (xs ++ ys), varL (xs ++ ys)) := by
  unfold gnbMerge
  by_cases hy : ys.length = 0
  · have : ys = [] := List.eq_nil_of_length_eq_zero hy
    subst this
    simp
  · by_cases hx : xs.length = 0
    · have : xs = [] := List.eq_nil_of_length_eq_zero hx
      subst this
      simp [hy]
    · simp only [hy, hx, if_false]
      have hx' : (xs.length : α) ≠ 0 := Nat.cast_ne_zero.mpr hx
      have hy' : (ys.length : α) ≠ 0 := Nat.cast_ne_zero.mpr hy
      have hxy : ((xs.length : α) + (ys.length : α)) ≠ 0 := by
        have h1 : (0 : α) < (xs.length : α) := Nat.cast_pos.mpr (Nat.pos_of_ne_zero hx)
        have h2 : (0 : α) < (ys.length : α) := Nat.cast_pos.mpr (Nat.pos_of_ne_zero hy)
        exact ne_of_gt (add_pos h1 h2)
      refine Prod.ext ?_ ?_
      · simp only [meanL_def, sumS_append, List.length_append, Nat.cast_add]
        field_simp
        ring
      · simp only [varL_eq, meanL_def, sumS_append, sumSq_append, List.length_append, Nat.cast_add,
          Nat.cast_mul]
        field_simp
        ring

/-! ### one class, one feature column: the trajectory over a history of batches -/

/-- (count, mean, variance) of one class in one column after one more batch (`ys` = the class's
values in that batch, possibly none) -/
def gnbColStep (st : Nat × α × α) (ys : List α) : Nat × α × α :=
  (st.1 + ys.length, (gnbMerge st.1 st.2.1 st.2.2 ys).1, (gnbMerge st.1 st.2.1 st.2.2 ys).2)

theorem gnbColStep_history (hist : List (List α)) (xs : List α) :
    hist.foldl gnbColStep (xs.length, meanL xs, varL xs) =
      ((xs ++ hist.flatten).length, meanL (xs ++ hist.flatten), varL (xs ++ hist.flatten)) := by
  induction hist generalizing xs with
  | nil => simp
  | cons ys rest ih =>
    simp only [List.foldl_cons, List.flatten_cons]
    have : gnbColStep (xs.length, meanL xs, varL xs) ys =
        ((xs ++ ys).length, meanL (xs ++ ys), varL (xs ++ ys)) := by
      simp [gnbColStep, gnbMerge_spec]
    rw [this, ih, List.append_assoc]

theorem meanL_nil : meanL ([] : List α) = 0 := by simp [meanL, sumS_nil]
theorem varL_nil : varL ([] : List α) = 0 := by simp [varL, sumS_nil]

theorem gnbMerge_zero (ys : List α) : gnbMerge 0 0 0 ys = (meanL ys, varL ys) := by
  have := gnbMerge_spec ([] : List α) ys
  simpa [meanL_nil, varL_nil] using this

/-! ### columns of concatenated row blocks -/

omit [LinearOrder α] [IsStrictOrderedRing α] in
theorem column_append (j : Nat) (r1 r2 : List (List α)) :
    column j (r1 ++ r2) = column j r1 ++ column j r2 := by
  simp [column]

omit [LinearOrder α] [IsStrictOrderedRing α] in
theorem column_length (j : Nat) (r : List (List α)) : (column j r).length = r.length := by
  simp [column]

/-- vector form of `gnbMerge_spec`: the class update on all columns -/
theorem gnbUpdateClass_replay (p : Nat) (pr : α) (r1 r2 : List (List α)) :
    gnbUpdateClass ⟨r1.length, pr, (columns p r1).map meanL, (columns p r1).map varL⟩ (columns p r2) =
      ((columns p (r1 ++ r2)).map meanL, (columns p (r1 ++ r2)).map varL) := by
  unfold gnbUpdateClass
  by_cases h : r1.length = 0
  · have : r1 = [] := List.eq_nil_of_length_eq_zero h
    subst this
    simp [gnbMerge_zero]
  · simp only [h, if_false, columns, List.map_map, List.zip_map', List.zipWith_map_left,
      List.zipWith_map_right, List.zipWith_self]
    refine Prod.ext ?_ ?_ <;>
    · simp only [List.map_map]
      apply List.map_congr_left
      intro j _
      have := gnbMerge_spec (column j r1) (column j r2)
      simp only [column_length] at this
      simp [Function.comp, this, column_append]

/-- multinomial feature counts are additive over row blocks -/
theorem colsum_append (p : Nat) (r1 r2 : List (List α)) :
    List.zipWith (· + ·) ((columns p r1).map sumS) ((columns p r2).map sumS) =
      (columns p (r1 ++ r2)).map sumS := by
  simp only [columns, List.map_map, List.zipWith_map_left, List.zipWith_map_right, List.zipWith_self]
  apply List.map_congr_left
  intro j _
  simp [Function.comp, column_append, sumS_append]

/-! ### mini-batch k-means: one coordinate of one centroid -/

/-- `counts[c] += 1; centroid += (x - centroid) / counts[c]` for one coordinate, the count kept as
a natural number -/
def kmTrack (st : α × Nat) (x : α) : α × Nat := (st.1 + (x - st.1) / ((st.2 : α) + 1), st.2 + 1)

theorem kmTrack_invariant (xs : List α) (c : α) (n : Nat) :
    (xs.foldl kmTrack (c, n)).2 = n + xs.length ∧
    (xs.foldl kmTrack (c, n)).1 * ((n + xs.length : Nat) : α) = c * (n : α) + sumS xs := by
  induction xs generalizing c n with
  | nil => simp [sumS_nil]
  | cons x rest ih =>
    simp only [List.foldl_cons, List.length_cons]
    obtain ⟨h1, h2⟩ := ih (kmTrack (c, n) x).1 (kmTrack (c, n) x).2
    have hk : kmTrack (c, n) x = ((kmTrack (c, n) x).1, (kmTrack (c, n) x).2) := rfl
    rw [← hk] at h1 h2
    have hn : ((n : α) + 1) ≠ 0 := by
      have : (0 : α) < (n : α) + 1 := by positivity
      exact ne_of_gt this
    refine ⟨by rw [h1]; simp [kmTrack]; omega, ?_⟩
    have e : (kmTrack (c, n) x).2 + rest.length = n + (rest.length + 1) := by simp [kmTrack]; omega
    rw [e] at h2
    rw [h2, sumS_cons]
    simp only [kmTrack, Nat.cast_add, Nat.cast_one]
    field_simp
    ring

/-- a centroid coordinate that has absorbed the points `xs` (from count 0) is their mean, whatever
the initial centroid was -/
theorem kmTrack_mean (xs : List α) (c0 : α) (h : xs ≠ []) :
    xs.foldl kmTrack (c0, 0) = (meanL xs, xs.length) := by
  obtain ⟨h1, h2⟩ := kmTrack_invariant xs c0 0
  have hl : (xs.length : α) ≠ 0 := Nat.cast_ne_zero.mpr (by simpa using h)
  refine Prod.ext ?_ (by simpa using h1)
  simp only [Nat.zero_add, Nat.cast_zero, mul_zero, zero_add] at h2
  simp only [meanL]
  field_simp
  exact h2

/-! ### arg-max of the class scores -/

theorem argmax_foldl_spec (l : List (Nat × α)) (x : Nat × α) :
    let b := l.foldl (fun best y => if best.2 < y.2 then y else best) x
    (b = x ∨ b ∈ l) ∧ x.2 ≤ b.2 ∧ ∀ y ∈ l, y.2 ≤ b.2 := by
  induction l generalizing x with
  | nil => simp
  | cons y rest ih =>
    simp only [List.foldl_cons]
    by_cases h : x.2 < y.2
    · simp only [h, if_true]
      obtain ⟨h1, h2, h3⟩ := ih y
      refine ⟨?_, le_trans (le_of_lt h) h2, ?_⟩
      · rcases h1 with h1 | h1
        · right; rw [h1]; exact List.mem_cons_self
        · right; exact List.mem_cons_of_mem _ h1
      · intro w hw
        rcases List.mem_cons.mp hw with rfl | hw
        · exact h2
        · exact h3 w hw
    · simp only [h, if_false]
      obtain ⟨h1, h2, h3⟩ := ih x
      refine ⟨?_, h2, ?_⟩
      · rcases h1 with h1 | h1
        · left; exact h1
        · right; exact List.mem_cons_of_mem _ h1
      · intro w hw
        rcases List.mem_cons.mp hw with rfl | hw
        · exact le_trans (not_lt.mp h) h2
        · exact h3 w hw

theorem argmaxScore_spec (l : List (Nat × α)) (b : Nat × α) (h : argmaxScore l = some b) :
    b ∈ l ∧ ∀ y ∈ l, y.2 ≤ b.2 := by
  cases l with
  | nil => simp [argmaxScore] at h
  | cons x rest =>
    simp only [argmaxScore, Option.some.injEq] at h
    obtain ⟨h1, h2, h3⟩ := argmax_foldl_spec rest x
    rw [h] at h1 h2 h3
    refine ⟨?_, ?_⟩
    · rcases h1 with h1 | h1
      · rw [h1]; exact List.mem_cons_self
      · exact List.mem_cons_of_mem _ h1
    · intro y hy
      rcases List.mem_cons.mp hy with rfl | hy
      · exact h2
      · exact h3 y hy

end Field
end LinfaSpec.Incremental
