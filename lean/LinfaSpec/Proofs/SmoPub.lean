/-
Helper lemmas for `LinfaSpec.Props.C13`, third part: what `solve` *publishes*.

* a generic invariant principle for the main loop (`LoopInv`, `solveLoop_inv`): a predicate kept by
  `swap`, by the step on the selected pair, by `reconstruct_gradient`, by a change of `nactive` and of
  the `unshrink` flag is kept by `do_shrinking(_nu)` and by the whole `solveLoop`;
* instances: `active_set` stays a permutation of the samples (`PermInv`), labels and bounds stay
  aligned with it (`AlignedBY`), under `nu_constraint` each class keeps its sum (`ClassInv`);
* what `SolverState::new` (`init`) establishes; composition: the vector `solve` writes back is
  feasible sample by sample.
-/
import LinfaSpec.Proofs.SmoKkt

set_option linter.unusedSectionVars false

namespace LinfaSpec.Smo

section pub
variable {α : Type} [Field α] [LinearOrder α] [IsStrictOrderedRing α]

/-! ### a generic invariant of the main loop -/

/-- `I` is kept by every state transformer the main loop of `solve` is built from -/
structure LoopInv (e : Env α) (I : St α → Prop) : Prop where
  bound : ∀ s, I s → s.nactive ≤ s.alpha.length
  swap : ∀ s i j, I s → i < s.alpha.length → j < s.alpha.length → I (swap s i j)
  upd : ∀ s i j, I s → selectWorkingSet e s = (i, j, false) → I (update e s i j)
  recon : ∀ s, I s → I (reconstructGradient e s)
  nact : ∀ s m, I s → m ≤ s.alpha.length → I { s with nactive := m }
  unshr : ∀ s, I s → I { s with unshrink := true }

theorem shrinkInner_inv {e : Env α} {I : St α → Prop} (L : LoopInv e I) (sh : St α → Nat → Bool)
    (i fuel : Nat) (s : St α) (hlt : s.nactive < s.alpha.length) (h : I s) :
    I (shrinkInner sh i fuel s) := by
  induction fuel generalizing s with
  | zero => exact h
  | succ fuel ih =>
    unfold shrinkInner
    split_ifs with h1 h2
    · exact L.swap s i s.nactive h (by omega) hlt
    · apply ih
      · show s.nactive - 1 < s.alpha.length; omega
      · exact L.nact s _ h (by omega)
    · exact h

theorem shrinkOuter_inv {e : Env α} {I : St α → Prop} (L : LoopInv e I) (sh : St α → Nat → Bool)
    (fuel i : Nat) (s : St α) (h : I s) : I (shrinkOuter sh fuel i s) := by
  induction fuel generalizing s i with
  | zero => exact h
  | succ fuel ih =>
    unfold shrinkOuter
    by_cases h1 : i < s.nactive
    · simp only [h1, if_true]
      apply ih
      split_ifs with h2
      · have hn := L.bound s h
        apply shrinkInner_inv L
        · show s.nactive - 1 < s.alpha.length; omega
        · exact L.nact s _ h (by omega)
      · exact h
    · simp only [h1, if_false]; exact h

theorem reactivate_inv {e : Env α} {I : St α → Prop} (L : LoopInv e I) (s : St α) (h : I s) :
    I { reconstructGradient e s with nactive := ntotal (reconstructGradient e s) } :=
  L.nact _ _ (L.recon s h) (Nat.le_refl _)

theorem doShrinking_inv {e : Env α} {I : St α → Prop} (L : LoopInv e I) (s : St α) (h : I s) :
    I (doShrinking e s) := by
  have hrec : I { reconstructGradient e { s with unshrink := true } with
                 nactive := ntotal (reconstructGradient e { s with unshrink := true }) } :=
    reactivate_inv L _ (L.unshr s h)
  unfold doShrinking
  split_ifs
  · unfold doShrinkingNu
    dsimp only
    apply shrinkOuter_inv L
    split_ifs
    · exact hrec
    · exact h
  · unfold doShrinkingC
    dsimp only
    apply shrinkOuter_inv L
    split_ifs
    · exact hrec
    · exact h

/-- **invariant principle for the main loop of `solve`** -/
theorem solveLoop_inv {e : Env α} {I : St α → Prop} (L : LoopInv e I) (shrinking : Bool) (fuel : Nat)
    (s : St α) (iter counter : Nat) (h : I s) : I (solveLoop e shrinking fuel s iter counter).1 := by
  induction fuel generalizing s iter counter with
  | zero => exact h
  | succ fuel ih =>
    unfold solveLoop
    dsimp only
    have h1 : I (if (counter - 1 == 0 && shrinking) = true then doShrinking e s else s) := by
      split_ifs
      · exact doShrinking_inv L s h
      · exact h
    generalize (if (counter - 1 == 0 && shrinking) = true then doShrinking e s else s) = s1 at h1 ⊢
    generalize (if (counter - 1 == 0) = true then min (ntotal s) 1000 else counter - 1) = c1
    split_ifs with ho ho2
    · exact reactivate_inv L s1 h1
    · apply ih
      exact L.upd _ _ _ (reactivate_inv L s1 h1) (select_eq e _ (by simpa using ho2))
    · apply ih
      exact L.upd _ _ _ h1 (select_eq e _ (by simpa using ho))

/-! ### fields `reconstruct_gradient` and `update` leave alone -/

theorem reconstructGradient_active (e : Env α) (s : St α) :
    (reconstructGradient e s).active = s.active := by
  unfold reconstructGradient
  dsimp only
  split_ifs <;> rfl

/-! ### `active_set` stays a permutation of the samples -/

theorem swapL_nodup {β : Type} (l : List β) (i j : Nat) (hi : i < l.length) (hj : j < l.length)
    (h : l.Nodup) : (swapL l i j).Nodup := by
  rw [List.nodup_iff_getElem?_ne_getElem?] at h ⊢
  intro a b hab hb
  rw [swapL_length] at hb
  rw [swapL_getElem? l i j a hi hj, swapL_getElem? l i j b hi hj]
  have ha' := swapIdx_lt i j a _ hi hj (by omega)
  have hb' := swapIdx_lt i j b _ hi hj hb
  have hne : swapIdx i j a ≠ swapIdx i j b := by
    intro heq
    have := congrArg (swapIdx i j) heq
    rw [swapIdx_invol, swapIdx_invol] at this
    omega
  rcases Nat.lt_or_gt_of_ne hne with h1 | h1
  · exact h _ _ h1 hb'
  · exact fun heq => h _ _ h1 ha' heq.symm

theorem swapL_mem {β : Type} (l : List β) (i j : Nat) (hi : i < l.length) (hj : j < l.length)
    (a : β) (ha : a ∈ swapL l i j) : a ∈ l := by
  obtain ⟨k, hk⟩ := List.mem_iff_getElem?.mp ha
  rw [swapL_getElem? l i j k hi hj] at hk
  exact List.mem_iff_getElem?.mpr ⟨_, hk⟩

/-- `active_set` is a permutation of `0 .. n-1`; sizes -/
def PermInv (n : Nat) (s : St α) : Prop :=
  s.active.length = n ∧ s.alpha.length = n ∧ s.nactive ≤ n ∧ s.active.Nodup ∧ ∀ a ∈ s.active, a < n

theorem permInv_loop (e : Env α) (n : Nat) : LoopInv e (PermInv (α := α) n) where
  bound := fun s h => by rw [h.2.1]; exact h.2.2.1
  swap := fun s i j h hi hj => by
    obtain ⟨h1, h2, h3, h4, h5⟩ := h
    refine ⟨by simp only [Smo.swap, swapL_length]; exact h1, by simp only [Smo.swap, swapL_length]; exact h2,
      h3, ?_, ?_⟩
    · simp only [Smo.swap]; exact swapL_nodup _ i j (by omega) (by omega) h4
    · intro a ha; simp only [Smo.swap] at ha
      exact h5 a (swapL_mem _ i j (by omega) (by omega) a ha)
  upd := fun s i j h _ => by
    obtain ⟨h1, h2, h3, h4, h5⟩ := h
    exact ⟨by rw [update_active]; exact h1, by rw [update_alpha_length]; exact h2,
      by rw [update_nactive]; exact h3, by rw [update_active]; exact h4, by rw [update_active]; exact h5⟩
  recon := fun s h => by
    obtain ⟨h1, h2, h3, h4, h5⟩ := h
    obtain ⟨a, _, _, d⟩ := reconstructGradient_core e s
    exact ⟨by rw [reconstructGradient_active]; exact h1, by rw [a]; exact h2, by rw [d]; exact h3,
      by rw [reconstructGradient_active]; exact h4, by rw [reconstructGradient_active]; exact h5⟩
  nact := fun s m h hm => ⟨h.1, h.2.1, by show m ≤ n; rw [← h.2.1]; exact hm, h.2.2.2.1, h.2.2.2.2⟩
  unshr := fun s h => h

/-! ### labels and bounds stay aligned with `active_set` -/

/-- position `k` holds the label and the bound of sample `active_set[k]` (all three kernel wrappers) -/
def AlignedBY (b0 : List α) (y0 : List Bool) (s : St α) : Prop :=
  (s.y.length = s.alpha.length ∧ s.bounds.length = s.alpha.length ∧ s.active.length = s.alpha.length ∧
    s.nactive ≤ s.alpha.length) ∧
  ∀ k, k < s.alpha.length →
    gb s.y k = gb y0 (gn s.active k) ∧ gf s.bounds k = gf b0 (gn s.active k)

theorem alignedBY_loop (e : Env α) (b0 : List α) (y0 : List Bool) : LoopInv e (AlignedBY b0 y0) where
  bound := fun s h => h.1.2.2.2
  swap := fun s i j h hi hj => by
    obtain ⟨⟨l1, l2, l3, l4⟩, hk⟩ := h
    refine ⟨?_, ?_⟩
    · simp only [Smo.swap, swapL_length]; exact ⟨l1, l2, l3, l4⟩
    · intro k hk'
      simp only [Smo.swap, swapL_length] at hk' ⊢
      have hs := swapIdx_lt i j k _ hi hj hk'
      obtain ⟨a, b⟩ := hk (swapIdx i j k) hs
      rw [gb_swapL _ i j k (l1 ▸ hi) (l1 ▸ hj), gf_swapL _ i j k (l2 ▸ hi) (l2 ▸ hj),
        gn_swapL _ i j k (l3 ▸ hi) (l3 ▸ hj)]
      exact ⟨a, b⟩
  upd := fun s i j h _ => by
    obtain ⟨⟨l1, l2, l3, l4⟩, hk⟩ := h
    refine ⟨?_, ?_⟩
    · rw [update_y, update_bounds, update_active, update_alpha_length, update_nactive]
      exact ⟨l1, l2, l3, l4⟩
    · intro k hk'
      rw [update_alpha_length] at hk'
      rw [update_y, update_bounds, update_active]
      exact hk k hk'
  recon := fun s h => by
    obtain ⟨⟨l1, l2, l3, l4⟩, hk⟩ := h
    obtain ⟨a, b, c, d⟩ := reconstructGradient_core e s
    refine ⟨?_, ?_⟩
    · rw [a, b, c, d, reconstructGradient_active]; exact ⟨l1, l2, l3, l4⟩
    · intro k hk'
      rw [a] at hk'
      rw [b, c, reconstructGradient_active]
      exact hk k hk'
  nact := fun s m h hm => ⟨⟨h.1.1, h.1.2.1, h.1.2.2.1, hm⟩, h.2⟩
  unshr := fun s h => h

/-! ### under `nu_constraint` each class keeps its sum -/

theorem swap_classSum (s : St α) (i j : Nat) (hi : i < s.alpha.length) (hj : j < s.alpha.length)
    (hyl : s.y.length = s.alpha.length) (c : Bool) : classSum (swap s i j) c = classSum s c := by
  unfold classSum
  simp only [swap, swapL_length]
  apply Finset.sum_nbij' (swapIdx i j) (swapIdx i j)
  · intro k hk
    exact Finset.mem_range.mpr (swapIdx_lt i j k _ hi hj (Finset.mem_range.mp hk))
  · intro k hk
    exact Finset.mem_range.mpr (swapIdx_lt i j k _ hi hj (Finset.mem_range.mp hk))
  · intro k _; exact swapIdx_invol i j k
  · intro k _; exact swapIdx_invol i j k
  · intro k _
    simp only [gf_swapL _ i j k hi hj, gb_swapL _ i j k (hyl ▸ hi) (hyl ▸ hj)]

/-- feasible, sizes agree, and the class `c` has the sum `v` -/
def ClassInv (c : Bool) (v : α) (s : St α) : Prop :=
  Box s ∧ s.y.length = s.alpha.length ∧ s.nactive ≤ s.alpha.length ∧ classSum s c = v

theorem classSum_congr (s t : St α) (ha : t.alpha = s.alpha) (hy : t.y = s.y) (c : Bool) :
    classSum t c = classSum s c := by
  unfold classSum; rw [ha, hy]

theorem box_congr (s t : St α) (ha : t.alpha = s.alpha) (hb : t.bounds = s.bounds) (h : Box s) : Box t := by
  unfold Box at h ⊢; rw [ha, hb]; exact h

theorem classInv_loop (e : Env α) (hnu : e.nu = true) (c : Bool) (v : α) : LoopInv e (ClassInv c v) where
  bound := fun s h => h.2.2.1
  swap := fun s i j h hi hj => by
    obtain ⟨hb, hyl, hn, hs⟩ := h
    have hF : Feas s.alpha.length (ySum s) s := ⟨hb, hyl, rfl, hn, rfl⟩
    have hF' := swap_feas s.alpha.length (ySum s) s i j hi hj hF
    refine ⟨hF'.1, hF'.2.1, ?_, ?_⟩
    · rw [hF'.2.2.1]; exact hn
    · rw [swap_classSum s i j hi hj hyl c]; exact hs
  upd := fun s i j h hsel => by
    obtain ⟨hb, hyl, hn, hs⟩ := h
    have hsel' : selectWorkingSetNu e s = (i, j, false) := by
      unfold selectWorkingSet at hsel; simpa [hnu] using hsel
    obtain ⟨hij, hi, hj, hy⟩ := selectWorkingSetNu_valid e s i j hsel'
    have hi' : i < s.alpha.length := by omega
    have hj' : j < s.alpha.length := by omega
    refine ⟨update_box e s i j hij hi' hj' hb, by rw [update_y, update_alpha_length]; exact hyl,
      by rw [update_nactive, update_alpha_length]; exact hn, ?_⟩
    rw [update_classSum e s i j hij hi' hj' hb hy c]; exact hs
  recon := fun s h => by
    obtain ⟨hb, hyl, hn, hs⟩ := h
    obtain ⟨a, b, c', d⟩ := reconstructGradient_core e s
    exact ⟨box_congr s _ a c' hb, by rw [a, b]; exact hyl, by rw [a, d]; exact hn,
      by rw [classSum_congr s _ a b c]; exact hs⟩
  nact := fun s m h hm => ⟨h.1, h.2.1, hm, h.2.2.2⟩
  unshr := fun s h => h

/-! ### what `SolverState::new` establishes -/

theorem init_core (e : Env α) (a p b : List α) (y : List Bool) :
    (init e a p b y).alpha = a ∧ (init e a p b y).bounds = b ∧ (init e a p b y).y = y ∧
    (init e a p b y).active = List.range a.length ∧ (init e a p b y).nactive = a.length ∧
    (init e a p b y).p = p ∧ (init e a p b y).ub = (List.range a.length).map (gf b) := by
  unfold init
  dsimp only
  apply foldl_inv (fun s : St α => s.alpha = a ∧ s.bounds = b ∧ s.y = y ∧
    s.active = List.range a.length ∧ s.nactive = a.length ∧ s.p = p ∧
    s.ub = (List.range a.length).map (gf b))
  · exact ⟨rfl, rfl, rfl, rfl, rfl, rfl, rfl⟩
  · intro acc x _ h
    split_ifs <;> exact h

theorem gn_range (n k : Nat) (hk : k < n) : gn (List.range n) k = k := by
  unfold gn
  rw [List.getD_eq_getElem?_getD]
  simp [hk]

theorem gn_eq_getElem (l : List Nat) (k : Nat) (hk : k < l.length) : gn l k = l[k] := by
  unfold gn
  rw [List.getD_eq_getElem?_getD, List.getElem?_eq_getElem hk]; rfl

/-- `k ↦ active_set[k]` maps `0 .. n-1` onto itself -/
theorem perm_image (n : Nat) (l : List Nat) (hl : l.length = n) (hnd : l.Nodup)
    (hr : ∀ a ∈ l, a < n) : (Finset.range n).image (gn l) = Finset.range n := by
  apply Finset.eq_of_subset_of_card_le
  · intro a ha
    obtain ⟨k, hk, rfl⟩ := Finset.mem_image.mp ha
    have hk' : k < l.length := by rw [hl]; exact Finset.mem_range.mp hk
    rw [Finset.mem_range, gn_eq_getElem l k hk']
    exact hr _ (List.getElem_mem hk')
  · rw [Finset.card_image_of_injOn]
    intro k1 h1 k2 h2 heq
    have h1' : k1 < l.length := by rw [hl]; exact Finset.mem_range.mp (Finset.mem_coe.mp h1)
    have h2' : k2 < l.length := by rw [hl]; exact Finset.mem_range.mp (Finset.mem_coe.mp h2)
    rw [gn_eq_getElem l k1 h1', gn_eq_getElem l k2 h2'] at heq
    exact (hnd.getElem_inj_iff).mp heq

theorem perm_sum (n : Nat) (l : List Nat) (hl : l.length = n) (hnd : l.Nodup)
    (hr : ∀ a ∈ l, a < n) (f : Nat → α) :
    ∑ a ∈ Finset.range n, f a = ∑ k ∈ Finset.range n, f (gn l k) := by
  conv_lhs => rw [← perm_image n l hl hnd hr]
  apply Finset.sum_image
  intro k1 h1 k2 h2 heq
  have h1' : k1 < l.length := by rw [hl]; exact Finset.mem_range.mp h1
  have h2' : k2 < l.length := by rw [hl]; exact Finset.mem_range.mp h2
  rw [gn_eq_getElem l k1 h1', gn_eq_getElem l k2 h2'] at heq
  exact (hnd.getElem_inj_iff).mp heq

theorem perm_surj (n : Nat) (l : List Nat) (hl : l.length = n) (hnd : l.Nodup)
    (hr : ∀ a ∈ l, a < n) (a : Nat) (ha : a < n) : ∃ k, k < n ∧ gn l k = a := by
  have : a ∈ (Finset.range n).image (gn l) := by
    rw [perm_image n l hl hnd hr]; exact Finset.mem_range.mpr ha
  obtain ⟨k, hk, rfl⟩ := Finset.mem_image.mp this
  exact ⟨k, Finset.mem_range.mp hk, rfl⟩

theorem writeBack_correct' (s : St α) (hlen : s.active.length = s.alpha.length)
    (hnd : s.active.Nodup) (hr : ∀ a ∈ s.active, a < s.alpha.length) (i : Nat)
    (hi : i < s.alpha.length) : gf (writeBack s) (gn s.active i) = gf s.alpha i :=
  (writeBackN_spec s hlen hnd hr s.alpha.length (Nat.le_refl _)).2 i hi

/-- **the written-back vector of a feasible, aligned state is feasible sample by sample** -/
theorem writeBack_feasible (b0 : List α) (y0 : List Bool) (s : St α) (n : Nat)
    (hP : PermInv n s) (hA : AlignedBY b0 y0 s) (hB : Box s) :
    (writeBack s).length = n ∧
    (∀ a, a < n → 0 ≤ gf (writeBack s) a ∧ gf (writeBack s) a ≤ gf b0 a) ∧
    ∑ a ∈ Finset.range n, (if gb y0 a then (1 : α) else -1) * gf (writeBack s) a = ySum s := by
  obtain ⟨p1, p2, _, p4, p5⟩ := hP
  have hwb := fun i hi => writeBack_correct' s (by rw [p1, p2]) p4 (by rw [p2]; exact p5) i hi
  refine ⟨?_, ?_, ?_⟩
  · have h0 := writeBackN_spec s (by rw [p1, p2]) p4 (by rw [p2]; exact p5) s.alpha.length (Nat.le_refl _)
    rw [← p2]; exact h0.1
  · intro a ha
    obtain ⟨k, hk, rfl⟩ := perm_surj n s.active p1 p4 p5 a ha
    have hk' : k < s.alpha.length := by rw [p2]; exact hk
    rw [hwb k hk']
    obtain ⟨h0, h1⟩ := hB.2 k hk'
    exact ⟨h0, by rw [← (hA.2 k hk').2]; exact h1⟩
  · rw [perm_sum n s.active p1 p4 p5]
    unfold ySum tgt
    rw [p2]
    apply Finset.sum_congr rfl
    intro k hk
    have hk' : k < s.alpha.length := by rw [p2]; exact Finset.mem_range.mp hk
    rw [hwb k hk', (hA.2 k hk').1]

end pub
end LinfaSpec.Smo
