import LinfaSpec.Model.Logistic
import LinfaSpec.Model.Glm
import Mathlib.Analysis.SpecialFunctions.Log.Deriv
import Mathlib.Analysis.SpecialFunctions.ExpDeriv
import Mathlib.Analysis.SpecialFunctions.Pow.Deriv

/-!
Real-number instance of the scalar primitives and helper lemmas for C12.
-/
namespace LinfaSpec

noncomputable instance : Transc ℝ := ⟨Real.sqrt, Real.exp, Real.log⟩

namespace Logistic

theorem sumS_eq_sum (l : List ℝ) : sumS l = l.sum := by
  unfold sumS
  rw [List.sum_eq_foldl]

theorem maxS_eq_max (a b : ℝ) : maxS a b = max a b := by
  unfold maxS
  split_ifs with h
  · exact (max_eq_right (le_of_lt h)).symm
  · exact (max_eq_left (not_lt.mp h)).symm

theorem foldl_maxS_ge (l : List ℝ) (a : ℝ) : a ≤ l.foldl maxS a ∧ ∀ x ∈ l, x ≤ l.foldl maxS a := by
  induction l generalizing a with
  | nil => simp
  | cons b bs ih =>
    simp only [List.foldl_cons, List.mem_cons, forall_eq_or_imp]
    obtain ⟨h1, h2⟩ := ih (maxS a b)
    rw [maxS_eq_max] at h1 h2 ⊢
    exact ⟨le_trans (le_max_left a b) h1, le_trans (le_max_right a b) h1, h2⟩

theorem foldl_maxS_shift (l : List ℝ) (a c : ℝ) :
    (l.map (· + c)).foldl maxS (a + c) = l.foldl maxS a + c := by
  induction l generalizing a with
  | nil => simp
  | cons b bs ih =>
    simp only [List.map_cons, List.foldl_cons]
    have : maxS (a + c) (b + c) = maxS a b + c := by
      rw [maxS_eq_max, maxS_eq_max, max_add_add_right]
    rw [this, ih]

/-- `argmax` is unchanged by a strictly increasing map of the entries -/
theorem argmaxAux_map (f : ℝ → ℝ) (hf : StrictMono f) (l : List ℝ) (i best : Nat) (m : ℝ) :
    argmaxAux (l.map f) i best (f m) = argmaxAux l i best m := by
  induction l generalizing i best m with
  | nil => simp [argmaxAux]
  | cons a as ih =>
    simp only [List.map_cons, argmaxAux, hf.lt_iff_lt]
    split_ifs
    · exact ih _ _ _
    · exact ih _ _ _

theorem argmax_map (f : ℝ → ℝ) (hf : StrictMono f) (l : List ℝ) : argmax (l.map f) = argmax l := by
  cases l with
  | nil => simp [argmax]
  | cons a as => simp only [List.map_cons, argmax]; exact argmaxAux_map f hf as 1 0 a

theorem foldl_maxS_mem (l : List ℝ) (a : ℝ) : l.foldl maxS a = a ∨ l.foldl maxS a ∈ l := by
  induction l generalizing a with
  | nil => simp
  | cons b bs ih =>
    simp only [List.foldl_cons, List.mem_cons]
    rcases ih (maxS a b) with h | h
    · rw [h]
      unfold maxS
      split_ifs <;> simp
    · exact Or.inr (Or.inr h)

theorem foldl_add_exp (row : List ℝ) (m acc : ℝ) :
    row.foldl (fun acc e => acc + Real.exp (e - m)) acc = acc + (row.map fun e => Real.exp (e - m)).sum := by
  induction row generalizing acc with
  | nil => simp
  | cons b bs ih => simp only [List.foldl_cons, ih, List.map_cons, List.sum_cons]; ring


end Logistic
end LinfaSpec
