import LinfaSpec.Model.Logistic
import LinfaSpec.Model.Glm
import Mathlib.Analysis.SpecialFunctions.Log.Deriv
import Mathlib.Analysis.SpecialFunctions.ExpDeriv
import Mathlib.Analysis.SpecialFunctions.Pow.Deriv

/-!
Real-number instance of the scalar primitives and helper lemmas for C12.
-/
namespace LinfaSpec

noncomputable instance : Transc ℝ := ⟨Real.sqrt, Real.exp, Real.log⟩

namespace Logistic

theorem sumS_eq_sum (l : List ℝ) : sumS l = l.sum := by
  unfold sumS
  rw [List.sum_eq_foldl]

theorem maxS_eq_max (a b : ℝ) : maxS a b = max a b := by
  unfold maxS
  split_ifs with h
  · exact (max_eq_right (le_of_lt h)).symm
  · exact (max_eq_left (not_lt.mp h)).symm

theorem foldl_maxS_ge (l : List ℝ) (a : ℝ) : a ≤ l.foldl maxS a ∧ ∀ x ∈ l, x ≤ l.foldl maxS a := by
  induction l generalizing a with
  | nil => simp
  | cons b bs ih =>
    simp only [List.foldl_cons, List.mem_cons, forall_eq_or_imp]
    obtain ⟨h1, h2⟩ := ih (maxS a b)
    rw [maxS_eq_max] at h1 h2 ⊢
    exact ⟨le_trans (le_max_left a b) h1, le_trans (le_max_right a b) h1, h2⟩

theorem foldl_maxS_shift (l : List ℝ) (a c : ℝ) :
    (l.map (· + c)).foldl maxS (a + c) = l.foldl maxS a + c := by
  induction l generalizing a with
  | nil => simp
  | cons b bs ih =>
    simp only [List.map_cons, List.foldl_cons]
    have : maxS (a + c) (b + c) = maxS a b + c := by
      rw [maxS_eq_max, maxS_eq_max, max_add_add_right]
    rw [this, ih]

/-- `argmax` is unchanged by a strictly increasing map of the entries -/
theorem argmaxAux_map (f : ℝ → ℝ) (hf : StrictMono f) (l : List ℝ) (i best : Nat) (m : ℝ) :
    argmaxAux (l.map f) i best (f m) = argmaxAux l i best m := by
  induction l generalizing i best m with
  | nil => simp [argmaxAux]
  | cons a as ih =>
    simp only [List.map_cons, argmaxAux, hf.lt_iff_lt]
    split_ifs
    · exact ih _ _ _
    · exact ih _ _ _

theorem argmax_map (f : ℝ → ℝ) (hf : StrictMono f) (l : List ℝ) : argmax (l.map f) = argmax l := by
  cases l with
  | nil => simp [argmax]
  | cons a as => simp only [List.map_cons, argmax]; exact argmaxAux_map f hf as 1 0 a

theorem foldl_maxS_mem (l : List ℝ) (a : ℝ) : l.foldl maxS a = a ∨ l.foldl maxS a ∈ l := by
  induction l generalizing a with
  | nil => simp
  | cons b bs ih =>
    simp only [List.foldl_cons, List.mem_cons]
    rcases ih (maxS a b) with h | h
    · rw [h]
      unfold maxS
      split_ifs <;> simp
    · exact Or.inr (Or.inr h)

theorem foldl_add_exp (row : List ℝ) (m acc : ℝ) :
    row.foldl (fun acc e => acc + Real.exp (e - m)) acc = acc + (row.map fun e => Real.exp (e - m)).sum := by
  induction row generalizing acc with
  | nil => simp
  | cons b bs ih => simp only [List.foldl_cons, ih, List.map_cons, List.sum_cons]; ring


/-! ### list bookkeeping for the whole-gradient theorems -/

theorem sumS_cons (a : ℝ) (l : List ℝ) : sumS (a :: l) = a + sumS l := by
  rw [sumS_eq_sum, sumS_eq_sum, List.sum_cons]

theorem dotS_eq_sum (a b : List ℝ) : dotS a b = (List.zipWith (· * ·) a b).sum := by
  unfold dotS; exact sumS_eq_sum _

theorem dotS_cons (a b : ℝ) (as bs : List ℝ) : dotS (a :: as) (b :: bs) = a * b + dotS as bs := by
  rw [dotS_eq_sum, dotS_eq_sum]; simp

theorem dotS_nil_left (b : List ℝ) : dotS ([] : List ℝ) b = 0 := by
  rw [dotS_eq_sum]; simp

/-- `dotS` is affine in one coordinate of its second argument -/
theorem dotS_set (row p : List ℝ) (j : Nat) (t : ℝ) (hj : j < p.length) :
    dotS row (p.set j t) = dotS row p + row.getD j 0 * (t - p.getD j 0) := by
  induction row generalizing p j with
  | nil => simp [dotS_nil_left]
  | cons r rs ih =>
    cases p with
    | nil => simp at hj
    | cons q qs =>
      cases j with
      | zero => simp [dotS_cons]; ring
      | succ j =>
        simp only [List.set_cons_succ, dotS_cons, List.getD_cons_succ]
        rw [ih qs j (by simpa using hj)]
        ring

theorem dotS_set_self (p : List ℝ) (j : Nat) (t : ℝ) (hj : j < p.length) :
    dotS (p.set j t) (p.set j t) = (dotS p p - p.getD j 0 * p.getD j 0) + t * t := by
  induction p generalizing j with
  | nil => simp at hj
  | cons q qs ih =>
    cases j with
    | zero => simp [dotS_cons]; ring
    | succ j =>
      simp only [List.set_cons_succ, dotS_cons, List.getD_cons_succ]
      rw [ih j (by simpa using hj)]
      ring

/-! ### multinomial: log-sum-exp, per-sample derivative, score rows, sum rule (round 3) -/

theorem sum_exp_pos (a : ℝ) (as : List ℝ) : 0 < ((a :: as).map Real.exp).sum := by
  have hnn : ∀ x ∈ (as).map Real.exp, 0 ≤ x := by
    intro x hx
    obtain ⟨n, -, rfl⟩ := List.mem_map.mp hx
    exact (Real.exp_pos _).le
  have := List.sum_nonneg hnn
  simp only [List.map_cons, List.sum_cons]
  have := Real.exp_pos a
  linarith

theorem sum_exp_shift (l : List ℝ) (m : ℝ) :
    (l.map fun e => Real.exp (e - m)).sum = Real.exp (-m) * (l.map Real.exp).sum := by
  induction l with
  | nil => simp
  | cons b bs ih =>
    simp only [List.map_cons, List.sum_cons, ih]
    rw [show b - m = b + -m by ring, Real.exp_add]
    ring

/-- **`log_sum_exp` of a non-empty row is `ln Σ exp`** (the `1e-15` floor is inactive, the subtracted maximum cancels) -/
theorem logSumExpRow_eq (eps : ℝ) (heps : eps ≤ 1) (a : ℝ) (as : List ℝ) :
    logSumExpRow eps (a :: as) = Real.log (((a :: as).map Real.exp).sum) := by
  set m := as.foldl maxS a with hm
  have hmem : m ∈ a :: as := by
    rcases foldl_maxS_mem as a with h | h
    · rw [hm, h]; simp
    · exact List.mem_cons_of_mem _ h
  set S := ((a :: as).map fun e => Real.exp (e - m)).sum with hS
  have hS1 : 1 ≤ S := by
    have hnn : ∀ x ∈ (a :: as).map (fun e => Real.exp (e - m)), 0 ≤ x := by
      intro x hx
      obtain ⟨n, -, rfl⟩ := List.mem_map.mp hx
      exact (Real.exp_pos _).le
    have := List.single_le_sum hnn (Real.exp (m - m)) (List.mem_map.mpr ⟨m, hmem, rfl⟩)
    rw [sub_self, Real.exp_zero] at this
    exact this
  have hlse : logSumExpRow eps (a :: as) = Real.log S + m := by
    simp only [logSumExpRow, maxList]
    show Real.log (maxS (List.foldl (fun acc e => acc + Real.exp (e - m)) 0 (a :: as)) eps) + m = _
    rw [foldl_add_exp, zero_add, maxS_eq_max, max_eq_left (le_trans heps hS1)]
  rw [hlse, hS, sum_exp_shift, Real.log_mul (Real.exp_pos _).ne' (sum_exp_pos a as).ne', Real.log_exp]
  ring


theorem logSumExpRow_eq' (eps : ℝ) (heps : eps ≤ 1) (h : List ℝ) (hne : h ≠ []) :
    logSumExpRow eps h = Real.log ((h.map Real.exp).sum) := by
  cases h with
  | nil => exact absurd rfl hne
  | cons a as => exact logSumExpRow_eq eps heps a as

theorem sum_exp_pos' (h : List ℝ) (hne : h ≠ []) : 0 < (h.map Real.exp).sum := by
  cases h with
  | nil => exact absurd rfl hne
  | cons a as => exact sum_exp_pos a as

/-- list lemma A: subtracting a constant from every score -/
theorem zipWith_sub_const_sum (h yr : List ℝ) (L : ℝ) (hl : h.length = yr.length) :
    (List.zipWith (· * ·) (h.map (· - L)) yr).sum = (List.zipWith (· * ·) h yr).sum - L * yr.sum := by
  induction h generalizing yr with
  | nil => cases yr with
    | nil => simp
    | cons _ _ => simp at hl
  | cons a as ih =>
    cases yr with
    | nil => simp at hl
    | cons b bs =>
      simp only [List.map_cons, List.zipWith_cons_cons, List.sum_cons]
      rw [ih bs (by simpa using hl)]
      ring

/-- list lemma B: one score changed -/
theorem zipWith_set_sum (h yr : List ℝ) (c : Nat) (v : ℝ) (hc : c < h.length) :
    (List.zipWith (· * ·) (h.set c v) yr).sum =
      (List.zipWith (· * ·) h yr).sum + (v - h.getD c 0) * yr.getD c 0 := by
  induction h generalizing yr c with
  | nil => simp at hc
  | cons a as ih =>
    cases yr with
    | nil => simp
    | cons b bs =>
      cases c with
      | zero => simp; ring
      | succ c =>
        simp only [List.set_cons_succ, List.zipWith_cons_cons, List.sum_cons, List.getD_cons_succ]
        rw [ih bs c (by simpa using hc)]
        ring

/-- list lemma C: `Σ exp` with one score changed -/
theorem sum_exp_set (h : List ℝ) (c : Nat) (v : ℝ) (hc : c < h.length) :
    ((h.set c v).map Real.exp).sum = (h.map Real.exp).sum - Real.exp (h.getD c 0) + Real.exp v := by
  induction h generalizing c with
  | nil => simp at hc
  | cons a as ih =>
    cases c with
    | zero => simp; ring
    | succ c =>
      simp only [List.set_cons_succ, List.map_cons, List.sum_cons, List.getD_cons_succ]
      rw [ih c (by simpa using hc)]
      ring

/-- one row of `elem_dot(log_prob, Y)`: `Σ_c (h_c - log_sum_exp h) y_c` -/
noncomputable def rowLoss (eps : ℝ) (h yr : List ℝ) : ℝ :=
  (List.zipWith (· * ·) (h.map (· - logSumExpRow eps h)) yr).sum

/-- **per-sample term of the multinomial gradient**: if class score `c` of a sample depends on the coordinate as
`h_c + ξ (t - w₀)` and the others do not, the sample's negative log-likelihood has derivative
`(exp(h_c - log_sum_exp h) - y_c) ξ` — `softmax(h)_c - y_c` times the feature (`ξ = 1` for the intercept).  Uses that
the target row sums to one (one-hot). -/
theorem row_loss_hasDerivAt (eps : ℝ) (heps : eps ≤ 1) (h yr : List ℝ) (c : Nat) (ξ w0 : ℝ)
    (hc : c < h.length) (hl : yr.length = h.length) (hy : yr.sum = 1) :
    HasDerivAt (fun t : ℝ => -(rowLoss eps (h.set c (h.getD c 0 + ξ * (t - w0))) yr))
      ((Real.exp (h.getD c 0 - logSumExpRow eps h) - yr.getD c 0) * ξ) w0 := by
  have hne : h ≠ [] := by intro e; simp [e] at hc
  have hS := sum_exp_pos' h hne
  set S0 := (h.map Real.exp).sum with hS0
  set D0 := (List.zipWith (· * ·) h yr).sum with hD0
  have e : (fun t : ℝ => -(rowLoss eps (h.set c (h.getD c 0 + ξ * (t - w0))) yr)) =
      fun t : ℝ => Real.log (S0 - Real.exp (h.getD c 0) + Real.exp (h.getD c 0 + ξ * (t - w0))) -
        (D0 + ξ * (t - w0) * yr.getD c 0) := by
    funext t
    have hne' : h.set c (h.getD c 0 + ξ * (t - w0)) ≠ [] := by
      intro e; have := congrArg List.length e; simp at this; rw [this] at hc; simp at hc
    unfold rowLoss
    rw [zipWith_sub_const_sum _ _ _ (by simp [hl]), hy, logSumExpRow_eq' eps heps _ hne', sum_exp_set h c _ hc,
      zipWith_set_sum h yr c _ hc]
    ring
  rw [e]
  have hin : HasDerivAt (fun t : ℝ => h.getD c 0 + ξ * (t - w0)) ξ w0 := by
    have := (((hasDerivAt_id w0).sub_const w0).const_mul ξ).const_add (h.getD c 0)
    simpa using this
  have hexp : HasDerivAt (fun t : ℝ => S0 - Real.exp (h.getD c 0) + Real.exp (h.getD c 0 + ξ * (t - w0)))
      (Real.exp (h.getD c 0) * ξ) w0 := by
    have := (hin.exp).const_add (S0 - Real.exp (h.getD c 0))
    simpa using this
  have hval : S0 - Real.exp (h.getD c 0) + Real.exp (h.getD c 0 + ξ * (w0 - w0)) = S0 := by
    simp
  have hlog := hexp.log (by rw [hval]; exact hS.ne')
  rw [hval] at hlog
  have hlin : HasDerivAt (fun t : ℝ => D0 + ξ * (t - w0) * yr.getD c 0) (ξ * yr.getD c 0) w0 := by
    have := ((((hasDerivAt_id w0).sub_const w0).const_mul ξ).mul_const (yr.getD c 0)).const_add D0
    simpa using this
  have hd := hlog.sub hlin
  refine hd.congr_deriv ?_
  rw [logSumExpRow_eq' eps heps h hne, Real.exp_sub, Real.exp_log hS]
  ring


/-- list lemma E: a function on `range k` changed at one point -/
theorem map_range_update (k c0 : Nat) (f g : Nat → ℝ) (v : ℝ) (hg0 : g c0 = v)
    (hg : ∀ c, c ≠ c0 → g c = f c) :
    (List.range k).map g = ((List.range k).map f).set c0 v := by
  apply List.ext_getElem
  · simp
  · intro i h1 h2
    simp only [List.getElem_map, List.getElem_range, List.getElem_set]
    by_cases hi : c0 = i
    · subst hi; simp [hg0]
    · simp [hi, hg i (Ne.symm hi)]

/-- the class scores of one sample (one row of `scores`) -/
noncomputable def sc (k : Nat) (row : List ℝ) (params : List (List ℝ)) (b : List ℝ) : List ℝ :=
  (List.range k).map fun c => dotS row (col params c) + b.getD c 0

theorem scores_eq_map (k : Nat) (x : List (List ℝ)) (params : List (List ℝ)) (b : List ℝ) :
    scores k x params b = x.map fun row => sc k row params b := rfl

theorem sc_length (k : Nat) (row : List ℝ) (params : List (List ℝ)) (b : List ℝ) :
    (sc k row params b).length = k := by simp [sc]

theorem sc_getD (k : Nat) (row : List ℝ) (params : List (List ℝ)) (b : List ℝ) (c : Nat) (hc : c < k) :
    (sc k row params b).getD c 0 = dotS row (col params c) + b.getD c 0 := by
  simp [sc, List.getD_eq_getElem?_getD, hc]

/-- column `c` of the parameter matrix after entry `(j, c0)` was set to `t` -/
theorem col_set_entry (params : List (List ℝ)) (j c0 c : Nat) (t : ℝ) (hj : j < params.length)
    (hc0 : c0 < (params.getD j []).length) :
    col (params.set j ((params.getD j []).set c0 t)) c =
      if c = c0 then (col params c0).set j t else col params c := by
  have hrow : params.getD j [] = params[j] := by simp [List.getD_eq_getElem?_getD, hj]
  unfold col
  rw [List.map_set]
  by_cases h : c = c0
  · subst h
    simp only [if_true]
    congr 1
    rw [hrow] at hc0 ⊢
    simp [List.getD_eq_getElem?_getD, hc0]
  · simp only [h, if_false]
    rw [hrow]
    have : (params[j].set c0 t).getD c 0 = params[j].getD c 0 := by
      simp [List.getD_eq_getElem?_getD, List.getElem?_set, Ne.symm h]
    rw [this]
    apply List.ext_getElem
    · simp
    · intro i h1 h2
      simp only [List.getElem_set, List.getElem_map]
      split_ifs with hij
      · subst hij; rfl
      · rfl


theorem col_getD (params : List (List ℝ)) (j c : Nat) (hj : j < params.length) :
    (col params c).getD j 0 = (params.getD j []).getD c 0 := by
  simp [col, List.getD_eq_getElem?_getD, hj]

/-- scores of one sample after weight `(j, c0)` was set to `t`: only class `c0` moves, affinely -/
theorem sc_set_weight (k : Nat) (row : List ℝ) (params : List (List ℝ)) (b : List ℝ) (j c0 : Nat) (t : ℝ)
    (hj : j < params.length) (hc0 : c0 < (params.getD j []).length) :
    sc k row (params.set j ((params.getD j []).set c0 t)) b =
      (sc k row params b).set c0
        ((dotS row (col params c0) + b.getD c0 0) + row.getD j 0 * (t - (params.getD j []).getD c0 0)) := by
  unfold sc
  apply map_range_update
  · rw [col_set_entry params j c0 c0 t hj hc0, if_pos rfl,
      dotS_set row (col params c0) j t (by simpa [col] using hj), col_getD params j c0 hj]
    ring
  · intro c hc
    rw [col_set_entry params j c0 c t hj hc0, if_neg hc]

theorem sc_set_intercept (k : Nat) (row : List ℝ) (params : List (List ℝ)) (b : List ℝ) (c0 : Nat) (t : ℝ)
    (hc0 : c0 < b.length) :
    sc k row params (b.set c0 t) =
      (sc k row params b).set c0 ((dotS row (col params c0) + b.getD c0 0) + 1 * (t - b.getD c0 0)) := by
  unfold sc
  apply map_range_update
  · simp [List.getD_eq_getElem?_getD, hc0]
  · intro c hc
    simp [List.getD_eq_getElem?_getD, List.getElem?_set, Ne.symm hc]

/-- `elem_dot` as a sum of row sums -/
theorem elemDot_eq (a b : List (List ℝ)) :
    elemDot a b = ((List.zipWith (fun ra rb => List.zipWith (· * ·) ra rb) a b).map List.sum).sum := by
  unfold elemDot
  rw [← List.sum_eq_foldl, List.sum_flatten]

theorem logProb_eq (eps : ℝ) (k : Nat) (x : List (List ℝ)) (params : List (List ℝ)) (b : List ℝ) :
    logProb eps k x params b =
      x.map fun row => (sc k row params b).map (· - logSumExpRow eps (sc k row params b)) := by
  unfold logProb logSumExpRows
  rw [scores_eq_map]
  simp [List.zipWith_map_left, List.zipWith_map_right, List.zipWith_self]

/-- the data part of `multi_logistic_loss` is the sum of the per-sample `rowLoss` -/
theorem elemDot_logProb (eps : ℝ) (k : Nat) (x : List (List ℝ)) (params : List (List ℝ)) (b : List ℝ)
    (y : List (List ℝ)) :
    elemDot (logProb eps k x params b) y =
      (List.zipWith (fun row yr => rowLoss eps (sc k row params b) yr) x y).sum := by
  rw [elemDot_eq, logProb_eq]
  simp only [List.zipWith_map_left, List.map_zipWith, rowLoss]


/-- **sum rule over the sample list (multinomial)**: if under the coordinate `t` only class score `c0` of every
sample moves, affinely with slope `ξ row`, the data part of the loss has derivative `Σᵢ (Pᵢc0 - Yᵢc0) ξᵢ` -/
theorem multi_data_hasDerivAt (eps : ℝ) (heps : eps ≤ 1) (k c0 : Nat) (hc0 : c0 < k)
    (S : ℝ → List ℝ → List ℝ) (h0 : List ℝ → List ℝ) (ξ : List ℝ → ℝ) (w0 : ℝ)
    (hS : ∀ t row, S t row = (h0 row).set c0 ((h0 row).getD c0 0 + ξ row * (t - w0)))
    (hlen : ∀ row, (h0 row).length = k)
    (x y : List (List ℝ)) (hy : ∀ yr ∈ y, yr.length = k ∧ yr.sum = 1) :
    HasDerivAt (fun t : ℝ => -(List.zipWith (fun row yr => rowLoss eps (S t row) yr) x y).sum)
      ((List.zipWith (fun row yr =>
        (Real.exp ((h0 row).getD c0 0 - logSumExpRow eps (h0 row)) - yr.getD c0 0) * ξ row) x y).sum) w0 := by
  induction x generalizing y with
  | nil => simpa using hasDerivAt_const w0 (0 : ℝ)
  | cons r xs ih =>
    cases y with
    | nil => simpa using hasDerivAt_const w0 (0 : ℝ)
    | cons yr ys =>
      have hyr := hy yr (by simp)
      have hhead := row_loss_hasDerivAt eps heps (h0 r) yr c0 (ξ r) w0 (by rw [hlen]; exact hc0)
        (by rw [hlen]; exact hyr.1) hyr.2
      have htail := ih ys (fun q hq => hy q (List.mem_cons_of_mem _ hq))
      have hsum := hhead.add htail
      have e1 : (fun t : ℝ => -(List.zipWith (fun row yr => rowLoss eps (S t row) yr) (r :: xs) (yr :: ys)).sum) =
          fun t : ℝ => -(rowLoss eps ((h0 r).set c0 ((h0 r).getD c0 0 + ξ r * (t - w0))) yr) +
            -(List.zipWith (fun row yr => rowLoss eps (S t row) yr) xs ys).sum := by
        funext t
        simp only [List.zipWith_cons_cons, List.sum_cons, hS t r]
        ring
      rw [e1]
      simp only [List.zipWith_cons_cons, List.sum_cons]
      exact hsum

/-- column `c0` of `softmax(H) - Y` as the code computes it (`multiDiff`) -/
theorem col_multiDiff (eps : ℝ) (k c0 : Nat) (hc0 : c0 < k) (params : List (List ℝ)) (b : List ℝ)
    (x y : List (List ℝ)) (hy : ∀ yr ∈ y, yr.length = k ∧ yr.sum = 1) :
    col (multiDiff eps k x y params b) c0 =
      List.zipWith (fun row yr => Real.exp ((sc k row params b).getD c0 0 -
        logSumExpRow eps (sc k row params b)) - yr.getD c0 0) x y := by
  unfold multiDiff col
  rw [logProb_eq]
  induction x generalizing y with
  | nil => simp
  | cons r xs ih =>
    cases y with
    | nil => simp
    | cons yr ys =>
      have hyr := hy yr (by simp)
      simp only [List.map_cons, List.zipWith_cons_cons]
      rw [ih ys (fun q hq => hy q (List.mem_cons_of_mem _ hq))]
      congr 1
      have h1 : c0 < (sc k r params b).length := by rw [sc_length]; exact hc0
      have h2 : c0 < yr.length := by rw [hyr.1]; exact hc0
      simp [List.getD_eq_getElem?_getD, List.getElem?_zipWith, h1, h2, Transc.exp]

theorem dotS_col_zipWith (j : Nat) (f : List ℝ → List ℝ → ℝ) (x y : List (List ℝ)) :
    dotS (col x j) (List.zipWith f x y) = (List.zipWith (fun row yr => f row yr * row.getD j 0) x y).sum := by
  induction x generalizing y with
  | nil => simp [col, dotS_nil_left]
  | cons r xs ih =>
    cases y with
    | nil => simp [col, dotS_eq_sum]
    | cons yr ys =>
      have := ih ys
      simp only [col, List.map_cons, List.zipWith_cons_cons, dotS_cons, List.sum_cons] at this ⊢
      rw [this]; ring

theorem sumS_zipWith_one (f : List ℝ → List ℝ → ℝ) (x y : List (List ℝ)) :
    sumS (List.zipWith f x y) = (List.zipWith (fun row yr => f row yr * 1) x y).sum := by
  rw [sumS_eq_sum]; simp


theorem elemDot_cons (a b : List ℝ) (as bs : List (List ℝ)) :
    elemDot (a :: as) (b :: bs) = (List.zipWith (· * ·) a b).sum + elemDot as bs := by
  simp [elemDot_eq]

theorem elemDot_set_self (params : List (List ℝ)) (j : Nat) (r' : List ℝ) (hj : j < params.length) :
    elemDot (params.set j r') (params.set j r') =
      elemDot params params - dotS (params.getD j []) (params.getD j []) + dotS r' r' := by
  induction params generalizing j with
  | nil => simp at hj
  | cons a as ih =>
    cases j with
    | zero => simp [elemDot_cons, dotS_eq_sum]; ring
    | succ j =>
      simp only [List.set_cons_succ, elemDot_cons, List.getD_cons_succ]
      rw [ih j (by simpa using hj)]
      ring

/-- the parameter matrix with entry `(j, c)` replaced by `t` -/
def setEntry (w : List (List ℝ)) (j c : Nat) (t : ℝ) : List (List ℝ) := w.set j ((w.getD j []).set c t)


/-! ### first-order optimality helpers -/

/-- if each coordinate function has the listed derivative, "all listed derivatives vanish" is the same as "every
partial derivative is zero" (first-order optimality) -/
theorem stationary_iff_of_hasDerivAt (n : Nat) (f : Nat → ℝ → ℝ) (g a : Nat → ℝ)
    (h : ∀ j, j < n → HasDerivAt (f j) (g j) (a j)) :
    (∀ j, j < n → g j = 0) ↔ (∀ j, j < n → HasDerivAt (f j) 0 (a j)) := by
  constructor
  · intro h0 j hj; rw [← h0 j hj]; exact h j hj
  · intro h0 j hj; exact (h j hj).unique (h0 j hj)

/-- the oracle's test `‖g‖₂ ≤ tol` bounds every entry of `g` -/
theorem entry_abs_le_of_norm_le (g : List ℝ) (tol : ℝ) (htol : 0 ≤ tol)
    (hn : (g.map (· ^ 2)).sum ≤ tol ^ 2) : ∀ v ∈ g, |v| ≤ tol := by
  intro v hv
  have hnn : ∀ x ∈ g.map (· ^ 2), 0 ≤ x := by
    intro x hx
    obtain ⟨u, -, rfl⟩ := List.mem_map.mp hx
    exact sq_nonneg u
  have h1 : v ^ 2 ≤ (g.map (· ^ 2)).sum := List.single_le_sum hnn _ (List.mem_map.mpr ⟨v, hv, rfl⟩)
  exact abs_le_of_sq_le_sq (le_trans h1 hn) htol

theorem headD_drop (w : List ℝ) (n : Nat) : (w.drop n).headD 0 = w.getD n 0 := by
  rw [List.headD_eq_head?_getD, List.head?_drop, List.getD_eq_getElem?_getD]

theorem dotS_set_scaled (c : List ℝ) (alpha : ℝ) (j : Nat) (t : ℝ) (hj : j < c.length) :
    dotS (c.set j t) ((c.set j t).map (· * alpha)) =
      (dotS c (c.map (· * alpha)) - c.getD j 0 * (c.getD j 0 * alpha)) + t * (t * alpha) := by
  induction c generalizing j with
  | nil => simp at hj
  | cons q qs ih =>
    cases j with
    | zero => simp [dotS_cons]; ring
    | succ j =>
      simp only [List.set_cons_succ, List.map_cons, dotS_cons, List.getD_cons_succ]
      rw [ih j (by simpa using hj)]
      ring

end Logistic

namespace Glm

/-! ### the deviance as a plain sum -/

/-- `unit_deviance` returns a value unless the power is in the rejected window `(0,1)` -/
theorem unitDeviance_some (pw : ℝ → ℝ → ℝ) (tol6 power y yp : ℝ) (hc : powerClass tol6 power ≠ .invalid) :
    unitDeviance pw tol6 power y yp = some ((unitDeviance pw tol6 power y yp).getD 0) := by
  unfold unitDeviance
  cases h : powerClass tol6 power <;> simp_all

theorem deviance_foldl (pw : ℝ → ℝ → ℝ) (tol6 power : ℝ) (hc : powerClass tol6 power ≠ .invalid)
    (step : Option ℝ → Option ℝ → Option ℝ) (hstep : ∀ a v, step (some a) (some v) = some (a + v))
    (y yp : List ℝ) (a : ℝ) :
    (List.zipWith (unitDeviance pw tol6 power) y yp).foldl step (some a) =
    some (a + (List.zipWith (fun u v => (unitDeviance pw tol6 power u v).getD 0) y yp).sum) := by
  induction y generalizing yp a with
  | nil => simp
  | cons yi ys ih =>
    cases yp with
    | nil => simp
    | cons m ms =>
      simp only [List.zipWith_cons_cons, List.foldl_cons, List.sum_cons]
      rw [unitDeviance_some pw tol6 power yi m hc, hstep]
      simp only [Option.getD_some]
      rw [ih ms]
      congr 1; ring

theorem deviance_eq (pw : ℝ → ℝ → ℝ) (tol6 power : ℝ) (hc : powerClass tol6 power ≠ .invalid) (y yp : List ℝ) :
    deviance pw tol6 power y yp =
      some ((List.zipWith (fun u v => (unitDeviance pw tol6 power u v).getD 0) y yp).sum) := by
  unfold deviance
  rw [deviance_foldl pw tol6 power hc _ (fun _ _ => rfl) y yp 0, zero_add]

end Glm
end LinfaSpec
