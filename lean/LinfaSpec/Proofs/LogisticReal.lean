import LinfaSpec.Model.Logistic
import LinfaSpec.Model.Glm
import Mathlib.Analysis.SpecialFunctions.Log.Deriv
import Mathlib.Analysis.SpecialFunctions.ExpDeriv
import Mathlib.Analysis.SpecialFunctions.Pow.Deriv

/-!
Real-number instance of the scalar primitives and helper lemmas for C12.
-/
namespace LinfaSpec

noncomputable instance : Transc ℝ := ⟨Real.sqrt, Real.exp, Real.log⟩

namespace Logistic

theorem sumS_eq_sum (l : List ℝ) : sumS l = l.sum := by
  unfold sumS
  rw [List.sum_eq_foldl]

theorem maxS_eq_max (a b : ℝ) : maxS a b = max a b := by
  unfold maxS
  split_ifs with h
  · exact (max_eq_right (le_of_lt h)).symm
  · exact (max_eq_left (not_lt.mp h)).symm

theorem foldl_maxS_ge (l : List ℝ) (a : ℝ) : a ≤ l.foldl maxS a ∧ ∀ x ∈ l, x ≤ l.foldl maxS a := by
  induction l generalizing a with
  | nil => simp
  | cons b bs ih =>
    simp only [List.foldl_cons, List.mem_cons, forall_eq_or_imp]
    obtain ⟨h1, h2⟩ := ih (maxS a b)
    rw [maxS_eq_max] at h1 h2 ⊢
    exact ⟨le_trans (le_max_left a b) h1, le_trans (le_max_right a b) h1, h2⟩

theorem foldl_maxS_shift (l : List ℝ) (a c : ℝ) :
    (l.map (· + c)).foldl maxS (a + c) = l.foldl maxS a + c := by
  induction l generalizing a with
  | nil => simp
  | cons b bs ih =>
    simp only [List.map_cons, List.foldl_cons]
    have : maxS (a + c) (b + c) = maxS a b + c := by
      rw [maxS_eq_max, maxS_eq_max, max_add_add_right]
    rw [this, ih]

/-- `argmax` is unchanged by a strictly increasing map of the entries -/
theorem argmaxAux_map (f : ℝ → ℝ) (hf : StrictMono f) (l : List ℝ) (i best : Nat) (m : ℝ) :
    argmaxAux (l.map f) i best (f m) = argmaxAux l i best m := by
  induction l generalizing i best m with
  | nil => simp [argmaxAux]
  | cons a as ih =>
    simp only [List.map_cons, argmaxAux, hf.lt_iff_lt]
    split_ifs
    · exact ih _ _ _
    · exact ih _ _ _

theorem argmax_map (f : ℝ → ℝ) (hf : StrictMono f) (l : List ℝ) : argmax (l.map f) = argmax l := by
  cases l with
  | nil => simp [argmax]
  | cons a as => simp only [List.map_cons, argmax]; exact argmaxAux_map f hf as 1 0 a

theorem foldl_maxS_mem (l : List ℝ) (a : ℝ) : l.foldl maxS a = a ∨ l.foldl maxS a ∈ l := by
  induction l generalizing a with
  | nil => simp
  | cons b bs ih =>
    simp only [List.foldl_cons, List.mem_cons]
    rcases ih (maxS a b) with h | h
    · rw [h]
      unfold maxS
      split_ifs <;> simp
    · exact Or.inr (Or.inr h)

theorem foldl_add_exp (row : List ℝ) (m acc : ℝ) :
    row.foldl (fun acc e => acc + Real.exp (e - m)) acc = acc + (row.map fun e => Real.exp (e - m)).sum := by
  induction row generalizing acc with
  | nil => simp
  | cons b bs ih => simp only [List.foldl_cons, ih, List.map_cons, List.sum_cons]; ring


/-! ### list bookkeeping for the whole-gradient theorems -/

theorem sumS_cons (a : ℝ) (l : List ℝ) : sumS (a :: l) = a + sumS l := by
  rw [sumS_eq_sum, sumS_eq_sum, List.sum_cons]

theorem dotS_eq_sum (a b : List ℝ) : dotS a b = (List.zipWith (· * ·) a b).sum := by
  unfold dotS; exact sumS_eq_sum _

theorem dotS_cons (a b : ℝ) (as bs : List ℝ) : dotS (a :: as) (b :: bs) = a * b + dotS as bs := by
  rw [dotS_eq_sum, dotS_eq_sum]; simp

theorem dotS_nil_left (b : List ℝ) : dotS ([] : List ℝ) b = 0 := by
  rw [dotS_eq_sum]; simp

/-- `dotS` is affine in one coordinate of its second argument -/
theorem dotS_set (row p : List ℝ) (j : Nat) (t : ℝ) (hj : j < p.length) :
    dotS row (p.set j t) = dotS row p + row.getD j 0 * (t - p.getD j 0) := by
  induction row generalizing p j with
  | nil => simp [dotS_nil_left]
  | cons r rs ih =>
    cases p with
    | nil => simp at hj
    | cons q qs =>
      cases j with
      | zero => simp [dotS_cons]; ring
      | succ j =>
        simp only [List.set_cons_succ, dotS_cons, List.getD_cons_succ]
        rw [ih qs j (by simpa using hj)]
        ring

theorem dotS_set_self (p : List ℝ) (j : Nat) (t : ℝ) (hj : j < p.length) :
    dotS (p.set j t) (p.set j t) = (dotS p p - p.getD j 0 * p.getD j 0) + t * t := by
  induction p generalizing j with
  | nil => simp at hj
  | cons q qs ih =>
    cases j with
    | zero => simp [dotS_cons]; ring
    | succ j =>
      simp only [List.set_cons_succ, dotS_cons, List.getD_cons_succ]
      rw [ih j (by simpa using hj)]
      ring

end Logistic
end LinfaSpec
