import LinfaSpec.Proofs.HierSingle
import LinfaSpec.Proofs.KernelReal
import Mathlib.Analysis.SpecialFunctions.Log.Basic

/-! C06 — the `-ln` transform of `ValidHierarchicalCluster::transform` over `ℝ` (`ln` = `Real.log`), and the
lemmas that carry the dendrogram theorems over to `transformKernel`. -/
namespace LinfaSpec.Hier
open LinfaSpec LinfaSpec.Kernel

/-- `if x > thr { -x.ln() } else { -thr.ln() }` is `-ln (max x thr)` -/
theorem real_toDist (thr x : ℝ) : toDist thr x = -Real.log (max x thr) := by
  unfold toDist
  split_ifs with h
  · rw [max_eq_left h.le]; rfl
  · rw [max_eq_right (not_lt.mp h)]; rfl

/-- a dissimilarity is below the threshold `d` exactly when the (floored) similarity exceeds `exp (-d)` -/
theorem real_toDist_lt_iff (thr x d : ℝ) (hthr : 0 < thr) :
    toDist thr x < d ↔ Real.exp (-d) < max x thr := by
  rw [real_toDist, neg_lt, Real.lt_log_iff_exp_lt (lt_max_of_lt_right hthr)]

/-- a larger similarity is a smaller dissimilarity -/
theorem real_toDist_antitone (thr x y : ℝ) (hthr : 0 < thr) (hxy : x ≤ y) : toDist thr y ≤ toDist thr x := by
  rw [real_toDist, real_toDist, neg_le_neg_iff]
  exact Real.log_le_log (lt_max_of_lt_right hthr) (max_le_max_right thr hxy)

/-- connectedness only depends on which pairs are edges -/
theorem conn_congr {α β : Type} [LT α] [LT β] (D : Nat → Nat → α) (d : α) (D' : Nat → Nat → β) (d' : β) (n : Nat)
    (h : ∀ a b, D a b < d ↔ D' a b < d') (i j : Nat) : Conn D d n i j ↔ Conn D' d' n i j := by
  constructor
  · intro hc
    induction hc with
    | refl a => exact Conn.refl a
    | edge a b ha hb hlt => exact Conn.edge a b ha hb ((h a b).mp hlt)
    | symm _ ih => exact Conn.symm ih
    | trans _ _ ih1 ih2 => exact Conn.trans ih1 ih2
  · intro hc
    induction hc with
    | refl a => exact Conn.refl a
    | edge a b ha hb hlt => exact Conn.edge a b ha hb ((h a b).mpr hlt)
    | symm _ ih => exact Conn.symm ih
    | trans _ _ ih1 ih2 => exact Conn.trans ih1 ih2

section
variable {α : Type} [LinearOrder α]

/-- if no merge below `d` follows a merge at or above `d` (weaker than non-decreasing: rounding noise among
the dissimilarities is allowed as long as it does not cross the threshold), the maximal below-threshold prefix
is the set of all below-threshold merges -/
theorem takeWhile_eq_filter_of_closed (d : α) (steps : List (Step α))
    (hm : ∀ pre s post, steps = pre ++ s :: post → d ≤ s.dis → ∀ t ∈ post, d ≤ t.dis) :
    (steps.takeWhile fun s => decide (s.dis < d)) = steps.filter fun s => decide (s.dis < d) := by
  induction steps with
  | nil => rfl
  | cons s rest ih =>
    by_cases hs : s.dis < d
    · have ih' := ih (fun pre s' post he => hm (s :: pre) s' post (by rw [he]; rfl))
      simp [List.takeWhile_cons, List.filter_cons, hs, ih']
    · have : rest.filter (fun s => decide (s.dis < d)) = [] := by
        rw [List.filter_eq_nil_iff]
        intro b hb
        have := hm [] s rest rfl (not_lt.mp hs) b hb
        simp only [decide_eq_true_eq, not_lt]
        exact this
      simp [List.takeWhile_cons, List.filter_cons, hs, this]

end

/-- a recorded external call answers its own question -/
theorem recorded_self {α : Type} (close : α → α → Bool) (q : List α) (steps : List (Step α)) (n : Nat)
    (hc : ∀ x ∈ q, close x x = true) : recorded close q steps q n = steps := by
  have : (q.zip q).all (fun e => close e.1 e.2) = true := by
    rw [List.all_eq_true]
    intro e he
    have h1 := List.of_mem_zip he
    have : e.1 = e.2 := by
      clear h1
      induction q with
      | nil => simp at he
      | cons x xs ih =>
        simp only [List.zip_cons_cons, List.mem_cons] at he
        rcases he with rfl | he
        · rfl
        · exact ih (fun y hy => hc y (List.mem_cons_of_mem _ hy)) he
    rw [← this]
    exact hc e.1 h1.1
  simp [recorded, this]

end LinfaSpec.Hier
