import LinfaSpec.Proofs.MetricsRoc

/-!
Helper lemmas for the ROC part of C05, second part: the loop of `roc` characterised completely.
After a sorted prefix has been consumed the thresholds are the distinct scores of the prefix in
increasing order and the pushed point of threshold `s` counts the positives / negatives scored
strictly below `s`.  The curve and the thresholds are therefore functions of the multiset of samples.
-/
namespace LinfaSpec.Metrics
open LinfaSpec

section Roc2
variable {α : Type} [Field α] [LinearOrder α] [IsStrictOrderedRing α]

/-- the raw curve point of threshold `s`: positives and negatives of `l` scored strictly below `s` -/
def belowPt (l : List (α × Bool)) (s : α) : α × α := (posSum l (ltInd s), negSum l (ltInd s))

theorem belowPt_snoc_of_le (l : List (α × Bool)) (x : α × Bool) (s : α) (h : s ≤ x.1) :
    belowPt (l ++ [x]) s = belowPt l s := by
  unfold belowPt
  rw [posSum_snoc, negSum_snoc]
  have : ltInd s x.1 = 0 := by simp [ltInd, not_lt.mpr h]
  rw [this]; simp

theorem belowPt_snoc_self (l : List (α × Bool)) (x : α × Bool) (h : ∀ y ∈ l, y.1 < x.1) :
    belowPt (l ++ [x]) x.1 = (posSum l (fun _ => 1), negSum l (fun _ => 1)) := by
  rw [belowPt_snoc_of_le l x x.1 (le_refl _)]
  unfold belowPt
  congr 1
  · apply posSum_congr; intro y hy; simp [ltInd, h y hy]
  · apply negSum_congr; intro y hy; simp [ltInd, h y hy]

/-- the loop state after the sorted prefix `pre`, described completely -/
structure RocShape (pre : List (α × Bool)) (st : RocState α) : Prop where
  tp_eq : st.tp = posSum pre fun _ => 1
  fp_eq : st.fp = negSum pre fun _ => 1
  thr_sorted : st.thr.Pairwise (· < ·)
  thr_mem : ∀ s, s ∈ st.thr ↔ ∃ y ∈ pre, y.1 = s
  pts_eq : st.pts = st.thr.map (belowPt pre)
  s0_max : match st.s0 with
    | none => pre = []
    | some s => (∃ y ∈ pre, y.1 = s) ∧ ∀ y ∈ pre, y.1 ≤ s

theorem rocShape_init :
    RocShape ([] : List (α × Bool)) { tp := 0, fp := 0, s0 := none, pts := [], thr := [] } := by
  refine ⟨by simp [posSum], by simp [negSum], by simp, by simp, by simp, by simp⟩

theorem rocShape_step (eps : α) (pre : List (α × Bool)) (st : RocState α) (x : α × Bool)
    (h : RocShape pre st) (hle : ∀ y ∈ pre, y.1 ≤ x.1)
    (hsep : ∀ s, st.s0 = some s → (isFresh eps (some s) x.1 = true ↔ x.1 ≠ s)) :
    RocShape (pre ++ [x]) (rocStep eps st x) := by
  obtain ⟨htp, hfp, hsorted, hmem, hpts, hs0m⟩ := h
  have hthr_le : ∀ s ∈ st.thr, s ≤ x.1 := by
    intro s hs
    obtain ⟨y, hy, hys⟩ := (hmem s).mp hs
    exact hys ▸ hle y hy
  have hmap : st.thr.map (belowPt pre) = st.thr.map (belowPt (pre ++ [x])) := by
    apply List.map_congr_left
    intro s hs
    exact (belowPt_snoc_of_le pre x s (hthr_le s hs)).symm
  cases hs0 : st.s0 with
  | none =>
    rw [hs0] at hs0m
    subst hs0m
    have hthr : st.thr = [] := by
      apply List.eq_nil_iff_forall_not_mem.mpr
      intro s hs
      obtain ⟨y, hy, _⟩ := (hmem s).mp hs
      simp at hy
    have hfr : isFresh eps st.s0 x.1 = true := by rw [hs0]; rfl
    rw [rocStep_fresh eps st x hfr]
    have htp0 : st.tp = 0 := by rw [htp]; simp [posSum]
    have hfp0 : st.fp = 0 := by rw [hfp]; simp [negSum]
    have hb : belowPt [x] x.1 = ((0 : α), (0 : α)) := by
      have := belowPt_snoc_self ([] : List (α × Bool)) x (by simp)
      simpa [posSum, negSum] using this
    cases hx : x.2
    · simp only [Bool.false_eq_true, if_false]
      refine ⟨by simp [posSum, hx, htp0], by simp [negSum, hx, hfp0], by simp [hthr], ?_, ?_, ?_⟩
      · intro s; simp [hthr, eq_comm]
      · simp only [hpts, hthr, List.map_nil, List.nil_append, List.map_cons, htp0, hfp0]
        rw [hb]
      · simp
    · simp only [if_true]
      refine ⟨by simp [posSum, hx, htp0], by simp [negSum, hx, hfp0], by simp [hthr], ?_, ?_, ?_⟩
      · intro s; simp [hthr, eq_comm]
      · simp only [hpts, hthr, List.map_nil, List.nil_append, List.map_cons, htp0, hfp0]
        rw [hb]
      · simp
  | some s =>
    rw [hs0] at hs0m
    obtain ⟨⟨y0, hy0, hy0s⟩, hall⟩ := hs0m
    have hsx : s ≤ x.1 := hy0s ▸ hle y0 hy0
    by_cases hxs : x.1 = s
    · have hfr : isFresh eps st.s0 x.1 = false := by
        rw [hs0]
        cases hf : isFresh eps (some s) x.1
        · rfl
        · exact absurd hxs ((hsep s hs0).mp hf)
      rw [rocStep_same eps st x hfr]
      have hmem' : ∀ t, t ∈ st.thr ↔ ∃ y ∈ pre ++ [x], y.1 = t := by
        intro t
        constructor
        · intro ht
          obtain ⟨y, hy, hyt⟩ := (hmem t).mp ht
          exact ⟨y, by simp [hy], hyt⟩
        · rintro ⟨y, hy, hyt⟩
          rcases List.mem_append.mp hy with hy | hy
          · exact (hmem t).mpr ⟨y, hy, hyt⟩
          · simp at hy
            subst hy
            rw [← hyt, hxs]
            exact (hmem s).mpr ⟨y0, hy0, hy0s⟩
      have hall' : ∀ y ∈ pre ++ [x], y.1 ≤ s := by
        intro y hy
        rcases List.mem_append.mp hy with hy | hy
        · exact hall y hy
        · simp at hy; rw [hy, hxs]
      cases hx : x.2
      · simp only [Bool.false_eq_true, if_false]
        exact ⟨by simp [posSum_snoc, hx, htp], by simp [negSum_snoc, hx, hfp], hsorted, hmem',
          by rw [hpts, hmap], by simp only [hs0]; exact ⟨⟨y0, by simp [hy0], hy0s⟩, hall'⟩⟩
      · simp only [if_true]
        exact ⟨by simp [posSum_snoc, hx, htp], by simp [negSum_snoc, hx, hfp], hsorted, hmem',
          by rw [hpts, hmap], by simp only [hs0]; exact ⟨⟨y0, by simp [hy0], hy0s⟩, hall'⟩⟩
    · have hlt : s < x.1 := lt_of_le_of_ne hsx (Ne.symm hxs)
      have hfr : isFresh eps st.s0 x.1 = true := by rw [hs0]; exact (hsep s hs0).mpr hxs
      rw [rocStep_fresh eps st x hfr]
      have hpre_lt : ∀ y ∈ pre, y.1 < x.1 := fun y hy => lt_of_le_of_lt (hall y hy) hlt
      have hsorted' : (st.thr ++ [x.1]).Pairwise (· < ·) := by
        rw [List.pairwise_append]
        refine ⟨hsorted, by simp, ?_⟩
        intro a ha b hb
        simp at hb; subst hb
        obtain ⟨y, hy, hya⟩ := (hmem a).mp ha
        exact hya ▸ hpre_lt y hy
      have hmem' : ∀ t, t ∈ st.thr ++ [x.1] ↔ ∃ y ∈ pre ++ [x], y.1 = t := by
        intro t
        constructor
        · intro ht
          rcases List.mem_append.mp ht with ht | ht
          · obtain ⟨y, hy, hyt⟩ := (hmem t).mp ht
            exact ⟨y, by simp [hy], hyt⟩
          · simp at ht; exact ⟨x, by simp, ht.symm⟩
        · rintro ⟨y, hy, hyt⟩
          rcases List.mem_append.mp hy with hy | hy
          · exact List.mem_append.mpr (Or.inl ((hmem t).mpr ⟨y, hy, hyt⟩))
          · simp at hy; subst hy; simp [hyt]
      have hpts' : st.pts ++ [(st.tp, st.fp)] = (st.thr ++ [x.1]).map (belowPt (pre ++ [x])) := by
        rw [List.map_append, ← hmap, ← hpts, List.map_cons, List.map_nil, belowPt_snoc_self pre x hpre_lt,
          htp, hfp]
      have hall' : ∀ y ∈ pre ++ [x], y.1 ≤ x.1 := by
        intro y hy
        rcases List.mem_append.mp hy with hy | hy
        · exact le_of_lt (hpre_lt y hy)
        · simp at hy; rw [hy]
      cases hx : x.2
      · simp only [Bool.false_eq_true, if_false]
        exact ⟨by simp [posSum_snoc, hx, htp], by simp [negSum_snoc, hx, hfp], hsorted', hmem', hpts',
          ⟨⟨x, by simp, rfl⟩, hall'⟩⟩
      · simp only [if_true]
        exact ⟨by simp [posSum_snoc, hx, htp], by simp [negSum_snoc, hx, hfp], hsorted', hmem', hpts',
          ⟨⟨x, by simp, rfl⟩, hall'⟩⟩

/-- the description holds after the whole loop, for every sorted sample list whose distinct scores
are further apart than the grouping threshold -/
theorem rocShape_foldl (eps : α) (heps : 0 ≤ eps) (l : List (α × Bool))
    (hsorted : l.Pairwise fun a b => a.1 ≤ b.1)
    (hsep : ∀ x ∈ l, ∀ y ∈ l, x.1 ≠ y.1 → eps < |x.1 - y.1|) :
    RocShape l (l.foldl (rocStep eps) { tp := 0, fp := 0, s0 := none, pts := [], thr := [] }) := by
  induction l using List.reverseRecOn with
  | nil => exact rocShape_init
  | append_singleton pre x ih =>
    rw [List.foldl_append]
    simp only [List.foldl_cons, List.foldl_nil]
    have hs := List.pairwise_append.mp hsorted
    have ih' := ih hs.1 (fun a ha b hb => hsep a (by simp [ha]) b (by simp [hb]))
    apply rocShape_step eps pre _ x ih' (fun y hy => hs.2.2 y hy x (by simp))
    intro s hs0
    have hg := ih'.s0_max
    rw [hs0] at hg
    obtain ⟨⟨y0, hy0, hy0s⟩, _⟩ := hg
    apply isFresh_iff_ne eps heps
    intro hne
    rw [← hy0s] at hne ⊢
    exact hsep x (by simp) y0 (by simp [hy0]) hne

theorem posSum_ltInd_eq (l : List (α × Bool)) (s : α) :
    posSum l (ltInd s) = ((l.filter fun y => y.2 && decide (y.1 < s)).length : α) := by
  induction l with
  | nil => simp [posSum]
  | cons y ys ih =>
    unfold posSum at ih ⊢
    rw [List.map_cons, List.sum_cons, ih, List.filter_cons]
    cases hy : y.2 <;> by_cases hlt : y.1 < s <;> simp [hy, hlt, ltInd] <;> ring

theorem negSum_ltInd_eq (l : List (α × Bool)) (s : α) :
    negSum l (ltInd s) = ((l.filter fun y => !y.2 && decide (y.1 < s)).length : α) := by
  induction l with
  | nil => simp [negSum]
  | cons y ys ih =>
    unfold negSum at ih ⊢
    rw [List.map_cons, List.sum_cons, ih, List.filter_cons]
    cases hy : y.2 <;> by_cases hlt : y.1 < s <;> simp [hy, hlt, ltInd] <;> ring

theorem posSum_one_eq (l : List (α × Bool)) :
    posSum l (fun _ => 1) = ((l.filter fun y => y.2).length : α) := by
  induction l with
  | nil => simp [posSum]
  | cons y ys ih =>
    unfold posSum at ih ⊢
    rw [List.map_cons, List.sum_cons, ih, List.filter_cons]
    cases hy : y.2 <;> simp [hy] <;> ring

theorem negSum_one_eq (l : List (α × Bool)) :
    negSum l (fun _ => 1) = ((l.filter fun y => !y.2).length : α) := by
  induction l with
  | nil => simp [negSum]
  | cons y ys ih =>
    unfold negSum at ih ⊢
    rw [List.map_cons, List.sum_cons, ih, List.filter_cons]
    cases hy : y.2 <;> simp [hy] <;> ring

/-- number of samples of class `pos` scored strictly below `s` (all samples of the class for `none`) -/
def nBelow (l : List (α × Bool)) (pos : Bool) (s : Option α) : Nat :=
  (l.filter fun y => (y.2 == pos) && (match s with | none => true | some s => decide (y.1 < s))).length

theorem nBelow_perm {l l' : List (α × Bool)} (h : l.Perm l') (pos : Bool) (s : Option α) :
    nBelow l pos s = nBelow l' pos s := (h.filter _).length_eq

theorem belowPt_eq (l : List (α × Bool)) (s : α) :
    belowPt l s = ((nBelow l true (some s) : α), (nBelow l false (some s) : α)) := by
  unfold belowPt nBelow
  rw [posSum_ltInd_eq, negSum_ltInd_eq]
  congr 3
  · apply List.filter_congr; intro y _; cases y.2 <;> simp
  · apply List.filter_congr; intro y _; cases y.2 <;> simp

theorem totals_eq (l : List (α × Bool)) :
    posSum l (fun _ => 1) = (nBelow l true none : α) ∧ negSum l (fun _ => 1) = (nBelow l false none : α) := by
  unfold nBelow
  rw [posSum_one_eq, negSum_one_eq]
  constructor
  · congr 2; apply List.filter_congr; intro y _; cases y.2 <;> simp
  · congr 2; apply List.filter_congr; intro y _; cases y.2 <;> simp

/-- **the ROC curve and its thresholds, spelled out**: the thresholds are the distinct scores in
increasing order; the curve has one point per threshold `s` — the fraction of positives and of
negatives scored strictly below `s` — followed by `(P/P, N/N)` -/
theorem roc_shape (eps : α) (heps : 0 ≤ eps) (samples : List (α × Bool))
    (hnn : ∀ x ∈ samples, 0 ≤ x.1)
    (hsep : ∀ x ∈ samples, ∀ y ∈ samples, x.1 ≠ y.1 → eps < |x.1 - y.1|) :
    ∃ thr : List α, thr.Pairwise (· < ·) ∧ (∀ s, s ∈ thr ↔ ∃ y ∈ samples, y.1 = s) ∧
      (roc eps none samples).2 = thr ∧
      (roc eps none samples).1 =
        (thr.map fun s => ((nBelow samples true (some s) : α) / (nBelow samples true none : α),
                           (nBelow samples false (some s) : α) / (nBelow samples false none : α))) ++
        [((nBelow samples true none : α) / (nBelow samples true none : α),
          (nBelow samples false none : α) / (nBelow samples false none : α))] := by
  have hf : samples.filter (fun x => decide ((0 : α) ≤ x.1)) = samples :=
    List.filter_eq_self.mpr (fun x hx => by simpa using hnn x hx)
  have hperm := perm_sortByScore samples
  have sh := rocShape_foldl eps heps (sortByScore samples) (sorted_sortByScore samples)
    (fun x hx y hy => hsep x (hperm.mem_iff.mp hx) y (hperm.mem_iff.mp hy))
  obtain ⟨htp, hfp, hsorted, hmem, hpts, _⟩ := sh
  have ht := totals_eq (sortByScore samples)
  rw [nBelow_perm hperm, nBelow_perm hperm] at ht
  refine ⟨_, hsorted, ?_, ?_, ?_⟩
  · intro s
    rw [hmem s]
    constructor
    · rintro ⟨y, hy, hys⟩; exact ⟨y, hperm.mem_iff.mp hy, hys⟩
    · rintro ⟨y, hy, hys⟩; exact ⟨y, hperm.mem_iff.mpr hy, hys⟩
  · simp only [roc, rocRaw, hf]
  · simp only [roc, rocRaw, hf]
    rw [hpts, htp, hfp, ht.1, ht.2, List.map_append, List.map_map]
    congr 1
    apply List.map_congr_left
    intro s _
    simp only [Function.comp, belowPt_eq, nBelow_perm hperm]

end Roc2
end LinfaSpec.Metrics
