import LinfaSpec.Proofs.TreeSweep

/-!
C14, round 3: lemmas that tie `predict` to the row masks of `fit` (a training row is predicted by
the leaf it was assigned to while fitting), the first-met order of `features()`, and totality of
`fit` under the guards (the recursion budget `fitFuel` is adequate, no assert fires).
-/
set_option linter.unusedSimpArgs false
set_option linter.unusedSectionVars false
set_option linter.unusedVariables false
namespace LinfaSpec.Tree
open LinfaSpec

section route
variable {α β : Type}
variable [Add α] [Sub α] [Div α] [Neg α] [LT α] [DecidableLT α] [LE α] [DecidableLE α]
  [OfNat α 0] [NatCast α]
variable [Add β] [Sub β] [Mul β] [Div β] [Neg β] [LT β] [DecidableLT β]
  [OfNat β 0] [OfNat β 1] [NatCast β]

/-- the row mask of the leaf `make_prediction` ends in for `row`: starting from the rows `m` of the
node, the training rows that take at every node the turn `row` takes (`value <= split` = left) -/
def reachedMask (D : Data α β) (row : List α) : List Bool → Tree α → List Bool
  | m, .node f s _ _ _ l r =>
    if row.getD f 0 ≤ s then reachedMask D row (leftMask D m f s) l
    else reachedMask D row (rightMask D m f s) r
  | m, .leaf _ _ => m
  | m, .half _ _ _ _ _ _ _ => m

/-- whatever holds at every leaf together with its training rows holds for the value `predict`
returns together with the training rows of the leaf the row ends in -/
theorem forallLeaves_predict (D : Data α β) (Q : List Bool → Nat → Prop) (row : List α) :
    ∀ (t : Tree α) (m : List Bool), ForallLeaves D Q m t → Q (reachedMask D row m t) (predict row t) := by
  intro t
  induction t with
  | leaf p d => intro m h; exact h
  | half f s dec p d il c ih => intro m h; exact h
  | node f s dec p d l r ihl ihr =>
    intro m h
    simp only [reachedMask, predict]
    split
    · exact ihl _ h.1
    · exact ihr _ h.2

/-- the `i`-th training row, as `predict` sees it -/
def Data.row (D : Data α β) (i : Nat) : List α := D.xs.getD i []

/-- **a training row ends in the leaf it was assigned to while fitting**: row `i` is one of the
training rows of the leaf that `make_prediction` reaches for it (fit distributes by
`value <= split`, the comparison `make_prediction` makes) -/
theorem train_row_in_reached (D : Data α β) (i : Nat) :
    ∀ (t : Tree α) (m : List Bool), i ∈ rowsOf m → i ∈ rowsOf (reachedMask D (D.row i) m t) := by
  intro t
  induction t with
  | leaf p d => intro m h; exact h
  | half f s dec p d il c ih => intro m h; exact h
  | node f s dec p d l r ihl ihr =>
    intro m h
    simp only [reachedMask]
    split
    · rename_i hle
      refine ihl _ ?_
      rw [rowsOf_leftMask, List.mem_filter]
      exact ⟨h, by simpa [Data.x, Data.row] using hle⟩
    · rename_i hle
      refine ihr _ ?_
      rw [rowsOf_rightMask, List.mem_filter]
      exact ⟨h, by simpa [Data.x, Data.row] using hle⟩

/-- the rows of the reached leaf are rows of the node the descent started from -/
theorem reached_sub (D : Data α β) (row : List α) :
    ∀ (t : Tree α) (m : List Bool) (j : Nat), j ∈ rowsOf (reachedMask D row m t) → j ∈ rowsOf m := by
  intro t
  induction t with
  | leaf p d => intro m j h; exact h
  | half f s dec p d il c ih => intro m j h; exact h
  | node f s dec p d l r ihl ihr =>
    intro m j h
    simp only [reachedMask] at h
    split at h
    · have := ihl _ j h
      rw [rowsOf_leftMask] at this
      exact (List.mem_filter.mp this).1
    · have := ihr _ j h
      rw [rowsOf_rightMask] at this
      exact (List.mem_filter.mp this).1

theorem mem_rowsOf_allMask (D : Data α β) (i : Nat) : i ∈ rowsOf (allMask D) ↔ i < D.n := by
  simp [rowsOf, allMask, List.getD_eq_getElem?_getD]
  intro h
  simp [List.getElem?_eq_getElem, h]

end route

/-! ### `features()`: first-met order -/
section feats

theorem firstOcc_aux (l : List Nat) : ∀ (acc : List Nat), acc.Nodup →
    (l.foldl (fun acc f => if acc.contains f then acc else acc ++ [f]) acc).Nodup ∧
    (∀ f, f ∈ l.foldl (fun acc f => if acc.contains f then acc else acc ++ [f]) acc ↔ f ∈ acc ∨ f ∈ l) ∧
    acc <+: l.foldl (fun acc f => if acc.contains f then acc else acc ++ [f]) acc := by
  induction l with
  | nil => intro acc h; exact ⟨h, fun f => by simp, List.prefix_refl _⟩
  | cons x xs ih =>
    intro acc h
    simp only [List.foldl_cons]
    by_cases hx : acc.contains x = true
    · simp only [hx, if_true]
      obtain ⟨h1, h2, h3⟩ := ih acc h
      refine ⟨h1, fun f => ?_, h3⟩
      rw [h2 f, List.mem_cons]
      have hx' : x ∈ acc := by simpa using hx
      constructor
      · rintro (h | h)
        · exact Or.inl h
        · exact Or.inr (Or.inr h)
      · rintro (h | h | h)
        · exact Or.inl h
        · exact Or.inl (h ▸ hx')
        · exact Or.inr h
    · simp only [hx, if_false, Bool.false_eq_true]
      have hx' : x ∉ acc := by simpa using hx
      have hnd : (acc ++ [x]).Nodup := by
        rw [List.nodup_append]
        refine ⟨h, by simp, ?_⟩
        intro a ha b hb
        simp only [List.mem_singleton] at hb
        subst hb
        intro e; subst e; exact hx' ha
      obtain ⟨h1, h2, h3⟩ := ih (acc ++ [x]) hnd
      refine ⟨h1, fun f => ?_, (List.prefix_append acc [x]).trans h3⟩
      rw [h2 f, List.mem_append, List.mem_singleton, List.mem_cons]
      constructor
      · rintro ((h | h) | h)
        · exact Or.inl h
        · exact Or.inr (Or.inl h)
        · exact Or.inr (Or.inr h)
      · rintro (h | h | h)
        · exact Or.inl (Or.inl h)
        · exact Or.inl (Or.inr h)
        · exact Or.inr h

theorem firstOcc_nodup (l : List Nat) : (firstOcc l).Nodup := (firstOcc_aux l [] List.nodup_nil).1

theorem mem_firstOcc (l : List Nat) (f : Nat) : f ∈ firstOcc l ↔ f ∈ l := by
  have := (firstOcc_aux l [] List.nodup_nil).2.1 f
  simpa [firstOcc] using this

/-- `firstOcc` lists the elements in the order of their first occurrence: it is a sublist of the
input -/
theorem firstOcc_sublist (l : List Nat) : ∀ (acc : List Nat),
    ∃ r, l.foldl (fun acc f => if acc.contains f then acc else acc ++ [f]) acc = acc ++ r ∧ r.Sublist l := by
  induction l with
  | nil => intro acc; exact ⟨[], by simp, List.Sublist.refl _⟩
  | cons x xs ih =>
    intro acc
    simp only [List.foldl_cons]
    by_cases hx : acc.contains x = true
    · simp only [hx, if_true]
      obtain ⟨r, h1, h2⟩ := ih acc
      exact ⟨r, h1, h2.cons x⟩
    · simp only [hx, if_false, Bool.false_eq_true]
      obtain ⟨r, h1, h2⟩ := ih (acc ++ [x])
      exact ⟨x :: r, by rw [h1]; simp, h2.cons_cons x⟩

end feats

/-! ### `fit` returns under the guards -/
section total
variable {α β : Type}
variable [Add α] [Sub α] [Div α] [Neg α] [LT α] [DecidableLT α] [LE α] [DecidableLE α]
  [OfNat α 0] [NatCast α]
variable [Add β] [Sub β] [Mul β] [Div β] [Neg β] [LT β] [DecidableLT β]
  [OfNat β 0] [OfNat β 1] [NatCast β]

/-- the `ok` flag of a candidate records the two `assert!(n_samples > 0.0)` on its own running
class weights -/
theorem sweepGo_ok (P : Params α β) (D : Data α β) (mask : List Bool) (f : Nat) (total : β) :
    ∀ (s : List (Nat × α)) (fL fR : List β) (wL wR : β) (c : Cand α β),
      c ∈ sweepGo P D mask f total fL fR wL wR s →
      c.ok = (impOk (inLabelOrder D c.fR) && impOk (inLabelOrder D c.fL)) := by
  intro s
  induction s with
  | nil => intro fL fR wL wR c hc; simp [sweepGo] at hc
  | cons x xs ih =>
    intro fL fR wL wR c hc
    cases xs with
    | nil => simp [sweepGo] at hc
    | cons y ys =>
      obtain ⟨i, v⟩ := x
      obtain ⟨j, v'⟩ := y
      unfold sweepGo at hc
      split at hc
      · simp only at hc
        split at hc
        · exact ih _ _ _ _ c hc
        · split at hc
          · exact ih _ _ _ _ c hc
          · rcases List.mem_cons.mp hc with hc | hc
            · subst hc; rfl
            · exact ih _ _ _ _ c hc
      · exact ih _ _ _ _ c hc

theorem candidates_ok (P : Params α β) (D : Data α β) (sorted : List (List (Nat × α)))
    (mask : List Bool) (pf : List β) (c : Cand α β) (hc : c ∈ candidates P D sorted mask pf) :
    c.ok = (impOk (inLabelOrder D c.fR) && impOk (inLabelOrder D c.fL)) := by
  simp only [candidates, List.mem_flatMap] at hc
  obtain ⟨⟨s, f⟩, _, hc⟩ := hc
  exact sweepGo_ok P D mask f _ s _ _ _ _ c hc

end total

section totalField
variable {α β : Type} [Field α] [LinearOrder α] [IsStrictOrderedRing α]
variable [Field β] [LinearOrder β] [IsStrictOrderedRing β]

theorem rows_ne_nil_of_weight (D : Data α β) (rows : List Nat) (m : β) (hm : 0 < m)
    (h : ¬ rwS D rows < m) : rows ≠ [] := by
  intro e
  rw [e, rwS_nil] at h
  exact h hm

theorem length_rows_split (D : Data α β) (mask : List Bool) (f : Nat) (s : α) :
    (rowsOf (leftMask D mask f s)).length + (rowsOf (rightMask D mask f s)).length = (rowsOf mask).length := by
  rw [rowsOf_leftMask, rowsOf_rightMask]
  exact (List.length_eq_length_filter_add _).symm

/-- **`TreeNode::fit` returns**: with the literal `1e-5` positive, a positive `min_weight_leaf`
(the statement's guard), a positive `min_impurity_decrease` (`ParamGuard`), class indices `< K`,
`lord` a permutation and an iteration order that lists the keys, the call on a non-empty set of
rows returns a tree whenever the recursion budget exceeds the number of rows: no `assert!` /
`unwrap` fires and every recursive call is on strictly fewer rows -/
theorem fitNode_returns (P : Params α β) (D : Data α β) (ord : List Nat → List Nat) (p : Nat)
    (heps : 0 < P.eps) (hml : 0 < P.minLeaf) (hmd : 0 < P.minDec) (hK : ∀ r, D.y r < D.K)
    (hlord : D.lord.Perm (List.range D.K)) (hord : ∀ l c, c ∈ ord l ↔ c ∈ l) :
    ∀ fuel mask depth, mask.length = D.n → rowsOf mask ≠ [] → (rowsOf mask).length < fuel →
      ∃ t, fitNode P D ord (sortedAll D p) fuel mask depth = some t := by
  intro fuel
  induction fuel with
  | zero => intro mask depth _ _ h; omega
  | succ fuel ih =>
    intro mask depth hlen hne hfuel
    -- the modal class exists
    have hpres : ord (presentClasses D (rowsOf mask)) ≠ [] := by
      obtain ⟨i, hi⟩ := List.exists_mem_of_ne_nil _ hne
      have : D.y i ∈ ord (presentClasses D (rowsOf mask)) := by
        rw [hord]
        simp only [presentClasses, List.mem_filter, List.mem_range, List.any_eq_true, beq_iff_eq]
        exact ⟨hK i, i, hi, rfl⟩
      exact List.ne_nil_of_mem this
    obtain ⟨pred, hpred⟩ := modalOf_isSome (classWeight D (rowsOf mask)) D.rank _ hpres
    have hspec : ∀ c ∈ candidates P D (sortedAll D p) mask (freqOf D (rowsOf mask)), CandSpec P D mask p c :=
      fun c hc => candidates_spec P D mask p heps hK hlord hlen c hc
    -- every candidate passed both asserts
    have hok : (candidates P D (sortedAll D p) mask (freqOf D (rowsOf mask))).any (fun c => !c.ok) = false := by
      rw [List.any_eq_false]
      intro c hc
      have hs := hspec c hc
      have h1 : (0 : β) < rwS D (rowsOf (rightMask D mask c.feat c.split)) := by
        rw [← hs.wR]; exact lt_of_lt_of_le hml (not_lt.mp hs.minR)
      have h2 : (0 : β) < rwS D (rowsOf (leftMask D mask c.feat c.split)) := by
        rw [← hs.wL]; exact lt_of_lt_of_le hml (not_lt.mp hs.minL)
      rw [candidates_ok P D _ mask _ c hc, hs.fL, hs.fR]
      simp [impOk, total_eq_rwS D hK hlord, h1, h2]
    unfold fitNode
    simp only
    split
    · rename_i hm
      rw [hpred] at hm
      exact absurd hm (by simp)
    · split
      · exact ⟨_, rfl⟩
      · split
        · rename_i hany
          rw [hok] at hany
          exact absurd hany (by simp)
        · split
          · exact ⟨_, rfl⟩
          · rename_i hdec
            split
            · rename_i hnone
              exfalso
              rw [hnone] at hdec
              exact hdec hmd
            · rename_i b hb
              have hs := hspec b (pickBest_mem _ _ hb)
              have hl : rowsOf (leftMask D mask b.feat b.split) ≠ [] :=
                rows_ne_nil_of_weight D _ _ hml (hs.wL ▸ hs.minL)
              have hr : rowsOf (rightMask D mask b.feat b.split) ≠ [] :=
                rows_ne_nil_of_weight D _ _ hml (hs.wR ▸ hs.minR)
              have hsum := length_rows_split D mask b.feat b.split
              have hlpos : 0 < (rowsOf (leftMask D mask b.feat b.split)).length := List.length_pos_of_ne_nil hl
              have hrpos : 0 < (rowsOf (rightMask D mask b.feat b.split)).length := List.length_pos_of_ne_nil hr
              have hle : (rowsOf (leftMask D mask b.feat b.split)).isEmpty = false := by
                simpa [List.isEmpty_iff] using hl
              have hre : (rowsOf (rightMask D mask b.feat b.split)).isEmpty = false := by
                simpa [List.isEmpty_iff] using hr
              obtain ⟨l, hfl⟩ := ih (leftMask D mask b.feat b.split) (depth + 1)
                (by rw [length_leftMask]; exact hlen) hl (by omega)
              obtain ⟨r, hfr⟩ := ih (rightMask D mask b.feat b.split) (depth + 1)
                (by rw [length_rightMask]; exact hlen) hr (by omega)
              split
              · rw [hfl, hfr]
                exact ⟨_, rfl⟩
              · rename_i h1 h2
                rw [hre] at h2; exact absurd h2 (by simp)
              · rename_i h1 h2
                rw [hle] at h1; exact absurd h1 (by simp)
              · rename_i h1 h2
                rw [hle] at h1; exact absurd h1 (by simp)

end totalField
/-! ### `iter_nodes()`: the queue loop yields the level order -/
set_option linter.dupNamespace false
section level
variable {α : Type}

/-- height of a tree: a leaf has height 0 -/
def Tree.height : Tree α → Nat
  | .leaf _ _ => 0
  | .node _ _ _ _ _ l r => 1 + max l.height r.height
  | .half _ _ _ _ _ _ c => 1 + c.height

/-- the level order written level by level: the nodes of the current level from left to right, then
the level below (the children of the current level, left to right) -/
def levels : Nat → List (Tree α) → List (Tree α)
  | 0, _ => []
  | h + 1, q => q ++ levels h (q.flatMap Tree.children)

theorem bfs_nil (fuel : Nat) : bfs fuel ([] : List (Tree α)) = [] := by cases fuel <;> rfl

theorem levels_nil : ∀ h, levels h ([] : List (Tree α)) = [] := by
  intro h
  induction h with
  | zero => rfl
  | succ h ih => simp [levels, ih]

theorem sum_size_children (q : List (Tree α)) :
    (q.map Tree.size).sum = q.length + ((q.flatMap Tree.children).map Tree.size).sum := by
  induction q with
  | nil => rfl
  | cons x q ih =>
    simp only [List.map_cons, List.sum_cons, List.flatMap_cons, List.map_append, List.sum_append,
      List.length_cons]
    rw [size_eq x, ih]
    omega

/-- the queue loop of `NodeIter`: once the nodes `q` at the front of the queue have been yielded, the
queue holds what was behind them followed by their children -/
theorem bfs_append (q : List (Tree α)) : ∀ (r : List (Tree α)) (fuel : Nat),
    ((q ++ r).map Tree.size).sum ≤ fuel →
    bfs fuel (q ++ r) = q ++ bfs (fuel - q.length) (r ++ q.flatMap Tree.children) := by
  induction q with
  | nil => intro r fuel _; simp
  | cons x q ih =>
    intro r fuel h
    have hx := size_pos x
    simp only [List.cons_append, List.map_cons, List.sum_cons] at h
    obtain ⟨fuel', rfl⟩ : ∃ f, fuel = f + 1 := ⟨fuel - 1, by omega⟩
    have hsz : (((q ++ (r ++ x.children))).map Tree.size).sum ≤ fuel' := by
      rw [size_eq x] at h
      simp only [List.map_append, List.sum_append] at h ⊢
      omega
    simp only [List.cons_append, bfs, List.append_assoc]
    rw [ih (r ++ x.children) fuel' hsz]
    simp [List.flatMap_cons, List.append_assoc]

theorem height_children (t c : Tree α) (hc : c ∈ t.children) : c.height < t.height := by
  cases t with
  | leaf _ _ => simp [Tree.children] at hc
  | node f s dec p d l r =>
    simp only [Tree.children, List.mem_cons, List.mem_nil_iff, or_false] at hc
    rcases hc with rfl | rfl <;> simp only [Tree.height] <;> omega
  | half f s dec p d il c' =>
    simp only [Tree.children, List.mem_cons, List.mem_nil_iff, or_false] at hc
    subst hc
    simp only [Tree.height]; omega

theorem bfs_eq_levels : ∀ (h : Nat) (q : List (Tree α)) (fuel : Nat),
    (q.map Tree.size).sum ≤ fuel → (∀ t ∈ q, t.height < h) → bfs fuel q = levels h q := by
  intro h
  induction h with
  | zero =>
    intro q fuel _ hq
    cases q with
    | nil => exact bfs_nil fuel
    | cons x q => exact absurd (hq x (by simp)) (by omega)
  | succ h ih =>
    intro q fuel hf hq
    have := bfs_append q [] fuel (by simpa using hf)
    simp only [List.append_nil, List.nil_append] at this
    rw [this, levels]
    congr 1
    refine ih _ _ ?_ ?_
    · have := sum_size_children q
      omega
    · intro c hc
      obtain ⟨t, ht, hct⟩ := List.mem_flatMap.mp hc
      have := height_children t c hct
      have := hq t ht
      omega

/-- **`iter_nodes()` yields the nodes in level order**: the root, then the nodes of depth 1 from left
to right, then those of depth 2, … -/
theorem iterNodes_eq_levels (t : Tree α) : iterNodes t = levels (t.height + 1) [t] := by
  unfold iterNodes
  exact bfs_eq_levels _ _ _ (by simp) (by intro u hu; simp only [List.mem_singleton] at hu; subst hu; omega)

end level
end LinfaSpec.Tree
