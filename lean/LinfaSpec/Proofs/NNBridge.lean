import LinfaSpec.Proofs.NN
import LinfaSpec.Proofs.NNMetrics

/-! C07 — bridge between the metric theorems (stated on the subtype `{l // l.length = d}`, where the
provided metrics are `Lawful`) and the functions the driver runs on raw `List α` rows.

* `fit d` / `fitM d m`: the metric read through padding / cutting to length `d` is total on raw lists,
  `Lawful` whenever `onDim d m` is, and equal to `m` on lists of length `d` (`agree_fitM`).
* `request_congr`: one whole request (`knnRequest` / `rangeRequest`: guards, dispatch on the kind,
  build of the ball tree, search loop) does not distinguish two metrics that agree on a predicate `S`
  satisfied by the query, every row, every leaf mean and every split centre.
So a theorem about `fitM d m` (lawful) transfers to `m` itself on batches of `d`-dimensional rows. -/
namespace LinfaSpec.NN
set_option linter.unusedSectionVars false

section bridge
variable {α : Type} [Field α] [LinearOrder α] [IsStrictOrderedRing α]

/-- pad with zeros / cut to length `d` (the identity on lists of length `d`) -/
def fit (d : Nat) (l : List α) : List α := (l ++ List.replicate d 0).take d

theorem fit_length (d : Nat) (l : List α) : (fit d l).length = d := by simp [fit]
theorem fit_eq {d : Nat} {l : List α} (h : l.length = d) : fit d l = l := by
  unfold fit; exact List.take_left' h

/-- the metric `m` read through `fit d`: total on raw lists, equal to `m` on lists of length `d` -/
def fitM (d : Nat) (m : Metric (List α) α) : Metric (List α) α :=
  ⟨fun a b => m.dist (fit d a) (fit d b), fun a b => m.rdist (fit d a) (fit d b), m.toR, m.ofR⟩

theorem fitM_lawful {d : Nat} {m : Metric (List α) α} (h : Lawful (onDim d m)) : Lawful (fitM d m) where
  dist_nonneg a b := h.dist_nonneg ⟨fit d a, fit_length d a⟩ ⟨fit d b, fit_length d b⟩
  triangle a b c := h.triangle ⟨fit d a, fit_length d a⟩ ⟨fit d b, fit_length d b⟩ ⟨fit d c, fit_length d c⟩
  rdist_eq a b := h.rdist_eq ⟨fit d a, fit_length d a⟩ ⟨fit d b, fit_length d b⟩
  toR_strictMono := h.toR_strictMono
  ofR_toR := h.ofR_toR

/-- two metrics that agree on the points satisfying `S` (same conversions) -/
structure Agree {P : Type} (S : P → Prop) (m m' : Metric P α) : Prop where
  dist : ∀ a b, S a → S b → m.dist a b = m'.dist a b
  rdist : ∀ a b, S a → S b → m.rdist a b = m'.rdist a b
  toR : m.toR = m'.toR
  ofR : m.ofR = m'.ofR

theorem agree_fitM (d : Nat) (m : Metric (List α) α) : Agree (fun l => l.length = d) m (fitM d m) where
  dist a b ha hb := by show m.dist a b = m.dist (fit d a) (fit d b); rw [fit_eq ha, fit_eq hb]
  rdist a b ha hb := by show m.rdist a b = m.rdist (fit d a) (fit d b); rw [fit_eq ha, fit_eq hb]
  toR := rfl
  ofR := rfl

end bridge

section congr
variable {P α : Type} [Field α] [LinearOrder α] [IsStrictOrderedRing α]

theorem foldl_congr_mem {β γ : Type} (f g : β → γ → β) (l : List γ) (init : β)
    (h : ∀ x ∈ l, ∀ acc, f acc x = g acc x) : l.foldl f init = l.foldl g init := by
  induction l generalizing init with
  | nil => rfl
  | cons x xs ih =>
    simp only [List.foldl_cons]
    rw [h x (by simp) init]
    exact ih _ (fun y hy acc => h y (by simp [hy]) acc)

variable {S : P → Prop} {m m' : Metric P α}

/-- every centre and every stored point of the tree satisfies `S` -/
def AllIn (S : P → Prop) : Ball P α → Prop
  | .leaf c _ pts => S c ∧ ∀ x ∈ pts, S x.1
  | .branch c _ l r => S c ∧ AllIn S l ∧ AllIn S r

theorem AllIn.center : ∀ {node : Ball P α}, AllIn S node → S node.center
  | .leaf .., h => h.1
  | .branch .., h => h.1

/-- what `scriptSplit` guarantees besides `SplitPerm`: halves taken from the input, non-empty, the
centre is the coordinates of one of the input points -/
def SplitGood (split : List (Pt P) → Option (List (Pt P) × P × List (Pt P))) : Prop :=
  ∀ pts a c b, split pts = some (a, c, b) →
    (∀ x ∈ a ++ b, x ∈ pts) ∧ a ≠ [] ∧ b ≠ [] ∧ ∃ p ∈ pts, p.1 = c

theorem calcRadius_congr (hA : Agree S m m') (c : P) (hc : S c) (pts : List (Pt P))
    (hp : ∀ x ∈ pts, S x.1) : calcRadius m c pts = calcRadius m' c pts := by
  unfold calcRadius
  rw [hA.ofR]
  congr 2
  apply List.map_congr_left
  intro p hpm
  exact hA.rdist _ _ (hp p hpm) hc

theorem leafOf_congr (hA : Agree S m m') (mean : List P → P)
    (hmean : ∀ ps, ps ≠ [] → (∀ p ∈ ps, S p) → S (mean ps)) (pts : List (Pt P)) (hne : pts ≠ [])
    (hp : ∀ x ∈ pts, S x.1) :
    leafOf m mean pts = leafOf m' mean pts ∧ AllIn S (leafOf m mean pts) := by
  have hc : S (mean (pts.map (·.1))) := hmean _ (by simpa using hne) (by
    intro p hp'
    obtain ⟨x, hx, rfl⟩ := List.mem_map.mp hp'
    exact hp x hx)
  cases pts with
  | nil => exact absurd rfl hne
  | cons x xs =>
    constructor
    · simp only [leafOf]
      rw [calcRadius_congr hA _ hc _ hp]
    · exact ⟨hc, hp⟩

theorem build_congr (hA : Agree S m m') (mean : List P → P)
    (hmean : ∀ ps, ps ≠ [] → (∀ p ∈ ps, S p) → S (mean ps))
    (split : List (Pt P) → Option (List (Pt P) × P × List (Pt P))) (hsplit : SplitGood split)
    (leafSize : Nat) : ∀ (fuel : Nat) (pts : List (Pt P)), pts ≠ [] → (∀ x ∈ pts, S x.1) →
      build m mean split leafSize fuel pts = build m' mean split leafSize fuel pts ∧
        AllIn S (build m mean split leafSize fuel pts) := by
  intro fuel
  induction fuel with
  | zero =>
    intro pts hne hp
    simpa [build] using leafOf_congr hA mean hmean pts hne hp
  | succ n ih =>
    intro pts hne hp
    by_cases h0 : pts.length ≤ leafSize
    · simpa [build, h0] using leafOf_congr hA mean hmean pts hne hp
    · cases hsp : split pts with
      | none => simpa [build, h0, hsp] using leafOf_congr hA mean hmean pts hne hp
      | some t =>
        obtain ⟨a, c, b⟩ := t
        obtain ⟨hsub, hna, hnb, p, hpm, hpc⟩ := hsplit _ _ _ _ hsp
        have hSa : ∀ x ∈ a, S x.1 := fun x hx => hp x (hsub x (List.mem_append_left _ hx))
        have hSb : ∀ x ∈ b, S x.1 := fun x hx => hp x (hsub x (List.mem_append_right _ hx))
        have hSc : S c := hpc ▸ hp p hpm
        obtain ⟨ea, ia⟩ := ih a hna hSa
        obtain ⟨eb, ib⟩ := ih b hnb hSb
        have hr := calcRadius_congr hA c hSc (a ++ b) (by
          intro x hx
          rcases List.mem_append.mp hx with h | h
          · exact hSa x h
          · exact hSb x h)
        simp only [build, h0, hsp, if_false]
        refine ⟨by rw [ea, eb, hr], ?_⟩
        exact ⟨hSc, ia, ib⟩

theorem lower_congr (hA : Agree S m m') (q : P) (hq : S q) (node : Ball P α) (hn : AllIn S node) :
    lower m q node = lower m' q node := by
  unfold lower
  rw [hA.toR, hA.dist _ _ hq hn.center]

theorem visit_congr (hA : Agree S m m') (q : P) (hq : S q) (k : Nat) (R : Option α)
    (out : List (α × Pt P)) (p : Pt P) (hp : S p.1) :
    visit m q k R out p = visit m' q k R out p := by
  simp only [visit, hA.rdist _ _ hq hp]

theorem searchLoop_congr (hA : Agree S m m') (q : P) (hq : S q) (k : Nat) (R : Option α) :
    ∀ (fuel : Nat) (queue : List (α × Ball P α)) (out : List (α × Pt P)),
      (∀ e ∈ queue, AllIn S e.2) →
      searchLoop m q k R fuel queue out = searchLoop m' q k R fuel queue out := by
  intro fuel
  induction fuel with
  | zero => intro queue out _; simp [searchLoop]
  | succ n ih =>
    intro queue out hQ
    cases queue with
    | nil => simp [searchLoop]
    | cons e rest =>
      obtain ⟨d, node⟩ := e
      have hnode : AllIn S node := hQ (d, node) (by simp)
      have hrest : ∀ e ∈ rest, AllIn S e.2 := fun e he => hQ e (by simp [he])
      by_cases hstop : stop k R d out = true
      · simp [searchLoop, hstop]
      · cases node with
        | leaf c r pts =>
          simp only [searchLoop, hstop]
          rw [foldl_congr_mem (visit m q k R) (visit m' q k R) pts out
            (fun p hp acc => visit_congr hA q hq k R acc p (hnode.2 p hp))]
          exact ih _ _ hrest
        | branch c r l rr =>
          have hl : AllIn S l := hnode.2.1
          have hr : AllIn S rr := hnode.2.2
          simp only [searchLoop, hstop, lower_congr hA q hq l hl, lower_congr hA q hq rr hr]
          apply ih
          intro e he
          split at he
          · rcases mem_insertAsc.mp he with rfl | he
            · exact hr
            · split at he
              · rcases mem_insertAsc.mp he with rfl | he
                · exact hl
                · exact hrest e he
              · exact hrest e he
          · split at he
            · rcases mem_insertAsc.mp he with rfl | he
              · exact hl
              · exact hrest e he
            · exact hrest e he

theorem buildForm_leafSize (m : Metric P α) (mean : List P → P)
    (split : List (Pt P) → Option (List (Pt P) × P × List (Pt P))) (kind : Kind) (form : Form)
    (ncols : Nat) (rows : List P) :
    buildForm m mean split kind form ncols rows =
      fromBatchWithLeafSize m mean split kind (form.leafSize) ncols rows := by
  cases form <;> rfl

theorem searchTagged_congr (hA : Agree S m m') (q : P) (hq : S q) (k : Nat) (R : Option α)
    (tree : Ball P α) (ht : AllIn S tree) :
    searchTagged m tree q k R = searchTagged m' tree q k R := by
  unfold searchTagged
  rw [lower_congr hA q hq tree ht]
  exact searchLoop_congr hA q hq k R _ _ _ (by simpa using ht)

theorem linearKnnTagged_congr (hA : Agree S m m') (q : P) (hq : S q) (k : Nat) (pts : List (Pt P))
    (hp : ∀ x ∈ pts, S x.1) : linearKnnTagged m q k pts = linearKnnTagged m' q k pts := by
  unfold linearKnnTagged
  rw [foldl_congr_mem (fun heap p => insertAsc (tag m q p) heap)
    (fun heap p => insertAsc (tag m' q p) heap) pts []
    (fun p hpm acc => by simp only [tag, hA.rdist _ _ hq (hp p hpm)])]

theorem linearRange_congr (hA : Agree S m m') (q : P) (hq : S q) (r : α) (pts : List (Pt P))
    (hp : ∀ x ∈ pts, S x.1) : linearRange m q r pts = linearRange m' q r pts := by
  unfold linearRange
  rw [hA.toR]
  apply List.filter_congr
  intro x hx
  rw [hA.rdist _ _ hq (hp x hx)]

/-- **one whole request does not distinguish two metrics that agree on `S`** when the query, every
row, every leaf mean and every split centre satisfy `S`: all three kinds, both build forms, every
guard.  (The empty batch has no leaf mean in `S`; the ball tree answers it before looking at the tree.) -/
theorem request_congr (hA : Agree S m m') (mean : List P → P)
    (hmean : ∀ ps, ps ≠ [] → (∀ p ∈ ps, S p) → S (mean ps))
    (split : List (Pt P) → Option (List (Pt P) × P × List (Pt P))) (hsplit : SplitGood split)
    (kind : Kind) (form : Form) (ncols : Nat) (rows : List P) (hrows : ∀ x ∈ rows, S x) (qdim : Nat)
    (q : P) (hq : S q) (k : Nat) (r : α) :
    knnRequest m mean split kind form ncols rows qdim q k =
      knnRequest m' mean split kind form ncols rows qdim q k ∧
    rangeRequest m mean split kind form ncols rows qdim q r =
      rangeRequest m' mean split kind form ncols rows qdim q r := by
  have hen : ∀ x ∈ enumerate rows, S x.1 := by
    intro x hx
    unfold enumerate at hx
    obtain ⟨p, i⟩ := x
    exact hrows p (List.mem_of_getElem? (List.mem_zipIdx_iff_getElem?.mp hx))
  have hk := linearKnnTagged_congr hA q hq k (enumerate rows) hen
  have hkn := linearKnnTagged_congr hA q hq (enumerate rows).length (enumerate rows) hen
  have hlr := linearRange_congr hA q hq r (enumerate rows) hen
  -- the ball index: same tree, and (for a non-empty batch) all of it in `S`
  have hix : ballIndex m mean split form.leafSize ncols rows =
      ballIndex m' mean split form.leafSize ncols rows ∧
      (rows ≠ [] → AllIn S (ballIndex m mean split form.leafSize ncols rows).tree) := by
    by_cases hr0 : rows = []
    · subst hr0
      refine ⟨?_, fun h => absurd rfl h⟩
      simp [ballIndex, enumerate, build, leafOf]
    · have hne : enumerate rows ≠ [] := by
        unfold enumerate
        intro h0
        exact hr0 (by simpa using h0)
      obtain ⟨e, a⟩ := build_congr hA mean hmean split hsplit form.leafSize rows.length
        (enumerate rows) hne hen
      exact ⟨by simp only [ballIndex, e], fun _ => a⟩
  obtain ⟨hixe, hixa⟩ := hix
  have hball : ∀ (kk : Nat) (R : Option α),
      nnHelper m (ballIndex m mean split form.leafSize ncols rows) qdim q kk R =
        nnHelper m' (ballIndex m' mean split form.leafSize ncols rows) qdim q kk R := by
    intro kk R
    rw [← hixe]
    unfold nnHelper
    by_cases hr0 : rows = []
    · subst hr0
      simp [ballIndex]
    · rw [searchTagged_congr hA q hq kk R _ (hixa hr0)]
  constructor
  · simp only [knnRequest, buildForm_leafSize, fromBatchWithLeafSize]
    cases buildCheck ncols form.leafSize with
    | error e => rfl
    | ok u =>
      cases kind with
      | linear => simp only [Index.kNearest, linearKnnQ, linearKnn, hk]
      | kd => simp only [Index.kNearest, kdKnnQ, linearKnn, hk]
      | ball => simp only [Index.kNearest, ballKnnQ, hball]
  · simp only [rangeRequest, buildForm_leafSize, fromBatchWithLeafSize]
    cases buildCheck ncols form.leafSize with
    | error e => rfl
    | ok u =>
      cases kind with
      | linear => simp only [Index.withinRange, linearRangeQ, hlr]
      | kd => simp only [Index.withinRange, kdRangeQ, kdWithin, hkn, hA.toR]
      | ball =>
        have hlen : (ballIndex m mean split form.leafSize ncols rows).len =
            (ballIndex m' mean split form.leafSize ncols rows).len := rfl
        simp only [Index.withinRange, ballRangeQ, hball, hA.toR, hlen]

end congr
end LinfaSpec.NN
