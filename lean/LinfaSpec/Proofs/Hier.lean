import LinfaSpec.Model.Hier
import Mathlib.Order.Basic
import Mathlib.Order.Defs.LinearOrder
import Mathlib.Data.List.Basic

/-! Helper lemmas for the hierarchical-clustering half of C06. -/
namespace LinfaSpec.Hier
open LinfaSpec

/-- all samples held by the clusters, in list order -/
def members (cl : Clusters) : List Nat := (cl.map (·.2)).flatten

/-- the cluster ids (keys of the hash map) -/
def keys (cl : Clusters) : List Nat := cl.map (·.1)

theorem removeKey_some (k : Nat) (cl : Clusters) (ids : List Nat) (cl' : Clusters)
    (h : removeKey k cl = some (ids, cl')) :
    cl.Perm ((k, ids) :: cl') ∧ cl'.length + 1 = cl.length ∧ keys cl' = (keys cl).erase k := by
  induction cl generalizing cl' with
  | nil => simp [removeKey] at h
  | cons e rest ih =>
    obtain ⟨k', ids'⟩ := e
    unfold removeKey at h
    by_cases hk : k' = k
    · subst hk
      simp only [if_true, Option.some.injEq, Prod.mk.injEq] at h
      obtain ⟨rfl, rfl⟩ := h
      exact ⟨List.Perm.refl _, rfl, by simp [keys]⟩
    · simp only [hk, if_false] at h
      cases hr : removeKey k rest with
      | none => simp [hr] at h
      | some r =>
        obtain ⟨r1, r2⟩ := r
        simp only [hr, Option.some.injEq, Prod.mk.injEq] at h
        obtain ⟨rfl, rfl⟩ := h
        obtain ⟨hp, hl, hke⟩ := ih r2 hr
        refine ⟨?_, by simp [hl], ?_⟩
        · exact (List.Perm.cons _ hp).trans (List.Perm.swap _ _ _)
        · simp only [keys, List.map_cons] at hke ⊢
          rw [List.erase_cons_tail (by simpa using hk), hke]

theorem removeKey_of_mem (k : Nat) (cl : Clusters) (h : k ∈ keys cl) :
    ∃ ids cl', removeKey k cl = some (ids, cl') := by
  induction cl with
  | nil => simp [keys] at h
  | cons e rest ih =>
    obtain ⟨k', ids'⟩ := e
    unfold removeKey
    by_cases hk : k' = k
    · exact ⟨ids', rest, by simp [hk]⟩
    · have : k ∈ keys rest := by
        simp only [keys, List.map_cons, List.mem_cons] at h
        rcases h with h | h
        · exact absurd h.symm hk
        · exact h
      obtain ⟨ids, cl', hr⟩ := ih this
      exact ⟨ids, (k', ids') :: cl', by simp [hk, hr]⟩

theorem members_perm {a b : Clusters} (h : a.Perm b) : (members a).Perm (members b) :=
  (h.map _).flatten

theorem members_init (n : Nat) : members (initClusters n) = List.range n := by
  unfold members initClusters
  rw [List.map_map]
  generalize List.range n = l
  induction l with
  | nil => rfl
  | cons x xs ih => simpa using ih

/-- the merge replay without a stopping criterion (specification function) -/
def mergeAll {α : Type} : List (Step α) → Clusters → Nat → Option Clusters
  | [], cl, _ => some cl
  | s :: rest, cl, ct =>
    match removeKey s.c1 cl with
    | none => none
    | some (a, cl1) =>
      match removeKey s.c2 cl1 with
      | none => none
      | some (b, cl2) => mergeAll rest ((ct, a ++ b) :: cl2) (ct + 1)

/-- the dendrogram contract of `kodama::linkage` (validated by the harness on every dendrogram it
reads): every step merges two different live cluster ids, the merged cluster gets the next id -/
inductive DendroOK {α : Type} : List (Step α) → List Nat → Nat → Prop
  | nil (live : List Nat) (ct : Nat) : DendroOK [] live ct
  | cons (s : Step α) (rest : List (Step α)) (live : List Nat) (ct : Nat) :
      s.c1 ∈ live → s.c2 ∈ live.erase s.c1 →
      DendroOK rest (ct :: (live.erase s.c1).erase s.c2) (ct + 1) → DendroOK (s :: rest) live ct

section
variable {α : Type} [LE α] [DecidableLE α]

theorem replayGo_members (crit : Crit α) (steps : List (Step α)) (cl : Clusters) (ct : Nat) (cl' : Clusters)
    (h : replayGo crit steps cl ct = some cl') : (members cl').Perm (members cl) := by
  induction steps generalizing cl ct with
  | nil => simp [replayGo] at h; subst h; exact List.Perm.refl _
  | cons s rest ih =>
    unfold replayGo at h
    split at h
    · simp at h; subst h; exact List.Perm.refl _
    · split at h
      · cases h
      · rename_i a cl1 h1
        split at h
        · cases h
        · rename_i b cl2 h2
          have hp1 := (removeKey_some _ _ _ _ h1).1
          have hp2 := (removeKey_some _ _ _ _ h2).1
          refine (ih _ _ h).trans ?_
          have q1 : (members cl).Perm (a ++ members cl1) := by
            simpa [members] using members_perm hp1
          have q2 : (members cl1).Perm (b ++ members cl2) := by
            simpa [members] using members_perm hp2
          have e : members ((ct, a ++ b) :: cl2) = a ++ (b ++ members cl2) := by simp [members]
          rw [e]
          exact (q1.trans (List.Perm.append_left a q2)).symm

/-- number of clusters left by the count criterion -/
theorem replayGo_num_length (c : Nat) (steps : List (Step α)) (cl : Clusters) (ct : Nat) (cl' : Clusters)
    (h : replayGo (Crit.num c : Crit α) steps cl ct = some cl') :
    cl'.length = if cl.length ≤ c then cl.length
      else if cl.length - steps.length ≤ c then c else cl.length - steps.length := by
  induction steps generalizing cl ct with
  | nil =>
    simp [replayGo] at h; subst h
    split
    · rfl
    · simp only [List.length_nil, Nat.sub_zero]
      split <;> omega
  | cons s rest ih =>
    unfold replayGo at h
    split at h
    · rename_i hs
      simp [shouldStop] at hs
      simp at h; subst h
      simp [hs]
    · rename_i hs
      simp [shouldStop] at hs
      split at h
      · cases h
      · rename_i a cl1 h1
        split at h
        · cases h
        · rename_i b cl2 h2
          have hl1 := (removeKey_some _ _ _ _ h1).2.1
          have hl2 := (removeKey_some _ _ _ _ h2).2.1
          rw [ih _ _ h]
          simp only [List.length_cons]
          split_ifs <;> omega

theorem replayGo_defined (crit : Crit α) (steps : List (Step α)) (cl : Clusters) (ct : Nat)
    (h : DendroOK steps (keys cl) ct) : (replayGo crit steps cl ct).isSome := by
  induction steps generalizing cl ct with
  | nil => simp [replayGo]
  | cons s rest ih =>
    cases h with
    | cons _ _ _ _ h1 h2 h3 =>
      unfold replayGo
      split
      · rfl
      · obtain ⟨a, cl1, e1⟩ := removeKey_of_mem s.c1 cl h1
        have k1 := (removeKey_some _ _ _ _ e1).2.2
        obtain ⟨b, cl2, e2⟩ := removeKey_of_mem s.c2 cl1 (by rw [k1]; exact h2)
        have k2 := (removeKey_some _ _ _ _ e2).2.2
        simp only [e1, e2]
        apply ih
        have e : keys ((ct, a ++ b) :: cl2) = ct :: ((keys cl).erase s.c1).erase s.c2 := by
          rw [← k1, ← k2]; rfl
        rw [e]
        exact h3

end

section
variable {α : Type} [LinearOrder α]

/-- with a distance threshold the replay performs exactly the maximal prefix of merges whose
dissimilarity is below the threshold -/
theorem replayGo_dist_prefix (d : α) (steps : List (Step α)) (cl : Clusters) (ct : Nat) :
    replayGo (Crit.dist d) steps cl ct = mergeAll (steps.takeWhile fun s => decide (s.dis < d)) cl ct := by
  induction steps generalizing cl ct with
  | nil => simp [replayGo, mergeAll]
  | cons s rest ih =>
    unfold replayGo
    by_cases hs : d ≤ s.dis
    · have : ¬ s.dis < d := not_lt.mpr hs
      simp [shouldStop, hs, this, List.takeWhile_cons, mergeAll]
    · have hlt : s.dis < d := not_le.mp hs
      simp only [shouldStop, hs, decide_false, Bool.false_eq_true, if_false, List.takeWhile_cons, hlt,
        decide_true, if_true]
      rw [mergeAll]
      cases removeKey s.c1 cl with
      | none => rfl
      | some r =>
        obtain ⟨a, cl1⟩ := r
        simp only []
        cases removeKey s.c2 cl1 with
        | none => rfl
        | some r2 =>
          obtain ⟨b, cl2⟩ := r2
          simp only []
          exact ih _ _

/-- for a dendrogram with non-decreasing dissimilarities the maximal below-threshold prefix is the
set of all below-threshold merges -/
theorem takeWhile_eq_filter_of_sorted (d : α) (steps : List (Step α))
    (hm : steps.Pairwise fun a b => a.dis ≤ b.dis) :
    (steps.takeWhile fun s => decide (s.dis < d)) = steps.filter fun s => decide (s.dis < d) := by
  induction steps with
  | nil => rfl
  | cons s rest ih =>
    rw [List.pairwise_cons] at hm
    by_cases hs : s.dis < d
    · simp [List.takeWhile_cons, List.filter_cons, hs, ih hm.2]
    · have : rest.filter (fun s => decide (s.dis < d)) = [] := by
        rw [List.filter_eq_nil_iff]
        intro b hb
        have := hm.1 b hb
        simp only [decide_eq_true_eq, not_lt]
        exact le_trans (not_lt.mp hs) this
      simp [List.takeWhile_cons, List.filter_cons, hs, this]

end

/-! ### the labelling written by `assign` -/

/-- inner loop `for id in ids { tmp[id] = v }` -/
def paint (t : List Nat) (ids : List Nat) (v : Nat) : List Nat := ids.foldl (fun t id => t.set id v) t

theorem paint_length (t ids : List Nat) (v : Nat) : (paint t ids v).length = t.length := by
  unfold paint
  induction ids generalizing t with
  | nil => rfl
  | cons x xs ih => simp [List.foldl_cons, ih]

theorem paint_get (t ids : List Nat) (v p : Nat) :
    (paint t ids v)[p]? = if p ∈ ids ∧ p < t.length then some v else t[p]? := by
  unfold paint
  induction ids generalizing t with
  | nil => simp
  | cons x xs ih =>
    rw [List.foldl_cons, ih]
    simp only [List.length_set, List.mem_cons]
    by_cases hx : p ∈ xs ∧ p < t.length
    · simp [hx]
    · rw [if_neg hx]
      by_cases hp : p = x
      · subst hp
        by_cases hl : p < t.length
        · simp [hl]
        · simp [hl]
      · have : ¬ x = p := fun h => hp h.symm
        rw [List.getElem?_set_ne this]
        have : ¬ ((p = x ∨ p ∈ xs) ∧ p < t.length) := by
          rintro ⟨h | h, hl⟩
          · exact hp h
          · exact hx ⟨h, hl⟩
        rw [if_neg this]

def assignFrom (k : Nat) (cl : Clusters) (tmp : List Nat) : List Nat :=
  (cl.zipIdx k).foldl (fun tmp e => e.1.2.foldl (fun t id => t.set id e.2) tmp) tmp

theorem assign_eq (n : Nat) (cl : Clusters) : assign n cl = assignFrom 0 cl (List.replicate n 0) := rfl

theorem assignFrom_cons (k : Nat) (e : Nat × List Nat) (cl : Clusters) (tmp : List Nat) :
    assignFrom k (e :: cl) tmp = assignFrom (k + 1) cl (paint tmp e.2 k) := by
  simp [assignFrom, List.zipIdx_cons, paint]

theorem assignFrom_length (k : Nat) (cl : Clusters) (tmp : List Nat) :
    (assignFrom k cl tmp).length = tmp.length := by
  induction cl generalizing k tmp with
  | nil => rfl
  | cons e rest ih => rw [assignFrom_cons, ih, paint_length]

theorem assignFrom_not_mem (k : Nat) (cl : Clusters) (tmp : List Nat) (p : Nat) (h : p ∉ members cl) :
    (assignFrom k cl tmp)[p]? = tmp[p]? := by
  induction cl generalizing k tmp with
  | nil => rfl
  | cons e rest ih =>
    have h1 : p ∉ e.2 := fun hm => h (by simp [members, hm])
    have h2 : p ∉ members rest := fun hm => h (by
      simp only [members, List.map_cons, List.flatten_cons, List.mem_append]; exact Or.inr hm)
    rw [assignFrom_cons, ih _ _ h2, paint_get]
    simp [h1]

theorem assignFrom_mem (k : Nat) (cl : Clusters) (tmp : List Nat) (hn : (members cl).Nodup)
    (j : Nat) (hj : j < cl.length) (p : Nat) (hp : p ∈ cl[j].2) (hl : p < tmp.length) :
    (assignFrom k cl tmp)[p]? = some (k + j) := by
  induction cl generalizing k tmp j with
  | nil => simp at hj
  | cons e rest ih =>
    rw [assignFrom_cons]
    have hnd : (e.2 ++ members rest).Nodup := by simpa [members] using hn
    cases j with
    | zero =>
      have hpe : p ∈ e.2 := by simpa using hp
      have : p ∉ members rest := fun hm => (List.nodup_append.mp hnd).2.2 p hpe p hm rfl
      rw [assignFrom_not_mem _ _ _ _ this, paint_get]
      simp [hpe, hl]
    | succ j' =>
      have hj' : j' < rest.length := by simpa using hj
      have hp' : p ∈ rest[j'].2 := by simpa using hp
      have := ih (k + 1) (paint tmp e.2 k) (List.nodup_append.mp hnd).2.1 j' hj' hp' (by rw [paint_length]; exact hl)
      rw [this]
      congr 1
      omega

end LinfaSpec.Hier
