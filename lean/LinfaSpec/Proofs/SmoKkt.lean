/-
C13: the exit test of the SMO solver implies the eps-KKT conditions at the returned point
(helper lemmas; statements used by Props/C13.lean).
-/
import LinfaSpec.Proofs.Smo

namespace LinfaSpec.Smo

theorem foldl_range_succ {β : Type} (f : β → Nat → β) (b : β) (n : Nat) :
    (List.range (n + 1)).foldl f b = f ((List.range n).foldl f b) n := by
  rw [List.range_succ, List.foldl_append]; rfl

section kkt
variable {α : Type} [Field α] [LinearOrder α] [IsStrictOrderedRing α]

/-- `y_i G_i` -/
def yG (s : St α) (i : Nat) : α := tgt s i * gf s.grad i

theorem yG_pos (s : St α) (i : Nat) (h : gb s.y i = true) : yG s i = gf s.grad i := by
  unfold yG tgt; rw [h]; simp
theorem yG_neg (s : St α) (i : Nat) (h : gb s.y i = false) : yG s i = -gf s.grad i := by
  unfold yG tgt; rw [h]; simp

/-- `i ∈ I_up(α)` as `max_violating_pair` tests it: a positive variable below its bound or a
negative variable above zero -/
def inUp (s : St α) (i : Nat) : Bool := if gb s.y i then !reachedUpper s i else !reachedLower s i
/-- `i ∈ I_low(α)`: a positive variable above zero or a negative variable below its bound -/
def inLow (s : St α) (i : Nat) : Bool := if gb s.y i then !reachedLower s i else !reachedUpper s i

/-! ### `max_violating_pair`: the two maxima dominate `-y_i G_i` on `I_up` and `y_j G_j` on `I_low` -/

/-- one conditional maximum update `if c && g.1 ≤ v then (v, i) else g` -/
def upd (c : Bool) (g : α × Option Nat) (v : α) (i : Nat) : α × Option Nat :=
  if c && decide (g.1 ≤ v) then (v, some i) else g

theorem upd_spec (c : Bool) (g : α × Option Nat) (v : α) (i : Nat) :
    g.1 ≤ (upd c g v i).1 ∧ (c = true → v ≤ (upd c g v i).1) ∧
    ((upd c g v i).2 = none → g.2 = none ∧ (upd c g v i).1 = g.1 ∧ (c = true → ¬ g.1 ≤ v)) := by
  unfold upd
  cases c
  · simp
  · by_cases h : g.1 ≤ v
    · simp [h]
    · simp [h]; exact le_of_lt (not_le.mp h)

def mvpStep (s : St α) (acc : (α × Option Nat) × (α × Option Nat)) (i : Nat) :
    (α × Option Nat) × (α × Option Nat) :=
  if gb s.y i then
    (upd (!reachedUpper s i) acc.1 (-gf s.grad i) i, upd (!reachedLower s i) acc.2 (gf s.grad i) i)
  else
    (upd (!reachedLower s i) acc.1 (gf s.grad i) i, upd (!reachedUpper s i) acc.2 (-gf s.grad i) i)

theorem maxViolatingPair_eq (e : Env α) (s : St α) :
    maxViolatingPair e s =
      (List.range s.nactive).foldl (mvpStep s) ((-e.inf, none), (-e.inf, none)) := rfl

/-- the step written with the label-free values: first component updated with `-y G` under
`inUp`, second with `y G` under `inLow` -/
theorem mvpStep_eq (s : St α) (acc : (α × Option Nat) × (α × Option Nat)) (i : Nat) :
    mvpStep s acc i = (upd (inUp s i) acc.1 (-yG s i) i, upd (inLow s i) acc.2 (yG s i) i) := by
  unfold mvpStep inUp inLow
  cases h : gb s.y i
  · simp only [Bool.false_eq_true, if_false, yG_neg s i h, neg_neg]
  · simp only [if_true, yG_pos s i h]

/-- prefix fold of `max_violating_pair` -/
def mvpAcc (e : Env α) (s : St α) (n : Nat) : (α × Option Nat) × (α × Option Nat) :=
  (List.range n).foldl (mvpStep s) ((-e.inf, none), (-e.inf, none))

theorem mvpAcc_succ (e : Env α) (s : St α) (n : Nat) :
    mvpAcc e s (n + 1) = mvpStep s (mvpAcc e s n) n := foldl_range_succ _ _ n

theorem mvpAcc_ge (e : Env α) (s : St α) (n : Nat) :
    (∀ k, k < n → inUp s k = true → -yG s k ≤ (mvpAcc e s n).1.1) ∧
    (∀ k, k < n → inLow s k = true → yG s k ≤ (mvpAcc e s n).2.1) := by
  induction n with
  | zero => exact ⟨fun k hk => absurd hk (Nat.not_lt_zero k), fun k hk => absurd hk (Nat.not_lt_zero k)⟩
  | succ n ih =>
    rw [mvpAcc_succ, mvpStep_eq]
    obtain ⟨a1, a2, _⟩ := upd_spec (inUp s n) (mvpAcc e s n).1 (-yG s n) n
    obtain ⟨b1, b2, _⟩ := upd_spec (inLow s n) (mvpAcc e s n).2 (yG s n) n
    refine ⟨?_, ?_⟩
    · intro k hk hin
      rcases Nat.lt_succ_iff_lt_or_eq.mp hk with h | h
      · exact le_trans (ih.1 k h hin) a1
      · subst h; exact a2 hin
    · intro k hk hin
      rcases Nat.lt_succ_iff_lt_or_eq.mp hk with h | h
      · exact le_trans (ih.2 k h hin) b1
      · subst h; exact b2 hin

/-- with `-inf` below every gradient value: no index recorded means `I_up` is empty -/
theorem mvpAcc_none (e : Env α) (s : St α) (n : Nat)
    (hdom : ∀ k, k < n → -e.inf ≤ -yG s k) :
    (mvpAcc e s n).1.2 = none →
      (mvpAcc e s n).1.1 = -e.inf ∧ ∀ k, k < n → inUp s k = false := by
  induction n with
  | zero => intro _; exact ⟨rfl, fun k hk => absurd hk (Nat.not_lt_zero k)⟩
  | succ n ih =>
    rw [mvpAcc_succ, mvpStep_eq]
    intro hnone
    obtain ⟨_, _, a3⟩ := upd_spec (inUp s n) (mvpAcc e s n).1 (-yG s n) n
    obtain ⟨h1, h2, h3⟩ := a3 hnone
    obtain ⟨i1, i2⟩ := ih (fun k hk => hdom k (Nat.lt_succ_of_lt hk)) h1
    refine ⟨by rw [h2, i1], ?_⟩
    intro k hk
    rcases Nat.lt_succ_iff_lt_or_eq.mp hk with h | h
    · exact i2 k h
    · subst h
      cases hc : inUp s k
      · rfl
      · exact absurd (i1 ▸ hdom k (Nat.lt_succ_self k)) (h3 hc)

/-! ### `calculate_rho`: what the scan accumulates -/

theorem minS_le_left (a b : α) : minS a b ≤ a := by unfold minS; split_ifs with h <;> [exact le_of_lt h; exact le_refl a]
theorem minS_le_right (a b : α) : minS a b ≤ b := by unfold minS; split_ifs with h <;> [exact le_refl b; exact not_lt.mp h]
theorem le_minS (c a b : α) (h1 : c ≤ a) (h2 : c ≤ b) : c ≤ minS a b := by unfold minS; split_ifs <;> assumption
theorem left_le_maxS (a b : α) : a ≤ maxS a b := by unfold maxS; split_ifs with h <;> [exact le_of_lt h; exact le_refl a]
theorem right_le_maxS (a b : α) : b ≤ maxS a b := by unfold maxS; split_ifs with h <;> [exact le_refl b; exact not_lt.mp h]
theorem maxS_le (c a b : α) (h1 : a ≤ c) (h2 : b ≤ c) : maxS a b ≤ c := by unfold maxS; split_ifs <;> assumption

def rhoStep (s : St α) (acc : Nat × α × α × α) (i : Nat) : Nat × α × α × α :=
  if reachedUpper s i then
    if gb s.y i then (acc.1, acc.2.1, acc.2.2.1, maxS acc.2.2.2 (yG s i))
    else (acc.1, acc.2.1, minS acc.2.2.1 (yG s i), acc.2.2.2)
  else if reachedLower s i then
    if gb s.y i then (acc.1, acc.2.1, minS acc.2.2.1 (yG s i), acc.2.2.2)
    else (acc.1, acc.2.1, acc.2.2.1, maxS acc.2.2.2 (yG s i))
  else (acc.1 + 1, acc.2.1 + yG s i, acc.2.2.1, acc.2.2.2)

def rhoAcc (e : Env α) (s : St α) (n : Nat) : Nat × α × α × α :=
  (List.range n).foldl (rhoStep s) (0, 0, e.inf, -e.inf)

theorem rhoAcc_succ (e : Env α) (s : St α) (n : Nat) :
    rhoAcc e s (n + 1) = rhoStep s (rhoAcc e s n) n := foldl_range_succ _ _ n

theorem calculateRhoC_eq (e : Env α) (s : St α) :
    calculateRhoC e s =
      if 0 < (rhoAcc e s s.nactive).1 then
        (rhoAcc e s s.nactive).2.1 / (((rhoAcc e s s.nactive).1 : Nat) : α)
      else ((rhoAcc e s s.nactive).2.2.1 + (rhoAcc e s s.nactive).2.2.2) / (1 + 1) := rfl

/-- neither at the upper nor at the lower bound -/
def isFree (s : St α) (k : Nat) : Prop := reachedUpper s k = false ∧ reachedLower s k = false
/-- contributes to `ub`: a negative variable at its upper bound or a positive one at zero -/
def inU (s : St α) (k : Nat) : Prop :=
  (reachedUpper s k = true ∧ gb s.y k = false) ∨
  (reachedUpper s k = false ∧ reachedLower s k = true ∧ gb s.y k = true)
/-- contributes to `lb` -/
def inL (s : St α) (k : Nat) : Prop :=
  (reachedUpper s k = true ∧ gb s.y k = true) ∨
  (reachedUpper s k = false ∧ reachedLower s k = true ∧ gb s.y k = false)

/-- what a `(nfree, sum_free, ub, lb)` scan over positions `< n` has accumulated: `val` is the scanned
value, `U` / `L` / `F` the positions feeding `ub` / `lb` / the free sum -/
structure RhoInvG (inf : α) (val : Nat → α) (U L F : Nat → Prop) (n : Nat) (r : Nat × α × α × α) : Prop where
  ubLe : ∀ k, k < n → U k → r.2.2.1 ≤ val k
  lbGe : ∀ k, k < n → L k → val k ≤ r.2.2.2
  ubGe : ∀ c, c ≤ inf → (∀ k, k < n → U k → c ≤ val k) → c ≤ r.2.2.1
  lbLe : ∀ c, -inf ≤ c → (∀ k, k < n → L k → val k ≤ c) → r.2.2.2 ≤ c
  sumLe : ∀ c, (∀ k, k < n → F k → val k ≤ c) → r.2.1 ≤ ((r.1 : Nat) : α) * c
  sumGe : ∀ c, (∀ k, k < n → F k → c ≤ val k) → ((r.1 : Nat) : α) * c ≤ r.2.1
  noFree : r.1 = 0 → ∀ k, k < n → ¬ F k

theorem lt_succ_cases {n k : Nat} (hk : k < n + 1) : k < n ∨ k = n := Nat.lt_succ_iff_lt_or_eq.mp hk

theorem rhoInv_addU (inf : α) (val : Nat → α) (U L F : Nat → Prop) (n : Nat) (r : Nat × α × α × α) (h : RhoInvG inf val U L F n r)
    (hU : U n) (hnL : ¬ L n) (hnF : ¬ F n) :
    RhoInvG inf val U L F (n + 1) (r.1, r.2.1, minS r.2.2.1 (val n), r.2.2.2) where
  ubLe := by
    intro k hk hu
    rcases lt_succ_cases hk with hlt | heq
    · exact le_trans (minS_le_left _ _) (h.ubLe k hlt hu)
    · subst heq; exact minS_le_right _ _
  lbGe := by
    intro k hk hl
    rcases lt_succ_cases hk with hlt | heq
    · exact h.lbGe k hlt hl
    · subst heq; exact absurd hl hnL
  ubGe := by
    intro c hc hall
    exact le_minS _ _ _ (h.ubGe c hc (fun k hk => hall k (Nat.lt_succ_of_lt hk)))
      (hall n (Nat.lt_succ_self n) hU)
  lbLe := by
    intro c hc hall
    exact h.lbLe c hc (fun k hk => hall k (Nat.lt_succ_of_lt hk))
  sumLe := by
    intro c hall
    exact h.sumLe c (fun k hk => hall k (Nat.lt_succ_of_lt hk))
  sumGe := by
    intro c hall
    exact h.sumGe c (fun k hk => hall k (Nat.lt_succ_of_lt hk))
  noFree := by
    intro h0 k hk
    rcases lt_succ_cases hk with hlt | heq
    · exact h.noFree h0 k hlt
    · subst heq; exact hnF

theorem rhoInv_addL (inf : α) (val : Nat → α) (U L F : Nat → Prop) (n : Nat) (r : Nat × α × α × α) (h : RhoInvG inf val U L F n r)
    (hL : L n) (hnU : ¬ U n) (hnF : ¬ F n) :
    RhoInvG inf val U L F (n + 1) (r.1, r.2.1, r.2.2.1, maxS r.2.2.2 (val n)) where
  ubLe := by
    intro k hk hu
    rcases lt_succ_cases hk with hlt | heq
    · exact h.ubLe k hlt hu
    · subst heq; exact absurd hu hnU
  lbGe := by
    intro k hk hl
    rcases lt_succ_cases hk with hlt | heq
    · exact le_trans (h.lbGe k hlt hl) (left_le_maxS _ _)
    · subst heq; exact right_le_maxS _ _
  ubGe := by
    intro c hc hall
    exact h.ubGe c hc (fun k hk => hall k (Nat.lt_succ_of_lt hk))
  lbLe := by
    intro c hc hall
    exact maxS_le _ _ _ (h.lbLe c hc (fun k hk => hall k (Nat.lt_succ_of_lt hk)))
      (hall n (Nat.lt_succ_self n) hL)
  sumLe := by
    intro c hall
    exact h.sumLe c (fun k hk => hall k (Nat.lt_succ_of_lt hk))
  sumGe := by
    intro c hall
    exact h.sumGe c (fun k hk => hall k (Nat.lt_succ_of_lt hk))
  noFree := by
    intro h0 k hk
    rcases lt_succ_cases hk with hlt | heq
    · exact h.noFree h0 k hlt
    · subst heq; exact hnF

theorem rhoInv_addFree (inf : α) (val : Nat → α) (U L F : Nat → Prop) (n : Nat) (r : Nat × α × α × α) (h : RhoInvG inf val U L F n r)
    (hF : F n) (hnU : ¬ U n) (hnL : ¬ L n) :
    RhoInvG inf val U L F (n + 1) (r.1 + 1, r.2.1 + val n, r.2.2.1, r.2.2.2) where
  ubLe := by
    intro k hk hu
    rcases lt_succ_cases hk with hlt | heq
    · exact h.ubLe k hlt hu
    · subst heq; exact absurd hu hnU
  lbGe := by
    intro k hk hl
    rcases lt_succ_cases hk with hlt | heq
    · exact h.lbGe k hlt hl
    · subst heq; exact absurd hl hnL
  ubGe := by
    intro c hc hall
    exact h.ubGe c hc (fun k hk => hall k (Nat.lt_succ_of_lt hk))
  lbLe := by
    intro c hc hall
    exact h.lbLe c hc (fun k hk => hall k (Nat.lt_succ_of_lt hk))
  sumLe := by
    intro c hall
    have h1 := h.sumLe c (fun k hk => hall k (Nat.lt_succ_of_lt hk))
    have h2 := hall n (Nat.lt_succ_self n) hF
    show r.2.1 + val n ≤ ((r.1 + 1 : Nat) : α) * c
    push_cast
    linarith
  sumGe := by
    intro c hall
    have h1 := h.sumGe c (fun k hk => hall k (Nat.lt_succ_of_lt hk))
    have h2 := hall n (Nat.lt_succ_self n) hF
    show ((r.1 + 1 : Nat) : α) * c ≤ r.2.1 + val n
    push_cast
    linarith
  noFree := by
    intro h0 k _
    exact absurd h0 (Nat.succ_ne_zero r.1)

theorem rhoInv_skip (inf : α) (val : Nat → α) (U L F : Nat → Prop) (n : Nat) (r : Nat × α × α × α)
    (h : RhoInvG inf val U L F n r) (hnU : ¬ U n) (hnL : ¬ L n) (hnF : ¬ F n) :
    RhoInvG inf val U L F (n + 1) r where
  ubLe := by
    intro k hk hu
    rcases lt_succ_cases hk with hlt | heq
    · exact h.ubLe k hlt hu
    · subst heq; exact absurd hu hnU
  lbGe := by
    intro k hk hl
    rcases lt_succ_cases hk with hlt | heq
    · exact h.lbGe k hlt hl
    · subst heq; exact absurd hl hnL
  ubGe := fun c hc hall => h.ubGe c hc (fun k hk => hall k (Nat.lt_succ_of_lt hk))
  lbLe := fun c hc hall => h.lbLe c hc (fun k hk => hall k (Nat.lt_succ_of_lt hk))
  sumLe := fun c hall => h.sumLe c (fun k hk => hall k (Nat.lt_succ_of_lt hk))
  sumGe := fun c hall => h.sumGe c (fun k hk => hall k (Nat.lt_succ_of_lt hk))
  noFree := by
    intro h0 k hk
    rcases lt_succ_cases hk with hlt | heq
    · exact h.noFree h0 k hlt
    · subst heq; exact hnF

theorem rhoInv_zero (inf : α) (val : Nat → α) (U L F : Nat → Prop) :
    RhoInvG inf val U L F 0 (0, 0, inf, -inf) := by
  refine ⟨fun k hk => absurd hk (Nat.not_lt_zero k), fun k hk => absurd hk (Nat.not_lt_zero k),
    fun c hc _ => hc, fun c hc _ => hc, fun c _ => ?_, fun c _ => ?_,
    fun _ k hk => absurd hk (Nat.not_lt_zero k)⟩
  · show (0 : α) ≤ ((0 : Nat) : α) * c
    simp
  · show ((0 : Nat) : α) * c ≤ (0 : α)
    simp

/-- the instance for `calculate_rho` -/
abbrev RhoInv (e : Env α) (s : St α) (n : Nat) (r : Nat × α × α × α) : Prop :=
  RhoInvG e.inf (yG s) (inU s) (inL s) (isFree s) n r

theorem rhoAcc_inv (e : Env α) (s : St α) (n : Nat) : RhoInv e s n (rhoAcc e s n) := by
  induction n with
  | zero => exact rhoInv_zero _ _ _ _ _
  | succ n ih =>
    rw [rhoAcc_succ]
    unfold rhoStep
    cases hu : reachedUpper s n <;> cases hl : reachedLower s n <;> cases hy : gb s.y n <;>
      simp only [Bool.false_eq_true, if_false, if_true]
    · exact rhoInv_addFree _ _ _ _ _ n _ ih ⟨hu, hl⟩ (by simp [inU, hu, hl]) (by simp [inL, hu, hl])
    · exact rhoInv_addFree _ _ _ _ _ n _ ih ⟨hu, hl⟩ (by simp [inU, hu, hl]) (by simp [inL, hu, hl])
    · exact rhoInv_addL _ _ _ _ _ n _ ih (by simp [inL, hu, hl, hy]) (by simp [inU, hu, hl, hy]) (by simp [isFree, hu, hl])
    · exact rhoInv_addU _ _ _ _ _ n _ ih (by simp [inU, hu, hl, hy]) (by simp [inL, hu, hl, hy]) (by simp [isFree, hu, hl])
    · exact rhoInv_addU _ _ _ _ _ n _ ih (by simp [inU, hu, hy]) (by simp [inL, hu, hy]) (by simp [isFree, hu])
    · exact rhoInv_addL _ _ _ _ _ n _ ih (by simp [inL, hu, hy]) (by simp [inU, hu, hy]) (by simp [isFree, hu])
    · exact rhoInv_addU _ _ _ _ _ n _ ih (by simp [inU, hu, hy]) (by simp [inL, hu, hy]) (by simp [isFree, hu])
    · exact rhoInv_addL _ _ _ _ _ n _ ih (by simp [inL, hu, hy]) (by simp [inU, hu, hy]) (by simp [isFree, hu])


theorem dom_yG (e : Env α) (s : St α) (k : Nat)
    (h : -e.inf ≤ gf s.grad k ∧ gf s.grad k ≤ e.inf) : -e.inf ≤ yG s k ∧ yG s k ≤ e.inf := by
  cases hy : gb s.y k
  · rw [yG_neg s k hy]; constructor <;> linarith [h.1, h.2]
  · rw [yG_pos s k hy]; exact h

/-! ### from the pairwise gap to the eps-KKT conditions with the rho of `calculate_rho` -/

/-- the clause set of the oracle clause `kkt` (and `kkt_margin` of C-classification fits, where
`p = -1`): with `v_i = -y_i G_i + rho`, every `i ∈ I_up` has `v_i ≤ eps` and every `i ∈ I_low` has
`v_i ≥ -eps` (so a free variable has `|v_i| ≤ eps`) -/
def KktEps (s : St α) (rho eps : α) : Prop :=
  ∀ i, i < s.nactive →
    (inUp s i = true → -(tgt s i * gf s.grad i) + rho ≤ eps) ∧
    (inLow s i = true → -eps ≤ -(tgt s i * gf s.grad i) + rho)

theorem inUp_cases (s : St α) (i : Nat) (hul : reachedUpper s i = true → reachedLower s i = false)
    (h : inUp s i = true) : isFree s i ∨ inU s i := by
  unfold inUp at h
  unfold isFree inU
  cases hu : reachedUpper s i <;> cases hl : reachedLower s i <;> cases hy : gb s.y i <;> simp_all

theorem inLow_cases (s : St α) (i : Nat) (hul : reachedUpper s i = true → reachedLower s i = false)
    (h : inLow s i = true) : isFree s i ∨ inL s i := by
  unfold inLow at h
  unfold isFree inL
  cases hu : reachedUpper s i <;> cases hl : reachedLower s i <;> cases hy : gb s.y i <;> simp_all

theorem free_inUp (s : St α) (i : Nat) (h : isFree s i) : inUp s i = true ∧ inLow s i = true := by
  unfold inUp inLow; obtain ⟨a, b⟩ := h; cases gb s.y i <;> simp [a, b]

theorem inU_inUp (s : St α) (i : Nat) (hul : reachedUpper s i = true → reachedLower s i = false)
    (h : inU s i) : inUp s i = true := by
  unfold inUp; unfold inU at h
  rcases h with ⟨a, b⟩ | ⟨a, b, c⟩
  · simp [b, hul a]
  · simp [c, a]

theorem inL_inLow (s : St α) (i : Nat) (hul : reachedUpper s i = true → reachedLower s i = false)
    (h : inL s i) : inLow s i = true := by
  unfold inLow; unfold inL at h
  rcases h with ⟨a, b⟩ | ⟨a, b, c⟩
  · simp [b, hul a]
  · simp [c, a]

theorem gap_implies_kkt (e : Env α) (s : St α) (heps : 0 ≤ e.eps)
    (hul : ∀ k, k < s.nactive → reachedUpper s k = true → reachedLower s k = false)
    (hdom : ∀ k, k < s.nactive → -e.inf ≤ yG s k ∧ yG s k ≤ e.inf)
    (hgap : ∀ i j, i < s.nactive → j < s.nactive → inUp s i = true → inLow s j = true →
      -yG s i + yG s j ≤ e.eps) :
    KktEps s (calculateRhoC e s) e.eps := by
  have inv := rhoAcc_inv e s s.nactive
  rw [calculateRhoC_eq]
  generalize rhoAcc e s s.nactive = r at inv
  intro i hi
  show (inUp s i = true → -yG s i + _ ≤ e.eps) ∧ (inLow s i = true → -e.eps ≤ -yG s i + _)
  have h2 : (0 : α) < 1 + 1 := by linarith [zero_lt_one (α := α)]
  by_cases hn : 0 < r.1
  · simp only [hn, if_true]
    have hnf : (0 : α) < ((r.1 : Nat) : α) := Nat.cast_pos.mpr hn
    constructor
    · intro hin
      have h := inv.sumLe (e.eps + yG s i) (fun k hk hF => by
        have := hgap i k hi hk hin (free_inUp s k hF).2
        linarith)
      have : r.2.1 / ((r.1 : Nat) : α) ≤ e.eps + yG s i :=
        (div_le_iff₀ hnf).mpr (by rw [mul_comm]; exact h)
      linarith
    · intro hin
      have h := inv.sumGe (yG s i - e.eps) (fun k hk hF => by
        have := hgap k i hk hi (free_inUp s k hF).1 hin
        linarith)
      have : yG s i - e.eps ≤ r.2.1 / ((r.1 : Nat) : α) :=
        (le_div_iff₀ hnf).mpr (by rw [mul_comm]; exact h)
      linarith
  · simp only [hn, if_false]
    have h0 : r.1 = 0 := Nat.eq_zero_of_not_pos hn
    have hnofree := inv.noFree h0
    constructor
    · intro hin
      have hU : inU s i := by
        rcases inUp_cases s i (hul i hi) hin with hF | hU
        · exact absurd hF (hnofree i hi)
        · exact hU
      have h1 := inv.ubLe i hi hU
      have h3 := inv.lbLe (e.eps + yG s i) (by linarith [(hdom i hi).1]) (fun k hk hL => by
        have := hgap i k hi hk hin (inL_inLow s k (hul k hk) hL)
        linarith)
      have : (r.2.2.1 + r.2.2.2) / (1 + 1) ≤ yG s i + e.eps :=
        (div_le_iff₀ h2).mpr (by linarith)
      linarith
    · intro hin
      have hL : inL s i := by
        rcases inLow_cases s i (hul i hi) hin with hF | hL
        · exact absurd hF (hnofree i hi)
        · exact hL
      have h1 := inv.lbGe i hi hL
      have h3 := inv.ubGe (yG s i - e.eps) (by linarith [(hdom i hi).2]) (fun k hk hU => by
        have := hgap k i hk hi (inU_inUp s k (hul k hk) hU) hin
        linarith)
      have : yG s i - e.eps ≤ (r.2.2.1 + r.2.2.2) / (1 + 1) :=
        (le_div_iff₀ h2).mpr (by linarith)
      linarith

/-- the code's stopping test `gmax + gmax2 < eps` bounds every pair -/
theorem exit_test_gap (e : Env α) (s : St α)
    (hstop : (maxViolatingPair e s).1.1 + (maxViolatingPair e s).2.1 < e.eps) :
    ∀ i j, i < s.nactive → j < s.nactive → inUp s i = true → inLow s j = true →
      -yG s i + yG s j ≤ e.eps := by
  intro i j hi hj hiu hjl
  obtain ⟨h1, h2⟩ := mvpAcc_ge e s s.nactive
  have a := h1 i hi hiu
  have b := h2 j hj hjl
  rw [maxViolatingPair_eq] at hstop
  unfold mvpAcc at a b
  linarith


/-! ### the optimality flag of `select_working_set` bounds every pair -/

/-- the candidate test of the second-order scan for one `j` -/
def cand (e : Env α) (gd q : α) (m : α × Option Nat) (j : Nat) : α × Option Nat :=
  if 0 < gd then
    if (if 0 < q then (-(gd * gd)) / q else (-(gd * gd)) / e.tiny) ≤ m.1 then
      ((if 0 < q then (-(gd * gd)) / q else (-(gd * gd)) / e.tiny), some j)
    else m
  else m

theorem cand_spec (e : Env α) (gd q : α) (m : α × Option Nat) (j : Nat)
    (htiny : 0 < e.tiny) (hinf : 0 ≤ e.inf) (h : (cand e gd q m j).2 = none) :
    cand e gd q m j = m ∧ (m.1 = e.inf → ¬ 0 < gd) := by
  unfold cand at h ⊢
  by_cases h1 : 0 < gd
  · simp only [h1, if_true] at h ⊢
    by_cases h2 : (if 0 < q then (-(gd * gd)) / q else (-(gd * gd)) / e.tiny) ≤ m.1
    · simp [h2] at h
    · refine ⟨by simp [h2], ?_⟩
      intro hm
      exfalso
      apply h2
      rw [hm]
      have hsq : -(gd * gd) ≤ 0 := by nlinarith [mul_self_nonneg gd]
      split_ifs with hq
      · exact le_trans (div_nonpos_of_nonpos_of_nonneg hsq (le_of_lt hq)) hinf
      · exact le_trans (div_nonpos_of_nonpos_of_nonneg hsq (le_of_lt htiny)) hinf
  · simp [h1]

def objStep (e : Env α) (s : St α) (gm : α) (i : Nat) (m : α × Option Nat) (j : Nat) : α × Option Nat :=
  if gb s.y j then
    if !reachedLower s j then
      cand e (gm + gf s.grad j)
        (selfDist e s i + selfDist e s j - (1 + 1) * tgt s i * gf (dist e s i (ntotal s)) j) m j
    else m
  else if !reachedUpper s j then
    cand e (gm - gf s.grad j)
      (selfDist e s i + selfDist e s j + (1 + 1) * tgt s i * gf (dist e s i (ntotal s)) j) m j
  else m

def objAcc (e : Env α) (s : St α) (gm : α) (i : Nat) (n : Nat) : α × Option Nat :=
  (List.range n).foldl (objStep e s gm i) (e.inf, none)

theorem selectObjMin_eq (e : Env α) (s : St α) (gm : α) (i : Nat) :
    selectObjMin e s gm i = objAcc e s gm i s.nactive := rfl

theorem objAcc_succ (e : Env α) (s : St α) (gm : α) (i n : Nat) :
    objAcc e s gm i (n + 1) = objStep e s gm i (objAcc e s gm i n) n := foldl_range_succ _ _ n

theorem objAcc_none (e : Env α) (s : St α) (gm : α) (i n : Nat) (htiny : 0 < e.tiny) (hinf : 0 ≤ e.inf) :
    (objAcc e s gm i n).2 = none →
      (objAcc e s gm i n).1 = e.inf ∧ ∀ j, j < n → inLow s j = true → gm + yG s j ≤ 0 := by
  induction n with
  | zero => intro _; exact ⟨rfl, fun j hj => absurd hj (Nat.not_lt_zero j)⟩
  | succ n ih =>
    rw [objAcc_succ]
    generalize objAcc e s gm i n = m at ih
    intro hnone
    unfold objStep at hnone ⊢
    have key : ∀ gd q, (cand e gd q m n).2 = none →
        (∀ j, j < n + 1 → j = n → inLow s j = true → gd = gm + yG s j) →
        (cand e gd q m n).1 = e.inf ∧ ∀ j, j < n + 1 → inLow s j = true → gm + yG s j ≤ 0 := by
      intro gd q hc hgd
      obtain ⟨c1, c2⟩ := cand_spec e gd q m n htiny hinf hc
      rw [c1] at hc ⊢
      obtain ⟨i1, i2⟩ := ih hc
      refine ⟨i1, ?_⟩
      intro j hj hin
      rcases lt_succ_cases hj with hlt | heq
      · exact i2 j hlt hin
      · have := c2 i1
        rw [hgd j hj heq hin] at this
        exact not_lt.mp this
    have keep : m.2 = none → (∀ j, j = n → inLow s j = false) →
        m.1 = e.inf ∧ ∀ j, j < n + 1 → inLow s j = true → gm + yG s j ≤ 0 := by
      intro hm hout
      obtain ⟨i1, i2⟩ := ih hm
      refine ⟨i1, ?_⟩
      intro j hj hin
      rcases lt_succ_cases hj with hlt | heq
      · exact i2 j hlt hin
      · rw [hout j heq] at hin; exact absurd hin (by simp)
    cases hy : gb s.y n
    · simp only [hy, Bool.false_eq_true, if_false] at hnone ⊢
      cases hu : reachedUpper s n
      · simp only [hu, Bool.not_false, if_true] at hnone ⊢
        exact key _ _ hnone (fun j _ hj _ => by subst hj; rw [yG_neg s j hy]; ring)
      · simp only [hu, Bool.not_true, Bool.false_eq_true, if_false] at hnone ⊢
        exact keep hnone (fun j hj => by subst hj; simp [inLow, hy, hu])
    · simp only [hy, if_true] at hnone ⊢
      cases hl : reachedLower s n
      · simp only [hl, Bool.not_false, if_true] at hnone ⊢
        exact key _ _ hnone (fun j _ hj _ => by subst hj; rw [yG_pos s j hy])
      · simp only [hl, Bool.not_true, Bool.false_eq_true, if_false] at hnone ⊢
        exact keep hnone (fun j hj => by subst hj; simp [inLow, hy, hl])

/-- **the optimality flag of `select_working_set` (plain form) bounds every pair**: whichever of
its three reasons made it answer `is_optimal` (no candidate in `I_up`, no partner with a positive
gradient difference, or `gmax + gmax2 < eps`) -/
theorem optimal_flag_gap (e : Env α) (s : St α) (heps : 0 ≤ e.eps) (htiny : 0 < e.tiny)
    (hinf : 0 ≤ e.inf) (hdom : ∀ k, k < s.nactive → -e.inf ≤ yG s k ∧ yG s k ≤ e.inf)
    (hopt : (selectWorkingSetC e s).2.2 = true) :
    ∀ i j, i < s.nactive → j < s.nactive → inUp s i = true → inLow s j = true →
      -yG s i + yG s j ≤ e.eps := by
  intro i j hi hj hiu hjl
  unfold selectWorkingSetC at hopt
  dsimp only at hopt
  obtain ⟨hge1, _⟩ := mvpAcc_ge e s s.nactive
  have hnone := mvpAcc_none e s s.nactive (fun k hk => by linarith [(hdom k hk).2])
  have hmv : maxViolatingPair e s = mvpAcc e s s.nactive := maxViolatingPair_eq e s
  cases hg : (maxViolatingPair e s).1.2 with
  | none =>
    rw [hmv] at hg
    have := (hnone hg).2 i hi
    rw [this] at hiu
    exact absurd hiu (by simp)
  | some i0 =>
    rw [hg] at hopt
    dsimp only at hopt
    have hi_le : -yG s i ≤ (maxViolatingPair e s).1.1 := by rw [hmv]; exact hge1 i hi hiu
    cases ho : (selectObjMin e s (maxViolatingPair e s).1.1 i0).2 with
    | none =>
      rw [selectObjMin_eq] at ho
      have := (objAcc_none e s _ i0 s.nactive htiny hinf ho).2 j hj hjl
      linarith
    | some j0 =>
      rw [ho] at hopt
      dsimp only at hopt
      by_cases hstop : (maxViolatingPair e s).1.1 + (maxViolatingPair e s).2.1 < e.eps
      · exact exit_test_gap e s hstop i j hi hj hiu hjl
      · simp [hstop] at hopt

/-! ### bounds stay positive along the main loop (so that "at the upper bound" excludes "at zero") -/

theorem upper_not_lower (s : St α) (k : Nat) (hpos : 0 < gf s.ub k) :
    reachedUpper s k = true → reachedLower s k = false := by
  unfold reachedUpper reachedLower
  intro h
  have h1 : gf s.ub k ≤ gf s.alpha k := by simpa using h
  have h2 : 0 < gf s.alpha k := lt_of_lt_of_le hpos h1
  simp [h2]

/-- both copies of the bound are positive (the guard `C > 0` of `SvmParams::check`), sizes agree -/
def UbPos (n : Nat) (s : St α) : Prop :=
  s.ub.length = n ∧ s.bounds.length = n ∧ s.nactive ≤ n ∧
  ∀ k, k < n → 0 < gf s.ub k ∧ 0 < gf s.bounds k

theorem ubpos_congr (n : Nat) (s t : St α) (h1 : t.ub = s.ub) (h2 : t.bounds = s.bounds)
    (hn : t.nactive ≤ n) (h : UbPos n s) : UbPos n t := by
  obtain ⟨a, b, _, d⟩ := h
  exact ⟨by rw [h1]; exact a, by rw [h2]; exact b, hn, by rw [h1, h2]; exact d⟩

theorem reconstructGradient_ub (e : Env α) (s : St α) : (reconstructGradient e s).ub = s.ub := by
  unfold reconstructGradient
  dsimp only
  split_ifs <;> rfl

theorem swap_ubpos (n : Nat) (s : St α) (i j : Nat) (hi : i < n) (hj : j < n) (h : UbPos n s) :
    UbPos n (swap s i j) := by
  obtain ⟨a, b, c, d⟩ := h
  refine ⟨by simp only [swap, swapL_length]; exact a, by simp only [swap, swapL_length]; exact b, c, ?_⟩
  intro k hk
  simp only [swap]
  rw [gf_swapL _ i j k (a ▸ hi) (a ▸ hj), gf_swapL _ i j k (b ▸ hi) (b ▸ hj)]
  exact d _ (swapIdx_lt i j k n hi hj hk)

theorem shrinkInner_ubpos (n : Nat) (sh : St α → Nat → Bool) (i fuel : Nat) (s : St α)
    (hlt : s.nactive < n) (h : UbPos n s) : UbPos n (shrinkInner sh i fuel s) := by
  induction fuel generalizing s with
  | zero => exact h
  | succ fuel ih =>
    unfold shrinkInner
    split_ifs with h1 h2
    · exact swap_ubpos n s i s.nactive (by omega) hlt h
    · apply ih
      · show s.nactive - 1 < n; omega
      · exact ubpos_congr n s _ rfl rfl (by show s.nactive - 1 ≤ n; omega) h
    · exact h

theorem shrinkOuter_ubpos (n : Nat) (sh : St α → Nat → Bool) (fuel i : Nat) (s : St α)
    (h : UbPos n s) : UbPos n (shrinkOuter sh fuel i s) := by
  induction fuel generalizing s i with
  | zero => exact h
  | succ fuel ih =>
    unfold shrinkOuter
    by_cases h1 : i < s.nactive
    · simp only [h1, if_true]
      apply ih
      split_ifs with h2
      · have hn := h.2.2.1
        apply shrinkInner_ubpos
        · show s.nactive - 1 < n; omega
        · exact ubpos_congr n s _ rfl rfl (by show s.nactive - 1 ≤ n; omega) h
      · exact h
    · simp only [h1, if_false]; exact h

theorem doShrinking_ubpos (n : Nat) (e : Env α) (s : St α) (hlen : s.alpha.length = n) (h : UbPos n s) :
    UbPos n (doShrinking e s) := by
  have hrec : UbPos n { reconstructGradient e { s with unshrink := true } with
                 nactive := ntotal (reconstructGradient e { s with unshrink := true }) } := by
    refine ubpos_congr n s _ (reconstructGradient_ub e _) (reconstructGradient_core e _).2.2.1 ?_ h
    show ntotal _ ≤ n
    unfold ntotal
    rw [(reconstructGradient_core e _).1]
    exact le_of_eq hlen
  unfold doShrinking
  split_ifs
  · unfold doShrinkingNu
    dsimp only
    apply shrinkOuter_ubpos
    split_ifs
    · exact hrec
    · exact h
  · unfold doShrinkingC
    dsimp only
    apply shrinkOuter_ubpos
    split_ifs
    · exact hrec
    · exact h

theorem update_ubpos (n : Nat) (e : Env α) (s : St α) (i j : Nat) (h : UbPos n s) :
    UbPos n (update e s i j) := by
  obtain ⟨a, b, c, d⟩ := h
  refine ⟨by rw [update_ub]; simp only [List.length_set]; exact a, by rw [update_bounds]; exact b,
    by rw [update_nactive]; exact c, ?_⟩
  intro k hk
  rw [update_ub, update_bounds, gf_set, gf_set]
  refine ⟨?_, (d k hk).2⟩
  split_ifs with h1 h2
  · rw [h1.1]; exact (d k hk).2
  · rw [h2.1]; exact (d k hk).2
  · exact (d k hk).1

/-- what the main loop guarantees when it ends by `break`: feasibility (`Feas`), positive bounds,
all variables active and the optimality flag of `select_working_set` on the returned state -/
theorem solveLoop_exit (n : Nat) (c : α) (e : Env α) (shrinking : Bool) (fuel : Nat) (s : St α)
    (iter counter : Nat) (h : Feas n c s) (hp : UbPos n s) :
    UbPos n (solveLoop e shrinking fuel s iter counter).1 ∧
    ((solveLoop e shrinking fuel s iter counter).2.2 = true →
      (selectWorkingSet e (solveLoop e shrinking fuel s iter counter).1).2.2 = true ∧
      (solveLoop e shrinking fuel s iter counter).1.nactive =
        (solveLoop e shrinking fuel s iter counter).1.alpha.length) := by
  induction fuel generalizing s iter counter with
  | zero => exact ⟨hp, fun hf => by simp [solveLoop] at hf⟩
  | succ fuel ih =>
    unfold solveLoop
    dsimp only
    have h1 : Feas n c (if (counter - 1 == 0 && shrinking) = true then doShrinking e s else s) := by
      split_ifs
      · exact doShrinking_feas n c e s h
      · exact h
    have hp1 : UbPos n (if (counter - 1 == 0 && shrinking) = true then doShrinking e s else s) := by
      split_ifs
      · exact doShrinking_ubpos n e s h.2.2.1 hp
      · exact hp
    generalize (if (counter - 1 == 0 && shrinking) = true then doShrinking e s else s) = s1 at h1 hp1 ⊢
    generalize (if (counter - 1 == 0) = true then min (ntotal s) 1000 else counter - 1) = c1
    have h3 : Feas n c { reconstructGradient e s1 with nactive := ntotal (reconstructGradient e s1) } := by
      obtain ⟨a, b, c', _⟩ := reconstructGradient_core e s1
      refine feas_congr n c s1 _ a b c' ?_ h1
      show ntotal _ ≤ n
      unfold ntotal; rw [a]; exact le_of_eq h1.2.2.1
    have hp3 : UbPos n { reconstructGradient e s1 with nactive := ntotal (reconstructGradient e s1) } := by
      refine ubpos_congr n s1 _ (reconstructGradient_ub e s1) (reconstructGradient_core e s1).2.2.1 ?_ hp1
      show ntotal _ ≤ n
      unfold ntotal; rw [(reconstructGradient_core e s1).1]; exact le_of_eq h1.2.2.1
    split_ifs with ho ho2
    · exact ⟨hp3, fun _ => ⟨ho2, rfl⟩⟩
    · apply ih
      · have hv := selectWorkingSet_valid e _ _ _ (select_eq e _ (by simpa using ho2))
        exact update_feas n c e _ _ _ hv.1 hv.2.1 hv.2.2 h3
      · exact update_ubpos n e _ _ _ hp3
    · apply ih
      · have hv := selectWorkingSet_valid e _ _ _ (select_eq e _ (by simpa using ho))
        exact update_feas n c e _ _ _ hv.1 hv.2.1 hv.2.2 h1
      · exact update_ubpos n e _ _ _ hp1


/-! ### the nu form: one multiplier per class -/

/-- strict conditional maximum update of `max_violating_pair_nu` -/
def updLt (c : Bool) (g : α × Option Nat) (v : α) (i : Nat) : α × Option Nat :=
  if c && decide (g.1 < v) then (v, some i) else g

theorem updLt_spec (c : Bool) (g : α × Option Nat) (v : α) (i : Nat) :
    g.1 ≤ (updLt c g v i).1 ∧ (c = true → v ≤ (updLt c g v i).1) := by
  unfold updLt
  cases c
  · simp
  · by_cases h : g.1 < v
    · simp [h]; exact le_of_lt h
    · simp [h]; exact not_lt.mp h

def mvpNuStep (s : St α)
    (acc : (α × Option Nat) × (α × Option Nat) × (α × Option Nat) × (α × Option Nat)) (i : Nat) :
    (α × Option Nat) × (α × Option Nat) × (α × Option Nat) × (α × Option Nat) :=
  if gb s.y i then
    (updLt (!reachedUpper s i) acc.1 (-gf s.grad i) i, acc.2.1,
     updLt (!reachedLower s i) acc.2.2.1 (gf s.grad i) i, acc.2.2.2)
  else
    (acc.1, updLt (!reachedLower s i) acc.2.1 (gf s.grad i) i, acc.2.2.1,
     updLt (!reachedUpper s i) acc.2.2.2 (-gf s.grad i) i)

def mvpNuAcc (e : Env α) (s : St α) (n : Nat) :
    (α × Option Nat) × (α × Option Nat) × (α × Option Nat) × (α × Option Nat) :=
  (List.range n).foldl (mvpNuStep s) ((-e.inf, none), (-e.inf, none), (-e.inf, none), (-e.inf, none))

theorem maxViolatingPairNu_eq (e : Env α) (s : St α) :
    maxViolatingPairNu e s = mvpNuAcc e s s.nactive := rfl

theorem mvpNuAcc_succ (e : Env α) (s : St α) (n : Nat) :
    mvpNuAcc e s (n + 1) = mvpNuStep s (mvpNuAcc e s n) n := foldl_range_succ _ _ n

theorem mvpNuAcc_ge (e : Env α) (s : St α) (n : Nat) :
    ∀ k, k < n →
      (gb s.y k = true → reachedUpper s k = false → -gf s.grad k ≤ (mvpNuAcc e s n).1.1) ∧
      (gb s.y k = false → reachedLower s k = false → gf s.grad k ≤ (mvpNuAcc e s n).2.1.1) ∧
      (gb s.y k = true → reachedLower s k = false → gf s.grad k ≤ (mvpNuAcc e s n).2.2.1.1) ∧
      (gb s.y k = false → reachedUpper s k = false → -gf s.grad k ≤ (mvpNuAcc e s n).2.2.2.1) := by
  induction n with
  | zero => intro k hk; exact absurd hk (Nat.not_lt_zero k)
  | succ n ih =>
    rw [mvpNuAcc_succ]
    generalize mvpNuAcc e s n = r at ih
    intro k hk
    unfold mvpNuStep
    obtain ⟨a1, a2⟩ := updLt_spec (!reachedUpper s n) r.1 (-gf s.grad n) n
    obtain ⟨b1, b2⟩ := updLt_spec (!reachedLower s n) r.2.1 (gf s.grad n) n
    obtain ⟨c1, c2⟩ := updLt_spec (!reachedLower s n) r.2.2.1 (gf s.grad n) n
    obtain ⟨d1, d2⟩ := updLt_spec (!reachedUpper s n) r.2.2.2 (-gf s.grad n) n
    rcases lt_succ_cases hk with hlt | heq
    · obtain ⟨i1, i2, i3, i4⟩ := ih k hlt
      cases hy : gb s.y n
      · simp only [Bool.false_eq_true, if_false]
        exact ⟨i1, fun p q => le_trans (i2 p q) b1, i3, fun p q => le_trans (i4 p q) d1⟩
      · simp only [if_true]
        exact ⟨fun p q => le_trans (i1 p q) a1, i2, fun p q => le_trans (i3 p q) c1, i4⟩
    · subst heq
      cases hy : gb s.y k
      · simp only [Bool.false_eq_true, if_false]
        exact ⟨fun p => absurd p (by simp), fun _ q => b2 (by simp [q]),
          fun p => absurd p (by simp), fun _ q => d2 (by simp [q])⟩
      · simp only [if_true]
        exact ⟨fun _ q => a2 (by simp [q]), fun p => absurd p (by simp),
          fun _ q => c2 (by simp [q]), fun p => absurd p (by simp)⟩

def rhoNuStep (s : St α) (cls : Bool) (acc : Nat × α × α × α) (i : Nat) : Nat × α × α × α :=
  if gb s.y i == cls then
    if reachedUpper s i then (acc.1, acc.2.1, acc.2.2.1, maxS acc.2.2.2 (gf s.grad i))
    else if reachedLower s i then (acc.1, acc.2.1, minS acc.2.2.1 (gf s.grad i), acc.2.2.2)
    else (acc.1 + 1, acc.2.1 + gf s.grad i, acc.2.2.1, acc.2.2.2)
  else acc

def rhoNuAcc (e : Env α) (s : St α) (cls : Bool) (n : Nat) : Nat × α × α × α :=
  (List.range n).foldl (rhoNuStep s cls) (0, 0, e.inf, -e.inf)

theorem rhoNuAcc_succ (e : Env α) (s : St α) (cls : Bool) (n : Nat) :
    rhoNuAcc e s cls (n + 1) = rhoNuStep s cls (rhoNuAcc e s cls n) n := foldl_range_succ _ _ n

theorem rhoNuClass_eq (e : Env α) (s : St α) (cls : Bool) :
    rhoNuClass e s cls =
      if 0 < (rhoNuAcc e s cls s.nactive).1 then
        (rhoNuAcc e s cls s.nactive).2.1 / (((rhoNuAcc e s cls s.nactive).1 : Nat) : α)
      else ((rhoNuAcc e s cls s.nactive).2.2.1 + (rhoNuAcc e s cls s.nactive).2.2.2) / (1 + 1) := rfl

def nuU (s : St α) (cls : Bool) (k : Nat) : Prop :=
  gb s.y k = cls ∧ reachedUpper s k = false ∧ reachedLower s k = true
def nuL (s : St α) (cls : Bool) (k : Nat) : Prop := gb s.y k = cls ∧ reachedUpper s k = true
def nuF (s : St α) (cls : Bool) (k : Nat) : Prop :=
  gb s.y k = cls ∧ reachedUpper s k = false ∧ reachedLower s k = false

theorem rhoNuAcc_inv (e : Env α) (s : St α) (cls : Bool) (n : Nat) :
    RhoInvG e.inf (gf s.grad) (nuU s cls) (nuL s cls) (nuF s cls) n (rhoNuAcc e s cls n) := by
  induction n with
  | zero => exact rhoInv_zero _ _ _ _ _
  | succ n ih =>
    rw [rhoNuAcc_succ]
    unfold rhoNuStep
    by_cases hc : gb s.y n = cls
    · have hc' : (gb s.y n == cls) = true := by simp [hc]
      simp only [hc', if_true]
      cases hu : reachedUpper s n <;> cases hl : reachedLower s n <;>
        simp only [Bool.false_eq_true, if_false, if_true]
      · exact rhoInv_addFree _ _ _ _ _ n _ ih ⟨hc, hu, hl⟩ (by simp [nuU, hl]) (by simp [nuL, hu])
      · exact rhoInv_addU _ _ _ _ _ n _ ih ⟨hc, hu, hl⟩ (by simp [nuL, hu]) (by simp [nuF, hl])
      · exact rhoInv_addL _ _ _ _ _ n _ ih ⟨hc, hu⟩ (by simp [nuU, hu]) (by simp [nuF, hu])
      · exact rhoInv_addL _ _ _ _ _ n _ ih ⟨hc, hu⟩ (by simp [nuU, hu]) (by simp [nuF, hu])
    · have hc' : (gb s.y n == cls) = false := by simp [hc]
      simp only [hc', Bool.false_eq_true, if_false]
      exact rhoInv_skip _ _ _ _ _ n _ ih (by simp [nuU, hc]) (by simp [nuL, hc]) (by simp [nuF, hc])

/-- the clause set of the oracle clause `kkt_nu`: with `r_c` the multiplier of the class of `i`,
a variable below its bound has `G_i ≥ r_c - eps`, a variable above zero has `G_i ≤ r_c + eps` -/
def KktNuEps (s : St α) (rpos rneg eps : α) : Prop :=
  ∀ i, i < s.nactive →
    (reachedUpper s i = false → (if gb s.y i then rpos else rneg) - eps ≤ gf s.grad i) ∧
    (reachedLower s i = false → gf s.grad i ≤ (if gb s.y i then rpos else rneg) + eps)

theorem nu_gap_class (e : Env α) (s : St α) (cls : Bool) (heps : 0 ≤ e.eps)
    (hul : ∀ k, k < s.nactive → reachedUpper s k = true → reachedLower s k = false)
    (hdom : ∀ k, k < s.nactive → -e.inf ≤ gf s.grad k ∧ gf s.grad k ≤ e.inf)
    (hgap : ∀ i j, i < s.nactive → j < s.nactive → gb s.y i = cls → gb s.y j = cls →
      reachedUpper s i = false → reachedLower s j = false → gf s.grad j - gf s.grad i ≤ e.eps) :
    ∀ i, i < s.nactive → gb s.y i = cls →
      (reachedUpper s i = false → rhoNuClass e s cls - e.eps ≤ gf s.grad i) ∧
      (reachedLower s i = false → gf s.grad i ≤ rhoNuClass e s cls + e.eps) := by
  have inv := rhoNuAcc_inv e s cls s.nactive
  rw [rhoNuClass_eq]
  generalize rhoNuAcc e s cls s.nactive = r at inv
  intro i hi hci
  have h2 : (0 : α) < 1 + 1 := by linarith [zero_lt_one (α := α)]
  by_cases hn : 0 < r.1
  · simp only [hn, if_true]
    have hnf : (0 : α) < ((r.1 : Nat) : α) := Nat.cast_pos.mpr hn
    constructor
    · intro hu
      have h := inv.sumLe (gf s.grad i + e.eps) (fun k hk hF => by
        have := hgap i k hi hk hci hF.1 hu hF.2.2
        linarith)
      have : r.2.1 / ((r.1 : Nat) : α) ≤ gf s.grad i + e.eps :=
        (div_le_iff₀ hnf).mpr (by rw [mul_comm]; exact h)
      linarith
    · intro hl
      have h := inv.sumGe (gf s.grad i - e.eps) (fun k hk hF => by
        have := hgap k i hk hi hF.1 hci hF.2.1 hl
        linarith)
      have : gf s.grad i - e.eps ≤ r.2.1 / ((r.1 : Nat) : α) :=
        (le_div_iff₀ hnf).mpr (by rw [mul_comm]; exact h)
      linarith
  · simp only [hn, if_false]
    have h0 : r.1 = 0 := Nat.eq_zero_of_not_pos hn
    have hnofree := inv.noFree h0
    constructor
    · intro hu
      have hl : reachedLower s i = true := by
        cases hl : reachedLower s i
        · exact absurd ⟨hci, hu, hl⟩ (hnofree i hi)
        · rfl
      have h1 := inv.ubLe i hi ⟨hci, hu, hl⟩
      have h3 := inv.lbLe (gf s.grad i + e.eps) (by linarith [(hdom i hi).1]) (fun k hk hL => by
        have := hgap i k hi hk hci hL.1 hu (hul k hk hL.2)
        linarith)
      have : (r.2.2.1 + r.2.2.2) / (1 + 1) ≤ gf s.grad i + e.eps :=
        (div_le_iff₀ h2).mpr (by linarith)
      linarith
    · intro hl
      have hu : reachedUpper s i = true := by
        cases hu : reachedUpper s i
        · exact absurd ⟨hci, hu, hl⟩ (hnofree i hi)
        · rfl
      have h1 := inv.lbGe i hi ⟨hci, hu⟩
      have h3 := inv.ubGe (gf s.grad i - e.eps) (by linarith [(hdom i hi).2]) (fun k hk hU => by
        have := hgap k i hk hi hU.1 hci hU.2.1 hl
        linarith)
      have : gf s.grad i - e.eps ≤ (r.2.2.1 + r.2.2.2) / (1 + 1) :=
        (le_div_iff₀ h2).mpr (by linarith)
      linarith

theorem le_maxS_left (a b : α) : a ≤ maxS a b := left_le_maxS a b

/-- the nu stopping test `max(gmaxp1 + gmaxp2, gmaxn1 + gmaxn2) < eps` bounds every pair of one class -/
theorem exit_test_gap_nu (e : Env α) (s : St α)
    (hstop : maxS ((maxViolatingPairNu e s).1.1 + (maxViolatingPairNu e s).2.2.1.1)
      ((maxViolatingPairNu e s).2.1.1 + (maxViolatingPairNu e s).2.2.2.1) < e.eps) (cls : Bool) :
    ∀ i j, i < s.nactive → j < s.nactive → gb s.y i = cls → gb s.y j = cls →
      reachedUpper s i = false → reachedLower s j = false → gf s.grad j - gf s.grad i ≤ e.eps := by
  intro i j hi hj hci hcj hu hl
  rw [maxViolatingPairNu_eq] at hstop
  have hA := left_le_maxS ((mvpNuAcc e s s.nactive).1.1 + (mvpNuAcc e s s.nactive).2.2.1.1)
    ((mvpNuAcc e s s.nactive).2.1.1 + (mvpNuAcc e s s.nactive).2.2.2.1)
  have hB := right_le_maxS ((mvpNuAcc e s s.nactive).1.1 + (mvpNuAcc e s s.nactive).2.2.1.1)
    ((mvpNuAcc e s s.nactive).2.1.1 + (mvpNuAcc e s s.nactive).2.2.2.1)
  obtain ⟨i1, i2, i3, i4⟩ := mvpNuAcc_ge e s s.nactive i hi
  obtain ⟨j1, j2, j3, j4⟩ := mvpNuAcc_ge e s s.nactive j hj
  cases cls
  · have a := i4 hci hu
    have b := j2 hcj hl
    linarith
  · have a := i1 hci hu
    have b := j3 hcj hl
    linarith


/-! ### the optimality flag of `select_working_set_nu` -/

theorem updLt_none (c : Bool) (g : α × Option Nat) (v : α) (i : Nat)
    (h : (updLt c g v i).2 = none) :
    g.2 = none ∧ (updLt c g v i).1 = g.1 ∧ (c = true → ¬ g.1 < v) := by
  unfold updLt at h ⊢
  cases c
  · simpa using h
  · by_cases hlt : g.1 < v
    · simp [hlt] at h
    · simp [hlt] at h ⊢; exact h

/-- with `-inf` strictly below every gradient value: no index recorded for the positive-class
violator means no positive variable is below its bound; same for the negative-class violator -/
theorem mvpNuAcc_none_pos (e : Env α) (s : St α) (n : Nat)
    (hdom : ∀ k, k < n → -e.inf < -gf s.grad k) :
    (mvpNuAcc e s n).1.2 = none →
      (mvpNuAcc e s n).1.1 = -e.inf ∧
      ∀ k, k < n → gb s.y k = true → reachedUpper s k = false → False := by
  induction n with
  | zero => intro _; exact ⟨rfl, fun k hk => absurd hk (Nat.not_lt_zero k)⟩
  | succ n ih =>
    rw [mvpNuAcc_succ]
    generalize mvpNuAcc e s n = r at ih
    have ih' := ih (fun k hk => hdom k (Nat.lt_succ_of_lt hk))
    unfold mvpNuStep
    cases hy : gb s.y n
    · simp only [Bool.false_eq_true, if_false]
      intro hnone
      obtain ⟨i1, i2⟩ := ih' hnone
      refine ⟨i1, ?_⟩
      intro k hk hyk hu
      rcases lt_succ_cases hk with hlt | heq
      · exact i2 k hlt hyk hu
      · subst heq; rw [hy] at hyk; exact absurd hyk (by simp)
    · simp only [if_true]
      intro hnone
      obtain ⟨a1, a2, a3⟩ := updLt_none _ _ _ _ hnone
      obtain ⟨i1, i2⟩ := ih' a1
      refine ⟨by rw [a2, i1], ?_⟩
      intro k hk hyk hu
      rcases lt_succ_cases hk with hlt | heq
      · exact i2 k hlt hyk hu
      · subst heq
        exact a3 (by simp [hu]) (i1 ▸ hdom k (Nat.lt_succ_self k))

theorem mvpNuAcc_none_neg (e : Env α) (s : St α) (n : Nat)
    (hdom : ∀ k, k < n → -e.inf < gf s.grad k) :
    (mvpNuAcc e s n).2.1.2 = none →
      (mvpNuAcc e s n).2.1.1 = -e.inf ∧
      ∀ k, k < n → gb s.y k = false → reachedLower s k = false → False := by
  induction n with
  | zero => intro _; exact ⟨rfl, fun k hk => absurd hk (Nat.not_lt_zero k)⟩
  | succ n ih =>
    rw [mvpNuAcc_succ]
    generalize mvpNuAcc e s n = r at ih
    have ih' := ih (fun k hk => hdom k (Nat.lt_succ_of_lt hk))
    unfold mvpNuStep
    cases hy : gb s.y n
    · simp only [Bool.false_eq_true, if_false]
      intro hnone
      obtain ⟨a1, a2, a3⟩ := updLt_none _ _ _ _ hnone
      obtain ⟨i1, i2⟩ := ih' a1
      refine ⟨by rw [a2, i1], ?_⟩
      intro k hk hyk hl
      rcases lt_succ_cases hk with hlt | heq
      · exact i2 k hlt hyk hl
      · subst heq
        exact a3 (by simp [hl]) (i1 ▸ hdom k (Nat.lt_succ_self k))
    · simp only [if_true]
      intro hnone
      obtain ⟨i1, i2⟩ := ih' hnone
      refine ⟨i1, ?_⟩
      intro k hk hyk hl
      rcases lt_succ_cases hk with hlt | heq
      · exact i2 k hlt hyk hl
      · subst heq; rw [hy] at hyk; exact absurd hyk (by simp)

def objNuStep (e : Env α) (s : St α) (gp1 gn1 : α × Option Nat) (m : α × Option Nat) (j : Nat) :
    α × Option Nat :=
  if gb s.y j then
    if !reachedLower s j then
      if 0 < gp1.1 + gf s.grad j then
        match gp1.2.map fun i => (i, dist e s i (ntotal s)) with
        | some idi =>
          if (if 0 < selfDist e s idi.1 + selfDist e s j - (1 + 1) * gf idi.2 j
              then (-((gp1.1 + gf s.grad j) * (gp1.1 + gf s.grad j))) / (selfDist e s idi.1 + selfDist e s j - (1 + 1) * gf idi.2 j)
              else (-((gp1.1 + gf s.grad j) * (gp1.1 + gf s.grad j))) / e.tiny) ≤ m.1
          then ((if 0 < selfDist e s idi.1 + selfDist e s j - (1 + 1) * gf idi.2 j
              then (-((gp1.1 + gf s.grad j) * (gp1.1 + gf s.grad j))) / (selfDist e s idi.1 + selfDist e s j - (1 + 1) * gf idi.2 j)
              else (-((gp1.1 + gf s.grad j) * (gp1.1 + gf s.grad j))) / e.tiny), some j)
          else m
        | none => m
      else m
    else m
  else if !reachedUpper s j then
    if 0 < gn1.1 - gf s.grad j then
      match gn1.2.map fun i => (i, dist e s i (ntotal s)) with
      | some idi =>
        if (if 0 < selfDist e s idi.1 + selfDist e s j - (1 + 1) * gf idi.2 j
            then (-((gn1.1 - gf s.grad j) * (gn1.1 - gf s.grad j))) / (selfDist e s idi.1 + selfDist e s j - (1 + 1) * gf idi.2 j)
            else (-((gn1.1 - gf s.grad j) * (gn1.1 - gf s.grad j))) / e.tiny) ≤ m.1
        then ((if 0 < selfDist e s idi.1 + selfDist e s j - (1 + 1) * gf idi.2 j
            then (-((gn1.1 - gf s.grad j) * (gn1.1 - gf s.grad j))) / (selfDist e s idi.1 + selfDist e s j - (1 + 1) * gf idi.2 j)
            else (-((gn1.1 - gf s.grad j) * (gn1.1 - gf s.grad j))) / e.tiny), some j)
        else m
      | none => m
    else m
  else m

def objNuAcc (e : Env α) (s : St α) (gp1 gn1 : α × Option Nat) (n : Nat) : α × Option Nat :=
  (List.range n).foldl (objNuStep e s gp1 gn1) (e.inf, none)

theorem selectNuObjMin_eq (e : Env α) (s : St α) (gp1 gn1 : α × Option Nat) :
    selectNuObjMin e s gp1 gn1 = objNuAcc e s gp1 gn1 s.nactive := rfl

theorem objNuAcc_succ (e : Env α) (s : St α) (gp1 gn1 : α × Option Nat) (n : Nat) :
    objNuAcc e s gp1 gn1 (n + 1) = objNuStep e s gp1 gn1 (objNuAcc e s gp1 gn1 n) n :=
  foldl_range_succ _ _ n

/-- what one step of the nu scan does, by the class violator being recorded or not -/
theorem objNuStep_pos (e : Env α) (s : St α) (gp1 gn1 m : α × Option Nat) (j : Nat)
    (hy : gb s.y j = true) (hl : reachedLower s j = false) :
    (gp1.2 = none ∧ objNuStep e s gp1 gn1 m j = m) ∨
    (∃ q, objNuStep e s gp1 gn1 m j = cand e (gp1.1 + gf s.grad j) q m j) := by
  unfold objNuStep cand
  simp only [hy, hl, if_true, Bool.not_false]
  cases hg : gp1.2 with
  | none => left; simp
  | some i0 =>
    right
    exact ⟨selfDist e s i0 + selfDist e s j - (1 + 1) * gf (dist e s i0 (ntotal s)) j, by simp only [Option.map_some]⟩

theorem objNuStep_neg (e : Env α) (s : St α) (gp1 gn1 m : α × Option Nat) (j : Nat)
    (hy : gb s.y j = false) (hu : reachedUpper s j = false) :
    (gn1.2 = none ∧ objNuStep e s gp1 gn1 m j = m) ∨
    (∃ q, objNuStep e s gp1 gn1 m j = cand e (gn1.1 - gf s.grad j) q m j) := by
  unfold objNuStep cand
  simp only [hy, hu, Bool.false_eq_true, if_false, if_true, Bool.not_false]
  cases hg : gn1.2 with
  | none => left; simp
  | some i0 =>
    right
    exact ⟨selfDist e s i0 + selfDist e s j - (1 + 1) * gf (dist e s i0 (ntotal s)) j, by simp only [Option.map_some]⟩

theorem objNuStep_out (e : Env α) (s : St α) (gp1 gn1 m : α × Option Nat) (j : Nat)
    (h : (gb s.y j = true ∧ reachedLower s j = true) ∨ (gb s.y j = false ∧ reachedUpper s j = true)) :
    objNuStep e s gp1 gn1 m j = m := by
  unfold objNuStep
  rcases h with ⟨a, b⟩ | ⟨a, b⟩ <;> simp [a, b]

/-- the candidates of the nu scan: a positive variable above zero / a negative variable below its bound -/
def NuScanOk (s : St α) (gp1 gn1 : α × Option Nat) (j : Nat) : Prop :=
  (gb s.y j = true → reachedLower s j = false → gp1.2 = none ∨ gp1.1 + gf s.grad j ≤ 0) ∧
  (gb s.y j = false → reachedUpper s j = false → gn1.2 = none ∨ gn1.1 - gf s.grad j ≤ 0)

theorem objNuAcc_none (e : Env α) (s : St α) (gp1 gn1 : α × Option Nat) (n : Nat)
    (htiny : 0 < e.tiny) (hinf : 0 ≤ e.inf) :
    (objNuAcc e s gp1 gn1 n).2 = none →
      (objNuAcc e s gp1 gn1 n).1 = e.inf ∧ ∀ j, j < n → NuScanOk s gp1 gn1 j := by
  induction n with
  | zero => intro _; exact ⟨rfl, fun j hj => absurd hj (Nat.not_lt_zero j)⟩
  | succ n ih =>
    rw [objNuAcc_succ]
    generalize objAccEq : objNuAcc e s gp1 gn1 n = m at ih
    intro hnone
    -- whatever the step did, the accumulator is unchanged and position n is fine
    have fin : objNuStep e s gp1 gn1 m n = m → NuScanOk s gp1 gn1 n →
        (objNuStep e s gp1 gn1 m n).1 = e.inf ∧ ∀ j, j < n + 1 → NuScanOk s gp1 gn1 j := by
      intro heq hok
      rw [heq] at hnone ⊢
      obtain ⟨i1, i2⟩ := ih hnone
      refine ⟨i1, ?_⟩
      intro j hj
      rcases lt_succ_cases hj with hlt | hje
      · exact i2 j hlt
      · subst hje; exact hok
    cases hy : gb s.y n
    · cases hu : reachedUpper s n
      · rcases objNuStep_neg e s gp1 gn1 m n hy hu with ⟨g0, heq⟩ | ⟨q, heq⟩
        · exact fin heq ⟨fun p => absurd p (by simp [hy]), fun _ _ => Or.inl g0⟩
        · rw [heq] at hnone
          obtain ⟨c1, c2⟩ := cand_spec e _ q m n htiny hinf hnone
          have hm : m.2 = none := by rw [c1] at hnone; exact hnone
          exact fin (by rw [heq, c1]) ⟨fun p => absurd p (by simp [hy]),
            fun _ _ => Or.inr (not_lt.mp (c2 (ih hm).1))⟩
      · exact fin (objNuStep_out e s gp1 gn1 m n (Or.inr ⟨hy, hu⟩))
          ⟨fun p => absurd p (by simp [hy]), fun _ q => absurd q (by simp [hu])⟩
    · cases hl : reachedLower s n
      · rcases objNuStep_pos e s gp1 gn1 m n hy hl with ⟨g0, heq⟩ | ⟨q, heq⟩
        · exact fin heq ⟨fun _ _ => Or.inl g0, fun p => absurd p (by simp [hy])⟩
        · rw [heq] at hnone
          obtain ⟨c1, c2⟩ := cand_spec e _ q m n htiny hinf hnone
          have hm : m.2 = none := by rw [c1] at hnone; exact hnone
          exact fin (by rw [heq, c1]) ⟨fun _ _ => Or.inr (not_lt.mp (c2 (ih hm).1)),
            fun p => absurd p (by simp [hy])⟩
      · exact fin (objNuStep_out e s gp1 gn1 m n (Or.inl ⟨hy, hl⟩))
          ⟨fun _ q => absurd q (by simp [hl]), fun p => absurd p (by simp [hy])⟩

/-- **the optimality flag of `select_working_set_nu` bounds every pair of one class** (either reason:
an empty second-order scan or the stopping test) -/
theorem optimal_flag_gap_nu (e : Env α) (s : St α) (heps : 0 ≤ e.eps) (htiny : 0 < e.tiny)
    (hinf : 0 ≤ e.inf) (hdom : ∀ k, k < s.nactive → -e.inf < gf s.grad k ∧ gf s.grad k < e.inf)
    (hopt : (selectWorkingSetNu e s).2.2 = true) (cls : Bool) :
    ∀ i j, i < s.nactive → j < s.nactive → gb s.y i = cls → gb s.y j = cls →
      reachedUpper s i = false → reachedLower s j = false → gf s.grad j - gf s.grad i ≤ e.eps := by
  intro i j hi hj hci hcj hu hl
  unfold selectWorkingSetNu at hopt
  dsimp only at hopt
  cases ho : (selectNuObjMin e s (maxViolatingPairNu e s).1 (maxViolatingPairNu e s).2.1).2 with
  | none =>
    rw [selectNuObjMin_eq] at ho
    obtain ⟨_, hscan⟩ := objNuAcc_none e s _ _ s.nactive htiny hinf ho
    have hmv : maxViolatingPairNu e s = mvpNuAcc e s s.nactive := maxViolatingPairNu_eq e s
    obtain ⟨i1, _, _, _⟩ := mvpNuAcc_ge e s s.nactive i hi
    obtain ⟨_, j2, _, _⟩ := mvpNuAcc_ge e s s.nactive j hj
    cases cls
    · -- negative class: the scan ran over the variables below their bound (here `i`)
      rcases (hscan i hi).2 hci hu with hnone | hle
      · rw [hmv] at hnone
        exact absurd hl (fun hl' => (mvpNuAcc_none_neg e s s.nactive
          (fun k hk => (hdom k hk).1) hnone).2 j hj hcj hl')
      · have := j2 hcj hl
        rw [hmv] at hle
        linarith
    · -- positive class: the scan ran over the variables above zero (here `j`)
      rcases (hscan j hj).1 hcj hl with hnone | hle
      · rw [hmv] at hnone
        exact absurd hu (fun hu' => (mvpNuAcc_none_pos e s s.nactive
          (fun k hk => by linarith [(hdom k hk).2]) hnone).2 i hi hci hu')
      · have := i1 hci hu
        rw [hmv] at hle
        linarith
  | some j0 =>
    rw [ho] at hopt
    dsimp only at hopt
    by_cases hstop : maxS ((maxViolatingPairNu e s).1.1 + (maxViolatingPairNu e s).2.2.1.1)
        ((maxViolatingPairNu e s).2.1.1 + (maxViolatingPairNu e s).2.2.2.1) < e.eps
    · exact exit_test_gap_nu e s hstop cls i j hi hj hci hcj hu hl
    · simp [hstop] at hopt


end kkt
end LinfaSpec.Smo
