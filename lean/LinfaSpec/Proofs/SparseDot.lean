import LinfaSpec.Model.Kernel
import LinfaSpec.Proofs.Kernel
import LinfaSpec.Proofs.Sparse
import LinfaSpec.Proofs.SparseSum

namespace LinfaSpec.Kernel
open LinfaSpec
variable {α : Type} [Field α]

/-! ### sparse `dot` against the dense `dot` of the matrix the kernel stands for -/

theorem getD_row_length (R : List (List α)) (q : Nat) (hq : ∀ r ∈ R, r.length = q) (j : Nat) :
    (R.getD j (List.replicate q 0)).length = q := by
  by_cases hj : j < R.length
  · rw [List.getD_eq_getElem?_getD, List.getElem?_eq_getElem hj, Option.getD_some]
    exact hq _ (List.getElem_mem hj)
  · simp [List.getD_eq_getElem?_getD, Nat.le_of_not_lt hj]

theorem sdotStep_length (row : List (Nat × α)) (R : List (List α)) (q : Nat) (hq : ∀ r ∈ R, r.length = q)
    (acc : List α) (hacc : acc.length = q) :
    (row.foldl (fun acc e => List.zipWith (fun o r => o + e.2 * r) acc (R.getD e.1 (List.replicate q 0))) acc).length = q := by
  induction row generalizing acc with
  | nil => exact hacc
  | cons e rest ih =>
    rw [List.foldl_cons]
    apply ih
    have hl := getD_row_length R q hq e.1
    generalize R.getD e.1 (List.replicate q 0) = r at hl ⊢
    simp [hacc, hl]

theorem sdotStep_getD (row : List (Nat × α)) (R : List (List α)) (q : Nat) (hq : ∀ r ∈ R, r.length = q)
    (acc : List α) (hacc : acc.length = q) (c : Nat) (hc : c < q) :
    (row.foldl (fun acc e => List.zipWith (fun o r => o + e.2 * r) acc (R.getD e.1 (List.replicate q 0))) acc).getD c 0
      = acc.getD c 0 + (row.map fun e => e.2 * (R.getD e.1 (List.replicate q 0)).getD c 0).sum := by
  induction row generalizing acc with
  | nil => simp
  | cons e rest ih =>
    have hl := getD_row_length R q hq e.1
    rw [List.foldl_cons, List.map_cons, List.sum_cons]
    generalize R.getD e.1 (List.replicate q 0) = r at hl ⊢
    rw [ih _ (by simp [hacc, hl])]
    have h1 : c < acc.length := by omega
    have h2 : c < r.length := by omega
    simp [List.getD_eq_getElem?_getD, h1, h2, add_assoc]

theorem sum_filter_map {β : Type} (P : β → Bool) (g : β → α) (l : List β) :
    ((l.filter P).map g).sum = (l.map fun j => if P j then g j else 0).sum := by
  induction l with
  | nil => rfl
  | cons x xs ih =>
    by_cases hx : P x
    · simp [hx, ih]
    · simp [hx, ih]

section
variable [Transc α] [KPow α]

/-- **`dot`**: the product of a sparse kernel with a right-hand side (accumulated over the stored entries,
row by row) is the product of the matrix it stands for -/
theorem sparse_dot_eq (m : Method α) (X : List (List α)) (k : Nat) (nb : List (List Nat)) (S : Csr α)
    (h : sparseFromFn m X k nb = some S) (q : Nat) (R : List (List α)) (hR : R.length = X.length)
    (hq : ∀ r ∈ R, r.length = q) : sDot S q R = dDot (sToDense X.length S) q R := by
  have hSl := sparse_length m X k nb S h
  apply List.ext_getElem?
  intro i
  by_cases hi : i < X.length
  swap
  · have h1 : (sDot S q R).length = X.length := by simp [sDot, hSl]
    have h2 : (dDot (sToDense X.length S) q R).length = X.length := by simp [dDot, sToDense]
    rw [List.getElem?_eq_none (by omega), List.getElem?_eq_none (by omega)]
  have hrow := sparse_row m X k nb S h i hi
  have hSi : S[i]? = some (S.getD i []) := by
    rw [List.getD_eq_getElem?_getD, List.getElem?_eq_getElem (by omega)]; rfl
  simp only [sDot, dDot, sToDense, List.getElem?_map, hSi, List.getElem?_range hi, Option.map_some]
  congr 1
  apply List.ext_getElem?
  intro c
  by_cases hc : c < q
  swap
  · have h1 := sdotStep_length (S.getD i []) R q hq (List.replicate q 0) (by simp)
    rw [List.getElem?_eq_none (by omega), List.getElem?_eq_none (by simp [colsOf]; omega)]
  have hlen := sdotStep_length (S.getD i []) R q hq (List.replicate q 0) (by simp)
  have hL := sdotStep_getD (S.getD i []) R q hq (List.replicate q 0) (by simp) c hc
  rw [List.getD_eq_getElem?_getD, List.getElem?_eq_getElem (by omega), Option.getD_some] at hL
  rw [List.getElem?_eq_getElem (by omega), hL]
  simp only [colsOf, List.getElem?_map, List.getElem?_range hc, Option.map_some, Option.some.injEq]
  rw [hrow, support_getD _ _ _ hi, List.map_map, sum_filter_map]
  -- right-hand side
  rw [show dotS = fun (a b : List α) => sumS (List.zipWith (· * ·) a b) from rfl]
  simp only [sumS_eq_sum]
  rw [map_eq_range_map (fun r : List α => r.getD c 0) R (List.replicate q 0), hR, List.zipWith_map,
    List.zipWith_self]
  have hz : (List.replicate q (0 : α)).getD c 0 = 0 := by simp [List.getD_eq_getElem?_getD, hc]
  rw [hz, zero_add]
  congr 1
  apply List.map_congr_left
  intro j hj
  have hj' : j < X.length := List.mem_range.mp hj
  simp only [Function.comp]
  unfold sGet
  rw [hrow, find?_map_pair, support_getD _ _ _ hi]
  by_cases hP : j ∈ (adjPattern X.length nb).getD i [] ∨ i ∈ (adjPattern X.length nb).getD j []
  · have hP' := hP
    simp only [List.getD_eq_getElem?_getD] at hP'
    simp [hP', hj']
  · have hP' := hP
    simp only [List.getD_eq_getElem?_getD] at hP'
    simp [hP', hj']

end
end LinfaSpec.Kernel
