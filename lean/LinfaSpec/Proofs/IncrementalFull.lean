import LinfaSpec.Proofs.IncrementalState

/-!
C15: Gaussian naive Bayes through the whole association-list state for **every** `var_smoothing`:
keys stay unique, the stored counts add up to the number of rows fed (hence the priors are the class
frequencies of the concatenated data), and the stored variance of a class is its population variance
plus the row-weighted mean of the per-batch epsilons.
-/
namespace LinfaSpec.Incremental
open LinfaSpec

set_option linter.unusedSectionVars false
set_option linter.unusedSimpArgs false
set_option linter.unusedVariables false

section Assoc
variable {β γ : Type}

/-- the keys of the association list, in order -/
def keys (l : List (Nat × β)) : List Nat := l.map (·.1)

theorem keys_upsert (c : Nat) (v : β) (l : List (Nat × β)) :
    keys (upsert c v l) = if c ∈ keys l then keys l else keys l ++ [c] := by
  induction l with
  | nil => simp [upsert, keys]
  | cons kv rest ih =>
    obtain ⟨k, w⟩ := kv
    simp only [upsert]
    by_cases h : k = c
    · subst h; simp [keys]
    · have h' : ¬ c = k := fun e => h e.symm
      simp only [keys] at ih
      by_cases hm : c ∈ List.map (·.1) rest
      · simp [h, h', hm, keys] at ih ⊢; exact ih
      · simp [h, h', hm, keys] at ih ⊢; exact ih

theorem keys_mapVals (f : β → γ) (l : List (Nat × β)) : keys (mapVals f l) = keys l := by
  simp [keys, mapVals, Function.comp]

theorem nodup_keys_upsert (c : Nat) (v : β) (l : List (Nat × β)) (h : (keys l).Nodup) :
    (keys (upsert c v l)).Nodup := by
  rw [keys_upsert]
  by_cases hm : c ∈ keys l
  · simp [hm, h]
  · simp only [hm, if_false]
    refine List.nodup_append.mpr ⟨h, by simp, ?_⟩
    intro a ha b hb
    simp only [List.mem_singleton] at hb
    subst hb
    intro e; subst e; exact hm ha

theorem nodup_keys_foldl_upsert (G : List (Nat × β) → Nat → β) (L : List Nat) (st : List (Nat × β))
    (h : (keys st).Nodup) : (keys (L.foldl (fun s k => upsert k (G s k) s) st)).Nodup := by
  induction L generalizing st with
  | nil => simpa using h
  | cons k L ih => simp only [List.foldl_cons]; exact ih _ (nodup_keys_upsert _ _ _ h)

/-- sum of a natural-number attribute over the stored values -/
def tot (cnt : β → Nat) (l : List (Nat × β)) : Nat := (l.map fun kv => cnt kv.2).sum

theorem tot_upsert (cnt : β → Nat) (c : Nat) (v : β) (l : List (Nat × β)) :
    tot cnt (upsert c v l) + ((lookup c l).map cnt).getD 0 = tot cnt l + cnt v := by
  induction l with
  | nil => simp [upsert, tot, lookup]
  | cons kv rest ih =>
    obtain ⟨k, w⟩ := kv
    by_cases h : k = c
    · subst h; simp [upsert, tot, lookup]; omega
    · simp only [upsert, h, if_false, lookup, tot, List.map_cons, List.sum_cons] at ih ⊢
      omega

theorem tot_mapVals (cnt : β → Nat) (cnt' : γ → Nat) (f : β → γ) (hf : ∀ x, cnt' (f x) = cnt x)
    (l : List (Nat × β)) : tot cnt' (mapVals f l) = tot cnt l := by
  induction l with
  | nil => simp [tot, mapVals]
  | cons kv rest ih =>
    simp only [tot, mapVals, List.map_cons, List.sum_cons, hf] at ih ⊢
    omega

/-- a loop that raises the attribute of key `k` by `m k` raises the total by `Σ m` -/
theorem tot_foldl_upsert (cnt : β → Nat) (F : Nat → Option β → β) (m : Nat → Nat)
    (hF : ∀ k o, cnt (F k o) = (o.map cnt).getD 0 + m k) (L : List Nat) (st : List (Nat × β)) :
    tot cnt (L.foldl (fun s k => upsert k (F k (lookup k s)) s) st) = tot cnt st + (L.map m).sum := by
  induction L generalizing st with
  | nil => simp
  | cons k L ih =>
    simp only [List.foldl_cons, List.map_cons, List.sum_cons]
    rw [ih]
    have := tot_upsert cnt k (F k (lookup k st)) st
    rw [hF] at this
    omega

end Assoc

section Rows
variable {α : Type}

theorem indicator_sum_zero (a : Nat) (L : List Nat) (h : a ∉ L) :
    (L.map fun c => if a = c then 1 else 0).sum = 0 := by
  induction L with
  | nil => simp
  | cons x L ih =>
    have hx : ¬ a = x := fun e => h (e ▸ List.mem_cons_self)
    have hL : a ∉ L := fun e => h (List.mem_cons_of_mem _ e)
    simp [hx, ih hL]

theorem indicator_sum_one (a : Nat) (L : List Nat) (hn : L.Nodup) (h : a ∈ L) :
    (L.map fun c => if a = c then 1 else 0).sum = 1 := by
  induction L with
  | nil => simp at h
  | cons x L ih =>
    obtain ⟨hx, hL⟩ := List.nodup_cons.mp hn
    by_cases e : a = x
    · subst e
      simp [indicator_sum_zero a L hx]
    · have : a ∈ L := by
        rcases List.mem_cons.mp h with h | h
        · exact absurd h e
        · exact h
      simp [e, ih hL this]

theorem rowsOf_cons_length (c : Nat) (r : List α × Nat) (b : Batch α) :
    (rowsOf c (r :: b)).length = (if r.2 = c then 1 else 0) + (rowsOf c b).length := by
  by_cases h : r.2 = c
  · simp [rowsOf, List.filter_cons, h]; omega
  · simp [rowsOf, List.filter_cons, h]

theorem sum_split (f g : Nat → Nat) (L : List Nat) :
    (L.map fun c => f c + g c).sum = (L.map f).sum + (L.map g).sum := by
  induction L with
  | nil => simp
  | cons x L ih => simp [ih]; omega

/-- every row belongs to exactly one class: the class sizes over a duplicate-free list of labels
that contains every label of the batch add up to the batch size -/
theorem sum_rows_length (b : Batch α) (L : List Nat) (hn : L.Nodup) (hall : ∀ r ∈ b, r.2 ∈ L) :
    (L.map fun c => (rowsOf c b).length).sum = b.length := by
  induction b with
  | nil => induction L with
    | nil => simp
    | cons x L ih => simp [rowsOf]
  | cons r b ih =>
    have h1 : (L.map fun c => (rowsOf c (r :: b)).length) =
        L.map fun c => (if r.2 = c then 1 else 0) + (rowsOf c b).length := by
      apply List.map_congr_left; intro c _; exact rowsOf_cons_length c r b
    rw [h1, sum_split, indicator_sum_one r.2 L hn (hall r List.mem_cons_self),
      ih (fun r' hr' => hall r' (List.mem_cons_of_mem _ hr'))]
    simp; omega

theorem sum_rows_labelsOf (b : Batch α) :
    ((labelsOf b).map fun c => (rowsOf c b).length).sum = b.length := by
  apply sum_rows_length b _ (nodup_labelsOf b)
  intro r hr
  simp only [labelsOf, List.mem_eraseDups, List.mem_map]
  exact ⟨r, hr, rfl⟩

end Rows

section Field
variable {α : Type} [Field α] [LinearOrder α] [IsStrictOrderedRing α]

/-! ### keys and counts of the Gaussian state -/

theorem gnbStep_keys_nodup (vs : α) (p : Nat) (st : GState α) (b : Batch α) (h : (keys st).Nodup) :
    (keys (gnbStep vs p st b)).Nodup := by
  simp only [gnbStep, gnbPriors, keys_mapVals, gnbClassLoop]
  apply nodup_keys_foldl_upsert (fun s c =>
    let rows := rowsOf c b
    let info := (lookup c s).getD GInfo.default
    let ts := gnbUpdateClass info (columns p rows)
    { info with theta := ts.1, sigma := ts.2, count := info.count + rows.length })
  simpa [keys_mapVals] using h

theorem gnbRun_keys_nodup (vs : α) (p : Nat) (hist : List (Batch α)) :
    (keys (gnbRun vs p hist)).Nodup := by
  have key : ∀ (hist : List (Batch α)) (st : GState α), (keys st).Nodup →
      (keys (hist.foldl (gnbStep vs p) st)).Nodup := by
    intro hist
    induction hist with
    | nil => intro st h; simpa using h
    | cons b rest ih => intro st h; simp only [List.foldl_cons]; exact ih _ (gnbStep_keys_nodup vs p st b h)
  exact key hist [] (by simp [keys])

/-- sum of the stored class counts -/
def gnbTotal (st : GState α) : Nat := tot GInfo.count st

theorem gnbTotal_eq_foldl (st : GState α) :
    gnbTotal st = (st.map fun ci => ci.2.count).foldl (fun (a b : Nat) => a + b) 0 := by
  simp [gnbTotal, tot, List.sum_eq_foldl]

theorem gnbF_count (p : Nat) (b : Batch α) (k : Nat) (o : Option (GInfo α)) :
    (gnbF p b k o).count = (o.map GInfo.count).getD 0 + (rowsOf k b).length := by
  cases o <;> simp [gnbF, GInfo.default]

/-- one `fit_with` call raises the sum of the stored counts by the number of rows of the batch -/
theorem gnbStep_total (vs : α) (p : Nat) (st : GState α) (b : Batch α) :
    gnbTotal (gnbStep vs p st b) = gnbTotal st + b.length := by
  simp only [gnbStep, gnbPriors, gnbTotal]
  refine Eq.trans (tot_mapVals GInfo.count GInfo.count _ ?_ _) ?_
  · intro x; rfl
  refine Eq.trans (tot_mapVals GInfo.count GInfo.count _ ?_ _) ?_
  · intro x; rfl
  rw [gnbClassLoop_eq,
    tot_foldl_upsert GInfo.count (gnbF p b) (fun k => (rowsOf k b).length) (gnbF_count p b),
    sum_rows_labelsOf]
  congr 1
  refine tot_mapVals GInfo.count GInfo.count _ ?_ _
  intro x; rfl

theorem gnbRun_total (vs : α) (p : Nat) (hist : List (Batch α)) :
    gnbTotal (gnbRun vs p hist) = hist.flatten.length := by
  have key : ∀ (hist : List (Batch α)) (st : GState α),
      gnbTotal (hist.foldl (gnbStep vs p) st) = gnbTotal st + hist.flatten.length := by
    intro hist
    induction hist with
    | nil => intro st; simp
    | cons b rest ih =>
      intro st
      simp only [List.foldl_cons, List.flatten_cons, List.length_append]
      rw [ih, gnbStep_total]; omega
  have := key hist []
  simpa [gnbRun, gnbTotal, tot] using this

/-! ### replay for every `var_smoothing` -/

/-- `Σ_b epsilon_b · (rows of class c in batch b)` -/
def gnbEffSum (vs : α) (p : Nat) (hist : List (Batch α)) (c : Nat) : α :=
  sumS (hist.map fun b => gnbEps vs p b * ((rowsOf c b).length : α))

theorem gnbEffSum_snoc (vs : α) (p : Nat) (hist : List (Batch α)) (b : Batch α) (c : Nat) :
    gnbEffSum vs p (hist ++ [b]) c = gnbEffSum vs p hist c + gnbEps vs p b * ((rowsOf c b).length : α) := by
  simp [gnbEffSum, sumS_append, sumS_cons, sumS_nil]

/-- what the code stores for class `c` after the history: count, column means, and column
variances plus the row-weighted mean of the batch epsilons (`none` if the class never occurred) -/
def gnbStatsSm (vs : α) (p : Nat) (hist : List (Batch α)) (c : Nat) : Option (Nat × List α × List α) :=
  if rowsOf c hist.flatten = [] then none
  else some ((rowsOf c hist.flatten).length, (columns p (rowsOf c hist.flatten)).map meanL,
    (columns p (rowsOf c hist.flatten)).map fun xs =>
      varL xs + gnbEffSum vs p hist c / ((rowsOf c hist.flatten).length : α))

/-- pooled update when the stored variance carries an offset `d`: the offset survives with weight
`n_old / n_total` -/
theorem gnbMerge_shift (xs ys : List α) (d : α) (hx : xs ≠ []) (hy : ys ≠ []) :
    gnbMerge xs.length (meanL xs) (varL xs + d) ys =
      (meanL (xs ++ ys), varL (xs ++ ys) + d * (xs.length : α) / ((xs.length + ys.length : Nat) : α)) := by
  have hx0 : xs.length ≠ 0 := by simpa using hx
  have hy0 : ys.length ≠ 0 := by simpa using hy
  have h := gnbMerge_spec xs ys
  unfold gnbMerge at h ⊢
  simp only [hx0, hy0, if_false, Prod.mk.injEq] at h ⊢
  obtain ⟨h1, h2⟩ := h
  refine ⟨h1, ?_⟩
  rw [← h2]
  have hx' : (xs.length : α) ≠ 0 := Nat.cast_ne_zero.mpr hx0
  have hxy : ((xs.length + ys.length : Nat) : α) ≠ 0 := Nat.cast_ne_zero.mpr (by omega)
  field_simp
  ring

omit [LinearOrder α] [IsStrictOrderedRing α] in
theorem column_ne_nil (j : Nat) (r : List (List α)) (h : r ≠ []) : column j r ≠ [] := by
  intro e
  have := column_length j r
  rw [e] at this
  exact h (List.eq_nil_of_length_eq_zero this.symm)

/-- vector form of `gnbMerge_shift` for the function `fit_with` calls -/
theorem gnbUpdateClass_shift (p : Nat) (pr d : α) (r1 r2 : List (List α)) (h1 : r1 ≠ []) (h2 : r2 ≠ []) :
    gnbUpdateClass ⟨r1.length, pr, (columns p r1).map meanL, (columns p r1).map fun xs => varL xs + d⟩
        (columns p r2) =
      ((columns p (r1 ++ r2)).map meanL,
       (columns p (r1 ++ r2)).map fun xs =>
         varL xs + d * (r1.length : α) / ((r1.length + r2.length : Nat) : α)) := by
  unfold gnbUpdateClass
  have h : r1.length ≠ 0 := by simpa using h1
  simp only [h, if_false, columns, List.map_map, List.zip_map', List.zipWith_map_left,
    List.zipWith_map_right, List.zipWith_self]
  refine Prod.ext ?_ ?_ <;>
  · simp only [List.map_map]
    apply List.map_congr_left
    intro j _
    have := gnbMerge_shift (column j r1) (column j r2) d (column_ne_nil j r1 h1) (column_ne_nil j r2 h2)
    simp only [column_length] at this
    simp [Function.comp, this, column_append]

/-- the algebra of one step for a class with `n` old and `m` new rows:
`(S/n - e)·n/(n+m) + e = (S + e·m)/(n+m)` -/
theorem eff_step (S e : α) (n m : Nat) (hn : n ≠ 0) :
    (S / (n : α) - e) * (n : α) / ((n + m : Nat) : α) + e = (S + e * (m : α)) / ((n + m : Nat) : α) := by
  have hn' : (n : α) ≠ 0 := Nat.cast_ne_zero.mpr hn
  have hnm : ((n + m : Nat) : α) ≠ 0 := Nat.cast_ne_zero.mpr (by omega)
  rw [Nat.cast_add] at hnm ⊢
  field_simp
  ring

theorem gnbStep_invariant_sm (vs : α) (p : Nat) (st : GState α) (past : List (Batch α)) (b : Batch α)
    (H : ∀ c, (lookup c st).map gProj = gnbStatsSm vs p past c) :
    ∀ c, (lookup c (gnbStep vs p st b)).map gProj = gnbStatsSm vs p (past ++ [b]) c := by
  intro c
  have Hc := H c
  simp only [gnbStep, gnbPriors, lookup_mapVals, gnbClassLoop_eq,
    lookup_foldl_upsert _ _ (nodup_labelsOf _), Option.map_map]
  simp only [gnbStatsSm, List.flatten_append, List.flatten_cons, List.flatten_nil, List.append_nil,
    rowsOf_append, gnbEffSum_snoc] at Hc ⊢
  by_cases hl : c ∈ labelsOf b
  · have hb : rowsOf c b ≠ [] := (mem_labelsOf c b).mp hl
    have hb0 : (rowsOf c b).length ≠ 0 := by simpa using hb
    simp only [hl, if_true, Option.map_some, Function.comp, gProj]
    cases ho : lookup c st with
    | none =>
      rw [ho] at Hc
      by_cases hd : rowsOf c past.flatten = []
      · have hm : ((rowsOf c b).length : α) ≠ 0 := Nat.cast_ne_zero.mpr hb0
        have h0 : gnbEffSum vs p past c = 0 := by
          have hz : ∀ b' ∈ past, rowsOf c b' = [] := by
            intro b' hb'
            by_contra hne
            obtain ⟨r, hr⟩ := List.exists_mem_of_ne_nil _ hne
            have : r ∈ rowsOf c past.flatten := by
              simp only [rowsOf, List.mem_map, List.mem_filter, List.mem_flatten] at hr ⊢
              obtain ⟨a, ⟨ha, hac⟩, rfl⟩ := hr
              exact ⟨a, ⟨⟨b', hb', ha⟩, hac⟩, rfl⟩
            rw [hd] at this; simp at this
          unfold gnbEffSum
          have : (past.map fun b' => gnbEps vs p b' * ((rowsOf c b').length : α)) = past.map fun _ => (0 : α) := by
            apply List.map_congr_left; intro b' hb'; simp [hz b' hb']
          rw [this, sumS_eq_sum]; simp
        simp only [hd, hb, List.nil_append, if_false, Option.map_none, gnbF, Option.getD_none,
          GInfo.default, gnbUpdateClass_fresh, List.length_nil, Nat.zero_add, List.map_map,
          Option.some.injEq, Prod.mk.injEq, true_and, h0, zero_add]
        apply List.map_congr_left
        intro xs _
        simp only [Function.comp]
        field_simp
      · simp [hd] at Hc
    | some i =>
      rw [ho] at Hc
      by_cases hd : rowsOf c past.flatten = []
      · simp [hd] at Hc
      · simp only [hd, if_false, Option.map_some, gProj, Option.some.injEq, Prod.mk.injEq] at Hc
        obtain ⟨h1, h2, h3⟩ := Hc
        have hd0 : (rowsOf c past.flatten).length ≠ 0 := by simpa using hd
        have hne : ¬ (rowsOf c past.flatten ++ rowsOf c b = []) := by simp [hd]
        have hs : List.map (fun x => x - gnbEps vs p b) i.sigma =
            (columns p (rowsOf c past.flatten)).map fun xs => varL xs +
              (gnbEffSum vs p past c / ((rowsOf c past.flatten).length : α) - gnbEps vs p b) := by
          rw [h3, List.map_map]
          apply List.map_congr_left; intro xs _; simp only [Function.comp]; ring
        have := gnbUpdateClass_shift p i.prior
          (gnbEffSum vs p past c / ((rowsOf c past.flatten).length : α) - gnbEps vs p b)
          (rowsOf c past.flatten) (rowsOf c b) hd hb
        simp only [hne, if_false, Option.map_some, gnbF, Option.getD_some, hs, h1, h2, this,
          List.length_append, List.map_map, Option.some.injEq, Prod.mk.injEq, true_and]
        apply List.map_congr_left
        intro xs _
        simp only [Function.comp]
        rw [add_assoc, eff_step _ _ _ _ hd0]
  · have hb : rowsOf c b = [] := by
      by_contra h; exact hl ((mem_labelsOf c b).mpr h)
    simp only [hl, if_false, hb, List.append_nil, Option.map_map, List.length_nil, Nat.cast_zero,
      mul_zero, add_zero]
    rw [← Hc]
    cases lookup c st with
    | none => simp
    | some i =>
      simp only [Option.map_some, Function.comp, gProj, List.map_map, Option.some.injEq,
        Prod.mk.injEq, true_and]
      have : ((fun x => x + gnbEps vs p b) ∘ fun x => x - gnbEps vs p b) = id := by
        funext x; simp
      rw [this, List.map_id]

/-- **Gaussian NB, every `var_smoothing`: replay over every history.**  After feeding any list of
batches every class holds the count and the per-feature means of its rows in the concatenated data,
and per-feature variances equal to the population variance of those rows plus
`Σ_b epsilon_b · n_{c,b} / n_c` (the row-weighted mean of the epsilons of the batches in which the
class occurred); classes that never occurred are absent. -/
theorem gnbRun_stats_sm (vs : α) (p : Nat) (hist : List (Batch α)) (c : Nat) :
    (lookup c (gnbRun vs p hist)).map gProj = gnbStatsSm vs p hist c := by
  have key : ∀ (rest : List (Batch α)) (st : GState α) (past : List (Batch α)),
      (∀ c, (lookup c st).map gProj = gnbStatsSm vs p past c) →
      ∀ c, (lookup c (rest.foldl (gnbStep vs p) st)).map gProj = gnbStatsSm vs p (past ++ rest) c := by
    intro rest
    induction rest with
    | nil => intro st past H c; simpa using H c
    | cons b rest ih =>
      intro st past H c
      have := ih _ (past ++ [b]) (gnbStep_invariant_sm vs p st past b H) c
      simpa [List.append_assoc] using this
  have := key hist [] [] (by intro c; simp [lookup, gnbStatsSm, rowsOf]) c
  simpa [gnbRun] using this

/-- if every batch of the history has the same epsilon `e`, the stored variance is the population
variance plus `e` -/
theorem gnbEffSum_uniform (vs : α) (p : Nat) (hist : List (Batch α)) (c : Nat) (e : α)
    (he : ∀ b ∈ hist, gnbEps vs p b = e) :
    gnbEffSum vs p hist c = e * ((rowsOf c hist.flatten).length : α) := by
  induction hist using List.reverseRecOn with
  | nil => simp [gnbEffSum, sumS_nil, rowsOf]
  | append_singleton hist b ih =>
    rw [gnbEffSum_snoc, ih (fun b' hb' => he b' (List.mem_append_left _ hb')),
      he b (List.mem_append_right _ (List.mem_singleton_self b))]
    simp only [List.flatten_append, List.flatten_cons, List.flatten_nil, List.append_nil,
      rowsOf_append, List.length_append, Nat.cast_add]
    ring

end Field
end LinfaSpec.Incremental
