import LinfaSpec.Model.Dbscan

/-!
Helper lemmas for C08 — DBSCAN model (`LinfaSpec.Dbscan`).

Layer 1 (`QInv`, `pushAll_spec`, `popStep_spec`): the bookkeeping invariant of the search queue —
queued samples are pairwise distinct, unlabelled, and `search_found` is exactly queue membership.
Everything later only uses `popStep_spec`, never the definition of `popStep`.
-/
namespace LinfaSpec.Dbscan

theorem unl_iff (labels : List (Option Nat)) (j : Nat) :
    unl labels j = true ↔ labels[j]? = some none := by
  unfold unl
  split <;> simp_all

theorem unl_lt {labels : List (Option Nat)} {j : Nat} (h : unl labels j = true) :
    j < labels.length := by
  rw [unl_iff] at h
  exact (List.getElem?_eq_some_iff.mp h).1

theorem unl_set_ne (labels : List (Option Nat)) {c j : Nat} (v : Option Nat) (h : c ≠ j) :
    unl (labels.set c v) j = unl labels j := by
  unfold unl
  rw [List.getElem?_set_ne h]

theorem unl_set_some (labels : List (Option Nat)) (c j v : Nat) :
    unl (labels.set c (some v)) j = true ↔ (unl labels j = true ∧ j ≠ c) := by
  by_cases h : c = j
  · subst h
    constructor
    · intro h1
      rw [unl_iff, List.getElem?_set] at h1
      simp at h1
    · intro h1; exact absurd rfl h1.2
  · rw [unl_set_ne _ _ h]
    constructor
    · intro h1; exact ⟨h1, fun e => h e.symm⟩
    · intro h1; exact h1.1

/-- bookkeeping invariant of `search_queue` / `search_found` -/
structure QInv (labels : List (Option Nat)) (found : List Bool) (queue : List Nat) : Prop where
  len : found.length = labels.length
  nd : queue.Nodup
  fq : ∀ j, found[j]?.getD false = true ↔ j ∈ queue
  qu : ∀ j ∈ queue, unl labels j = true

theorem QInv_push {labels : List (Option Nat)} {found : List Bool} {queue : List Nat} {j : Nat}
    (h : QInv labels found queue) (hj : unl labels j = true) (hjq : j ∉ queue) :
    QInv labels (found.set j true) (queue ++ [j]) := by
  have hjlt : j < found.length := by rw [h.len]; exact unl_lt hj
  refine ⟨by simp [h.len], ?_, ?_, ?_⟩
  · rw [List.nodup_append]
    refine ⟨h.nd, by simp, ?_⟩
    intro a ha b hb
    simp at hb
    subst hb
    intro e; subst e; exact hjq ha
  · intro k
    by_cases e : j = k
    · subst e
      simp [List.getElem?_set_self hjlt]
    · rw [List.getElem?_set_ne e, h.fq k]
      simp
      intro e'; exact absurd e'.symm e
  · intro k hk
    rcases List.mem_append.mp hk with a | a
    · exact h.qu k a
    · simp at a; subst a; exact hj

theorem pushAll_nil (found : List Bool) (queue : List Nat) : pushAll [] found queue = (found, queue) := rfl

theorem pushAll_cons (j : Nat) (res : List Nat) (found : List Bool) (queue : List Nat) :
    pushAll (j :: res) found queue =
      if found[j]?.getD false = true then pushAll res found queue
      else pushAll res (found.set j true) (queue ++ [j]) := by
  unfold pushAll
  simp only [List.foldl_cons]
  split <;> rfl

theorem pushAll_spec (labels : List (Option Nat)) :
    ∀ (res : List Nat) (found : List Bool) (queue : List Nat), QInv labels found queue →
      (∀ j ∈ res, unl labels j = true) →
      QInv labels (pushAll res found queue).1 (pushAll res found queue).2 ∧
      ∀ k, k ∈ (pushAll res found queue).2 ↔ (k ∈ queue ∨ k ∈ res) := by
  intro res
  induction res with
  | nil => intro found queue h _; simp [pushAll_nil, h]
  | cons j res ih =>
    intro found queue h hres
    rw [pushAll_cons]
    have hres' : ∀ k ∈ res, unl labels k = true := fun k hk => hres k (List.mem_cons_of_mem _ hk)
    by_cases hf : found[j]?.getD false = true
    · rw [if_pos hf]
      obtain ⟨h1, h2⟩ := ih found queue h hres'
      refine ⟨h1, fun k => ?_⟩
      rw [h2 k]
      have : j ∈ queue := (h.fq j).mp hf
      constructor
      · rintro (a | a)
        · exact Or.inl a
        · exact Or.inr (List.mem_cons_of_mem _ a)
      · rintro (a | a)
        · exact Or.inl a
        · rcases List.mem_cons.mp a with rfl | a
          · exact Or.inl this
          · exact Or.inr a
    · rw [if_neg hf]
      have hjq : j ∉ queue := fun hq => hf ((h.fq j).mpr hq)
      have hj : unl labels j = true := hres j (List.mem_cons_self ..)
      have hjlt : j < found.length := by rw [h.len]; exact unl_lt hj
      have h' : QInv labels (found.set j true) (queue ++ [j]) := QInv_push h hj hjq
      obtain ⟨h1, h2⟩ := ih _ _ h' hres'
      refine ⟨h1, fun k => ?_⟩
      rw [h2 k]
      simp only [List.mem_append, List.mem_cons, List.not_mem_nil, or_false]
      constructor
      · rintro ((a | a) | a)
        · exact Or.inl a
        · exact Or.inr (Or.inl a)
        · exact Or.inr (Or.inr a)
      · rintro (a | a | a)
        · exact Or.inl (Or.inl a)
        · exact Or.inl (Or.inr a)
        · exact Or.inr a

/-- effect of one pop, under the queue invariant -/
theorem popStep_spec (nbrs : Nat → List Nat) (mp cid : Nat) (s : State) (c : Nat) (q : List Nat)
    (h : QInv s.labels s.found s.queue) (hq : s.queue = c :: q) :
    let s' := popStep nbrs mp cid s c q
    s'.labels = s.labels.set c (some cid) ∧
    QInv s'.labels s'.found s'.queue ∧
    ∀ k, k ∈ s'.queue ↔
      (k ∈ q ∨ (mp ≤ (nbrs c).length ∧ k ∈ nbrs c ∧ unl s.labels k = true ∧ k ≠ c)) := by
  intro s'
  have hnd : (c :: q).Nodup := hq ▸ h.nd
  have hcq : c ∉ q := (List.nodup_cons.mp hnd).1
  have hc : unl s.labels c = true := h.qu c (by rw [hq]; exact List.mem_cons_self ..)
  have hclt : c < s.found.length := by rw [h.len]; exact unl_lt hc
  -- invariant after the pop, before the pushes
  have h0 : QInv (s.labels.set c (some cid)) (s.found.set c false) q := by
    refine ⟨by simp [h.len], (List.nodup_cons.mp hnd).2, ?_, ?_⟩
    · intro k
      by_cases e : c = k
      · subst e
        simp [List.getElem?_set_self hclt, hcq]
      · rw [List.getElem?_set_ne e, h.fq k, hq]
        simp
        intro e'; exact absurd e'.symm e
    · intro k hk
      rw [unl_set_some]
      refine ⟨h.qu k (by rw [hq]; exact List.mem_cons_of_mem _ hk), ?_⟩
      intro e; subst e; exact hcq hk
  by_cases hcore : mp ≤ (nbrs c).length
  · have hres : ∀ j ∈ (nbrs c).filter (fun j => unl s.labels j && j != c),
        unl (s.labels.set c (some cid)) j = true := by
      intro j hj
      simp only [List.mem_filter, Bool.and_eq_true, bne_iff_ne, ne_eq] at hj
      rw [unl_set_some]; exact ⟨hj.2.1, hj.2.2⟩
    obtain ⟨h1, h2⟩ := pushAll_spec _ _ _ _ h0 hres
    have e : s' = { labels := s.labels.set c (some cid),
                    found := (pushAll ((nbrs c).filter fun j => unl s.labels j && j != c) (s.found.set c false) q).1,
                    queue := (pushAll ((nbrs c).filter fun j => unl s.labels j && j != c) (s.found.set c false) q).2 } := by
      show popStep nbrs mp cid s c q = _
      unfold popStep findNeighbors
      simp [hcore]
    rw [e]
    refine ⟨rfl, h1, fun k => ?_⟩
    rw [h2 k]
    simp only [List.mem_filter, Bool.and_eq_true, bne_iff_ne, ne_eq]
    constructor
    · rintro (a | ⟨a, b, d⟩)
      · exact Or.inl a
      · exact Or.inr ⟨hcore, a, b, d⟩
    · rintro (a | ⟨_, a, b, d⟩)
      · exact Or.inl a
      · exact Or.inr ⟨a, b, d⟩
  · have e : s' = { labels := s.labels.set c (some cid), found := s.found.set c false, queue := q } := by
      show popStep nbrs mp cid s c q = _
      unfold popStep findNeighbors
      simp [hcore]
    rw [e]
    refine ⟨rfl, h0, fun k => ?_⟩
    constructor
    · intro a; exact Or.inl a
    · rintro (a | ⟨a, _⟩)
      · exact a
      · exact absurd a hcore

/-- induction principle for the `while let` loop -/
theorem bfs_induct (nbrs : Nat → List Nat) (mp cid : Nat) (P : State → Prop)
    (hstep : ∀ s c q, P s → s.queue = c :: q → P (popStep nbrs mp cid s c q)) :
    ∀ fuel s, P s → P (bfs nbrs mp cid fuel s) := by
  intro fuel
  induction fuel with
  | zero => intro s h; exact h
  | succ fuel ih =>
    intro s h
    unfold bfs
    split
    · exact h
    · rename_i c q hq
      exact ih _ (hstep s c q h hq)

/-! ## Layer 2: what the growth of one cluster establishes -/

/-- sample `x` carries cluster id `v` -/
def isLab (L : List (Option Nat)) (x v : Nat) : Prop := L[x]? = some (some v)

/-- core sample: at least `min_points` samples in range (the query result contains the sample itself) -/
def core (nbrs : Nat → List Nat) (mp x : Nat) : Prop := mp ≤ (nbrs x).length

/-- `Conn s x`: there is a chain of core samples from `s` to `x`, consecutive ones in range -/
inductive Conn (nbrs : Nat → List Nat) (mp : Nat) : Nat → Nat → Prop
  | refl (x : Nat) : Conn nbrs mp x x
  | step {x y z : Nat} : Conn nbrs mp x y → core nbrs mp y → core nbrs mp z → z ∈ nbrs y →
      Conn nbrs mp x z

theorem isLab_set (L : List (Option Nat)) (c cid x v : Nat) :
    isLab (L.set c (some cid)) x v ↔ ((x = c ∧ c < L.length ∧ v = cid) ∨ (x ≠ c ∧ isLab L x v)) := by
  unfold isLab
  rw [List.getElem?_set]
  by_cases h : c = x
  · subst h
    by_cases h2 : c < L.length
    · simp [h2]; constructor <;> (intro e; exact e.symm)
    · simp [h2]
  · have h' : x ≠ c := fun e => h e.symm
    simp [h, h']

theorem unl_not_isLab {L : List (Option Nat)} {x v : Nat} (h : unl L x = true) : ¬ isLab L x v := by
  rw [unl_iff] at h
  unfold isLab
  rw [h]; simp

theorem lab_cases (L : List (Option Nat)) (x : Nat) (hx : x < L.length) :
    unl L x = true ∨ ∃ v, isLab L x v := by
  rw [unl_iff]
  unfold isLab
  rw [List.getElem?_eq_getElem hx]
  cases L[x] with
  | none => exact Or.inl rfl
  | some v => exact Or.inr ⟨v, rfl⟩

theorem isLab_lt {L : List (Option Nat)} {x v : Nat} (h : isLab L x v) : x < L.length :=
  (List.getElem?_eq_some_iff.mp h).1

/-- invariant of the `while let` loop growing cluster `cid` from `seed`; `L0` = labels before -/
structure BInv (nbrs : Nat → List Nat) (mp : Nat) (L0 : List (Option Nat)) (cid seed : Nat)
    (s : State) : Prop where
  q : QInv s.labels s.found s.queue
  len : s.labels.length = L0.length
  keep : ∀ x v, isLab L0 x v → isLab s.labels x v
  new : ∀ x v, isLab s.labels x v → isLab L0 x v ∨ (unl L0 x = true ∧ v = cid)
  seedLab : isLab s.labels seed cid
  seedCore : core nbrs mp seed
  src : ∀ x, isLab s.labels x cid → unl L0 x = true →
    x = seed ∨ ∃ y, core nbrs mp y ∧ isLab s.labels y cid ∧ x ∈ nbrs y
  qsrc : ∀ x ∈ s.queue, ∃ y, core nbrs mp y ∧ isLab s.labels y cid ∧ x ∈ nbrs y
  closed : ∀ x, core nbrs mp x → isLab s.labels x cid → ∀ z ∈ nbrs x,
    (∃ w, isLab s.labels z w) ∨ z ∈ s.queue
  conn : ∀ x, core nbrs mp x → isLab s.labels x cid → Conn nbrs mp seed x

theorem BInv_popStep (nbrs : Nat → List Nat) (mp n : Nat) (L0 : List (Option Nat)) (cid seed : Nat)
    (hrange : ∀ i, ∀ j ∈ nbrs i, j < n) (hn : L0.length = n)
    (s : State) (c : Nat) (q : List Nat) (h : BInv nbrs mp L0 cid seed s) (hq : s.queue = c :: q) :
    BInv nbrs mp L0 cid seed (popStep nbrs mp cid s c q) := by
  obtain ⟨e1, q', hmem⟩ := popStep_spec nbrs mp cid s c q h.q hq
  have hc : unl s.labels c = true := h.q.qu c (by rw [hq]; exact List.mem_cons_self ..)
  have hclt : c < s.labels.length := unl_lt hc
  have hne : ∀ {x v}, isLab s.labels x v → x ≠ c := by
    intro x v hx e; subst e; exact unl_not_isLab hc hx
  have up : ∀ {x v}, isLab s.labels x v → isLab (popStep nbrs mp cid s c q).labels x v := by
    intro x v hx; rw [e1, isLab_set]; exact Or.inr ⟨hne hx, hx⟩
  have hcl : isLab (popStep nbrs mp cid s c q).labels c cid := by
    rw [e1, isLab_set]; exact Or.inl ⟨rfl, hclt, rfl⟩
  have hc0 : unl L0 c = true := by
    rcases lab_cases L0 c (by rw [← h.len]; exact hclt) with a | ⟨v, a⟩
    · exact a
    · exact absurd (h.keep c v a) (unl_not_isLab hc)
  refine ⟨q', by rw [e1]; simp [h.len], ?_, ?_, ?_, h.seedCore, ?_, ?_, ?_, ?_⟩
  · intro x v hx; exact up (h.keep x v hx)
  · intro x v hx
    rw [e1, isLab_set] at hx
    rcases hx with ⟨rfl, _, rfl⟩ | ⟨_, hx⟩
    · exact Or.inr ⟨hc0, rfl⟩
    · exact h.new x v hx
  · exact up h.seedLab
  · intro x hx hx0
    rw [e1, isLab_set] at hx
    rcases hx with ⟨rfl, _, _⟩ | ⟨_, hx⟩
    · obtain ⟨y, y1, y2, y3⟩ := h.qsrc x (by rw [hq]; exact List.mem_cons_self ..)
      exact Or.inr ⟨y, y1, up y2, y3⟩
    · rcases h.src x hx hx0 with a | ⟨y, y1, y2, y3⟩
      · exact Or.inl a
      · exact Or.inr ⟨y, y1, up y2, y3⟩
  · intro x hx
    rcases (hmem x).mp hx with a | ⟨a1, a2, _, _⟩
    · obtain ⟨y, y1, y2, y3⟩ := h.qsrc x (by rw [hq]; exact List.mem_cons_of_mem _ a)
      exact ⟨y, y1, up y2, y3⟩
    · exact ⟨c, a1, hcl, a2⟩
  · intro x hcx hx z hz
    have hzlt : z < s.labels.length := by rw [h.len, hn]; exact hrange x z hz
    by_cases ezc : z = c
    · subst ezc; exact Or.inl ⟨cid, hcl⟩
    rw [e1, isLab_set] at hx
    rcases hx with ⟨rfl, _, _⟩ | ⟨_, hx⟩
    · rcases lab_cases s.labels z hzlt with a | ⟨w, a⟩
      · exact Or.inr ((hmem z).mpr (Or.inr ⟨hcx, hz, a, ezc⟩))
      · exact Or.inl ⟨w, up a⟩
    · rcases h.closed x hcx hx z hz with ⟨w, a⟩ | a
      · exact Or.inl ⟨w, up a⟩
      · rw [hq] at a
        rcases List.mem_cons.mp a with a | a
        · exact absurd a ezc
        · exact Or.inr ((hmem z).mpr (Or.inl a))
  · intro x hcx hx
    rw [e1, isLab_set] at hx
    rcases hx with ⟨rfl, _, _⟩ | ⟨_, hx⟩
    · obtain ⟨y, y1, y2, y3⟩ := h.qsrc x (by rw [hq]; exact List.mem_cons_self ..)
      exact Conn.step (h.conn y y1 y2) y1 hcx y3
    · exact h.conn x hcx hx

/-- termination: the number of unlabelled samples bounds the number of pops -/
theorem bfs_queue_empty (nbrs : Nat → List Nat) (mp cid : Nat) :
    ∀ fuel s, QInv s.labels s.found s.queue → s.labels.count none ≤ fuel →
      (bfs nbrs mp cid fuel s).queue = [] := by
  intro fuel
  induction fuel with
  | zero =>
    intro s h hc
    unfold bfs
    cases hq : s.queue with
    | nil => rfl
    | cons c q =>
      have hcu : unl s.labels c = true := h.qu c (by rw [hq]; exact List.mem_cons_self ..)
      rw [unl_iff] at hcu
      have : none ∈ s.labels := List.mem_of_getElem? hcu
      have := List.count_pos_iff.mpr this
      omega
  | succ fuel ih =>
    intro s h hc
    unfold bfs
    split
    · assumption
    · rename_i c q hq
      obtain ⟨e1, q', _⟩ := popStep_spec nbrs mp cid s c q h hq
      apply ih _ q'
      have hcu : unl s.labels c = true := h.qu c (by rw [hq]; exact List.mem_cons_self ..)
      have hclt := unl_lt hcu
      rw [unl_iff] at hcu
      have hmem : none ∈ s.labels := List.mem_of_getElem? hcu
      have hpos := List.count_pos_iff.mpr hmem
      have hget : s.labels[c] = none := by
        have := List.getElem?_eq_getElem hclt
        rw [hcu] at this; exact (Option.some.inj this).symm
      rw [e1, List.count_set hclt, hget]
      simp
      omega

/-! ## Layer 3: the outer scan -/

/-- what holds between two iterations of the outer `for`, `c` = `current_cluster_id` -/
structure GInv (nbrs : Nat → List Nat) (mp n : Nat) (L : List (Option Nat)) (c : Nat) : Prop where
  len : L.length = n
  lt : ∀ x v, isLab L x v → v < c
  seeds : ∀ v, v < c → ∃ s, isLab L s v ∧ core nbrs mp s ∧
    ∀ x, core nbrs mp x → isLab L x v → Conn nbrs mp s x
  sound : ∀ x v, isLab L x v → core nbrs mp x ∨ ∃ y, core nbrs mp y ∧ isLab L y v ∧ x ∈ nbrs y
  closed : ∀ x v, isLab L x v → core nbrs mp x → ∀ z ∈ nbrs x, ∃ w, isLab L z w
  adj : ∀ x y v w, core nbrs mp x → core nbrs mp y → y ∈ nbrs x → isLab L x v → isLab L y w → v = w

theorem GInv_of_BInv (nbrs : Nat → List Nat) (mp n : Nat)
    (hsym : ∀ i j, j ∈ nbrs i → i ∈ nbrs j)
    (L0 : List (Option Nat)) (cid seed : Nat) (s : State)
    (g : GInv nbrs mp n L0 cid) (b : BInv nbrs mp L0 cid seed s) (hq : s.queue = []) :
    GInv nbrs mp n s.labels (cid + 1) := by
  refine ⟨by rw [b.len, g.len], ?_, ?_, ?_, ?_, ?_⟩
  · intro x v hx
    rcases b.new x v hx with a | ⟨_, rfl⟩
    · have := g.lt x v a; omega
    · omega
  · intro v hv
    by_cases e : v = cid
    · subst e
      exact ⟨seed, b.seedLab, b.seedCore, fun x hcx hx => b.conn x hcx hx⟩
    · obtain ⟨s0, a1, a2, a3⟩ := g.seeds v (by omega)
      refine ⟨s0, b.keep _ _ a1, a2, fun x hcx hx => ?_⟩
      rcases b.new x v hx with a | ⟨_, a⟩
      · exact a3 x hcx a
      · exact absurd a e
  · intro x v hx
    rcases b.new x v hx with a | ⟨a, rfl⟩
    · rcases g.sound x v a with c1 | ⟨y, y1, y2, y3⟩
      · exact Or.inl c1
      · exact Or.inr ⟨y, y1, b.keep _ _ y2, y3⟩
    · rcases b.src x hx a with rfl | ⟨y, y1, y2, y3⟩
      · exact Or.inl b.seedCore
      · exact Or.inr ⟨y, y1, y2, y3⟩
  · intro x v hx hcx z hz
    rcases b.new x v hx with a | ⟨_, rfl⟩
    · obtain ⟨w, hw⟩ := g.closed x v a hcx z hz
      exact ⟨w, b.keep _ _ hw⟩
    · rcases b.closed x hcx hx z hz with a | a
      · exact a
      · rw [hq] at a; exact absurd a (List.not_mem_nil)
  · intro x y v w hcx hcy hxy hx hy
    rcases b.new x v hx with a | ⟨a, rfl⟩
    · rcases b.new y w hy with a' | ⟨a', _⟩
      · exact g.adj x y v w hcx hcy hxy a a'
      · obtain ⟨w', hw'⟩ := g.closed x v a hcx y hxy
        exact absurd hw' (unl_not_isLab a')
    · rcases b.new y w hy with a' | ⟨_, rfl⟩
      · obtain ⟨w', hw'⟩ := g.closed y w a' hcy x (hsym x y hxy)
        exact absurd hw' (unl_not_isLab a)
      · rfl

theorem markAll_cons (j : Nat) (res : List Nat) (found : List Bool) :
    markAll (j :: res) found = markAll res (found.set j true) := rfl

theorem pushAll_fresh (labels : List (Option Nat)) :
    ∀ (res : List Nat) (found : List Bool) (queue : List Nat), QInv labels found queue →
      (∀ j ∈ res, unl labels j = true) → res.Nodup → (∀ j ∈ res, j ∉ queue) →
      pushAll res found queue = (markAll res found, queue ++ res) := by
  intro res
  induction res with
  | nil => intro found queue _ _ _ _; simp [pushAll_nil, markAll]
  | cons j res ih =>
    intro found queue h hres hnd hfresh
    have hjq : j ∉ queue := hfresh j (List.mem_cons_self ..)
    have hf : ¬ found[j]?.getD false = true := fun hf => hjq ((h.fq j).mp hf)
    have hj : unl labels j = true := hres j (List.mem_cons_self ..)
    rw [pushAll_cons, if_neg hf, markAll_cons]
    have hnd' := List.nodup_cons.mp hnd
    rw [ih _ _ (QInv_push h hj hjq) (fun k hk => hres k (List.mem_cons_of_mem _ hk)) hnd'.2]
    · simp
    · intro k hk hkq
      rcases List.mem_append.mp hkq with a | a
      · exact hfresh k (List.mem_cons_of_mem _ hk) a
      · simp at a; subst a; exact hnd'.1 hk

theorem BInv_init (nbrs : Nat → List Nat) (mp n : Nat)
    (hrange : ∀ i, ∀ j ∈ nbrs i, j < n) (hnd : ∀ i, (nbrs i).Nodup)
    (L0 : List (Option Nat)) (found0 : List Bool) (cid i : Nat)
    (g : GInv nbrs mp n L0 cid) (hq0 : QInv L0 found0 []) (hi : unl L0 i = true)
    (hcore : core nbrs mp i) :
    BInv nbrs mp L0 cid i
      { labels := L0.set i (some cid),
        found := markAll ((nbrs i).filter fun j => unl L0 j && j != i) found0,
        queue := [] ++ (nbrs i).filter fun j => unl L0 j && j != i } := by
  have hilt : i < L0.length := unl_lt hi
  have hres : ∀ j ∈ (nbrs i).filter (fun j => unl L0 j && j != i),
      unl (L0.set i (some cid)) j = true := by
    intro j hj
    simp only [List.mem_filter, Bool.and_eq_true, bne_iff_ne, ne_eq] at hj
    rw [unl_set_some]; exact ⟨hj.2.1, hj.2.2⟩
  have hq1 : QInv (L0.set i (some cid)) found0 [] :=
    ⟨by simp [hq0.len], List.nodup_nil, hq0.fq, fun j hj => absurd hj List.not_mem_nil⟩
  have hfresh := pushAll_fresh _ _ _ _ hq1 hres ((hnd i).filter _) (fun j _ => List.not_mem_nil)
  obtain ⟨p1, p2⟩ := pushAll_spec _ _ _ _ hq1 hres
  rw [hfresh] at p1 p2
  have hne : ∀ {x v}, isLab L0 x v → x ≠ i := by
    intro x v hx e; subst e; exact unl_not_isLab hi hx
  have up : ∀ {x v}, isLab L0 x v → isLab (L0.set i (some cid)) x v := by
    intro x v hx; rw [isLab_set]; exact Or.inr ⟨hne hx, hx⟩
  have hil : isLab (L0.set i (some cid)) i cid := by
    rw [isLab_set]; exact Or.inl ⟨rfl, hilt, rfl⟩
  -- a sample labelled `cid` now is the seed
  have only : ∀ {x}, isLab (L0.set i (some cid)) x cid → x = i := by
    intro x hx
    rw [isLab_set] at hx
    rcases hx with ⟨a, _, _⟩ | ⟨_, a⟩
    · exact a
    · have := g.lt x cid a; omega
  refine ⟨p1, by simp, fun x v hx => up hx, ?_, hil, hcore, ?_, ?_, ?_, ?_⟩
  · intro x v hx
    rw [isLab_set] at hx
    rcases hx with ⟨rfl, _, rfl⟩ | ⟨_, hx⟩
    · exact Or.inr ⟨hi, rfl⟩
    · exact Or.inl hx
  · intro x hx _; exact Or.inl (only hx)
  · intro x hx
    have := (p2 x).mp hx
    simp only [List.not_mem_nil, false_or, List.mem_filter] at this
    exact ⟨i, hcore, hil, this.1⟩
  · intro x _ hx z hz
    have := only hx; subst this
    by_cases ez : z = x
    · subst ez; exact Or.inl ⟨cid, hil⟩
    have hzlt : z < L0.length := by rw [g.len]; exact hrange x z hz
    rcases lab_cases L0 z hzlt with a | ⟨w, a⟩
    · refine Or.inr ((p2 z).mpr (Or.inr ?_))
      simp only [List.mem_filter, Bool.and_eq_true, bne_iff_ne, ne_eq]
      exact ⟨hz, a, ez⟩
    · exact Or.inl ⟨w, up a⟩
  · intro x _ hx
    have := only hx; subst this
    exact Conn.refl _

/-- state between two iterations of the outer `for`, before index `i` -/
structure OInv (nbrs : Nat → List Nat) (mp n : Nat) (sc : State × Nat) (i : Nat) : Prop where
  g : GInv nbrs mp n sc.1.labels sc.2
  q : QInv sc.1.labels sc.1.found []
  qe : sc.1.queue = []
  scanned : ∀ j, j < i → unl sc.1.labels j = true → ¬ core nbrs mp j

theorem OInv_step (nbrs : Nat → List Nat) (mp n : Nat)
    (hrange : ∀ i, ∀ j ∈ nbrs i, j < n) (hnd : ∀ i, (nbrs i).Nodup)
    (hsym : ∀ i j, j ∈ nbrs i → i ∈ nbrs j)
    (sc : State × Nat) (i : Nat) (h : OInv nbrs mp n sc i) :
    OInv nbrs mp n (outerStep nbrs mp n sc i) (i + 1) := by
  unfold outerStep
  by_cases hu : unl sc.1.labels i = true
  · simp only [hu, Bool.not_true, Bool.false_eq_true, if_false, findNeighbors]
    by_cases hc : (nbrs i).length < mp
    · simp only [hc, if_true]
      refine ⟨h.g, h.q, h.qe, fun j hj hju => ?_⟩
      by_cases e : j = i
      · subst e; unfold core; omega
      · exact h.scanned j (by omega) hju
    · simp only [hc, if_false]
      have hcore : core nbrs mp i := by unfold core; omega
      rw [h.qe]
      have b0 := BInv_init nbrs mp n hrange hnd sc.1.labels sc.1.found sc.2 i h.g h.q hu hcore
      generalize hs1 : State.mk (sc.1.labels.set i (some sc.2))
        (markAll ((nbrs i).filter (fun j => unl sc.1.labels j && j != i)) sc.1.found)
        ([] ++ (nbrs i).filter (fun j => unl sc.1.labels j && j != i)) = s1 at b0 ⊢
      have b1 : BInv nbrs mp sc.1.labels sc.2 i (bfs nbrs mp sc.2 n s1) :=
        bfs_induct nbrs mp sc.2 (BInv nbrs mp sc.1.labels sc.2 i)
          (fun s c q hs hq => BInv_popStep nbrs mp n sc.1.labels sc.2 i hrange h.g.len s c q hs hq)
          n s1 b0
      have hqe : (bfs nbrs mp sc.2 n s1).queue = [] := by
        apply bfs_queue_empty nbrs mp sc.2 n s1 b0.q
        have := List.count_le_length (a := (none : Option Nat)) (l := s1.labels)
        rw [b0.len, h.g.len] at this
        exact this
      have g1 := GInv_of_BInv nbrs mp n hsym sc.1.labels sc.2 i _ h.g b1 hqe
      refine ⟨g1, ?_, hqe, fun j hj hju => ?_⟩
      · have := b1.q; rw [hqe] at this; exact this
      · have hjlt : j < sc.1.labels.length := by rw [← b1.len]; exact unl_lt hju
        have hju0 : unl sc.1.labels j = true := by
          rcases lab_cases sc.1.labels j hjlt with a | ⟨v, a⟩
          · exact a
          · exact absurd (b1.keep j v a) (unl_not_isLab hju)
        by_cases e : j = i
        · subst e; exact absurd b1.seedLab (unl_not_isLab hju)
        · exact h.scanned j (by omega) hju0
  · have hu' : unl sc.1.labels i = false := by simpa using hu
    simp only [hu', Bool.not_false, if_true]
    refine ⟨h.g, h.q, h.qe, fun j hj hju => ?_⟩
    by_cases e : j = i
    · subst e; rw [hu'] at hju; exact absurd hju (by simp)
    · exact h.scanned j (by omega) hju

theorem OInv_init (nbrs : Nat → List Nat) (mp n : Nat) : OInv nbrs mp n (init n, 0) 0 := by
  have nolab : ∀ x v, ¬ isLab (List.replicate n (none : Option Nat)) x v := by
    intro x v h
    unfold isLab at h
    rw [List.getElem?_replicate] at h
    split at h <;> simp at h
  refine ⟨⟨by simp [init], ?_, ?_, ?_, ?_, ?_⟩, ⟨by simp [init], List.nodup_nil, ?_, ?_⟩, rfl, ?_⟩
  · intro x v h; exact absurd h (nolab x v)
  · intro v hv; omega
  · intro x v h; exact absurd h (nolab x v)
  · intro x v h; exact absurd h (nolab x v)
  · intro x y v w _ _ _ h; exact absurd h (nolab x v)
  · intro j
    simp only [init, List.getElem?_replicate]
    split <;> simp
  · intro j hj; exact absurd hj List.not_mem_nil
  · intro j hj; omega

theorem OInv_run (nbrs : Nat → List Nat) (mp n : Nat)
    (hrange : ∀ i, ∀ j ∈ nbrs i, j < n) (hnd : ∀ i, (nbrs i).Nodup)
    (hsym : ∀ i j, j ∈ nbrs i → i ∈ nbrs j) :
    ∀ k, OInv nbrs mp n ((List.range k).foldl (outerStep nbrs mp n) (init n, 0)) k := by
  intro k
  induction k with
  | zero => exact OInv_init nbrs mp n
  | succ k ih =>
    rw [List.range_succ, List.foldl_append]
    exact OInv_step nbrs mp n hrange hnd hsym _ k ih

/-! ## Layer 4: cluster ids are handed out in the order of the outer scan -/

/-- every id `v` in use has a core sample `s` (the sample that started the cluster) that precedes every
core sample carrying a larger id -/
def Ord (nbrs : Nat → List Nat) (mp : Nat) (L : List (Option Nat)) (c k : Nat) : Prop :=
  ∀ v, v < c → ∃ s, s < k ∧ core nbrs mp s ∧ isLab L s v ∧
    ∀ y w, core nbrs mp y → isLab L y w → v < w → s < y

theorem Ord_step (nbrs : Nat → List Nat) (mp n : Nat)
    (hrange : ∀ i, ∀ j ∈ nbrs i, j < n) (hnd : ∀ i, (nbrs i).Nodup)
    (sc : State × Nat) (i : Nat) (h : OInv nbrs mp n sc i) (ho : Ord nbrs mp sc.1.labels sc.2 i) :
    Ord nbrs mp (outerStep nbrs mp n sc i).1.labels (outerStep nbrs mp n sc i).2 (i + 1) := by
  have weaken : Ord nbrs mp sc.1.labels sc.2 (i + 1) := by
    intro v hv
    obtain ⟨s, s1, s2⟩ := ho v hv
    exact ⟨s, by omega, s2⟩
  unfold outerStep
  by_cases hu : unl sc.1.labels i = true
  · simp only [hu, Bool.not_true, Bool.false_eq_true, if_false, findNeighbors]
    by_cases hc : (nbrs i).length < mp
    · simp only [hc, if_true]
      exact weaken
    · simp only [hc, if_false]
      have hcore : core nbrs mp i := by unfold core; omega
      rw [h.qe]
      have b0 := BInv_init nbrs mp n hrange hnd sc.1.labels sc.1.found sc.2 i h.g h.q hu hcore
      generalize hs1 : State.mk (sc.1.labels.set i (some sc.2))
        (markAll ((nbrs i).filter (fun j => unl sc.1.labels j && j != i)) sc.1.found)
        ([] ++ (nbrs i).filter (fun j => unl sc.1.labels j && j != i)) = s1 at b0 ⊢
      have b1 : BInv nbrs mp sc.1.labels sc.2 i (bfs nbrs mp sc.2 n s1) :=
        bfs_induct nbrs mp sc.2 (BInv nbrs mp sc.1.labels sc.2 i)
          (fun s c q hs hq => BInv_popStep nbrs mp n sc.1.labels sc.2 i hrange h.g.len s c q hs hq)
          n s1 b0
      intro v hv
      by_cases hvc : v < sc.2
      · obtain ⟨s, s1', s2, s3, s4⟩ := ho v hvc
        refine ⟨s, by omega, s2, b1.keep s v s3, fun y w hy hyw hvw => ?_⟩
        rcases b1.new y w hyw with a | ⟨a, _⟩
        · exact s4 y w hy a hvw
        · -- `y` was unlabelled before this cluster and is core: the scan has not passed it
          have : ¬ y < i := fun hlt => h.scanned y hlt a hy
          omega
      · have hveq : v = sc.2 := by omega
        subst hveq
        refine ⟨i, by omega, hcore, b1.seedLab, fun y w _ hyw hvw => ?_⟩
        rcases b1.new y w hyw with a | ⟨_, a⟩
        · have := h.g.lt y w a; omega
        · omega
  · have hu' : unl sc.1.labels i = false := by simpa using hu
    simp only [hu', Bool.not_false, if_true]
    exact weaken

theorem Ord_run (nbrs : Nat → List Nat) (mp n : Nat)
    (hrange : ∀ i, ∀ j ∈ nbrs i, j < n) (hnd : ∀ i, (nbrs i).Nodup)
    (hsym : ∀ i j, j ∈ nbrs i → i ∈ nbrs j) :
    ∀ k, Ord nbrs mp ((List.range k).foldl (outerStep nbrs mp n) (init n, 0)).1.labels
      ((List.range k).foldl (outerStep nbrs mp n) (init n, 0)).2 k := by
  intro k
  induction k with
  | zero => intro v hv; simp [init] at hv
  | succ k ih =>
    rw [List.range_succ, List.foldl_append]
    exact Ord_step nbrs mp n hrange hnd _ k (OInv_run nbrs mp n hrange hnd hsym k) ih

theorem isLab_inj {L : List (Option Nat)} {x v w : Nat} (h1 : isLab L x v) (h2 : isLab L x w) : v = w := by
  unfold isLab at h1 h2
  rw [h1] at h2
  exact Option.some.inj (Option.some.inj h2)

/-- two labellings of the same samples `C` that induce the same partition of `C` and both number their
classes in the order of the smallest member are equal on `C` -/
theorem labels_eq_dir (C : Nat → Prop) (L₁ L₂ : List (Option Nat))
    (lab₁ : ∀ x, C x → ∃ v, isLab L₁ x v) (lab₂ : ∀ x, C x → ∃ v, isLab L₂ x v)
    (part : ∀ x y, C x → C y →
      ((∃ v, isLab L₁ x v ∧ isLab L₁ y v) ↔ (∃ v, isLab L₂ x v ∧ isLab L₂ y v)))
    (o₁ : ∀ v w y, v < w → C y → isLab L₁ y w →
      ∃ s, C s ∧ isLab L₁ s v ∧ ∀ y', C y' → isLab L₁ y' w → s < y')
    (o₂ : ∀ v w y, v < w → C y → isLab L₂ y w →
      ∃ s, C s ∧ isLab L₂ s v ∧ ∀ y', C y' → isLab L₂ y' w → s < y')
    (v : Nat) (ih : ∀ u, u < v → ∀ x, C x → (isLab L₁ x u ↔ isLab L₂ x u))
    (x : Nat) (hx : C x) (h1 : isLab L₁ x v) : isLab L₂ x v := by
  obtain ⟨w, hw⟩ := lab₂ x hx
  rcases Nat.lt_trichotomy w v with hlt | heq | hgt
  · have := (ih w hlt x hx).mpr hw
    have := isLab_inj this h1; omega
  · subst heq; exact hw
  · obtain ⟨s₂, c2, l2, m2⟩ := o₂ v w x hgt hx hw
    obtain ⟨u, hu⟩ := lab₁ s₂ c2
    rcases Nat.lt_trichotomy u v with ult | ueq | ugt
    · have := (ih u ult s₂ c2).mp hu
      have := isLab_inj this l2; omega
    · subst ueq
      obtain ⟨v', a, b⟩ := (part s₂ x c2 hx).mp ⟨u, hu, h1⟩
      have e1 := isLab_inj a l2
      have e2 := isLab_inj b hw
      omega
    · obtain ⟨s₁, c1, l1, m1⟩ := o₁ v u s₂ ugt c2 hu
      have lt1 : s₁ < s₂ := m1 s₂ c2 hu
      obtain ⟨v', a, b⟩ := (part s₁ x c1 hx).mp ⟨v, l1, h1⟩
      have e2 := isLab_inj b hw
      subst e2
      have lt2 : s₂ < s₁ := m2 s₁ c1 a
      omega

theorem labels_eq_of_spec (C : Nat → Prop) (L₁ L₂ : List (Option Nat))
    (lab₁ : ∀ x, C x → ∃ v, isLab L₁ x v) (lab₂ : ∀ x, C x → ∃ v, isLab L₂ x v)
    (part : ∀ x y, C x → C y →
      ((∃ v, isLab L₁ x v ∧ isLab L₁ y v) ↔ (∃ v, isLab L₂ x v ∧ isLab L₂ y v)))
    (o₁ : ∀ v w y, v < w → C y → isLab L₁ y w →
      ∃ s, C s ∧ isLab L₁ s v ∧ ∀ y', C y' → isLab L₁ y' w → s < y')
    (o₂ : ∀ v w y, v < w → C y → isLab L₂ y w →
      ∃ s, C s ∧ isLab L₂ s v ∧ ∀ y', C y' → isLab L₂ y' w → s < y') :
    ∀ v x, C x → (isLab L₁ x v ↔ isLab L₂ x v) := by
  intro v
  induction v using Nat.strongRecOn with
  | _ v ih =>
    intro x hx
    constructor
    · exact labels_eq_dir C L₁ L₂ lab₁ lab₂ part o₁ o₂ v ih x hx
    · exact labels_eq_dir C L₂ L₁ lab₂ lab₁ (fun x y a b => (part x y a b).symm) o₂ o₁ v
        (fun u hu x hx => (ih u hu x hx).symm) x hx

end LinfaSpec.Dbscan
