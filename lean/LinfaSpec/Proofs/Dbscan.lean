import LinfaSpec.Model.Dbscan
import LinfaSpec.Model.Optics

/-!
Helper lemmas for C08 (DBSCAN / OPTICS models).
-/
namespace LinfaSpec.Dbscan

end LinfaSpec.Dbscan
