import LinfaSpec.Model.Kernel
import Mathlib.Analysis.SpecialFunctions.Pow.Real
import Mathlib.Analysis.Real.Sqrt

/-! The real-number carrier of the `Transc` / `KPow` primitives (used by the C06 theorems that
mention `exp`). -/
namespace LinfaSpec.Kernel

noncomputable instance realTransc : Transc ℝ := ⟨Real.sqrt, Real.exp, Real.log⟩
noncomputable instance realKPow : KPow ℝ := ⟨fun x y => x ^ y⟩

theorem real_exp_zero : (Transc.exp (0 : ℝ)) = 1 := Real.exp_zero

end LinfaSpec.Kernel
