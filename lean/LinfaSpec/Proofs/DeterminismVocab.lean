import LinfaSpec.Proofs.DeterminismOrder
import Mathlib.Data.List.Perm.Basic
import Mathlib.Data.List.Nodup
import Mathlib.Data.List.Induction

/-!
Helper lemmas for C20, text vocabularies: the `max_features` selection of `CountVectorizer` is a
top-k by a key whose tie-break (the word) is a total order on what is observable of an entry, so
it depends neither on the iteration order of the vocabulary map nor on the insertion indexes
(which follow the iteration order of the per-document hash sets).
-/
namespace LinfaSpec.Determinism
open List

section Vocabulary
variable {κ : Type} [LinearOrder κ]

/-- the sort key `(Reverse(freq), Reverse(word), x)` as an element of a lexicographic order -/
def capKey (e : κ × Nat × Nat) : Lex (Natᵒᵈ × Lex (κᵒᵈ × Nat)) :=
  toLex (OrderDual.toDual e.2.2, toLex (OrderDual.toDual e.1, e.2.1))

theorem capLe_iff (a b : κ × Nat × Nat) : capLe a b = true ↔ capKey a ≤ capKey b := by
  unfold capLe capKey
  rw [Prod.Lex.toLex_le_toLex, Prod.Lex.toLex_le_toLex]
  simp only [Bool.or_eq_true, Bool.and_eq_true, decide_eq_true_eq, Bool.not_eq_eq_eq_not,
    Bool.not_true, decide_eq_false_iff_not, OrderDual.toDual_lt_toDual, EmbeddingLike.apply_eq_iff_eq]
  constructor
  · rintro (h | ⟨h1, h2 | ⟨h2, h3⟩⟩)
    · exact Or.inl h
    · exact Or.inr ⟨h1, Or.inl h2⟩
    · rcases lt_or_eq_of_le (not_lt.mp h2) with h | h
      · exact Or.inr ⟨h1, Or.inl h⟩
      · exact Or.inr ⟨h1, Or.inr ⟨h.symm, h3⟩⟩
  · rintro (h | ⟨h1, h2 | ⟨h2, h3⟩⟩)
    · exact Or.inl h
    · exact Or.inr ⟨h1, Or.inl h2⟩
    · exact Or.inr ⟨h1, Or.inr ⟨by rw [h2]; exact lt_irrefl _, h3⟩⟩

theorem capLe_trans (a b c : κ × Nat × Nat) (h1 : capLe a b = true) (h2 : capLe b c = true) :
    capLe a c = true :=
  (capLe_iff a c).mpr (le_trans ((capLe_iff a b).mp h1) ((capLe_iff b c).mp h2))

theorem capLe_total (a b : κ × Nat × Nat) : (capLe a b || capLe b a) = true := by
  rw [Bool.or_eq_true, capLe_iff, capLe_iff]
  exact le_total _ _

omit [LinearOrder κ] in
theorem capKey_injective [LinearOrder κ] : Function.Injective (capKey (κ := κ)) := by
  intro a b h
  have h' := toLex.injective h
  simp only [Prod.mk.injEq] at h'
  have h2 := toLex.injective h'.2
  simp only [Prod.mk.injEq] at h2
  exact Prod.ext (OrderDual.toDual.injective h2.1) (Prod.ext h2.2 (OrderDual.toDual.injective h'.1))

/-- the order the selection induces on the observable part `(word, document frequency)` -/
def pairKey (p : κ × Nat) : Lex (Natᵒᵈ × κᵒᵈ) := toLex (OrderDual.toDual p.2, OrderDual.toDual p.1)

omit [LinearOrder κ] in
theorem pairKey_injective [LinearOrder κ] : Function.Injective (pairKey (κ := κ)) := by
  intro a b h
  have h' := toLex.injective h
  simp only [Prod.mk.injEq] at h'
  exact Prod.ext (OrderDual.toDual.injective h'.2) (OrderDual.toDual.injective h'.1)

theorem capKey_le_pairKey {a b : κ × Nat × Nat} (h : capKey a ≤ capKey b) :
    pairKey (wordDf a) ≤ pairKey (wordDf b) := by
  unfold capKey at h
  unfold pairKey wordDf
  rw [Prod.Lex.toLex_le_toLex] at h ⊢
  rcases h with h | ⟨h1, h2⟩
  · exact Or.inl h
  · rw [Prod.Lex.toLex_le_toLex] at h2
    rcases h2 with h2 | ⟨h2, _⟩
    · exact Or.inr ⟨h1, le_of_lt h2⟩
    · exact Or.inr ⟨h1, le_of_eq h2⟩

/-- the sorted vocabulary, seen through `wordDf`, is sorted for `pairKey` -/
theorem sorted_wordDf (m : List (κ × Nat × Nat)) :
    ((m.mergeSort capLe).map wordDf).Pairwise fun p q => pairKey p ≤ pairKey q := by
  rw [List.pairwise_map]
  have hs := List.pairwise_mergeSort (le := capLe) capLe_trans capLe_total m
  exact hs.imp fun {a b} h => capKey_le_pairKey ((capLe_iff a b).mp h)

/-- **the selection depends on the (word, frequency) multiset only** -/
theorem sort_wordDf_perm {m₁ m₂ : List (κ × Nat × Nat)} (p : m₁.map wordDf ~ m₂.map wordDf) :
    (m₁.mergeSort capLe).map wordDf = (m₂.mergeSort capLe).map wordDf := by
  apply List.Perm.eq_of_pairwise (le := fun p q => pairKey p ≤ pairKey q)
  · intro a b _ _ hab hba
    exact pairKey_injective (le_antisymm hab hba)
  · exact sorted_wordDf m₁
  · exact sorted_wordDf m₂
  · exact (((List.mergeSort_perm m₁ capLe).map wordDf).trans p).trans
      ((List.mergeSort_perm m₂ capLe).map wordDf).symm

/-- the frequency window and the stop words look at `wordDf` only -/
theorem dfFilter_wordDf (minAbs maxAbs : Nat) (stop : List κ) (v : List (κ × Nat × Nat)) :
    (dfFilter minAbs maxAbs stop v).map wordDf =
      (v.map wordDf).filter fun p => decide (minAbs ≤ p.2) && decide (p.2 ≤ maxAbs) && !(stop.contains p.1) := by
  unfold dfFilter
  rw [List.filter_map]
  rfl

/-! ### the raw vocabulary is a word count -/

/-- `vocabStep` seen through `wordDf`: a word counter on (word, count) pairs -/
def pStep (p : List (κ × Nat)) (w : κ) : List (κ × Nat) :=
  if p.any (fun e => e.1 = w) then p.map (fun e => if e.1 = w then (e.1, e.2 + 1) else e)
  else p ++ [(w, 1)]

theorem vocabStep_wordDf (v : List (κ × Nat × Nat)) (w : κ) :
    (vocabStep v w).map wordDf = pStep (v.map wordDf) w := by
  unfold vocabStep pStep
  have hany : (v.map wordDf).any (fun e => decide (e.1 = w)) = v.any (fun e => decide (e.1 = w)) := by
    rw [List.any_map]; rfl
  rw [hany]
  split
  · rw [List.map_map, List.map_map]
    apply List.map_congr_left
    intro e _
    by_cases h : e.1 = w <;> simp [wordDf, h]
  · simp [wordDf]

theorem readDocument_wordDf (v : List (κ × Nat × Nat)) (d : List κ) :
    (readDocument v d).map wordDf = d.foldl pStep (v.map wordDf) := by
  unfold readDocument
  induction d generalizing v with
  | nil => rfl
  | cons w ws ih => rw [List.foldl_cons, ih, vocabStep_wordDf, List.foldl_cons]

theorem foldl_readDocument_wordDf (docs : List (List κ)) (v : List (κ × Nat × Nat)) :
    (docs.foldl readDocument v).map wordDf = docs.flatten.foldl pStep (v.map wordDf) := by
  induction docs generalizing v with
  | nil => rfl
  | cons d ds ih => rw [List.foldl_cons, ih, readDocument_wordDf, List.flatten_cons, List.foldl_append]

/-- the raw vocabulary, seen through `wordDf`, is the word count of the concatenated document sets -/
theorem buildVocabulary_wordDf (docs : List (List κ)) :
    (buildVocabulary docs).map wordDf = docs.flatten.foldl pStep [] :=
  foldl_readDocument_wordDf docs []

def CountInv (p : List (κ × Nat)) (ws : List κ) : Prop :=
  (p.map Prod.fst).Nodup ∧ ∀ x c, (x, c) ∈ p ↔ (c = ws.count x ∧ 0 < c)

theorem count_snoc (ws : List κ) (w x : κ) :
    (ws ++ [w]).count x = ws.count x + if x = w then 1 else 0 := by
  rw [List.count_append, List.count_singleton]
  by_cases h : x = w
  · simp [h]
  · have : ¬ w = x := fun h' => h h'.symm
    simp [h, this]

theorem pStep_inv {p : List (κ × Nat)} {ws : List κ} (h : CountInv p ws) (w : κ) :
    CountInv (pStep p w) (ws ++ [w]) := by
  obtain ⟨hk, hm⟩ := h
  unfold pStep
  split
  next hany =>
    rw [List.any_eq_true] at hany
    obtain ⟨e0, he0, hw⟩ := hany
    have hw : e0.1 = w := by simpa using hw
    have hmem0 : (w, e0.2) ∈ p := by rw [← hw]; exact he0
    have hc0 := (hm w e0.2).mp hmem0
    constructor
    · have : (p.map fun e => if e.1 = w then (e.1, e.2 + 1) else e).map Prod.fst = p.map Prod.fst := by
        rw [List.map_map]
        apply List.map_congr_left
        intro e _
        by_cases h : e.1 = w <;> simp [h]
      rw [this]; exact hk
    · intro x c
      rw [List.mem_map, count_snoc]
      constructor
      · rintro ⟨e, he, hge⟩
        have hce := (hm e.1 e.2).mp he
        by_cases h : e.1 = w
        · rw [if_pos h] at hge
          have hx : e.1 = x := congrArg Prod.fst hge
          have hc : e.2 + 1 = c := congrArg Prod.snd hge
          have hxw : x = w := by rw [← hx]; exact h
          rw [if_pos hxw, ← hc, hce.1, hx]
          exact ⟨rfl, Nat.succ_pos _⟩
        · rw [if_neg h] at hge
          have hx : e.1 = x := congrArg Prod.fst hge
          have hc : e.2 = c := congrArg Prod.snd hge
          have hxw : ¬ x = w := by rw [← hx]; exact h
          rw [if_neg hxw, ← hc, ← hx]
          exact ⟨by simpa using hce.1, hce.2⟩
      · rintro ⟨hc, hpos⟩
        by_cases hxw : x = w
        · rw [if_pos hxw] at hc
          refine ⟨(w, e0.2), hmem0, ?_⟩
          rw [if_pos rfl, hc, hxw, hc0.1]
        · rw [if_neg hxw, Nat.add_zero] at hc
          have : (x, c) ∈ p := (hm x c).mpr ⟨hc, hpos⟩
          refine ⟨(x, c), this, ?_⟩
          rw [if_neg hxw]
  next hany =>
    have hnot : ∀ e ∈ p, ¬ e.1 = w := by
      intro e he hw
      apply hany
      rw [List.any_eq_true]
      exact ⟨e, he, by simpa using hw⟩
    have hcw : ws.count w = 0 := by
      by_contra hne
      have : (w, ws.count w) ∈ p := (hm w _).mpr ⟨rfl, Nat.pos_of_ne_zero hne⟩
      exact hnot _ this rfl
    constructor
    · rw [List.map_append, List.map_cons, List.map_nil]
      rw [List.nodup_append]
      refine ⟨hk, List.nodup_singleton _, ?_⟩
      intro a ha b hb
      rw [List.mem_singleton] at hb
      rw [List.mem_map] at ha
      obtain ⟨e, he, hea⟩ := ha
      rw [hb, ← hea]
      exact hnot e he
    · intro x c
      rw [List.mem_append, List.mem_singleton, count_snoc]
      constructor
      · rintro (h | h)
        · have hx : ¬ x = w := hnot (x, c) h
          rw [if_neg hx, Nat.add_zero]
          exact (hm x c).mp h
        · have hx : x = w := congrArg Prod.fst h
          have hc : c = 1 := congrArg Prod.snd h
          rw [if_pos hx, hx, hcw, hc]
          exact ⟨rfl, Nat.one_pos⟩
      · rintro ⟨hc, hpos⟩
        by_cases hxw : x = w
        · rw [if_pos hxw, hxw, hcw] at hc
          right
          rw [hxw, hc]
        · rw [if_neg hxw, Nat.add_zero] at hc
          exact Or.inl ((hm x c).mpr ⟨hc, hpos⟩)

theorem foldl_pStep_inv (ws : List κ) : CountInv (ws.foldl pStep []) ws := by
  induction ws using List.reverseRecOn with
  | nil => exact ⟨List.nodup_nil, fun x c => by simp⟩
  | append_singleton ws w ih =>
    rw [List.foldl_append, List.foldl_cons, List.foldl_nil]
    exact pStep_inv ih w

theorem foldl_pStep_perm {ws₁ ws₂ : List κ} (p : ws₁ ~ ws₂) :
    ws₁.foldl pStep [] ~ ws₂.foldl pStep [] := by
  obtain ⟨hk₁, hm₁⟩ := foldl_pStep_inv ws₁
  obtain ⟨hk₂, hm₂⟩ := foldl_pStep_inv ws₂
  rw [List.perm_ext_iff_of_nodup (List.Nodup.of_map _ hk₁) (List.Nodup.of_map _ hk₂)]
  rintro ⟨x, c⟩
  rw [hm₁, hm₂, p.count_eq]

/-- **the raw vocabulary does not depend on the iteration orders of the per-document hash sets** -/
theorem buildVocabulary_wordDf_perm {s₁ s₂ : List (List κ)} (h : List.Forall₂ (· ~ ·) s₁ s₂) :
    (buildVocabulary s₁).map wordDf ~ (buildVocabulary s₂).map wordDf := by
  rw [buildVocabulary_wordDf, buildVocabulary_wordDf]
  exact foldl_pStep_perm (List.Perm.flatten_congr h)

end Vocabulary

end LinfaSpec.Determinism
