import LinfaSpec.Proofs.DeterminismOrder

/-!
Helper lemmas for C20, text vocabularies: the `max_features` selection of `CountVectorizer` is a
top-k by a key whose tie-break (the word) is a total order on what is observable of an entry, so
it depends neither on the iteration order of the vocabulary map nor on the insertion indexes
(which follow the iteration order of the per-document hash sets).
-/
namespace LinfaSpec.Determinism
open List

section Vocabulary
variable {κ : Type} [LinearOrder κ]

/-- the sort key `(Reverse(freq), Reverse(word), x)` as an element of a lexicographic order -/
def capKey (e : κ × Nat × Nat) : Lex (Natᵒᵈ × Lex (κᵒᵈ × Nat)) :=
  toLex (OrderDual.toDual e.2.2, toLex (OrderDual.toDual e.1, e.2.1))

theorem capLe_iff (a b : κ × Nat × Nat) : capLe a b = true ↔ capKey a ≤ capKey b := by
  unfold capLe capKey
  rw [Prod.Lex.toLex_le_toLex, Prod.Lex.toLex_le_toLex]
  simp only [Bool.or_eq_true, Bool.and_eq_true, decide_eq_true_eq, Bool.not_eq_eq_eq_not,
    Bool.not_true, decide_eq_false_iff_not, OrderDual.toDual_lt_toDual, EmbeddingLike.apply_eq_iff_eq]
  constructor
  · rintro (h | ⟨h1, h2 | ⟨h2, h3⟩⟩)
    · exact Or.inl h
    · exact Or.inr ⟨h1, Or.inl h2⟩
    · rcases lt_or_eq_of_le (not_lt.mp h2) with h | h
      · exact Or.inr ⟨h1, Or.inl h⟩
      · exact Or.inr ⟨h1, Or.inr ⟨h.symm, h3⟩⟩
  · rintro (h | ⟨h1, h2 | ⟨h2, h3⟩⟩)
    · exact Or.inl h
    · exact Or.inr ⟨h1, Or.inl h2⟩
    · exact Or.inr ⟨h1, Or.inr ⟨by rw [h2]; exact lt_irrefl _, h3⟩⟩

theorem capLe_trans (a b c : κ × Nat × Nat) (h1 : capLe a b = true) (h2 : capLe b c = true) :
    capLe a c = true :=
  (capLe_iff a c).mpr (le_trans ((capLe_iff a b).mp h1) ((capLe_iff b c).mp h2))

theorem capLe_total (a b : κ × Nat × Nat) : (capLe a b || capLe b a) = true := by
  rw [Bool.or_eq_true, capLe_iff, capLe_iff]
  exact le_total _ _

omit [LinearOrder κ] in
theorem capKey_injective [LinearOrder κ] : Function.Injective (capKey (κ := κ)) := by
  intro a b h
  have h' := toLex.injective h
  simp only [Prod.mk.injEq] at h'
  have h2 := toLex.injective h'.2
  simp only [Prod.mk.injEq] at h2
  exact Prod.ext (OrderDual.toDual.injective h2.1) (Prod.ext h2.2 (OrderDual.toDual.injective h'.1))

/-- the order the selection induces on the observable part `(word, document frequency)` -/
def pairKey (p : κ × Nat) : Lex (Natᵒᵈ × κᵒᵈ) := toLex (OrderDual.toDual p.2, OrderDual.toDual p.1)

omit [LinearOrder κ] in
theorem pairKey_injective [LinearOrder κ] : Function.Injective (pairKey (κ := κ)) := by
  intro a b h
  have h' := toLex.injective h
  simp only [Prod.mk.injEq] at h'
  exact Prod.ext (OrderDual.toDual.injective h'.2) (OrderDual.toDual.injective h'.1)

theorem capKey_le_pairKey {a b : κ × Nat × Nat} (h : capKey a ≤ capKey b) :
    pairKey (wordDf a) ≤ pairKey (wordDf b) := by
  unfold capKey at h
  unfold pairKey wordDf
  rw [Prod.Lex.toLex_le_toLex] at h ⊢
  rcases h with h | ⟨h1, h2⟩
  · exact Or.inl h
  · rw [Prod.Lex.toLex_le_toLex] at h2
    rcases h2 with h2 | ⟨h2, _⟩
    · exact Or.inr ⟨h1, le_of_lt h2⟩
    · exact Or.inr ⟨h1, le_of_eq h2⟩

/-- the sorted vocabulary, seen through `wordDf`, is sorted for `pairKey` -/
theorem sorted_wordDf (m : List (κ × Nat × Nat)) :
    ((m.mergeSort capLe).map wordDf).Pairwise fun p q => pairKey p ≤ pairKey q := by
  rw [List.pairwise_map]
  have hs := List.pairwise_mergeSort (le := capLe) capLe_trans capLe_total m
  exact hs.imp fun {a b} h => capKey_le_pairKey ((capLe_iff a b).mp h)

/-- **the selection depends on the (word, frequency) multiset only** -/
theorem sort_wordDf_perm {m₁ m₂ : List (κ × Nat × Nat)} (p : m₁.map wordDf ~ m₂.map wordDf) :
    (m₁.mergeSort capLe).map wordDf = (m₂.mergeSort capLe).map wordDf := by
  apply List.Perm.eq_of_pairwise (le := fun p q => pairKey p ≤ pairKey q)
  · intro a b _ _ hab hba
    exact pairKey_injective (le_antisymm hab hba)
  · exact sorted_wordDf m₁
  · exact sorted_wordDf m₂
  · exact (((List.mergeSort_perm m₁ capLe).map wordDf).trans p).trans
      ((List.mergeSort_perm m₂ capLe).map wordDf).symm

/-- the frequency window and the stop words look at `wordDf` only -/
theorem dfFilter_wordDf (minAbs maxAbs : Nat) (stop : List κ) (v : List (κ × Nat × Nat)) :
    (dfFilter minAbs maxAbs stop v).map wordDf =
      (v.map wordDf).filter fun p => decide (minAbs ≤ p.2) && decide (p.2 ≤ maxAbs) && !(stop.contains p.1) := by
  unfold dfFilter
  rw [List.filter_map]
  rfl

end Vocabulary

end LinfaSpec.Determinism
