import LinfaSpec.Model.Vectorizer
import Mathlib.Order.Defs.LinearOrder

/-! Helper definitions and lemmas for C17 (model `LinfaSpec.Vectorizer`). -/
namespace LinfaSpec.Vectorizer
set_option linter.unusedSectionVars false
set_option linter.unusedSimpArgs false

section
variable {γ : Type} [DecidableEq γ]

/-! ### re-indexing and lookup -/


theorem reindex_map_fst (l : List (Entry γ)) (k : Nat) : (reindex l k).map (·.1) = l.map (·.1) := by
  induction l generalizing k with
  | nil => rfl
  | cons e t ih => simp [reindex, ih]

theorem reindex_length (l : List (Entry γ)) (k : Nat) : (reindex l k).length = l.length := by
  induction l generalizing k with
  | nil => rfl
  | cons e t ih => simp [reindex, ih]

/-- the stored index of the `j`-th enumerated entry is `k + j` -/
theorem reindex_getElem (l : List (Entry γ)) (k j : Nat) (h : j < l.length) :
    (reindex l k)[j]'(by rw [reindex_length]; exact h) = (l[j].1, k + j, l[j].2.2) := by
  induction l generalizing k j with
  | nil => simp at h
  | cons e t ih =>
    cases j with
    | zero => simp [reindex]
    | succ j =>
      simp only [reindex, List.getElem_cons_succ]
      rw [ih (k + 1) j (by simpa using h)]
      simp; omega

/-- looking a word up in the re-indexed map gives its position in the enumeration -/
theorem lookupIdx_reindex (l : List (Entry γ)) (k : Nat) (g : γ) :
    lookupIdx (reindex l k) g =
      if g ∈ l.map (·.1) then some (k + List.idxOf g (l.map (·.1))) else none := by
  induction l generalizing k with
  | nil => simp [reindex, lookupIdx]
  | cons e t ih =>
    have ih' := ih (k + 1)
    simp only [lookupIdx] at ih' ⊢
    simp only [reindex, List.find?_cons, List.map_cons, List.mem_cons, List.idxOf_cons]
    by_cases h : e.1 = g
    · simp [h]
    · have h' : ¬ g = e.1 := fun x => h x.symm
      have hb : (e.1 == g) = false := by simpa using h
      simp only [hb, h', false_or, cond_false, ih']
      split
      · simp; omega
      · rfl


/-! ### the vocabulary map while reading the corpus -/


/-- keys of a vocabulary map -/
def keys (voc : List (Entry γ)) : List γ := voc.map (·.1)
/-- the document frequency stored for `g` (0 if absent) -/
def dfOf (voc : List (Entry γ)) (g : γ) : Nat :=
  match voc.find? (fun e => e.1 == g) with
  | some e => e.2.2
  | none => 0

/-- document frequency of `w` over a corpus of entry lists: the number of documents in which it occurs -/
def docFreq (docs : List (List γ)) (w : γ) : Nat := docs.countP fun d => 0 < d.count w

theorem mem_keys (voc : List (Entry γ)) (g : γ) : g ∈ keys voc ↔ ∃ e ∈ voc, e.1 = g := by
  simp [keys]

theorem any_key_iff (voc : List (Entry γ)) (g : γ) : (voc.any fun e => e.1 == g) = true ↔ g ∈ keys voc := by
  rw [mem_keys]; simp

theorem find_none_of_not_mem (voc : List (Entry γ)) (g : γ) (h : g ∉ keys voc) :
    voc.find? (fun e => e.1 == g) = none := by
  simp only [List.find?_eq_none]
  intro e he hc
  exact h ((mem_keys voc g).mpr ⟨e, he, by simpa using hc⟩)

theorem dfOf_of_not_mem (voc : List (Entry γ)) (g : γ) (h : g ∉ keys voc) : dfOf voc g = 0 := by
  unfold dfOf; rw [find_none_of_not_mem voc g h]

theorem dfOf_cons (e : Entry γ) (t : List (Entry γ)) (h : γ) :
    dfOf (e :: t) h = if e.1 = h then e.2.2 else dfOf t h := by
  unfold dfOf
  by_cases he : e.1 = h <;> simp [List.find?_cons, he]

theorem keys_bump (voc : List (Entry γ)) (g : γ) :
    keys (bump voc g) = if g ∈ keys voc then keys voc else keys voc ++ [g] := by
  unfold bump
  by_cases h : g ∈ keys voc
  · have := (any_key_iff voc g).mpr h
    rw [if_pos h, if_pos this]
    simp only [keys, List.map_map]
    apply List.map_congr_left
    intro e _
    by_cases he : e.1 = g <;> simp [he]
  · have : ¬ (voc.any fun e => e.1 == g) = true := fun hc => h ((any_key_iff voc g).mp hc)
    rw [if_neg h, if_neg this]
    simp [keys]

theorem dfOf_map_bump (voc : List (Entry γ)) (g h : γ) :
    dfOf (voc.map fun e => if e.1 = g then (e.1, e.2.1, e.2.2 + 1) else e) h =
      if h = g ∧ h ∈ keys voc then dfOf voc h + 1 else dfOf voc h := by
  induction voc with
  | nil => simp [dfOf, keys]
  | cons e t ih =>
    rw [List.map_cons, dfOf_cons, dfOf_cons, ih]
    have hk : keys (e :: t) = e.1 :: keys t := rfl
    rw [hk]
    by_cases heg : e.1 = g
    · by_cases he : e.1 = h
      · have : h = g := he ▸ heg
        simp [heg, he, this]
      · have h1 : ¬ g = h := heg ▸ he
        have h2 : ¬ h = g := fun x => h1 x.symm
        simp [heg, h1, h2]
    · by_cases he : e.1 = h
      · have : ¬ h = g := fun x => heg (he ▸ x)
        simp [heg, he, this]
      · have : ¬ h = e.1 := fun x => he x.symm
        simp [heg, he, this]

theorem dfOf_bump (voc : List (Entry γ)) (g h : γ) :
    dfOf (bump voc g) h = dfOf voc h + if h = g then 1 else 0 := by
  unfold bump
  by_cases hg : g ∈ keys voc
  · rw [if_pos ((any_key_iff voc g).mpr hg), dfOf_map_bump]
    by_cases hh : h = g
    · subst hh; simp [hg]
    · simp [hh]
  · have : ¬ (voc.any fun e => e.1 == g) = true := fun hc => hg ((any_key_iff voc g).mp hc)
    rw [if_neg this]
    by_cases hh : h = g
    · subst hh
      rw [dfOf_of_not_mem voc h hg]
      unfold dfOf
      simp [List.find?_append, find_none_of_not_mem voc h hg]
    · unfold dfOf
      have hne : ¬ g = h := fun x => hh x.symm
      simp only [List.find?_append, hh, if_false, Nat.add_zero]
      cases List.find? (fun e => e.1 == h) voc <;> simp [hne]

theorem nodup_eraseDups (l : List γ) : l.eraseDups.Nodup := by
  generalize hn : l.length = n
  induction n using Nat.strongRecOn generalizing l with
  | _ n ih =>
    cases l with
    | nil => simp
    | cons a as =>
      rw [List.eraseDups_cons, List.nodup_cons]
      refine ⟨?_, ?_⟩
      · rw [List.mem_eraseDups]; simp
      · apply ih (List.filter (fun b => !b == a) as).length _ _ rfl
        subst hn
        exact Nat.lt_succ_of_le (List.length_filter_le _ _)

theorem foldl_bump_nodup (l : List γ) (voc : List (Entry γ)) (h : (keys voc).Nodup) :
    (keys (l.foldl bump voc)).Nodup := by
  induction l generalizing voc with
  | nil => exact h
  | cons g t ih =>
    apply ih
    rw [keys_bump]
    by_cases hg : g ∈ keys voc
    · rw [if_pos hg]; exact h
    · rw [if_neg hg]
      rw [List.nodup_append]
      refine ⟨h, by simp, ?_⟩
      intro a ha b hb
      simp at hb; subst hb
      intro hab; subst hab; exact hg ha

theorem foldl_bump_mem (l : List γ) (voc : List (Entry γ)) (h : γ) :
    h ∈ keys (l.foldl bump voc) ↔ h ∈ keys voc ∨ h ∈ l := by
  induction l generalizing voc with
  | nil => simp
  | cons g t ih =>
    rw [List.foldl_cons, ih, keys_bump]
    by_cases hg : g ∈ keys voc
    · rw [if_pos hg]
      constructor
      · rintro (h1 | h1)
        · exact Or.inl h1
        · exact Or.inr (List.mem_cons_of_mem _ h1)
      · rintro (h1 | h1)
        · exact Or.inl h1
        · rcases List.mem_cons.mp h1 with h2 | h2
          · exact Or.inl (h2 ▸ hg)
          · exact Or.inr h2
    · rw [if_neg hg]
      simp only [List.mem_append, List.mem_singleton, List.mem_cons, List.not_mem_nil, or_false]
      constructor
      · rintro ((h1 | h1) | h1)
        · exact Or.inl h1
        · exact Or.inr (Or.inl h1)
        · exact Or.inr (Or.inr h1)
      · rintro (h1 | h1 | h1)
        · exact Or.inl (Or.inl h1)
        · exact Or.inl (Or.inr h1)
        · exact Or.inr h1

theorem foldl_bump_dfOf (l : List γ) (voc : List (Entry γ)) (h : γ) :
    dfOf (l.foldl bump voc) h = dfOf voc h + l.count h := by
  induction l generalizing voc with
  | nil => simp
  | cons g t ih =>
    rw [List.foldl_cons, ih, dfOf_bump, List.count_cons]
    by_cases hg : h = g
    · subst hg; simp; omega
    · have : ¬ g = h := fun x => hg x.symm
      simp [hg, this]

theorem count_eraseDups (l : List γ) (h : γ) : l.eraseDups.count h = if h ∈ l then 1 else 0 := by
  rw [(nodup_eraseDups l).count]
  simp [List.mem_eraseDups]

theorem count_pos_decide (d : List γ) (h : γ) : decide (0 < d.count h) = decide (h ∈ d) := by
  simp [List.count_pos_iff]

theorem readCorpus_fold (docs : List (List γ)) (voc : List (Entry γ)) (hnd : (keys voc).Nodup) :
    (keys (docs.foldl readDocument voc)).Nodup ∧
    (∀ h, h ∈ keys (docs.foldl readDocument voc) ↔ h ∈ keys voc ∨ ∃ d ∈ docs, h ∈ d) ∧
    (∀ h, dfOf (docs.foldl readDocument voc) h = dfOf voc h + docFreq docs h) := by
  induction docs generalizing voc with
  | nil => simp [hnd, docFreq]
  | cons d ds ih =>
    have h1 : (keys (readDocument voc d)).Nodup := foldl_bump_nodup _ _ hnd
    obtain ⟨i1, i2, i3⟩ := ih (readDocument voc d) h1
    refine ⟨i1, ?_, ?_⟩
    · intro h
      rw [List.foldl_cons, i2]
      unfold readDocument
      rw [foldl_bump_mem, List.mem_eraseDups]
      simp only [List.mem_cons, exists_eq_or_imp]
      constructor
      · rintro ((a | a) | a)
        · exact Or.inl a
        · exact Or.inr (Or.inl a)
        · exact Or.inr (Or.inr a)
      · rintro (a | a | a)
        · exact Or.inl (Or.inl a)
        · exact Or.inl (Or.inr a)
        · exact Or.inr a
    · intro h
      rw [List.foldl_cons, i3]
      unfold readDocument
      rw [foldl_bump_dfOf, count_eraseDups]
      simp only [docFreq, List.countP_cons, count_pos_decide]
      by_cases hm : h ∈ d <;> simp [hm] <;> omega


/-! ### counting -/


theorem analyze_fold (vec : List γ) (hnd : vec.Nodup) (voc : List (Entry γ))
    (hlook : ∀ g, lookupIdx voc g = if g ∈ vec then some (List.idxOf g vec) else none)
    (grams : List γ) (row : List Nat) (hlen : row.length = vec.length) :
    grams.foldl (countStep voc) row
      = List.zipWith (fun r w => r + grams.count w) row vec := by
  induction grams generalizing row with
  | nil =>
    apply List.ext_getElem <;> simp [hlen]
  | cons g gs ih =>
    simp only [List.foldl_cons, countStep]
    rw [hlook g]
    by_cases hg : g ∈ vec
    · simp only [hg, if_true]
      rw [ih _ (by simp [hlen])]
      apply List.ext_getElem
      · simp
      · intro j h1 h2
        have hj : j < vec.length := by simp at h1; omega
        simp only [List.getElem_zipWith, List.getElem_modify, List.count_cons]
        by_cases hij : List.idxOf g vec = j
        · have : vec[j] = g := by subst hij; exact List.getElem_idxOf _
          simp [hij, this]; omega
        · have : ¬ g = vec[j] := by
            intro h; apply hij; subst h; exact hnd.idxOf_getElem j hj
          simp [hij, this]
    · simp only [hg, if_false]
      rw [ih _ hlen]
      apply List.ext_getElem
      · simp
      · intro j h1 h2
        have hj : j < vec.length := by simp at h1; omega
        have : ¬ g = vec[j] := by intro h; apply hg; subst h; exact List.getElem_mem _
        simp [List.count_cons, this]



/-- the two views of a fitted vectoriser describe the same bijection word ↔ column -/
structure Consistent (F : Fitted γ) : Prop where
  nodup : F.vec.Nodup
  lookup : ∀ g, lookupIdx F.vocabulary g = if g ∈ F.vec then some (List.idxOf g F.vec) else none
  len : F.vocabulary.length = F.vec.length

theorem analyzeDocument_eq (F : Fitted γ) (hF : Consistent F) (grams : List γ) :
    analyzeDocument F grams = F.vec.map fun w => grams.count w := by
  unfold analyzeDocument
  rw [analyze_fold F.vec hF.nodup F.vocabulary hF.lookup grams _ (by simp [hF.len])]
  apply List.ext_getElem <;> simp [hF.len]

theorem termAndDocFreqs_fold (F : Fitted γ) (docs : List (List γ)) (st : List (List Nat) × List Nat) :
    docs.foldl (tdStep F) st
    = (st.1 ++ docs.map (analyzeDocument F), (docs.map (analyzeDocument F)).foldl bumpDocFreqs st.2) := by
  induction docs generalizing st with
  | nil => simp
  | cons d ds ih => simp [ih, tdStep]

theorem bumpDocFreqs_fold (vec : List γ) (docs : List (List γ)) (dfs : List Nat) (hlen : dfs.length = vec.length) :
    (docs.map fun d => vec.map fun w => d.count w).foldl bumpDocFreqs dfs
      = List.zipWith (fun a w => a + docs.countP fun d => 0 < d.count w) dfs vec := by
  induction docs generalizing dfs with
  | nil => apply List.ext_getElem <;> simp [hlen]
  | cons d ds ih =>
    simp only [List.map_cons, List.foldl_cons]
    rw [ih _ (by simp [bumpDocFreqs, hlen])]
    apply List.ext_getElem
    · simp [bumpDocFreqs]
    · intro j h1 h2
      have hj : j < vec.length := by simp at h2; omega
      simp only [bumpDocFreqs, List.getElem_zipWith, List.getElem_map, List.countP_cons]
      by_cases h : 0 < List.count vec[j] d <;> simp [h] <;> omega


theorem termAndDocFreqs_eq (F : Fitted γ) (hF : Consistent F) (docs : List (List γ)) :
    termAndDocFreqs F docs =
      (docs.map fun d => F.vec.map fun w => d.count w, F.vec.map fun w => docFreq docs w) := by
  unfold termAndDocFreqs
  rw [termAndDocFreqs_fold]
  have : docs.map (analyzeDocument F) = docs.map fun d => F.vec.map fun w => d.count w :=
    List.map_congr_left fun d _ => analyzeDocument_eq F hF d
  rw [this, bumpDocFreqs_fold _ _ _ (by simp [hF.len])]
  simp only [List.nil_append, Prod.mk.injEq, true_and]
  apply List.ext_getElem <;> simp [hF.len, docFreq]

theorem transformTfIdf_eq {α : Type} [Add α] [Mul α] [Div α] [OfNat α 0] [OfNat α 1] [NatCast α] [Transc α]
    (m : Method) (F : Fitted γ) (hF : Consistent F) (docs : List (List γ)) :
    transformTfIdf (α := α) m F docs = docs.map fun d => F.vec.map fun w =>
      if d.count w = 0 then (0 : α) else (d.count w : α) * computeIdf m docs.length (docFreq docs w) := by
  unfold transformTfIdf applyTfIdf
  rw [termAndDocFreqs_eq F hF]
  simp only [List.map_map, List.length_map]
  apply List.map_congr_left
  intro d _
  apply List.ext_getElem <;> simp

theorem hashmapToVocabulary_consistent (order : List (Entry γ) → List (Entry γ)) (voc : List (Entry γ))
    (hperm : (order voc).Perm voc) (hnd : (keys voc).Nodup) :
    Consistent (hashmapToVocabulary order voc) := by
  have hnd' : (keys (order voc)).Nodup := (hperm.map _).nodup_iff.mpr hnd
  refine ⟨hnd', ?_, ?_⟩
  · intro g
    simp only [hashmapToVocabulary]
    rw [lookupIdx_reindex]
    by_cases h : g ∈ List.map (fun x => x.fst) (order voc) <;> simp [h]
  · simp [hashmapToVocabulary, reindex_length]


/-! ### filtering -/

/-- in a map (distinct keys) the stored frequency of an entry is the one `dfOf` finds -/
theorem dfOf_of_mem (voc : List (Entry γ)) (hnd : (keys voc).Nodup) (e : Entry γ) (he : e ∈ voc) :
    dfOf voc e.1 = e.2.2 := by
  induction voc with
  | nil => simp at he
  | cons x t ih =>
    rw [dfOf_cons]
    have hk : keys (x :: t) = x.1 :: keys t := rfl
    rw [hk, List.nodup_cons] at hnd
    rcases List.mem_cons.mp he with h | h
    · subst h; simp
    · have : ¬ x.1 = e.1 := by
        intro hx; apply hnd.1; rw [hx]; exact (mem_keys t e.1).mpr ⟨e, h, rfl⟩
      rw [if_neg this]; exact ih hnd.2 h

/-- the admission predicate of `filter_vocabulary` -/
def admits (minAbs maxAbs : Nat) (stop : Option (List γ)) (w : γ) (df : Nat) : Prop :=
  minAbs ≤ df ∧ df ≤ maxAbs ∧ ∀ s, stop = some s → w ∉ s

theorem filterVocab_none_mem [LT γ] [DecidableLT γ] (voc : List (Entry γ)) (n minAbs maxAbs : Nat)
    (stop : Option (List γ)) (hdf : ∀ e ∈ voc, e.2.2 ≤ n) (e : Entry γ) :
    e ∈ filterVocab voc n minAbs maxAbs stop none ↔ e ∈ voc ∧ admits minAbs maxAbs stop e.1 e.2.2 := by
  unfold filterVocab admits
  by_cases hb : minAbs = 0 ∧ maxAbs = n
  · obtain ⟨h0, h1⟩ := hb
    subst h0 h1
    cases stop with
    | none =>
      simp only [and_self, if_true]
      constructor
      · intro h; exact ⟨h, Nat.zero_le _, hdf e h, by simp⟩
      · intro h; exact h.1
    | some s =>
      simp only [and_self, if_true, List.mem_filter]
      constructor
      · rintro ⟨h, hs⟩
        refine ⟨h, Nat.zero_le _, hdf e h, ?_⟩
        intro s' hs'; cases hs'; simpa using hs
      · rintro ⟨h, _, _, hs⟩
        exact ⟨h, by simpa using hs s rfl⟩
  · rw [if_neg hb]
    cases stop with
    | none => simp [List.mem_filter]
    | some s =>
      simp only [List.mem_filter]
      constructor
      · rintro ⟨h, hs⟩
        simp at hs
        exact ⟨h, hs.1.1, hs.1.2, by intro s' hs'; cases hs'; exact hs.2⟩
      · rintro ⟨h, h1, h2, hs⟩
        refine ⟨h, ?_⟩
        simp [h1, h2, hs s rfl]

theorem filterVocab_none_sublist [LT γ] [DecidableLT γ] (voc : List (Entry γ)) (n minAbs maxAbs : Nat)
    (stop : Option (List γ)) : (filterVocab voc n minAbs maxAbs stop none).Sublist voc := by
  unfold filterVocab
  split <;> cases stop <;> simp [List.filter_sublist]

theorem readCorpus_spec (docs : List (List γ)) :
    (keys (readCorpus docs)).Nodup ∧
    (∀ h, h ∈ keys (readCorpus docs) ↔ ∃ d ∈ docs, h ∈ d) ∧
    (∀ h, dfOf (readCorpus docs) h = docFreq docs h) := by
  obtain ⟨a, b, c⟩ := readCorpus_fold docs ([] : List (Entry γ)) (by simp [keys])
  refine ⟨a, ?_, ?_⟩
  · intro h; rw [readCorpus, b]; simp [keys]
  · intro h; rw [readCorpus, c]; simp [dfOf]

theorem docFreq_le (docs : List (List γ)) (w : γ) : docFreq docs w ≤ docs.length :=
  List.countP_le_length

/-- entries of the filtered map: exactly the corpus entries the settings admit -/
theorem filtered_spec [LT γ] [DecidableLT γ] (docs : List (List γ)) (minAbs maxAbs : Nat) (stop : Option (List γ)) :
    let V := filterVocab (readCorpus docs) docs.length minAbs maxAbs stop none
    (keys V).Nodup ∧
    (∀ e ∈ V, e.2.2 = docFreq docs e.1) ∧
    ∀ g, g ∈ keys V ↔ (∃ d ∈ docs, g ∈ d) ∧ admits minAbs maxAbs stop g (docFreq docs g) := by
  intro V
  obtain ⟨hnd, hmem, hdf⟩ := readCorpus_spec docs
  have hsub := filterVocab_none_sublist (readCorpus docs) docs.length minAbs maxAbs stop
  have hle : ∀ e ∈ readCorpus docs, e.2.2 ≤ docs.length := by
    intro e he
    rw [← dfOf_of_mem _ hnd e he, hdf]; exact docFreq_le _ _
  have hV : ∀ e, e ∈ V ↔ e ∈ readCorpus docs ∧ admits minAbs maxAbs stop e.1 e.2.2 :=
    filterVocab_none_mem _ _ _ _ _ hle
  have hfreq : ∀ e ∈ readCorpus docs, e.2.2 = docFreq docs e.1 := by
    intro e he; rw [← dfOf_of_mem _ hnd e he, hdf]
  refine ⟨(hsub.map _).nodup hnd, ?_, ?_⟩
  · intro e he; exact hfreq e ((hV e).mp he).1
  · intro g
    rw [mem_keys]
    constructor
    · rintro ⟨e, he, rfl⟩
      obtain ⟨h1, h2⟩ := (hV e).mp he
      refine ⟨(hmem e.1).mp ((mem_keys _ _).mpr ⟨e, h1, rfl⟩), ?_⟩
      rw [← hfreq e h1]; exact h2
    · rintro ⟨h1, h2⟩
      obtain ⟨e, he, rfl⟩ := (mem_keys _ _).mp ((hmem g).mpr h1)
      refine ⟨e, (hV e).mpr ⟨he, ?_⟩, rfl⟩
      rw [hfreq e he]; exact h2

end

/-! ### the order of the feature cap -/
theorem capLe_total {γ} [LinearOrder γ] (a b : Nat × γ × Nat) : (capLe a b || capLe b a) = true := by
  obtain ⟨a1, a2, a3⟩ := a
  obtain ⟨b1, b2, b3⟩ := b
  simp only [capLe]
  rcases Nat.lt_trichotomy a1 b1 with h | h | h
  · have : ¬ a1 > b1 := by omega
    simp [h, this]
  · subst h
    rcases lt_trichotomy a2 b2 with h2 | h2 | h2
    · simp [h2, lt_asymm h2]
    · subst h2; simp; omega
    · simp [h2, lt_asymm h2]
  · have : ¬ a1 < b1 := by omega
    simp [h, this]

theorem capLe_trans {γ} [LinearOrder γ] (a b c : Nat × γ × Nat) (h1 : capLe a b = true) (h2 : capLe b c = true) :
    capLe a c = true := by
  obtain ⟨a1, a2, a3⟩ := a
  obtain ⟨b1, b2, b3⟩ := b
  obtain ⟨c1, c2, c3⟩ := c
  simp only [capLe] at *
  grind


section
variable {γ : Type} [LinearOrder γ]

/-- the cap step of `filter_vocabulary` on an already filtered map -/
def capTop (m : Nat) (v : List (Entry γ)) : List (Entry γ) :=
  (((v.map fun e => (e.2.2, e.1, e.2.1)).mergeSort capLe).take m).map fun k => (k.2.1, k.2.2, k.1)

theorem filterVocab_some (voc : List (Entry γ)) (n a b : Nat) (stop : Option (List γ)) (m : Nat) :
    filterVocab voc n a b stop (some m) = capTop m (filterVocab voc n a b stop none) := by
  unfold filterVocab capTop
  rfl

def toKey (e : Entry γ) : Nat × γ × Nat := (e.2.2, e.1, e.2.1)
def ofKey (k : Nat × γ × Nat) : Entry γ := (k.2.1, k.2.2, k.1)
theorem ofKey_toKey (e : Entry γ) : ofKey (toKey e) = e := rfl
theorem toKey_ofKey (k : Nat × γ × Nat) : toKey (ofKey k) = k := rfl

theorem capTop_eq (m : Nat) (v : List (Entry γ)) :
    capTop m v = (((v.map toKey).mergeSort capLe).take m).map ofKey := rfl

theorem capTop_length (m : Nat) (v : List (Entry γ)) : (capTop m v).length = min m v.length := by
  rw [capTop_eq]
  simp [List.length_take, (List.mergeSort_perm (v.map toKey) capLe).length_eq]

/-- sorted entries: a permutation of the input -/
theorem sorted_perm (v : List (Entry γ)) : (((v.map toKey).mergeSort capLe).map ofKey).Perm v := by
  have h := (List.mergeSort_perm (v.map toKey) capLe).map ofKey
  simpa [List.map_map, Function.comp_def, ofKey_toKey] using h

theorem capTop_sublist_perm (m : Nat) (v : List (Entry γ)) :
    (capTop m v).Sublist (((v.map toKey).mergeSort capLe).map ofKey) := by
  rw [capTop_eq]
  exact (List.take_sublist _ _).map _

theorem capTop_subset (m : Nat) (v : List (Entry γ)) (e : Entry γ) (he : e ∈ capTop m v) : e ∈ v :=
  (sorted_perm v).mem_iff.mp ((capTop_sublist_perm m v).subset he)

theorem capTop_keys_nodup (m : Nat) (v : List (Entry γ)) (h : (keys v).Nodup) : (keys (capTop m v)).Nodup := by
  have h1 : (keys (((v.map toKey).mergeSort capLe).map ofKey)).Nodup :=
    ((sorted_perm v).map _).nodup_iff.mpr h
  exact ((capTop_sublist_perm m v).map _).nodup h1

/-- every kept entry precedes every dropped one in the cap order -/
theorem capTop_top (m : Nat) (v : List (Entry γ)) (a b : Entry γ)
    (ha : a ∈ capTop m v) (hb : b ∈ v) (hnb : b ∉ capTop m v) : capLe (toKey a) (toKey b) = true := by
  have hs := List.pairwise_mergeSort (le := capLe) capLe_trans
    (fun a b => capLe_total a b) (v.map toKey)
  rw [← List.take_append_drop m ((v.map toKey).mergeSort capLe), List.pairwise_append] at hs
  obtain ⟨_, _, hx⟩ := hs
  rw [capTop_eq] at ha hnb
  obtain ⟨k, hk, rfl⟩ := List.mem_map.mp ha
  have hbk : toKey b ∈ (v.map toKey).mergeSort capLe :=
    (List.mergeSort_perm _ _).mem_iff.mpr (List.mem_map.mpr ⟨b, hb, rfl⟩)
  rw [← List.take_append_drop m ((v.map toKey).mergeSort capLe), List.mem_append] at hbk
  rcases hbk with h | h
  · exact absurd (List.mem_map.mpr ⟨toKey b, h, ofKey_toKey b⟩) hnb
  · rw [toKey_ofKey]; exact hx k hk (toKey b) h

/-- readable form of the cap order on entries with distinct words -/
theorem capLe_toKey (a b : Entry γ) (h : capLe (toKey a) (toKey b) = true) (hne : a.1 ≠ b.1) :
    b.2.2 < a.2.2 ∨ (b.2.2 = a.2.2 ∧ b.1 < a.1) := by
  obtain ⟨a1, a2, a3⟩ := a
  obtain ⟨b1, b2, b3⟩ := b
  simp only [capLe, toKey] at h
  simp only at hne
  rcases lt_trichotomy a1 b1 with h2 | h2 | h2
  · grind
  · exact absurd h2 hne
  · grind

end

/-! ### `NGramList` -/
section
variable {ω γ : Type}
set_option linter.unusedVariables false

/-- the entry denoted by first token `w0` followed by `rest` -/
def gram (J : Joiner ω γ) (w0 : ω) (rest : List ω) : γ := rest.foldl J.push (J.single w0)

theorem joinW_cons (J : Joiner ω γ) (w : ω) (rest : List ω) : joinW J (w :: rest) = some (gram J w rest) := rfl

theorem accum_fold (J : Joiner ω γ) (xs : List ω) (item : γ) (acc : List γ) :
    (xs.foldl (fun (st : γ × List γ) w => let it := J.push st.1 w; (it, st.2 ++ [it])) (item, acc)).2
      = acc ++ (List.range xs.length).map fun k => (xs.take (k + 1)).foldl J.push item := by
  induction xs generalizing item acc with
  | nil => simp
  | cons x t ih =>
    simp only [List.foldl_cons, List.length_cons]
    rw [ih, List.range_succ_eq_map, List.map_cons, List.map_map]
    simp [List.append_assoc, Function.comp_def]

/-- the windows starting at `i`: lengths `nmin … min nmax (len - i)` -/
def itemsAt (J : Joiner ω γ) (ws : List ω) (nmin nmax i : Nat) (w0 : ω) : List γ :=
  (List.range (min (i + nmax) ws.length - (i + nmin) + 1)).map fun k =>
    gram J w0 ((ws.drop (i + 1)).take (nmin - 1 + k))

theorem ngramItems_some (J : Joiner ω γ) (ws : List ω) (nmin nmax i : Nat)
    (h1 : 1 ≤ nmin) (h2 : nmin ≤ nmax) (hi : i + nmin ≤ ws.length) :
    ngramItems J ws nmin nmax i = some (itemsAt J ws nmin nmax i (ws[i]'(by omega))) := by
  have hlt : i < ws.length := by omega
  unfold ngramItems itemsAt
  rw [List.getElem?_eq_getElem hlt]
  simp only
  by_cases hm : nmax = 1
  · have : nmin = 1 := by omega
    subst hm this
    have : min (i + 1) ws.length - (i + 1) + 1 = 1 := by omega
    simp [this, gram]
  · rw [if_neg hm, if_neg (by omega)]
    rw [accum_fold]
    congr 1
    have hcnt : ((ws.drop (i + nmin)).take (min (i + nmax) ws.length - (i + nmin))).length
        = min (i + nmax) ws.length - (i + nmin) := by
      rw [List.length_take, List.length_drop]; omega
    rw [hcnt, List.range_succ_eq_map, List.map_cons, List.map_map]
    have e3 : i + nmin - (i + 1) = nmin - 1 := by omega
    rw [e3, List.singleton_append]
    simp only [gram, Nat.add_zero]
    congr 1
    apply List.map_congr_left
    intro k hk
    have hk' : k < min (i + nmax) ws.length - (i + nmin) := List.mem_range.mp hk
    simp only [Function.comp_def]
    rw [← List.foldl_append]
    congr 1
    rw [List.take_take]
    have e1 : min (k + 1) (min (i + nmax) ws.length - (i + nmin)) = k + 1 := by omega
    rw [e1]
    have e2 : List.drop (i + nmin) ws = List.drop (nmin - 1) (List.drop (i + 1) ws) := by
      rw [List.drop_drop]; congr 1; omega
    rw [e2]
    exact List.take_add.symm

theorem ngramItems_none (J : Joiner ω γ) (ws : List ω) (nmin nmax i : Nat)
    (h1 : 1 ≤ nmin) (h2 : nmin ≤ nmax) (hi : ws.length < i + nmin) (hlt : i < ws.length) :
    ngramItems J ws nmin nmax i = none := by
  unfold ngramItems
  rw [List.getElem?_eq_getElem hlt]
  simp only
  have hm : ¬ nmax = 1 := by omega
  rw [if_neg hm, if_pos (by omega)]

/-- the windows starting at index `i` (empty if `i` is out of range) -/
def itemsAtIdx (J : Joiner ω γ) (ws : List ω) (nmin nmax i : Nat) : List γ :=
  match ws[i]? with
  | some w0 => itemsAt J ws nmin nmax i w0
  | none => []

theorem ngramIter_spec (J : Joiner ω γ) (ws : List ω) (nmin nmax : Nat) (h1 : 1 ≤ nmin) (h2 : nmin ≤ nmax)
    (fuel index : Nat) (hf : ws.length ≤ fuel + index) :
    ngramIter J ws nmin nmax fuel index =
      (List.range' index (ws.length + 1 - nmin - index)).map (itemsAtIdx J ws nmin nmax) := by
  induction fuel generalizing index with
  | zero =>
    have : ws.length + 1 - nmin - index = 0 := by omega
    simp [ngramIter, this]
  | succ f ih =>
    unfold ngramIter
    by_cases hge : index ≥ ws.length
    · have : ws.length + 1 - nmin - index = 0 := by omega
      simp [hge, this]
    · rw [if_neg hge]
      by_cases hi : index + nmin ≤ ws.length
      · rw [ngramItems_some J ws nmin nmax index h1 h2 hi]
        simp only
        rw [ih (index + 1) (by omega)]
        have : ws.length + 1 - nmin - index = (ws.length + 1 - nmin - (index + 1)) + 1 := by omega
        rw [this, List.range'_succ, List.map_cons]
        congr 1
        unfold itemsAtIdx
        rw [List.getElem?_eq_getElem (by omega)]
      · rw [ngramItems_none J ws nmin nmax index h1 h2 (by omega) (by omega)]
        have : ws.length + 1 - nmin - index = 0 := by omega
        simp [this]

/-- **n-gram list, list form**: the entries of a document, in reading order and with multiplicity -/
theorem docGrams_eq (J : Joiner ω γ) (ws : List ω) (nmin nmax : Nat) (h1 : 1 ≤ nmin) (h2 : nmin ≤ nmax) :
    docGrams J nmin nmax ws =
      ((List.range (ws.length + 1 - nmin)).map (itemsAtIdx J ws nmin nmax)).flatten := by
  unfold docGrams ngramList
  rw [ngramIter_spec J ws nmin nmax h1 h2 ws.length 0 (by omega), List.range_eq_range']
  simp

theorem mem_docGrams (J : Joiner ω γ) (ws : List ω) (nmin nmax : Nat) (h1 : 1 ≤ nmin) (h2 : nmin ≤ nmax) (g : γ) :
    g ∈ docGrams J nmin nmax ws ↔
      ∃ i L, nmin ≤ L ∧ L ≤ nmax ∧ i + L ≤ ws.length ∧ joinW J ((ws.drop i).take L) = some g := by
  rw [docGrams_eq J ws nmin nmax h1 h2]
  simp only [List.mem_flatten, List.mem_map, List.mem_range]
  constructor
  · rintro ⟨l, ⟨i, hi, rfl⟩, hg⟩
    have hlt : i < ws.length := by omega
    unfold itemsAtIdx at hg
    rw [List.getElem?_eq_getElem hlt] at hg
    simp only [itemsAt, List.mem_map, List.mem_range] at hg
    obtain ⟨k, hk, rfl⟩ := hg
    refine ⟨i, nmin + k, by omega, by omega, by omega, ?_⟩
    rw [List.drop_eq_getElem_cons hlt]
    have : nmin + k = (nmin - 1 + k) + 1 := by omega
    rw [this, List.take_succ_cons, joinW_cons]
  · rintro ⟨i, L, hL1, hL2, hiL, hj⟩
    have hlt : i < ws.length := by omega
    refine ⟨_, ⟨i, by omega, rfl⟩, ?_⟩
    unfold itemsAtIdx
    rw [List.getElem?_eq_getElem hlt]
    simp only [itemsAt, List.mem_map, List.mem_range]
    refine ⟨L - nmin, by omega, ?_⟩
    rw [List.drop_eq_getElem_cons hlt] at hj
    have : L = (nmin - 1 + (L - nmin)) + 1 := by omega
    rw [this, List.take_succ_cons, joinW_cons] at hj
    exact Option.some.inj hj

end

/-! ### fixed vocabulary, index consistency -/
section
variable {γ : Type} [DecidableEq γ]

theorem keys_insertWord (voc : List (Entry γ)) (w : γ) :
    keys (insertWord voc w) = if w ∈ keys voc then keys voc else keys voc ++ [w] := by
  unfold insertWord
  by_cases h : w ∈ keys voc
  · rw [if_pos h, if_pos ((any_key_iff voc w).mpr h)]
  · have : ¬ (voc.any fun e => e.1 == w) = true := fun hc => h ((any_key_iff voc w).mp hc)
    rw [if_neg h, if_neg this]; simp [keys]

theorem foldl_insertWord (words : List γ) (voc : List (Entry γ)) (h : (keys voc).Nodup) :
    (keys (words.foldl insertWord voc)).Nodup ∧
    ∀ g, g ∈ keys (words.foldl insertWord voc) ↔ g ∈ keys voc ∨ g ∈ words := by
  induction words generalizing voc with
  | nil => simp [h]
  | cons w t ih =>
    have hn : (keys (insertWord voc w)).Nodup := by
      rw [keys_insertWord]
      by_cases hw : w ∈ keys voc
      · rw [if_pos hw]; exact h
      · rw [if_neg hw, List.nodup_append]
        refine ⟨h, by simp, ?_⟩
        intro a ha b hb
        simp at hb; subst hb
        intro hab; subst hab; exact hw ha
    obtain ⟨i1, i2⟩ := ih (insertWord voc w) hn
    refine ⟨i1, ?_⟩
    intro g
    rw [List.foldl_cons, i2, keys_insertWord]
    by_cases hw : w ∈ keys voc
    · rw [if_pos hw]
      simp only [List.mem_cons]
      constructor
      · rintro (a | a)
        · exact Or.inl a
        · exact Or.inr (Or.inr a)
      · rintro (a | a | a)
        · exact Or.inl a
        · exact Or.inl (a ▸ hw)
        · exact Or.inr a
    · rw [if_neg hw]
      simp only [List.mem_append, List.mem_singleton, List.mem_cons, List.not_mem_nil, or_false]
      constructor
      · rintro ((a | a) | a)
        · exact Or.inl a
        · exact Or.inr (Or.inl a)
        · exact Or.inr (Or.inr a)
      · rintro (a | a | a)
        · exact Or.inl (Or.inl a)
        · exact Or.inl (Or.inr a)
        · exact Or.inr a

theorem consistent_index (F : Fitted γ) (hF : Consistent F) :
    (∀ j (h : j < F.vec.length), lookupIdx F.vocabulary F.vec[j] = some j) ∧
    (∀ g j, lookupIdx F.vocabulary g = some j → ∃ h : j < F.vec.length, F.vec[j] = g) := by
  constructor
  · intro j h
    rw [hF.lookup, if_pos (List.getElem_mem h), hF.nodup.idxOf_getElem j h]
  · intro g j hj
    rw [hF.lookup] at hj
    by_cases hg : g ∈ F.vec
    · rw [if_pos hg] at hj
      have := Option.some.inj hj
      subst this
      exact ⟨List.idxOf_lt_length_iff.mpr hg, List.getElem_idxOf _⟩
    · rw [if_neg hg] at hj; cases hj

end


/-! ### the sparse row -/

theorem find_of_mem_sorted (l : List (Nat × Nat)) (h : (l.map (·.1)).Pairwise (· < ·)) (j c : Nat)
    (hm : (j, c) ∈ l) : l.find? (fun p => p.1 == j) = some (j, c) := by
  induction l with
  | nil => simp at hm
  | cons x t ih =>
    rw [List.map_cons, List.pairwise_cons] at h
    rcases List.mem_cons.mp hm with rfl | hm'
    · simp
    · have : x.1 < j := h.1 j (List.mem_map.mpr ⟨(j, c), hm', rfl⟩)
      have hne : (x.1 == j) = false := by simp; omega
      rw [List.find?_cons, hne]; exact ih h.2 hm'

theorem mem_sparseRow (row : List Nat) (j c : Nat) :
    (j, c) ∈ sparseRow row ↔ 0 < c ∧ row[j]? = some c := by
  simp only [sparseRow, List.mem_map, List.mem_filter, Prod.mk.injEq, Prod.exists]
  constructor
  · rintro ⟨a, i, ⟨hm, hp⟩, rfl, rfl⟩
    exact ⟨by simpa using hp, List.mem_zipIdx_iff_getElem?.mp hm⟩
  · rintro ⟨hc, hj⟩
    exact ⟨c, j, ⟨List.mem_zipIdx_iff_getElem?.mpr hj, by simpa using hc⟩, rfl, rfl⟩

theorem sparseRow_sorted (row : List Nat) : ((sparseRow row).map (·.1)).Pairwise (· < ·) := by
  have h1 : (sparseRow row).map (·.1) = (row.zipIdx.filter fun p => decide (p.1 > 0)).map (·.2) := by
    simp [sparseRow, List.map_map, Function.comp_def]
  rw [h1]
  have h2 : (row.zipIdx.map (·.2)).Pairwise (· < ·) := by
    rw [List.zipIdx_map_snd]
    exact List.pairwise_lt_range'
  exact h2.sublist ((List.filter_sublist (l := row.zipIdx)).map _)

theorem sparseRow_length (row : List Nat) : (sparseRow row).length = row.countP (fun c => decide (0 < c)) := by
  unfold sparseRow
  rw [List.length_map, List.countP_eq_length_filter]
  have h : (row.zipIdx.filter fun p => decide (p.1 > 0)).map (·.1) = row.filter fun c => decide (0 < c) := by
    have := List.filter_map (f := fun p : Nat × Nat => p.1) (p := fun c => decide (0 < c)) (l := row.zipIdx)
    rw [List.zipIdx_map_fst] at this
    rw [this]; rfl
  rw [← h, List.length_map]

theorem getElem?_map_count {γ : Type} [DecidableEq γ] (vec grams : List γ) (j c : Nat) :
    (vec.map fun w => grams.count w)[j]? = some c ↔ ∃ h : j < vec.length, grams.count vec[j] = c := by
  rw [List.getElem?_eq_some_iff]
  constructor
  · rintro ⟨h, he⟩
    have h' : j < vec.length := by simpa using h
    exact ⟨h', by simpa using he⟩
  · rintro ⟨h, he⟩
    exact ⟨by simpa using h, by simpa using he⟩

end LinfaSpec.Vectorizer
