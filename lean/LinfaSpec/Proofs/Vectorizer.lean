import LinfaSpec.Model.Vectorizer

/-! Helper lemmas for C17 (model `LinfaSpec.Vectorizer`). -/
namespace LinfaSpec.Vectorizer

variable {γ : Type} [DecidableEq γ]

theorem reindex_map_fst (l : List (Entry γ)) (k : Nat) : (reindex l k).map (·.1) = l.map (·.1) := by
  induction l generalizing k with
  | nil => rfl
  | cons e t ih => simp [reindex, ih]

end LinfaSpec.Vectorizer
