import LinfaSpec.Proofs.Scaling
import Mathlib.Algebra.BigOperators.Ring.Finset

/-!
Matrix algebra over list-of-lists for the whitening theorem of C16:
the sample covariance of `whitenTransform mean W X` is `W · cov(X) · Wᵀ`, entry by entry.
Sums over the feature index are `Finset.range p` sums, sums over the rows stay list sums
(exchanged by induction on the rows).
-/
namespace LinfaSpec.Proofs.Scaling
open LinfaSpec LinfaSpec.Scaling

set_option linter.unusedSectionVars false
set_option linter.unusedVariables false

variable {α : Type} [Field α] [LinearOrder α] [IsStrictOrderedRing α]

/-- sample covariance (divisor `n - 1`) between columns `a` and `b` of a record matrix -/
def covE (rows : List (List α)) (a b : Nat) : α :=
  (rows.map fun r => (r.getD a 0 - meanCol (col rows a)) * (r.getD b 0 - meanCol (col rows b))).sum /
    ((rows.length : α) - 1)

/-- entry `(a, i)` of a matrix given as a list of rows -/
def wE (W : List (List α)) (a i : Nat) : α := (W.getD a []).getD i 0

theorem list_sum_eq_range (l : List α) : l.sum = ∑ i ∈ Finset.range l.length, l.getD i 0 := by
  induction l with
  | nil => simp
  | cons x xs ih =>
    rw [List.length_cons, Finset.sum_range_succ', List.sum_cons, ih]
    simp [add_comm]

theorem dotS_eq_range (c w : List α) (p : Nat) (hc : c.length = p) (hw : w.length = p) :
    dotS c w = ∑ i ∈ Finset.range p, c.getD i 0 * w.getD i 0 := by
  unfold dotS
  rw [sumS_eq, list_sum_eq_range]
  have hl : (List.zipWith (· * ·) c w).length = p := by simp [hc, hw]
  rw [hl]
  apply Finset.sum_congr rfl
  intro i hi
  have hi' : i < p := Finset.mem_range.mp hi
  have h1 : i < c.length := by omega
  have h2 : i < w.length := by omega
  simp [List.getD_eq_getElem?_getD, List.getElem?_zipWith, List.getElem?_eq_getElem h1,
    List.getElem?_eq_getElem h2]

/-- a list sum of `Finset` sums is the `Finset` sum of the list sums -/
theorem list_sum_finset_comm {ι : Type} (rows : List ι) (s : Finset Nat) (f : ι → Nat → α) :
    (rows.map fun r => ∑ i ∈ s, f r i).sum = ∑ i ∈ s, (rows.map fun r => f r i).sum := by
  induction rows with
  | nil => simp
  | cons r rs ih => simp only [List.map_cons, List.sum_cons, ih, Finset.sum_add_distrib]

theorem list_sum_mul_left {ι : Type} (rows : List ι) (k : α) (f : ι → α) :
    (rows.map fun r => k * f r).sum = k * (rows.map f).sum := by
  induction rows with
  | nil => simp
  | cons r rs ih => simp only [List.map_cons, List.sum_cons, ih]; ring

/-- the deviations from the column mean sum to zero -/
theorem sum_centred_zero (l : List α) (h : l ≠ []) : (l.map fun x => x - meanCol l).sum = 0 := by
  have hn := (length_pos_cast h).ne'
  have e : (l.map fun x => x - meanCol l) = l.map fun x => 1 * x + -meanCol l := by
    apply List.map_congr_left; intro x _; ring
  rw [e, sum_map_affine, meanCol_eq]
  field_simp
  ring

/-- entry `a` of a whitened row: `Σ_i (r_i - mean_i) · W_ai` -/
theorem whitenRow_getD (p : Nat) (mean : List α) (W : List (List α)) (r : List α)
    (hm : mean.length = p) (hr : r.length = p) (hW : ∀ w ∈ W, w.length = p) (a : Nat)
    (ha : a < W.length) :
    (whitenRow mean W r).getD a 0 =
      ∑ i ∈ Finset.range p, (r.getD i 0 - mean.getD i 0) * wE W a i := by
  unfold whitenRow wE
  have hWa : (W.getD a []) = W[a] := by
    simp [List.getD_eq_getElem?_getD, List.getElem?_eq_getElem ha]
  have hlen : (W[a]).length = p := hW _ (List.getElem_mem ha)
  simp only [List.getD_eq_getElem?_getD, List.getElem?_map, List.getElem?_eq_getElem ha,
    Option.map_some, Option.getD_some]
  rw [dotS_eq_range _ _ p (by simp [hr, hm]) hlen]
  apply Finset.sum_congr rfl
  intro i hi
  have hi' : i < p := Finset.mem_range.mp hi
  have h1 : i < r.length := by omega
  have h2 : i < mean.length := by omega
  simp [List.getD_eq_getElem?_getD, List.getElem?_zipWith, List.getElem?_eq_getElem h1,
    List.getElem?_eq_getElem h2, List.getElem?_eq_getElem ha]

/-- column `a` of the whitened matrix, with the fitted mean -/
theorem col_whitenTransform (p : Nat) (rows W : List (List α))
    (hrows : ∀ r ∈ rows, r.length = p) (hW : ∀ w ∈ W, w.length = p) (a : Nat) (ha : a < W.length) :
    col (whitenTransform ((cols p rows).map meanCol) W rows) a =
      rows.map fun r => ∑ i ∈ Finset.range p, (r.getD i 0 - meanCol (col rows i)) * wE W a i := by
  unfold col whitenTransform
  rw [List.map_map]
  apply List.map_congr_left
  intro r hr
  simp only [Function.comp_def]
  rw [whitenRow_getD p _ W r (by simp [cols]) (hrows r hr) hW a ha]
  apply Finset.sum_congr rfl
  intro i hi
  rw [getD_cols_map meanCol p rows i (Finset.mem_range.mp hi)]
  rfl

/-- the whitened columns are centred: their mean is zero (training data, fitted mean) -/
theorem meanCol_whitened_zero (p : Nat) (rows W : List (List α)) (hn : rows ≠ [])
    (hrows : ∀ r ∈ rows, r.length = p) (hW : ∀ w ∈ W, w.length = p) (a : Nat) (ha : a < W.length) :
    meanCol (col (whitenTransform ((cols p rows).map meanCol) W rows) a) = 0 := by
  rw [col_whitenTransform p rows W hrows hW a ha, meanCol_eq, list_sum_finset_comm]
  have hz : ∀ i ∈ Finset.range p,
      (rows.map fun r => (r.getD i 0 - meanCol (col rows i)) * wE W a i).sum = 0 := by
    intro i _
    have e : (rows.map fun r => (r.getD i 0 - meanCol (col rows i)) * wE W a i) =
        rows.map fun r => wE W a i * (r.getD i 0 - meanCol (col rows i)) := by
      apply List.map_congr_left; intro r _; ring
    rw [e, list_sum_mul_left]
    have hc : (rows.map fun r => r.getD i 0 - meanCol (col rows i)) =
        (col rows i).map fun x => x - meanCol (col rows i) := by
      unfold col; rw [List.map_map]; rfl
    have hne : col rows i ≠ [] := by unfold col; simpa using hn
    rw [hc, sum_centred_zero _ hne, mul_zero]
  rw [Finset.sum_eq_zero hz, zero_div]

/-- **covariance of the whitened training data is `W · cov(X) · Wᵀ`**, entry `(a, b)` -/
theorem covE_whitened (p : Nat) (rows W : List (List α)) (hn : rows ≠ [])
    (hrows : ∀ r ∈ rows, r.length = p) (hW : ∀ w ∈ W, w.length = p) (a b : Nat)
    (ha : a < W.length) (hb : b < W.length) :
    covE (whitenTransform ((cols p rows).map meanCol) W rows) a b =
      ∑ i ∈ Finset.range p, ∑ j ∈ Finset.range p, wE W a i * covE rows i j * wE W b j := by
  set Y := whitenTransform ((cols p rows).map meanCol) W rows with hY
  have hlenY : Y.length = rows.length := by simp [hY, whitenTransform]
  unfold covE
  rw [meanCol_whitened_zero p rows W hn hrows hW a ha, meanCol_whitened_zero p rows W hn hrows hW b hb,
    hlenY]
  -- the rows of `Y`, entry by entry
  have hYmap : (Y.map fun r => (r.getD a 0 - 0) * (r.getD b 0 - 0)) =
      rows.map fun r =>
        (∑ i ∈ Finset.range p, (r.getD i 0 - meanCol (col rows i)) * wE W a i) *
        (∑ j ∈ Finset.range p, (r.getD j 0 - meanCol (col rows j)) * wE W b j) := by
    rw [hY]; unfold whitenTransform; rw [List.map_map]
    apply List.map_congr_left
    intro r hr
    simp only [Function.comp_def, sub_zero]
    rw [whitenRow_getD p _ W r (by simp [cols]) (hrows r hr) hW a ha,
      whitenRow_getD p _ W r (by simp [cols]) (hrows r hr) hW b hb]
    congr 1
    · apply Finset.sum_congr rfl
      intro i hi
      rw [getD_cols_map meanCol p rows i (Finset.mem_range.mp hi)]
    · apply Finset.sum_congr rfl
      intro i hi
      rw [getD_cols_map meanCol p rows i (Finset.mem_range.mp hi)]
  rw [hYmap]
  -- expand the product of sums, exchange with the sum over the rows
  have hexp : (rows.map fun r =>
        (∑ i ∈ Finset.range p, (r.getD i 0 - meanCol (col rows i)) * wE W a i) *
        (∑ j ∈ Finset.range p, (r.getD j 0 - meanCol (col rows j)) * wE W b j)) =
      rows.map fun r => ∑ i ∈ Finset.range p, ∑ j ∈ Finset.range p,
        wE W a i * wE W b j *
          ((r.getD i 0 - meanCol (col rows i)) * (r.getD j 0 - meanCol (col rows j))) := by
    apply List.map_congr_left
    intro r _
    rw [Finset.sum_mul_sum]
    apply Finset.sum_congr rfl; intro i _
    apply Finset.sum_congr rfl; intro j _
    ring
  rw [hexp, div_eq_mul_inv, list_sum_finset_comm, Finset.sum_mul]
  apply Finset.sum_congr rfl; intro i _
  rw [list_sum_finset_comm, Finset.sum_mul]
  apply Finset.sum_congr rfl; intro j _
  rw [list_sum_mul_left, div_eq_mul_inv]
  ring

/-! ### the PCA branch of `Whitener::fit`: what `pcaAssemble` makes of the SVD of the centred data -/

section pca
variable [Transc α]

theorem getD_map_zero (l : List α) (g : α → α) (hg : g 0 = 0) (i : Nat) :
    (l.map g).getD i 0 = g (l.getD i 0) := by
  simp only [List.getD_eq_getElem?_getD, List.getElem?_map]
  cases h : l[i]? <;> simp [hg]

/-- entry `(a, i)` of the PCA whitening matrix: `Vᵀ[a][i] * (sqrt(n-1) / max(s_a, floor))` -/
theorem pcaAssemble_entry (floor : α) (n : Nat) (s : List α) (vt : List (List α)) (a i : Nat)
    (ha : a < vt.length) (hs : s.length = vt.length) :
    wE (pcaAssemble floor n s vt) a i =
      wE vt a i * (Transc.sqrt (((n - 1 : Nat)) : α) / maxS (s.getD a 0) floor) := by
  have hsa : a < s.length := hs ▸ ha
  unfold wE pcaAssemble
  have h1 : (List.zipWith (fun row sv => List.map (fun v => v * (Transc.sqrt (((n - 1 : Nat)) : α) / maxS sv floor)) row) vt s).getD a [] =
      (vt.getD a []).map (fun v => v * (Transc.sqrt (((n - 1 : Nat)) : α) / maxS (s.getD a 0) floor)) := by
    simp only [List.getD_eq_getElem?_getD, List.getElem?_zipWith, List.getElem?_eq_getElem ha, List.getElem?_eq_getElem hsa]
    simp
  rw [h1, getD_map_zero _ _ (by simp)]

theorem pcaAssemble_length (floor : α) (n : Nat) (s : List α) (vt : List (List α)) (hs : s.length = vt.length) :
    (pcaAssemble floor n s vt).length = vt.length := by
  unfold pcaAssemble; simp [hs]

theorem pcaAssemble_row_length (floor : α) (n : Nat) (s : List α) (vt : List (List α)) (p : Nat)
    (hvt : ∀ w ∈ vt, w.length = p) : ∀ w ∈ pcaAssemble floor n s vt, w.length = p := by
  intro w hw
  unfold pcaAssemble at hw
  obtain ⟨i, hi, rfl⟩ := List.getElem_of_mem hw
  simp only [List.getElem_zipWith, List.length_map]
  exact hvt _ (List.getElem_mem _)

/-- **what the PCA branch delivers**, from the contract of the SVD of the centred data (Gram identity
`(X-μ)ᵀ(X-μ) = V diag(s²) Vᵀ`, orthonormal rows of `Vᵀ`): `W cov(X) Wᵀ` is diagonal with entries
`s_a² / max(s_a, floor)²`. -/
theorem pca_WSWt (hsq : SqrtContract α) (floor : α) (hf : 0 < floor) (p : Nat) (rows : List (List α))
    (s : List α) (vt : List (List α)) (h2 : 2 ≤ rows.length) (hs : s.length = vt.length)
    (hgram : ∀ i j, i < p → j < p →
      (rows.map fun r => (r.getD i 0 - meanCol (col rows i)) * (r.getD j 0 - meanCol (col rows j))).sum =
        ∑ k ∈ Finset.range vt.length, wE vt k i * (s.getD k 0 * s.getD k 0) * wE vt k j)
    (horth : ∀ a b, a < vt.length → b < vt.length →
      ∑ i ∈ Finset.range p, wE vt a i * wE vt b i = if a = b then 1 else 0)
    (a b : Nat) (ha : a < vt.length) (hb : b < vt.length) :
    ∑ i ∈ Finset.range p, ∑ j ∈ Finset.range p,
        wE (pcaAssemble floor rows.length s vt) a i * covE rows i j *
          wE (pcaAssemble floor rows.length s vt) b j =
      if a = b then (s.getD a 0 * s.getD a 0) / (maxS (s.getD a 0) floor * maxS (s.getD a 0) floor) else 0 := by
  have hm : ((rows.length : α) - 1) = ((rows.length - 1 : Nat) : α) := by
    rw [Nat.cast_sub (by omega)]; simp
  have hmpos : (0 : α) < ((rows.length - 1 : Nat) : α) := by
    exact_mod_cast (by omega : 0 < rows.length - 1)
  have hcc := (hsq _ hmpos.le).1
  have hdpos : ∀ k, 0 < maxS (s.getD k 0) floor := by
    intro k; unfold maxS; split
    · exact hf
    · rename_i h; exact lt_of_lt_of_le hf (not_lt.mp h)
  generalize hcdef : Transc.sqrt (((rows.length - 1 : Nat)) : α) = c at hcc
  generalize hmdef : ((rows.length - 1 : Nat) : α) = m at hcc hmpos hm
  let f : Nat → Nat → Nat → α := fun i j k =>
    (wE vt a i * wE vt k i) * ((s.getD k 0 * s.getD k 0) * (c / maxS (s.getD a 0) floor) *
      (c / maxS (s.getD b 0) floor) / m) * (wE vt k j * wE vt b j)
  have h1 : (∑ i ∈ Finset.range p, ∑ j ∈ Finset.range p,
        wE (pcaAssemble floor rows.length s vt) a i * covE rows i j *
          wE (pcaAssemble floor rows.length s vt) b j) =
      ∑ i ∈ Finset.range p, ∑ j ∈ Finset.range p, ∑ k ∈ Finset.range vt.length, f i j k := by
    apply Finset.sum_congr rfl; intro i hi; apply Finset.sum_congr rfl; intro j hj
    rw [pcaAssemble_entry floor rows.length s vt a i ha hs, pcaAssemble_entry floor rows.length s vt b j hb hs,
      hcdef]
    unfold covE
    have hdiv : ∀ g : Nat → α, (∑ k ∈ Finset.range vt.length, g k) / m =
        ∑ k ∈ Finset.range vt.length, g k * m⁻¹ := by
      intro g; rw [div_eq_mul_inv, Finset.sum_mul]
    rw [hgram i j (Finset.mem_range.mp hi) (Finset.mem_range.mp hj), hm, hdiv, Finset.mul_sum, Finset.sum_mul]
    apply Finset.sum_congr rfl; intro k _
    simp only [f]; ring
  have h2' : (∑ i ∈ Finset.range p, ∑ j ∈ Finset.range p, ∑ k ∈ Finset.range vt.length, f i j k) =
      ∑ k ∈ Finset.range vt.length, ∑ i ∈ Finset.range p, ∑ j ∈ Finset.range p, f i j k := by
    have : ∀ i ∈ Finset.range p, (∑ j ∈ Finset.range p, ∑ k ∈ Finset.range vt.length, f i j k) =
        ∑ k ∈ Finset.range vt.length, ∑ j ∈ Finset.range p, f i j k := fun i _ => Finset.sum_comm
    rw [Finset.sum_congr rfl this, Finset.sum_comm]
  have h3 : ∀ k ∈ Finset.range vt.length, (∑ i ∈ Finset.range p, ∑ j ∈ Finset.range p, f i j k) =
      ((s.getD k 0 * s.getD k 0) * (c / maxS (s.getD a 0) floor) * (c / maxS (s.getD b 0) floor) / m) *
        ((if a = k then 1 else 0) * (if k = b then 1 else 0)) := by
    intro k hk
    rw [← horth a k ha (Finset.mem_range.mp hk), ← horth k b (Finset.mem_range.mp hk) hb, Finset.sum_mul_sum,
      Finset.mul_sum]
    apply Finset.sum_congr rfl; intro i _
    rw [Finset.mul_sum]
    apply Finset.sum_congr rfl; intro j _
    simp only [f]; ring
  rw [h1, h2', Finset.sum_congr rfl h3]
  by_cases hab : a = b
  · subst hab
    rw [if_pos rfl, Finset.sum_eq_single a]
    · simp only [if_true, mul_one]
      have hd := (hdpos a).ne'
      have hm0 := hmpos.ne'
      field_simp
      rw [← hcc]; ring
    · intro k _ hka
      rw [if_neg (Ne.symm hka)]; simp
    · intro h; exact absurd (Finset.mem_range.mpr ha) h
  · rw [if_neg hab]
    apply Finset.sum_eq_zero
    intro k _
    by_cases hak : a = k
    · subst hak; rw [if_neg hab]; simp
    · rw [if_neg hak]; simp

end pca

end LinfaSpec.Proofs.Scaling
