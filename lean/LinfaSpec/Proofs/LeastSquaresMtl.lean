/-
Helper lemmas for the multi-task part of C11: matrices as lists of rows, their columns (`colK`),
the Frobenius inner product `frob`, "column by column = row by row", Cauchy–Schwarz on lists, Hölder for
the (max row norm, sum of row norms) pair, and multi-task weak duality over ℝ.
-/
import LinfaSpec.Proofs.LeastSquares
import Mathlib.Analysis.SpecialFunctions.Pow.Real

set_option linter.unusedSectionVars false

namespace LinfaSpec.LeastSquares
open LinfaSpec

noncomputable instance realTranscC11 : Transc ℝ := ⟨Real.sqrt, Real.exp, Real.log⟩

/-- Frobenius inner product of two lists of vectors (rows or columns alike) -/
def frob {α : Type} [Field α] (A B : List (List α)) : α := (List.zipWith dot A B).sum

/-- column `k` of a matrix given by its rows -/
def colK {α : Type} [OfNat α 0] (k : Nat) (M : List (List α)) : List α := M.map fun row => row.getD k 0

section field
variable {α : Type} [Field α] [LinearOrder α] [IsStrictOrderedRing α]

theorem colsOf_eq (t : Nat) (M : List (List α)) : colsOf t M = (List.range t).map fun k => colK k M := rfl

/-- a row of length `t` against another: the dot product is the sum over the `t` positions -/
theorem dot_eq_sum_range (t : Nat) (a b : List α) (ha : a.length = t) (hb : b.length = t) :
    dot a b = ((List.range t).map fun k => a.getD k 0 * b.getD k 0).sum := by
  induction t generalizing a b with
  | zero =>
    have : a = [] := List.length_eq_zero_iff.mp ha
    subst this; simp
  | succ t ih =>
    cases a with
    | nil => simp at ha
    | cons x xs => cases b with
      | nil => simp at hb
      | cons y ys =>
        rw [List.range_succ_eq_map]
        simp only [List.map_cons, List.map_map, List.sum_cons, dot_cons, List.getD_cons_zero]
        rw [ih xs ys (by simpa using ha) (by simpa using hb)]
        congr 2

theorem sum_map_add' {ι : Type} (l : List ι) (f g : ι → α) :
    (l.map fun k => f k + g k).sum = (l.map f).sum + (l.map g).sum := by
  induction l with
  | nil => simp
  | cons x xs ih => simp only [List.map_cons, List.sum_cons, ih]; ring

/-- summing column by column is summing row by row -/
theorem frob_colsOf (t : Nat) (A B : List (List α)) (hA : ∀ a ∈ A, a.length = t) (hB : ∀ b ∈ B, b.length = t) :
    ((List.range t).map fun k => dot (colK k A) (colK k B)).sum = frob A B := by
  induction A generalizing B with
  | nil => simp [colK, frob]
  | cons a A ih =>
    cases B with
    | nil => simp [colK, frob]
    | cons b B =>
      have h1 : ∀ k, dot (colK k (a :: A)) (colK k (b :: B)) = a.getD k 0 * b.getD k 0 + dot (colK k A) (colK k B) := by
        intro k; simp [colK]
      simp only [h1, sum_map_add']
      rw [ih B (fun x hx => hA x (by simp [hx])) (fun x hx => hB x (by simp [hx]))]
      rw [← dot_eq_sum_range t a b (hA a (by simp)) (hB b (by simp))]
      simp [frob]

theorem sum_flatten_sq (M : List (List α)) : (M.flatten.map fun x => x * x).sum = frob M M := by
  induction M with
  | nil => simp [frob]
  | cons r M ih =>
    simp only [List.flatten_cons, List.map_append, List.sum_append, ih, frob, List.zipWith_cons_cons, List.sum_cons]
    congr 1
    induction r with
    | nil => simp
    | cons x xs ihx => simp [ihx]

/-- Cauchy–Schwarz for lists -/
theorem dot_sq_le (a b : List α) : dot a b ^ 2 ≤ dot a a * dot b b := by
  induction a generalizing b with
  | nil => simp
  | cons x xs ih =>
    cases b with
    | nil => simp
    | cons y ys =>
      simp only [dot_cons]
      have h := ih ys
      have hA := dot_self_nonneg xs
      have hB := dot_self_nonneg ys
      generalize dot xs xs = A at *
      generalize dot ys ys = B at *
      generalize dot xs ys = d at *
      have hu : 0 ≤ x * x * B + y * y * A :=
        add_nonneg (mul_nonneg (mul_self_nonneg x) hB) (mul_nonneg (mul_self_nonneg y) hA)
      have key : 2 * (x * y * d) ≤ x * x * B + y * y * A := by
        by_contra hc
        have hc := lt_of_not_ge hc
        have h1 : (x * x * B + y * y * A) * (x * x * B + y * y * A) < (2 * (x * y * d)) * (2 * (x * y * d)) :=
          mul_self_lt_mul_self hu hc
        have h2 : (2 * (x * y * d)) * (2 * (x * y * d)) = 4 * (x * x) * (y * y) * d ^ 2 := by ring
        have h3 : 4 * (x * x) * (y * y) * d ^ 2 ≤ 4 * (x * x) * (y * y) * (A * B) :=
          mul_le_mul_of_nonneg_left h (mul_nonneg (mul_nonneg (by norm_num) (mul_self_nonneg x)) (mul_self_nonneg y))
        nlinarith [sq_nonneg (x * x * B - y * y * A)]
      nlinarith [key]


/-- one task of the multi-task bound: the single-task chain of `weak_duality` up to (not including) Hölder -/
theorem col_ineq (C : List (List α)) (y w w' r : List α) (l2 c : α)
    (hC : ∀ c ∈ C, c.length = y.length) (hw : w.length = C.length) (hw' : w'.length = C.length)
    (hr : r.length = y.length) (hl2 : 0 ≤ l2) :
    c * dot r y - 1 / 2 * c ^ 2 * dot r r - 1 / 2 * l2 * c ^ 2 * dot w w
        - c * dot (List.zipWith (fun cj wj => dot cj r - wj * l2) C w) w' ≤
      1 / 2 * dot (List.zipWith (fun yi xi => yi - xi) y (matVec y.length C w'))
          (List.zipWith (fun yi xi => yi - xi) y (matVec y.length C w'))
        + 1 / 2 * l2 * dot w' w' := by
  set a := matVec y.length C w' with ha
  have hal : a.length = y.length := matVec_length _ _ _ hC
  set u := List.zipWith (fun yi xi => yi - xi) y a with hu
  have hul : u.length = r.length := by simp [hu, hal, hr]
  have f1 := half_sq_ge c u r hul
  have f1' : dot r u = dot r y - dot r a := dot_residual0 r y a hal.symm
  have f2 := half_sq_ge c w' w (by rw [hw, hw'])
  have f3 : dot r a = (List.zipWith (fun c wj => dot c r * wj) C w').sum := dot_matVec _ C w' r hC hw'
  have f4 := xta_dot C r w w' l2 hw hw'
  have f2' := mul_le_mul_of_nonneg_left f2 hl2
  rw [f1', f3] at f1
  have f4' : dot (List.zipWith (fun cj wj => dot cj r - wj * l2) C w) w'
      = (List.zipWith (fun c wj => dot c r * wj) C w').sum - l2 * dot w w' := f4
  rw [f4']
  nlinarith [f1, f2']

/-- a linear combination of termwise inequalities, summed over an index list -/
theorem sum_lin6 {ι : Type} (l : List ι) (a b d e f g : ι → α) (c l2 : α)
    (h : ∀ k ∈ l, c * a k - 1 / 2 * c ^ 2 * b k - 1 / 2 * l2 * c ^ 2 * d k - c * e k ≤ 1 / 2 * f k + 1 / 2 * l2 * g k) :
    c * (l.map a).sum - 1 / 2 * c ^ 2 * (l.map b).sum - 1 / 2 * l2 * c ^ 2 * (l.map d).sum - c * (l.map e).sum ≤
      1 / 2 * (l.map f).sum + 1 / 2 * l2 * (l.map g).sum := by
  induction l with
  | nil => simp
  | cons x xs ih =>
    have h1 := h x (by simp)
    have h2 := ih (fun k hk => h k (by simp [hk]))
    simp only [List.map_cons, List.sum_cons]
    linarith

theorem zipWith_map_map_self {ι β γ δ : Type} (F : β → γ → δ) (f : ι → β) (g : ι → γ) (l : List ι) :
    List.zipWith F (l.map f) (l.map g) = l.map fun k => F (f k) (g k) := by
  induction l with
  | nil => simp
  | cons x xs ih => simp [ih]

theorem zipWith_map_replicate {ι β γ δ : Type} (F : β → γ → δ) (f : ι → β) (z : γ) (l : List ι) (m : Nat)
    (hm : m = l.length) : List.zipWith F (l.map f) (List.replicate m z) = l.map fun k => F (f k) z := by
  subst hm
  induction l with
  | nil => simp
  | cons x xs ih => simp [List.replicate_succ, ih]

theorem residual_zero_eq (C : List (List α)) (y w : List α) :
    residual C y w 0 = List.zipWith (fun yi xi => yi - xi) y (matVec y.length C w) := by
  simp [residual]

theorem colK_length (k : Nat) (M : List (List α)) : (colK k M).length = M.length := by simp [colK]

theorem getD_zipWith_range (t k : Nat) (hk : k < t) (f : List α → α → α) (g : Nat → List α) (wj : List α)
    (hwj : wj.length = t) :
    (List.zipWith f ((List.range t).map g) wj).getD k 0 = f (g k) (wj.getD k 0) := by
  have h1 : k < wj.length := by omega
  simp [List.getD_eq_getElem?_getD, hk, h1]

/-- column `k` of the matrix `XᵀR − l2·W` (as the model builds it, row by row) is the single-task
`Xᵀ r_k − l2·w_k` of task `k` -/
theorem colK_xta (t k : Nat) (hk : k < t) (C : List (List α)) (W R : List (List α)) (l2 : α)
    (hW : ∀ wj ∈ W, wj.length = t) :
    colK k (List.zipWith (fun c wj => List.zipWith (fun rk wjk => dot c rk - wjk * l2) (colsOf t R) wj) C W)
      = List.zipWith (fun c wjk => dot c (colK k R) - wjk * l2) C (colK k W) := by
  induction C generalizing W with
  | nil => simp [colK]
  | cons c C ih =>
    cases W with
    | nil => simp [colK]
    | cons wj W =>
      have := ih W (fun x hx => hW x (by simp [hx]))
      simp only [colK, List.zipWith_cons_cons, List.map_cons] at this ⊢
      rw [this, colsOf_eq, getD_zipWith_range t k hk _ _ wj (hW wj (by simp))]
      rfl

theorem xta_row_length (t : Nat) (C : List (List α)) (W R : List (List α)) (l2 : α)
    (hW : ∀ wj ∈ W, wj.length = t) :
    ∀ row ∈ List.zipWith (fun c wj => List.zipWith (fun rk wjk => dot c rk - wjk * l2) (colsOf t R) wj) C W,
      row.length = t := by
  induction C generalizing W with
  | nil => simp
  | cons c C ih =>
    cases W with
    | nil => simp
    | cons wj W =>
      intro row hrow
      simp only [List.zipWith_cons_cons, List.mem_cons] at hrow
      rcases hrow with rfl | h
      · simp [colsOf, hW wj (by simp)]
      · exact ih W (fun x hx => hW x (by simp [hx])) row h

/-- transposing twice gives the matrix back -/
theorem colsOf_colsOf (t n : Nat) (cols : List (List α)) (hlen : cols.length = t)
    (hc : ∀ c ∈ cols, c.length = n) : colsOf t (colsOf n cols) = cols := by
  apply List.ext_getElem (by simp [colsOf, hlen])
  intro k h1 h2
  have hk : k < cols.length := h2
  have hcl : (cols[k]).length = n := hc _ (List.getElem_mem hk)
  simp only [colsOf, List.getElem_map, List.getElem_range, List.map_map]
  apply List.ext_getElem (by simp [hcl])
  intro i h3 h4
  simp [List.getD_eq_getElem?_getD, hk, h4]

/-- `residualMtl` has the shape of `Y` and its columns are the single-task residuals -/
theorem residualMtl_spec (t : Nat) (C : List (List α)) (Y W : List (List α)) (hC : ∀ c ∈ C, c.length = Y.length) :
    (residualMtl t C Y W).length = Y.length ∧ (∀ r ∈ residualMtl t C Y W, r.length = t) ∧
      colsOf t (residualMtl t C Y W)
        = List.zipWith (fun yk wk => LeastSquares.residual C yk wk 0) (colsOf t Y) (colsOf t W) := by
  refine ⟨by simp [residualMtl, colsOf], ?_, ?_⟩
  · intro r hr
    simp only [residualMtl, colsOf, List.mem_map, List.mem_range] at hr
    obtain ⟨i, _, rfl⟩ := hr
    simp
  · unfold residualMtl
    apply colsOf_colsOf
    · simp [colsOf]
    · intro c hc
      rw [colsOf_eq, colsOf_eq, zipWith_map_map_self] at hc
      obtain ⟨k, _, rfl⟩ := List.mem_map.mp hc
      rw [residual_length C _ _ 0 (by intro c hc'; rw [colK_length]; exact hC c hc'), colK_length]

end field

/-! ### over ℝ: norms -/

theorem norm2U_eq (x : List ℝ) : norm2U x = Real.sqrt (dot x x) := by
  unfold norm2U; rw [dotU_eq]; rfl

theorem dot_le_norm_mul (a b : List ℝ) : dot a b ≤ Real.sqrt (dot a a) * Real.sqrt (dot b b) := by
  have h := dot_sq_le a b
  have h1 : |dot a b| ≤ Real.sqrt (dot a a * dot b b) := Real.abs_le_sqrt h
  rw [Real.sqrt_mul (dot_self_nonneg a)] at h1
  exact le_trans (le_abs_self _) h1

theorem sum_norm_nonneg (B : List (List ℝ)) : 0 ≤ (B.map fun b => Real.sqrt (dot b b)).sum := by
  induction B with
  | nil => simp
  | cons b B ih => simp only [List.map_cons, List.sum_cons]; linarith [Real.sqrt_nonneg (dot b b)]

/-- Hölder for the pair (max row norm, sum of row norms) -/
theorem holder_rows (A B : List (List ℝ)) (dn : ℝ) (hdn0 : 0 ≤ dn)
    (h : ∀ a ∈ A, Real.sqrt (dot a a) ≤ dn) :
    frob A B ≤ dn * (B.map fun b => Real.sqrt (dot b b)).sum := by
  induction A generalizing B with
  | nil => simpa [frob] using mul_nonneg hdn0 (sum_norm_nonneg B)
  | cons a A ih =>
    cases B with
    | nil => simp [frob]
    | cons b B =>
      have h1 := ih B (fun z hz => h z (List.mem_cons_of_mem _ hz))
      have h2 : Real.sqrt (dot a a) ≤ dn := h a List.mem_cons_self
      have h3 := dot_le_norm_mul a b
      have h4 : Real.sqrt (dot a a) * Real.sqrt (dot b b) ≤ dn * Real.sqrt (dot b b) :=
        mul_le_mul_of_nonneg_right h2 (Real.sqrt_nonneg _)
      simp only [frob, List.zipWith_cons_cons, List.sum_cons, List.map_cons] at h1 ⊢
      linarith

/-- **multi-task weak duality** (for an arbitrary matrix `R`): for every scaling `c ≥ 0` with
`c · max_j ‖(XᵀR − l2·W)_j‖₂ ≤ l1`, the dual value is below the primal value at every `W'`.
Matrices are lists of rows; `Y`, `R` : `n` rows of `t`; `W`, `W'` : `p` rows of `t`. -/
theorem weak_duality_mtl (t : Nat) (C : List (List ℝ)) (Y W W' R : List (List ℝ)) (l1 l2 c dn : ℝ)
    (hC : ∀ c ∈ C, c.length = Y.length) (hRn : R.length = Y.length)
    (hR : ∀ r ∈ R, r.length = t) (hY : ∀ y ∈ Y, y.length = t)
    (hWp : W.length = C.length) (hW : ∀ wj ∈ W, wj.length = t)
    (hWp' : W'.length = C.length) (hW' : ∀ wj ∈ W', wj.length = t)
    (hl2 : 0 ≤ l2) (hc : 0 ≤ c) (hcd : c * dn ≤ l1) (hdn0 : 0 ≤ dn)
    (hdn : ∀ row ∈ List.zipWith (fun cj wj => List.zipWith (fun rk wjk => dot cj rk - wjk * l2) (colsOf t R) wj) C W,
      Real.sqrt (dot row row) ≤ dn) :
    c * frob R Y - 1 / 2 * c ^ 2 * frob R R - 1 / 2 * l2 * c ^ 2 * frob W W ≤
      1 / 2 * ((List.range t).map fun k =>
          dot (List.zipWith (fun yi xi => yi - xi) (colK k Y) (matVec Y.length C (colK k W')))
            (List.zipWith (fun yi xi => yi - xi) (colK k Y) (matVec Y.length C (colK k W')))).sum
        + l1 * (W'.map fun wj => Real.sqrt (dot wj wj)).sum + 1 / 2 * l2 * frob W' W' := by
  set XTA := List.zipWith (fun cj wj => List.zipWith (fun rk wjk => dot cj rk - wjk * l2) (colsOf t R) wj) C W
    with hXTA
  have hcol : ∀ k ∈ List.range t,
      c * dot (colK k R) (colK k Y) - 1 / 2 * c ^ 2 * dot (colK k R) (colK k R)
          - 1 / 2 * l2 * c ^ 2 * dot (colK k W) (colK k W) - c * dot (colK k XTA) (colK k W') ≤
        1 / 2 * dot (List.zipWith (fun yi xi => yi - xi) (colK k Y) (matVec Y.length C (colK k W')))
            (List.zipWith (fun yi xi => yi - xi) (colK k Y) (matVec Y.length C (colK k W')))
          + 1 / 2 * l2 * dot (colK k W') (colK k W') := by
    intro k hk
    have hk' : k < t := List.mem_range.mp hk
    have := col_ineq C (colK k Y) (colK k W) (colK k W') (colK k R) l2 c
      (by intro c hc; rw [colK_length]; exact hC c hc) (by rw [colK_length, hWp]) (by rw [colK_length, hWp'])
      (by rw [colK_length, colK_length, hRn]) hl2
    rw [colK_length] at this
    rw [hXTA, colK_xta t k hk' C W R l2 hW]
    exact this
  have hsum := sum_lin6 (List.range t) _ _ _ _ _ _ c l2 hcol
  rw [frob_colsOf t R Y hR hY, frob_colsOf t R R hR hR, frob_colsOf t W W hW hW, frob_colsOf t W' W' hW' hW',
    frob_colsOf t XTA W' (by rw [hXTA]; exact xta_row_length t C W R l2 hW) hW'] at hsum
  have hH := holder_rows XTA W' dn hdn0 hdn
  have hN := sum_norm_nonneg W'
  have f5 : c * frob XTA W' ≤ l1 * (W'.map fun wj => Real.sqrt (dot wj wj)).sum := by
    calc _ ≤ c * (dn * (W'.map fun wj => Real.sqrt (dot wj wj)).sum) := mul_le_mul_of_nonneg_left hH hc
      _ = (c * dn) * (W'.map fun wj => Real.sqrt (dot wj wj)).sum := by ring
      _ ≤ _ := mul_le_mul_of_nonneg_right hcd hN
  linarith

/-- the documented multi-task objective (times `n`), unfolded: task by task for the squared error, row by
row for the group penalty -/
theorem objectiveMtl_eq (t : Nat) (C : List (List ℝ)) (Y W : List (List ℝ)) (l1r pen n : ℝ)
    (hW : ∀ wj ∈ W, wj.length = t) :
    objectiveMtl C (colsOf t Y) (colsOf t W) W (List.replicate t 0) l1r pen n
      = 1 / 2 * ((List.range t).map fun k =>
            dot (residual C (colK k Y) (colK k W) 0) (residual C (colK k Y) (colK k W) 0)).sum
        + l1r * pen * n * (W.map fun wj => Real.sqrt (dot wj wj)).sum
        + 1 / 2 * ((1 - l1r) * pen * n) * frob W W := by
  have hn2 : (norm2U : List ℝ → ℝ) = fun wj => Real.sqrt (dot wj wj) := funext norm2U_eq
  unfold objectiveMtl
  simp only [colsOf_eq, List.zip_map', sumS_eq, dotS_eq, half_eq, hn2, List.map_map]
  rw [zipWith_map_replicate _ _ _ _ _ (by simp)]
  have h3 : (List.map ((fun w => dot w w) ∘ fun k => colK k W) (List.range t)).sum = frob W W :=
    frob_colsOf t W W hW hW
  rw [h3]

end LinfaSpec.LeastSquares
