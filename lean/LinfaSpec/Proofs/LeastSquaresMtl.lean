/-
Helper lemmas for the multi-task part of C11: matrices as lists of rows, their columns (`colK`),
the Frobenius inner product `frob`, "column by column = row by row", Cauchy–Schwarz on lists, Hölder for
the (max row norm, sum of row norms) pair, and multi-task weak duality over ℝ.
-/
import LinfaSpec.Proofs.LeastSquares
import Mathlib.Analysis.SpecialFunctions.Pow.Real

set_option linter.unusedSectionVars false

namespace LinfaSpec.LeastSquares
open LinfaSpec

noncomputable instance realTranscC11 : Transc ℝ := ⟨Real.sqrt, Real.exp, Real.log⟩

/-- Frobenius inner product of two lists of vectors (rows or columns alike) -/
def frob {α : Type} [Field α] (A B : List (List α)) : α := (List.zipWith dot A B).sum

/-- column `k` of a matrix given by its rows -/
def colK {α : Type} [OfNat α 0] (k : Nat) (M : List (List α)) : List α := M.map fun row => row.getD k 0

section field
variable {α : Type} [Field α] [LinearOrder α] [IsStrictOrderedRing α]

theorem colsOf_eq (t : Nat) (M : List (List α)) : colsOf t M = (List.range t).map fun k => colK k M := rfl

/-- a row of length `t` against another: the dot product is the sum over the `t` positions -/
theorem dot_eq_sum_range (t : Nat) (a b : List α) (ha : a.length = t) (hb : b.length = t) :
    dot a b = ((List.range t).map fun k => a.getD k 0 * b.getD k 0).sum := by
  induction t generalizing a b with
  | zero =>
    have : a = [] := List.length_eq_zero_iff.mp ha
    subst this; simp
  | succ t ih =>
    cases a with
    | nil => simp at ha
    | cons x xs => cases b with
      | nil => simp at hb
      | cons y ys =>
        rw [List.range_succ_eq_map]
        simp only [List.map_cons, List.map_map, List.sum_cons, dot_cons, List.getD_cons_zero]
        rw [ih xs ys (by simpa using ha) (by simpa using hb)]
        congr 2

theorem sum_map_add' {ι : Type} (l : List ι) (f g : ι → α) :
    (l.map fun k => f k + g k).sum = (l.map f).sum + (l.map g).sum := by
  induction l with
  | nil => simp
  | cons x xs ih => simp only [List.map_cons, List.sum_cons, ih]; ring

/-- summing column by column is summing row by row -/
theorem frob_colsOf (t : Nat) (A B : List (List α)) (hA : ∀ a ∈ A, a.length = t) (hB : ∀ b ∈ B, b.length = t) :
    ((List.range t).map fun k => dot (colK k A) (colK k B)).sum = frob A B := by
  induction A generalizing B with
  | nil => simp [colK, frob]
  | cons a A ih =>
    cases B with
    | nil => simp [colK, frob]
    | cons b B =>
      have h1 : ∀ k, dot (colK k (a :: A)) (colK k (b :: B)) = a.getD k 0 * b.getD k 0 + dot (colK k A) (colK k B) := by
        intro k; simp [colK]
      simp only [h1, sum_map_add']
      rw [ih B (fun x hx => hA x (by simp [hx])) (fun x hx => hB x (by simp [hx]))]
      rw [← dot_eq_sum_range t a b (hA a (by simp)) (hB b (by simp))]
      simp [frob]

theorem sum_flatten_sq (M : List (List α)) : (M.flatten.map fun x => x * x).sum = frob M M := by
  induction M with
  | nil => simp [frob]
  | cons r M ih =>
    simp only [List.flatten_cons, List.map_append, List.sum_append, ih, frob, List.zipWith_cons_cons, List.sum_cons]
    congr 1
    induction r with
    | nil => simp
    | cons x xs ihx => simp [ihx]

/-- Cauchy–Schwarz for lists -/
theorem dot_sq_le (a b : List α) : dot a b ^ 2 ≤ dot a a * dot b b := by
  induction a generalizing b with
  | nil => simp
  | cons x xs ih =>
    cases b with
    | nil => simp
    | cons y ys =>
      simp only [dot_cons]
      have h := ih ys
      have hA := dot_self_nonneg xs
      have hB := dot_self_nonneg ys
      generalize dot xs xs = A at *
      generalize dot ys ys = B at *
      generalize dot xs ys = d at *
      have hu : 0 ≤ x * x * B + y * y * A :=
        add_nonneg (mul_nonneg (mul_self_nonneg x) hB) (mul_nonneg (mul_self_nonneg y) hA)
      have key : 2 * (x * y * d) ≤ x * x * B + y * y * A := by
        by_contra hc
        have hc := lt_of_not_ge hc
        have h1 : (x * x * B + y * y * A) * (x * x * B + y * y * A) < (2 * (x * y * d)) * (2 * (x * y * d)) :=
          mul_self_lt_mul_self hu hc
        have h2 : (2 * (x * y * d)) * (2 * (x * y * d)) = 4 * (x * x) * (y * y) * d ^ 2 := by ring
        have h3 : 4 * (x * x) * (y * y) * d ^ 2 ≤ 4 * (x * x) * (y * y) * (A * B) :=
          mul_le_mul_of_nonneg_left h (mul_nonneg (mul_nonneg (by norm_num) (mul_self_nonneg x)) (mul_self_nonneg y))
        nlinarith [sq_nonneg (x * x * B - y * y * A)]
      nlinarith [key]


/-- one task of the multi-task bound: the single-task chain of `weak_duality` up to (not including) Hölder -/
theorem col_ineq (C : List (List α)) (y w w' r : List α) (l2 c : α)
    (hC : ∀ c ∈ C, c.length = y.length) (hw : w.length = C.length) (hw' : w'.length = C.length)
    (hr : r.length = y.length) (hl2 : 0 ≤ l2) :
    c * dot r y - 1 / 2 * c ^ 2 * dot r r - 1 / 2 * l2 * c ^ 2 * dot w w
        - c * dot (List.zipWith (fun cj wj => dot cj r - wj * l2) C w) w' ≤
      1 / 2 * dot (List.zipWith (fun yi xi => yi - xi) y (matVec y.length C w'))
          (List.zipWith (fun yi xi => yi - xi) y (matVec y.length C w'))
        + 1 / 2 * l2 * dot w' w' := by
  set a := matVec y.length C w' with ha
  have hal : a.length = y.length := matVec_length _ _ _ hC
  set u := List.zipWith (fun yi xi => yi - xi) y a with hu
  have hul : u.length = r.length := by simp [hu, hal, hr]
  have f1 := half_sq_ge c u r hul
  have f1' : dot r u = dot r y - dot r a := dot_residual0 r y a hal.symm
  have f2 := half_sq_ge c w' w (by rw [hw, hw'])
  have f3 : dot r a = (List.zipWith (fun c wj => dot c r * wj) C w').sum := dot_matVec _ C w' r hC hw'
  have f4 := xta_dot C r w w' l2 hw hw'
  have f2' := mul_le_mul_of_nonneg_left f2 hl2
  rw [f1', f3] at f1
  have f4' : dot (List.zipWith (fun cj wj => dot cj r - wj * l2) C w) w'
      = (List.zipWith (fun c wj => dot c r * wj) C w').sum - l2 * dot w w' := f4
  rw [f4']
  nlinarith [f1, f2']

/-- a linear combination of termwise inequalities, summed over an index list -/
theorem sum_lin6 {ι : Type} (l : List ι) (a b d e f g : ι → α) (c l2 : α)
    (h : ∀ k ∈ l, c * a k - 1 / 2 * c ^ 2 * b k - 1 / 2 * l2 * c ^ 2 * d k - c * e k ≤ 1 / 2 * f k + 1 / 2 * l2 * g k) :
    c * (l.map a).sum - 1 / 2 * c ^ 2 * (l.map b).sum - 1 / 2 * l2 * c ^ 2 * (l.map d).sum - c * (l.map e).sum ≤
      1 / 2 * (l.map f).sum + 1 / 2 * l2 * (l.map g).sum := by
  induction l with
  | nil => simp
  | cons x xs ih =>
    have h1 := h x (by simp)
    have h2 := ih (fun k hk => h k (by simp [hk]))
    simp only [List.map_cons, List.sum_cons]
    linarith

theorem zipWith_map_map_self {ι β γ δ : Type} (F : β → γ → δ) (f : ι → β) (g : ι → γ) (l : List ι) :
    List.zipWith F (l.map f) (l.map g) = l.map fun k => F (f k) (g k) := by
  induction l with
  | nil => simp
  | cons x xs ih => simp [ih]

theorem zipWith_map_replicate {ι β γ δ : Type} (F : β → γ → δ) (f : ι → β) (z : γ) (l : List ι) (m : Nat)
    (hm : m = l.length) : List.zipWith F (l.map f) (List.replicate m z) = l.map fun k => F (f k) z := by
  subst hm
  induction l with
  | nil => simp
  | cons x xs ih => simp [List.replicate_succ, ih]

theorem residual_zero_eq (C : List (List α)) (y w : List α) :
    residual C y w 0 = List.zipWith (fun yi xi => yi - xi) y (matVec y.length C w) := by
  simp [residual]

theorem colK_length (k : Nat) (M : List (List α)) : (colK k M).length = M.length := by simp [colK]

theorem getD_zipWith_range (t k : Nat) (hk : k < t) (f : List α → α → α) (g : Nat → List α) (wj : List α)
    (hwj : wj.length = t) :
    (List.zipWith f ((List.range t).map g) wj).getD k 0 = f (g k) (wj.getD k 0) := by
  have h1 : k < wj.length := by omega
  simp [List.getD_eq_getElem?_getD, hk, h1]

/-- column `k` of the matrix `XᵀR − l2·W` (as the model builds it, row by row) is the single-task
`Xᵀ r_k − l2·w_k` of task `k` -/
theorem colK_xta (t k : Nat) (hk : k < t) (C : List (List α)) (W R : List (List α)) (l2 : α)
    (hW : ∀ wj ∈ W, wj.length = t) :
    colK k (List.zipWith (fun c wj => List.zipWith (fun rk wjk => dot c rk - wjk * l2) (colsOf t R) wj) C W)
      = List.zipWith (fun c wjk => dot c (colK k R) - wjk * l2) C (colK k W) := by
  induction C generalizing W with
  | nil => simp [colK]
  | cons c C ih =>
    cases W with
    | nil => simp [colK]
    | cons wj W =>
      have := ih W (fun x hx => hW x (by simp [hx]))
      simp only [colK, List.zipWith_cons_cons, List.map_cons] at this ⊢
      rw [this, colsOf_eq, getD_zipWith_range t k hk _ _ wj (hW wj (by simp))]
      rfl

theorem xta_row_length (t : Nat) (C : List (List α)) (W R : List (List α)) (l2 : α)
    (hW : ∀ wj ∈ W, wj.length = t) :
    ∀ row ∈ List.zipWith (fun c wj => List.zipWith (fun rk wjk => dot c rk - wjk * l2) (colsOf t R) wj) C W,
      row.length = t := by
  induction C generalizing W with
  | nil => simp
  | cons c C ih =>
    cases W with
    | nil => simp
    | cons wj W =>
      intro row hrow
      simp only [List.zipWith_cons_cons, List.mem_cons] at hrow
      rcases hrow with rfl | h
      · simp [colsOf, hW wj (by simp)]
      · exact ih W (fun x hx => hW x (by simp [hx])) row h

/-- transposing twice gives the matrix back -/
theorem colsOf_colsOf (t n : Nat) (cols : List (List α)) (hlen : cols.length = t)
    (hc : ∀ c ∈ cols, c.length = n) : colsOf t (colsOf n cols) = cols := by
  apply List.ext_getElem (by simp [colsOf, hlen])
  intro k h1 h2
  have hk : k < cols.length := h2
  have hcl : (cols[k]).length = n := hc _ (List.getElem_mem hk)
  simp only [colsOf, List.getElem_map, List.getElem_range, List.map_map]
  apply List.ext_getElem (by simp [hcl])
  intro i h3 h4
  simp [List.getD_eq_getElem?_getD, hk, h4]

/-- `residualMtl` has the shape of `Y` and its columns are the single-task residuals -/
theorem residualMtl_spec (t : Nat) (C : List (List α)) (Y W : List (List α)) (hC : ∀ c ∈ C, c.length = Y.length) :
    (residualMtl t C Y W).length = Y.length ∧ (∀ r ∈ residualMtl t C Y W, r.length = t) ∧
      colsOf t (residualMtl t C Y W)
        = List.zipWith (fun yk wk => LeastSquares.residual C yk wk 0) (colsOf t Y) (colsOf t W) := by
  refine ⟨by simp [residualMtl, colsOf], ?_, ?_⟩
  · intro r hr
    simp only [residualMtl, colsOf, List.mem_map, List.mem_range] at hr
    obtain ⟨i, _, rfl⟩ := hr
    simp
  · unfold residualMtl
    apply colsOf_colsOf
    · simp [colsOf]
    · intro c hc
      rw [colsOf_eq, colsOf_eq, zipWith_map_map_self] at hc
      obtain ⟨k, _, rfl⟩ := List.mem_map.mp hc
      rw [residual_length C _ _ 0 (by intro c hc'; rw [colK_length]; exact hC c hc'), colK_length]

/-- the algebra of one coordinate step on the residual: add back the old contribution of feature `j`,
subtract the new one -/
theorem residual_set (C : List (List α)) (y w : List α) (j : Nat) (cj : List α) (v : α)
    (hC : ∀ c ∈ C, c.length = y.length) (hw : w.length = C.length) (hcj : C[j]? = some cj) :
    axpy (-v) cj (axpy (w.getD j 0) cj (LeastSquares.residual C y w 0)) = LeastSquares.residual C y (w.set j v) 0 := by
  have hcjl : cj.length = y.length := hC cj (List.mem_of_getElem? hcj)
  have hM : (matVec y.length C w).length = y.length := matVec_length _ C w hC
  unfold LeastSquares.residual
  rw [matVec_set _ C w j v cj hC hw hcj]
  unfold axpy
  apply List.ext_getElem (by simp [hM, hcjl])
  intro i h1 h2
  simp only [List.getElem_zipWith, List.getElem_map]
  ring

theorem dot_self_eq_zero (v : List α) (h : dot v v = 0) : ∀ x ∈ v, x = 0 := by
  induction v with
  | nil => simp
  | cons a as ih =>
    simp only [dot_cons] at h
    have h1 := dot_self_nonneg as
    have h2 := mul_self_nonneg a
    have ha : a * a = 0 := by linarith
    have has : dot as as = 0 := by linarith
    intro x hx
    rcases List.mem_cons.mp hx with rfl | hx
    · exact mul_self_eq_zero.mp ha
    · exact ih has x hx

theorem rankOne_length (neg : Bool) (cj v : List α) (R : List (List α)) (h : cj.length = R.length) :
    (rankOne neg cj v R).length = R.length := by simp [rankOne, h]

theorem rankOne_rows (neg : Bool) (t : Nat) (cj v : List α) (R : List (List α)) (hv : v.length = t)
    (hR : ∀ r ∈ R, r.length = t) : ∀ r ∈ rankOne neg cj v R, r.length = t := by
  intro r hr
  simp only [rankOne, List.mem_iff_getElem, List.length_zipWith] at hr
  obtain ⟨i, hi, rfl⟩ := hr
  simp only [List.getElem_zipWith, List.length_zipWith, hv]
  rw [hR _ (List.getElem_mem _)]; simp

/-- column `k` of a rank-one update is an `axpy` on column `k` -/
theorem colK_rankOne (neg : Bool) (t k : Nat) (hk : k < t) (cj v : List α) (R : List (List α)) (hv : v.length = t)
    (hR : ∀ r ∈ R, r.length = t) :
    colK k (rankOne neg cj v R) = axpy (if neg then -(v.getD k 0) else v.getD k 0) cj (colK k R) := by
  unfold colK rankOne axpy
  apply List.ext_getElem (by simp)
  intro i h1 h2
  have hi : i < R.length := by simp at h1; omega
  have hrl : (R[i]).length = t := hR _ (List.getElem_mem hi)
  have hk1 : k < (R[i]).length := by omega
  have hk2 : k < v.length := by omega
  simp only [List.getElem_map, List.getElem_zipWith, List.getD_eq_getElem?_getD]
  rw [List.getElem?_zipWith]
  simp only [List.getElem?_eq_getElem hk1, List.getElem?_eq_getElem hk2, Option.getD_some]
  cases neg <;> simp <;> ring

theorem colK_set (k j : Nat) (W : List (List α)) (new : List α) :
    colK k (W.set j new) = (colK k W).set j (new.getD k 0) := by
  simp [colK, List.map_set]

theorem colK_getD (k j : Nat) (W : List (List α)) (hj : j < W.length) :
    (colK k W).getD j 0 = (W.getD j []).getD k 0 := by
  simp [colK, List.getD_eq_getElem?_getD, hj]

theorem blockSoft_length [Transc α] (x : List α) (thr : α) : (blockSoft x thr).length = x.length := by
  unfold blockSoft
  by_cases h : norm2U x ≤ thr <;> simp [h]

/-- at the intercept `m` the squared error of task `y` is that of the centred task `y − m` without intercept -/
theorem sq_centre_eq (C : List (List α)) (y w : List α) (m : α) :
    dot (LeastSquares.residual C y w m) (LeastSquares.residual C y w m)
      = dot (LeastSquares.residual C (y.map (· - m)) w 0) (LeastSquares.residual C (y.map (· - m)) w 0) := by
  rw [residual_centre C y w m m]; simp

/-- on centred columns, with `m` the mean of `y`, any intercept `b'` only adds `n·(b' − m)²` -/
theorem sq_centre_le (C : List (List α)) (y w' : List α) (b' : α) (hC : ∀ c ∈ C, c.length = y.length)
    (hy : 0 < y.length) (hcen : ∀ c ∈ C, c.sum = 0) :
    dot (LeastSquares.residual C (y.map (· - y.sum / (y.length : α))) w' 0)
        (LeastSquares.residual C (y.map (· - y.sum / (y.length : α))) w' 0)
      ≤ dot (LeastSquares.residual C y w' b') (LeastSquares.residual C y w' b') := by
  set m := y.sum / (y.length : α) with hm
  set yc := y.map (· - m) with hyc
  have hycl : yc.length = y.length := by simp [hyc]
  have hC' : ∀ c ∈ C, c.length = yc.length := fun c hc => by rw [hycl]; exact hC c hc
  have hnpos : (0 : α) < (y.length : α) := by exact_mod_cast hy
  rw [residual_centre C y w' m b', ← hyc]
  generalize hv : LeastSquares.residual C yc w' 0 = v
  have hvs : v.sum = 0 := by
    rw [← hv]; unfold LeastSquares.residual
    rw [sum_residual 0 yc _ (by rw [matVec_length _ _ _ hC']), sum_matVec_centred _ C w' hC' hcen, hyc,
      sum_map_sub, hm]
    field_simp; ring
  have hsh := sum_sq_shift v (b' - m) 0
  rw [hvs] at hsh
  have hv0 : v.map (· - (0 : α)) = v := by simp
  rw [hv0] at hsh
  have : 0 ≤ (v.length : α) * (0 - (b' - m)) ^ 2 := mul_nonneg (Nat.cast_nonneg _) (sq_nonneg _)
  rw [hsh]; nlinarith

theorem zipWith_map_range_getD {β δ : Type} (F : β → α → δ) (f : Nat → β) (t : Nat) (b : List α) (hb : b.length = t) :
    List.zipWith F ((List.range t).map f) b = (List.range t).map fun k => F (f k) (b.getD k 0) := by
  apply List.ext_getElem (by simp [hb])
  intro i h1 h2
  have hi : i < b.length := by simp at h1; omega
  simp [List.getD_eq_getElem?_getD, hi]

end field

/-! ### over ℝ: norms -/

theorem norm2U_eq (x : List ℝ) : norm2U x = Real.sqrt (dot x x) := by
  unfold norm2U; rw [dotU_eq]; rfl

theorem dot_le_norm_mul (a b : List ℝ) : dot a b ≤ Real.sqrt (dot a a) * Real.sqrt (dot b b) := by
  have h := dot_sq_le a b
  have h1 : |dot a b| ≤ Real.sqrt (dot a a * dot b b) := Real.abs_le_sqrt h
  rw [Real.sqrt_mul (dot_self_nonneg a)] at h1
  exact le_trans (le_abs_self _) h1

theorem sum_norm_nonneg (B : List (List ℝ)) : 0 ≤ (B.map fun b => Real.sqrt (dot b b)).sum := by
  induction B with
  | nil => simp
  | cons b B ih => simp only [List.map_cons, List.sum_cons]; linarith [Real.sqrt_nonneg (dot b b)]

/-- Hölder for the pair (max row norm, sum of row norms) -/
theorem holder_rows (A B : List (List ℝ)) (dn : ℝ) (hdn0 : 0 ≤ dn)
    (h : ∀ a ∈ A, Real.sqrt (dot a a) ≤ dn) :
    frob A B ≤ dn * (B.map fun b => Real.sqrt (dot b b)).sum := by
  induction A generalizing B with
  | nil => simpa [frob] using mul_nonneg hdn0 (sum_norm_nonneg B)
  | cons a A ih =>
    cases B with
    | nil => simp [frob]
    | cons b B =>
      have h1 := ih B (fun z hz => h z (List.mem_cons_of_mem _ hz))
      have h2 : Real.sqrt (dot a a) ≤ dn := h a List.mem_cons_self
      have h3 := dot_le_norm_mul a b
      have h4 : Real.sqrt (dot a a) * Real.sqrt (dot b b) ≤ dn * Real.sqrt (dot b b) :=
        mul_le_mul_of_nonneg_right h2 (Real.sqrt_nonneg _)
      simp only [frob, List.zipWith_cons_cons, List.sum_cons, List.map_cons] at h1 ⊢
      linarith

/-- **multi-task weak duality** (for an arbitrary matrix `R`): for every scaling `c ≥ 0` with
`c · max_j ‖(XᵀR − l2·W)_j‖₂ ≤ l1`, the dual value is below the primal value at every `W'`.
Matrices are lists of rows; `Y`, `R` : `n` rows of `t`; `W`, `W'` : `p` rows of `t`. -/
theorem weak_duality_mtl (t : Nat) (C : List (List ℝ)) (Y W W' R : List (List ℝ)) (l1 l2 c dn : ℝ)
    (hC : ∀ c ∈ C, c.length = Y.length) (hRn : R.length = Y.length)
    (hR : ∀ r ∈ R, r.length = t) (hY : ∀ y ∈ Y, y.length = t)
    (hWp : W.length = C.length) (hW : ∀ wj ∈ W, wj.length = t)
    (hWp' : W'.length = C.length) (hW' : ∀ wj ∈ W', wj.length = t)
    (hl2 : 0 ≤ l2) (hc : 0 ≤ c) (hcd : c * dn ≤ l1) (hdn0 : 0 ≤ dn)
    (hdn : ∀ row ∈ List.zipWith (fun cj wj => List.zipWith (fun rk wjk => dot cj rk - wjk * l2) (colsOf t R) wj) C W,
      Real.sqrt (dot row row) ≤ dn) :
    c * frob R Y - 1 / 2 * c ^ 2 * frob R R - 1 / 2 * l2 * c ^ 2 * frob W W ≤
      1 / 2 * ((List.range t).map fun k =>
          dot (List.zipWith (fun yi xi => yi - xi) (colK k Y) (matVec Y.length C (colK k W')))
            (List.zipWith (fun yi xi => yi - xi) (colK k Y) (matVec Y.length C (colK k W')))).sum
        + l1 * (W'.map fun wj => Real.sqrt (dot wj wj)).sum + 1 / 2 * l2 * frob W' W' := by
  set XTA := List.zipWith (fun cj wj => List.zipWith (fun rk wjk => dot cj rk - wjk * l2) (colsOf t R) wj) C W
    with hXTA
  have hcol : ∀ k ∈ List.range t,
      c * dot (colK k R) (colK k Y) - 1 / 2 * c ^ 2 * dot (colK k R) (colK k R)
          - 1 / 2 * l2 * c ^ 2 * dot (colK k W) (colK k W) - c * dot (colK k XTA) (colK k W') ≤
        1 / 2 * dot (List.zipWith (fun yi xi => yi - xi) (colK k Y) (matVec Y.length C (colK k W')))
            (List.zipWith (fun yi xi => yi - xi) (colK k Y) (matVec Y.length C (colK k W')))
          + 1 / 2 * l2 * dot (colK k W') (colK k W') := by
    intro k hk
    have hk' : k < t := List.mem_range.mp hk
    have := col_ineq C (colK k Y) (colK k W) (colK k W') (colK k R) l2 c
      (by intro c hc; rw [colK_length]; exact hC c hc) (by rw [colK_length, hWp]) (by rw [colK_length, hWp'])
      (by rw [colK_length, colK_length, hRn]) hl2
    rw [colK_length] at this
    rw [hXTA, colK_xta t k hk' C W R l2 hW]
    exact this
  have hsum := sum_lin6 (List.range t) _ _ _ _ _ _ c l2 hcol
  rw [frob_colsOf t R Y hR hY, frob_colsOf t R R hR hR, frob_colsOf t W W hW hW, frob_colsOf t W' W' hW' hW',
    frob_colsOf t XTA W' (by rw [hXTA]; exact xta_row_length t C W R l2 hW) hW'] at hsum
  have hH := holder_rows XTA W' dn hdn0 hdn
  have hN := sum_norm_nonneg W'
  have f5 : c * frob XTA W' ≤ l1 * (W'.map fun wj => Real.sqrt (dot wj wj)).sum := by
    calc _ ≤ c * (dn * (W'.map fun wj => Real.sqrt (dot wj wj)).sum) := mul_le_mul_of_nonneg_left hH hc
      _ = (c * dn) * (W'.map fun wj => Real.sqrt (dot wj wj)).sum := by ring
      _ ≤ _ := mul_le_mul_of_nonneg_right hcd hN
  linarith

/-- the documented multi-task objective (times `n`), unfolded: task by task for the squared error, row by
row for the group penalty -/
theorem objectiveMtl_eq (t : Nat) (C : List (List ℝ)) (Y W : List (List ℝ)) (l1r pen n : ℝ)
    (hW : ∀ wj ∈ W, wj.length = t) :
    objectiveMtl C (colsOf t Y) (colsOf t W) W (List.replicate t 0) l1r pen n
      = 1 / 2 * ((List.range t).map fun k =>
            dot (residual C (colK k Y) (colK k W) 0) (residual C (colK k Y) (colK k W) 0)).sum
        + l1r * pen * n * (W.map fun wj => Real.sqrt (dot wj wj)).sum
        + 1 / 2 * ((1 - l1r) * pen * n) * frob W W := by
  have hn2 : (norm2U : List ℝ → ℝ) = fun wj => Real.sqrt (dot wj wj) := funext norm2U_eq
  unfold objectiveMtl
  simp only [colsOf_eq, List.zip_map', sumS_eq, dotS_eq, half_eq, hn2, List.map_map]
  rw [zipWith_map_replicate _ _ _ _ _ (by simp)]
  have h3 : (List.map ((fun w => dot w w) ∘ fun k => colK k W) (List.range t)).sum = frob W W :=
    frob_colsOf t W W hW hW
  rw [h3]

/-! ### the residual invariant of block coordinate descent (over ℝ) -/

/-- the guard `‖v‖₂ != 0` only skips updates that change nothing -/
theorem rankOne_if_zero (neg : Bool) (t : Nat) (cj v : List ℝ) (R : List (List ℝ)) (hv : v.length = t)
    (hR : ∀ r ∈ R, r.length = t) (hcj : cj.length = R.length) :
    (if absS (norm2U v) ≤ 0 then R else rankOne neg cj v R) = rankOne neg cj v R := by
  split
  · rename_i h0
    rw [absS_eq, norm2U_eq] at h0
    have h1 : Real.sqrt (dot v v) = 0 := abs_nonpos_iff.mp h0
    have h2 : dot v v = 0 := le_antisymm (Real.sqrt_eq_zero'.mp h1) (dot_self_nonneg v)
    have hz := dot_self_eq_zero v h2
    unfold rankOne
    apply List.ext_getElem (by simp [hcj])
    intro i h3 h4
    simp only [List.getElem_zipWith]
    have hrl : (R[i]).length = t := hR _ (List.getElem_mem h3)
    apply List.ext_getElem (by simp [hrl, hv])
    intro k h5 h6
    have : v[k]'(by simp at h6; omega) = 0 := hz _ (List.getElem_mem _)
    simp only [List.getElem_zipWith, this]
    cases neg <;> simp
  · rfl

/-- the invariant of the multi-task descent: shapes, and `R = Y − XW` task by task -/
def BcdInv (t : Nat) (C : List (List ℝ)) (Y : List (List ℝ)) (st : BcdState ℝ) : Prop :=
  st.r.length = Y.length ∧ (∀ r ∈ st.r, r.length = t) ∧ st.w.length = C.length ∧ (∀ wj ∈ st.w, wj.length = t) ∧
    ∀ k, k < t → colK k st.r = LeastSquares.residual C (colK k Y) (colK k st.w) 0

theorem bcdCoord_inv (contig : Bool) (t : Nat) (thr denAdd : ℝ) (C : List (List ℝ)) (Y : List (List ℝ))
    (st : BcdState ℝ) (j : Nat) (cj : List ℝ) (nrm : ℝ) (hC : ∀ c ∈ C, c.length = Y.length)
    (hcj : C[j]? = some cj) (h : BcdInv t C Y st) : BcdInv t C Y (bcdCoord contig t thr denAdd st j cj nrm) := by
  obtain ⟨hrn, hrt, hwp, hwt, hres⟩ := h
  unfold bcdCoord
  split
  · exact ⟨hrn, hrt, hwp, hwt, hres⟩
  · have hcjl : cj.length = Y.length := hC cj (List.mem_of_getElem? hcj)
    have hj : j < st.w.length := by
      rw [hwp]; exact (List.getElem?_eq_some_iff.mp hcj).1
    have hold : (st.w.getD j []).length = t := by
      rw [List.getD_eq_getElem?_getD, List.getElem?_eq_getElem hj]
      exact hwt _ (List.getElem_mem hj)
    simp only []
    generalize hold' : st.w.getD j [] = old at hold
    rw [rankOne_if_zero false t cj old st.r hold hrt (by rw [hcjl, hrn])]
    set r1 := rankOne false cj old st.r with hr1
    have hr1n : r1.length = Y.length := by rw [hr1, rankOne_length _ _ _ _ (by rw [hcjl, hrn]), hrn]
    have hr1t : ∀ r ∈ r1, r.length = t := rankOne_rows false t cj old st.r hold hrt
    generalize hnew : List.map (fun x => x / (nrm + denAdd))
      (blockSoft (List.map (fun rc => dotC (contig && t == 1) rc cj) (colsOf t r1)) thr) = new
    have hnewl : new.length = t := by
      rw [← hnew]; simp [blockSoft_length, colsOf]
    rw [rankOne_if_zero true t cj new r1 hnewl hr1t (by rw [hcjl, hr1n])]
    refine ⟨?_, ?_, by simp [hwp], ?_, ?_⟩
    · rw [rankOne_length _ _ _ _ (by rw [hcjl, hr1n]), hr1n]
    · exact rankOne_rows true t cj new r1 hnewl hr1t
    · intro wj hwj
      rcases List.mem_or_eq_of_mem_set hwj with h | h
      · exact hwt wj h
      · rw [h]; exact hnewl
    · intro k hk
      rw [colK_rankOne true t k hk cj new r1 hnewl hr1t, hr1, colK_rankOne false t k hk cj old st.r hold hrt,
        colK_set, hres k hk]
      simp only [if_true, Bool.false_eq_true, if_false]
      have hg : old.getD k 0 = (colK k st.w).getD j 0 := by rw [colK_getD k j st.w hj, hold']
      rw [hg]
      exact residual_set C (colK k Y) (colK k st.w) j cj (new.getD k 0)
        (by intro c hc; rw [colK_length]; exact hC c hc) (by rw [colK_length, hwp]) hcj

theorem bcdSweepGo_inv (contig : Bool) (t : Nat) (thr denAdd : ℝ) (C : List (List ℝ)) (Y : List (List ℝ))
    (hC : ∀ c ∈ C, c.length = Y.length) (Cr : List (List ℝ)) :
    ∀ (j : Nat) (ns : List ℝ) (st : BcdState ℝ), (∀ k, Cr[k]? = C[j + k]?) → BcdInv t C Y st →
      BcdInv t C Y (bcdSweepGo contig t thr denAdd j Cr ns st) := by
  induction Cr with
  | nil => intro j ns st _ h; simpa [bcdSweepGo] using h
  | cons c Cr ih =>
    intro j ns st hk h
    cases ns with
    | nil => simpa [bcdSweepGo] using h
    | cons nrm ns =>
      simp only [bcdSweepGo]
      apply ih
      · intro k
        have := hk (k + 1)
        simp only [List.getElem?_cons_succ] at this
        rw [this]; congr 1; omega
      · apply bcdCoord_inv contig t thr denAdd C Y st j c nrm hC _ h
        have := hk 0
        simpa using this.symm

theorem bcdLoop_certificate (contig : Bool) (t : Nat) (eps thr denAdd : ℝ) (C : List (List ℝ)) (norms : List ℝ)
    (Y : List (List ℝ)) (n tol tolS l1r pen : ℝ) (maxSteps : Nat) (hC : ∀ c ∈ C, c.length = Y.length) :
    ∀ (fuel steps : Nat) (w r : List (List ℝ)) (gap : ℝ) (w' : List (List ℝ)) (g' : ℝ) (s' : Nat),
      BcdInv t C Y { w := w, r := r, wMax := 0, dwMax := 0 } →
      bcdLoop contig t eps thr denAdd C norms Y n tol tolS l1r pen maxSteps fuel steps w r gap = (w', g', s') →
      s' ≤ steps + fuel ∧
        (s' < steps + fuel → ∃ r', BcdInv t C Y { w := w', r := r', wMax := 0, dwMax := 0 } ∧
          g' = dualityGapMtl t C Y w' r' l1r pen n ∧ g' < tolS) := by
  intro fuel
  induction fuel with
  | zero =>
    intro steps w r gap w' g' s' _ h
    simp only [bcdLoop, Prod.mk.injEq] at h
    obtain ⟨rfl, rfl, rfl⟩ := h
    exact ⟨le_refl _, fun h => absurd h (lt_irrefl _)⟩
  | succ fuel ih =>
    intro steps w r gap w' g' s' hinv0 h
    have hinv : BcdInv t C Y (bcdSweepGo contig t thr denAdd 0 C norms { w := w, r := r, wMax := 0, dwMax := 0 }) :=
      bcdSweepGo_inv contig t thr denAdd C Y hC C 0 norms _ (fun k => by simp) hinv0
    simp only [bcdLoop] at h
    generalize bcdSweepGo contig t thr denAdd 0 C norms { w := w, r := r, wMax := 0, dwMax := 0 } = st at hinv h
    have hinv' : BcdInv t C Y { w := st.w, r := st.r, wMax := 0, dwMax := 0 } := hinv
    split at h
    · split at h
      · rename_i hg
        simp only [Prod.mk.injEq] at h
        obtain ⟨rfl, rfl, rfl⟩ := h
        exact ⟨by omega, fun _ => ⟨st.r, hinv', rfl, hg⟩⟩
      · have := ih (steps + 1) st.w st.r _ w' g' s' hinv' h
        exact ⟨by omega, fun hlt => this.2 (by omega)⟩
    · have := ih (steps + 1) st.w st.r _ w' g' s' hinv' h
      exact ⟨by omega, fun hlt => this.2 (by omega)⟩

theorem bcdInv_hres (t : Nat) (C : List (List ℝ)) (Y : List (List ℝ)) (st : BcdState ℝ) (h : BcdInv t C Y st) :
    colsOf t st.r = List.zipWith (fun yk wk => LeastSquares.residual C yk wk 0) (colsOf t Y) (colsOf t st.w) := by
  rw [colsOf_eq, colsOf_eq, colsOf_eq, zipWith_map_map_self]
  apply List.map_congr_left
  intro k hk
  exact h.2.2.2.2 k (List.mem_range.mp hk)

theorem bcdInv_start (t : Nat) (C : List (List ℝ)) (Y : List (List ℝ)) (hC : ∀ c ∈ C, c.length = Y.length)
    (hY : ∀ y ∈ Y, y.length = t) :
    BcdInv t C Y { w := List.replicate C.length (List.replicate t 0), r := Y, wMax := 0, dwMax := 0 } := by
  refine ⟨rfl, hY, by simp, ?_, ?_⟩
  · intro wj hwj
    rw [List.eq_of_mem_replicate hwj]; simp
  · intro k hk
    have : colK k (List.replicate C.length (List.replicate t (0 : ℝ))) = List.replicate C.length 0 := by
      simp [colK, hk]
    simp only [this]
    exact (residual_zero_start C (colK k Y) (by intro c hc; rw [colK_length]; exact hC c hc)).symm

/-! ### intercepts of the multi-task fit -/

/-- `objectiveMtl` with arbitrary intercepts, unfolded task by task -/
theorem objectiveMtl_eq_b (t : Nat) (C : List (List ℝ)) (Y W : List (List ℝ)) (b : List ℝ) (l1r pen n : ℝ)
    (hW : ∀ wj ∈ W, wj.length = t) (hb : b.length = t) :
    objectiveMtl C (colsOf t Y) (colsOf t W) W b l1r pen n
      = 1 / 2 * ((List.range t).map fun k =>
            dot (LeastSquares.residual C (colK k Y) (colK k W) (b.getD k 0))
              (LeastSquares.residual C (colK k Y) (colK k W) (b.getD k 0))).sum
        + l1r * pen * n * (W.map fun wj => Real.sqrt (dot wj wj)).sum
        + 1 / 2 * ((1 - l1r) * pen * n) * frob W W := by
  have hn2 : (norm2U : List ℝ → ℝ) = fun wj => Real.sqrt (dot wj wj) := funext norm2U_eq
  unfold objectiveMtl
  simp only [colsOf_eq, List.zip_map', sumS_eq, dotS_eq, half_eq, hn2, List.map_map]
  rw [zipWith_map_range_getD _ _ t b hb]
  have h3 : (List.map ((fun w => dot w w) ∘ fun k => colK k W) (List.range t)).sum = frob W W :=
    frob_colsOf t W W hW hW
  rw [h3]

/-- what `compute_intercept` returns for a 2-D target: shapes, and task `k` of the centred target is task `k`
of the target minus its mean -/
theorem computeInterceptMtl_spec (t : Nat) (Y : List (List ℝ)) (n : ℝ) (hY : ∀ y ∈ Y, y.length = t) :
    (computeInterceptMtl true t Y n).1.length = t ∧
    (computeInterceptMtl true t Y n).2.length = Y.length ∧
    (∀ y ∈ (computeInterceptMtl true t Y n).2, y.length = t) ∧
    ∀ k, k < t → (computeInterceptMtl true t Y n).1.getD k 0 = (colK k Y).sum / n ∧
      colK k (computeInterceptMtl true t Y n).2 = (colK k Y).map (· - (colK k Y).sum / n) := by
  simp only [computeInterceptMtl, if_true]
  refine ⟨by simp [colsOf], by simp, ?_, ?_⟩
  · intro y hy
    obtain ⟨row, hrow, rfl⟩ := List.mem_map.mp hy
    simp [colsOf, hY row hrow]
  · intro k hk
    have hm : (List.map (fun c => sumS c / n) (colsOf t Y)).getD k 0 = (colK k Y).sum / n := by
      simp [colsOf_eq, List.getD_eq_getElem?_getD, hk, sumS_eq]
    refine ⟨hm, ?_⟩
    unfold colK
    rw [List.map_map, List.map_map]
    apply List.map_congr_left
    intro row hrow
    have hrl : k < row.length := by rw [hY row hrow]; exact hk
    simp only [Function.comp]
    have hm' : (List.map (fun c => sumS c / n) (colsOf t Y)).getD k 0
        = (List.map (fun row => row.getD k 0) Y).sum / n := hm
    rw [← hm']
    have hMl : (List.map (fun c => sumS c / n) (colsOf t Y)).length = t := by simp [colsOf]
    generalize List.map (fun c => sumS c / n) (colsOf t Y) = M at hMl ⊢
    have hk2 : k < M.length := by omega
    simp [List.getD_eq_getElem?_getD, List.getElem?_zipWith, hrl, hk2]

/-! ### the group prox is an argmin -/

theorem dot_map_mul_right (x : List ℝ) (s : ℝ) : dot x (x.map (· * s)) = s * dot x x := by
  induction x with
  | nil => simp
  | cons a as ih => simp only [List.map_cons, dot_cons, ih]; ring

theorem dot_map_mul_self (x : List ℝ) (s : ℝ) : dot (x.map (· * s)) (x.map (· * s)) = s ^ 2 * dot x x := by
  induction x with
  | nil => simp
  | cons a as ih => simp only [List.map_cons, dot_cons, ih]; ring

theorem dot_replicate_zero_left (n : Nat) (z : List ℝ) : dot (List.replicate n 0) z = 0 := by
  rw [dot_comm]; exact dot_replicate_zero z n

theorem softThreshold_nonneg_arg (a thr den : ℝ) (ha : 0 ≤ a) :
    softThreshold a thr den = max (a - thr) 0 / den := by
  unfold softThreshold signumS
  rw [if_neg (not_lt.mpr ha), maxS_eq, absS_eq, abs_of_nonneg ha]; ring

/-- **the block update is the exact minimiser of the per-feature subproblem** -/
theorem blockSoft_argmin (x z : List ℝ) (thr den : ℝ) (hthr : 0 ≤ thr) (hden : 0 < den) :
    1 / 2 * den * dot ((blockSoft x thr).map (· / den)) ((blockSoft x thr).map (· / den))
        - dot x ((blockSoft x thr).map (· / den))
        + thr * Real.sqrt (dot ((blockSoft x thr).map (· / den)) ((blockSoft x thr).map (· / den)))
      ≤ 1 / 2 * den * dot z z - dot x z + thr * Real.sqrt (dot z z) := by
  set a := Real.sqrt (dot x x) with ha
  have ha0 : 0 ≤ a := Real.sqrt_nonneg _
  have haa : a * a = dot x x := Real.mul_self_sqrt (dot_self_nonneg x)
  set sz := Real.sqrt (dot z z) with hsz
  have hsz0 : 0 ≤ sz := Real.sqrt_nonneg _
  have hszz : sz * sz = dot z z := Real.mul_self_sqrt (dot_self_nonneg z)
  have hcs : dot x z ≤ a * sz := dot_le_norm_mul x z
  -- the scalar problem in `‖z‖`
  have hsc := soft_threshold_argmin a thr den sz hthr hden
  rw [softThreshold_nonneg_arg a thr den ha0, abs_of_nonneg hsz0] at hsc
  have hlow : 1 / 2 * den * sz ^ 2 - a * sz + thr * sz ≤ 1 / 2 * den * dot z z - dot x z + thr * sz := by
    nlinarith
  refine le_trans ?_ (le_trans hsc hlow)
  unfold blockSoft
  rw [norm2U_eq, ← ha]
  by_cases h : a ≤ thr
  · rw [if_pos h]
    have hm : max (a - thr) 0 = 0 := max_eq_right (by linarith)
    simp only [List.map_replicate, zero_div, dot_replicate_zero, dot_replicate_zero_left, hm]
    simp
  · rw [if_neg h]
    have hlt : thr < a := lt_of_not_ge h
    have hapos : 0 < a := lt_of_le_of_lt hthr hlt
    have hm : max (a - thr) 0 = a - thr := max_eq_left (by linarith)
    simp only [List.map_map]
    have hfun : ((fun v : ℝ => v / den) ∘ fun v => v * (1 - thr / a)) = fun v => v * ((1 - thr / a) / den) := by
      funext v; simp only [Function.comp]; ring
    rw [hfun, dot_map_mul_self, dot_map_mul_right, hm]
    set c := (1 - thr / a) / den with hc
    have hc0 : 0 ≤ c := by
      apply div_nonneg _ hden.le
      rw [sub_nonneg, div_le_one hapos]; exact hlt.le
    have hsq : Real.sqrt (c ^ 2 * dot x x) = c * a := by
      rw [Real.sqrt_mul (sq_nonneg c), Real.sqrt_sq hc0]
    rw [hsq]
    have hca : c * a = (a - thr) / den := by rw [hc]; field_simp
    rw [← haa, abs_of_nonneg (div_nonneg (by linarith) hden.le)]
    have : c ^ 2 * (a * a) = (c * a) ^ 2 := by ring
    rw [this, hca]
    have e2 : c * (a * a) = a * ((a - thr) / den) := by rw [← hca]; ring
    rw [e2]

end LinfaSpec.LeastSquares
