import LinfaSpec.Model.Optics
import Mathlib.Order.Defs.LinearOrder

/-!
Helper lemmas for C08 — OPTICS model (`LinfaSpec.Optics`).
-/
namespace LinfaSpec.Optics

section structural
variable {D : Type} [LT D] [DecidableLT D]

/-- every listed entry carries `set_core_distance` of its own sorted neighbour list -/
def CoreOK (nbrs : Nat → List Nat) (dist : Nat → Nat → D) (mp : Nat) (out : List (Entry D)) : Prop :=
  ∀ e ∈ out, e.core = coreDist dist mp e.index (findNeighbors nbrs dist e.index)

theorem CoreOK_append (nbrs : Nat → List Nat) (dist : Nat → Nat → D) (mp : Nat)
    (out : List (Entry D)) (j : Nat) (r : Option D) (h : CoreOK nbrs dist mp out) :
    CoreOK nbrs dist mp
      (out ++ [{ index := j, core := coreDist dist mp j (findNeighbors nbrs dist j), reach := r }]) := by
  intro e he
  rcases List.mem_append.mp he with a | a
  · exact h e a
  · simp at a; subst a; rfl

theorem seedStep_out (nbrs : Nat → List Nat) (dist : Nat → Nat → D) (mp : Nat) (s : State D)
    (sorted : List Nat) (j0 : Nat) :
    ∃ j r, (seedStep nbrs dist mp s sorted j0).out =
      s.out ++ [{ index := j, core := coreDist dist mp j (findNeighbors nbrs dist j), reach := r }] := by
  unfold seedStep
  simp only
  split <;> exact ⟨_, _, rfl⟩

theorem seedLoop_CoreOK (nbrs : Nat → List Nat) (dist : Nat → Nat → D) (mp : Nat) :
    ∀ fuel (s : State D), CoreOK nbrs dist mp s.out →
      CoreOK nbrs dist mp (seedLoop nbrs dist mp fuel s).out := by
  intro fuel
  induction fuel with
  | zero => intro s h; exact h
  | succ fuel ih =>
    intro s h
    unfold seedLoop
    split
    · exact h
    · rename_i j0 rest _
      apply ih
      obtain ⟨j, r, e⟩ := seedStep_out nbrs dist mp s (j0 :: rest) j0
      rw [e]
      exact CoreOK_append nbrs dist mp _ j r h

theorem outerStep_CoreOK (nbrs : Nat → List Nat) (dist : Nat → Nat → D) (mp n : Nat)
    (s : State D) (i : Nat) (h : CoreOK nbrs dist mp s.out) :
    CoreOK nbrs dist mp (outerStep nbrs dist mp n s i).out := by
  unfold outerStep
  split
  · exact h
  · simp only
    split
    · rename_i cd hc
      apply seedLoop_CoreOK
      simp only
      exact CoreOK_append nbrs dist mp _ i _ h
    · rename_i hc
      simp only
      first
        | exact CoreOK_append nbrs dist mp _ i _ h
        | (rw [← hc]; exact CoreOK_append nbrs dist mp _ i _ h)

theorem foldl_CoreOK (nbrs : Nat → List Nat) (dist : Nat → Nat → D) (mp n : Nat) :
    ∀ (l : List Nat) (s : State D), CoreOK nbrs dist mp s.out →
      CoreOK nbrs dist mp (l.foldl (outerStep nbrs dist mp n) s).out := by
  intro l
  induction l with
  | nil => intro s h; exact h
  | cons i l ih => intro s h; exact ih _ (outerStep_CoreOK nbrs dist mp n s i h)

end structural

section order
variable {D : Type} [LinearOrder D]

theorem findNeighbors_perm (nbrs : Nat → List Nat) (dist : Nat → Nat → D) (i : Nat) :
    (findNeighbors nbrs dist i).Perm (nbrs i) := List.mergeSort_perm _ _

theorem findNeighbors_sorted (nbrs : Nat → List Nat) (dist : Nat → Nat → D) (i : Nat) :
    ((findNeighbors nbrs dist i).map (dist i)).Pairwise (· ≤ ·) := by
  rw [List.pairwise_map]
  have := List.pairwise_mergeSort (le := fun a b => !(decide (dist i b < dist i a)))
    (by
      intro a b c h1 h2
      simp only [Bool.not_eq_true', decide_eq_false_iff_not, not_lt] at h1 h2 ⊢
      exact le_trans h1 h2)
    (by
      intro a b
      simp only [Bool.or_eq_true, Bool.not_eq_true', decide_eq_false_iff_not, not_lt]
      exact le_total _ _)
    (nbrs i)
  refine List.Pairwise.imp ?_ this
  intro a b h
  simpa using h

/-- the sorted list of in-range distances does not depend on the order of the query result -/
theorem sorted_dists_unique (nbrs nbrs' : Nat → List Nat) (dist : Nat → Nat → D) (i : Nat)
    (h : (nbrs i).Perm (nbrs' i)) :
    (findNeighbors nbrs dist i).map (dist i) = (findNeighbors nbrs' dist i).map (dist i) := by
  apply List.Perm.eq_of_pairwise (le := (· ≤ ·))
  · intro a b _ _ h1 h2; exact le_antisymm h1 h2
  · exact findNeighbors_sorted nbrs dist i
  · exact findNeighbors_sorted nbrs' dist i
  · exact ((findNeighbors_perm nbrs dist i).trans (h.trans (findNeighbors_perm nbrs' dist i).symm)).map _

theorem coreDist_eq (dist : Nat → Nat → D) (mp i : Nat) (ns : List Nat) :
    coreDist dist mp i ns = (ns.map (dist i))[mp - 1]? := by
  unfold coreDist
  rw [List.getElem?_map]

end order

/-! ## every sample is listed exactly once -/
section once
set_option linter.unusedSectionVars false
variable {D : Type} [LT D] [DecidableLT D]

theorem length_setReach (pts : List (Pt D)) (j : Nat) (r : D) : (setReach pts j r).length = pts.length := by
  unfold setReach; split <;> simp

theorem length_setCore (pts : List (Pt D)) (j : Nat) (c : Option D) : (setCore pts j c).length = pts.length := by
  unfold setCore; split <;> simp

theorem getReach_setCore (pts : List (Pt D)) (j k : Nat) (c : Option D) :
    getReach (setCore pts j c) k = getReach pts k := by
  unfold setCore getReach
  split
  · rename_i p hp
    rw [List.getElem?_set]
    by_cases e : j = k
    · subst e
      obtain ⟨hlt, hpe⟩ := List.getElem?_eq_some_iff.mp hp
      simp [hlt, hpe]
    · simp [e]
  · rfl

theorem getReach_setReach_self (pts : List (Pt D)) (j : Nat) (r : D) (h : j < pts.length) :
    getReach (setReach pts j r) j = some r := by
  unfold setReach getReach
  rw [List.getElem?_eq_getElem h]
  simp [h]

theorem getReach_setReach_ne (pts : List (Pt D)) (j k : Nat) (r : D) (h : j ≠ k) :
    getReach (setReach pts j r) k = getReach pts k := by
  unfold setReach getReach
  split
  · rw [List.getElem?_set_ne h]
  · rfl

theorem not_mem_eraseIdx_of_nodup : ∀ (l : List Nat) (pos j : Nat), l.Nodup → l[pos]? = some j →
    j ∉ l.eraseIdx pos := by
  intro l
  induction l with
  | nil => intro pos j _ h; simp at h
  | cons a t ih =>
    intro pos j hnd h
    have hnd' := List.nodup_cons.mp hnd
    cases pos with
    | zero =>
      simp at h; subst h
      simpa using hnd'.1
    | succ pos =>
      simp at h
      have hj : j ∈ t := List.mem_of_getElem? h
      simp only [List.eraseIdx_cons_succ, List.mem_cons, not_or]
      refine ⟨?_, ih pos j hnd'.2 h⟩
      intro e; subst e; exact hnd'.1 hj

theorem argminPos_spec (pts : List (Pt D)) : ∀ (l : List Nat) (pos : Nat) (best : Nat × Nat),
    argminPos pts l pos best = best ∨
      ∃ k, l[k]? = some (argminPos pts l pos best).2 ∧ (argminPos pts l pos best).1 = pos + k := by
  intro l
  induction l with
  | nil => intro pos best; exact Or.inl rfl
  | cons j rest ih =>
    intro pos best
    unfold argminPos
    rcases ih (pos + 1) (if optLt (getReach pts j) (getReach pts best.2) then (pos, j) else best) with h | ⟨k, h1, h2⟩
    · rw [h]
      split
      · exact Or.inr ⟨0, by simp, by simp⟩
      · exact Or.inl rfl
    · exact Or.inr ⟨k + 1, by simpa using h1, by rw [h2]; omega⟩

theorem isProcessed_set (p : List Bool) (j k : Nat) :
    isProcessed (p.set j true) k = true ↔ ((k = j ∧ j < p.length) ∨ isProcessed p k = true) := by
  unfold isProcessed
  rw [List.getElem?_set]
  by_cases e : j = k
  · subst e
    by_cases h : j < p.length
    · simp [h]
    · simp [h]
  · have e' : k ≠ j := fun x => e x.symm
    simp [e, e']

/-- outer-loop part: listed ⇔ processed, nothing listed twice -/
structure LInv (n : Nat) (s : State D) : Prop where
  plen : s.processed.length = n
  ptlen : s.pts.length = n
  nd : (s.out.map (·.index)).Nodup
  mem : ∀ j, j ∈ s.out.map (·.index) ↔ isProcessed s.processed j = true

/-- seed-loop part: seeds are distinct, unprocessed and have a defined reachability -/
structure SInv (n : Nat) (s : State D) : Prop extends LInv n s where
  snd : s.seeds.Nodup
  sok : ∀ j ∈ s.seeds, isProcessed s.processed j = false ∧ j < n ∧ getReach s.pts j ≠ none

theorem LInv_list (n : Nat) (s : State D) (h : LInv n s) (j : Nat) (hj : isProcessed s.processed j = false)
    (hjn : j < n) (pts' : List (Pt D)) (hp : pts'.length = n) (sd : List Nat) (c r : Option D) :
    LInv n { pts := pts', processed := s.processed.set j true, seeds := sd,
             out := s.out ++ [{ index := j, core := c, reach := r }] } := by
  have hjo : j ∉ s.out.map (·.index) := by
    intro hm; rw [h.mem j, hj] at hm; exact absurd hm (by simp)
  refine ⟨by simp [h.plen], hp, ?_, ?_⟩
  · simp only [List.map_append, List.map_cons, List.map_nil]
    rw [List.nodup_append]
    refine ⟨h.nd, by simp, ?_⟩
    intro a ha b hb
    simp at hb; subst hb
    intro e; subst e; exact hjo ha
  · intro k
    simp only [List.map_append, List.map_cons, List.map_nil, List.mem_append, List.mem_singleton]
    rw [isProcessed_set, h.mem k, h.plen]
    constructor
    · rintro (a | a)
      · exact Or.inr a
      · exact Or.inl ⟨a, hjn⟩
    · rintro (a | a)
      · exact Or.inr a.1
      · exact Or.inl a

theorem reach_keep (n : Nat) (pts : List (Pt D)) (hp : pts.length = n) (j k : Nat) (r : D) (hk : k < n)
    (h : getReach pts k ≠ none ∨ k = j) : getReach (setReach pts j r) k ≠ none := by
  by_cases e : j = k
  · subst e
    rw [getReach_setReach_self pts j r (by omega)]; simp
  · rw [getReach_setReach_ne pts j k r e]
    rcases h with a | a
    · exact a
    · exact absurd a.symm e

theorem getSeeds_inv (n : Nat) (dist : Nat → Nat → D) (i : Nat) (c : D) (processed : List Bool) :
    ∀ (l : List Nat), (∀ j ∈ l, j < n ∧ isProcessed processed j = false) →
    ∀ (ps : List (Pt D) × List Nat), ps.1.length = n → ps.2.Nodup →
      (∀ j ∈ ps.2, isProcessed processed j = false ∧ j < n ∧ getReach ps.1 j ≠ none) →
      let r := l.foldl (fun (ps : List (Pt D) × List Nat) j =>
          let r := fmax c (dist j i)
          match getReach ps.1 j with
          | none => (setReach ps.1 j r, ps.2 ++ [j])
          | some s => if r < s then (setReach ps.1 j r, ps.2) else ps) ps
      r.1.length = n ∧ r.2.Nodup ∧
        ∀ j ∈ r.2, isProcessed processed j = false ∧ j < n ∧ getReach r.1 j ≠ none := by
  intro l
  induction l with
  | nil => intro _ ps h1 h2 h3; exact ⟨h1, h2, h3⟩
  | cons j l ih =>
    intro hl ps h1 h2 h3
    simp only [List.foldl_cons]
    have hj := hl j (List.mem_cons_self ..)
    apply ih (fun k hk => hl k (List.mem_cons_of_mem _ hk))
    · split
      · simp [length_setReach, h1]
      · split
        · simp [length_setReach, h1]
        · exact h1
    · split
      · rename_i hnone
        rw [List.nodup_append]
        refine ⟨h2, by simp, ?_⟩
        intro a ha b hb
        simp at hb; subst hb
        intro e; subst e
        exact (h3 a ha).2.2 hnone
      · split
        · exact h2
        · exact h2
    · split
      · intro k hk
        rcases List.mem_append.mp hk with a | a
        · exact ⟨(h3 k a).1, (h3 k a).2.1, reach_keep n _ h1 j k _ (h3 k a).2.1 (Or.inl (h3 k a).2.2)⟩
        · simp at a; subst a
          exact ⟨hj.2, hj.1, reach_keep n _ h1 k k _ hj.1 (Or.inr rfl)⟩
      · split
        · intro k hk
          exact ⟨(h3 k hk).1, (h3 k hk).2.1, reach_keep n _ h1 j k _ (h3 k hk).2.1 (Or.inl (h3 k hk).2.2)⟩
        · exact h3

theorem getSeeds_SInv (n : Nat) (nbrs : Nat → List Nat) (dist : Nat → Nat → D)
    (hrange : ∀ i, ∀ j ∈ nbrs i, j < n) (j : Nat) (cd : D)
    (s : State D) (h : SInv n s) :
    SInv n { pts := (getSeeds dist j cd (findNeighbors nbrs dist j) s.processed s.pts s.seeds).1,
             processed := s.processed,
             seeds := (getSeeds dist j cd (findNeighbors nbrs dist j) s.processed s.pts s.seeds).2,
             out := s.out } := by
  have hl : ∀ k ∈ (findNeighbors nbrs dist j).filter (fun k => !isProcessed s.processed k),
      k < n ∧ isProcessed s.processed k = false := by
    intro k hk
    simp only [List.mem_filter, Bool.not_eq_true'] at hk
    exact ⟨hrange j k ((List.mergeSort_perm _ _).subset hk.1), hk.2⟩
  obtain ⟨a, b, c⟩ := getSeeds_inv n dist j cd s.processed _ hl (s.pts, s.seeds) h.ptlen h.snd h.sok
  exact ⟨⟨h.plen, a, h.nd, h.mem⟩, b, c⟩

theorem seedStep_SInv (n : Nat) (nbrs : Nat → List Nat) (dist : Nat → Nat → D) (mp : Nat)
    (hrange : ∀ i, ∀ j ∈ nbrs i, j < n) (s : State D) (h : SInv n s) (j0 : Nat) (rest : List Nat)
    (hs : s.seeds.mergeSort (fun a b => decide (b ≤ a)) = j0 :: rest) :
    SInv n (seedStep nbrs dist mp s (j0 :: rest) j0) := by
  have hperm : (j0 :: rest).Perm s.seeds := hs ▸ List.mergeSort_perm _ _
  have hnd : (j0 :: rest).Nodup := hperm.nodup_iff.mpr h.snd
  -- the selected seed sits at the selected position
  have hsel : (j0 :: rest)[(argminPos s.pts rest 1 (0, j0)).1]? = some (argminPos s.pts rest 1 (0, j0)).2 := by
    rcases argminPos_spec s.pts rest 1 (0, j0) with e | ⟨k, k1, k2⟩
    · rw [e]; rfl
    · rw [k2, Nat.add_comm]; simpa using k1
  unfold seedStep
  simp only [List.tail_cons]
  generalize (argminPos s.pts rest 1 (0, j0)) = pj at hsel ⊢
  have hjmem : pj.2 ∈ s.seeds := hperm.subset (List.mem_of_getElem? hsel)
  obtain ⟨hjp, hjn, _⟩ := h.sok pj.2 hjmem
  have hnot : pj.2 ∉ (j0 :: rest).eraseIdx pj.1 := not_mem_eraseIdx_of_nodup _ _ _ hnd hsel
  -- state after listing the selected seed
  have base : ∀ c : Option D, SInv n
      { pts := setCore s.pts pj.2 c, processed := s.processed.set pj.2 true,
        seeds := (j0 :: rest).eraseIdx pj.1,
        out := s.out ++ [{ index := pj.2, core := c, reach := getReach (setCore s.pts pj.2 c) pj.2 }] } := by
    intro c
    refine ⟨LInv_list n s h.toLInv pj.2 hjp hjn _ (by rw [length_setCore]; exact h.ptlen) _ _ _, ?_, ?_⟩
    · exact hnd.sublist (List.eraseIdx_sublist ..)
    · intro k hk
      have hk' : k ∈ s.seeds := hperm.subset (List.mem_of_mem_eraseIdx hk)
      obtain ⟨a, b, d⟩ := h.sok k hk'
      refine ⟨?_, b, by rw [getReach_setCore]; exact d⟩
      have hne : k ≠ pj.2 := fun e => hnot (e ▸ hk)
      cases hb : isProcessed (s.processed.set pj.2 true) k
      · rfl
      · rcases (isProcessed_set _ _ _).mp hb with ⟨e, _⟩ | e
        · exact absurd e hne
        · rw [a] at e; exact absurd e (by simp)
  split
  · rename_i cd hc
    have := getSeeds_SInv n nbrs dist hrange pj.2 cd _ (base (some cd))
    simpa [hc] using this
  · rename_i hc
    have := base none
    simpa [hc] using this

theorem seedLoop_SInv (n : Nat) (nbrs : Nat → List Nat) (dist : Nat → Nat → D) (mp : Nat)
    (hrange : ∀ i, ∀ j ∈ nbrs i, j < n) :
    ∀ fuel (s : State D), SInv n s → SInv n (seedLoop nbrs dist mp fuel s) := by
  intro fuel
  induction fuel with
  | zero => intro s h; exact h
  | succ fuel ih =>
    intro s h
    unfold seedLoop
    split
    · exact h
    · rename_i j0 rest hs
      exact ih _ (seedStep_SInv n nbrs dist mp hrange s h j0 rest hs)

/-- processed samples stay processed through the seed loop -/
theorem seedStep_mono (nbrs : Nat → List Nat) (dist : Nat → Nat → D) (mp : Nat) (s : State D)
    (sorted : List Nat) (j0 k : Nat) (h : isProcessed s.processed k = true) :
    isProcessed (seedStep nbrs dist mp s sorted j0).processed k = true := by
  unfold seedStep
  simp only
  split <;> exact (isProcessed_set _ _ _).mpr (Or.inr h)

theorem seedLoop_mono (nbrs : Nat → List Nat) (dist : Nat → Nat → D) (mp : Nat) (k : Nat) :
    ∀ fuel (s : State D), isProcessed s.processed k = true →
      isProcessed (seedLoop nbrs dist mp fuel s).processed k = true := by
  intro fuel
  induction fuel with
  | zero => intro s h; exact h
  | succ fuel ih =>
    intro s h
    unfold seedLoop
    split
    · exact h
    · exact ih _ (seedStep_mono nbrs dist mp s _ _ k h)

/-- outer loop: `LInv` is kept, processed samples stay processed, and sample `i` is processed afterwards -/
theorem outerStep_LInv (n : Nat) (nbrs : Nat → List Nat) (dist : Nat → Nat → D) (mp : Nat)
    (hrange : ∀ i, ∀ j ∈ nbrs i, j < n) (s : State D) (i : Nat) (hi : i < n) (h : LInv n s) :
    LInv n (outerStep nbrs dist mp n s i) ∧
    (∀ k, isProcessed s.processed k = true → isProcessed (outerStep nbrs dist mp n s i).processed k = true) ∧
    isProcessed (outerStep nbrs dist mp n s i).processed i = true := by
  unfold outerStep
  split
  · rename_i hp; exact ⟨h, fun k hk => hk, hp⟩
  · rename_i hp
    have hp' : isProcessed s.processed i = false := by simpa using hp
    have hset : ∀ k, isProcessed s.processed k = true → isProcessed (s.processed.set i true) k = true :=
      fun k hk => (isProcessed_set _ _ _).mpr (Or.inr hk)
    have hself : isProcessed (s.processed.set i true) i = true :=
      (isProcessed_set _ _ _).mpr (Or.inl ⟨rfl, by rw [h.plen]; exact hi⟩)
    simp only
    split
    · rename_i cd hc
      have l1 := LInv_list n s h i hp' hi (setCore s.pts i (some cd))
        (by rw [length_setCore]; exact h.ptlen) [] (some cd) (getReach (setCore s.pts i (some cd)) i)
      have s1 : SInv n _ := ⟨l1, List.nodup_nil, fun j hj => absurd hj List.not_mem_nil⟩
      have s2 := getSeeds_SInv n nbrs dist hrange i cd _ s1
      have s3 := seedLoop_SInv n nbrs dist mp hrange (n + 1) _ s2
      refine ⟨by simpa [hc] using s3.toLInv, fun k hk => ?_, ?_⟩
      · exact seedLoop_mono nbrs dist mp k _ _ (hset k hk)
      · exact seedLoop_mono nbrs dist mp i _ _ hself
    · rename_i hc
      have l1 := LInv_list n s h i hp' hi (setCore s.pts i none)
        (by rw [length_setCore]; exact h.ptlen) s.seeds none (getReach (setCore s.pts i none) i)
      exact ⟨by simpa [hc] using l1, hset, hself⟩

theorem foldl_LInv (n : Nat) (nbrs : Nat → List Nat) (dist : Nat → Nat → D) (mp : Nat)
    (hrange : ∀ i, ∀ j ∈ nbrs i, j < n) :
    ∀ k, k ≤ n →
      LInv n ((List.range k).foldl (outerStep nbrs dist mp n) (init n)) ∧
      ∀ j, j < k → isProcessed ((List.range k).foldl (outerStep nbrs dist mp n) (init n)).processed j = true := by
  intro k
  induction k with
  | zero =>
    intro _
    simp only [List.range_zero, List.foldl_nil]
    refine ⟨⟨by simp [init], by simp [init], by simp [init], ?_⟩, fun j hj => by omega⟩
    intro j
    simp only [init, List.map_nil, List.not_mem_nil, false_iff, isProcessed, List.getElem?_replicate]
    split <;> simp
  | succ k ih =>
    intro hk
    obtain ⟨a, b⟩ := ih (by omega)
    rw [List.range_succ, List.foldl_append]
    obtain ⟨c1, c2, c3⟩ := outerStep_LInv n nbrs dist mp hrange _ k (by omega) a
    refine ⟨c1, fun j hj => ?_⟩
    by_cases e : j = k
    · subst e; exact c3
    · exact c2 j (b j (by omega))

/-! ### the fuel of the seed loop is never the reason it stops

Measure: the number of samples listed so far.  While a seed is waiting, fewer than `n` samples are listed
(the seed is unprocessed, hence not listed, and the listed positions are distinct positions below `n`);
every iteration lists one more. -/

/-- a duplicate-free list of positions below `n` has at most `n` entries -/
theorem nodup_lt_length_le (l : List Nat) (n : Nat) (hnd : l.Nodup) (h : ∀ x ∈ l, x < n) : l.length ≤ n := by
  have := hnd.length_le_of_subset (l₂ := List.range n) (fun x hx => List.mem_range.mpr (h x hx))
  simpa using this

/-- while a seed is waiting, fewer than `n` samples are listed -/
theorem SInv_out_lt (n : Nat) (s : State D) (h : SInv n s) (j : Nat) (hj : j ∈ s.seeds) :
    s.out.length < n := by
  obtain ⟨hp, hjn, _⟩ := h.sok j hj
  have hnot : j ∉ s.out.map (·.index) := by
    intro hm; rw [h.mem j, hp] at hm; exact absurd hm (by simp)
  have hnd : (j :: s.out.map (·.index)).Nodup := List.nodup_cons.mpr ⟨hnot, h.nd⟩
  have hlt : ∀ x ∈ j :: s.out.map (·.index), x < n := by
    intro x hx
    rcases List.mem_cons.mp hx with e | e
    · exact e ▸ hjn
    · have hpx := (h.mem x).mp e
      unfold isProcessed at hpx
      rw [← h.plen]
      cases hg : s.processed[x]? with
      | none => rw [hg] at hpx; simp at hpx
      | some b => exact (List.getElem?_eq_some_iff.mp hg).1
  have := nodup_lt_length_le _ n hnd hlt
  simp only [List.length_cons, List.length_map] at this
  omega

/-- **the seed loop ends because the seed list is empty**, whenever the fuel covers the samples not yet
listed (`n ≤ listed + fuel`) -/
theorem seedLoop_seeds_empty (n : Nat) (nbrs : Nat → List Nat) (dist : Nat → Nat → D) (mp : Nat)
    (hrange : ∀ i, ∀ j ∈ nbrs i, j < n) :
    ∀ fuel (s : State D), SInv n s → n ≤ s.out.length + fuel →
      (seedLoop nbrs dist mp fuel s).seeds = [] := by
  intro fuel
  induction fuel with
  | zero =>
    intro s h hn
    show s.seeds = []
    apply List.eq_nil_iff_forall_not_mem.mpr
    intro j hj
    have := SInv_out_lt n s h j hj
    omega
  | succ fuel ih =>
    intro s h hn
    unfold seedLoop
    split
    · rename_i hs
      have hl := (List.mergeSort_perm s.seeds (fun a b => decide (b ≤ a))).length_eq
      rw [hs] at hl
      exact List.eq_nil_of_length_eq_zero hl.symm
    · rename_i j0 rest hs
      apply ih _ (seedStep_SInv n nbrs dist mp hrange s h j0 rest hs)
      obtain ⟨j, r, e⟩ := seedStep_out nbrs dist mp s (j0 :: rest) j0
      rw [e, List.length_append, List.length_singleton]
      omega

/-- more fuel than that changes nothing -/
theorem seedLoop_fuel_irrelevant (n : Nat) (nbrs : Nat → List Nat) (dist : Nat → Nat → D) (mp : Nat)
    (hrange : ∀ i, ∀ j ∈ nbrs i, j < n) :
    ∀ fuel (s : State D), SInv n s → n ≤ s.out.length + fuel →
      seedLoop nbrs dist mp (fuel + 1) s = seedLoop nbrs dist mp fuel s := by
  intro fuel
  induction fuel with
  | zero =>
    intro s h hn
    have he : s.seeds = [] := seedLoop_seeds_empty n nbrs dist mp hrange 0 s h hn
    unfold seedLoop
    rw [he]
    simp
  | succ fuel ih =>
    intro s h hn
    rw [seedLoop.eq_2 nbrs dist mp s (fuel + 1), seedLoop.eq_2 nbrs dist mp s fuel]
    split
    · rfl
    · rename_i j0 rest hs
      apply ih _ (seedStep_SInv n nbrs dist mp hrange s h j0 rest hs)
      obtain ⟨j, r, e⟩ := seedStep_out nbrs dist mp s (j0 :: rest) j0
      rw [e, List.length_append, List.length_singleton]
      omega

/-- outer loop: an empty seed list stays empty (the seed loop it starts runs to its end) -/
theorem outerStep_seeds_empty (n : Nat) (nbrs : Nat → List Nat) (dist : Nat → Nat → D) (mp : Nat)
    (hrange : ∀ i, ∀ j ∈ nbrs i, j < n) (s : State D) (i : Nat) (hi : i < n) (h : LInv n s)
    (he : s.seeds = []) : (outerStep nbrs dist mp n s i).seeds = [] := by
  unfold outerStep
  split
  · exact he
  · rename_i hp
    have hp' : isProcessed s.processed i = false := by simpa using hp
    simp only
    split
    · rename_i cd hc
      have l1 := LInv_list n s h i hp' hi (setCore s.pts i (some cd))
        (by rw [length_setCore]; exact h.ptlen) [] (some cd) (getReach (setCore s.pts i (some cd)) i)
      have s1 : SInv n _ := ⟨l1, List.nodup_nil, fun j hj => absurd hj List.not_mem_nil⟩
      have s2 := getSeeds_SInv n nbrs dist hrange i cd _ s1
      have s3 := seedLoop_seeds_empty n nbrs dist mp hrange (n + 1) _ s2 (by omega)
      simpa [hc] using s3
    · exact he

theorem foldl_seeds_empty (n : Nat) (nbrs : Nat → List Nat) (dist : Nat → Nat → D) (mp : Nat)
    (hrange : ∀ i, ∀ j ∈ nbrs i, j < n) :
    ∀ k, k ≤ n → ((List.range k).foldl (outerStep nbrs dist mp n) (init n)).seeds = [] := by
  intro k
  induction k with
  | zero => intro _; simp [init]
  | succ k ih =>
    intro hk
    rw [List.range_succ, List.foldl_append]
    exact outerStep_seeds_empty n nbrs dist mp hrange _ k (by omega)
      (foldl_LInv n nbrs dist mp hrange k (by omega)).1 (ih (by omega))

end once

/-! ## reachability: every defined reachability has a core witness listed earlier -/
section reach
set_option linter.unusedSectionVars false
variable {D : Type} [LT D] [DecidableLT D]

/-- `r` is explained by a core sample listed in `out` that has `x` in range:
`r = max(core(o), dist(x, o))` -/
def Wit (nbrs : Nat → List Nat) (dist : Nat → Nat → D) (out : List (Entry D)) (x : Nat) (r : D) : Prop :=
  ∃ o ∈ out, ∃ c, o.core = some c ∧ x ∈ nbrs o.index ∧ r = fmax c (dist x o.index)

theorem Wit_append (nbrs : Nat → List Nat) (dist : Nat → Nat → D) (out : List (Entry D)) (x : Nat) (r : D)
    (e : Entry D) (h : Wit nbrs dist out x r) : Wit nbrs dist (out ++ [e]) x r := by
  obtain ⟨o, ho, c, h1, h2, h3⟩ := h
  exact ⟨o, List.mem_append_left _ ho, c, h1, h2, h3⟩

/-- `listed`: a listed sample's reachability is explained by the entries *before* it;
`pend`: the provisional reachability of a sample not yet processed is explained by the entries so far -/
structure RInv (nbrs : Nat → List Nat) (dist : Nat → Nat → D) (s : State D) : Prop where
  listed : ∀ p e, s.out[p]? = some e → ∀ r, e.reach = some r → Wit nbrs dist (s.out.take p) e.index r
  pend : ∀ j, isProcessed s.processed j = false → ∀ r, getReach s.pts j = some r → Wit nbrs dist s.out j r

theorem RInv_list (nbrs : Nat → List Nat) (dist : Nat → Nat → D) (s : State D) (h : RInv nbrs dist s)
    (j : Nat) (hj : isProcessed s.processed j = false) (pts' : List (Pt D))
    (hp : ∀ k, getReach pts' k = getReach s.pts k) (sd : List Nat) (c : Option D) :
    RInv nbrs dist { pts := pts', processed := s.processed.set j true, seeds := sd,
                     out := s.out ++ [{ index := j, core := c, reach := getReach pts' j }] } := by
  constructor
  · intro p e he r hr
    simp only at he ⊢
    rcases Nat.lt_trichotomy p s.out.length with hlt | heq | hgt
    · rw [List.getElem?_append_left hlt] at he
      rw [List.take_append_of_le_length (Nat.le_of_lt hlt)]
      exact h.listed p e he r hr
    · subst heq
      rw [List.getElem?_append_right (Nat.le_refl _)] at he
      simp at he
      subst he
      simp only at hr ⊢
      rw [List.take_append_of_le_length (Nat.le_refl _), List.take_length]
      rw [hp j] at hr
      exact h.pend j hj r hr
    · rw [List.getElem?_eq_none (by simp; omega)] at he
      exact absurd he (by simp)
  · intro k hk r hr
    simp only at hk hr ⊢
    apply Wit_append
    apply h.pend k _ r (by rw [← hp k]; exact hr)
    cases hb : isProcessed s.processed k
    · rfl
    · rw [(isProcessed_set _ _ _).mpr (Or.inr hb)] at hk
      exact absurd hk (by simp)

theorem getReach_setReach_cases (pts : List (Pt D)) (j k : Nat) (r r' : D)
    (h : getReach (setReach pts j r) k = some r') : (k = j ∧ r' = r) ∨ getReach pts k = some r' := by
  by_cases e : j = k
  · subst e
    by_cases hl : j < pts.length
    · rw [getReach_setReach_self pts j r hl] at h
      exact Or.inl ⟨rfl, (Option.some.inj h).symm⟩
    · have : setReach pts j r = pts := by
        unfold setReach
        rw [List.getElem?_eq_none (by omega)]
      rw [this] at h
      exact Or.inr h
  · rw [getReach_setReach_ne pts j k r e] at h
    exact Or.inr h

theorem getSeeds_pend (nbrs : Nat → List Nat) (dist : Nat → Nat → D) (i : Nat) (c : D)
    (processed : List Bool)
    (out : List (Entry D)) (eo : Entry D) (heo : eo ∈ out) (hei : eo.index = i) (hec : eo.core = some c) :
    ∀ (l : List Nat), (∀ j ∈ l, j ∈ nbrs i) →
    ∀ (ps : List (Pt D) × List Nat),
      (∀ k, isProcessed processed k = false → ∀ r, getReach ps.1 k = some r → Wit nbrs dist out k r) →
      let res := l.foldl (fun (ps : List (Pt D) × List Nat) j =>
          let r := fmax c (dist j i)
          match getReach ps.1 j with
          | none => (setReach ps.1 j r, ps.2 ++ [j])
          | some s => if r < s then (setReach ps.1 j r, ps.2) else ps) ps
      ∀ k, isProcessed processed k = false → ∀ r, getReach res.1 k = some r → Wit nbrs dist out k r := by
  intro l
  induction l with
  | nil => intro _ ps h; exact h
  | cons j l ih =>
    intro hl ps h
    simp only [List.foldl_cons]
    apply ih (fun k hk => hl k (List.mem_cons_of_mem _ hk))
    have hj : j ∈ nbrs i := hl j (List.mem_cons_self ..)
    have hset : ∀ k, isProcessed processed k = false → ∀ r,
        getReach (setReach ps.1 j (fmax c (dist j i))) k = some r → Wit nbrs dist out k r := by
      intro k hkp r hk
      rcases getReach_setReach_cases _ _ _ _ _ hk with ⟨e1, e2⟩ | e
      · subst e1; subst e2
        exact ⟨eo, heo, c, hec, by rw [hei]; exact hj, by rw [hei]⟩
      · exact h k hkp r e
    split
    · exact hset
    · split
      · exact hset
      · exact h

/-- `get_seeds` for the sample `j` just listed (last entry of `out`, core distance `cd`) keeps `RInv` -/
theorem getSeeds_RInv (nbrs : Nat → List Nat) (dist : Nat → Nat → D) (j : Nat) (cd : D)
    (s : State D) (h : RInv nbrs dist s)
    (hlast : ∃ eo ∈ s.out, eo.index = j ∧ eo.core = some cd) :
    RInv nbrs dist
      { pts := (getSeeds dist j cd (findNeighbors nbrs dist j) s.processed s.pts s.seeds).1,
        processed := s.processed,
        seeds := (getSeeds dist j cd (findNeighbors nbrs dist j) s.processed s.pts s.seeds).2,
        out := s.out } := by
  obtain ⟨eo, heo, hei, hec⟩ := hlast
  refine ⟨h.listed, ?_⟩
  have hl : ∀ k ∈ (findNeighbors nbrs dist j).filter (fun k => !isProcessed s.processed k), k ∈ nbrs j := by
    intro k hk
    exact (List.mergeSort_perm _ _).subset (List.mem_filter.mp hk).1
  exact getSeeds_pend nbrs dist j cd s.processed s.out eo heo hei hec _ hl (s.pts, s.seeds) h.pend

theorem seedStep_RInv (n : Nat) (nbrs : Nat → List Nat) (dist : Nat → Nat → D) (mp : Nat)
    (s : State D) (h : SInv n s) (hr : RInv nbrs dist s) (j0 : Nat) (rest : List Nat)
    (hs : s.seeds.mergeSort (fun a b => decide (b ≤ a)) = j0 :: rest) :
    RInv nbrs dist (seedStep nbrs dist mp s (j0 :: rest) j0) := by
  have hperm : (j0 :: rest).Perm s.seeds := hs ▸ List.mergeSort_perm _ _
  have hsel : (j0 :: rest)[(argminPos s.pts rest 1 (0, j0)).1]? = some (argminPos s.pts rest 1 (0, j0)).2 := by
    rcases argminPos_spec s.pts rest 1 (0, j0) with e | ⟨k, k1, k2⟩
    · rw [e]; rfl
    · rw [k2, Nat.add_comm]; simpa using k1
  unfold seedStep
  simp only [List.tail_cons]
  generalize (argminPos s.pts rest 1 (0, j0)) = pj at hsel ⊢
  have hjmem : pj.2 ∈ s.seeds := hperm.subset (List.mem_of_getElem? hsel)
  obtain ⟨hjp, _, _⟩ := h.sok pj.2 hjmem
  have base : ∀ c : Option D, RInv nbrs dist
      { pts := setCore s.pts pj.2 c, processed := s.processed.set pj.2 true,
        seeds := (j0 :: rest).eraseIdx pj.1,
        out := s.out ++ [{ index := pj.2, core := c, reach := getReach (setCore s.pts pj.2 c) pj.2 }] } :=
    fun c => RInv_list nbrs dist s hr pj.2 hjp _ (fun k => getReach_setCore s.pts pj.2 k c) _ c
  split
  · rename_i cd hc
    have := getSeeds_RInv nbrs dist pj.2 cd _ (base (some cd))
      ⟨_, List.mem_append_right _ (List.mem_singleton_self _), rfl, rfl⟩
    simpa [hc] using this
  · rename_i hc
    have := base none
    simpa [hc] using this

theorem seedLoop_RInv (n : Nat) (nbrs : Nat → List Nat) (dist : Nat → Nat → D) (mp : Nat)
    (hrange : ∀ i, ∀ j ∈ nbrs i, j < n) :
    ∀ fuel (s : State D), SInv n s → RInv nbrs dist s → RInv nbrs dist (seedLoop nbrs dist mp fuel s) := by
  intro fuel
  induction fuel with
  | zero => intro s _ h; exact h
  | succ fuel ih =>
    intro s h hr
    unfold seedLoop
    split
    · exact hr
    · rename_i j0 rest hs
      exact ih _ (seedStep_SInv n nbrs dist mp hrange s h j0 rest hs)
        (seedStep_RInv n nbrs dist mp s h hr j0 rest hs)

theorem outerStep_RInv (n : Nat) (nbrs : Nat → List Nat) (dist : Nat → Nat → D) (mp : Nat)
    (hrange : ∀ i, ∀ j ∈ nbrs i, j < n) (s : State D) (i : Nat) (hi : i < n) (h : LInv n s)
    (hr : RInv nbrs dist s) : RInv nbrs dist (outerStep nbrs dist mp n s i) := by
  unfold outerStep
  split
  · exact hr
  · rename_i hp
    have hp' : isProcessed s.processed i = false := by simpa using hp
    simp only
    split
    · rename_i cd hc
      have l1 := LInv_list n s h i hp' hi (setCore s.pts i (some cd))
        (by rw [length_setCore]; exact h.ptlen) [] (some cd) (getReach (setCore s.pts i (some cd)) i)
      have s1 : SInv n _ := ⟨l1, List.nodup_nil, fun j hj => absurd hj List.not_mem_nil⟩
      have s2 := getSeeds_SInv n nbrs dist hrange i cd _ s1
      have r1 := RInv_list nbrs dist s hr i hp' (setCore s.pts i (some cd))
        (fun k => getReach_setCore s.pts i k (some cd)) [] (some cd)
      have r2 := getSeeds_RInv nbrs dist i cd _ r1
        ⟨_, List.mem_append_right _ (List.mem_singleton_self _), rfl, rfl⟩
      have r3 := seedLoop_RInv n nbrs dist mp hrange (n + 1) _ s2 r2
      simpa [hc] using r3
    · rename_i hc
      have r1 := RInv_list nbrs dist s hr i hp' (setCore s.pts i none)
        (fun k => getReach_setCore s.pts i k none) s.seeds none
      simpa [hc] using r1

theorem foldl_RInv (n : Nat) (nbrs : Nat → List Nat) (dist : Nat → Nat → D) (mp : Nat)
    (hrange : ∀ i, ∀ j ∈ nbrs i, j < n) :
    ∀ k, k ≤ n → RInv nbrs dist ((List.range k).foldl (outerStep nbrs dist mp n) (init n)) := by
  intro k
  induction k with
  | zero =>
    intro _
    simp only [List.range_zero, List.foldl_nil]
    constructor
    · intro p e he; simp [init] at he
    · intro j _ r hr
      simp [init, getReach, List.getElem?_replicate] at hr
      split at hr <;> simp at hr
  | succ k ih =>
    intro hk
    rw [List.range_succ, List.foldl_append]
    exact outerStep_RInv n nbrs dist mp hrange _ k (by omega) (foldl_LInv n nbrs dist mp hrange k (by omega)).1
      (ih (by omega))

end reach

/-! ## the whole ordering is a function of the relation and the distances -/
section determined
set_option linter.unusedSectionVars false
variable {D : Type} [LT D] [DecidableLT D]

/-- the update of `points[j]` inside `get_seeds` -/
def ptsStep (dist : Nat → Nat → D) (i : Nat) (c : D) (pts : List (Pt D)) (j : Nat) : List (Pt D) :=
  match getReach pts j with
  | none => setReach pts j (fmax c (dist j i))
  | some s => if fmax c (dist j i) < s then setReach pts j (fmax c (dist j i)) else pts

/-- the `get_seeds` loop, named -/
def seedsFold (dist : Nat → Nat → D) (i : Nat) (c : D) (ps : List (Pt D) × List Nat) (j : Nat) :
    List (Pt D) × List Nat :=
  let r := fmax c (dist j i)
  match getReach ps.1 j with
  | none => (setReach ps.1 j r, ps.2 ++ [j])
  | some s => if r < s then (setReach ps.1 j r, ps.2) else ps

theorem getSeeds_eq_fold (dist : Nat → Nat → D) (i : Nat) (c : D) (ns : List Nat) (processed : List Bool)
    (pts : List (Pt D)) (seeds : List Nat) :
    getSeeds dist i c ns processed pts seeds =
      (ns.filter fun j => !isProcessed processed j).foldl (seedsFold dist i c) (pts, seeds) := rfl

theorem seedsFold_fst (dist : Nat → Nat → D) (i : Nat) (c : D) (ps : List (Pt D) × List Nat) (j : Nat) :
    (seedsFold dist i c ps j).1 = ptsStep dist i c ps.1 j := by
  unfold seedsFold ptsStep
  simp only
  split
  · rfl
  · split <;> rfl

theorem fold_fst (dist : Nat → Nat → D) (i : Nat) (c : D) :
    ∀ (l : List Nat) (ps : List (Pt D) × List Nat),
      (l.foldl (seedsFold dist i c) ps).1 = l.foldl (ptsStep dist i c) ps.1 := by
  intro l
  induction l with
  | nil => intro ps; rfl
  | cons j l ih =>
    intro ps
    simp only [List.foldl_cons]
    rw [ih, seedsFold_fst]

theorem setReach_some (pts : List (Pt D)) (j : Nat) (p : Pt D) (r : D) (h : pts[j]? = some p) :
    setReach pts j r = pts.set j { p with reach := some r } := by
  unfold setReach; rw [h]

theorem setReach_none (pts : List (Pt D)) (j : Nat) (r : D) (h : pts[j]? = none) :
    setReach pts j r = pts := by
  unfold setReach; rw [h]

theorem setReach_comm (pts : List (Pt D)) (x y : Nat) (a b : D) (h : x ≠ y) :
    setReach (setReach pts x a) y b = setReach (setReach pts y b) x a := by
  have h' : y ≠ x := fun e => h e.symm
  cases hx : pts[x]? with
  | none =>
    rw [setReach_none pts x a hx]
    cases hy : pts[y]? with
    | none => rw [setReach_none pts y b hy, setReach_none pts x a hx]
    | some q =>
      rw [setReach_some pts y q b hy]
      rw [setReach_none _ x a (by rw [List.getElem?_set_ne h']; exact hx)]
  | some p =>
    rw [setReach_some pts x p a hx]
    cases hy : pts[y]? with
    | none =>
      rw [setReach_none pts y b hy, setReach_some pts x p a hx]
      rw [setReach_none _ y b (by rw [List.getElem?_set_ne h]; exact hy)]
    | some q =>
      rw [setReach_some pts y q b hy]
      rw [setReach_some _ y q b (by rw [List.getElem?_set_ne h]; exact hy)]
      rw [setReach_some _ x p a (by rw [List.getElem?_set_ne h']; exact hx)]
      exact List.set_comm _ _ h

theorem ptsStep_comm (dist : Nat → Nat → D) (i : Nat) (c : D) (pts : List (Pt D)) (x y : Nat) :
    ptsStep dist i c (ptsStep dist i c pts x) y = ptsStep dist i c (ptsStep dist i c pts y) x := by
  by_cases h : x = y
  · subst h; rfl
  · have h' : y ≠ x := fun e => h e.symm
    unfold ptsStep
    cases hx : getReach pts x <;> cases hy : getReach pts y <;> simp only []
    all_goals
      (repeat' split) <;>
      simp_all [getReach_setReach_ne, setReach_comm pts x y _ _ h]

end determined

section determined2
variable {D : Type} [LinearOrder D]

/-- seeds pushed by the `get_seeds` loop over a duplicate-free list: the samples without reachability -/
theorem fold_snd (dist : Nat → Nat → D) (i : Nat) (c : D) :
    ∀ (l : List Nat), l.Nodup → ∀ (ps : List (Pt D) × List Nat),
      (l.foldl (seedsFold dist i c) ps).2 = ps.2 ++ l.filter fun j => (getReach ps.1 j).isNone := by
  intro l
  induction l with
  | nil => intro _ ps; simp
  | cons j l ih =>
    intro hnd ps
    have hnd' := List.nodup_cons.mp hnd
    simp only [List.foldl_cons]
    rw [ih hnd'.2]
    have keep : ∀ (r : D), (l.filter fun k => (getReach (setReach ps.1 j r) k).isNone) =
        l.filter fun k => (getReach ps.1 k).isNone := by
      intro r
      apply List.filter_congr
      intro k hk
      have : j ≠ k := fun e => hnd'.1 (e ▸ hk)
      rw [getReach_setReach_ne ps.1 j k r this]
    unfold seedsFold
    simp only
    cases hg : getReach ps.1 j with
    | none => simp [List.filter_cons, hg, keep]
    | some s0 =>
      by_cases hlt : fmax c (dist j i) < s0
      · simp [List.filter_cons, hg, hlt, keep]
      · simp [List.filter_cons, hg, hlt]

/-- `get_seeds` over two arrangements of the same duplicate-free neighbour list: same points, the same
seeds up to order -/
theorem getSeeds_perm (dist : Nat → Nat → D) (i : Nat) (c : D) (ns₁ ns₂ : List Nat) (hp : ns₁.Perm ns₂)
    (hnd : ns₁.Nodup) (processed : List Bool) (pts : List (Pt D)) (sd₁ sd₂ : List Nat) (hs : sd₁.Perm sd₂) :
    (getSeeds dist i c ns₁ processed pts sd₁).1 = (getSeeds dist i c ns₂ processed pts sd₂).1 ∧
    (getSeeds dist i c ns₁ processed pts sd₁).2.Perm (getSeeds dist i c ns₂ processed pts sd₂).2 := by
  rw [getSeeds_eq_fold, getSeeds_eq_fold]
  have hpf := hp.filter (fun j => !isProcessed processed j)
  have hnd₁ : (ns₁.filter fun j => !isProcessed processed j).Nodup := hnd.filter _
  have hnd₂ : (ns₂.filter fun j => !isProcessed processed j).Nodup := (hp.nodup_iff.mp hnd).filter _
  constructor
  · rw [fold_fst, fold_fst]
    exact hpf.foldl_eq' (fun x _ y _ z => ptsStep_comm dist i c z x y) pts
  · rw [fold_snd dist i c _ hnd₁, fold_snd dist i c _ hnd₂]
    exact hs.append (hpf.filter _)

theorem mergeSort_desc_eq (l₁ l₂ : List Nat) (h : l₁.Perm l₂) :
    l₁.mergeSort (fun a b => decide (b ≤ a)) = l₂.mergeSort (fun a b => decide (b ≤ a)) := by
  have srt : ∀ l : List Nat, (l.mergeSort (fun a b => decide (b ≤ a))).Pairwise (fun a b => b ≤ a) := by
    intro l
    have := List.pairwise_mergeSort (le := fun a b : Nat => decide (b ≤ a))
      (by intro a b c h1 h2; simp only [decide_eq_true_eq] at h1 h2 ⊢; omega)
      (by intro a b; simp only [Bool.or_eq_true, decide_eq_true_eq]; omega) l
    exact this.imp (by intro a b h; simpa using h)
  apply List.Perm.eq_of_pairwise (le := fun a b => b ≤ a)
  · intro a b _ _ h1 h2; omega
  · exact srt l₁
  · exact srt l₂
  · exact (List.mergeSort_perm _ _).trans (h.trans (List.mergeSort_perm _ _).symm)

/-- two runs are in step: same points, processed set and ordering, the same seeds up to order -/
structure Sim (s₁ s₂ : State D) : Prop where
  pts : s₁.pts = s₂.pts
  processed : s₁.processed = s₂.processed
  out : s₁.out = s₂.out
  seeds : s₁.seeds.Perm s₂.seeds

variable (nbrs₁ nbrs₂ : Nat → List Nat) (dist : Nat → Nat → D) (mp : Nat)
  (hperm : ∀ i, (nbrs₁ i).Perm (nbrs₂ i)) (hnd : ∀ i, (nbrs₁ i).Nodup)
include hperm hnd

theorem coreDist_congr (j : Nat) :
    coreDist dist mp j (findNeighbors nbrs₁ dist j) = coreDist dist mp j (findNeighbors nbrs₂ dist j) := by
  rw [coreDist_eq, coreDist_eq, sorted_dists_unique nbrs₁ nbrs₂ dist j (hperm j)]

theorem findNeighbors_congr (j : Nat) :
    (findNeighbors nbrs₁ dist j).Perm (findNeighbors nbrs₂ dist j) ∧ (findNeighbors nbrs₁ dist j).Nodup :=
  ⟨(findNeighbors_perm nbrs₁ dist j).trans ((hperm j).trans (findNeighbors_perm nbrs₂ dist j).symm),
   (findNeighbors_perm nbrs₁ dist j).nodup_iff.mpr (hnd j)⟩

theorem seedStep_Sim (s₁ s₂ : State D) (h : Sim s₁ s₂) (sorted : List Nat) (j0 : Nat) :
    Sim (seedStep nbrs₁ dist mp s₁ sorted j0) (seedStep nbrs₂ dist mp s₂ sorted j0) := by
  obtain ⟨hpts, hproc, hout, _⟩ := h
  unfold seedStep
  rw [hpts, hproc, hout]
  simp only
  generalize (argminPos s₂.pts sorted.tail 1 (0, j0)) = pj
  rw [coreDist_congr nbrs₁ nbrs₂ dist mp hperm hnd pj.2]
  obtain ⟨fp, fnd⟩ := findNeighbors_congr nbrs₁ nbrs₂ dist hperm hnd pj.2
  cases hc : coreDist dist mp pj.2 (findNeighbors nbrs₂ dist pj.2) with
  | none => exact ⟨rfl, rfl, rfl, List.Perm.refl _⟩
  | some cd =>
    obtain ⟨g1, g2⟩ := getSeeds_perm dist pj.2 cd _ _ fp fnd (s₂.processed.set pj.2 true)
      (setCore s₂.pts pj.2 (some cd)) (sorted.eraseIdx pj.1) (sorted.eraseIdx pj.1) (List.Perm.refl _)
    exact ⟨g1, rfl, rfl, g2⟩

theorem seedLoop_Sim : ∀ (fuel : Nat) (s₁ s₂ : State D), Sim s₁ s₂ →
    Sim (seedLoop nbrs₁ dist mp fuel s₁) (seedLoop nbrs₂ dist mp fuel s₂) := by
  intro fuel
  induction fuel with
  | zero => intro s₁ s₂ h; exact h
  | succ fuel ih =>
    intro s₁ s₂ h
    unfold seedLoop
    rw [mergeSort_desc_eq s₁.seeds s₂.seeds h.seeds]
    split
    · exact h
    · rename_i j0 rest _
      exact ih _ _ (seedStep_Sim nbrs₁ nbrs₂ dist mp hperm hnd s₁ s₂ h (j0 :: rest) j0)

theorem outerStep_Sim (n : Nat) (s₁ s₂ : State D) (h : Sim s₁ s₂) (i : Nat) :
    Sim (outerStep nbrs₁ dist mp n s₁ i) (outerStep nbrs₂ dist mp n s₂ i) := by
  have h0 := h
  obtain ⟨hpts, hproc, hout, hseeds⟩ := h
  unfold outerStep
  rw [hproc]
  split
  · exact h0
  · simp only
    rw [coreDist_congr nbrs₁ nbrs₂ dist mp hperm hnd i, hpts, hout]
    obtain ⟨fp, fnd⟩ := findNeighbors_congr nbrs₁ nbrs₂ dist hperm hnd i
    cases hc : coreDist dist mp i (findNeighbors nbrs₂ dist i) with
    | none => exact ⟨rfl, rfl, rfl, hseeds⟩
    | some cd =>
      simp only
      apply seedLoop_Sim nbrs₁ nbrs₂ dist mp hperm hnd
      obtain ⟨g1, g2⟩ := getSeeds_perm dist i cd _ _ fp fnd (s₂.processed.set i true)
        (setCore s₂.pts i (some cd)) [] [] (List.Perm.refl _)
      exact ⟨g1, rfl, rfl, g2⟩

theorem foldl_Sim (n : Nat) : ∀ (l : List Nat) (s₁ s₂ : State D), Sim s₁ s₂ →
    Sim (l.foldl (outerStep nbrs₁ dist mp n) s₁) (l.foldl (outerStep nbrs₂ dist mp n) s₂) := by
  intro l
  induction l with
  | nil => intro s₁ s₂ h; exact h
  | cons i l ih =>
    intro s₁ s₂ h
    exact ih _ _ (outerStep_Sim nbrs₁ nbrs₂ dist mp hperm hnd n s₁ s₂ h i)

end determined2

end LinfaSpec.Optics
