import LinfaSpec.Model.Optics

/-!
Helper lemmas for C08 — OPTICS model (`LinfaSpec.Optics`).
-/
namespace LinfaSpec.Optics

end LinfaSpec.Optics
