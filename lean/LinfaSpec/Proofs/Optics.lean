import LinfaSpec.Model.Optics
import Mathlib.Order.Defs.LinearOrder

/-!
Helper lemmas for C08 — OPTICS model (`LinfaSpec.Optics`).
-/
namespace LinfaSpec.Optics

section structural
variable {D : Type} [LT D] [DecidableLT D]

/-- every listed entry carries `set_core_distance` of its own sorted neighbour list -/
def CoreOK (nbrs : Nat → List Nat) (dist : Nat → Nat → D) (mp : Nat) (out : List (Entry D)) : Prop :=
  ∀ e ∈ out, e.core = coreDist dist mp e.index (findNeighbors nbrs dist e.index)

theorem CoreOK_append (nbrs : Nat → List Nat) (dist : Nat → Nat → D) (mp : Nat)
    (out : List (Entry D)) (j : Nat) (r : Option D) (h : CoreOK nbrs dist mp out) :
    CoreOK nbrs dist mp
      (out ++ [{ index := j, core := coreDist dist mp j (findNeighbors nbrs dist j), reach := r }]) := by
  intro e he
  rcases List.mem_append.mp he with a | a
  · exact h e a
  · simp at a; subst a; rfl

theorem seedStep_out (nbrs : Nat → List Nat) (dist : Nat → Nat → D) (mp : Nat) (s : State D)
    (sorted : List Nat) (j0 : Nat) :
    ∃ j r, (seedStep nbrs dist mp s sorted j0).out =
      s.out ++ [{ index := j, core := coreDist dist mp j (findNeighbors nbrs dist j), reach := r }] := by
  unfold seedStep
  simp only
  split <;> exact ⟨_, _, rfl⟩

theorem seedLoop_CoreOK (nbrs : Nat → List Nat) (dist : Nat → Nat → D) (mp : Nat) :
    ∀ fuel (s : State D), CoreOK nbrs dist mp s.out →
      CoreOK nbrs dist mp (seedLoop nbrs dist mp fuel s).out := by
  intro fuel
  induction fuel with
  | zero => intro s h; exact h
  | succ fuel ih =>
    intro s h
    unfold seedLoop
    split
    · exact h
    · rename_i j0 rest _
      apply ih
      obtain ⟨j, r, e⟩ := seedStep_out nbrs dist mp s (j0 :: rest) j0
      rw [e]
      exact CoreOK_append nbrs dist mp _ j r h

theorem outerStep_CoreOK (nbrs : Nat → List Nat) (dist : Nat → Nat → D) (mp n : Nat)
    (s : State D) (i : Nat) (h : CoreOK nbrs dist mp s.out) :
    CoreOK nbrs dist mp (outerStep nbrs dist mp n s i).out := by
  unfold outerStep
  split
  · exact h
  · simp only
    split
    · rename_i cd hc
      apply seedLoop_CoreOK
      simp only
      exact CoreOK_append nbrs dist mp _ i _ h
    · rename_i hc
      simp only
      first
        | exact CoreOK_append nbrs dist mp _ i _ h
        | (rw [← hc]; exact CoreOK_append nbrs dist mp _ i _ h)

theorem foldl_CoreOK (nbrs : Nat → List Nat) (dist : Nat → Nat → D) (mp n : Nat) :
    ∀ (l : List Nat) (s : State D), CoreOK nbrs dist mp s.out →
      CoreOK nbrs dist mp (l.foldl (outerStep nbrs dist mp n) s).out := by
  intro l
  induction l with
  | nil => intro s h; exact h
  | cons i l ih => intro s h; exact ih _ (outerStep_CoreOK nbrs dist mp n s i h)

end structural

section order
variable {D : Type} [LinearOrder D]

theorem findNeighbors_perm (nbrs : Nat → List Nat) (dist : Nat → Nat → D) (i : Nat) :
    (findNeighbors nbrs dist i).Perm (nbrs i) := List.mergeSort_perm _ _

theorem findNeighbors_sorted (nbrs : Nat → List Nat) (dist : Nat → Nat → D) (i : Nat) :
    ((findNeighbors nbrs dist i).map (dist i)).Pairwise (· ≤ ·) := by
  rw [List.pairwise_map]
  have := List.pairwise_mergeSort (le := fun a b => !(decide (dist i b < dist i a)))
    (by
      intro a b c h1 h2
      simp only [Bool.not_eq_true', decide_eq_false_iff_not, not_lt] at h1 h2 ⊢
      exact le_trans h1 h2)
    (by
      intro a b
      simp only [Bool.or_eq_true, Bool.not_eq_true', decide_eq_false_iff_not, not_lt]
      exact le_total _ _)
    (nbrs i)
  refine List.Pairwise.imp ?_ this
  intro a b h
  simpa using h

/-- the sorted list of in-range distances does not depend on the order of the query result -/
theorem sorted_dists_unique (nbrs nbrs' : Nat → List Nat) (dist : Nat → Nat → D) (i : Nat)
    (h : (nbrs i).Perm (nbrs' i)) :
    (findNeighbors nbrs dist i).map (dist i) = (findNeighbors nbrs' dist i).map (dist i) := by
  apply List.Perm.eq_of_pairwise (le := (· ≤ ·))
  · intro a b _ _ h1 h2; exact le_antisymm h1 h2
  · exact findNeighbors_sorted nbrs dist i
  · exact findNeighbors_sorted nbrs' dist i
  · exact ((findNeighbors_perm nbrs dist i).trans (h.trans (findNeighbors_perm nbrs' dist i).symm)).map _

theorem coreDist_eq (dist : Nat → Nat → D) (mp i : Nat) (ns : List Nat) :
    coreDist dist mp i ns = (ns.map (dist i))[mp - 1]? := by
  unfold coreDist
  rw [List.getElem?_map]

end order

end LinfaSpec.Optics
