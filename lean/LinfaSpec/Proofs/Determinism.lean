import LinfaSpec.Model.Determinism

/-!
Helper lemmas for C20 (core Lean only in this first part).
-/
namespace LinfaSpec.Determinism

/-! ### disjoint-write loop -/

theorem parFor_cons {β} (f : Nat → β) (j : Nat) (js : List Nat) (init : List β) :
    parFor f (j :: js) init = parFor f js (init.set j (f j)) := rfl

theorem parFor_length {β} (f : Nat → β) (sched : List Nat) (init : List β) :
    (parFor f sched init).length = init.length := by
  induction sched generalizing init with
  | nil => rfl
  | cons j js ih => rw [parFor_cons, ih, List.length_set]

/-- cell `i` after the loop: written iff some task `i` ran -/
theorem parFor_getElem? {β} (f : Nat → β) (sched : List Nat) (init : List β) (i : Nat) :
    (parFor f sched init)[i]? =
      if i ∈ sched ∧ i < init.length then some (f i) else init[i]? := by
  induction sched generalizing init with
  | nil => simp [parFor]
  | cons j js ih =>
    rw [parFor_cons, ih, List.length_set, List.getElem?_set]
    by_cases hji : j = i
    · subst hji
      by_cases hl : j < init.length
      · simp [hl]
      · have : init[j]? = none := by simp; omega
        simp [hl, this]
    · have hij : ¬ i = j := fun h => hji h.symm
      simp [hji, hij]

end LinfaSpec.Determinism
