import LinfaSpec.Model.Determinism

/-!
Helper lemmas for C20 (core Lean only in this first part).
-/
namespace LinfaSpec.Determinism
open List

/-! ### disjoint-write loop -/

theorem parFor_cons {β} (f : Nat → β) (j : Nat) (js : List Nat) (init : List β) :
    parFor f (j :: js) init = parFor f js (init.set j (f j)) := rfl

theorem parFor_length {β} (f : Nat → β) (sched : List Nat) (init : List β) :
    (parFor f sched init).length = init.length := by
  induction sched generalizing init with
  | nil => rfl
  | cons j js ih => rw [parFor_cons, ih, List.length_set]

/-- cell `i` after the loop: written iff some task `i` ran -/
theorem parFor_getElem? {β} (f : Nat → β) (sched : List Nat) (init : List β) (i : Nat) :
    (parFor f sched init)[i]? =
      if i ∈ sched ∧ i < init.length then some (f i) else init[i]? := by
  induction sched generalizing init with
  | nil => simp [parFor]
  | cons j js ih =>
    rw [parFor_cons, ih, List.length_set, List.getElem?_set]
    by_cases hji : j = i
    · subst hji
      by_cases hl : j < init.length
      · simp [hl]
      · simp [hl]
    · have hij : ¬ i = j := fun h => hji h.symm
      simp [hji, hij]

theorem eq_of_map_eq {α β} (g : α → β) {l : List α} (hnd : (l.map g).Nodup) {a b : α}
    (ha : a ∈ l) (hb : b ∈ l) (h : g a = g b) : a = b := by
  induction l with
  | nil => simp at ha
  | cons c cs ih =>
    rw [List.map_cons, List.nodup_cons] at hnd
    rcases List.mem_cons.mp ha with ha | ha <;> rcases List.mem_cons.mp hb with hb | hb
    · rw [ha, hb]
    · exfalso; apply hnd.1; rw [← ha, h]; exact List.mem_map_of_mem hb
    · exfalso; apply hnd.1; rw [← hb, ← h]; exact List.mem_map_of_mem ha
    · exact ih hnd.2 ha hb

/-! ### hierarchical clustering -/

/-- two clusters share no member -/
def Disj (a b : Nat × List Nat) : Prop := ∀ x, x ∈ a.2 → x ∈ b.2 → False

theorem Disj.symm {a b} (h : Disj a b) : Disj b a := fun x hb ha => h x ha hb

/-- invariant of the merge loop: clusters are non-empty and pairwise disjoint -/
def ClInv (cl : List (Nat × List Nat)) : Prop :=
  (∀ c ∈ cl, c.2 ≠ []) ∧ cl.Pairwise Disj

theorem removeKey_perm {id : Nat} {cl : List (Nat × List Nat)} {v rest}
    (h : removeKey id cl = some (v, rest)) : cl ~ (id, v) :: rest := by
  induction cl generalizing v rest with
  | nil => simp [removeKey] at h
  | cons e es ih =>
    unfold removeKey at h
    by_cases he : e.1 = id
    · rw [if_pos he] at h
      cases h
      rw [← he]
    · rw [if_neg he] at h
      cases hr : removeKey id es with
      | none => rw [hr] at h; simp at h
      | some p =>
        obtain ⟨v', rest'⟩ := p
        rw [hr] at h
        cases h
        exact (List.Perm.cons e (ih hr)).trans (List.Perm.swap _ _ _)

theorem ClInv.perm {a b : List (Nat × List Nat)} (p : a ~ b) (h : ClInv a) : ClInv b :=
  ⟨fun c hc => h.1 c (p.symm.subset hc), (p.pairwise_iff (fun hab => Disj.symm hab)).mp h.2⟩

theorem ClInv.merge {c1 c2 ct : Nat} {a b : List Nat} {rest : List (Nat × List Nat)}
    (h : ClInv ((c1, a) :: (c2, b) :: rest)) : ClInv (rest ++ [(ct, a ++ b)]) := by
  obtain ⟨hne, hpw⟩ := h
  rw [List.pairwise_cons, List.pairwise_cons] at hpw
  obtain ⟨ha, hb, hrest⟩ := hpw
  constructor
  · intro c hc
    rcases List.mem_append.mp hc with hc | hc
    · exact hne c (by simp [hc])
    · simp only [List.mem_singleton] at hc
      rw [hc]
      have : a ≠ [] := hne (c1, a) (by simp)
      simp [this]
  · rw [List.pairwise_append]
    refine ⟨hrest, by simp, ?_⟩
    intro x hx y hy
    simp only [List.mem_singleton] at hy
    rw [hy]
    intro z hzx hz
    rcases List.mem_append.mp hz with hz | hz
    · exact ha x (by simp [hx]) z hz hzx
    · exact hb x hx z hz hzx

theorem mergeLoop_inv {α} [LE α] [DecidableLE α] (stop : Stop α) (steps : List (Nat × Nat × α))
    (cl : List (Nat × List Nat)) (ct : Nat) (out) (hinv : ClInv cl)
    (h : mergeLoop stop steps cl ct = some out) : ClInv out := by
  induction steps generalizing cl ct with
  | nil => simp [mergeLoop] at h; rw [← h]; exact hinv
  | cons s ss ih =>
    obtain ⟨c1, c2, d⟩ := s
    unfold mergeLoop at h
    by_cases hs : shouldStop stop cl.length d = true
    · rw [if_pos hs] at h; cases h; exact hinv
    rw [if_neg hs] at h
    · cases h1 : removeKey c1 cl with
      | none => rw [h1] at h; simp at h
      | some p1 =>
        obtain ⟨a, cl1⟩ := p1
        rw [h1] at h
        simp only at h
        cases h2 : removeKey c2 cl1 with
        | none => rw [h2] at h; simp at h
        | some p2 =>
          obtain ⟨b, cl2⟩ := p2
          rw [h2] at h
          simp only at h
          have hp : cl ~ (c1, a) :: (c2, b) :: cl2 :=
            (removeKey_perm h1).trans (List.Perm.cons _ (removeKey_perm h2))
          exact ih _ _ (ClInv.merge (hinv.perm hp)) h

theorem singletons_inv (n : Nat) : ClInv ((List.range n).map fun i => (i, [i])) := by
  constructor
  · intro c hc
    simp only [List.mem_map, List.mem_range] at hc
    obtain ⟨i, _, rfl⟩ := hc
    simp
  · rw [List.pairwise_map]
    have : (List.range n).Pairwise (· ≠ ·) := List.nodup_range
    refine this.imp ?_
    intro i j hij x hx hy
    simp only [List.mem_singleton] at hx hy
    exact hij (hx.symm.trans hy)

theorem minKey_mem {ids : List Nat} (h : ids ≠ []) : ∃ m, m ∈ ids ∧ minKey ids = m + 1 := by
  unfold minKey
  cases hm : ids.min? with
  | none => simp [List.min?_eq_none_iff] at hm; exact absurd hm h
  | some m => exact ⟨m, List.min?_mem hm, rfl⟩

theorem ClInv.minKey_nodup {cl : List (Nat × List Nat)} (h : ClInv cl) :
    (cl.map fun c => minKey c.2).Nodup := by
  rw [List.Nodup, List.pairwise_map]
  refine List.Pairwise.imp_of_mem ?_ h.2
  intro a b ha hb hd heq
  obtain ⟨m, hm, hk⟩ := minKey_mem (h.1 a ha)
  obtain ⟨m', hm', hk'⟩ := minKey_mem (h.1 b hb)
  have : m = m' := by omega
  subst this
  exact hd m hm hm'

theorem sortClusters_perm {c₁ c₂ : List (Nat × List Nat)} (p : c₁ ~ c₂)
    (hnd : (c₁.map fun c => minKey c.2).Nodup) : sortClusters c₁ = sortClusters c₂ := by
  unfold sortClusters
  apply List.Perm.eq_of_pairwise (le := fun a b => decide (minKey a.2 ≤ minKey b.2))
  · intro a b ha hb hab hba
    have ha' : a ∈ c₁ := (List.mergeSort_perm c₁ _).subset ha
    have hb' : b ∈ c₁ := p.symm.subset ((List.mergeSort_perm c₂ _).subset hb)
    simp only [decide_eq_true_eq] at hab hba
    exact eq_of_map_eq (fun c => minKey c.2) hnd ha' hb' (by omega)
  · apply List.pairwise_mergeSort
    · intro a b c hab hbc; simp only [decide_eq_true_eq] at *; omega
    · intro a b; simp only [Bool.or_eq_true, decide_eq_true_eq]; omega
  · apply List.pairwise_mergeSort
    · intro a b c hab hbc; simp only [decide_eq_true_eq] at *; omega
    · intro a b; simp only [Bool.or_eq_true, decide_eq_true_eq]; omega
  · exact (List.mergeSort_perm c₁ _).trans (p.trans (List.mergeSort_perm c₂ _).symm)

theorem hierLabels_perm {n : Nat} {c₁ c₂ : List (Nat × List Nat)} (p : c₁ ~ c₂)
    (hnd : (c₁.map fun c => minKey c.2).Nodup) : hierLabels n c₁ = hierLabels n c₂ := by
  unfold hierLabels
  rw [sortClusters_perm p hnd]

/-- evaluating the sort on a concrete map: any sorted permutation is the result -/
theorem sortClusters_eq {c s : List (Nat × List Nat)} (p : c ~ s)
    (hnd : (c.map fun c => minKey c.2).Nodup)
    (hs : s.Pairwise fun a b => decide (minKey a.2 ≤ minKey b.2) = true) : sortClusters c = s := by
  rw [sortClusters_perm p hnd]
  exact List.mergeSort_of_pairwise hs

/-! ### event-level interleavings -/

/-- slots only ever hold the task's own value; array lengths are fixed -/
def EvGood {β} (f : Nat → β) (n : Nat) (s : EvState β) : Prop :=
  s.slots.length = n ∧ s.cells.length = n ∧ ∀ i v, s.slots[i]? = some (some v) → v = f i

theorem evStep_write_some {β} (f : Nat → β) (s : EvState β) (j : Nat) (v : β)
    (h : s.slots[j]? = some (some v)) :
    evStep f s (Event.write j) = { s with cells := s.cells.set j v } := by
  simp [evStep, h]

theorem evStep_write_none {β} (f : Nat → β) (s : EvState β) (j : Nat)
    (h : ∀ v, s.slots[j]? ≠ some (some v)) : evStep f s (Event.write j) = s := by
  simp only [evStep]

theorem evStep_write_cases {β} (f : Nat → β) (s : EvState β) (j : Nat) :
    (∃ v, s.slots[j]? = some (some v) ∧ evStep f s (Event.write j) = { s with cells := s.cells.set j v }) ∨
      evStep f s (Event.write j) = s := by
  cases hs : s.slots[j]? with
  | none => exact Or.inr (evStep_write_none f s j (by simp [hs]))
  | some o =>
    cases o with
    | none => exact Or.inr (evStep_write_none f s j (by simp [hs]))
    | some v => exact Or.inl ⟨v, rfl, evStep_write_some f s j v hs⟩

theorem lt_of_getElem?_some {γ} {l : List γ} {i : Nat} {x : γ} (h : l[i]? = some x) : i < l.length := by
  rcases Nat.lt_or_ge i l.length with hl | hl
  · exact hl
  · rw [List.getElem?_eq_none hl] at h; cases h

theorem evGood_step {β} (f : Nat → β) (n : Nat) (s : EvState β) (e : Event) (h : EvGood f n s) :
    EvGood f n (evStep f s e) := by
  obtain ⟨h1, h2, h3⟩ := h
  cases e with
  | compute j =>
    refine ⟨by simp [evStep, h1], by simp [evStep, h2], ?_⟩
    intro i v hv
    simp only [evStep, List.getElem?_set] at hv
    by_cases hji : j = i
    · subst hji
      by_cases hl : j < s.slots.length
      · simp [hl] at hv; exact hv.symm
      · simp [hl] at hv
    · simp [hji] at hv; exact h3 i v hv
  | write j =>
    rcases evStep_write_cases f s j with ⟨v, _, hw⟩ | hw
    · rw [hw]; exact ⟨h1, by simp [h2], h3⟩
    · rw [hw]; exact ⟨h1, h2, h3⟩

theorem evGood_foldl {β} (f : Nat → β) (n : Nat) (evs : List Event) (s : EvState β)
    (h : EvGood f n s) : EvGood f n (evs.foldl (evStep f) s) := by
  induction evs generalizing s with
  | nil => exact h
  | cons e es ih => exact ih _ (evGood_step f n s e h)

theorem slot_stable_step {β} (f : Nat → β) (s : EvState β) (e : Event) (i : Nat)
    (h : s.slots[i]? = some (some (f i))) : (evStep f s e).slots[i]? = some (some (f i)) := by
  cases e with
  | compute j =>
    simp only [evStep, List.getElem?_set]
    by_cases hji : j = i
    · subst hji
      have hl : j < s.slots.length := lt_of_getElem?_some h
      simp [hl]
    · simp [hji, h]
  | write j =>
    rcases evStep_write_cases f s j with ⟨v, _, hw⟩ | hw
    · rw [hw]; exact h
    · rw [hw]; exact h

theorem slot_stable_foldl {β} (f : Nat → β) (evs : List Event) (s : EvState β) (i : Nat)
    (h : s.slots[i]? = some (some (f i))) :
    (evs.foldl (evStep f) s).slots[i]? = some (some (f i)) := by
  induction evs generalizing s with
  | nil => exact h
  | cons e es ih => exact ih _ (slot_stable_step f s e i h)

theorem cell_stable_step {β} (f : Nat → β) (n : Nat) (s : EvState β) (e : Event) (i : Nat)
    (hg : EvGood f n s) (h : s.cells[i]? = some (f i)) : (evStep f s e).cells[i]? = some (f i) := by
  cases e with
  | compute j => simpa [evStep] using h
  | write j =>
    rcases evStep_write_cases f s j with ⟨v, hv, hw⟩ | hw
    · rw [hw]
      have hv' : v = f j := hg.2.2 j v hv
      simp only [List.getElem?_set]
      by_cases hji : j = i
      · subst hji
        have hl : j < s.cells.length := lt_of_getElem?_some h
        simp [hl, hv']
      · simp [hji, h]
    · rw [hw]; exact h

theorem cell_stable_foldl {β} (f : Nat → β) (n : Nat) (evs : List Event) (s : EvState β) (i : Nat)
    (hg : EvGood f n s) (h : s.cells[i]? = some (f i)) :
    (evs.foldl (evStep f) s).cells[i]? = some (f i) := by
  induction evs generalizing s with
  | nil => exact h
  | cons e es ih => exact ih _ (evGood_step f n s e hg) (cell_stable_step f n s e i hg h)

/-- a task whose compute event precedes its write event leaves `f i` in its cell, whatever the
other tasks' events do in between and afterwards -/
theorem events_cell {β} (f : Nat → β) (n : Nat) (s : EvState β) (hg : EvGood f n s) (i : Nat)
    (hi : i < n) (p1 p2 post : List Event) :
    ((p1 ++ Event.compute i :: p2 ++ Event.write i :: post).foldl (evStep f) s).cells[i]? = some (f i) := by
  rw [List.foldl_append, List.foldl_cons, List.foldl_append, List.foldl_cons]
  have g1 := evGood_foldl f n p1 s hg
  generalize p1.foldl (evStep f) s = s1 at g1
  have hs1 : (evStep f s1 (Event.compute i)).slots[i]? = some (some (f i)) := by
    simp [evStep, g1.1, hi]
  have g2 := evGood_step f n s1 (Event.compute i) g1
  generalize evStep f s1 (Event.compute i) = s2 at hs1 g2
  have hs3 := slot_stable_foldl f p2 s2 i hs1
  have g3 := evGood_foldl f n p2 s2 g2
  generalize p2.foldl (evStep f) s2 = s3 at hs3 g3
  have hc : (evStep f s3 (Event.write i)).cells[i]? = some (f i) := by
    rw [evStep_write_some f s3 i (f i) hs3]
    simp [g3.2.1, hi]
  exact cell_stable_foldl f n post _ i (evGood_step f n s3 _ g3) hc

theorem evGood_init {β} (f : Nat → β) (init : List β) :
    EvGood f init.length { slots := List.replicate init.length none, cells := init } := by
  refine ⟨by simp, rfl, ?_⟩
  intro i v hv
  simp only [List.getElem?_replicate] at hv
  split at hv <;> cases hv

end LinfaSpec.Determinism
