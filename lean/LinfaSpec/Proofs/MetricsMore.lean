import LinfaSpec.Proofs.MetricsRoc
import LinfaSpec.Proofs.MetricsReal

/-!
Further helper lemmas for C05: the sort used by `median_absolute_error`, the clamp of `log_loss`,
the quotient list of `mean_absolute_percentage_error`, the running minimum of the silhouette,
the centred columns of `pearson_correlation`, the nested loops of the multi-class `mcc`.
-/
namespace LinfaSpec.Metrics
open LinfaSpec

section Field
variable {α : Type} [Field α] [LinearOrder α] [IsStrictOrderedRing α]

/-! ### `sortAsc` (insertion sort standing for `sort_by(partial_cmp)`) -/

theorem perm_insertAsc (x : α) (l : List α) : (insertAsc x l).Perm (x :: l) := by
  induction l with
  | nil => simp [insertAsc]
  | cons y ys ih =>
    unfold insertAsc
    split
    · exact List.Perm.refl _
    · exact (List.Perm.cons y ih).trans (List.Perm.swap x y ys)

theorem sorted_insertAsc (x : α) (l : List α) (h : l.Pairwise (· ≤ ·)) :
    (insertAsc x l).Pairwise (· ≤ ·) := by
  induction l with
  | nil => simp [insertAsc]
  | cons y ys ih =>
    obtain ⟨hy, hys⟩ := List.pairwise_cons.mp h
    unfold insertAsc
    split
    · rename_i hxy
      refine List.pairwise_cons.mpr ⟨?_, h⟩
      intro a ha
      rcases List.mem_cons.mp ha with rfl | ha
      · exact le_of_lt hxy
      · exact le_trans (le_of_lt hxy) (hy a ha)
    · rename_i hxy
      refine List.pairwise_cons.mpr ⟨?_, ih hys⟩
      intro a ha
      rcases List.mem_cons.mp ((perm_insertAsc x ys).mem_iff.mp ha) with rfl | ha
      · exact not_lt.mp hxy
      · exact hy a ha

theorem perm_sortAsc (l : List α) : (sortAsc l).Perm l := by
  induction l with
  | nil => simp [sortAsc]
  | cons x xs ih =>
    have : sortAsc (x :: xs) = insertAsc x (sortAsc xs) := rfl
    rw [this]
    exact (perm_insertAsc x _).trans (List.Perm.cons x ih)

theorem sorted_sortAsc (l : List α) : (sortAsc l).Pairwise (· ≤ ·) := by
  induction l with
  | nil => simp [sortAsc]
  | cons x xs ih => exact sorted_insertAsc x _ ih

/-- two sorted lists with the same elements are equal -/
theorem sorted_perm_eq : ∀ {l₁ l₂ : List α}, l₁.Perm l₂ → l₁.Pairwise (· ≤ ·) → l₂.Pairwise (· ≤ ·) → l₁ = l₂
  | [], l₂, h, _, _ => by simpa using h.symm.eq_nil
  | x :: xs, [], h, _, _ => by simpa using h.eq_nil
  | x :: xs, y :: ys, h, h₁, h₂ => by
    obtain ⟨hx, hxs⟩ := List.pairwise_cons.mp h₁
    obtain ⟨hy, hys⟩ := List.pairwise_cons.mp h₂
    have hxy : x = y := by
      have m1 : x ∈ y :: ys := h.mem_iff.mp (List.mem_cons_self)
      have m2 : y ∈ x :: xs := h.mem_iff.mpr (List.mem_cons_self)
      rcases List.mem_cons.mp m1 with e | m1
      · exact e
      · rcases List.mem_cons.mp m2 with e | m2
        · exact e.symm
        · exact le_antisymm (hx y m2) (hy x m1)
    subst hxy
    rw [sorted_perm_eq (List.Perm.cons_inv h) hxs hys]

theorem sortAsc_perm {l l' : List α} (h : l.Perm l') : sortAsc l = sortAsc l' :=
  sorted_perm_eq ((perm_sortAsc l).trans (h.trans (perm_sortAsc l').symm)) (sorted_sortAsc l) (sorted_sortAsc l')

/-- the index arithmetic of `median_absolute_error` on a non-empty (sorted) vector -/
theorem median_pick (s : List α) (hlen : 0 < s.length) :
    (if s.length % 2 = 0 then
        match s[s.length / 2 - 1]?, s[s.length / 2]? with
        | some x, some y => some ((x + y) / 2)
        | _, _ => none
      else s[s.length / 2]?) =
      some (if s.length % 2 = 0 then (s[s.length / 2 - 1]'(by omega) + s[s.length / 2]'(by omega)) / 2
        else s[s.length / 2]'(by omega)) := by
  by_cases hev : s.length % 2 = 0
  · simp only [hev, if_true]
    rw [List.getElem?_eq_getElem (by omega : s.length / 2 - 1 < s.length),
      List.getElem?_eq_getElem (by omega : s.length / 2 < s.length)]
  · simp only [hev, if_false]
    rw [List.getElem?_eq_getElem (by omega : s.length / 2 < s.length)]

/-! ### clamp, quotient list -/

theorem clampS_eq (lo hi x : α) (h : lo ≤ hi) : clampS lo hi x = max lo (min hi x) := by
  unfold clampS
  split
  · rename_i hx
    rw [max_eq_left]
    exact le_trans (min_le_right hi x) (le_of_lt hx)
  · rename_i hx
    have hx : lo ≤ x := not_lt.mp hx
    split
    · rename_i hh
      rw [min_eq_left (le_of_lt hh), max_eq_right h]
    · rename_i hh
      have hh : x ≤ hi := not_lt.mp hh
      rw [min_eq_right hh, max_eq_right hx]

theorem subL_div_eq (a b : List α) :
    List.zipWith (· / ·) (subL a b) a = List.zipWith (fun x y => (x - y) / x) a b := by
  unfold subL
  induction a generalizing b with
  | nil => simp
  | cons x xs ih =>
    cases b with
    | nil => simp
    | cons y ys => simp only [List.zipWith_cons_cons]; rw [ih]

theorem subL_eq_map (qs : List (α × α)) :
    subL (qs.map Prod.fst) (qs.map Prod.snd) = qs.map fun p => p.1 - p.2 := by
  induction qs with
  | nil => rfl
  | cons q qs ih => simp only [subL, List.map_cons, List.zipWith_cons_cons] at ih ⊢; rw [ih]

theorem meanS_perm {l l' : List α} (hp : l.Perm l') : meanS l = meanS l' := by
  unfold meanS
  rw [sumS_eq_sum, sumS_eq_sum, hp.sum_eq, hp.length_eq]
  cases l <;> cases l' <;> simp_all

/-! ### running maximum / minimum -/

/-- `xs.foldl (fun v m => if m < v then m else v) x` (the `b_x` loop of the silhouette) is the least
element of `x :: xs` -/
theorem foldl_min_spec (xs : List α) (x : α) :
    (∀ e ∈ x :: xs, xs.foldl (fun v m => if m < v then m else v) x ≤ e) ∧
      xs.foldl (fun v m => if m < v then m else v) x ∈ x :: xs := by
  induction xs generalizing x with
  | nil => simp
  | cons y ys ih =>
    simp only [List.foldl_cons]
    obtain ⟨h1, h2⟩ := ih (if y < x then y else x)
    have hmin : (if y < x then y else x) = min x y := by
      split
      · rename_i h; rw [min_eq_right (le_of_lt h)]
      · rename_i h; rw [min_eq_left (not_lt.mp h)]
    rw [hmin] at h1 h2 ⊢
    refine ⟨?_, ?_⟩
    · intro e he
      have hm := h1 (min x y) (List.mem_cons.mpr (Or.inl rfl))
      rcases List.mem_cons.mp he with he | he
      · rw [he]; exact le_trans hm (min_le_left x y)
      · rcases List.mem_cons.mp he with he | he
        · rw [he]; exact le_trans hm (min_le_right x y)
        · exact h1 e (List.mem_cons.mpr (Or.inr he))
    · rcases List.mem_cons.mp h2 with h2 | h2
      · rw [h2]
        rcases min_choice x y with hm | hm <;> rw [hm] <;> simp
      · simp [h2]

/-- an upper bound that is attained is determined by the elements -/
theorem max_unique {l l' : List α} (h : l.Perm l') {v v' : α}
    (hv : (∀ e ∈ l, e ≤ v) ∧ v ∈ l) (hv' : (∀ e ∈ l', e ≤ v') ∧ v' ∈ l') : v = v' :=
  le_antisymm (hv'.1 v (h.mem_iff.mp hv.2)) (hv.1 v' (h.mem_iff.mpr hv'.2))

theorem foldl_maxS_spec (xs : List α) (x : α) :
    (∀ e ∈ x :: xs, e ≤ xs.foldl maxS x) ∧ xs.foldl maxS x ∈ x :: xs := by
  induction xs generalizing x with
  | nil => simp
  | cons y ys ih =>
    simp only [List.foldl_cons]
    obtain ⟨h1, h2⟩ := ih (maxS x y)
    rw [maxS_eq_max] at h1 h2 ⊢
    refine ⟨?_, ?_⟩
    · intro e he
      have hm := h1 (max x y) (List.mem_cons.mpr (Or.inl rfl))
      rcases List.mem_cons.mp he with he | he
      · rw [he]; exact le_trans (le_max_left x y) hm
      · rcases List.mem_cons.mp he with he | he
        · rw [he]; exact le_trans (le_max_right x y) hm
        · exact h1 e (List.mem_cons.mpr (Or.inr he))
    · rcases List.mem_cons.mp h2 with h2 | h2
      · rw [h2]
        rcases max_choice x y with hm | hm <;> rw [hm] <;> simp
      · simp [h2]

/-- the `fold(-inf, max)` of `max_error`, as an option, does not depend on the order -/
def maxOpt (l : List α) : Option α :=
  match l with
  | [] => none
  | x :: xs => some (xs.foldl maxS x)

theorem maxOpt_perm {l l' : List α} (h : l.Perm l') : maxOpt l = maxOpt l' := by
  cases l with
  | nil => rw [h.symm.eq_nil]
  | cons x xs =>
    cases l' with
    | nil => exact absurd h.eq_nil (by simp)
    | cons y ys =>
      simp only [maxOpt, Option.some.injEq]
      exact max_unique h (foldl_maxS_spec xs x) (foldl_maxS_spec ys y)

theorem maxError_eq (a b : List α) : maxError a b = maxOpt ((subL a b).map absS) := by
  unfold maxError maxOpt
  rfl

/-! ### lists of pairs -/

theorem zipWith_map_fst_snd {β γ δ : Type} (f : β → γ → δ) (qs : List (β × γ)) :
    List.zipWith f (qs.map Prod.fst) (qs.map Prod.snd) = qs.map fun p => f p.1 p.2 := by
  induction qs with
  | nil => rfl
  | cons q qs ih => simp only [List.map_cons, List.zipWith_cons_cons, ih]

theorem zip_map_fst_snd {β γ : Type} (qs : List (β × γ)) : (qs.map Prod.fst).zip (qs.map Prod.snd) = qs := by
  induction qs with
  | nil => rfl
  | cons q qs ih => simp only [List.map_cons, List.zip_cons_cons, ih]

theorem zipWith_same_map {β γ δ ε : Type} (f : γ → δ → ε) (g : β → γ) (h : β → δ) (l : List β) :
    List.zipWith f (l.map g) (l.map h) = l.map fun r => f (g r) (h r) := by
  induction l with
  | nil => rfl
  | cons x xs ih => simp only [List.map_cons, List.zipWith_cons_cons, ih]

end Field

/-! ### log-loss over `ℝ` -/

/-- one summand of the log-loss: the clipped negative log-likelihood of one sample -/
noncomputable def nllTerm (eps : ℝ) (p : ℝ × Bool) : ℝ :=
  if p.2 then -Real.log (max eps (min (1 - eps) p.1)) else -Real.log (1 - max eps (min (1 - eps) p.1))

theorem logLoss_pairs (eps : ℝ) (heps : eps ≤ 1 - eps) (ps : List (ℝ × Bool)) :
    logLoss eps (ps.map Prod.fst) (ps.map Prod.snd) =
      if ps = [] then none else some ((ps.map (nllTerm eps)).sum / (ps.length : ℝ)) := by
  unfold logLoss
  rw [zip_map_fst_snd]
  by_cases hp : ps = []
  · subst hp; simp
  · have he : (ps.map Prod.fst).isEmpty = false := by cases ps <;> simp_all
    simp only [he, hp, Bool.false_eq_true, if_false, sumS_eq_sum, List.length_map]
    congr 3
    apply List.map_congr_left
    rintro ⟨v, b⟩ _
    simp only [nllTerm, clampS_eq _ _ _ heps, Transc.ln]

/-! ### Pearson: centred columns -/
section Pearson

/-- mean of feature `j` -/
noncomputable def colMean (rows : List (List ℝ)) (j : Nat) : ℝ :=
  ((rows.map fun r => r.getD j 0).sum) / (rows.length : ℝ)

/-- co-moment `Σ_k (x_ki - mean_i)(x_kj - mean_j)` of features `i`, `j` -/
noncomputable def coMoment (rows : List (List ℝ)) (i j : Nat) : ℝ :=
  (rows.map fun r => (r.getD i 0 - colMean rows i) * (r.getD j 0 - colMean rows j)).sum

/-- textbook Pearson coefficient: covariance over the product of the standard deviations
(all three with the `n - 1` denominator the code uses) -/
noncomputable def pearsonCoeff (rows : List (List ℝ)) (i j : Nat) : ℝ :=
  coMoment rows i j / ((rows.length - 1 : Nat) : ℝ) /
    Real.sqrt (coMoment rows i i / ((rows.length - 1 : Nat) : ℝ)) /
    Real.sqrt (coMoment rows j j / ((rows.length - 1 : Nat) : ℝ))

theorem sum_centred (rows : List (List ℝ)) (j : Nat) (h : rows ≠ []) :
    (rows.map fun r => r.getD j 0 - colMean rows j).sum = 0 := by
  have hn : (rows.length : ℝ) ≠ 0 := by
    have : 0 < rows.length := List.length_pos_of_ne_nil h
    positivity
  have : ∀ (c : ℝ) (l : List (List ℝ)), (l.map fun r => r.getD j 0 - c).sum =
      (l.map fun r => r.getD j 0).sum - (l.length : ℝ) * c := by
    intro c l
    induction l with
    | nil => simp
    | cons x xs ih => simp only [List.map_cons, List.sum_cons, List.length_cons, ih]; push_cast; ring
  rw [this, colMean]
  field_simp
  ring

theorem coMoment_perm {rows rows' : List (List ℝ)} (h : rows.Perm rows') (i j : Nat) :
    coMoment rows i j = coMoment rows' i j := by
  have hm : ∀ k, colMean rows k = colMean rows' k := by
    intro k; unfold colMean; rw [(h.map _).sum_eq, h.length_eq]
  unfold coMoment
  rw [hm i, hm j]
  exact (h.map _).sum_eq

/-- the centred feature column the code calls `denoised` -/
noncomputable def centred (rows : List (List ℝ)) (j : Nat) : List ℝ :=
  (column rows j).map fun x => x - sumS (column rows j) / ((rows.length : Nat) : ℝ)

/-- `var_axis(0, 1).sqrt()` of one (centred) column: deviations from the column's own mean -/
noncomputable def stdOf (n : Nat) (c : List ℝ) : ℝ :=
  Real.sqrt (sumS (c.map fun x => (x - sumS c / ((n : Nat) : ℝ)) * (x - sumS c / ((n : Nat) : ℝ))) /
    ((n - 1 : Nat) : ℝ))

theorem pearson_unfold (rows : List (List ℝ)) (p : Nat) :
    pearson rows p = (List.range (p - 1)).flatMap fun i =>
      ((List.range p).filter fun j => i < j).map fun j =>
        dotS (((List.range p).map (centred rows)).getD i []) (((List.range p).map (centred rows)).getD j []) /
          ((rows.length - 1 : Nat) : ℝ) /
          (((List.range p).map (centred rows)).map (stdOf rows.length)).getD i 0 /
          (((List.range p).map (centred rows)).map (stdOf rows.length)).getD j 0 := rfl

theorem getD_map_range {β : Type} (f : Nat → β) (p i : Nat) (h : i < p) (d : β) :
    ((List.range p).map f).getD i d = f i := by
  simp [List.getD_eq_getElem?_getD, List.getElem?_range h]

theorem centred_eq (rows : List (List ℝ)) (j : Nat) :
    centred rows j = rows.map fun r => r.getD j 0 - colMean rows j := by
  simp [centred, column, colMean, sumS_eq_sum, List.map_map, Function.comp_def]

theorem dotS_centred (rows : List (List ℝ)) (i j : Nat) :
    dotS (centred rows i) (centred rows j) = coMoment rows i j := by
  rw [centred_eq, centred_eq, dotS, zipWith_same_map, sumS_eq_sum, coMoment]

theorem stdOf_centred (rows : List (List ℝ)) (j : Nat) (h : rows ≠ []) :
    stdOf rows.length (centred rows j) = Real.sqrt (coMoment rows j j / ((rows.length - 1 : Nat) : ℝ)) := by
  unfold stdOf
  have h0 : sumS (centred rows j) = 0 := by rw [centred_eq, sumS_eq_sum, sum_centred rows j h]
  rw [h0, sumS_eq_sum, centred_eq, List.map_map, coMoment]
  simp [Function.comp_def]

theorem pearson_eq_coeff (rows : List (List ℝ)) (p : Nat) (h : rows ≠ []) :
    pearson rows p = (List.range (p - 1)).flatMap fun i =>
      ((List.range p).filter fun j => i < j).map fun j => pearsonCoeff rows i j := by
  rw [pearson_unfold, List.flatMap_def, List.flatMap_def]
  congr 1
  apply List.map_congr_left
  intro i hi
  apply List.map_congr_left
  intro j hj
  have hi' : i < p := by have := List.mem_range.mp hi; omega
  have hj' : j < p := List.mem_range.mp (List.mem_filter.mp hj).1
  rw [getD_map_range _ _ _ hi', getD_map_range _ _ _ hj', List.map_map,
    getD_map_range _ _ _ hi', getD_map_range _ _ _ hj']
  simp only [Function.comp_apply]
  rw [dotS_centred, stdOf_centred _ _ h, stdOf_centred _ _ h, pearsonCoeff]

theorem pearsonCoeff_perm {rows rows' : List (List ℝ)} (h : rows.Perm rows') (i j : Nat) :
    pearsonCoeff rows i j = pearsonCoeff rows' i j := by
  unfold pearsonCoeff
  rw [coMoment_perm h i j, coMoment_perm h i i, coMoment_perm h j j, h.length_eq]

end Pearson

/-! ### multi-class Matthews correlation: the nested loops as sums -/
section MccMulti

theorem foldl_add_sub (f g : Nat → ℝ) (l : List Nat) (acc : ℝ) :
    l.foldl (fun acc c => (acc + f c) - g c) acc = acc + (l.map f).sum - (l.map g).sum := by
  induction l generalizing acc with
  | nil => simp
  | cons x xs ih => simp only [List.foldl_cons, ih, List.map_cons, List.sum_cons]; ring

theorem foldl_add (f : Nat → ℝ) (l : List Nat) (acc : ℝ) :
    l.foldl (fun acc c => acc + f c) acc = acc + (l.map f).sum := by
  induction l generalizing acc with
  | nil => simp
  | cons x xs ih => simp only [List.foldl_cons, ih, List.map_cons, List.sum_cons]; ring

theorem sum_map_getD_range {β : Type} (g : β → Nat) (l : List β) (d : β) :
    ((List.range l.length).map fun i => g (l.getD i d)).sum = (l.map g).sum := by
  induction l with
  | nil => simp
  | cons x xs ih =>
    rw [List.length_cons, List.range_succ_eq_map, List.map_cons, List.map_map, List.sum_cons, List.map_cons,
      List.sum_cons, ← ih]
    simp [Function.comp_def]

theorem sum_cast_map (f : Nat → Nat) (l : List Nat) :
    (l.map fun i => ((f i : Nat) : ℝ)).sum = (((l.map f).sum : Nat) : ℝ) := by
  induction l with
  | nil => simp
  | cons x xs ih => simp only [List.map_cons, List.sum_cons, ih]; push_cast; rfl

theorem sum_getD_range (r : List Nat) : ((List.range r.length).map fun i => r.getD i 0).sum = r.sum := by
  have := sum_map_getD_range (fun x => x) r 0
  simpa using this

theorem sum_mul_left' (r : ℝ) (f : Nat → ℝ) (l : List Nat) : (l.map fun b => r * f b).sum = r * (l.map f).sum := by
  induction l with
  | nil => simp
  | cons x xs ih => simp only [List.map_cons, List.sum_cons, ih]; ring

theorem sum_mul_right' (r : ℝ) (f : Nat → ℝ) (l : List Nat) : (l.map fun b => f b * r).sum = (l.map f).sum * r := by
  induction l with
  | nil => simp
  | cons x xs ih => simp only [List.map_cons, List.sum_cons, ih]; ring

/-- row sums as sums of cells -/
theorem rowSum_cells {k : Nat} {m : List (List Nat)} (h : Square k m) (a : Nat) (ha : a < k) :
    ((List.range k).map fun l => (cellS m a l : ℝ)).sum = ((rowSum m a : Nat) : ℝ) := by
  have hlen : (m.getD a []).length = k := by
    have hm : a < m.length := by rw [h.1]; exact ha
    have : m.getD a [] = m[a] := by simp [List.getD_eq_getElem?_getD, List.getElem?_eq_getElem hm]
    rw [this]; exact h.2 _ (List.getElem_mem hm)
  have e := sum_cast_map (fun l => (m.getD a []).getD l 0) (List.range k)
  have e2 := sum_getD_range (m.getD a [])
  rw [hlen] at e2
  show ((List.range k).map fun l => (((m.getD a []).getD l 0 : Nat) : ℝ)).sum = (((m.getD a []).sum : Nat) : ℝ)
  rw [e, e2]

/-- column sums as sums of cells -/
theorem colSum_cells {k : Nat} {m : List (List Nat)} (h : Square k m) (a : Nat) :
    ((List.range k).map fun c => (cellS m c a : ℝ)).sum = ((colSum m a : Nat) : ℝ) := by
  have e := sum_cast_map (fun c => (m.getD c []).getD a 0) (List.range k)
  have e2 := sum_map_getD_range (fun r : List Nat => r.getD a 0) m []
  rw [h.1] at e2
  show ((List.range k).map fun c => (((m.getD c []).getD a 0 : Nat) : ℝ)).sum =
    (((m.map fun r => r.getD a 0).sum : Nat) : ℝ)
  rw [e, e2]

theorem diagSum_cells (m : List (List Nat)) :
    ((List.range m.length).map fun a => (cellS m a a : ℝ)).sum = ((diagSum m : Nat) : ℝ) :=
  sum_cast_map (fun a => cell m a a) (List.range m.length)

theorem total_cells {k : Nat} {m : List (List Nat)} (h : Square k m) :
    ((List.range k).map fun l => ((List.range k).map fun c => (cellS m l c : ℝ)).sum).sum = ((total m : Nat) : ℝ) := by
  have e : ((List.range k).map fun l => ((List.range k).map fun c => (cellS m l c : ℝ)).sum) =
      (List.range k).map fun l => ((rowSum m l : Nat) : ℝ) := by
    apply List.map_congr_left
    intro l hl
    exact rowSum_cells h l (List.mem_range.mp hl)
  have e3 := sum_cast_map (fun l => rowSum m l) (List.range k)
  have e4 := sum_map_getD_range (fun r : List Nat => r.sum) m []
  rw [h.1] at e4
  rw [e, e3]
  show ((((List.range k).map fun l => (m.getD l []).sum).sum : Nat) : ℝ) = (((m.map List.sum).sum : Nat) : ℝ)
  rw [e4]

/-- **numerator of the multi-class MCC**: the triple loop of `mcc()` computes
`trace · total − Σ_k row_k · col_k` -/
theorem mcc_covXY {k : Nat} {m : List (List Nat)} (h : Square k m) :
    (List.range k).foldl (fun acc a => (List.range k).foldl (fun acc l => (List.range k).foldl (fun acc c =>
        (acc + (cellS m a a : ℝ) * cellS m l c) - cellS m a l * cellS m c a) acc) acc) 0 =
      ((diagSum m : Nat) : ℝ) * ((total m : Nat) : ℝ) -
        ((List.range k).map fun a => ((rowSum m a : Nat) : ℝ) * ((colSum m a : Nat) : ℝ)).sum := by
  simp only [foldl_add_sub]
  have e1 : ((List.range k).map fun a => ((List.range k).map fun l => ((List.range k).map fun c =>
      (cellS m a a : ℝ) * cellS m l c).sum).sum) =
      (List.range k).map fun a => (cellS m a a : ℝ) * ((total m : Nat) : ℝ) := by
    apply List.map_congr_left
    intro a _
    simp only [sum_mul_left']
    rw [total_cells h]
  have e2 : ((List.range k).map fun a => ((List.range k).map fun l => ((List.range k).map fun c =>
      (cellS m a l : ℝ) * cellS m c a).sum).sum) =
      (List.range k).map fun a => ((rowSum m a : Nat) : ℝ) * ((colSum m a : Nat) : ℝ) := by
    apply List.map_congr_left
    intro a ha
    simp only [sum_mul_left', sum_mul_right']
    rw [colSum_cells h a, rowSum_cells h a (List.mem_range.mp ha)]
  rw [e1, e2, sum_mul_right', ← h.1, diagSum_cells]
  ring

/-- a sum over class indices is a sum over the classes -/
theorem range_map_eq_map {L : Type} (cs : List L) (F : Nat → ℝ) (G : L → ℝ)
    (h : ∀ a c, cs[a]? = some c → F a = G c) : (List.range cs.length).map F = cs.map G := by
  apply List.ext_getElem
  · simp
  · intro i h1 h2
    have hi : i < cs.length := by simpa using h2
    simp only [List.getElem_map, List.getElem_range]
    exact h i cs[i] (List.getElem?_eq_getElem hi)

end MccMulti

end LinfaSpec.Metrics
