import LinfaSpec.Proofs.Predict
import Mathlib.Order.Defs.LinearOrder

/-! Helper lemmas for C03 that need a linear order (isotonic cells, first maximum, nearest centroid). -/
namespace LinfaSpec.Predict



/-- no order axiom is used: the statement holds for any decidable `≤`, in particular for IEEE floats
with NaN (where `position` may find no knot and the query value itself is written) -/
theorem isoCell_written {α : Type} [LE α] [DecidableLE α] [Add α] [Sub α] [Mul α] [Div α]
    (reg resp : List α) (v : α) (hne : reg ≠ []) (hlen : resp.length = reg.length) :
    ∃ c, isoCell reg resp v = some (some c) := by
  obtain ⟨xmin, hxmin⟩ : ∃ a, reg.head? = some a := by
    cases reg with
    | nil => exact absurd rfl hne
    | cons a _ => exact ⟨a, rfl⟩
  obtain ⟨xmax, hxmax⟩ : ∃ a, reg.getLast? = some a := by
    cases h : reg.getLast? with
    | none => exact absurd (List.getLast?_eq_none_iff.mp h) hne
    | some a => exact ⟨a, rfl⟩
  have hne' : resp ≠ [] := by
    intro h; rw [h] at hlen; exact hne (List.length_eq_zero_iff.mp hlen.symm)
  obtain ⟨ymin, hymin⟩ : ∃ a, resp.head? = some a := by
    cases resp with
    | nil => exact absurd rfl hne'
    | cons a _ => exact ⟨a, rfl⟩
  obtain ⟨ymax, hymax⟩ : ∃ a, resp.getLast? = some a := by
    cases h : resp.getLast? with
    | none => exact absurd (List.getLast?_eq_none_iff.mp h) hne'
    | some a => exact ⟨a, rfl⟩
  unfold isoCell
  simp only [hxmin, hxmax, hymin, hymax]
  by_cases h1 : xmax ≤ v
  · exact ⟨ymax, by simp [h1]⟩
  by_cases h2 : v ≤ xmin
  · exact ⟨ymin, by simp [h1, h2]⟩
  simp only [h1, h2, if_false]
  cases hp : positionGe reg v with
  | none => exact ⟨v, rfl⟩
  | some j =>
    unfold positionGe at hp
    obtain ⟨hj, _, _⟩ := List.findIdx?_eq_some_iff_getElem.mp hp
    have hj1 : j - 1 < reg.length := by omega
    simp only [List.getElem?_eq_getElem hj, List.getElem?_eq_getElem hj1,
      List.getElem?_eq_getElem (hlen ▸ hj), List.getElem?_eq_getElem (hlen ▸ hj1)]
    split
    · exact ⟨_, rfl⟩
    · exact ⟨_, rfl⟩




theorem isoWrite_eq_map {α : Type} [LE α] [DecidableLE α] [Add α] [Sub α] [Mul α] [Div α]
    (reg resp : List α) (g : α → α) (hg : ∀ v, isoCell reg resp v = some (some (g v)))
    (vs : List α) (y : List α) (hy : y.length = vs.length) :
    isoWrite reg resp (vs.map fun v => [v]) y = some (vs.map g) := by
  induction vs generalizing y with
  | nil =>
    cases y with
    | nil => rfl
    | cons _ _ => simp at hy
  | cons v vs ih =>
    cases y with
    | nil => simp at hy
    | cons y0 ys =>
      have := ih ys (by simpa using hy)
      simp [isoWrite, hg v, this]

/-- isotonic regression, linear order, non-empty model with as many responses as knots: every cell
of every admissible buffer is written, so the in-place form returns `vs.map g` whatever the buffer
held, and so do the `Predict` forms (buffer of zeros) -/
theorem iso_inplace_overwrites' {α : Type} [LE α] [DecidableLE α] [Add α] [Sub α] [Mul α] [Div α]
    (reg resp : List α) (hne : reg ≠ []) (hlen : resp.length = reg.length) :
    ∃ g : α → α, (∀ v, isoCell reg resp v = some (some (g v))) ∧
      ∀ (vs y : List α), y.length = vs.length →
        isoInplace reg resp (vs.map fun v => [v]) y = some (vs.map g) := by
  refine ⟨fun v => ((isoCell reg resp v).bind id).getD v, ?_, ?_⟩
  · intro v
    obtain ⟨c, hc⟩ := isoCell_written reg resp v hne hlen
    simp [hc]
  · intro vs y hy
    have hne' : resp ≠ [] := by
      intro h; rw [h] at hlen; exact hne (List.length_eq_zero_iff.mp hlen.symm)
    unfold isoInplace
    have e1 : reg.isEmpty = false := by cases reg <;> simp_all
    have e2 : resp.isEmpty = false := by cases resp <;> simp_all
    simp only [List.length_map, hy, ne_eq, not_true_eq_false, if_false, e1, e2, Bool.or_self,
      Bool.false_eq_true]
    apply isoWrite_eq_map
    · intro v
      obtain ⟨c, hc⟩ := isoCell_written reg resp v hne hlen
      simp [hc]
    · exact hy



theorem closestGo_spec {α : Type} [LinearOrder α] [Add α] [Sub α] [Mul α] [OfNat α 0]
    (obs : List α) (cents : List (List α)) (idx : Nat) (best : Nat × α) :
    (closestGo obs cents idx best).2 ≤ best.2 ∧
    (∀ c ∈ cents, (closestGo obs cents idx best).2 ≤ sqDist c obs) ∧
    (closestGo obs cents idx best = best ∨
      ∃ i, ∃ h : i < cents.length, closestGo obs cents idx best = (idx + i, sqDist cents[i] obs)) := by
  induction cents generalizing idx best with
  | nil => exact ⟨le_refl _, by simp, Or.inl rfl⟩
  | cons c rest ih =>
    simp only [closestGo]
    by_cases h : sqDist c obs < best.2
    · simp only [h, if_true]
      obtain ⟨h1, h2, h3⟩ := ih (idx + 1) (idx, sqDist c obs)
      refine ⟨le_trans h1 (le_of_lt h), ?_, ?_⟩
      · intro c' hc'
        rcases List.mem_cons.mp hc' with rfl | hc'
        · exact h1
        · exact h2 c' hc'
      · right
        rcases h3 with h3 | ⟨i, hi, h3⟩
        · exact ⟨0, by simp, by rw [h3]; simp⟩
        · exact ⟨i + 1, by simpa using hi, by rw [h3]; simp; omega⟩
    · simp only [h, if_false]
      obtain ⟨h1, h2, h3⟩ := ih (idx + 1) best
      refine ⟨h1, ?_, ?_⟩
      · intro c' hc'
        rcases List.mem_cons.mp hc' with rfl | hc'
        · exact le_trans h1 (not_lt.mp h)
        · exact h2 c' hc'
      · rcases h3 with h3 | ⟨i, hi, h3⟩
        · exact Or.inl h3
        · exact Or.inr ⟨i + 1, by simpa using hi, by rw [h3]; simp; omega⟩

/-- k-means: the index returned is in range, the distance returned is that centroid's distance and
no centroid is nearer -/
theorem closestCentroid_nearest {α : Type} [LinearOrder α] [Add α] [Sub α] [Mul α] [OfNat α 0]
    (cents : List (List α)) (obs : List α) (i : Nat) (d : α)
    (h : closestCentroid cents obs = some (i, d)) :
    ∃ hi : i < cents.length, d = sqDist cents[i] obs ∧ ∀ c ∈ cents, d ≤ sqDist c obs := by
  cases cents with
  | nil => simp [closestCentroid] at h
  | cons c0 rest =>
    simp only [closestCentroid, Option.some.injEq] at h
    obtain ⟨h1, h2, h3⟩ := closestGo_spec obs (c0 :: rest) 0 (0, sqDist c0 obs)
    rw [h] at h1 h2 h3
    rcases h3 with h3 | ⟨j, hj, h3⟩
    · have hi : i = 0 := by simpa using congrArg Prod.fst h3
      have hd : d = sqDist c0 obs := by simpa using congrArg Prod.snd h3
      subst hi
      exact ⟨by simp, by simpa using hd, h2⟩
    · have hi : i = j := by simpa using congrArg Prod.fst h3
      have hd : d = sqDist (c0 :: rest)[j] obs := by simpa using congrArg Prod.snd h3
      subst hi
      exact ⟨hj, hd, h2⟩




theorem argmaxGo_spec {α : Type} [LinearOrder α] (l : List α) (idx : Nat) (best : Nat × α) :
    best.2 ≤ (argmaxGo l idx best).2 ∧
    (∀ x ∈ l, x ≤ (argmaxGo l idx best).2) ∧
    (argmaxGo l idx best = best ∨
      ∃ i, ∃ h : i < l.length, argmaxGo l idx best = (idx + i, l[i]) ∧ best.2 < l[i] ∧
        ∀ j, ∀ hj : j < i, l[j] < l[i]) := by
  induction l generalizing idx best with
  | nil => exact ⟨le_refl _, by simp, Or.inl rfl⟩
  | cons x rest ih =>
    simp only [argmaxGo]
    by_cases h : best.2 < x
    · simp only [h, if_true]
      obtain ⟨h1, h2, h3⟩ := ih (idx + 1) (idx, x)
      refine ⟨le_trans (le_of_lt h) h1, ?_, Or.inr ?_⟩
      · intro y hy
        rcases List.mem_cons.mp hy with rfl | hy
        · exact h1
        · exact h2 y hy
      · rcases h3 with h3 | ⟨i, hi, h3, hlt, hb⟩
        · exact ⟨0, by simp, by rw [h3]; simp, by simpa using h, by intro j hj; omega⟩
        · refine ⟨i + 1, by simpa using hi, by rw [h3]; simp; omega, ?_, ?_⟩
          · simpa using lt_trans h hlt
          · intro j hj
            cases j with
            | zero => simpa using hlt
            | succ j => simpa using hb j (by omega)
    · simp only [h, if_false]
      obtain ⟨h1, h2, h3⟩ := ih (idx + 1) best
      refine ⟨h1, ?_, ?_⟩
      · intro y hy
        rcases List.mem_cons.mp hy with rfl | hy
        · exact le_trans (not_lt.mp h) h1
        · exact h2 y hy
      · rcases h3 with h3 | ⟨i, hi, h3, hlt, hb⟩
        · exact Or.inl h3
        · refine Or.inr ⟨i + 1, by simpa using hi, by rw [h3]; simp; omega, by simpa using hlt, ?_⟩
          intro j hj
          cases j with
          | zero => simpa using lt_of_le_of_lt (not_lt.mp h) hlt
          | succ j => simpa using hb j (by omega)

/-- `argmax` of a non-empty score vector: the index is in range, its score is maximal and every
earlier score is strictly smaller (the FIRST maximum) -/
theorem argmaxIdx_first_max {α : Type} [LinearOrder α] (l : List α) (hne : l ≠ []) :
    ∃ v, l[argmaxIdx l]? = some v ∧ (∀ x ∈ l, x ≤ v) ∧
      ∀ j y, j < argmaxIdx l → l[j]? = some y → y < v := by
  cases l with
  | nil => exact absurd rfl hne
  | cons x rest =>
    simp only [argmaxIdx]
    obtain ⟨h1, h2, h3⟩ := argmaxGo_spec rest 1 (0, x)
    rcases h3 with h3 | ⟨i, hi, h3, hlt, hb⟩
    · rw [h3] at h2
      rw [h3]
      refine ⟨x, by simp, ?_, by intro j y hj; simp at hj⟩
      intro y hy
      rcases List.mem_cons.mp hy with rfl | hy
      · exact le_refl _
      · simpa using h2 y hy
    · rw [h3] at h2
      rw [h3]
      have e : 1 + i = i + 1 := by omega
      dsimp only
      rw [e]
      refine ⟨rest[i], by simp [List.getElem?_eq_getElem hi], ?_, ?_⟩
      · intro y hy
        rcases List.mem_cons.mp hy with rfl | hy
        · simpa using le_of_lt hlt
        · simpa using h2 y hy
      · intro j y hj hy
        cases j with
        | zero =>
          simp at hy; subst hy; simpa using hlt
        | succ j =>
          have hj' : j < i := by omega
          have hjl : j < rest.length := by omega
          simp [List.getElem?_eq_getElem hjl] at hy
          subst hy
          exact hb j hj'



end LinfaSpec.Predict
