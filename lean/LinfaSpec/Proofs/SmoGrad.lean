import LinfaSpec.Proofs.SmoPub
set_option linter.unusedSectionVars false
namespace LinfaSpec.Smo
section grad
variable {α : Type} [Field α] [LinearOrder α] [IsStrictOrderedRing α]

/-- `Q_kl` as the kernel wrapper serves it: entry `k` of `kernel.distances(l, ·)` -/
def Qe (e : Env α) (s : St α) (k l : Nat) : α := gf (dist e s l (k + 1)) k

theorem gf_dist (e : Env α) (s : St α) (a len k : Nat) (hk : k < len) :
    gf (dist e s a len) k = Qe e s k a := by
  unfold Qe gf dist
  rw [List.getD_eq_getElem?_getD, List.getD_eq_getElem?_getD]
  simp only [List.getElem?_map, List.getElem?_range hk, List.getElem?_range (Nat.lt_succ_self k),
    Option.map_some, Option.getD_some]

theorem gf_append_left (l1 l2 : List α) (k : Nat) (h : k < l1.length) : gf (l1 ++ l2) k = gf l1 k := by
  unfold gf
  rw [List.getD_eq_getElem?_getD, List.getD_eq_getElem?_getD, List.getElem?_append_left h]

theorem gf_take (l : List α) (n k : Nat) (h : k < n) : gf (l.take n) k = gf l k := by
  unfold gf
  rw [List.getD_eq_getElem?_getD, List.getD_eq_getElem?_getD, List.getElem?_take_of_lt h]

theorem gf_zipWith_zip (f : α → α × α → α) (A B C : List α) (k : Nat) (hA : k < A.length)
    (hB : k < B.length) (hC : k < C.length) :
    gf (List.zipWith f A (B.zip C)) k = f (gf A k) (gf B k, gf C k) := by
  have hz : (B.zip C)[k]? = some (B[k], C[k]) := by
    rw [List.getElem?_eq_getElem (by simp only [List.length_zip]; omega)]
    simp
  unfold gf
  simp only [List.getD_eq_getElem?_getD, List.getElem?_zipWith, hz,
    List.getElem?_eq_getElem hA, List.getElem?_eq_getElem hB, List.getElem?_eq_getElem hC]
  simp

/-- the gradient the solver holds is the gradient of the dual objective on the active positions -/
def GradOK (e : Env α) (s : St α) : Prop :=
  ∀ k, k < s.nactive →
    gf s.grad k = gf s.p k + ∑ l ∈ Finset.range s.alpha.length, Qe e s k l * gf s.alpha l

theorem update_grad (e : Env α) (s : St α) (i j : Nat) :
    (update e s i j).grad =
      List.zipWith (fun gk (dk : α × α) =>
          gk + (dk.1 * ((newPair e s i j).1 - gf s.alpha i) + dk.2 * ((newPair e s i j).2 - gf s.alpha j)))
        (s.grad.take s.nactive) ((dist e s i s.nactive).zip (dist e s j s.nactive)) ++ s.grad.drop s.nactive := by
  unfold update newPair
  dsimp only
  split_ifs <;> rfl

theorem dist_length (e : Env α) (s : St α) (a len : Nat) : (dist e s a len).length = len := by
  unfold dist; simp

theorem gf_update_grad (e : Env α) (s : St α) (i j k : Nat) (hk : k < s.nactive)
    (hg : s.nactive ≤ s.grad.length) :
    gf (update e s i j).grad k = gf s.grad k +
      (Qe e s k i * ((newPair e s i j).1 - gf s.alpha i) + Qe e s k j * ((newPair e s i j).2 - gf s.alpha j)) := by
  rw [update_grad]
  have hdi := dist_length e s i s.nactive
  have hdj := dist_length e s j s.nactive
  have hk1 : k < (s.grad.take s.nactive).length := by rw [List.length_take]; omega
  rw [gf_append_left _ _ k (by
    simp only [List.length_zipWith, List.length_zip, hdi, hdj, List.length_take]; omega)]
  rw [gf_zipWith_zip _ _ _ _ k hk1 (by omega) (by omega), gf_take _ _ _ hk,
    gf_dist e s i s.nactive k hk, gf_dist e s j s.nactive k hk]

theorem Qe_update (e : Env α) (s : St α) (i j k l : Nat) : Qe e (update e s i j) k l = Qe e s k l := by
  unfold Qe dist; rw [update_kidx, update_y]

/-- **one step keeps the gradient invariant on the active positions** -/
theorem update_gradOK (e : Env α) (s : St α) (i j : Nat) (hij : i ≠ j) (hi : i < s.nactive)
    (hj : j < s.nactive) (hn : s.nactive ≤ s.alpha.length) (hg : s.grad.length = s.alpha.length)
    (h : GradOK e s) : GradOK e (update e s i j) := by
  intro k hk
  rw [update_nactive] at hk
  have hi' : i < s.alpha.length := by omega
  have hj' : j < s.alpha.length := by omega
  rw [gf_update_grad e s i j k hk (by omega), update_p, update_alpha_length, h k hk]
  have hsum : ∑ l ∈ Finset.range s.alpha.length, Qe e (update e s i j) k l * gf (update e s i j).alpha l =
      ∑ l ∈ Finset.range s.alpha.length, Qe e s k l * gf s.alpha l +
      (Qe e s k i * ((newPair e s i j).1 - gf s.alpha i) + Qe e s k j * ((newPair e s i j).2 - gf s.alpha j)) := by
    rw [← sub_eq_iff_eq_add', ← Finset.sum_sub_distrib]
    rw [Finset.sum_eq_add_of_mem i j (Finset.mem_range.mpr hi') (Finset.mem_range.mpr hj') hij]
    · rw [Qe_update, Qe_update, gf_update_alpha e s i j i hij hi' hj', gf_update_alpha e s i j j hij hi' hj']
      simp only [hij, if_false, if_true]
      ring
    · intro c _ hc
      rw [Qe_update, gf_update_alpha e s i j c hij hi' hj']
      simp only [hc.1, hc.2, if_false]
      ring
  rw [hsum]; ring

theorem update_grad_length (e : Env α) (s : St α) (i j : Nat) (hg : s.nactive ≤ s.grad.length) :
    (update e s i j).grad.length = s.grad.length := by
  rw [update_grad]
  simp only [List.length_append, List.length_zipWith, List.length_zip, dist_length, List.length_take,
    List.length_drop]
  omega

/-- a working-set sequence inside the active prefix -/
def ActiveSteps (s : St α) (steps : List (Nat × Nat)) : Prop :=
  ∀ st ∈ steps, st.1 ≠ st.2 ∧ st.1 < s.nactive ∧ st.2 < s.nactive

theorem updates_gradOK (e : Env α) (steps : List (Nat × Nat)) (s : St α)
    (hv : ActiveSteps s steps) (hn : s.nactive ≤ s.alpha.length) (hg : s.grad.length = s.alpha.length)
    (h : GradOK e s) : GradOK e (steps.foldl (fun s st => update e s st.1 st.2) s) := by
  induction steps generalizing s with
  | nil => exact h
  | cons st rest ih =>
    have h0 := hv st (List.mem_cons_self ..)
    simp only [List.foldl_cons]
    apply ih
    · intro x hx
      rw [update_nactive]
      exact hv x (List.mem_cons_of_mem _ hx)
    · rw [update_nactive, update_alpha_length]; exact hn
    · rw [update_grad_length e s st.1 st.2 (by omega), update_alpha_length]; exact hg
    · exact update_gradOK e s st.1 st.2 h0.1 h0.2.1 h0.2.2 hn hg h

/-- `SolverState::new` from the zero point (C-classification, epsilon-regression, one-class's complement):
every variable is at its lower bound, no kernel column is fetched, the gradient is the linear term -/
theorem init_zero_core (e : Env α) (a p b : List α) (y : List Bool) (hz : ∀ k, gf a k = 0) :
    (init e a p b y).alpha = a ∧ (init e a p b y).grad = p ∧ (init e a p b y).p = p ∧
    (init e a p b y).nactive = a.length := by
  unfold init
  dsimp only
  apply foldl_inv (fun s : St α => s.alpha = a ∧ s.grad = p ∧ s.p = p ∧ s.nactive = a.length)
  · exact ⟨rfl, rfl, rfl, rfl⟩
  · intro acc x _ h
    have hl : reachedLower acc x = true := by
      unfold reachedLower; rw [h.1, hz x]; simp
    simp only [hl, Bool.not_true, Bool.false_eq_true, if_false]
    exact h

theorem init_zero_gradOK (e : Env α) (a p b : List α) (y : List Bool) (hz : ∀ k, gf a k = 0) :
    GradOK e (init e a p b y) := by
  obtain ⟨c1, c2, c3, c4⟩ := init_zero_core e a p b y hz
  intro k _
  rw [c2, c3, c1]
  simp [hz]

end grad
end LinfaSpec.Smo
