import LinfaSpec.Model.Fold
import Mathlib.Algebra.Field.Basic
import Mathlib.Algebra.BigOperators.Group.List.Basic

/-! Helper lemmas for the cross-validation half of C01. -/
namespace LinfaSpec.Fold

theorem mapM_except_error {α β ε} (f : α → Except ε β) (pre : List α) (x : α) (post : List α)
    (e : ε) (hpre : ∀ a ∈ pre, ∃ b, f a = .ok b) (hx : f x = .error e) :
    (pre ++ x :: post).mapM f = .error e := by
  induction pre with
  | nil => simp [List.mapM_cons, hx]; rfl
  | cons a pre ih =>
    obtain ⟨b, hb⟩ := hpre a (by simp)
    have := ih (fun a' ha' => hpre a' (by simp [ha']))
    simp only [List.cons_append, List.mapM_cons, hb, this]; rfl

theorem mapM_except_ok {α β ε} (f : α → Except ε β) (l : List α)
    (h : ∀ a ∈ l, ∃ b, f a = .ok b) : ∃ bs, l.mapM f = .ok bs ∧ bs.length = l.length := by
  induction l with
  | nil => exact ⟨[], by simp; rfl, rfl⟩
  | cons a l ih =>
    obtain ⟨b, hb⟩ := h a (by simp)
    obtain ⟨bs, hbs, hl⟩ := ih (fun a' ha' => h a' (by simp [ha']))
    refine ⟨b :: bs, ?_, by simp [hl]⟩
    simp only [List.mapM_cons, hb, hbs]; rfl

/-- `M` is an `m × t` matrix -/
def Shaped {σ} (m t : Nat) (M : List (List σ)) : Prop := M.length = m ∧ ∀ r ∈ M, r.length = t

def entry {σ} [OfNat σ 0] (M : List (List σ)) (i j : Nat) : σ := ((M[i]?.getD [])[j]?).getD 0

theorem addMat_shaped {σ} [Add σ] (m t : Nat) (a b : List (List σ)) (ha : Shaped m t a)
    (hb : Shaped m t b) : Shaped m t (addMat a b) := by
  refine ⟨by simp [addMat, ha.1, hb.1], ?_⟩
  intro r hr
  simp only [addMat, List.mem_iff_getElem?, List.getElem?_zipWith] at hr
  obtain ⟨i, hi⟩ := hr
  cases h1 : a[i]? with
  | none => simp [h1] at hi
  | some x =>
    cases h2 : b[i]? with
    | none => simp [h1, h2] at hi
    | some y =>
      simp [h1, h2] at hi
      subst hi
      simp [addRow, ha.2 x (List.mem_of_getElem? h1), hb.2 y (List.mem_of_getElem? h2)]

theorem entry_addMat {σ} [AddMonoid σ] (m t : Nat) (a b : List (List σ)) (ha : Shaped m t a)
    (hb : Shaped m t b) (i j : Nat) (hi : i < m) (hj : j < t) :
    entry (addMat a b) i j = entry a i j + entry b i j := by
  have hai : i < a.length := by rw [ha.1]; exact hi
  have hbi : i < b.length := by rw [hb.1]; exact hi
  have ra : (a[i]).length = t := ha.2 _ (List.getElem_mem hai)
  have rb : (b[i]).length = t := hb.2 _ (List.getElem_mem hbi)
  simp [entry, addMat, addRow, List.getElem?_zipWith, List.getElem?_eq_getElem hai,
    List.getElem?_eq_getElem hbi,
    List.getElem?_eq_getElem (show j < (a[i]).length by omega),
    List.getElem?_eq_getElem (show j < (b[i]).length by omega)]

theorem zero_shaped {σ} [OfNat σ 0] (m t : Nat) :
    Shaped m t (List.replicate m (List.replicate t (0 : σ))) := by
  refine ⟨by simp, ?_⟩
  intro r hr
  rw [List.mem_replicate] at hr
  simp [hr.2]

theorem entry_zero {σ} [OfNat σ 0] (m t i j : Nat) :
    entry (List.replicate m (List.replicate t (0 : σ))) i j = 0 := by
  unfold entry
  by_cases hi : i < m
  · by_cases hj : j < t
    · simp [List.getElem?_replicate, hi, hj]
    · simp [List.getElem?_replicate, hi, hj]
  · simp [List.getElem?_replicate, hi]

theorem foldl_acc {σ} [AddMonoid σ] (m t : Nat) (zero : List (List σ)) (hz : Shaped m t zero)
    (hz0 : ∀ i j, entry zero i j = 0)
    (fes : List (List (List σ))) (hs : ∀ fe ∈ fes, Shaped m t fe)
    (acc : List (List σ)) (hacc : Shaped m t acc) :
    Shaped m t (fes.foldl (fun acc fe => addMat acc (addMat zero fe)) acc) ∧
    ∀ i j, i < m → j < t →
      entry (fes.foldl (fun acc fe => addMat acc (addMat zero fe)) acc) i j =
        entry acc i j + (fes.map (entry · i j)).sum := by
  induction fes generalizing acc with
  | nil => exact ⟨hacc, by intros; simp⟩
  | cons fe fes ih =>
    have hfe := hs fe (by simp)
    have h1 := addMat_shaped m t zero fe hz hfe
    have h2 := addMat_shaped m t acc _ hacc h1
    obtain ⟨s, e⟩ := ih (fun x hx => hs x (by simp [hx])) _ h2
    refine ⟨s, ?_⟩
    intro i j hi hj
    rw [List.foldl_cons, e i j hi hj, entry_addMat m t _ _ hacc h1 i j hi hj,
      entry_addMat m t _ _ hz hfe i j hi hj, hz0, zero_add, List.map_cons, List.sum_cons, add_assoc]


theorem mapM_except_error_mem {α β ε} (f : α → Except ε β) (l : List α) (e : ε)
    (h : l.mapM f = .error e) : ∃ a ∈ l, f a = .error e := by
  induction l with
  | nil => simp [List.mapM_nil, pure, Except.pure] at h
  | cons a l ih =>
    rw [List.mapM_cons] at h
    cases hfa : f a with
    | error e' =>
      rw [hfa] at h
      have : e' = e := by simpa [bind, Except.bind] using h
      exact ⟨a, by simp, this ▸ hfa⟩
    | ok b =>
      rw [hfa] at h
      cases hl : l.mapM f with
      | error e' =>
        rw [hl] at h
        have : e' = e := by simpa [bind, Except.bind] using h
        obtain ⟨x, hx, hfx⟩ := ih (this ▸ hl)
        exact ⟨x, by simp [hx], hfx⟩
      | ok bs =>
        rw [hl] at h
        simp [bind, Except.bind, pure, Except.pure] at h

theorem mapM_id_ok_map {α ε} (vs : List α) :
    (vs.map (Except.ok (ε := ε))).mapM id = .ok vs := by
  induction vs with
  | nil => rfl
  | cons v vs ih => simp only [List.map_cons, List.mapM_cons, ih, id]; rfl

theorem mapM_id_map {α β ε} (f : α → Except ε β) (l : List α) :
    (l.map f).mapM id = l.mapM f := by
  induction l with
  | nil => rfl
  | cons a l ih => simp only [List.map_cons, List.mapM_cons, ih, id]

theorem except_list_cases {ε μ} (l : List (Except ε μ)) :
    (∃ ms : List μ, l = ms.map .ok) ∨ (∃ (pre : List μ) (e : ε) (post : List (Except ε μ)), l = pre.map .ok ++ .error e :: post) := by
  induction l with
  | nil => exact .inl ⟨[], rfl⟩
  | cons a l ih =>
    cases a with
    | error e => exact .inr ⟨[], e, l, rfl⟩
    | ok m =>
      rcases ih with ⟨ms, rfl⟩ | ⟨pre, e, post, rfl⟩
      · exact .inl ⟨m :: ms, rfl⟩
      · exact .inr ⟨m :: pre, e, post, rfl⟩



theorem mapM_ok_map {α β ε} (f : α → Except ε β) (g : α → β) (l : List α)
    (h : ∀ a ∈ l, f a = .ok (g a)) : l.mapM f = .ok (l.map g) := by
  induction l with
  | nil => rfl
  | cons a l ih =>
    simp only [List.mapM_cons, h a (by simp), ih (fun x hx => h x (by simp [hx])), List.map_cons]
    rfl

theorem mapM_map' {α β γ ε} (h : α → β) (f : β → Except ε γ) (l : List α) :
    (l.map h).mapM f = l.mapM (fun x => f (h x)) := by
  induction l with
  | nil => rfl
  | cons a l ih => simp only [List.map_cons, List.mapM_cons, ih]

theorem eq_map_range_getD {α} (l : List α) (k : Nat) (d : α) (h : l.length = k) :
    l = (List.range k).map fun i => (l[i]?).getD d := by
  apply List.ext_getElem?
  intro i
  by_cases hi : i < k
  · simp [hi, List.getElem?_eq_getElem (h ▸ hi)]
  · simp [hi, List.getElem?_eq_none (by omega : l.length ≤ i)]


end LinfaSpec.Fold
