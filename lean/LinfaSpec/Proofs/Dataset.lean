import LinfaSpec.Model.Dataset

/-!
Helper lemmas for C02 (`LinfaSpec.Dataset`): contracts of `selRows`/`selCols`,
the alignment relation and its closure under composition.
-/
namespace LinfaSpec.Dataset
variable {R T W : Type}

/-! ### `select` -/

theorem selRows_cons {α} (i : Nat) (idx : List Nat) (xs : List α) :
    selRows (i :: idx) xs = (xs[i]?).bind fun x => (selRows idx xs).map (x :: ·) := by
  simp only [selRows, List.mapM_cons]
  cases xs[i]? <;> simp
  cases List.mapM (fun x => xs[x]?) idx <;> simp

/-- every selected element sits, in the source, at the index the index vector names -/
theorem selRows_get {α} {idx : List Nat} {xs ys : List α} (h : selRows idx xs = some ys) :
    ∀ (k : Nat) (y : α), ys[k]? = some y → ∃ i, idx[k]? = some i ∧ xs[i]? = some y := by
  induction idx generalizing ys with
  | nil =>
    simp [selRows] at h; subst h; intro k y hk; simp at hk
  | cons i idx ih =>
    rw [selRows_cons] at h
    cases hx : xs[i]? with
    | none => simp [hx] at h
    | some x =>
      cases hs : selRows idx xs with
      | none => simp [hx, hs] at h
      | some zs =>
        simp [hx, hs] at h; subst h
        intro k y hk
        cases k with
        | zero => simp at hk; subst hk; exact ⟨i, by simp, hx⟩
        | succ k => simp at hk; simpa using ih hs k y hk

theorem selRows_length {α} {idx : List Nat} {xs ys : List α} (h : selRows idx xs = some ys) :
    ys.length = idx.length := by
  induction idx generalizing ys with
  | nil => simp [selRows] at h; subst h; rfl
  | cons i idx ih =>
    rw [selRows_cons] at h
    cases hx : xs[i]? with
    | none => simp [hx] at h
    | some x =>
      cases hs : selRows idx xs with
      | none => simp [hx, hs] at h
      | some zs => simp [hx, hs] at h; subst h; simp [ih hs]

theorem selRows_filterMap {α} {idx : List Nat} {xs ys : List α} (h : selRows idx xs = some ys) :
    ys = idx.filterMap (xs[·]?) := by
  induction idx generalizing ys with
  | nil => simp [selRows] at h; subst h; rfl
  | cons i idx ih =>
    rw [selRows_cons] at h
    cases hx : xs[i]? with
    | none => simp [hx] at h
    | some x =>
      cases hs : selRows idx xs with
      | none => simp [hx, hs] at h
      | some zs => simp [hx, hs] at h; subst h; simp [hx, ih hs]

/-- `selCols`: row `k` of the result is row `k` of the source with the columns selected -/
theorem selCols_get {α} {cols : List Nat} {rows out : List (List α)} (h : selCols cols rows = some out) :
    ∀ (k : Nat) (r : List α), out[k]? = some r → ∃ r0, rows[k]? = some r0 ∧ selRows cols r0 = some r := by
  induction rows generalizing out with
  | nil => simp [selCols] at h; subst h; intro k r hk; simp at hk
  | cons r0 rows ih =>
    simp only [selCols, List.mapM_cons] at h
    cases hx : selRows cols r0 with
    | none => simp [hx] at h
    | some x =>
      cases hs : List.mapM (selRows cols) rows with
      | none => simp [hx, hs] at h
      | some zs =>
        simp [hx, hs] at h; subst h
        intro k r hk
        cases k with
        | zero => simp at hk; subst hk; exact ⟨r0, by simp, hx⟩
        | succ k => simp at hk; simpa using ih (out := zs) (by simpa [selCols] using hs) k r hk


/-! ### alignment -/

/-- `b` is aligned with `a` through the sample map `ρ`, the feature-column map `γ`, the
target-column map `τ` and the relabelling `f`:
row `k` of `b` has the record cells, the target cells (relabelled by `f`) and — if `b`
carries weights — the weight of sample `ρ k` of `a`; record column `j` of `b` is record
column `γ j` of `a` and — if `b` carries feature names — is named like it; target column
`j` of `b` is target column `τ j` of `a` and — if `b` carries target names — is named like it. -/
structure AlignedBy (ρ γ τ : Nat → Nat) (f : T → T) (a b : DS R T W) : Prop where
  recs : ∀ (k : Nat) (r : List R), b.recs[k]? = some r →
    ∃ r0, a.recs[ρ k]? = some r0 ∧ ∀ (j : Nat) (x : R), r[j]? = some x → r0[γ j]? = some x
  tgts : ∀ (k : Nat) (g : List T), b.tgts[k]? = some g →
    ∃ g0, a.tgts[ρ k]? = some g0 ∧ ∀ (j : Nat) (y : T), g[j]? = some y → ∃ y0, g0[τ j]? = some y0 ∧ y = f y0
  wts : ∀ (k : Nat) (w : W), b.weights[k]? = some w → a.weights[ρ k]? = some w
  fnm : ∀ (j : Nat) (nm : String), b.fnames[j]? = some nm → a.fnames[γ j]? = some nm
  tnm : ∀ (j : Nat) (nm : String), b.tnames[j]? = some nm → a.tnames[τ j]? = some nm

def Aligned (a b : DS R T W) : Prop := ∃ ρ γ τ f, AlignedBy ρ γ τ f a b

theorem AlignedBy.refl (a : DS R T W) : AlignedBy id id id id a a :=
  ⟨fun _ r h => ⟨r, h, fun _ _ hx => hx⟩, fun _ g h => ⟨g, h, fun _ y hy => ⟨y, hy, rfl⟩⟩,
   fun _ _ h => h, fun _ _ h => h, fun _ _ h => h⟩

theorem AlignedBy.trans {ρ₁ γ₁ τ₁ ρ₂ γ₂ τ₂ : Nat → Nat} {f₁ f₂ : T → T} {a b c : DS R T W}
    (h₁ : AlignedBy ρ₁ γ₁ τ₁ f₁ a b) (h₂ : AlignedBy ρ₂ γ₂ τ₂ f₂ b c) :
    AlignedBy (ρ₁ ∘ ρ₂) (γ₁ ∘ γ₂) (τ₁ ∘ τ₂) (f₂ ∘ f₁) a c := by
  refine ⟨?_, ?_, ?_, ?_, ?_⟩
  · intro k r hr
    obtain ⟨r1, hr1, hc1⟩ := h₂.recs k r hr
    obtain ⟨r0, hr0, hc0⟩ := h₁.recs (ρ₂ k) r1 hr1
    exact ⟨r0, hr0, fun j x hx => hc0 _ _ (hc1 j x hx)⟩
  · intro k g hg
    obtain ⟨g1, hg1, hc1⟩ := h₂.tgts k g hg
    obtain ⟨g0, hg0, hc0⟩ := h₁.tgts (ρ₂ k) g1 hg1
    refine ⟨g0, hg0, fun j y hy => ?_⟩
    obtain ⟨y1, hy1, e1⟩ := hc1 j y hy
    obtain ⟨y0, hy0, e0⟩ := hc0 _ y1 hy1
    exact ⟨y0, hy0, by simp [e1, e0]⟩
  · intro k w hw; exact h₁.wts _ _ (h₂.wts k w hw)
  · intro j nm h; exact h₁.fnm _ _ (h₂.fnm j nm h)
  · intro j nm h; exact h₁.tnm _ _ (h₂.tnm j nm h)

theorem Aligned.refl (a : DS R T W) : Aligned a a := ⟨id, id, id, id, AlignedBy.refl a⟩

theorem Aligned.trans {a b c : DS R T W} (h₁ : Aligned a b) (h₂ : Aligned b c) : Aligned a c := by
  obtain ⟨ρ₁, γ₁, τ₁, f₁, h₁⟩ := h₁
  obtain ⟨ρ₂, γ₂, τ₂, f₂, h₂⟩ := h₂
  exact ⟨_, _, _, _, h₁.trans h₂⟩

/-- generic constructor: rows selected by an index vector, everything else unchanged or dropped -/
theorem alignedBy_of_selRows [Inhabited Nat] {idx : List Nat} {a b : DS R T W}
    (hr : selRows idx a.recs = some b.recs) (ht : selRows idx a.tgts = some b.tgts)
    (hw : b.weights = [] ∨ selRows idx a.weights = some b.weights)
    (hf : b.fnames = [] ∨ b.fnames = a.fnames) (hn : b.tnames = [] ∨ b.tnames = a.tnames) :
    AlignedBy (fun k => idx.getD k 0) id id id a b := by
  refine ⟨?_, ?_, ?_, ?_, ?_⟩
  · intro k r h
    obtain ⟨i, hi, hx⟩ := selRows_get hr k r h
    exact ⟨r, by simpa [List.getD, hi] using hx, fun _ _ hx => hx⟩
  · intro k g h
    obtain ⟨i, hi, hx⟩ := selRows_get ht k g h
    exact ⟨g, by simpa [List.getD, hi] using hx, fun _ y hy => ⟨y, hy, rfl⟩⟩
  · intro k w h
    rcases hw with hw | hw
    · simp [hw] at h
    · obtain ⟨i, hi, hx⟩ := selRows_get hw k w h
      simpa [List.getD, hi] using hx
  · intro j nm h
    rcases hf with hf | hf
    · simp [hf] at h
    · simpa [hf] using h
  · intro j nm h
    rcases hn with hn | hn
    · simp [hn] at h
    · simpa [hn] using h


theorem mapM_get {α β} {f : α → Option β} {l : List α} {outs : List β} (h : l.mapM f = some outs) :
    ∀ (k : Nat) (d : β), outs[k]? = some d → ∃ x, l[k]? = some x ∧ f x = some d := by
  induction l generalizing outs with
  | nil => simp at h; subst h; intro k d hk; simp at hk
  | cons a l ih =>
    simp only [List.mapM_cons] at h
    cases hx : f a with
    | none => simp [hx] at h
    | some x =>
      cases hs : List.mapM f l with
      | none => simp [hx, hs] at h
      | some zs =>
        simp [hx, hs] at h; subst h
        intro k d hk
        cases k with
        | zero => simp at hk; subst hk; exact ⟨a, by simp, hx⟩
        | succ k => simp at hk; simpa using ih hs k d hk

theorem take_get {α} {l : List α} {n k : Nat} {x : α} (h : (l.take n)[k]? = some x) : l[k]? = some x := by
  rw [List.getElem?_take] at h
  split at h <;> simp_all

theorem mapM_length {α β} {f : α → Option β} {l : List α} {outs : List β} (h : l.mapM f = some outs) :
    outs.length = l.length := by
  induction l generalizing outs with
  | nil => simp at h; subst h; rfl
  | cons a l ih =>
    simp only [List.mapM_cons] at h
    cases hx : f a with
    | none => simp [hx] at h
    | some x =>
      cases hs : List.mapM f l with
      | none => simp [hx, hs] at h
      | some zs => simp [hx, hs] at h; subst h; simp [ih hs]

theorem range_filterMap_get {α} (xs : List α) : (List.range xs.length).filterMap (xs[·]?) = xs := by
  induction xs with
  | nil => rfl
  | cons x xs ih =>
    rw [List.length_cons, List.range_succ_eq_map, List.filterMap_cons]
    simp [List.filterMap_map, Function.comp_def, ih]

/-! ### one lemma per operation -/

theorem shuffle_alignedBy [DecidableEq T] {idx : List Nat} {ds d : DS R T W}
    (h : shuffle idx ds = some d) : AlignedBy (fun k => idx.getD k 0) id id id ds d := by
  unfold shuffle at h
  cases hr : selRows idx ds.recs with
  | none => simp [hr] at h
  | some r =>
    cases hg : selRows idx ds.tgts with
    | none => simp [hr, hg] at h
    | some g =>
      simp [hr, hg] at h; subst h
      exact alignedBy_of_selRows hr hg (Or.inl rfl) (Or.inr rfl) (Or.inr rfl)

theorem bootstrapSamples_alignedBy [DecidableEq T] {ns : Nat} {idx : List Nat} {ds d : DS R T W}
    (h : bootstrapSamples ns idx ds = some d) : AlignedBy (fun k => idx.getD k 0) id id id ds d := by
  unfold bootstrapSamples at h
  split at h
  · simp at h
  · cases hr : selRows idx ds.recs with
    | none => simp [hr] at h
    | some r =>
      cases hg : selRows idx ds.tgts with
      | none => simp [hr, hg] at h
      | some g =>
        simp [hr, hg] at h; subst h
        exact alignedBy_of_selRows hr hg (Or.inl rfl) (Or.inl rfl) (Or.inl rfl)

theorem bootstrapFeatures_alignedBy [DecidableEq T] {nf : Nat} {fidx : List Nat} {ds d : DS R T W}
    (h : bootstrapFeatures nf fidx ds = some d) : AlignedBy id (fun j => fidx.getD j 0) id id ds d := by
  unfold bootstrapFeatures at h
  split at h
  · simp at h
  · cases hr : selCols fidx ds.recs with
    | none => simp [hr] at h
    | some r =>
      simp [hr] at h; subst h
      refine ⟨?_, fun _ g hg => ⟨g, hg, fun _ y hy => ⟨y, hy, rfl⟩⟩, ?_, ?_, ?_⟩
      · intro k row hk
        obtain ⟨r0, h0, hs⟩ := selCols_get hr k row hk
        refine ⟨r0, h0, fun j x hx => ?_⟩
        obtain ⟨c, hc, hx0⟩ := selRows_get hs j x hx
        simpa [List.getD, hc] using hx0
      · intro k w hw; simp at hw
      · intro j nm hj; simp at hj
      · intro j nm hj; simp at hj

theorem splitView_alignedBy [DecidableEq T] {n1 : Nat} {ds a b : DS R T W}
    (h : splitView n1 ds = some (a, b)) :
    AlignedBy id id id id ds a ∧ AlignedBy (fun k => n1 + k) id id id ds b := by
  unfold splitView at h
  split at h
  · simp at h
  · simp only [Option.some.injEq, Prod.mk.injEq] at h
    obtain ⟨ha, hb⟩ := h
    subst ha; subst hb
    constructor
    · refine ⟨fun k r hk => ⟨r, take_get hk, fun _ _ hx => hx⟩,
        fun k g hk => ⟨g, take_get hk, fun _ y hy => ⟨y, hy, rfl⟩⟩, ?_, fun _ _ hj => hj, fun _ _ hj => hj⟩
      intro k w hw
      dsimp only at hw
      split at hw
      · exact take_get hw
      · simp at hw
    · refine ⟨fun k r hk => ⟨r, by simpa [List.getElem?_drop] using hk, fun _ _ hx => hx⟩,
        fun k g hk => ⟨g, by simpa [List.getElem?_drop] using hk, fun _ y hy => ⟨y, hy, rfl⟩⟩, ?_,
        fun _ _ hj => hj, fun _ _ hj => hj⟩
      intro k w hw
      dsimp only at hw
      split at hw
      · simpa [List.getElem?_drop] using hw
      · simp at hw

theorem withLabels_alignedBy [DecidableEq T] {labs : List T} {ds d : DS R T W}
    (h : withLabels labs ds = some d) :
    AlignedBy (fun k => (keptIdx labs (ds.tgts.take ds.n)).getD k 0) id id id ds d := by
  unfold withLabels at h
  simp only at h
  cases hr : selRows (keptIdx labs (ds.tgts.take ds.n)) ds.recs with
  | none => simp [hr] at h
  | some r =>
    cases hg : selRows (keptIdx labs (ds.tgts.take ds.n)) ds.tgts with
    | none => simp [hr, hg] at h
    | some g =>
      by_cases hw : ds.weights.isEmpty = true
      · simp [hr, hg, hw] at h; subst h
        exact alignedBy_of_selRows hr hg (Or.inl rfl) (Or.inr rfl) (Or.inr rfl)
      · cases hws : selRows (keptIdx labs (ds.tgts.take ds.n)) ds.weights with
        | none => simp [hr, hg, hw, hws] at h
        | some w =>
          simp [hr, hg, hw, hws] at h; subst h
          exact alignedBy_of_selRows hr hg (Or.inr hws) (Or.inr rfl) (Or.inr rfl)

theorem mapTargets_alignedBy (f : T → T) (ds : DS R T W) :
    AlignedBy id id id f ds (mapTargets f ds) := by
  refine ⟨fun _ r h => ⟨r, h, fun _ _ hx => hx⟩, ?_, fun _ _ h => h, fun _ _ h => h, fun _ _ h => h⟩
  intro k g hg
  simp only [mapTargets, List.getElem?_map, Option.map_eq_some_iff] at hg
  obtain ⟨g0, h0, e⟩ := hg
  refine ⟨g0, h0, fun j y hy => ?_⟩
  subst e
  simp only [List.getElem?_map, Option.map_eq_some_iff] at hy
  obtain ⟨y0, hy0, e⟩ := hy
  exact ⟨y0, hy0, e.symm⟩

theorem view_alignedBy [DecidableEq T] (ds : DS R T W) : AlignedBy id id id id ds (view ds) :=
  ⟨fun _ r h => ⟨r, h, fun _ _ hx => hx⟩, fun _ g h => ⟨g, h, fun _ y hy => ⟨y, hy, rfl⟩⟩,
   fun _ _ h => h, fun _ _ h => h, fun _ _ h => h⟩

theorem toOwned_alignedBy [DecidableEq T] (ds : DS R T W) : AlignedBy id id id id ds (toOwned ds) :=
  ⟨fun _ r h => ⟨r, h, fun _ _ hx => hx⟩, fun _ g h => ⟨g, h, fun _ y hy => ⟨y, hy, rfl⟩⟩,
   fun _ _ h => by simp [toOwned] at h, fun _ _ h => by simp [toOwned] at h, fun _ _ h => by simp [toOwned] at h⟩


theorem bootstrap_aligned [DecidableEq T] {ns nf : Nat} {idx fidx : List Nat} {ds d : DS R T W}
    (h : bootstrap ns nf idx fidx ds = some d) : Aligned ds d := by
  unfold bootstrap at h
  cases hs : bootstrapSamples ns idx ds with
  | none => simp [hs] at h
  | some d1 =>
    simp [hs] at h
    exact ⟨_, _, _, _, (bootstrapSamples_alignedBy hs).trans (bootstrapFeatures_alignedBy h)⟩

/-- a one-column selection: cell `j'` of the result (there is only `j' = 0`) is cell `j` of the source -/
theorem colOf_get {α} {j : Nat} {rows out : List (List α)} (h : colOf j rows = some out) :
    ∀ (k : Nat) (r : List α), out[k]? = some r →
      ∃ r0, rows[k]? = some r0 ∧ ∀ (j' : Nat) (x : α), r[j']? = some x → r0[j]? = some x := by
  intro k r hk
  obtain ⟨r0, h0, hs⟩ := selCols_get h k r hk
  refine ⟨r0, h0, fun j' x hx => ?_⟩
  obtain ⟨c, hc, hx0⟩ := selRows_get hs j' x hx
  cases j' with
  | zero => simp at hc; subst hc; exact hx0
  | succ n => simp at hc

theorem featureIter_alignedBy {ds : DS R T W} {outs : List (DS R T W)} (h : featureIter ds = some outs)
    (j : Nat) (d : DS R T W) (hd : outs[j]? = some d) : AlignedBy id (fun _ => j) id id ds d := by
  obtain ⟨x, hx, hf⟩ := mapM_get h j d hd
  have hxj : x = j := by
    obtain ⟨_, e⟩ := List.getElem?_eq_some_iff.mp hx
    simpa using e.symm
  subst hxj
  cases hc : colOf x ds.recs with
  | none => simp [hc] at hf
  | some r =>
    by_cases h1 : ds.fnames.length = 1
    · cases hn : ds.fnames[x]? with
      | none => simp [hc, h1, hn] at hf
      | some nm0 =>
        simp [hc, h1, hn] at hf; subst hf
        refine ⟨colOf_get hc, fun _ g hg => ⟨g, hg, fun _ y hy => ⟨y, hy, rfl⟩⟩, fun _ _ hw => hw, ?_, fun _ _ hj => hj⟩
        intro j' nm hj
        cases j' with
        | zero => simp at hj; subst hj; exact hn
        | succ n => simp at hj
    · simp [hc, h1] at hf; subst hf
      exact ⟨colOf_get hc, fun _ g hg => ⟨g, hg, fun _ y hy => ⟨y, hy, rfl⟩⟩, fun _ _ hw => hw,
        fun _ _ hj => by simp at hj, fun _ _ hj => hj⟩


theorem range_get {n k x : Nat} (h : (List.range n)[k]? = some x) : x = k ∧ k < n := by
  obtain ⟨hlt, e⟩ := List.getElem?_eq_some_iff.mp h
  exact ⟨by simpa using e.symm, by simpa using hlt⟩

theorem targetIter_alignedBy {ds : DS R T W} {outs : List (DS R T W)} (h : targetIter ds = some outs)
    (c : Nat) (d : DS R T W) (hd : outs[c]? = some d) : AlignedBy id id (fun _ => c) id ds d := by
  obtain ⟨x, hx, hf⟩ := mapM_get h c d hd
  obtain ⟨hxc, _⟩ := range_get hx
  subst hxc
  cases hc : colOf x ds.tgts with
  | none => simp [hc] at hf
  | some g =>
    have htg : ∀ (k : Nat) (row : List T), g[k]? = some row →
        ∃ g0, ds.tgts[k]? = some g0 ∧ ∀ (j : Nat) (y : T), row[j]? = some y → ∃ y0, g0[x]? = some y0 ∧ y = id y0 := by
      intro k row hk
      obtain ⟨g0, h0, hcell⟩ := colOf_get hc k row hk
      exact ⟨g0, h0, fun j y hy => ⟨y, hcell j y hy, rfl⟩⟩
    by_cases h1 : ds.tnames.isEmpty = true
    · simp [hc, h1] at hf; subst hf
      exact ⟨fun _ r hr => ⟨r, hr, fun _ _ hx => hx⟩, htg, fun _ _ hw => hw, fun _ _ hj => hj,
        fun _ _ hj => by simp at hj⟩
    · cases hn : ds.tnames[x]? with
      | none => simp [hc, h1, hn] at hf
      | some nm0 =>
        simp [hc, h1, hn] at hf; subst hf
        refine ⟨fun _ r hr => ⟨r, hr, fun _ _ hx => hx⟩, htg, fun _ _ hw => hw, fun _ _ hj => hj, ?_⟩
        intro j' nm hj
        cases j' with
        | zero => simp at hj; subst hj; exact hn
        | succ n => simp at hj

theorem sampleChunks_alignedBy [DecidableEq T] {size : Nat} {ds : DS R T W} {outs : List (DS R T W)}
    (h : sampleChunks size ds = some outs) (i : Nat) (d : DS R T W) (hd : outs[i]? = some d) :
    AlignedBy (fun k => i * size + k) id id id ds d := by
  unfold sampleChunks at h
  split at h
  · simp at h
  · simp only [Option.some.injEq] at h
    subst h
    simp only [List.getElem?_map, Option.map_eq_some_iff] at hd
    obtain ⟨x, hx, e⟩ := hd
    obtain ⟨hxi, _⟩ := range_get hx
    subst hxi; subst e
    refine ⟨fun k r hk => ⟨r, ?_, fun _ _ hx => hx⟩, fun k g hk => ⟨g, ?_, fun _ y hy => ⟨y, hy, rfl⟩⟩,
      fun _ _ hw => by simp at hw, fun _ _ hj => by simp at hj, fun _ _ hj => by simp at hj⟩
    · simpa [List.getElem?_drop] using take_get hk
    · simpa [List.getElem?_drop] using take_get hk

/-- one-vs-all, with the boolean labels embedded back into the label carrier -/
theorem oneVsAll_alignedBy [DecidableEq T] (ofBool : Bool → T) (ds : DS R T W) (l : T) (d : DS R Bool W)
    (hd : (l, d) ∈ oneVsAll ds) (cs : Option (List (List (T × Nat)))) :
    AlignedBy id id id (fun x => ofBool (decide (x = l))) ds { mapTargets ofBool d with counts := cs } := by
  simp only [oneVsAll, List.mem_map] at hd
  obtain ⟨l', _, e⟩ := hd
  simp only [Prod.mk.injEq] at e
  obtain ⟨e1, e2⟩ := e
  subst e1; subst e2
  refine ⟨fun _ r h => ⟨r, h, fun _ _ hx => hx⟩, ?_, fun _ _ h => h, fun _ _ h => h, fun _ _ h => h⟩
  intro k g hg
  simp only [mapTargets, List.getElem?_map, Option.map_eq_some_iff] at hg
  obtain ⟨g1, ⟨g0, h0, e0⟩, e⟩ := hg
  refine ⟨g0, h0, fun j y hy => ?_⟩
  subst e; subst e0
  simp only [List.getElem?_map, Option.map_eq_some_iff] at hy
  obtain ⟨b, ⟨y0, hy0, eb⟩, e⟩ := hy
  exact ⟨y0, hy0, by rw [← e, ← eb]⟩


/-! ### raw-buffer operations (owned split, `into_single_target`): need the matrix shape -/

/-- in the row-major buffer of an `n × p` matrix, cells `[k*p, (k+1)*p)` are row `k` -/
theorem flatten_block {α} {p : Nat} : ∀ (rows : List (List α)) (k : Nat), (∀ r ∈ rows, r.length = p) →
    ∀ r, rows[k]? = some r → (rows.flatten.drop (k * p)).take p = r := by
  intro rows
  induction rows with
  | nil => intro k _ r h; simp at h
  | cons r0 rows ih =>
    intro k hwf r h
    have h0 : r0.length = p := hwf r0 (by simp)
    cases k with
    | zero =>
      simp at h; subst h
      simp [h0]
    | succ k =>
      simp at h
      have := ih k (fun r hr => hwf r (by simp [hr])) r h
      rw [← this]
      have e : (k + 1) * p = r0.length + k * p := by rw [Nat.succ_mul, h0]; omega
      rw [List.flatten_cons, e, List.drop_append]
      have e1 : List.drop (r0.length + k * p) r0 = [] := List.drop_eq_nil_of_le (by omega)
      have e2 : r0.length + k * p - r0.length = k * p := by omega
      rw [e1, e2, List.nil_append]

theorem reshape_get {α} {n p : Nat} {buf : List α} {k : Nat} {r : List α}
    (h : (reshape n p buf)[k]? = some r) : k < n ∧ r = (buf.drop (k * p)).take p := by
  simp only [reshape, List.getElem?_map, Option.map_eq_some_iff] at h
  obtain ⟨x, hx, e⟩ := h
  obtain ⟨hxk, hlt⟩ := range_get hx
  subst hxk
  exact ⟨hlt, e.symm⟩

/-- first part of a raw-buffer split: row `k` of the reshaped prefix is row `k` of the matrix -/
theorem reshape_take_get {α} {p n1 : Nat} {rows : List (List α)} (hwf : ∀ r ∈ rows, r.length = p)
    (hn : n1 ≤ rows.length) {k : Nat} {r : List α}
    (h : (reshape n1 p (rows.flatten.take (n1 * p)))[k]? = some r) : rows[k]? = some r := by
  obtain ⟨hk, e⟩ := reshape_get h
  have hlt : k < rows.length := by omega
  have hb := flatten_block rows k hwf rows[k] (by simp [hlt])
  rw [e, List.drop_take, List.take_take]
  have h1 : (k + 1) * p ≤ n1 * p := Nat.mul_le_mul_right p hk
  rw [Nat.succ_mul] at h1
  have : min p (n1 * p - k * p) = p := by omega
  rw [this, hb]
  simp [hlt]

theorem reshape_drop_get {α} {p n1 n2 : Nat} {rows : List (List α)} (hwf : ∀ r ∈ rows, r.length = p)
    (hn : n1 + n2 = rows.length) {k : Nat} {r : List α}
    (h : (reshape n2 p (rows.flatten.drop (n1 * p)))[k]? = some r) : rows[n1 + k]? = some r := by
  obtain ⟨hk, e⟩ := reshape_get h
  have hlt : n1 + k < rows.length := by omega
  have hb := flatten_block rows (n1 + k) hwf rows[n1 + k] (by simp [hlt])
  rw [e, List.drop_drop, ← Nat.add_mul, hb]
  simp [hlt]

theorem splitOwned_alignedBy {std : Bool} {n1 : Nat} {ds a b : DS R T W}
    (hr : ∀ r ∈ ds.recs, r.length = ds.p) (ht : ∀ g ∈ ds.tgts, g.length = ds.t)
    (hlen : ds.tgts.length = ds.recs.length)
    (h : splitOwned std n1 ds = some (a, b)) :
    AlignedBy id id id id ds a ∧ AlignedBy (fun k => n1 + k) id id id ds b := by
  unfold splitOwned at h
  split at h
  · simp at h
  split at h
  · simp at h
  · rename_i hn
    simp only [Option.some.injEq, Prod.mk.injEq] at h
    obtain ⟨ha, hb⟩ := h
    subst ha; subst hb
    have hn1 : n1 ≤ ds.recs.length := by simp [DS.n] at hn; omega
    have hn2 : n1 + (ds.n - n1) = ds.recs.length := by simp [DS.n] at hn ⊢; omega
    constructor
    · refine ⟨fun k r hk => ⟨r, reshape_take_get hr hn1 hk, fun _ _ hx => hx⟩,
        fun k g hk => ⟨g, reshape_take_get ht (by omega) hk, fun _ y hy => ⟨y, hy, rfl⟩⟩, ?_,
        fun _ _ hj => hj, fun _ _ hj => hj⟩
      intro k w hw
      dsimp only at hw
      split at hw
      · exact take_get hw
      · exact hw
    · refine ⟨fun k r hk => ⟨r, reshape_drop_get hr hn2 hk, fun _ _ hx => hx⟩,
        fun k g hk => ⟨g, reshape_drop_get ht (by omega) hk, fun _ y hy => ⟨y, hy, rfl⟩⟩, ?_,
        fun _ _ hj => hj, fun _ _ hj => hj⟩
      intro k w hw
      dsimp only at hw
      split at hw
      · simpa [List.getElem?_drop] using hw
      · simp at hw

theorem flatten_singletons {α} : ∀ (rows : List (List α)), (∀ g ∈ rows, g.length = 1) →
    rows.flatten.map ([·]) = rows := by
  intro rows
  induction rows with
  | nil => intro _; rfl
  | cons g rows ih =>
    intro h
    have hg : g.length = 1 := h g (by simp)
    match g, hg with
    | [x], _ => simp [ih (fun g hg => h g (by simp [hg]))]

theorem intoSingleTarget_alignedBy {ds d : DS R T W} (ht : ∀ g ∈ ds.tgts, g.length = 1)
    (h : intoSingleTarget ds = some d) : AlignedBy id id id id ds d := by
  unfold intoSingleTarget at h
  simp only at h
  split at h
  · simp only [Option.some.injEq] at h
    subst h
    refine ⟨fun _ r h => ⟨r, h, fun _ _ hx => hx⟩, ?_, fun _ _ hw => by simp at hw,
      fun _ _ hj => by simp at hj, fun _ _ hj => by simp at hj⟩
    intro k g hg
    simp only [flatten_singletons ds.tgts ht] at hg
    exact ⟨g, hg, fun _ y hy => ⟨y, hy, rfl⟩⟩
  · simp at h


/-! ### the matrix shape (what an `ndarray` dataset is) is an invariant of every operation -/

/-- what an `ndarray` matrix is: every record row has `p` cells, every target row `t`,
and there is one target row per record row -/
def Shaped (ds : DS R T W) : Prop :=
  (∀ r ∈ ds.recs, r.length = ds.p) ∧ (∀ g ∈ ds.tgts, g.length = ds.t) ∧ ds.tgts.length = ds.recs.length

/-- a dataset as the constructors of `DatasetBase` make it: matrix shape, one weight per sample
or none, one name per column or none -/
structure WF (ds : DS R T W) : Prop where
  shaped : Shaped ds
  wts : ds.weights = [] ∨ ds.weights.length = ds.recs.length
  fnm : ds.fnames = [] ∨ ds.fnames.length = ds.p
  tnm : ds.tnames = [] ∨ ds.tnames.length = ds.t

theorem selRows_mem {α} {idx : List Nat} {xs ys : List α} (h : selRows idx xs = some ys) :
    ∀ y ∈ ys, y ∈ xs := by
  intro y hy
  obtain ⟨k, hk⟩ := List.getElem?_of_mem hy
  obtain ⟨i, _, hx⟩ := selRows_get h k y hk
  exact List.mem_of_getElem? hx

theorem selCols_rows {α} {cols : List Nat} {rows out : List (List α)} (h : selCols cols rows = some out) :
    out.length = rows.length ∧ ∀ r ∈ out, r.length = cols.length := by
  refine ⟨mapM_length h, fun r hr => ?_⟩
  obtain ⟨k, hk⟩ := List.getElem?_of_mem hr
  obtain ⟨r0, _, hs⟩ := selCols_get h k r hk
  exact selRows_length hs

theorem flatten_length_shaped {α} {p : Nat} : ∀ (rows : List (List α)), (∀ r ∈ rows, r.length = p) →
    rows.flatten.length = rows.length * p := by
  intro rows
  induction rows with
  | nil => intro _; simp
  | cons r rows ih =>
    intro h
    have h0 : r.length = p := h r (by simp)
    have := ih (fun r hr => h r (by simp [hr]))
    simp [h0, this, Nat.succ_mul]
    omega

theorem reshape_shape {α} {n p : Nat} {buf : List α} (hb : n * p ≤ buf.length) :
    (reshape n p buf).length = n ∧ ∀ r ∈ reshape n p buf, r.length = p := by
  refine ⟨by simp [reshape], fun r hr => ?_⟩
  simp only [reshape, List.mem_map, List.mem_range] at hr
  obtain ⟨i, hi, e⟩ := hr
  subst e
  have : (i + 1) * p ≤ n * p := Nat.mul_le_mul_right p hi
  rw [Nat.succ_mul] at this
  simp
  omega

theorem shaped_of {p t : Nat} {recs : List (List R)} {tgts : List (List T)} {d : DS R T W}
    (hp : d.p = p) (ht : d.t = t) (hr : d.recs = recs) (hg : d.tgts = tgts)
    (h1 : ∀ r ∈ recs, r.length = p) (h2 : ∀ g ∈ tgts, g.length = t) (h3 : tgts.length = recs.length) :
    Shaped d := by
  subst hp; subst ht; subst hr; subst hg
  exact ⟨h1, h2, h3⟩

/-! ### every operation preserves `WF` -/


theorem take_mem {α} {l : List α} {n : Nat} : ∀ x ∈ l.take n, x ∈ l := fun _ h => List.mem_of_mem_take h
theorem drop_mem {α} {l : List α} {n : Nat} : ∀ x ∈ l.drop n, x ∈ l := fun _ h => List.mem_of_mem_drop h

theorem splitView_wf [DecidableEq T] {n1 : Nat} {ds a b : DS R T W} (hw : WF ds)
    (h : splitView n1 ds = some (a, b)) : WF a ∧ WF b := by
  obtain ⟨⟨h1, h2, h3⟩, hwt, hf, ht⟩ := hw
  unfold splitView at h
  split at h
  · simp at h
  · rename_i hn
    simp only [Option.some.injEq, Prod.mk.injEq] at h
    obtain ⟨ha, hb⟩ := h
    subst ha; subst hb
    simp only [DS.n] at hn ⊢
    constructor
    · refine ⟨⟨fun r hr => h1 r (take_mem r hr), fun g hg => h2 g (take_mem g hg), by simp [h3]⟩, ?_, hf, ht⟩
      by_cases hl : ds.weights.length = ds.recs.length
      · right; simp [hl]
      · left; simp [hl]
    · refine ⟨⟨fun r hr => h1 r (drop_mem r hr), fun g hg => h2 g (drop_mem g hg), by simp [h3]⟩, ?_, hf, ht⟩
      by_cases hl : ds.weights.length = ds.recs.length
      · right; simp [hl]
      · left; simp [hl]

theorem splitOwned_wf {std : Bool} {n1 : Nat} {ds a b : DS R T W} (hw : WF ds)
    (h : splitOwned std n1 ds = some (a, b)) : WF a ∧ WF b := by
  obtain ⟨⟨h1, h2, h3⟩, hwt, hf, ht⟩ := hw
  unfold splitOwned at h
  split at h
  · simp at h
  split at h
  · simp at h
  · rename_i hn
    simp only [Option.some.injEq, Prod.mk.injEq] at h
    obtain ⟨ha, hb⟩ := h
    subst ha; subst hb
    simp only [DS.n] at hn ⊢
    have hn1 : n1 ≤ ds.recs.length := by omega
    have hrl := flatten_length_shaped ds.recs h1
    have htl := flatten_length_shaped ds.tgts h2
    have m1 : n1 * ds.p ≤ ds.recs.length * ds.p := Nat.mul_le_mul_right _ hn1
    have m2 : n1 * ds.t ≤ ds.tgts.length * ds.t := Nat.mul_le_mul_right _ (by omega)
    have e1 : (ds.recs.length - n1) * ds.p = ds.recs.length * ds.p - n1 * ds.p := Nat.sub_mul ..
    have e2 : (ds.recs.length - n1) * ds.t = ds.tgts.length * ds.t - n1 * ds.t := by rw [h3]; exact Nat.sub_mul ..
    have ra := reshape_shape (n := n1) (p := ds.p) (buf := ds.recs.flatten.take (n1 * ds.p)) (by rw [List.length_take, hrl]; omega)
    have ta := reshape_shape (n := n1) (p := ds.t) (buf := ds.tgts.flatten.take (n1 * ds.t)) (by rw [List.length_take, htl]; omega)
    have rb := reshape_shape (n := ds.recs.length - n1) (p := ds.p) (buf := ds.recs.flatten.drop (n1 * ds.p)) (by rw [List.length_drop, hrl]; omega)
    have tb := reshape_shape (n := ds.recs.length - n1) (p := ds.t) (buf := ds.tgts.flatten.drop (n1 * ds.t)) (by rw [List.length_drop, htl]; omega)
    constructor
    · refine ⟨⟨ra.2, ta.2, by rw [ra.1, ta.1]⟩, ?_, hf, ht⟩
      dsimp only
      rw [ra.1]
      by_cases hl : ds.weights.length = n1 + (ds.recs.length - n1)
      · right; simp [hl]
      · rcases hwt with hwt | hwt
        · left; simp [hwt]
        · exfalso; omega
    · refine ⟨⟨rb.2, tb.2, by rw [rb.1, tb.1]⟩, ?_, hf, ht⟩
      dsimp only
      rw [rb.1]
      by_cases hl : ds.weights.length = n1 + (ds.recs.length - n1)
      · right; simp [hl]
      · left; simp [hl]


theorem wf_of_selRows [DecidableEq T] {idx : List Nat} {ds : DS R T W} {r : List (List R)} {g : List (List T)}
    (hw : WF ds) (hr : selRows idx ds.recs = some r) (hg : selRows idx ds.tgts = some g)
    {d : DS R T W} (hp : d.p = ds.p) (ht : d.t = ds.t) (er : d.recs = r) (eg : d.tgts = g)
    (ew : d.weights = [] ∨ selRows idx ds.weights = some d.weights)
    (ef : d.fnames = [] ∨ d.fnames = ds.fnames) (et : d.tnames = [] ∨ d.tnames = ds.tnames) : WF d := by
  obtain ⟨⟨h1, h2, h3⟩, hwt, hf, htn⟩ := hw
  refine ⟨shaped_of hp ht er eg (fun x hx => h1 x (selRows_mem hr x hx)) (fun x hx => h2 x (selRows_mem hg x hx))
    (by rw [selRows_length hr, selRows_length hg]), ?_, ?_, ?_⟩
  · rcases ew with ew | ew
    · left; exact ew
    · right; rw [selRows_length ew, er, selRows_length hr]
  · rcases ef with ef | ef
    · left; exact ef
    · rw [ef, hp]; exact hf
  · rcases et with et | et
    · left; exact et
    · rw [et, ht]; exact htn

theorem shuffle_wf [DecidableEq T] {idx : List Nat} {ds d : DS R T W} (hw : WF ds)
    (h : shuffle idx ds = some d) : WF d := by
  unfold shuffle at h
  cases hr : selRows idx ds.recs with
  | none => simp [hr] at h
  | some r =>
    cases hg : selRows idx ds.tgts with
    | none => simp [hr, hg] at h
    | some g =>
      simp [hr, hg] at h; subst h
      exact wf_of_selRows hw hr hg rfl rfl rfl rfl (Or.inl rfl) (Or.inr rfl) (Or.inr rfl)

theorem bootstrapSamples_wf [DecidableEq T] {ns : Nat} {idx : List Nat} {ds d : DS R T W} (hw : WF ds)
    (h : bootstrapSamples ns idx ds = some d) : WF d := by
  unfold bootstrapSamples at h
  split at h
  · simp at h
  · cases hr : selRows idx ds.recs with
    | none => simp [hr] at h
    | some r =>
      cases hg : selRows idx ds.tgts with
      | none => simp [hr, hg] at h
      | some g =>
        simp [hr, hg] at h; subst h
        exact wf_of_selRows hw hr hg rfl rfl rfl rfl (Or.inl rfl) (Or.inl rfl) (Or.inl rfl)

theorem bootstrapFeatures_wf [DecidableEq T] {nf : Nat} {fidx : List Nat} {ds d : DS R T W} (hw : WF ds)
    (h : bootstrapFeatures nf fidx ds = some d) : WF d := by
  obtain ⟨⟨h1, h2, h3⟩, hwt, hf, htn⟩ := hw
  unfold bootstrapFeatures at h
  split at h
  · simp at h
  · cases hr : selCols fidx ds.recs with
    | none => simp [hr] at h
    | some r =>
      simp [hr] at h; subst h
      obtain ⟨hl, hrow⟩ := selCols_rows hr
      exact ⟨⟨hrow, h2, by simp [hl, h3]⟩, Or.inl rfl, Or.inl rfl, Or.inl rfl⟩

theorem bootstrap_wf [DecidableEq T] {ns nf : Nat} {idx fidx : List Nat} {ds d : DS R T W} (hw : WF ds)
    (h : bootstrap ns nf idx fidx ds = some d) : WF d := by
  unfold bootstrap at h
  cases hs : bootstrapSamples ns idx ds with
  | none => simp [hs] at h
  | some d1 =>
    simp [hs] at h
    exact bootstrapFeatures_wf (bootstrapSamples_wf hw hs) h

theorem withLabels_wf [DecidableEq T] {labs : List T} {ds d : DS R T W} (hw : WF ds)
    (h : withLabels labs ds = some d) : WF d := by
  unfold withLabels at h
  simp only at h
  cases hr : selRows (keptIdx labs (ds.tgts.take ds.n)) ds.recs with
  | none => simp [hr] at h
  | some r =>
    cases hg : selRows (keptIdx labs (ds.tgts.take ds.n)) ds.tgts with
    | none => simp [hr, hg] at h
    | some g =>
      by_cases hwe : ds.weights.isEmpty = true
      · simp [hr, hg, hwe] at h; subst h
        exact wf_of_selRows hw hr hg rfl rfl rfl rfl (Or.inl rfl) (Or.inr rfl) (Or.inr rfl)
      · cases hws : selRows (keptIdx labs (ds.tgts.take ds.n)) ds.weights with
        | none => simp [hr, hg, hwe, hws] at h
        | some w =>
          simp [hr, hg, hwe, hws] at h; subst h
          exact wf_of_selRows hw hr hg rfl rfl rfl rfl (Or.inr hws) (Or.inr rfl) (Or.inr rfl)

theorem map_rows_length {α β} (f : α → β) {rows : List (List α)} {t : Nat} (h : ∀ g ∈ rows, g.length = t) :
    ∀ g ∈ rows.map (·.map f), g.length = t := by
  intro g hg
  simp only [List.mem_map] at hg
  obtain ⟨g0, h0, e⟩ := hg
  subst e
  simpa using h g0 h0

theorem mapTargets_wf {S} (f : T → S) {ds : DS R T W} (hw : WF ds) : WF (mapTargets f ds) := by
  obtain ⟨⟨h1, h2, h3⟩, hwt, hf, htn⟩ := hw
  exact ⟨⟨h1, map_rows_length f h2, by simp [mapTargets, h3]⟩, hwt, hf, htn⟩

theorem oneVsAll_wf [DecidableEq T] {ds : DS R T W} (hw : WF ds) (l : T) (d : DS R Bool W)
    (hd : (l, d) ∈ oneVsAll ds) : WF d := by
  obtain ⟨⟨h1, h2, h3⟩, hwt, hf, htn⟩ := hw
  simp only [oneVsAll, List.mem_map] at hd
  obtain ⟨l', _, e⟩ := hd
  simp only [Prod.mk.injEq] at e
  obtain ⟨e1, e2⟩ := e
  subst e1; subst e2
  exact ⟨⟨h1, map_rows_length _ h2, by simp [h3]⟩, hwt, hf, htn⟩

theorem view_wf [DecidableEq T] {ds : DS R T W} (hw : WF ds) : WF (view ds) :=
  ⟨hw.shaped, hw.wts, hw.fnm, hw.tnm⟩

theorem toOwned_wf [DecidableEq T] {ds : DS R T W} (hw : WF ds) : WF (toOwned ds) :=
  ⟨hw.shaped, Or.inl rfl, Or.inl rfl, Or.inl rfl⟩

theorem intoSingleTarget_wf {ds d : DS R T W} (hw : WF ds) (h : intoSingleTarget ds = some d) : WF d := by
  obtain ⟨⟨h1, h2, h3⟩, hwt, hf, htn⟩ := hw
  unfold intoSingleTarget at h
  simp only at h
  split at h
  · rename_i hl
    simp only [Option.some.injEq] at h
    subst h
    refine ⟨⟨h1, ?_, by rw [List.length_map]; exact hl⟩, Or.inl rfl, Or.inl rfl, Or.inl rfl⟩
    intro g hg
    simp only [List.mem_map] at hg
    obtain ⟨x, _, e⟩ := hg
    subst e; rfl
  · simp at h

theorem colOf_rows {α} {j : Nat} {rows out : List (List α)} (h : colOf j rows = some out) :
    out.length = rows.length ∧ ∀ r ∈ out, r.length = 1 := by
  simpa using selCols_rows h

theorem featureIter_wf {ds : DS R T W} {outs : List (DS R T W)} (hw : WF ds) (h : featureIter ds = some outs) :
    ∀ d ∈ outs, WF d := by
  obtain ⟨⟨h1, h2, h3⟩, hwt, hf, htn⟩ := hw
  intro d hd
  obtain ⟨k, hk⟩ := List.getElem?_of_mem hd
  obtain ⟨x, _, hfx⟩ := mapM_get h k d hk
  cases hc : colOf x ds.recs with
  | none => simp [hc] at hfx
  | some r =>
    obtain ⟨hl, hrow⟩ := colOf_rows hc
    by_cases hn1 : ds.fnames.length = 1
    · cases hn : ds.fnames[x]? with
      | none => simp [hc, hn1, hn] at hfx
      | some nm0 =>
        simp [hc, hn1, hn] at hfx; subst hfx
        exact ⟨⟨hrow, h2, by simp [hl, h3]⟩, by simpa [hl] using hwt, Or.inr rfl, htn⟩
    · simp [hc, hn1] at hfx; subst hfx
      exact ⟨⟨hrow, h2, by simp [hl, h3]⟩, by simpa [hl] using hwt, Or.inl rfl, htn⟩

theorem targetIter_wf {ds : DS R T W} {outs : List (DS R T W)} (hw : WF ds) (h : targetIter ds = some outs) :
    ∀ d ∈ outs, WF d := by
  obtain ⟨⟨h1, h2, h3⟩, hwt, hf, htn⟩ := hw
  intro d hd
  obtain ⟨k, hk⟩ := List.getElem?_of_mem hd
  obtain ⟨x, _, hfx⟩ := mapM_get h k d hk
  cases hc : colOf x ds.tgts with
  | none => simp [hc] at hfx
  | some g =>
    obtain ⟨hl, hrow⟩ := colOf_rows hc
    by_cases hn1 : ds.tnames.isEmpty = true
    · simp [hc, hn1] at hfx; subst hfx
      exact ⟨⟨h1, hrow, by simp [hl, h3]⟩, hwt, hf, Or.inl rfl⟩
    · cases hn : ds.tnames[x]? with
      | none => simp [hc, hn1, hn] at hfx
      | some nm0 =>
        simp [hc, hn1, hn] at hfx; subst hfx
        exact ⟨⟨h1, hrow, by simp [hl, h3]⟩, hwt, hf, Or.inr rfl⟩

theorem sampleChunks_wf [DecidableEq T] {size : Nat} {ds : DS R T W} {outs : List (DS R T W)} (hw : WF ds)
    (h : sampleChunks size ds = some outs) : ∀ d ∈ outs, WF d := by
  obtain ⟨⟨h1, h2, h3⟩, hwt, hf, htn⟩ := hw
  unfold sampleChunks at h
  split at h
  · simp at h
  · simp only [Option.some.injEq] at h
    subst h
    intro d hd
    simp only [List.mem_map] at hd
    obtain ⟨i, _, e⟩ := hd
    subst e
    exact ⟨⟨fun r hr => h1 r (List.mem_of_mem_drop (List.mem_of_mem_take hr)),
      fun g hg => h2 g (List.mem_of_mem_drop (List.mem_of_mem_take hg)), by simp [h3]⟩, Or.inl rfl, Or.inl rfl, Or.inl rfl⟩


/-- the raw-buffer operations get what they need from the matrix shape -/
theorem singletons_of_wf {ds d : DS R T W} (hw : WF ds) (h : intoSingleTarget ds = some d) :
    ∀ g ∈ ds.tgts, g.length = 1 := by
  obtain ⟨⟨h1, h2, h3⟩, _, _, _⟩ := hw
  unfold intoSingleTarget at h
  simp only at h
  split at h
  · rename_i hl
    rw [flatten_length_shaped ds.tgts h2, DS.n, ← h3] at hl
    intro g hg
    have hpos : 0 < ds.tgts.length := List.length_pos_of_mem hg
    have : ds.t = 1 := by
      have := Nat.eq_of_mul_eq_mul_left hpos (by rw [hl, Nat.mul_one] : ds.tgts.length * ds.t = ds.tgts.length * 1)
      exact this
    rw [h2 g hg, this]
  · simp at h



/-! ### label counting is counting -/

theorem bump_keys [DecidableEq T] (m : List (T × Nat)) (x : T) :
    (bump m x).map (·.1) = if x ∈ m.map (·.1) then m.map (·.1) else m.map (·.1) ++ [x] := by
  induction m with
  | nil => simp [bump]
  | cons yc rest ih =>
    obtain ⟨y, c⟩ := yc
    by_cases hy : y = x
    · subst hy; simp [bump]
    · have hxy : ¬ x = y := fun e => hy e.symm
      by_cases hm : x ∈ rest.map (·.1)
      · simp [bump, hy, ih, hm]
      · simp [bump, hy, ih, hm, hxy]

/-- the count stored for `y` (0 when `y` is not a key) -/
def cnt [DecidableEq T] (m : List (T × Nat)) (y : T) : Nat := ((m.find? (·.1 = y)).map (·.2)).getD 0

theorem cnt_bump [DecidableEq T] (m : List (T × Nat)) (x y : T) :
    cnt (bump m x) y = cnt m y + (if y = x then 1 else 0) := by
  induction m with
  | nil => by_cases h : y = x <;> simp [bump, cnt, h, eq_comm]
  | cons zc rest ih =>
    obtain ⟨z, c⟩ := zc
    by_cases hz : z = x
    · subst hz
      by_cases h : y = z
      · subst h; simp [bump, cnt]
      · have h' : ¬ z = y := fun e => h e.symm
        simp [bump, cnt, h, h']
    · by_cases h : z = y
      · subst h
        have : ¬ z = x := hz
        simp [bump, cnt, hz]
      · simp only [bump, hz, if_false]
        unfold cnt at ih ⊢
        simp [h]
        simpa using ih

theorem cnt_foldl_bump [DecidableEq T] (col : List T) : ∀ (m : List (T × Nat)) (y : T),
    cnt (col.foldl bump m) y = cnt m y + col.count y := by
  induction col with
  | nil => intro m y; simp
  | cons x col ih =>
    intro m y
    rw [List.foldl_cons, ih, cnt_bump, List.count_cons]
    by_cases h : y = x
    · subst h; simp; omega
    · have h' : ¬ x = y := fun e => h e.symm
      simp [h, h']

theorem keys_foldl_bump [DecidableEq T] (col : List T) : ∀ (m : List (T × Nat)),
    (m.map (·.1)).Nodup → ((col.foldl bump m).map (·.1)).Nodup ∧
      ∀ y, y ∈ (col.foldl bump m).map (·.1) ↔ y ∈ m.map (·.1) ∨ y ∈ col := by
  induction col with
  | nil => intro m hm; simp [hm]
  | cons x col ih =>
    intro m hm
    have hk := bump_keys m x
    have hnd : ((bump m x).map (·.1)).Nodup := by
      rw [hk]
      split
      · exact hm
      · rename_i hx
        exact List.nodup_append.mpr ⟨hm, by simp, by
          intro a ha b hb; simp at hb; subst hb; exact fun e => hx (e ▸ ha)⟩
    obtain ⟨h1, h2⟩ := ih (bump m x) hnd
    refine ⟨h1, fun y => ?_⟩
    rw [List.foldl_cons, h2, hk]
    split
    · rename_i hx
      constructor
      · rintro (h | h)
        · exact Or.inl h
        · exact Or.inr (List.mem_cons_of_mem _ h)
      · rintro (h | h)
        · exact Or.inl h
        · rcases List.mem_cons.mp h with e | h
          · subst e; exact Or.inl hx
          · exact Or.inr h
    · simp only [List.mem_append, List.mem_cons, List.not_mem_nil, or_false]
      constructor
      · rintro ((h | h) | h)
        · exact Or.inl h
        · exact Or.inr (Or.inl h)
        · exact Or.inr (Or.inr h)
      · rintro (h | h | h)
        · exact Or.inl (Or.inl h)
        · exact Or.inl (Or.inr h)
        · exact Or.inr h

theorem cnt_of_mem [DecidableEq T] {m : List (T × Nat)} (hnd : (m.map (·.1)).Nodup) {y : T} {c : Nat}
    (h : (y, c) ∈ m) : cnt m y = c := by
  induction m with
  | nil => simp at h
  | cons zc rest ih =>
    obtain ⟨z, c'⟩ := zc
    simp only [List.map_cons, List.nodup_cons] at hnd
    rcases List.mem_cons.mp h with e | h'
    · cases e; simp [cnt]
    · have hz : ¬ z = y := by
        intro e; subst e
        exact hnd.1 (List.mem_map.mpr ⟨(z, c), h', rfl⟩)
      unfold cnt at ih ⊢
      simp [hz]
      simpa using ih hnd.2 h'


/-- **`label_count` counts**: the keys of a column's label map are exactly the labels occurring in
the column, each once, and the number stored with a label is the number of its occurrences -/
theorem countCol_spec [DecidableEq T] (col : List T) :
    ((countCol col).map (·.1)).Nodup ∧ (∀ y, y ∈ (countCol col).map (·.1) ↔ y ∈ col) ∧
    ∀ y c, (y, c) ∈ countCol col → c = col.count y ∧ 0 < c := by
  obtain ⟨hnd, hmem⟩ := keys_foldl_bump col [] (by simp)
  refine ⟨hnd, fun y => by simpa [countCol] using hmem y, fun y c hyc => ?_⟩
  have h1 := cnt_of_mem hnd hyc
  have h2 := cnt_foldl_bump col [] y
  have hy : y ∈ col := by
    have := (hmem y).mp (List.mem_map.mpr ⟨(y, c), hyc, rfl⟩)
    simpa using this
  have hc : c = col.count y := by
    unfold countCol at h1
    rw [h2] at h1
    simp [cnt] at h1
    exact h1.symm
  exact ⟨hc, by rw [hc]; exact List.count_pos_iff.mpr hy⟩

theorem mem_column {α} {c : Nat} {rows : List (List α)} {l : α} :
    l ∈ column c rows ↔ ∃ g ∈ rows, g[c]? = some l := by
  simp [column]

/-! ### `eraseDups` (core has only the unfolding lemma) -/

theorem eraseDups_spec {α} [DecidableEq α] : ∀ (n : Nat) (l : List α), l.length ≤ n →
    l.eraseDups.Nodup ∧ ∀ x, x ∈ l.eraseDups ↔ x ∈ l := by
  intro n
  induction n with
  | zero =>
    intro l hl
    have : l = [] := List.eq_nil_of_length_eq_zero (by omega)
    subst this; simp
  | succ n ih =>
    intro l hl
    cases l with
    | nil => simp
    | cons a as =>
      rw [List.eraseDups_cons]
      have hlen : (as.filter fun b => !b == a).length ≤ n := by
        have := List.length_filter_le (fun b => !b == a) as
        simp at hl; omega
      obtain ⟨hnd, hmem⟩ := ih _ hlen
      constructor
      · refine List.nodup_cons.mpr ⟨?_, hnd⟩
        rw [hmem]; simp
      · intro x
        simp only [List.mem_cons, hmem, List.mem_filter]
        by_cases hx : x = a
        · simp [hx]
        · simp [hx]

/-- a cached label count, when there is one, is the count of the targets it sits next to -/
def CountsOk [DecidableEq T] (ds : DS R T W) : Prop :=
  ∀ c, ds.counts = some c → c = labelCount ds.t ds.tgts

/-- **the labels of a dataset** (what `one_vs_all` iterates over: its own scan of the targets): each
label that occurs in the targets, exactly once, and nothing else — whatever the cached counts say -/
theorem labelsOf_spec [DecidableEq T] (ds : DS R T W) :
    (labelsOf ds).Nodup ∧ ∀ l, l ∈ labelsOf ds ↔ ∃ g ∈ ds.tgts, l ∈ g := by
  obtain ⟨hnd, hmem⟩ := eraseDups_spec _ ds.tgts.flatten (Nat.le_refl _)
  refine ⟨hnd, fun l => ?_⟩
  unfold labelsOf
  rw [hmem]
  simp [List.mem_flatten]

/-- the scan keeps the labels in the order of their first appearance: the head of the flattened
targets comes first, the rest is the scan of what is left without it -/
theorem labelsOf_cons [DecidableEq T] (ds : DS R T W) (x : T) (rest : List T) (h : ds.tgts.flatten = x :: rest) :
    labelsOf ds = x :: (rest.filter fun y => !y == x).eraseDups := by
  unfold labelsOf
  rw [h, List.eraseDups_cons]


/-! ### totality helpers, per-sample iteration, label frequencies -/


theorem mapM_isSome {α β} {f : α → Option β} {l : List α} (h : ∀ x ∈ l, (f x).isSome) : (l.mapM f).isSome := by
  induction l with
  | nil => simp
  | cons a l ih =>
    simp only [List.mapM_cons]
    have ha := h a (by simp)
    have hl := ih (fun x hx => h x (by simp [hx]))
    cases hfa : f a with
    | none => simp [hfa] at ha
    | some b =>
      cases hfl : List.mapM f l with
      | none => simp [hfl] at hl
      | some bs => simp

theorem selRows_isSome {α} {idx : List Nat} {xs : List α} (h : ∀ i ∈ idx, i < xs.length) : (selRows idx xs).isSome :=
  mapM_isSome (fun i hi => by simp [h i hi])

theorem selCols_isSome {α} {cols : List Nat} {rows : List (List α)} {p : Nat} (hr : ∀ r ∈ rows, r.length = p)
    (h : ∀ j ∈ cols, j < p) : (selCols cols rows).isSome :=
  mapM_isSome (fun r hrr => selRows_isSome (fun j hj => by rw [hr r hrr]; exact h j hj))

/-- **per-sample iteration**: the `k`-th pair is the record and the target row at position `k` -/
theorem sampleIter_pairs {ds : DS R T W} {prs : List (List R × List T)} (h : sampleIter ds = some prs) :
    prs.length = ds.n ∧ ∀ (k : Nat) (r : List R) (g : List T), prs[k]? = some (r, g) → ds.recs[k]? = some r ∧ ds.tgts[k]? = some g := by
  refine ⟨by simpa using mapM_length h, fun k r g hk => ?_⟩
  obtain ⟨x, hx, hf⟩ := mapM_get h k (r, g) hk
  obtain ⟨hxk, _⟩ := range_get hx
  subst hxk
  cases hr : ds.recs[x]? with
  | none => simp [hr] at hf
  | some r0 =>
    cases hg : ds.tgts[x]? with
    | none => simp [hr, hg] at hf
    | some g0 => simp [hr, hg] at hf; exact ⟨by rw [hf.1], by rw [hf.2]⟩

theorem sampleIter_total {ds : DS R T W} (h3 : ds.tgts.length = ds.recs.length) : (sampleIter ds).isSome := by
  refine mapM_isSome (fun i hi => ?_)
  have hi' : i < ds.recs.length := by simpa [DS.n] using hi
  have : i < ds.tgts.length := by omega
  simp [hi', this]

/-- rows paired with the weights next to them (`one` where the weights run out) -/
def pairUp (one : W) : List (List T) → List W → List (List T × W)
  | [], _ => []
  | g :: gs, ws => (g, ws.head?.getD one) :: pairUp one gs ws.tail

theorem range_pairUp (one : W) : ∀ (gs : List (List T)) (ws : List W),
    (List.range gs.length).filterMap (fun j => (gs[j]?).map fun g => (g, (ws[j]?).getD one)) = pairUp one gs ws := by
  intro gs
  induction gs with
  | nil => intro ws; simp [pairUp]
  | cons g gs ih =>
    intro ws
    rw [List.length_cons, List.range_succ_eq_map, List.filterMap_cons]
    simp only [List.getElem?_cons_zero, Option.map_some, pairUp, List.filterMap_map, Function.comp_def,
      List.getElem?_cons_succ]
    congr 1
    · cases ws <;> simp
    · rw [← ih ws.tail]
      cases ws <;> simp

theorem sel_pairUp (one : W) (tgts : List (List T)) (weights : List W) : ∀ (K : List Nat) (g' : List (List T)) (w' : List W),
    selRows K tgts = some g' → ((weights = [] ∧ w' = []) ∨ selRows K weights = some w') →
    K.filterMap (fun i => (tgts[i]?).map fun g => (g, (weights[i]?).getD one)) = pairUp one g' w' := by
  intro K
  induction K with
  | nil => intro g' w' hg _; simp [selRows] at hg; subst hg; simp [pairUp]
  | cons i K ih =>
    intro g' w' hg hw
    rw [selRows_cons] at hg
    cases hx : tgts[i]? with
    | none => simp [hx] at hg
    | some x =>
      cases hs : selRows K tgts with
      | none => simp [hx, hs] at hg
      | some gs =>
        simp [hx, hs] at hg; subst hg
        rcases hw with ⟨hw0, hw1⟩ | hw
        · subst hw0; subst hw1
          simp only [List.filterMap_cons, hx, Option.map_some, pairUp]
          congr 1
          exact ih gs [] hs (Or.inl ⟨rfl, rfl⟩)
        · rw [selRows_cons] at hw
          cases hy : weights[i]? with
          | none => simp [hy] at hw
          | some y =>
            cases hws : selRows K weights with
            | none => simp [hy, hws] at hw
            | some ws =>
              simp [hy, hws] at hw; subst hw
              simp only [List.filterMap_cons, hx, hy, Option.map_some, pairUp]
              congr 1
              exact ih gs ws hs (Or.inr hws)

/-- **masking = filtering**: `label_frequencies_with_mask(mask)` accumulates exactly the rows that
`label_frequencies()` accumulates on the dataset restricted to the positions passing the mask —
targets *and weights* selected by the same positions (so the `j`-th kept sample contributes with
its own weight, not with the weight of sample `j`) -/
theorem maskedRows_restrict (one : W) (mask : List Bool) (ds : DS R T W) (g' : List (List T)) (w' : List W)
    (hg : selRows ((List.range ds.tgts.length).filter fun i => mask.getD i true) ds.tgts = some g')
    (hw : (ds.weights = [] ∧ w' = []) ∨
      selRows ((List.range ds.tgts.length).filter fun i => mask.getD i true) ds.weights = some w') :
    maskedRows one mask ds = maskedRows one [] { ds with tgts := g', weights := w' } := by
  have hR : maskedRows one [] { ds with tgts := g', weights := w' } = pairUp one g' w' := by
    unfold maskedRows weightFor
    simp only [List.getD_eq_getElem?_getD, List.getElem?_nil, Option.getD_none, List.filter_eq_self.mpr (fun _ _ => rfl)]
    exact range_pairUp one g' w'
  rw [hR]
  unfold maskedRows weightFor
  exact sel_pairUp one ds.tgts ds.weights _ g' w' hg hw


/-! ### cached label counts are fresh -/


theorem recount_ok [DecidableEq T] {b : Bool} {t : Nat} {g : List (List T)} {d : DS R T W}
    (ht : d.t = t) (hg : d.tgts = g) (hc : d.counts = recount b t g) : CountsOk d := by
  intro c hco
  rw [hc] at hco
  unfold recount at hco
  split at hco
  · simp at hco; rw [ht, hg]; exact hco.symm
  · simp at hco

theorem none_ok [DecidableEq T] {d : DS R T W} (hc : d.counts = none) : CountsOk d := by
  intro c hco; rw [hc] at hco; simp at hco

/-- **a cached label count is never stale**: whatever dataset any operation returns, its cached
counts (if it has any) are the counts of the targets it wraps -/
theorem apply_counts_fresh_aux [DecidableEq T] (ofBool : Bool → T) (op : Op T) (ds : DS R T W)
    (outs : List (DS R T W)) (h : apply ofBool op ds = some outs) : ∀ d ∈ outs, CountsOk d := by
  cases op with
  | splitView n1 =>
    simp only [apply, Option.map_eq_some_iff] at h
    obtain ⟨⟨a, b⟩, hs, e⟩ := h
    subst e
    unfold splitView at hs
    split at hs
    · simp at hs
    · simp only [Option.some.injEq, Prod.mk.injEq] at hs
      obtain ⟨ha, hb⟩ := hs
      subst ha; subst hb
      intro d hd
      simp at hd
      rcases hd with hd | hd <;> subst hd <;> exact recount_ok rfl rfl rfl
  | splitOwned std n1 =>
    simp only [apply] at h
    split at h
    · simp at h
    · rename_i hcn
      simp only [Option.map_eq_some_iff] at h
      obtain ⟨⟨a, b⟩, hs, e⟩ := h
      subst e
      unfold splitOwned at hs
      split at hs
      · simp at hs
      split at hs
      · simp at hs
      · simp only [Option.some.injEq, Prod.mk.injEq] at hs
        obtain ⟨ha, hb⟩ := hs
        subst ha; subst hb
        have hn : ds.counts = none := by
          simp only [DS.counted] at hcn
          cases hco : ds.counts with
          | none => rfl
          | some c => simp [hco] at hcn
        intro d hd
        simp at hd
        rcases hd with hd | hd <;> subst hd <;> exact none_ok hn
  | shuffle idx =>
    simp only [apply, Option.map_eq_some_iff] at h
    obtain ⟨a, hs, e⟩ := h
    subst e
    intro d hd; simp at hd; subst hd
    unfold shuffle at hs
    cases hr : selRows idx ds.recs with
    | none => simp [hr] at hs
    | some r =>
      cases hg : selRows idx ds.tgts with
      | none => simp [hr, hg] at hs
      | some g => simp [hr, hg] at hs; subst hs; exact recount_ok rfl rfl rfl
  | bootstrap ns nf idx fidx =>
    simp only [apply, Option.map_eq_some_iff] at h
    obtain ⟨a, hs, e⟩ := h
    subst e
    intro d hd; simp at hd; subst hd
    unfold bootstrap at hs
    cases hb : bootstrapSamples ns idx ds with
    | none => simp [hb] at hs
    | some d1 =>
      simp [hb] at hs
      unfold bootstrapFeatures at hs
      split at hs
      · simp at hs
      · cases hr : selCols fidx d1.recs with
        | none => simp [hr] at hs
        | some r => simp [hr] at hs; subst hs; exact recount_ok rfl rfl rfl
  | bootstrapSamples ns idx =>
    simp only [apply, Option.map_eq_some_iff] at h
    obtain ⟨a, hs, e⟩ := h
    subst e
    intro d hd; simp at hd; subst hd
    unfold bootstrapSamples at hs
    split at hs
    · simp at hs
    · cases hr : selRows idx ds.recs with
      | none => simp [hr] at hs
      | some r =>
        cases hg : selRows idx ds.tgts with
        | none => simp [hr, hg] at hs
        | some g => simp [hr, hg] at hs; subst hs; exact recount_ok rfl rfl rfl
  | bootstrapFeatures nf fidx =>
    simp only [apply, Option.map_eq_some_iff] at h
    obtain ⟨a, hs, e⟩ := h
    subst e
    intro d hd; simp at hd; subst hd
    unfold bootstrapFeatures at hs
    split at hs
    · simp at hs
    · cases hr : selCols fidx ds.recs with
      | none => simp [hr] at hs
      | some r => simp [hr] at hs; subst hs; exact recount_ok rfl rfl rfl
  | withLabels labs =>
    simp only [apply, Option.map_eq_some_iff] at h
    obtain ⟨a, hs, e⟩ := h
    subst e
    intro d hd; simp at hd; subst hd
    unfold withLabels at hs
    simp only at hs
    split at hs
    · simp only [Option.some.injEq] at hs; subst hs
      intro c hco; simp at hco; exact hco.symm
    · simp at hs
  | oneVsAll =>
    simp only [apply, Option.some.injEq] at h
    subst h
    intro d hd
    simp only [List.mem_map] at hd
    obtain ⟨⟨l, d0⟩, _, e⟩ := hd
    subst e
    intro c hco; simp at hco; exact hco.symm
  | mapTargets f =>
    simp only [apply, Option.some.injEq] at h
    subst h
    intro d hd; simp at hd; subst hd; exact none_ok rfl
  | view =>
    simp only [apply, Option.some.injEq] at h
    subst h
    intro d hd; simp at hd; subst hd; exact recount_ok rfl rfl rfl
  | toOwned =>
    simp only [apply, Option.some.injEq] at h
    subst h
    intro d hd; simp at hd; subst hd; exact recount_ok rfl rfl rfl
  | intoSingleTarget =>
    simp only [apply, Option.map_eq_some_iff] at h
    obtain ⟨a, hs, e⟩ := h
    subst e
    intro d hd; simp at hd; subst hd
    unfold intoSingleTarget at hs
    simp only at hs
    split at hs
    · simp only [Option.some.injEq] at hs; subst hs; exact none_ok rfl
    · simp at hs
  | featureIter =>
    intro d hd
    obtain ⟨k, hk⟩ := List.getElem?_of_mem hd
    obtain ⟨x, _, hfx⟩ := mapM_get h k d hk
    split at hfx
    · simp only [Option.some.injEq] at hfx; subst hfx; exact none_ok rfl
    · simp at hfx
  | targetIter =>
    intro d hd
    obtain ⟨k, hk⟩ := List.getElem?_of_mem hd
    obtain ⟨x, _, hfx⟩ := mapM_get h k d hk
    split at hfx
    · simp only [Option.some.injEq] at hfx; subst hfx; exact none_ok rfl
    · simp at hfx
  | sampleChunks size =>
    simp only [apply] at h
    unfold sampleChunks at h
    split at h
    · simp at h
    · simp only [Option.some.injEq] at h
      subst h
      intro d hd
      simp only [List.mem_map] at hd
      obtain ⟨i, _, e⟩ := hd
      subst e
      exact recount_ok rfl rfl rfl


/-! ### inside the guard nothing panics -/


/-- the index vectors the RNG hands out lie in range (`gen_range(0..n)`, a shuffled `0..n`) -/
def InRange (idx : List Nat) (n : Nat) : Prop := ∀ i ∈ idx, i < n

/-- **the guard of an operation**: the inputs for which the property promises a result.  Everything
else is a documented panic (layout of the owned split, `[n, 1]` shape for `into_single_target`),
an empty range handed to the RNG, a split point past the last sample, or a zero chunk size. -/
def Guard (op : Op T) (ds : DS R T W) : Prop :=
  match op with
  | .splitView n1 => n1 ≤ ds.n
  | .splitOwned std n1 => std = true ∧ ds.counts = none ∧ n1 ≤ ds.n
  | .shuffle idx => InRange idx ds.n
  | .bootstrap ns nf idx fidx => (ns = 0 ∨ 0 < ds.n) ∧ (nf = 0 ∨ 0 < ds.p) ∧ InRange idx ds.n ∧ InRange fidx ds.p
  | .bootstrapSamples ns idx => (ns = 0 ∨ 0 < ds.n) ∧ InRange idx ds.n
  | .bootstrapFeatures nf fidx => (nf = 0 ∨ 0 < ds.p) ∧ InRange fidx ds.p
  | .intoSingleTarget => ds.t = 1
  | .sampleChunks size => 0 < size
  -- `weight[i]` of the kept rows: no weights, or at least one per sample (always so under `WF`;
  -- `with_weights` accepts shorter vectors, for which nothing is promised)
  | .withLabels _ => ds.weights.length = 0 ∨ ds.n ≤ ds.weights.length
  | _ => True

theorem shuffle_total [DecidableEq T] {idx : List Nat} {ds : DS R T W} (hw : WF ds) (hi : InRange idx ds.n) :
    (shuffle idx ds).isSome := by
  obtain ⟨⟨h1, h2, h3⟩, _, _, _⟩ := hw
  have hr := selRows_isSome (xs := ds.recs) hi
  have hg := selRows_isSome (xs := ds.tgts) (fun i h => by rw [h3]; exact hi i h)
  unfold shuffle
  cases hr' : selRows idx ds.recs with
  | none => simp [hr'] at hr
  | some r =>
    cases hg' : selRows idx ds.tgts with
    | none => simp [hg'] at hg
    | some g => simp

theorem bootstrapSamples_total [DecidableEq T] {ns : Nat} {idx : List Nat} {ds : DS R T W} (hw : WF ds)
    (hn : ns = 0 ∨ 0 < ds.n) (hi : InRange idx ds.n) : (bootstrapSamples ns idx ds).isSome := by
  obtain ⟨⟨h1, h2, h3⟩, _, _, _⟩ := hw
  have hr := selRows_isSome (xs := ds.recs) hi
  have hg := selRows_isSome (xs := ds.tgts) (fun i h => by rw [h3]; exact hi i h)
  unfold bootstrapSamples
  have : ¬ (0 < ns ∧ ds.n = 0) := by omega
  simp only [this, if_false]
  cases hr' : selRows idx ds.recs with
  | none => simp [hr'] at hr
  | some r =>
    cases hg' : selRows idx ds.tgts with
    | none => simp [hg'] at hg
    | some g => simp

theorem bootstrapFeatures_total [DecidableEq T] {nf : Nat} {fidx : List Nat} {ds : DS R T W} (hw : WF ds)
    (hn : nf = 0 ∨ 0 < ds.p) (hi : InRange fidx ds.p) : (bootstrapFeatures nf fidx ds).isSome := by
  obtain ⟨⟨h1, h2, h3⟩, _, _, _⟩ := hw
  have hr := selCols_isSome h1 hi
  unfold bootstrapFeatures
  have : ¬ (0 < nf ∧ ds.p = 0) := by omega
  simp only [this, if_false]
  cases hr' : selCols fidx ds.recs with
  | none => simp [hr'] at hr
  | some r => simp

theorem keptIdx_lt [DecidableEq T] (labs : List T) (tgts : List (List T)) : ∀ i ∈ keptIdx labs tgts, i < tgts.length := by
  intro i hi
  simp only [keptIdx, List.mem_filter, List.mem_range] at hi
  exact hi.1

theorem withLabels_total [DecidableEq T] {labs : List T} {ds : DS R T W} (hw : WF ds) : (withLabels labs ds).isSome := by
  obtain ⟨⟨h1, h2, h3⟩, hwt, _, _⟩ := hw
  have hk : ∀ i ∈ keptIdx labs (ds.tgts.take ds.n), i < ds.recs.length := by
    intro i hi
    have := keptIdx_lt labs _ i hi
    simp [DS.n] at this
    omega
  have hr := selRows_isSome (xs := ds.recs) hk
  have hg := selRows_isSome (xs := ds.tgts) (fun i h => by rw [h3]; exact hk i h)
  unfold withLabels
  simp only
  cases hr' : selRows (keptIdx labs (ds.tgts.take ds.n)) ds.recs with
  | none => simp [hr'] at hr
  | some r =>
    cases hg' : selRows (keptIdx labs (ds.tgts.take ds.n)) ds.tgts with
    | none => simp [hg'] at hg
    | some g =>
      by_cases hwe : ds.weights.isEmpty = true
      · simp [hwe]
      · have hl : ds.weights.length = ds.recs.length := by
          rcases hwt with h | h
          · simp [h] at hwe
          · exact h
        have hws := selRows_isSome (xs := ds.weights) (fun i h => by rw [hl]; exact hk i h)
        cases hw' : selRows (keptIdx labs (ds.tgts.take ds.n)) ds.weights with
        | none => simp [hw'] at hws
        | some w => simp [hwe]

theorem featureIter_total {ds : DS R T W} (hw : WF ds) : (featureIter ds).isSome := by
  obtain ⟨⟨h1, h2, h3⟩, _, hf, _⟩ := hw
  refine mapM_isSome (fun j hj => ?_)
  have hj' : j < ds.p := by simpa using hj
  have hc := selCols_isSome (cols := [j]) h1 (by simpa using hj')
  cases hc' : colOf j ds.recs with
  | none => simp [colOf] at hc'; simp [hc'] at hc
  | some r =>
    by_cases hn1 : ds.fnames.length = 1
    · have hjn : j < ds.fnames.length := by
        rcases hf with h | h
        · simp [h] at hn1
        · omega
      have hnm : ds.fnames[j]? = some ds.fnames[j] := List.getElem?_eq_getElem hjn
      simp [hn1, hnm]
    · simp [hn1]

theorem targetIter_total {ds : DS R T W} (hw : WF ds) : (targetIter ds).isSome := by
  obtain ⟨⟨h1, h2, h3⟩, _, _, htn⟩ := hw
  refine mapM_isSome (fun c hc => ?_)
  have hc' : c < ds.t := by simpa using hc
  have hcol := selCols_isSome (cols := [c]) h2 (by simpa using hc')
  cases hco : colOf c ds.tgts with
  | none => simp [colOf] at hco; simp [hco] at hcol
  | some g =>
    by_cases hn1 : ds.tnames.isEmpty = true
    · simp [hn1]
    · have hcn : c < ds.tnames.length := by
        rcases htn with h | h
        · simp [h] at hn1
        · omega
      simp [hn1, hcn]

/-- **inside the guard no operation panics**: on a dataset the constructors can build, every
operation whose guard holds returns (the model's `none` = panic does not occur) -/
theorem apply_total_aux [DecidableEq T] (ofBool : Bool → T) (op : Op T) (ds : DS R T W) (hw : WF ds)
    (hg : Guard op ds) : (apply ofBool op ds).isSome := by
  cases op with
  | splitView n1 =>
    simp only [Guard] at hg
    have : ¬ ds.n < n1 := by omega
    simp [apply, splitView, this]
  | splitOwned std n1 =>
    obtain ⟨hs, hc, hn⟩ := hg
    have : ¬ ds.n < n1 := by omega
    simp [apply, splitOwned, DS.counted, hc, hs, this]
  | shuffle idx =>
    have := shuffle_total hw hg
    simp only [apply]
    cases h : shuffle idx ds with
    | none => simp [h] at this
    | some d => simp
  | bootstrap ns nf idx fidx =>
    obtain ⟨hn, hf, hi, hfi⟩ := hg
    have h1 := bootstrapSamples_total hw hn hi
    simp only [apply, bootstrap]
    cases hb : bootstrapSamples ns idx ds with
    | none => simp [hb] at h1
    | some d1 =>
      have hw1 := bootstrapSamples_wf hw hb
      have hp : d1.p = ds.p := by
        unfold bootstrapSamples at hb
        split at hb
        · simp at hb
        · cases hr : selRows idx ds.recs with
          | none => simp [hr] at hb
          | some r =>
            cases hg : selRows idx ds.tgts with
            | none => simp [hr, hg] at hb
            | some g => simp [hr, hg] at hb; subst hb; rfl
      have h2 := bootstrapFeatures_total (nf := nf) (fidx := fidx) hw1 (by rw [hp]; exact hf) (by rw [hp]; exact hfi)
      simp only
      cases hb2 : bootstrapFeatures nf fidx d1 with
      | none => simp [hb2] at h2
      | some d => simp
  | bootstrapSamples ns idx =>
    have := bootstrapSamples_total hw hg.1 hg.2
    simp only [apply]
    cases h : bootstrapSamples ns idx ds with
    | none => simp [h] at this
    | some d => simp
  | bootstrapFeatures nf fidx =>
    have := bootstrapFeatures_total hw hg.1 hg.2
    simp only [apply]
    cases h : bootstrapFeatures nf fidx ds with
    | none => simp [h] at this
    | some d => simp
  | withLabels labs =>
    have := withLabels_total (labs := labs) hw
    simp only [apply]
    cases h : withLabels labs ds with
    | none => simp [h] at this
    | some d => simp
  | oneVsAll => simp [apply]
  | mapTargets f => simp [apply]
  | view => simp [apply]
  | toOwned => simp [apply]
  | intoSingleTarget =>
    simp only [Guard] at hg
    obtain ⟨⟨h1, h2, h3⟩, _, _, _⟩ := hw
    have := flatten_length_shaped ds.tgts h2
    simp [apply, intoSingleTarget, this, hg, h3, DS.n]
  | featureIter => exact featureIter_total hw
  | targetIter => exact targetIter_total hw
  | sampleChunks size =>
    simp only [Guard] at hg
    have : size ≠ 0 := by omega
    simp [apply, sampleChunks, this]


end LinfaSpec.Dataset
