import LinfaSpec.Model.Dataset

/-!
Helper lemmas for C02 (`LinfaSpec.Dataset`): contracts of `selRows`/`selCols`,
the alignment relation and its closure under composition.
-/
namespace LinfaSpec.Dataset
variable {R T W : Type}

/-! ### `select` -/

theorem selRows_cons {α} (i : Nat) (idx : List Nat) (xs : List α) :
    selRows (i :: idx) xs = (xs[i]?).bind fun x => (selRows idx xs).map (x :: ·) := by
  simp only [selRows, List.mapM_cons]
  cases xs[i]? <;> simp
  cases List.mapM (fun x => xs[x]?) idx <;> simp

/-- every selected element sits, in the source, at the index the index vector names -/
theorem selRows_get {α} {idx : List Nat} {xs ys : List α} (h : selRows idx xs = some ys) :
    ∀ (k : Nat) (y : α), ys[k]? = some y → ∃ i, idx[k]? = some i ∧ xs[i]? = some y := by
  induction idx generalizing ys with
  | nil =>
    simp [selRows] at h; subst h; intro k y hk; simp at hk
  | cons i idx ih =>
    rw [selRows_cons] at h
    cases hx : xs[i]? with
    | none => simp [hx] at h
    | some x =>
      cases hs : selRows idx xs with
      | none => simp [hx, hs] at h
      | some zs =>
        simp [hx, hs] at h; subst h
        intro k y hk
        cases k with
        | zero => simp at hk; subst hk; exact ⟨i, by simp, hx⟩
        | succ k => simp at hk; simpa using ih hs k y hk

theorem selRows_length {α} {idx : List Nat} {xs ys : List α} (h : selRows idx xs = some ys) :
    ys.length = idx.length := by
  induction idx generalizing ys with
  | nil => simp [selRows] at h; subst h; rfl
  | cons i idx ih =>
    rw [selRows_cons] at h
    cases hx : xs[i]? with
    | none => simp [hx] at h
    | some x =>
      cases hs : selRows idx xs with
      | none => simp [hx, hs] at h
      | some zs => simp [hx, hs] at h; subst h; simp [ih hs]

theorem selRows_filterMap {α} {idx : List Nat} {xs ys : List α} (h : selRows idx xs = some ys) :
    ys = idx.filterMap (xs[·]?) := by
  induction idx generalizing ys with
  | nil => simp [selRows] at h; subst h; rfl
  | cons i idx ih =>
    rw [selRows_cons] at h
    cases hx : xs[i]? with
    | none => simp [hx] at h
    | some x =>
      cases hs : selRows idx xs with
      | none => simp [hx, hs] at h
      | some zs => simp [hx, hs] at h; subst h; simp [hx, ih hs]

/-- `selCols`: row `k` of the result is row `k` of the source with the columns selected -/
theorem selCols_get {α} {cols : List Nat} {rows out : List (List α)} (h : selCols cols rows = some out) :
    ∀ (k : Nat) (r : List α), out[k]? = some r → ∃ r0, rows[k]? = some r0 ∧ selRows cols r0 = some r := by
  induction rows generalizing out with
  | nil => simp [selCols] at h; subst h; intro k r hk; simp at hk
  | cons r0 rows ih =>
    simp only [selCols, List.mapM_cons] at h
    cases hx : selRows cols r0 with
    | none => simp [hx] at h
    | some x =>
      cases hs : List.mapM (selRows cols) rows with
      | none => simp [hx, hs] at h
      | some zs =>
        simp [hx, hs] at h; subst h
        intro k r hk
        cases k with
        | zero => simp at hk; subst hk; exact ⟨r0, by simp, hx⟩
        | succ k => simp at hk; simpa using ih (out := zs) (by simpa [selCols] using hs) k r hk


/-! ### alignment -/

/-- `b` is aligned with `a` through the sample map `ρ`, the feature-column map `γ`, the
target-column map `τ` and the relabelling `f`:
row `k` of `b` has the record cells, the target cells (relabelled by `f`) and — if `b`
carries weights — the weight of sample `ρ k` of `a`; record column `j` of `b` is record
column `γ j` of `a` and — if `b` carries feature names — is named like it; target column
`j` of `b` is target column `τ j` of `a` and — if `b` carries target names — is named like it. -/
structure AlignedBy (ρ γ τ : Nat → Nat) (f : T → T) (a b : DS R T W) : Prop where
  recs : ∀ (k : Nat) (r : List R), b.recs[k]? = some r →
    ∃ r0, a.recs[ρ k]? = some r0 ∧ ∀ (j : Nat) (x : R), r[j]? = some x → r0[γ j]? = some x
  tgts : ∀ (k : Nat) (g : List T), b.tgts[k]? = some g →
    ∃ g0, a.tgts[ρ k]? = some g0 ∧ ∀ (j : Nat) (y : T), g[j]? = some y → ∃ y0, g0[τ j]? = some y0 ∧ y = f y0
  wts : ∀ (k : Nat) (w : W), b.weights[k]? = some w → a.weights[ρ k]? = some w
  fnm : ∀ (j : Nat) (nm : String), b.fnames[j]? = some nm → a.fnames[γ j]? = some nm
  tnm : ∀ (j : Nat) (nm : String), b.tnames[j]? = some nm → a.tnames[τ j]? = some nm

def Aligned (a b : DS R T W) : Prop := ∃ ρ γ τ f, AlignedBy ρ γ τ f a b

theorem AlignedBy.refl (a : DS R T W) : AlignedBy id id id id a a :=
  ⟨fun _ r h => ⟨r, h, fun _ _ hx => hx⟩, fun _ g h => ⟨g, h, fun _ y hy => ⟨y, hy, rfl⟩⟩,
   fun _ _ h => h, fun _ _ h => h, fun _ _ h => h⟩

theorem AlignedBy.trans {ρ₁ γ₁ τ₁ ρ₂ γ₂ τ₂ : Nat → Nat} {f₁ f₂ : T → T} {a b c : DS R T W}
    (h₁ : AlignedBy ρ₁ γ₁ τ₁ f₁ a b) (h₂ : AlignedBy ρ₂ γ₂ τ₂ f₂ b c) :
    AlignedBy (ρ₁ ∘ ρ₂) (γ₁ ∘ γ₂) (τ₁ ∘ τ₂) (f₂ ∘ f₁) a c := by
  refine ⟨?_, ?_, ?_, ?_, ?_⟩
  · intro k r hr
    obtain ⟨r1, hr1, hc1⟩ := h₂.recs k r hr
    obtain ⟨r0, hr0, hc0⟩ := h₁.recs (ρ₂ k) r1 hr1
    exact ⟨r0, hr0, fun j x hx => hc0 _ _ (hc1 j x hx)⟩
  · intro k g hg
    obtain ⟨g1, hg1, hc1⟩ := h₂.tgts k g hg
    obtain ⟨g0, hg0, hc0⟩ := h₁.tgts (ρ₂ k) g1 hg1
    refine ⟨g0, hg0, fun j y hy => ?_⟩
    obtain ⟨y1, hy1, e1⟩ := hc1 j y hy
    obtain ⟨y0, hy0, e0⟩ := hc0 _ y1 hy1
    exact ⟨y0, hy0, by simp [e1, e0]⟩
  · intro k w hw; exact h₁.wts _ _ (h₂.wts k w hw)
  · intro j nm h; exact h₁.fnm _ _ (h₂.fnm j nm h)
  · intro j nm h; exact h₁.tnm _ _ (h₂.tnm j nm h)

theorem Aligned.refl (a : DS R T W) : Aligned a a := ⟨id, id, id, id, AlignedBy.refl a⟩

theorem Aligned.trans {a b c : DS R T W} (h₁ : Aligned a b) (h₂ : Aligned b c) : Aligned a c := by
  obtain ⟨ρ₁, γ₁, τ₁, f₁, h₁⟩ := h₁
  obtain ⟨ρ₂, γ₂, τ₂, f₂, h₂⟩ := h₂
  exact ⟨_, _, _, _, h₁.trans h₂⟩

/-- generic constructor: rows selected by an index vector, everything else unchanged or dropped -/
theorem alignedBy_of_selRows [Inhabited Nat] {idx : List Nat} {a b : DS R T W}
    (hr : selRows idx a.recs = some b.recs) (ht : selRows idx a.tgts = some b.tgts)
    (hw : b.weights = [] ∨ selRows idx a.weights = some b.weights)
    (hf : b.fnames = [] ∨ b.fnames = a.fnames) (hn : b.tnames = [] ∨ b.tnames = a.tnames) :
    AlignedBy (fun k => idx.getD k 0) id id id a b := by
  refine ⟨?_, ?_, ?_, ?_, ?_⟩
  · intro k r h
    obtain ⟨i, hi, hx⟩ := selRows_get hr k r h
    exact ⟨r, by simpa [List.getD, hi] using hx, fun _ _ hx => hx⟩
  · intro k g h
    obtain ⟨i, hi, hx⟩ := selRows_get ht k g h
    exact ⟨g, by simpa [List.getD, hi] using hx, fun _ y hy => ⟨y, hy, rfl⟩⟩
  · intro k w h
    rcases hw with hw | hw
    · simp [hw] at h
    · obtain ⟨i, hi, hx⟩ := selRows_get hw k w h
      simpa [List.getD, hi] using hx
  · intro j nm h
    rcases hf with hf | hf
    · simp [hf] at h
    · simpa [hf] using h
  · intro j nm h
    rcases hn with hn | hn
    · simp [hn] at h
    · simpa [hn] using h


theorem mapM_get {α β} {f : α → Option β} {l : List α} {outs : List β} (h : l.mapM f = some outs) :
    ∀ (k : Nat) (d : β), outs[k]? = some d → ∃ x, l[k]? = some x ∧ f x = some d := by
  induction l generalizing outs with
  | nil => simp at h; subst h; intro k d hk; simp at hk
  | cons a l ih =>
    simp only [List.mapM_cons] at h
    cases hx : f a with
    | none => simp [hx] at h
    | some x =>
      cases hs : List.mapM f l with
      | none => simp [hx, hs] at h
      | some zs =>
        simp [hx, hs] at h; subst h
        intro k d hk
        cases k with
        | zero => simp at hk; subst hk; exact ⟨a, by simp, hx⟩
        | succ k => simp at hk; simpa using ih hs k d hk

theorem take_get {α} {l : List α} {n k : Nat} {x : α} (h : (l.take n)[k]? = some x) : l[k]? = some x := by
  rw [List.getElem?_take] at h
  split at h <;> simp_all

theorem mapM_length {α β} {f : α → Option β} {l : List α} {outs : List β} (h : l.mapM f = some outs) :
    outs.length = l.length := by
  induction l generalizing outs with
  | nil => simp at h; subst h; rfl
  | cons a l ih =>
    simp only [List.mapM_cons] at h
    cases hx : f a with
    | none => simp [hx] at h
    | some x =>
      cases hs : List.mapM f l with
      | none => simp [hx, hs] at h
      | some zs => simp [hx, hs] at h; subst h; simp [ih hs]

theorem range_filterMap_get {α} (xs : List α) : (List.range xs.length).filterMap (xs[·]?) = xs := by
  induction xs with
  | nil => rfl
  | cons x xs ih =>
    rw [List.length_cons, List.range_succ_eq_map, List.filterMap_cons]
    simp [List.filterMap_map, Function.comp_def, ih]

/-! ### one lemma per operation -/

theorem shuffle_alignedBy [DecidableEq T] {idx : List Nat} {ds d : DS R T W}
    (h : shuffle idx ds = some d) : AlignedBy (fun k => idx.getD k 0) id id id ds d := by
  unfold shuffle at h
  cases hr : selRows idx ds.recs with
  | none => simp [hr] at h
  | some r =>
    cases hg : selRows idx ds.tgts with
    | none => simp [hr, hg] at h
    | some g =>
      simp [hr, hg] at h; subst h
      exact alignedBy_of_selRows hr hg (Or.inl rfl) (Or.inr rfl) (Or.inr rfl)

theorem bootstrapSamples_alignedBy [DecidableEq T] {ns : Nat} {idx : List Nat} {ds d : DS R T W}
    (h : bootstrapSamples ns idx ds = some d) : AlignedBy (fun k => idx.getD k 0) id id id ds d := by
  unfold bootstrapSamples at h
  split at h
  · simp at h
  · cases hr : selRows idx ds.recs with
    | none => simp [hr] at h
    | some r =>
      cases hg : selRows idx ds.tgts with
      | none => simp [hr, hg] at h
      | some g =>
        simp [hr, hg] at h; subst h
        exact alignedBy_of_selRows hr hg (Or.inl rfl) (Or.inl rfl) (Or.inl rfl)

theorem bootstrapFeatures_alignedBy [DecidableEq T] {nf : Nat} {fidx : List Nat} {ds d : DS R T W}
    (h : bootstrapFeatures nf fidx ds = some d) : AlignedBy id (fun j => fidx.getD j 0) id id ds d := by
  unfold bootstrapFeatures at h
  split at h
  · simp at h
  · cases hr : selCols fidx ds.recs with
    | none => simp [hr] at h
    | some r =>
      simp [hr] at h; subst h
      refine ⟨?_, fun _ g hg => ⟨g, hg, fun _ y hy => ⟨y, hy, rfl⟩⟩, ?_, ?_, ?_⟩
      · intro k row hk
        obtain ⟨r0, h0, hs⟩ := selCols_get hr k row hk
        refine ⟨r0, h0, fun j x hx => ?_⟩
        obtain ⟨c, hc, hx0⟩ := selRows_get hs j x hx
        simpa [List.getD, hc] using hx0
      · intro k w hw; simp at hw
      · intro j nm hj; simp at hj
      · intro j nm hj; simp at hj

theorem splitView_alignedBy [DecidableEq T] {n1 : Nat} {ds a b : DS R T W}
    (h : splitView n1 ds = some (a, b)) :
    AlignedBy id id id id ds a ∧ AlignedBy (fun k => n1 + k) id id id ds b := by
  unfold splitView at h
  split at h
  · simp at h
  · simp only [Option.some.injEq, Prod.mk.injEq] at h
    obtain ⟨ha, hb⟩ := h
    subst ha; subst hb
    constructor
    · refine ⟨fun k r hk => ⟨r, take_get hk, fun _ _ hx => hx⟩,
        fun k g hk => ⟨g, take_get hk, fun _ y hy => ⟨y, hy, rfl⟩⟩, ?_, fun _ _ hj => hj, fun _ _ hj => hj⟩
      intro k w hw
      dsimp only at hw
      split at hw
      · exact take_get hw
      · simp at hw
    · refine ⟨fun k r hk => ⟨r, by simpa [List.getElem?_drop] using hk, fun _ _ hx => hx⟩,
        fun k g hk => ⟨g, by simpa [List.getElem?_drop] using hk, fun _ y hy => ⟨y, hy, rfl⟩⟩, ?_,
        fun _ _ hj => hj, fun _ _ hj => hj⟩
      intro k w hw
      dsimp only at hw
      split at hw
      · simpa [List.getElem?_drop] using hw
      · simp at hw

theorem withLabels_alignedBy [DecidableEq T] {labs : List T} {ds d : DS R T W}
    (h : withLabels labs ds = some d) :
    AlignedBy (fun k => (keptIdx labs (ds.tgts.take ds.n)).getD k 0) id id id ds d := by
  unfold withLabels at h
  simp only at h
  cases hr : selRows (keptIdx labs (ds.tgts.take ds.n)) ds.recs with
  | none => simp [hr] at h
  | some r =>
    cases hg : selRows (keptIdx labs (ds.tgts.take ds.n)) ds.tgts with
    | none => simp [hr, hg] at h
    | some g =>
      by_cases hw : ds.weights.isEmpty = true
      · simp [hr, hg, hw] at h; subst h
        exact alignedBy_of_selRows hr hg (Or.inl rfl) (Or.inr rfl) (Or.inr rfl)
      · cases hws : selRows (keptIdx labs (ds.tgts.take ds.n)) ds.weights with
        | none => simp [hr, hg, hw, hws] at h
        | some w =>
          simp [hr, hg, hw, hws] at h; subst h
          exact alignedBy_of_selRows hr hg (Or.inr hws) (Or.inr rfl) (Or.inr rfl)

theorem mapTargets_alignedBy (f : T → T) (ds : DS R T W) :
    AlignedBy id id id f ds (mapTargets f ds) := by
  refine ⟨fun _ r h => ⟨r, h, fun _ _ hx => hx⟩, ?_, fun _ _ h => h, fun _ _ h => h, fun _ _ h => h⟩
  intro k g hg
  simp only [mapTargets, List.getElem?_map, Option.map_eq_some_iff] at hg
  obtain ⟨g0, h0, e⟩ := hg
  refine ⟨g0, h0, fun j y hy => ?_⟩
  subst e
  simp only [List.getElem?_map, Option.map_eq_some_iff] at hy
  obtain ⟨y0, hy0, e⟩ := hy
  exact ⟨y0, hy0, e.symm⟩

theorem view_alignedBy [DecidableEq T] (ds : DS R T W) : AlignedBy id id id id ds (view ds) :=
  ⟨fun _ r h => ⟨r, h, fun _ _ hx => hx⟩, fun _ g h => ⟨g, h, fun _ y hy => ⟨y, hy, rfl⟩⟩,
   fun _ _ h => h, fun _ _ h => h, fun _ _ h => h⟩

theorem toOwned_alignedBy [DecidableEq T] (ds : DS R T W) : AlignedBy id id id id ds (toOwned ds) :=
  ⟨fun _ r h => ⟨r, h, fun _ _ hx => hx⟩, fun _ g h => ⟨g, h, fun _ y hy => ⟨y, hy, rfl⟩⟩,
   fun _ _ h => by simp [toOwned] at h, fun _ _ h => by simp [toOwned] at h, fun _ _ h => by simp [toOwned] at h⟩


theorem bootstrap_aligned [DecidableEq T] {ns nf : Nat} {idx fidx : List Nat} {ds d : DS R T W}
    (h : bootstrap ns nf idx fidx ds = some d) : Aligned ds d := by
  unfold bootstrap at h
  cases hs : bootstrapSamples ns idx ds with
  | none => simp [hs] at h
  | some d1 =>
    simp [hs] at h
    exact ⟨_, _, _, _, (bootstrapSamples_alignedBy hs).trans (bootstrapFeatures_alignedBy h)⟩

/-- a one-column selection: cell `j'` of the result (there is only `j' = 0`) is cell `j` of the source -/
theorem colOf_get {α} {j : Nat} {rows out : List (List α)} (h : colOf j rows = some out) :
    ∀ (k : Nat) (r : List α), out[k]? = some r →
      ∃ r0, rows[k]? = some r0 ∧ ∀ (j' : Nat) (x : α), r[j']? = some x → r0[j]? = some x := by
  intro k r hk
  obtain ⟨r0, h0, hs⟩ := selCols_get h k r hk
  refine ⟨r0, h0, fun j' x hx => ?_⟩
  obtain ⟨c, hc, hx0⟩ := selRows_get hs j' x hx
  cases j' with
  | zero => simp at hc; subst hc; exact hx0
  | succ n => simp at hc

theorem featureIter_alignedBy {ds : DS R T W} {outs : List (DS R T W)} (h : featureIter ds = some outs)
    (j : Nat) (d : DS R T W) (hd : outs[j]? = some d) : AlignedBy id (fun _ => j) id id ds d := by
  obtain ⟨x, hx, hf⟩ := mapM_get h j d hd
  have hxj : x = j := by
    obtain ⟨_, e⟩ := List.getElem?_eq_some_iff.mp hx
    simpa using e.symm
  subst hxj
  cases hc : colOf x ds.recs with
  | none => simp [hc] at hf
  | some r =>
    by_cases h1 : ds.fnames.length = 1
    · cases hn : ds.fnames[x]? with
      | none => simp [hc, h1, hn] at hf
      | some nm0 =>
        simp [hc, h1, hn] at hf; subst hf
        refine ⟨colOf_get hc, fun _ g hg => ⟨g, hg, fun _ y hy => ⟨y, hy, rfl⟩⟩, fun _ _ hw => hw, ?_, fun _ _ hj => hj⟩
        intro j' nm hj
        cases j' with
        | zero => simp at hj; subst hj; exact hn
        | succ n => simp at hj
    · simp [hc, h1] at hf; subst hf
      exact ⟨colOf_get hc, fun _ g hg => ⟨g, hg, fun _ y hy => ⟨y, hy, rfl⟩⟩, fun _ _ hw => hw,
        fun _ _ hj => by simp at hj, fun _ _ hj => hj⟩


theorem range_get {n k x : Nat} (h : (List.range n)[k]? = some x) : x = k ∧ k < n := by
  obtain ⟨hlt, e⟩ := List.getElem?_eq_some_iff.mp h
  exact ⟨by simpa using e.symm, by simpa using hlt⟩

theorem targetIter_alignedBy {ds : DS R T W} {outs : List (DS R T W)} (h : targetIter ds = some outs)
    (c : Nat) (d : DS R T W) (hd : outs[c]? = some d) : AlignedBy id id (fun _ => c) id ds d := by
  obtain ⟨x, hx, hf⟩ := mapM_get h c d hd
  obtain ⟨hxc, _⟩ := range_get hx
  subst hxc
  cases hc : colOf x ds.tgts with
  | none => simp [hc] at hf
  | some g =>
    have htg : ∀ (k : Nat) (row : List T), g[k]? = some row →
        ∃ g0, ds.tgts[k]? = some g0 ∧ ∀ (j : Nat) (y : T), row[j]? = some y → ∃ y0, g0[x]? = some y0 ∧ y = id y0 := by
      intro k row hk
      obtain ⟨g0, h0, hcell⟩ := colOf_get hc k row hk
      exact ⟨g0, h0, fun j y hy => ⟨y, hcell j y hy, rfl⟩⟩
    by_cases h1 : ds.tnames.isEmpty = true
    · simp [hc, h1] at hf; subst hf
      exact ⟨fun _ r hr => ⟨r, hr, fun _ _ hx => hx⟩, htg, fun _ _ hw => hw, fun _ _ hj => hj,
        fun _ _ hj => by simp at hj⟩
    · cases hn : ds.tnames[x]? with
      | none => simp [hc, h1, hn] at hf
      | some nm0 =>
        simp [hc, h1, hn] at hf; subst hf
        refine ⟨fun _ r hr => ⟨r, hr, fun _ _ hx => hx⟩, htg, fun _ _ hw => hw, fun _ _ hj => hj, ?_⟩
        intro j' nm hj
        cases j' with
        | zero => simp at hj; subst hj; exact hn
        | succ n => simp at hj

theorem sampleChunks_alignedBy [DecidableEq T] {size : Nat} {ds : DS R T W} {outs : List (DS R T W)}
    (h : sampleChunks size ds = some outs) (i : Nat) (d : DS R T W) (hd : outs[i]? = some d) :
    AlignedBy (fun k => i * size + k) id id id ds d := by
  unfold sampleChunks at h
  split at h
  · simp at h
  · simp only [Option.some.injEq] at h
    subst h
    simp only [List.getElem?_map, Option.map_eq_some_iff] at hd
    obtain ⟨x, hx, e⟩ := hd
    obtain ⟨hxi, _⟩ := range_get hx
    subst hxi; subst e
    refine ⟨fun k r hk => ⟨r, ?_, fun _ _ hx => hx⟩, fun k g hk => ⟨g, ?_, fun _ y hy => ⟨y, hy, rfl⟩⟩,
      fun _ _ hw => by simp at hw, fun _ _ hj => by simp at hj, fun _ _ hj => by simp at hj⟩
    · simpa [List.getElem?_drop] using take_get hk
    · simpa [List.getElem?_drop] using take_get hk

/-- one-vs-all, with the boolean labels embedded back into the label carrier -/
theorem oneVsAll_alignedBy [DecidableEq T] (ofBool : Bool → T) (ds : DS R T W) (l : T) (d : DS R Bool W)
    (hd : (l, d) ∈ oneVsAll ds) (cs : Option (List (List (T × Nat)))) :
    AlignedBy id id id (fun x => ofBool (decide (x = l))) ds { mapTargets ofBool d with counts := cs } := by
  simp only [oneVsAll, List.mem_map] at hd
  obtain ⟨l', _, e⟩ := hd
  simp only [Prod.mk.injEq] at e
  obtain ⟨e1, e2⟩ := e
  subst e1; subst e2
  refine ⟨fun _ r h => ⟨r, h, fun _ _ hx => hx⟩, ?_, fun _ _ h => h, fun _ _ h => h, fun _ _ h => h⟩
  intro k g hg
  simp only [mapTargets, List.getElem?_map, Option.map_eq_some_iff] at hg
  obtain ⟨g1, ⟨g0, h0, e0⟩, e⟩ := hg
  refine ⟨g0, h0, fun j y hy => ?_⟩
  subst e; subst e0
  simp only [List.getElem?_map, Option.map_eq_some_iff] at hy
  obtain ⟨b, ⟨y0, hy0, eb⟩, e⟩ := hy
  exact ⟨y0, hy0, by rw [← e, ← eb]⟩


/-! ### raw-buffer operations (owned split, `into_single_target`): need the matrix shape -/

/-- in the row-major buffer of an `n × p` matrix, cells `[k*p, (k+1)*p)` are row `k` -/
theorem flatten_block {α} {p : Nat} : ∀ (rows : List (List α)) (k : Nat), (∀ r ∈ rows, r.length = p) →
    ∀ r, rows[k]? = some r → (rows.flatten.drop (k * p)).take p = r := by
  intro rows
  induction rows with
  | nil => intro k _ r h; simp at h
  | cons r0 rows ih =>
    intro k hwf r h
    have h0 : r0.length = p := hwf r0 (by simp)
    cases k with
    | zero =>
      simp at h; subst h
      simp [h0]
    | succ k =>
      simp at h
      have := ih k (fun r hr => hwf r (by simp [hr])) r h
      rw [← this]
      have e : (k + 1) * p = r0.length + k * p := by rw [Nat.succ_mul, h0]; omega
      rw [List.flatten_cons, e, List.drop_append]
      have e1 : List.drop (r0.length + k * p) r0 = [] := List.drop_eq_nil_of_le (by omega)
      have e2 : r0.length + k * p - r0.length = k * p := by omega
      rw [e1, e2, List.nil_append]

theorem reshape_get {α} {n p : Nat} {buf : List α} {k : Nat} {r : List α}
    (h : (reshape n p buf)[k]? = some r) : k < n ∧ r = (buf.drop (k * p)).take p := by
  simp only [reshape, List.getElem?_map, Option.map_eq_some_iff] at h
  obtain ⟨x, hx, e⟩ := h
  obtain ⟨hxk, hlt⟩ := range_get hx
  subst hxk
  exact ⟨hlt, e.symm⟩

/-- first part of a raw-buffer split: row `k` of the reshaped prefix is row `k` of the matrix -/
theorem reshape_take_get {α} {p n1 : Nat} {rows : List (List α)} (hwf : ∀ r ∈ rows, r.length = p)
    (hn : n1 ≤ rows.length) {k : Nat} {r : List α}
    (h : (reshape n1 p (rows.flatten.take (n1 * p)))[k]? = some r) : rows[k]? = some r := by
  obtain ⟨hk, e⟩ := reshape_get h
  have hlt : k < rows.length := by omega
  have hb := flatten_block rows k hwf rows[k] (by simp [hlt])
  rw [e, List.drop_take, List.take_take]
  have h1 : (k + 1) * p ≤ n1 * p := Nat.mul_le_mul_right p hk
  rw [Nat.succ_mul] at h1
  have : min p (n1 * p - k * p) = p := by omega
  rw [this, hb]
  simp [hlt]

theorem reshape_drop_get {α} {p n1 n2 : Nat} {rows : List (List α)} (hwf : ∀ r ∈ rows, r.length = p)
    (hn : n1 + n2 = rows.length) {k : Nat} {r : List α}
    (h : (reshape n2 p (rows.flatten.drop (n1 * p)))[k]? = some r) : rows[n1 + k]? = some r := by
  obtain ⟨hk, e⟩ := reshape_get h
  have hlt : n1 + k < rows.length := by omega
  have hb := flatten_block rows (n1 + k) hwf rows[n1 + k] (by simp [hlt])
  rw [e, List.drop_drop, ← Nat.add_mul, hb]
  simp [hlt]

theorem splitOwned_alignedBy {std : Bool} {n1 : Nat} {ds a b : DS R T W}
    (hr : ∀ r ∈ ds.recs, r.length = ds.p) (ht : ∀ g ∈ ds.tgts, g.length = ds.t)
    (hlen : ds.tgts.length = ds.recs.length)
    (h : splitOwned std n1 ds = some (a, b)) :
    AlignedBy id id id id ds a ∧ AlignedBy (fun k => n1 + k) id id id ds b := by
  unfold splitOwned at h
  split at h
  · simp at h
  split at h
  · simp at h
  · rename_i hn
    simp only [Option.some.injEq, Prod.mk.injEq] at h
    obtain ⟨ha, hb⟩ := h
    subst ha; subst hb
    have hn1 : n1 ≤ ds.recs.length := by simp [DS.n] at hn; omega
    have hn2 : n1 + (ds.n - n1) = ds.recs.length := by simp [DS.n] at hn ⊢; omega
    constructor
    · refine ⟨fun k r hk => ⟨r, reshape_take_get hr hn1 hk, fun _ _ hx => hx⟩,
        fun k g hk => ⟨g, reshape_take_get ht (by omega) hk, fun _ y hy => ⟨y, hy, rfl⟩⟩, ?_,
        fun _ _ hj => hj, fun _ _ hj => hj⟩
      intro k w hw
      dsimp only at hw
      split at hw
      · exact take_get hw
      · exact hw
    · refine ⟨fun k r hk => ⟨r, reshape_drop_get hr hn2 hk, fun _ _ hx => hx⟩,
        fun k g hk => ⟨g, reshape_drop_get ht (by omega) hk, fun _ y hy => ⟨y, hy, rfl⟩⟩, ?_,
        fun _ _ hj => hj, fun _ _ hj => hj⟩
      intro k w hw
      dsimp only at hw
      split at hw
      · simpa [List.getElem?_drop] using hw
      · simp at hw

theorem flatten_singletons {α} : ∀ (rows : List (List α)), (∀ g ∈ rows, g.length = 1) →
    rows.flatten.map ([·]) = rows := by
  intro rows
  induction rows with
  | nil => intro _; rfl
  | cons g rows ih =>
    intro h
    have hg : g.length = 1 := h g (by simp)
    match g, hg with
    | [x], _ => simp [ih (fun g hg => h g (by simp [hg]))]

theorem intoSingleTarget_alignedBy {ds d : DS R T W} (ht : ∀ g ∈ ds.tgts, g.length = 1)
    (h : intoSingleTarget ds = some d) : AlignedBy id id id id ds d := by
  unfold intoSingleTarget at h
  simp only at h
  split at h
  · simp only [Option.some.injEq] at h
    subst h
    refine ⟨fun _ r h => ⟨r, h, fun _ _ hx => hx⟩, ?_, fun _ _ hw => by simp at hw,
      fun _ _ hj => by simp at hj, fun _ _ hj => by simp at hj⟩
    intro k g hg
    simp only [flatten_singletons ds.tgts ht] at hg
    exact ⟨g, hg, fun _ y hy => ⟨y, hy, rfl⟩⟩
  · simp at h

end LinfaSpec.Dataset
