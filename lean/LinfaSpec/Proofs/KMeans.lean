import LinfaSpec.Model.KMeans
import Mathlib.Tactic.Ring
import Mathlib.Tactic.Linarith
import Mathlib.Tactic.FieldSimp
import Mathlib.Tactic.Positivity
import Mathlib.Algebra.Order.Field.Basic
import Mathlib.Algebra.BigOperators.Group.Finset.Basic
import Mathlib.Algebra.BigOperators.Group.Finset.Piecewise
import Mathlib.Algebra.Order.BigOperators.Group.Finset
import Mathlib.Algebra.Order.BigOperators.Group.List

/-! Helper lemmas for C09 (k-means). -/
set_option linter.unusedSectionVars false
namespace LinfaSpec.KMeans
open LinfaSpec

theorem getD_eq_getElem' {β : Type} (l : List β) (d : β) {j : Nat} (h : j < l.length) :
    l.getD j d = l[j] := by
  simp [List.getD_eq_getElem?_getD, h]

section Closest
variable {α : Type} [LinearOrder α]

/-- invariant of the scan: the result is below the incoming best and below every scanned
distance; it is either the incoming best (then nothing scanned was strictly smaller) or sits at the
first position whose distance is strictly below the incoming best and minimal. -/
theorem closestGo_spec (rd : List α → List α → α) (x : List α) (cs : List (List α)) (i : Nat)
    (best : Nat × α) :
    let r := closestGo rd x cs i best
    r.2 ≤ best.2 ∧ (∀ j, (h : j < cs.length) → r.2 ≤ rd cs[j] x) ∧
    ((r = best) ∨ (∃ j, ∃ h : j < cs.length, r.1 = i + j ∧ r.2 = rd cs[j] x ∧ r.2 < best.2 ∧
        ∀ j', (h' : j' < j) → r.2 < rd (cs[j']'(by omega)) x)) := by
  induction cs generalizing i best with
  | nil => simp [closestGo]
  | cons c cs ih =>
    simp only [closestGo]
    by_cases hlt : rd c x < best.2
    · simp only [hlt, if_true]
      obtain ⟨h1, h2, h3⟩ := ih (i + 1) (i, rd c x)
      refine ⟨le_trans h1 (le_of_lt hlt), ?_, ?_⟩
      · intro j hj
        cases j with
        | zero => simpa using h1
        | succ j => simpa using h2 j (by simpa using hj)
      · right
        rcases h3 with h3 | ⟨j, hj, e1, e2, e3, e4⟩
        · refine ⟨0, by simp, ?_, ?_, ?_, ?_⟩
          · rw [h3]; rfl
          · rw [h3]; rfl
          · rw [h3]; exact hlt
          · intro j' h'; omega
        · refine ⟨j + 1, by simpa using hj, by rw [e1]; omega, by simpa using e2, lt_trans e3 hlt, ?_⟩
          intro j' h'
          cases j' with
          | zero => simpa using e3
          | succ j' => simpa using e4 j' (by omega)
    · simp only [hlt, if_false]
      obtain ⟨h1, h2, h3⟩ := ih (i + 1) best
      refine ⟨h1, ?_, ?_⟩
      · intro j hj
        cases j with
        | zero => simpa using le_trans h1 (not_lt.mp hlt)
        | succ j => simpa using h2 j (by simpa using hj)
      · rcases h3 with h3 | ⟨j, hj, e1, e2, e3, e4⟩
        · left; exact h3
        · right
          refine ⟨j + 1, by simpa using hj, by rw [e1]; omega, by simpa using e2, e3, ?_⟩
          intro j' h'
          cases j' with
          | zero => simpa using lt_of_lt_of_le e3 (not_lt.mp hlt)
          | succ j' => simpa using e4 j' (by omega)

/-- `closest_centroid` returns an index in range, the distance at that index, which is minimal,
and the index is the first one attaining the minimum. -/
theorem closest_spec (rd : List α → List α → α) (cs : List (List α)) (x : List α) (hk : cs ≠ []) :
    (closest rd cs x).1 < cs.length ∧
      (closest rd cs x).2 = rd (cs.getD (closest rd cs x).1 []) x ∧
      (∀ j, j < cs.length → (closest rd cs x).2 ≤ rd (cs.getD j []) x) ∧
      (∀ j, j < (closest rd cs x).1 → (closest rd cs x).2 < rd (cs.getD j []) x) := by
  obtain ⟨c0, cs', rfl⟩ := List.exists_cons_of_ne_nil hk
  have := closestGo_spec rd x (c0 :: cs') 0 (0, rd c0 x)
  simp only [] at this
  obtain ⟨h1, h2, h3⟩ := this
  have hc : closest rd (c0 :: cs') x = closestGo rd x (c0 :: cs') 0 (0, rd c0 x) := rfl
  rw [hc]
  generalize closestGo rd x (c0 :: cs') 0 (0, rd c0 x) = r at *
  have h2' : ∀ j, j < (c0 :: cs').length → r.2 ≤ rd ((c0 :: cs').getD j []) x := by
    intro j hj
    rw [getD_eq_getElem' _ _ hj]; exact h2 j hj
  rcases h3 with h3 | ⟨j, hj, e1, e2, e3, e4⟩
  · subst h3
    refine ⟨by simp, by simp, h2', ?_⟩
    intro j hj; simp at hj
  · have e1' : r.1 = j := by omega
    refine ⟨by omega, ?_, h2', ?_⟩
    · rw [e1', getD_eq_getElem' _ _ hj]; exact e2
    · intro j' hj'
      rw [getD_eq_getElem' _ _ (by omega)]
      exact e4 j' (by omega)

end Closest

section Sums
variable {α : Type} [Field α] [LinearOrder α] [IsStrictOrderedRing α]

theorem sumS_eq_sum (l : List α) : sumS l = l.sum := by
  unfold sumS; rw [List.sum_eq_foldl]

theorem foldl_add_eq (l : List α) (a : α) : l.foldl (· + ·) a = a + l.sum := by
  induction l generalizing a with
  | nil => simp
  | cons x l ih => simp [ih, add_assoc]

theorem sumU8Go_eq (l : List α) (p0 p1 p2 p3 p4 p5 p6 p7 : α) :
    sumU8Go l p0 p1 p2 p3 p4 p5 p6 p7 = p0 + p1 + p2 + p3 + p4 + p5 + p6 + p7 + l.sum := by
  fun_induction sumU8Go l p0 p1 p2 p3 p4 p5 p6 p7 with
  | case1 x0 x1 x2 x3 x4 x5 x6 x7 rest p0 p1 p2 p3 p4 p5 p6 p7 ih =>
    rw [ih]; simp only [List.sum_cons]; ring
  | case2 rest p0 p1 p2 p3 p4 p5 p6 p7 _ =>
    rw [foldl_add_eq]; ring

/-- ndarray's unrolled sum is the sum -/
theorem sumU8_eq_sum (l : List α) : sumU8 l = l.sum := by
  unfold sumU8; rw [sumU8Go_eq]; simp

theorem zipWith_sum_eq (g : α → α → α) (a b : List α) (p : Nat) (ha : a.length = p)
    (hb : b.length = p) :
    (List.zipWith g a b).sum = ∑ d ∈ Finset.range p, g (a.getD d 0) (b.getD d 0) := by
  induction a generalizing b p with
  | nil => subst ha; simp
  | cons x a ih =>
    cases b with
    | nil => simp at hb; subst hb; simp at ha
    | cons y b =>
      cases p with
      | zero => simp at ha
      | succ p =>
        simp only [List.zipWith_cons_cons, List.sum_cons, Finset.sum_range_succ', List.getD_cons_succ,
          List.getD_cons_zero]
        rw [ih b p (by simpa using ha) (by simpa using hb)]; ring

theorem sqL2_eq (a b : List α) (p : Nat) (ha : a.length = p) (hb : b.length = p) :
    sqL2 a b = ∑ d ∈ Finset.range p, (a.getD d 0 - b.getD d 0) * (a.getD d 0 - b.getD d 0) := by
  unfold sqL2; rw [sumS_eq_sum, zipWith_sum_eq _ a b p ha hb]

theorem getD_zipWith (f : α → α → α) (a b : List α) (d : Nat) (ha : d < a.length)
    (hb : d < b.length) : (List.zipWith f a b).getD d 0 = f (a.getD d 0) (b.getD d 0) := by
  rw [getD_eq_getElem' _ _ (by simp; omega), getD_eq_getElem' _ _ ha, getD_eq_getElem' _ _ hb]
  simp

theorem foldl_vadd (rows : List (List α)) (z : List α) (p : Nat) (hz : z.length = p)
    (hr : ∀ x ∈ rows, x.length = p) :
    (rows.foldl vadd z).length = p ∧
    ∀ d, d < p → (rows.foldl vadd z).getD d 0 = z.getD d 0 + (rows.map (·.getD d 0)).sum := by
  induction rows generalizing z with
  | nil => simp [hz]
  | cons x rows ih =>
    have hx : x.length = p := hr x (by simp)
    have hz' : (vadd z x).length = p := by simp [vadd, hz, hx]
    obtain ⟨h1, h2⟩ := ih (vadd z x) hz' (fun y hy => hr y (by simp [hy]))
    refine ⟨by simpa using h1, ?_⟩
    intro d hd
    simp only [List.foldl_cons, List.map_cons, List.sum_cons]
    rw [h2 d hd]
    unfold vadd
    rw [getD_zipWith _ _ _ _ (by omega) (by omega)]; ring

theorem vsum_spec (p : Nat) (rows : List (List α)) (hr : ∀ x ∈ rows, x.length = p) :
    (vsum p rows).length = p ∧
    ∀ d, d < p → (vsum p rows).getD d 0 = (rows.map (·.getD d 0)).sum := by
  obtain ⟨h1, h2⟩ := foldl_vadd rows (List.replicate p (0 : α)) p (by simp) hr
  refine ⟨h1, ?_⟩
  intro d hd
  unfold vsum
  rw [h2 d hd, getD_eq_getElem' _ _ (by simpa using hd)]; simp

/-- **the update step, coordinate by coordinate**: the new centroid is the mean of the member
rows together with the old centroid. -/
theorem updateOne_spec (c : List α) (rows : List (List α)) (hr : ∀ x ∈ rows, x.length = c.length) :
    (updateOne c rows).length = c.length ∧
    ∀ d, d < c.length → (updateOne c rows).getD d 0 =
      ((rows.map (·.getD d 0)).sum + c.getD d 0) / ((rows.length : α) + 1) := by
  obtain ⟨h1, h2⟩ := vsum_spec c.length rows hr
  unfold updateOne
  refine ⟨by simp [vadd, h1], ?_⟩
  intro d hd
  have hl : d < (vadd (vsum c.length rows) c).length := by simp [vadd, h1, hd]
  rw [getD_eq_getElem' _ _ (by simpa using hl)]
  simp only [List.getElem_map]
  rw [← getD_eq_getElem' _ (0 : α) hl]
  unfold vadd
  rw [getD_zipWith _ _ _ _ (by omega) hd, h2 d hd]
  push_cast; ring

theorem sum_sq_expand (ys : List α) (t : α) :
    (ys.map fun y => (t - y) * (t - y)).sum =
      (ys.length : α) * t * t - 2 * t * ys.sum + (ys.map fun y => y * y).sum := by
  induction ys with
  | nil => simp
  | cons y ys ih => simp only [List.map_cons, List.sum_cons, List.length_cons, ih]; push_cast; ring

/-- Appendix A.4, one coordinate of one cluster: replacing `c` by the mean of the members and `c`
does not increase the sum of squared deviations. -/
theorem scalar_descent (ys : List α) (c : α) :
    (ys.map fun y => ((ys.sum + c) / ((ys.length : α) + 1) - y) *
        ((ys.sum + c) / ((ys.length : α) + 1) - y)).sum ≤
      (ys.map fun y => (c - y) * (c - y)).sum := by
  rw [sum_sq_expand, sum_sq_expand]
  have hn : (0 : α) ≤ (ys.length : α) := Nat.cast_nonneg _
  have hn1 : (0 : α) < (ys.length : α) + 1 := by linarith
  set n : α := (ys.length : α) with hn_def
  set S : α := ys.sum with hS
  have key : (n * c * c - 2 * c * S) - (n * ((S + c) / (n + 1)) * ((S + c) / (n + 1)) -
      2 * ((S + c) / (n + 1)) * S) = (n * c - S) ^ 2 * (n + 2) / (n + 1) ^ 2 := by
    field_simp; ring
  have hpos : 0 ≤ (n * c - S) ^ 2 * (n + 2) / (n + 1) ^ 2 := by positivity
  linarith

theorem sum_map_finset_sum {β : Type} (rows : List β) (p : Nat) (f : β → Nat → α) :
    (rows.map fun x => ∑ d ∈ Finset.range p, f x d).sum =
      ∑ d ∈ Finset.range p, (rows.map fun x => f x d).sum := by
  induction rows with
  | nil => simp
  | cons x rows ih => simp only [List.map_cons, List.sum_cons, ih, Finset.sum_add_distrib]

/-- Appendix A.4 for one cluster: the updated centroid has no larger sum of squared distances to
the members of the cluster than the old one. -/
theorem cluster_descent (c : List α) (rows : List (List α))
    (hr : ∀ x ∈ rows, x.length = c.length) :
    (rows.map (sqL2 (updateOne c rows))).sum ≤ (rows.map (sqL2 c)).sum := by
  obtain ⟨hl, hc⟩ := updateOne_spec c rows hr
  have e1 : rows.map (sqL2 (updateOne c rows)) = rows.map fun x => ∑ d ∈ Finset.range c.length,
      ((updateOne c rows).getD d 0 - x.getD d 0) * ((updateOne c rows).getD d 0 - x.getD d 0) := by
    apply List.map_congr_left; intro x hx; exact sqL2_eq _ _ _ hl (hr x hx)
  have e2 : rows.map (sqL2 c) = rows.map fun x => ∑ d ∈ Finset.range c.length,
      (c.getD d 0 - x.getD d 0) * (c.getD d 0 - x.getD d 0) := by
    apply List.map_congr_left; intro x hx; exact sqL2_eq _ _ _ rfl (hr x hx)
  rw [e1, e2, sum_map_finset_sum, sum_map_finset_sum]
  apply Finset.sum_le_sum
  intro d hd
  have hd' : d < c.length := Finset.mem_range.mp hd
  rw [hc d hd']
  have := scalar_descent (rows.map (·.getD d 0)) (c.getD d 0)
  simpa [List.map_map, Function.comp_def] using this

theorem zipWith_map_self {β γ δ : Type} (f : β → γ → δ) (h : β → γ) (xs : List β) :
    List.zipWith f xs (xs.map h) = xs.map fun x => f x (h x) := by
  induction xs with
  | nil => rfl
  | cons x xs ih => simp [ih]

theorem members_cons (j : Nat) (x : List α) (xs : List (List α)) (m : Nat) (mem : List Nat) :
    members j (x :: xs) (m :: mem) = if m = j then x :: members j xs mem else members j xs mem := by
  unfold members
  by_cases h : m = j <;> simp [h]

theorem members_sub (j : Nat) (xs : List (List α)) (mem : List Nat) :
    ∀ x ∈ members j xs mem, x ∈ xs := by
  intro x hx
  unfold members at hx
  simp only [List.mem_map, List.mem_filter] at hx
  obtain ⟨q, ⟨hq, _⟩, rfl⟩ := hx
  exact (List.of_mem_zip hq).1

/-- a sum over the rows, each at its own cluster, is the sum over the clusters of the sums over
their members -/
theorem regroup (g : Nat → List α → α) (k : Nat) (xs : List (List α)) (mem : List Nat)
    (hm : ∀ j ∈ mem, j < k) :
    (List.zipWith (fun x j => g j x) xs mem).sum =
      ∑ j ∈ Finset.range k, ((members j xs mem).map (g j)).sum := by
  induction xs generalizing mem with
  | nil => simp [members]
  | cons x xs ih =>
    cases mem with
    | nil => simp [members]
    | cons m mem =>
      have hmk : m < k := hm m (by simp)
      simp only [List.zipWith_cons_cons, List.sum_cons, members_cons]
      rw [ih mem (fun j hj => hm j (by simp [hj]))]
      have : ∀ j, ((if m = j then x :: members j xs mem else members j xs mem).map (g j)).sum =
          (if m = j then g j x else 0) + ((members j xs mem).map (g j)).sum := by
        intro j; by_cases h : m = j <;> simp [h]
      simp only [this, Finset.sum_add_distrib, Finset.sum_ite_eq, Finset.mem_range, hmk, if_true]

theorem cost_eq (rd : List α → List α → α) (cs xs : List (List α)) :
    cost rd cs xs = (xs.map fun x => (closest rd cs x).2).sum := by
  unfold cost assign; rw [sumS_eq_sum, List.map_map]; rfl

/-- the assignment step: the cost of a centroid matrix is at most its cost under any other
assignment of the rows to its centroids -/
theorem cost_le_any_assignment (rd : List α → List α → α) (cs xs : List (List α)) (hk : cs ≠ [])
    (h : List α → Nat) (hh : ∀ x ∈ xs, h x < cs.length) :
    cost rd cs xs ≤ (xs.map fun x => rd (cs.getD (h x) []) x).sum := by
  rw [cost_eq]
  apply List.sum_le_sum
  intro x hx
  exact (closest_spec rd cs x hk).2.2.1 (h x) (hh x hx)

theorem updateCentroids_length (cs xs : List (List α)) (mem : List Nat) :
    (updateCentroids cs xs mem).length = cs.length := by
  simp [updateCentroids]

theorem updateCentroids_getD (cs xs : List (List α)) (mem : List Nat) (j : Nat) (hj : j < cs.length) :
    (updateCentroids cs xs mem).getD j [] = updateOne (cs.getD j []) (members j xs mem) := by
  rw [getD_eq_getElem' _ _ (by simpa [updateCentroids] using hj)]
  simp [updateCentroids]

/-- well-formed input: `k ≥ 1` centroids and all rows of dimension `p` -/
structure WF (p : Nat) (cs xs : List (List α)) : Prop where
  k_pos : cs ≠ []
  cdim : ∀ c ∈ cs, c.length = p
  xdim : ∀ x ∈ xs, x.length = p

theorem getD_dim (p : Nat) (cs : List (List α)) (h : ∀ c ∈ cs, c.length = p) (j : Nat)
    (hj : j < cs.length) : (cs.getD j []).length = p := by
  rw [getD_eq_getElem' _ _ hj]; exact h _ (List.getElem_mem hj)

theorem lloydStep_wf (rd : List α → List α → α) (p : Nat) (cs xs : List (List α))
    (w : WF p cs xs) : WF p (lloydStep rd xs cs) xs := by
  refine ⟨?_, ?_, w.xdim⟩
  · intro h
    have := congrArg List.length h
    rw [lloydStep, updateCentroids_length] at this
    exact w.k_pos (List.eq_nil_of_length_eq_zero (by simpa using this))
  · intro c hc
    unfold lloydStep updateCentroids at hc
    simp only [List.mem_map, List.mem_range] at hc
    obtain ⟨j, hj, rfl⟩ := hc
    have hd := getD_dim p cs w.cdim j hj
    rw [(updateOne_spec _ _ (fun x hx => by
      rw [hd]; exact w.xdim x (members_sub _ _ _ x hx))).1, hd]

/-- **one Lloyd iteration does not increase the squared-L2 within-cluster cost** -/
theorem lloydStep_cost_le (p : Nat) (cs xs : List (List α)) (w : WF p cs xs) :
    cost sqL2 (lloydStep sqL2 xs cs) xs ≤ cost sqL2 cs xs := by
  have hkpos : 0 < cs.length := List.length_pos_of_ne_nil w.k_pos
  set h : List α → Nat := fun x => (closest sqL2 cs x).1 with hh
  set mem := (assign sqL2 cs xs).map (·.1) with hmem
  have hmem' : mem = xs.map h := by simp [hmem, assign, List.map_map, hh, Function.comp_def]
  have hlt : ∀ x, h x < cs.length := fun x => (closest_spec sqL2 cs x w.k_pos).1
  have hm : ∀ j ∈ mem, j < cs.length := by
    intro j hj; rw [hmem'] at hj
    obtain ⟨x, _, rfl⟩ := List.mem_map.mp hj; exact hlt x
  set cs' := lloydStep sqL2 xs cs with hcs'
  have hcs'_def : cs' = updateCentroids cs xs mem := rfl
  have hlen : cs'.length = cs.length := by rw [hcs'_def, updateCentroids_length]
  have w' : WF p cs' xs := lloydStep_wf sqL2 p cs xs w
  -- (1) the old cost, row by row at the assigned centroid
  have e1 : cost sqL2 cs xs = (List.zipWith (fun x j => sqL2 (cs.getD j []) x) xs mem).sum := by
    rw [cost_eq, hmem', zipWith_map_self]
    apply congrArg; apply List.map_congr_left; intro x _
    exact (closest_spec sqL2 cs x w.k_pos).2.1
  -- (5) the new cost is at most the new centroids under the old assignment
  have e5 : cost sqL2 cs' xs ≤ (List.zipWith (fun x j => sqL2 (cs'.getD j []) x) xs mem).sum := by
    rw [hmem', zipWith_map_self]
    exact cost_le_any_assignment sqL2 cs' xs w'.k_pos h (fun x _ => by rw [hlen]; exact hlt x)
  rw [e1]
  refine le_trans e5 ?_
  rw [regroup (fun j x => sqL2 (cs'.getD j []) x) cs.length xs mem hm,
    regroup (fun j x => sqL2 (cs.getD j []) x) cs.length xs mem hm]
  apply Finset.sum_le_sum
  intro j hj
  have hj' : j < cs.length := Finset.mem_range.mp hj
  rw [hcs'_def, updateCentroids_getD cs xs mem j hj']
  apply cluster_descent
  intro x hx
  rw [getD_dim p cs w.cdim j hj']
  exact w.xdim x (members_sub _ _ _ x hx)

theorem fitLoop_wf (rd : List α → List α → α) (conv : List (List α) → List (List α) → Bool)
    (p : Nat) (xs : List (List α)) (m : Nat) (cs : List (List α)) (w : WF p cs xs) :
    WF p (fitLoop rd conv xs m cs) xs := by
  induction m generalizing cs with
  | zero => simpa [fitLoop] using w
  | succ f ih =>
    simp only [fitLoop]
    split
    · exact lloydStep_wf rd p cs xs w
    · exact ih _ (lloydStep_wf rd p cs xs w)

theorem fitLoop_length (rd : List α → List α → α) (conv : List (List α) → List (List α) → Bool)
    (xs : List (List α)) (m : Nat) (cs : List (List α)) :
    (fitLoop rd conv xs m cs).length = cs.length := by
  induction m generalizing cs with
  | zero => simp [fitLoop]
  | succ f ih =>
    simp only [fitLoop]
    split
    · simp [lloydStep, updateCentroids_length]
    · rw [ih]; simp [lloydStep, updateCentroids_length]

theorem fitLoop_conv (rd : List α → List α → α) (conv : List (List α) → List (List α) → Bool)
    (xs : List (List α)) (f : Nat) (cs : List (List α)) (h : conv cs (lloydStep rd xs cs) = true) :
    fitLoop rd conv xs (f + 1) cs = lloydStep rd xs cs := by
  simp [fitLoop, h]

theorem fitLoop_one (rd : List α → List α → α) (conv : List (List α) → List (List α) → Bool)
    (xs : List (List α)) (cs : List (List α)) :
    fitLoop rd conv xs 1 cs = lloydStep rd xs cs := by
  simp [fitLoop]

theorem fitLoop_nconv (rd : List α → List α → α) (conv : List (List α) → List (List α) → Bool)
    (xs : List (List α)) (f : Nat) (cs : List (List α)) (h : conv cs (lloydStep rd xs cs) = false) :
    fitLoop rd conv xs (f + 2) cs = fitLoop rd conv xs (f + 1) (lloydStep rd xs cs) := by
  rw [fitLoop]; simp [h]

/-- one more iteration in the budget never gives a higher cost -/
theorem fitLoop_cost_succ (conv : List (List α) → List (List α) → Bool) (p : Nat)
    (xs : List (List α)) (m : Nat) (cs : List (List α)) (w : WF p cs xs) :
    cost sqL2 (fitLoop sqL2 conv xs (m + 2) cs) xs ≤ cost sqL2 (fitLoop sqL2 conv xs (m + 1) cs) xs := by
  induction m generalizing cs with
  | zero =>
    by_cases hc : conv cs (lloydStep sqL2 xs cs) = true
    · rw [fitLoop_conv _ _ _ _ _ hc, fitLoop_conv _ _ _ _ _ hc]
    · have hc' : conv cs (lloydStep sqL2 xs cs) = false := by simpa using hc
      rw [fitLoop_nconv sqL2 conv xs 0 cs hc', fitLoop_one, fitLoop_one]
      exact lloydStep_cost_le p _ xs (lloydStep_wf sqL2 p cs xs w)
  | succ n ih =>
    by_cases hc : conv cs (lloydStep sqL2 xs cs) = true
    · rw [fitLoop_conv _ _ _ _ _ hc, fitLoop_conv _ _ _ _ _ hc]
    · have hc' : conv cs (lloydStep sqL2 xs cs) = false := by simpa using hc
      rw [fitLoop_nconv sqL2 conv xs (n + 1) cs hc', fitLoop_nconv sqL2 conv xs n cs hc']
      exact ih _ (lloydStep_wf sqL2 p cs xs w)

theorem fitLoop_cost_antitone (conv : List (List α) → List (List α) → Bool) (p : Nat)
    (xs : List (List α)) (cs : List (List α)) (w : WF p cs xs) (m m' : Nat) (h1 : 1 ≤ m)
    (h : m ≤ m') :
    cost sqL2 (fitLoop sqL2 conv xs m' cs) xs ≤ cost sqL2 (fitLoop sqL2 conv xs m cs) xs := by
  induction m' with
  | zero => omega
  | succ n ih =>
    by_cases hmn : m = n + 1
    · subst hmn; exact le_refl _
    · have hle : m ≤ n := by omega
      refine le_trans ?_ (ih hle)
      obtain ⟨n', rfl⟩ : ∃ n', n = n' + 1 := ⟨n - 1, by omega⟩
      exact fitLoop_cost_succ conv p xs n' cs w

/-- coordinates of a vector inside per-coordinate bounds -/
def InBox (lo hi : Nat → α) (v : List α) : Prop :=
  ∀ d, d < v.length → lo d ≤ v.getD d 0 ∧ v.getD d 0 ≤ hi d

theorem mean_in_range (ys : List α) (c lo hi : α) (hy : ∀ y ∈ ys, lo ≤ y ∧ y ≤ hi)
    (hc : lo ≤ c ∧ c ≤ hi) :
    lo ≤ (ys.sum + c) / ((ys.length : α) + 1) ∧ (ys.sum + c) / ((ys.length : α) + 1) ≤ hi := by
  have hb : (ys.length : α) * lo ≤ ys.sum ∧ ys.sum ≤ (ys.length : α) * hi := by
    induction ys with
    | nil => simp
    | cons y ys ih =>
      obtain ⟨h1, h2⟩ := ih (fun z hz => hy z (by simp [hz]))
      obtain ⟨h3, h4⟩ := hy y (by simp)
      simp only [List.sum_cons, List.length_cons]; push_cast
      constructor <;> nlinarith
  have hn1 : (0 : α) < (ys.length : α) + 1 := by
    have : (0 : α) ≤ (ys.length : α) := Nat.cast_nonneg _
    linarith
  constructor
  · rw [le_div_iff₀ hn1]; nlinarith [hb.1, hc.1]
  · rw [div_le_iff₀ hn1]; nlinarith [hb.2, hc.2]

theorem lloydStep_inBox (rd : List α → List α → α) (lo hi : Nat → α) (p : Nat)
    (cs xs : List (List α)) (w : WF p cs xs) (hx : ∀ x ∈ xs, InBox lo hi x)
    (hcs : ∀ c ∈ cs, InBox lo hi c) : ∀ c ∈ lloydStep rd xs cs, InBox lo hi c := by
  intro c hc
  unfold lloydStep updateCentroids at hc
  simp only [List.mem_map, List.mem_range] at hc
  obtain ⟨j, hj, rfl⟩ := hc
  have hd := getD_dim p cs w.cdim j hj
  have hrows : ∀ x ∈ members j xs ((assign rd cs xs).map (·.1)), x.length = (cs.getD j []).length :=
    fun x hx' => by rw [hd]; exact w.xdim x (members_sub _ _ _ x hx')
  obtain ⟨hl, hcoord⟩ := updateOne_spec (cs.getD j []) _ hrows
  intro d hdl
  rw [hl] at hdl
  rw [hcoord d hdl]
  have hcj : InBox lo hi (cs.getD j []) := by
    rw [getD_eq_getElem' _ _ hj]; exact hcs _ (List.getElem_mem hj)
  have := mean_in_range ((members j xs ((assign rd cs xs).map (·.1))).map (·.getD d 0))
    ((cs.getD j []).getD d 0) (lo d) (hi d) (by
      intro y hy
      obtain ⟨x, hxm, rfl⟩ := List.mem_map.mp hy
      have hxx := members_sub _ _ _ x hxm
      exact hx x hxx d (by rw [w.xdim x hxx, ← hd]; exact hdl)) (hcj d hdl)
  simpa using this

theorem fitLoop_inBox (rd : List α → List α → α) (conv : List (List α) → List (List α) → Bool)
    (lo hi : Nat → α) (p : Nat) (xs : List (List α)) (hx : ∀ x ∈ xs, InBox lo hi x) (m : Nat)
    (cs : List (List α)) (w : WF p cs xs) (hcs : ∀ c ∈ cs, InBox lo hi c) :
    ∀ c ∈ fitLoop rd conv xs m cs, InBox lo hi c := by
  induction m generalizing cs with
  | zero => simpa [fitLoop] using hcs
  | succ f ih =>
    simp only [fitLoop]
    split
    · exact lloydStep_inBox rd lo hi p cs xs w hx hcs
    · exact ih _ (lloydStep_wf rd p cs xs w) (lloydStep_inBox rd lo hi p cs xs w hx hcs)

/-- the selection keeps a candidate and never raises the kept inertia -/
theorem better_some (ltInf : α → Bool) (b r : Run α) :
    ∃ b', better ltInf (some b) r = some b' ∧ b'.inertia ≤ b.inertia ∧ (b' = b ∨ b' = r) := by
  unfold better
  by_cases h : r.inertia < b.inertia
  · exact ⟨r, by simp [h], le_of_lt h, Or.inr rfl⟩
  · exact ⟨b, by simp [h], le_refl _, Or.inl rfl⟩

theorem foldl_better_some (ltInf : α → Bool) (rs : List (Run α)) (b : Run α) :
    ∃ b', rs.foldl (better ltInf) (some b) = some b' ∧ b'.inertia ≤ b.inertia ∧
      (b' = b ∨ b' ∈ rs) := by
  induction rs generalizing b with
  | nil => exact ⟨b, rfl, le_refl _, Or.inl rfl⟩
  | cons r rs ih =>
    obtain ⟨b1, e1, l1, m1⟩ := better_some ltInf b r
    obtain ⟨b2, e2, l2, m2⟩ := ih b1
    refine ⟨b2, by simp [List.foldl_cons, e1, e2], le_trans l2 l1, ?_⟩
    rcases m2 with rfl | m2
    · rcases m1 with rfl | rfl
      · exact Or.inl rfl
      · exact Or.inr (by simp)
    · exact Or.inr (by simp [m2])

theorem foldl_better_mem (ltInf : α → Bool) (rs : List (Run α)) (b : Run α)
    (h : rs.foldl (better ltInf) none = some b) : b ∈ rs := by
  induction rs with
  | nil => simp at h
  | cons r rs ih =>
    simp only [List.foldl_cons] at h
    by_cases hl : ltInf r.inertia = true
    · simp only [better, hl, if_true] at h
      obtain ⟨b', e, _, m⟩ := foldl_better_some ltInf rs r
      rw [e] at h; cases h
      rcases m with rfl | m
      · simp
      · simp [m]
    · simp only [better, hl, if_false, Bool.false_eq_true] at h
      exact List.mem_cons_of_mem _ (ih h)

theorem fitRuns_eq (rd : List α → List α → α) (conv : List (List α) → List (List α) → Bool)
    (ltInf : α → Bool) (xs : List (List α)) (budget : Nat) (inits : List (List (List α))) :
    fitRuns rd conv ltInf xs budget inits =
      (inits.map (runOnce rd conv xs budget)).foldl (better ltInf) none := by
  unfold fitRuns; rw [List.foldl_map]

/-- the kept run is one of the runs -/
theorem fitRuns_mem (rd : List α → List α → α) (conv : List (List α) → List (List α) → Bool)
    (ltInf : α → Bool) (xs : List (List α)) (budget : Nat) (inits : List (List (List α)))
    (b : Run α) (h : fitRuns rd conv ltInf xs budget inits = some b) :
    ∃ init ∈ inits, b = runOnce rd conv xs budget init := by
  rw [fitRuns_eq] at h
  have := foldl_better_mem ltInf _ b h
  obtain ⟨init, hi, rfl⟩ := List.mem_map.mp this
  exact ⟨init, hi, rfl⟩

/-- more restarts: the kept inertia can only go down -/
theorem fitRuns_append_le (rd : List α → List α → α) (conv : List (List α) → List (List α) → Bool)
    (ltInf : α → Bool) (xs : List (List α)) (budget : Nat) (inits more : List (List (List α)))
    (b : Run α) (h : fitRuns rd conv ltInf xs budget inits = some b) :
    ∃ b', fitRuns rd conv ltInf xs budget (inits ++ more) = some b' ∧ b'.inertia ≤ b.inertia := by
  rw [fitRuns_eq] at h ⊢
  rw [List.map_append, List.foldl_append, h]
  obtain ⟨b', e, l, _⟩ := foldl_better_some ltInf (more.map (runOnce rd conv xs budget)) b
  exact ⟨b', e, l⟩

/-- the selection from a kept candidate ends at an inertia no larger than any later run's -/
theorem foldl_better_some_min (ltInf : α → Bool) (rs : List (Run α)) (b : Run α) :
    ∃ b', rs.foldl (better ltInf) (some b) = some b' ∧ b'.inertia ≤ b.inertia ∧
      ∀ r ∈ rs, b'.inertia ≤ r.inertia := by
  induction rs generalizing b with
  | nil => exact ⟨b, rfl, le_refl _, by simp⟩
  | cons r rs ih =>
    obtain ⟨b1, e1, l1, m1⟩ := better_some ltInf b r
    obtain ⟨b2, e2, l2, m2⟩ := ih b1
    refine ⟨b2, by simp [List.foldl_cons, e1, e2], le_trans l2 l1, ?_⟩
    intro q hq
    rcases List.mem_cons.mp hq with rfl | hq
    · refine le_trans l2 ?_
      unfold better at e1
      by_cases h : q.inertia < b.inertia
      · simp [h] at e1; rw [← e1]
      · simp [h] at e1; rw [← e1]; exact not_lt.mp h
    · exact m2 q hq

/-- with `min_inertia` starting at `+∞` above every value (`ltInf` constantly true, as over an ordered
field), the kept run has the smallest inertia of all runs -/
theorem foldl_better_min (ltInf : α → Bool) (hl : ∀ x, ltInf x = true) (rs : List (Run α))
    (b : Run α) (h : rs.foldl (better ltInf) none = some b) : ∀ r ∈ rs, b.inertia ≤ r.inertia := by
  cases rs with
  | nil => simp at h
  | cons r rs =>
    simp only [List.foldl_cons, better, hl, if_true] at h
    obtain ⟨b', e, l, m⟩ := foldl_better_some_min ltInf rs r
    rw [e] at h; cases h
    intro q hq
    rcases List.mem_cons.mp hq with rfl | hq
    · exact l
    · exact m q hq

/-- … and a run is always kept when there is at least one -/
theorem foldl_better_isSome (ltInf : α → Bool) (hl : ∀ x, ltInf x = true) (rs : List (Run α))
    (hne : rs ≠ []) : ∃ b, rs.foldl (better ltInf) none = some b := by
  cases rs with
  | nil => exact absurd rfl hne
  | cons r rs =>
    simp only [List.foldl_cons, better, hl, if_true]
    obtain ⟨b', e, _, _⟩ := foldl_better_some_min ltInf rs r
    exact ⟨b', e⟩

theorem fitRuns_min (rd : List α → List α → α) (conv : List (List α) → List (List α) → Bool)
    (ltInf : α → Bool) (hl : ∀ x, ltInf x = true) (xs : List (List α)) (budget : Nat)
    (inits : List (List (List α))) (b : Run α)
    (h : fitRuns rd conv ltInf xs budget inits = some b) :
    ∀ init ∈ inits, b.inertia ≤ (runOnce rd conv xs budget init).inertia := by
  rw [fitRuns_eq] at h
  intro init hi
  exact foldl_better_min ltInf hl _ b h _ (List.mem_map.mpr ⟨init, hi, rfl⟩)

theorem fitRuns_isSome (rd : List α → List α → α) (conv : List (List α) → List (List α) → Bool)
    (ltInf : α → Bool) (hl : ∀ x, ltInf x = true) (xs : List (List α)) (budget : Nat)
    (inits : List (List (List α))) (hne : inits ≠ []) :
    ∃ b, fitRuns rd conv ltInf xs budget inits = some b := by
  rw [fitRuns_eq]
  exact foldl_better_isSome ltInf hl _ (by simpa using hne)

/-- the selection against a sentinel `T` (`min_inertia` starts at `T`; the code's `T` is `+∞`): what is
kept is one of the runs, lies strictly below the sentinel and is minimal among all runs; nothing is kept
exactly when no run lies below the sentinel -/
theorem foldl_better_thr (T : α) (rs : List (Run α)) :
    (∀ c, rs.foldl (better (ltThr T)) none = some c →
       c ∈ rs ∧ c.inertia < T ∧ ∀ r ∈ rs, c.inertia ≤ r.inertia) ∧
    (rs.foldl (better (ltThr T)) none = none ↔ ∀ r ∈ rs, ¬ r.inertia < T) := by
  induction rs with
  | nil => simp
  | cons r rs ih =>
    simp only [List.foldl_cons]
    by_cases h : r.inertia < T
    · have e : better (ltThr T) none r = some r := by simp [better, ltThr, h]
      rw [e]
      obtain ⟨b1, e1, l1, m1⟩ := foldl_better_some_min (ltThr T) rs r
      obtain ⟨b2, e2, _, m2⟩ := foldl_better_some (ltThr T) rs r
      rw [e1] at e2
      have hb : b1 = b2 := Option.some.inj e2
      subst hb
      refine ⟨?_, ?_⟩
      · intro c hc
        rw [e1] at hc
        have hc' : b1 = c := Option.some.inj hc
        subst hc'
        refine ⟨?_, lt_of_le_of_lt l1 h, ?_⟩
        · rcases m2 with rfl | m2
          · exact List.mem_cons_self
          · exact List.mem_cons_of_mem _ m2
        · intro q hq
          rcases List.mem_cons.mp hq with rfl | hq
          · exact l1
          · exact m1 q hq
      · rw [e1]
        constructor
        · intro hn; cases hn
        · intro hall; exact absurd h (hall r List.mem_cons_self)
    · have e : better (ltThr T) none r = none := by simp [better, ltThr, h]
      rw [e]
      obtain ⟨ih1, ih2⟩ := ih
      refine ⟨?_, ?_⟩
      · intro c hc
        obtain ⟨m, lt, mn⟩ := ih1 c hc
        refine ⟨List.mem_cons_of_mem _ m, lt, ?_⟩
        intro q hq
        rcases List.mem_cons.mp hq with rfl | hq
        · exact le_of_lt (lt_of_lt_of_le lt (not_lt.mp h))
        · exact mn q hq
      · rw [ih2]
        constructor
        · intro hall q hq
          rcases List.mem_cons.mp hq with rfl | hq
          · exact h
          · exact hall q hq
        · intro hall q hq
          exact hall q (List.mem_cons_of_mem _ hq)

/-- `fitRuns` against a sentinel, in terms of the initial matrices -/
theorem fitRuns_thr (rd : List α → List α → α) (conv : List (List α) → List (List α) → Bool)
    (T : α) (xs : List (List α)) (budget : Nat) (inits : List (List (List α))) :
    (∀ b, fitRuns rd conv (ltThr T) xs budget inits = some b →
       b.inertia < T ∧ ∀ init ∈ inits, b.inertia ≤ (runOnce rd conv xs budget init).inertia) ∧
    (fitRuns rd conv (ltThr T) xs budget inits = none ↔
       ∀ init ∈ inits, ¬ (runOnce rd conv xs budget init).inertia < T) := by
  rw [fitRuns_eq]
  obtain ⟨h1, h2⟩ := foldl_better_thr T (inits.map (runOnce rd conv xs budget))
  refine ⟨?_, ?_⟩
  · intro b hb
    obtain ⟨_, lt, mn⟩ := h1 b hb
    exact ⟨lt, fun init hi => mn _ (List.mem_map.mpr ⟨init, hi, rfl⟩)⟩
  · rw [h2]
    constructor
    · intro hall init hi
      exact hall _ (List.mem_map.mpr ⟨init, hi, rfl⟩)
    · intro hall r hr
      obtain ⟨init, hi, rfl⟩ := List.mem_map.mp hr
      exact hall init hi

theorem list_range_sum {M : Type} [AddCommMonoid M] (f : Nat → M) (k : Nat) :
    ((List.range k).map f).sum = ∑ j ∈ Finset.range k, f j := by
  induction k with
  | zero => simp
  | succ k ih => rw [List.range_succ, List.map_append, List.sum_append, ih, Finset.sum_range_succ]; simp

theorem countOf_cons (j m : Nat) (mem : List Nat) :
    countOf j (m :: mem) = (if m = j then 1 else 0) + countOf j mem := by
  unfold countOf
  by_cases h : m = j
  · simp [h]; omega
  · simp [h]

/-- the per-cluster counts add up to the number of rows -/
theorem countOf_sum (k : Nat) (mem : List Nat) (hm : ∀ j ∈ mem, j < k) :
    ((List.range k).map fun j => countOf j mem).sum = mem.length := by
  rw [list_range_sum]
  induction mem with
  | nil => simp [countOf]
  | cons m mem ih =>
    have hmk : m < k := hm m (by simp)
    simp only [countOf_cons, Finset.sum_add_distrib, Finset.sum_ite_eq, Finset.mem_range, hmk,
      if_true, List.length_cons]
    rw [ih (fun j hj => hm j (by simp [hj]))]; omega

theorem runOnce_inertia (rd : List α → List α → α) (conv : List (List α) → List (List α) → Bool)
    (xs : List (List α)) (budget : Nat) (init : List (List α)) :
    (runOnce rd conv xs budget init).inertia = cost rd (runOnce rd conv xs budget init).centroids xs := by
  simp only [runOnce, cost]; rw [sumU8_eq_sum, sumS_eq_sum]

end Sums

end LinfaSpec.KMeans
