import LinfaSpec.Model.Predict

/-! Helper lemmas for C03 (core Lean only). -/
namespace LinfaSpec.Predict

/-! ### flat buffer of per-sample members -/

theorem flatMap_map_length {R L : Type} (gs : List (R → L)) (rows : List R) :
    (gs.flatMap fun g => rows.map g).length = gs.length * rows.length := by
  induction gs with
  | nil => simp
  | cons g gs ih =>
    simp only [List.flatMap_cons, List.length_append, List.length_map, ih, List.length_cons, Nat.succ_mul]
    omega

/-- the `j * n + i` index lemma: cell `i` of block `j` of the flat buffer is member `j` on row `i` -/
theorem flat_getElem? {R L : Type} (gs : List (R → L)) (rows : List R) (i j : Nat)
    (hi : i < rows.length) :
    (gs.flatMap fun g => rows.map g)[j * rows.length + i]? =
      (gs[j]?).bind fun g => (rows[i]?).map g := by
  induction gs generalizing j with
  | nil => simp
  | cons g gs ih =>
    rw [List.flatMap_cons]
    cases j with
    | zero =>
      simp only [Nat.zero_mul, Nat.zero_add, List.getElem?_cons_zero, Option.bind_some]
      rw [List.getElem?_append_left (by simpa using hi)]
      simp
    | succ j =>
      rw [List.getElem?_append_right (by simp [Nat.succ_mul]; omega)]
      simp only [List.length_map, List.getElem?_cons_succ]
      have : (j + 1) * rows.length + i - rows.length = j * rows.length + i := by
        rw [Nat.succ_mul]; omega
      rw [this]
      exact ih j


theorem filterMap_range_take {α β : Type} (l : List α) (f : α → β) (k : Nat) (hk : k ≤ l.length) :
    (List.range k).filterMap (fun j => (l[j]?).map f) = (l.take k).map f := by
  induction k with
  | zero => simp
  | succ k ih =>
    have hk' : k < l.length := by omega
    rw [List.range_succ, List.filterMap_append, ih (by omega), List.take_add_one]
    simp only [List.map_append, List.filterMap_cons, List.filterMap_nil,
      List.getElem?_eq_getElem hk', Option.map_some, Option.toList_some, List.map_cons, List.map_nil]

theorem filterMap_range_getElem? {α β : Type} (l : List α) (f : α → β) :
    (List.range l.length).filterMap (fun j => (l[j]?).map f) = l.map f := by
  rw [filterMap_range_take l f l.length (Nat.le_refl _), List.take_length]


/-! ### MultiClassModel: the running arg-max, row by row -/

theorem multiClass_fold_nil {R L P : Type} [LT P] [DecidableLT P]
    (ms : List (L × (R → P))) :
    (ms.map fun m => (m.1, fun (rs : List R) => rs.map m.2)).foldl
      (fun res m => multiClassStep res ((m.2 ([] : List R)).map fun p => (m.1, p))) [] = [] := by
  induction ms with
  | nil => rfl
  | cons m ms ih => simpa [multiClassStep] using ih

theorem multiClass_fold_cons {R L P : Type} [LT P] [DecidableLT P]
    (ms : List (L × (R → P))) (rows : List R) (hne : rows ≠ []) (b : R → L × P) :
    (ms.map fun m => (m.1, fun (rs : List R) => rs.map m.2)).foldl
      (fun res m => multiClassStep res ((m.2 rows).map fun p => (m.1, p))) (rows.map b) =
    rows.map fun r => argmaxPairGo (b r) (ms.map fun k => (k.1, k.2 r)) := by
  induction ms generalizing b with
  | nil => simp [argmaxPairGo]
  | cons m ms ih =>
    simp only [List.map_cons, List.foldl_cons, argmaxPairGo]
    have hstep : multiClassStep (rows.map b) ((rows.map m.2).map fun p => (m.1, p)) =
        rows.map fun r => if (b r).2 < m.2 r then (m.1, m.2 r) else b r := by
      unfold multiClassStep
      have : (rows.map b).isEmpty = false := by
        cases rows with
        | nil => exact absurd rfl hne
        | cons _ _ => rfl
      simp only [this, Bool.false_eq_true, if_false, List.map_map]
      rw [List.zipWith_map]
      simp [List.zipWith_self]
    rw [hstep]
    exact ih _


/-! ### generic list facts used by the families -/

theorem map_range_eq_map {α β : Type} (l : List α) (g : Nat → β) (f : α → β)
    (h : ∀ i (hi : i < l.length), g i = f l[i]) :
    (List.range l.length).map g = l.map f := by
  apply List.ext_getElem?
  intro i
  by_cases hi : i < l.length
  · simp [List.getElem?_range hi, List.getElem?_eq_getElem hi, h i hi]
  · have : l.length ≤ i := by omega
    simp [this]

theorem mapM_some_of_forall {α β : Type} (f : α → Option β) (g : α → β) (l : List α)
    (h : ∀ a ∈ l, f a = some (g a)) : l.mapM f = some (l.map g) := by
  induction l with
  | nil => rfl
  | cons a l ih =>
    have ha := h a (by simp)
    have hl := ih (fun x hx => h x (List.mem_cons_of_mem _ hx))
    simp [List.mapM_cons, ha, hl]

theorem column_of_rows {R α : Type} (ss : List (R → α)) (rows : List R) (i : Nat)
    (hi : i < rows.length) :
    column (ss.map fun s => rows.map s) i = ss.map fun s => s rows[i] := by
  unfold column
  induction ss with
  | nil => rfl
  | cons s ss ih => simp [List.filterMap_cons, List.getElem?_eq_getElem hi, ih]

/-! ### the target buffer -/

theorem zipWrite_eq_map {R β : Type} (f : R → Option β) (g : R → β) (rows : List R) (y : List β)
    (h : ∀ r ∈ rows, f r = some (g r)) (hl : y.length = rows.length) :
    zipWrite f rows y = some (rows.map g) := by
  induction rows generalizing y with
  | nil =>
    cases y with
    | nil => rfl
    | cons _ _ => simp at hl
  | cons r rs ih =>
    cases y with
    | nil => simp at hl
    | cons y0 ys =>
      have hr := h r (by simp)
      have := ih ys (fun x hx => h x (List.mem_cons_of_mem _ hx)) (by simpa using hl)
      simp [zipWrite, hr, this]

theorem writeZip_nil_right {β : Type} (l : List β) : writeZip l [] = [] := by
  cases l <;> rfl

theorem writeZip_full {β : Type} (l y : List β) (h : l.length = y.length) : writeZip l y = l := by
  induction l generalizing y with
  | nil =>
    cases y with
    | nil => rfl
    | cons _ _ => simp at h
  | cons a l ih =>
    cases y with
    | nil => simp at h
    | cons b ys => simp [writeZip, ih ys (by simpa using h)]

/-- writing into a default-filled buffer = the `take … ++ replicate …` reading of `multiClassBatch` -/
theorem writeZip_replicate {β : Type} (l : List β) (n : Nat) (d : β) :
    writeZip l (List.replicate n d) = l.take n ++ List.replicate (n - l.length) d := by
  induction l generalizing n with
  | nil => cases n <;> simp [writeZip]
  | cons a l ih =>
    cases n with
    | zero => simp [writeZip]
    | succ n => simp [writeZip, List.replicate_succ, ih n]

/-- after the length assert the zip loop is `mapM` over the rows: the buffer content is irrelevant -/
theorem zipWrite_eq_mapM {R β : Type} (f : R → Option β) (rows : List R) (y : List β)
    (hl : y.length = rows.length) : zipWrite f rows y = rows.mapM f := by
  induction rows generalizing y with
  | nil =>
    cases y with
    | nil => rfl
    | cons _ _ => simp at hl
  | cons r rs ih =>
    cases y with
    | nil => simp at hl
    | cons y0 ys =>
      have := ih ys (by simpa using hl)
      cases hr : f r with
      | none => simp [zipWrite, hr, List.mapM_cons]
      | some v =>
        simp only [zipWrite, hr, this, List.mapM_cons]
        cases rs.mapM f <;> rfl

theorem zipInplace_eq_mapM {R β : Type} (f : R → Option β) (rows : List R) (y : List β)
    (hl : y.length = rows.length) : zipInplace f rows y = rows.mapM f := by
  unfold zipInplace
  simp only [hl, ne_eq, not_true_eq_false, if_false]
  exact zipWrite_eq_mapM f rows y hl

end LinfaSpec.Predict
