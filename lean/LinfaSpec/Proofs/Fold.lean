import LinfaSpec.Model.Fold

/-! Helper lemmas for C01 (core Lean only). -/
namespace LinfaSpec.Fold

theorem chunks_length {α} (fs : Nat) (l : List α) :
    (chunks fs l).length = (l.length + fs - 1) / fs := by
  simp [chunks]

theorem chunks_getElem? {α} (fs : Nat) (l : List α) (i : Nat)
    (h : i < (l.length + fs - 1) / fs) :
    (chunks fs l)[i]? = some ((l.drop (i * fs)).take fs) := by
  simp [chunks, h]

theorem chunks_nil {α} (fs : Nat) (h : 0 < fs) : chunks fs ([] : List α) = [] := by
  have : (0 + fs - 1) / fs = 0 := by
    apply Nat.div_eq_of_lt; omega
  unfold chunks
  rw [List.length_nil, this]; rfl

/-- unfolding: the first chunk, then the chunks of the rest -/
theorem chunks_cons {α} (fs : Nat) (l : List α) (hfs : 0 < fs) (hl : 0 < l.length) :
    chunks fs l = l.take fs :: chunks fs (l.drop fs) := by
  have hcnt : (l.length + fs - 1) / fs = ((l.drop fs).length + fs - 1) / fs + 1 := by
    simp only [List.length_drop]
    by_cases h : l.length ≤ fs
    · have h0 : l.length - fs = 0 := by omega
      rw [h0]
      have e1 : (0 + fs - 1) / fs = 0 := by apply Nat.div_eq_of_lt; omega
      have e2 : (l.length + fs - 1) / fs = 1 := by
        apply Nat.div_eq_of_lt_le <;> omega
      omega
    · have : l.length + fs - 1 = (l.length - fs + fs - 1) + fs := by omega
      rw [this, Nat.add_div_right _ hfs]
  unfold chunks
  rw [hcnt, List.range_succ_eq_map, List.map_cons, List.map_map]
  congr 1
  · simp
  · apply List.map_congr_left
    intro i _
    simp only [Function.comp, List.drop_drop]
    congr 2
    rw [Nat.succ_mul]; omega

theorem chunks_flatten {α} (fs : Nat) (hfs : 0 < fs) (l : List α) :
    (chunks fs l).flatten = l := by
  induction h : l.length using Nat.strongRecOn generalizing l with
  | _ n ih =>
    by_cases hl : l.length = 0
    · have : l = [] := List.eq_nil_of_length_eq_zero hl
      subst this; simp [chunks_nil fs hfs]
    · rw [chunks_cons fs l hfs (by omega), List.flatten_cons,
        ih (l.drop fs).length (by simp; omega) (l.drop fs) rfl, List.take_append_drop]

theorem chunks_drop {α} (fs : Nat) (hfs : 0 < fs) (l : List α) (i : Nat) :
    (chunks fs l).drop i = chunks fs (l.drop (i * fs)) := by
  induction i generalizing l with
  | zero => simp
  | succ i ih =>
    by_cases hl : l.length = 0
    · have : l = [] := List.eq_nil_of_length_eq_zero hl
      subst this; simp [chunks_nil fs hfs]
    · rw [chunks_cons fs l hfs (by omega), List.drop_succ_cons, ih, List.drop_drop]
      congr 2
      rw [Nat.succ_mul]; omega

theorem flatten_drop_chunks {α} (fs : Nat) (hfs : 0 < fs) (l : List α) (i : Nat) :
    ((chunks fs l).drop i).flatten = l.drop (i * fs) := by
  rw [chunks_drop fs hfs, chunks_flatten fs hfs]

theorem flatten_take_chunks {α} (fs : Nat) (hfs : 0 < fs) (l : List α) (i : Nat) :
    ((chunks fs l).take i).flatten = l.take (i * fs) := by
  have h1 : ((chunks fs l).take i).flatten ++ ((chunks fs l).drop i).flatten = l := by
    rw [← List.flatten_append, List.take_append_drop, chunks_flatten fs hfs]
  rw [flatten_drop_chunks fs hfs] at h1
  have h2 : l.take (i * fs) ++ l.drop (i * fs) = l := List.take_append_drop _ _
  exact List.append_cancel_right (h1.trans h2.symm)

/-- the chunk vector at the top of iteration `i` of `fold`'s loop -/
def rot {α} (cs : List α) (i : Nat) : List α :=
  match cs[i]? with
  | some c => c :: (cs.take i ++ cs.drop (i + 1))
  | none => cs

theorem rot_zero {α} (cs : List α) : rot cs 0 = cs := by
  cases cs <;> simp [rot]

theorem swap0_rot {α} (cs : List α) (i : Nat) (h : i + 1 < cs.length) :
    swap0 (rot cs i) (i + 1) = rot cs (i + 1) := by
  have hi : i < cs.length := by omega
  have e1 : cs[i]? = some cs[i] := List.getElem?_eq_getElem hi
  have e2 : cs[i+1]? = some cs[i+1] := List.getElem?_eq_getElem h
  simp only [rot, e1, e2]
  -- element at position i+1 of `c_i :: take i cs ++ drop (i+1) cs` is `c_{i+1}`
  have hlen : (cs.take i).length = i := by simp; omega
  have e3 : (cs[i] :: (cs.take i ++ cs.drop (i + 1)))[i + 1]? = some cs[i+1] := by
    rw [List.getElem?_cons_succ, List.getElem?_append_right (by omega), hlen]
    simp [List.getElem?_drop, e2]
  simp only [swap0, List.getElem?_cons_zero, e3]
  apply List.ext_getElem?
  intro j
  rcases Nat.lt_trichotomy j 0 with hj | hj | hj
  · omega
  · subst hj; simp
  · obtain ⟨j, rfl⟩ : ∃ j', j = j' + 1 := ⟨j - 1, by omega⟩
    simp only [List.set_cons_zero, List.getElem?_cons_succ, List.set_cons_succ]
    rw [List.getElem?_set]
    by_cases hji : i = j
    · subst hji
      have : i < (cs.take i ++ cs.drop (i + 1)).length := by simp; omega
      simp only [this, if_true]
      rw [List.getElem?_append_left (by simp; omega)]
      simp
    · simp only [hji, if_false]
      by_cases hlt : j < i
      · rw [List.getElem?_append_left (by omega), List.getElem?_append_left (by simp; omega)]
        simp [List.getElem?_take, hlt]; intro; omega
      · have hgt : i < j := by omega
        rw [List.getElem?_append_right (by omega), List.getElem?_append_right (by simp; omega)]
        simp only [hlen, List.length_take, List.getElem?_drop]
        congr 1
        have : min (i + 1) cs.length = i + 1 := by omega
        omega

theorem foldGo_spec {α} (k : Nat) (cs : List (List α)) (hk : k ≤ cs.length) :
    ∀ fuel i, i + fuel = k →
      foldGo k fuel i (rot cs i) =
        (List.range fuel).map fun d =>
          ((cs.take (i + d) ++ cs.drop (i + d + 1)).flatten, (cs[i + d]?).getD []) := by
  intro fuel
  induction fuel with
  | zero => intro i _; simp [foldGo]
  | succ f ih =>
    intro i hik
    have hi : i < cs.length := by omega
    have e1 : cs[i]? = some cs[i] := List.getElem?_eq_getElem hi
    rw [foldGo, List.range_succ_eq_map, List.map_cons, List.map_map]
    congr 1
    · simp [rot, e1]
    · have hnext : (if i < k - 1 then swap0 (rot cs i) (i + 1) else rot cs i) = rot cs (i + 1) ∨ f = 0 := by
        by_cases hlt : i < k - 1
        · left; simp only [hlt, if_true]; exact swap0_rot cs i (by omega)
        · right; omega
      rcases hnext with h | h
      · rw [h, ih (i + 1) (by omega)]
        apply List.map_congr_left
        intro d _
        simp only [Function.comp, Nat.succ_eq_add_one]
        have : i + 1 + d = i + (d + 1) := by omega
        rw [this]
      · subst h; simp [foldGo]

end LinfaSpec.Fold
