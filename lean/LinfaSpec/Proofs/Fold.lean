import LinfaSpec.Model.Fold

/-! Helper lemmas for C01 (core Lean only). -/
namespace LinfaSpec.Fold

theorem chunks_length {α} (fs : Nat) (l : List α) :
    (chunks fs l).length = (l.length + fs - 1) / fs := by
  simp [chunks]

theorem chunks_getElem? {α} (fs : Nat) (l : List α) (i : Nat)
    (h : i < (l.length + fs - 1) / fs) :
    (chunks fs l)[i]? = some ((l.drop (i * fs)).take fs) := by
  simp [chunks, h]

theorem chunks_nil {α} (fs : Nat) (h : 0 < fs) : chunks fs ([] : List α) = [] := by
  have : (0 + fs - 1) / fs = 0 := by
    apply Nat.div_eq_of_lt; omega
  unfold chunks
  rw [List.length_nil, this]; rfl

/-- unfolding: the first chunk, then the chunks of the rest -/
theorem chunks_cons {α} (fs : Nat) (l : List α) (hfs : 0 < fs) (hl : 0 < l.length) :
    chunks fs l = l.take fs :: chunks fs (l.drop fs) := by
  have hcnt : (l.length + fs - 1) / fs = ((l.drop fs).length + fs - 1) / fs + 1 := by
    simp only [List.length_drop]
    by_cases h : l.length ≤ fs
    · have h0 : l.length - fs = 0 := by omega
      rw [h0]
      have e1 : (0 + fs - 1) / fs = 0 := by apply Nat.div_eq_of_lt; omega
      have e2 : (l.length + fs - 1) / fs = 1 := by
        apply Nat.div_eq_of_lt_le <;> omega
      omega
    · have : l.length + fs - 1 = (l.length - fs + fs - 1) + fs := by omega
      rw [this, Nat.add_div_right _ hfs]
  unfold chunks
  rw [hcnt, List.range_succ_eq_map, List.map_cons, List.map_map]
  congr 1
  · simp
  · apply List.map_congr_left
    intro i _
    simp only [Function.comp, List.drop_drop]
    congr 2
    rw [Nat.succ_mul]; omega

theorem chunks_flatten {α} (fs : Nat) (hfs : 0 < fs) (l : List α) :
    (chunks fs l).flatten = l := by
  induction h : l.length using Nat.strongRecOn generalizing l with
  | _ n ih =>
    by_cases hl : l.length = 0
    · have : l = [] := List.eq_nil_of_length_eq_zero hl
      subst this; simp [chunks_nil fs hfs]
    · rw [chunks_cons fs l hfs (by omega), List.flatten_cons,
        ih (l.drop fs).length (by simp; omega) (l.drop fs) rfl, List.take_append_drop]

theorem chunks_drop {α} (fs : Nat) (hfs : 0 < fs) (l : List α) (i : Nat) :
    (chunks fs l).drop i = chunks fs (l.drop (i * fs)) := by
  induction i generalizing l with
  | zero => simp
  | succ i ih =>
    by_cases hl : l.length = 0
    · have : l = [] := List.eq_nil_of_length_eq_zero hl
      subst this; simp [chunks_nil fs hfs]
    · rw [chunks_cons fs l hfs (by omega), List.drop_succ_cons, ih, List.drop_drop]
      congr 2
      rw [Nat.succ_mul]; omega

theorem flatten_drop_chunks {α} (fs : Nat) (hfs : 0 < fs) (l : List α) (i : Nat) :
    ((chunks fs l).drop i).flatten = l.drop (i * fs) := by
  rw [chunks_drop fs hfs, chunks_flatten fs hfs]

theorem flatten_take_chunks {α} (fs : Nat) (hfs : 0 < fs) (l : List α) (i : Nat) :
    ((chunks fs l).take i).flatten = l.take (i * fs) := by
  have h1 : ((chunks fs l).take i).flatten ++ ((chunks fs l).drop i).flatten = l := by
    rw [← List.flatten_append, List.take_append_drop, chunks_flatten fs hfs]
  rw [flatten_drop_chunks fs hfs] at h1
  have h2 : l.take (i * fs) ++ l.drop (i * fs) = l := List.take_append_drop _ _
  exact List.append_cancel_right (h1.trans h2.symm)

/-- the chunk vector at the top of iteration `i` of `fold`'s loop -/
def rot {α} (cs : List α) (i : Nat) : List α :=
  match cs[i]? with
  | some c => c :: (cs.take i ++ cs.drop (i + 1))
  | none => cs

theorem rot_zero {α} (cs : List α) : rot cs 0 = cs := by
  cases cs <;> simp [rot]

theorem swap0_rot {α} (cs : List α) (i : Nat) (h : i + 1 < cs.length) :
    swap0 (rot cs i) (i + 1) = rot cs (i + 1) := by
  have hi : i < cs.length := by omega
  have e1 : cs[i]? = some cs[i] := List.getElem?_eq_getElem hi
  have e2 : cs[i+1]? = some cs[i+1] := List.getElem?_eq_getElem h
  simp only [rot, e1, e2]
  -- element at position i+1 of `c_i :: take i cs ++ drop (i+1) cs` is `c_{i+1}`
  have hlen : (cs.take i).length = i := by simp; omega
  have e3 : (cs[i] :: (cs.take i ++ cs.drop (i + 1)))[i + 1]? = some cs[i+1] := by
    rw [List.getElem?_cons_succ, List.getElem?_append_right (by omega), hlen]
    simp [List.getElem?_drop, e2]
  simp only [swap0, List.getElem?_cons_zero, e3]
  apply List.ext_getElem?
  intro j
  rcases Nat.lt_trichotomy j 0 with hj | hj | hj
  · omega
  · subst hj; simp
  · obtain ⟨j, rfl⟩ : ∃ j', j = j' + 1 := ⟨j - 1, by omega⟩
    simp only [List.set_cons_zero, List.getElem?_cons_succ, List.set_cons_succ]
    rw [List.getElem?_set]
    by_cases hji : i = j
    · subst hji
      have : i < (cs.take i ++ cs.drop (i + 1)).length := by simp; omega
      simp only [this, if_true]
      rw [List.getElem?_append_left (by simp; omega)]
      simp
    · simp only [hji, if_false]
      by_cases hlt : j < i
      · rw [List.getElem?_append_left (by omega), List.getElem?_append_left (by simp; omega)]
        simp [List.getElem?_take, hlt]; intro; omega
      · have hgt : i < j := by omega
        rw [List.getElem?_append_right (by omega), List.getElem?_append_right (by simp; omega)]
        simp only [hlen, List.length_take, List.getElem?_drop]
        congr 1
        have : min (i + 1) cs.length = i + 1 := by omega
        omega

theorem foldGo_spec {α} (k : Nat) (cs : List (List α)) (hk : k ≤ cs.length) :
    ∀ fuel i, i + fuel = k →
      foldGo k fuel i (rot cs i) =
        (List.range fuel).map fun d =>
          ((cs.take (i + d) ++ cs.drop (i + d + 1)).flatten, (cs[i + d]?).getD []) := by
  intro fuel
  induction fuel with
  | zero => intro i _; simp [foldGo]
  | succ f ih =>
    intro i hik
    have hi : i < cs.length := by omega
    have e1 : cs[i]? = some cs[i] := List.getElem?_eq_getElem hi
    rw [foldGo, List.range_succ_eq_map, List.map_cons, List.map_map]
    congr 1
    · simp [rot, e1]
    · have hnext : (if i < k - 1 then swap0 (rot cs i) (i + 1) else rot cs i) = rot cs (i + 1) ∨ f = 0 := by
        by_cases hlt : i < k - 1
        · left; simp only [hlt, if_true]; exact swap0_rot cs i (by omega)
        · right; omega
      rcases hnext with h | h
      · rw [h, ih (i + 1) (by omega)]
        apply List.map_congr_left
        intro d _
        simp only [Function.comp, Nat.succ_eq_add_one]
        have : i + 1 + d = i + (d + 1) := by omega
        rw [this]
      · subst h; simp [foldGo]

end LinfaSpec.Fold

namespace LinfaSpec.Fold

/-- `assist_swap_array2!` on a buffer split as `A ++ B ++ C ++ D` with `A` = block 0,
`C` = block `i`: the two blocks are exchanged, nothing else moves. -/
theorem swapBlock_decomp {α} (A B C D : List α) (i fs s : Nat) (hi : 0 < i)
    (hA : A.length = fs * s) (hB : B.length = fs * s * (i - 1)) (hC : C.length = fs * s) :
    swapBlock (A ++ B ++ C ++ D) i fs s = C ++ B ++ A ++ D := by
  have hstart : (A ++ B).length = fs * s * i := by
    rw [List.length_append, hA, hB]
    obtain ⟨j, rfl⟩ : ∃ j, i = j + 1 := ⟨i - 1, by omega⟩
    simp [Nat.mul_succ]; omega
  unfold swapBlock
  simp only [show ¬ i = 0 by omega, if_false]
  have e1 : A ++ B ++ C ++ D = (A ++ B) ++ (C ++ D) := by simp
  have t1 : List.take (fs * s * i) (A ++ B ++ C ++ D) = A ++ B := by
    rw [e1]; exact List.take_left' hstart
  have d1 : List.drop (fs * s * i) (A ++ B ++ C ++ D) = C ++ D := by
    rw [e1]; exact List.drop_left' hstart
  have t2 : List.take (fs * s) (A ++ B ++ C ++ D) = A := by
    have : A ++ B ++ C ++ D = A ++ (B ++ C ++ D) := by simp
    rw [this]; exact List.take_left' hA
  have d2 : List.drop (fs * s * i + fs * s) (A ++ B ++ C ++ D) = D := by
    have : A ++ B ++ C ++ D = (A ++ B ++ C) ++ D := by simp
    rw [this]; apply List.drop_left'
    rw [List.length_append, hstart, hC]
  rw [t1, d1, t2, d2, List.take_left' hC, List.drop_left' hA]

/-- swapping twice restores the buffer -/
theorem swapBlock_involutive {α} (buf : List α) (i fs s : Nat)
    (hlen : (i + 1) * (fs * s) ≤ buf.length) :
    swapBlock (swapBlock buf i fs s) i fs s = buf := by
  by_cases hi : i = 0
  · simp [swapBlock, hi]
  · -- split the buffer at w, w*i, w*i + w
    let w := fs * s
    have hw : w = fs * s := rfl
    let A := buf.take w
    let B := (buf.drop w).take (w * (i - 1))
    let C := (buf.drop (w * i)).take w
    let D := buf.drop (w * i + w)
    have hsplit : buf = A ++ B ++ C ++ D := by
      simp only [A, B, C, D]
      have hwi : w * i = w + w * (i - 1) := by
        obtain ⟨j, rfl⟩ : ∃ j, i = j + 1 := ⟨i - 1, by omega⟩
        simp [Nat.mul_succ]; omega
      have e1 : buf.drop (w * i) = (buf.drop w).drop (w * (i - 1)) := by
        rw [List.drop_drop, hwi]
      have e2 : buf.drop (w * i + w) = ((buf.drop w).drop (w * (i - 1))).drop w := by
        rw [List.drop_drop, List.drop_drop, hwi, Nat.add_assoc]
      rw [e2, e1, List.append_assoc, List.append_assoc, List.take_append_drop,
        List.take_append_drop, List.take_append_drop]
    have hle : (i + 1) * w ≤ buf.length := hlen
    have hiw : w * i + w ≤ buf.length := by rw [Nat.add_mul] at hle; rw [Nat.mul_comm]; omega
    have hA : A.length = fs * s := by
      simp only [A, List.length_take]
      have : w ≤ buf.length := by omega
      omega
    have hB : B.length = fs * s * (i - 1) := by
      simp only [B, List.length_take, List.length_drop]
      have hwi : w * i = w + w * (i - 1) := by
        obtain ⟨j, rfl⟩ : ∃ j, i = j + 1 := ⟨i - 1, by omega⟩
        simp [Nat.mul_succ]; omega
      rw [← hw]; omega
    have hC : C.length = fs * s := by
      simp only [C, List.length_take, List.length_drop]; omega
    rw [hsplit, swapBlock_decomp A B C D i fs s (by omega) hA hB hC,
      swapBlock_decomp C B A D i fs s (by omega) hC hB hA]

end LinfaSpec.Fold

namespace LinfaSpec.Fold

theorem iterGo_spec {α β} (fs p t k : Nat) (r : List α) (g : List β)
    (hr : k * (fs * p) ≤ r.length) (hg : k * (fs * t) ≤ g.length) :
    ∀ fuel i, i + fuel = k →
      iterGo fs p t fuel i r g =
        ((List.range fuel).map fun d =>
            ((swapBlock r (i + d) fs p).drop (fs * p), (swapBlock g (i + d) fs t).drop (fs * t)),
          r, g) := by
  intro fuel
  induction fuel with
  | zero => intro i _; simp [iterGo]
  | succ f ih =>
    intro i hik
    have h1 : (i + 1) * (fs * p) ≤ r.length :=
      Nat.le_trans (Nat.mul_le_mul_right _ (by omega)) hr
    have h2 : (i + 1) * (fs * t) ≤ g.length :=
      Nat.le_trans (Nat.mul_le_mul_right _ (by omega)) hg
    simp only [iterGo, swapBlock_involutive r i fs p h1, swapBlock_involutive g i fs t h2,
      ih (i + 1) (by omega)]
    rw [List.range_succ_eq_map, List.map_cons, List.map_map]
    congr 2
    apply List.map_congr_left
    intro d _
    simp only [Function.comp, Nat.succ_eq_add_one]
    have : i + 1 + d = i + (d + 1) := by omega
    rw [this]

theorem take_flatten_uniform {α} (rows : List (List α)) (p m : Nat)
    (h : ∀ r ∈ rows, r.length = p) : (rows.flatten).take (m * p) = (rows.take m).flatten := by
  induction rows generalizing m with
  | nil => simp
  | cons r rs ih =>
    cases m with
    | zero => simp
    | succ m =>
      have hr : r.length = p := h r (by simp)
      have hrs : ∀ x ∈ rs, x.length = p := fun x hx => h x (by simp [hx])
      rw [List.flatten_cons, List.take_succ_cons, List.flatten_cons, ← ih m hrs]
      have e : (m + 1) * p = r.length + m * p := by rw [Nat.succ_mul, hr]; omega
      rw [e, List.take_length_add_append]

theorem drop_flatten_uniform {α} (rows : List (List α)) (p m : Nat)
    (h : ∀ r ∈ rows, r.length = p) : (rows.flatten).drop (m * p) = (rows.drop m).flatten := by
  induction rows generalizing m with
  | nil => simp
  | cons r rs ih =>
    cases m with
    | zero => simp
    | succ m =>
      have hr : r.length = p := h r (by simp)
      have hrs : ∀ x ∈ rs, x.length = p := fun x hx => h x (by simp [hx])
      rw [List.flatten_cons, List.drop_succ_cons, ← ih m hrs]
      have e : (m + 1) * p = r.length + m * p := by rw [Nat.succ_mul, hr]; omega
      rw [e, List.drop_length_add_append]

/-- the block swap on the flat row-major buffer is the block swap on whole rows:
row boundaries are mapped to row boundaries -/
theorem swapBlock_flatten {α} (rows : List (List α)) (p i fs : Nat)
    (h : ∀ r ∈ rows, r.length = p) :
    swapBlock rows.flatten i fs p = (swapBlock rows i fs 1).flatten := by
  unfold swapBlock
  by_cases hi : i = 0
  · simp [hi]
  · simp only [hi, if_false, Nat.mul_one, List.flatten_append]
    have e1 : fs * p * i = (fs * i) * p := by
      rw [Nat.mul_assoc, Nat.mul_comm p i, ← Nat.mul_assoc]
    have e2 : fs * p * i + fs * p = (fs * i + fs) * p := by rw [Nat.add_mul, e1]
    have hd : ∀ m, ∀ r ∈ rows.drop m, r.length = p := fun m r hr => h r (List.mem_of_mem_drop hr)
    have ht : ∀ m, ∀ r ∈ rows.take m, r.length = p := fun m r hr => h r (List.mem_of_mem_take hr)
    rw [e2, e1, drop_flatten_uniform rows p _ h, drop_flatten_uniform rows p _ h,
      take_flatten_uniform rows p _ h, take_flatten_uniform rows p _ h,
      take_flatten_uniform _ p _ (hd _), drop_flatten_uniform _ p _ (ht _)]

/-- rows of the training view of fold `i`: a permutation of the complement of block `i` -/
theorem swapBlock_drop_perm {α} (rows : List α) (i fs : Nat) (hlen : (i + 1) * fs ≤ rows.length) :
    ((swapBlock rows i fs 1).drop fs).Perm (rows.take (i * fs) ++ rows.drop ((i + 1) * fs)) := by
  by_cases hi : i = 0
  · simp [swapBlock, hi]
  · have hiw : fs * i + fs ≤ rows.length := by rw [Nat.add_mul] at hlen; rw [Nat.mul_comm]; omega
    have hwi : fs * i = fs + fs * (i - 1) := by
      obtain ⟨j, rfl⟩ : ∃ j, i = j + 1 := ⟨i - 1, by omega⟩
      simp [Nat.mul_succ]; omega
    let A := rows.take fs
    let B := (rows.drop fs).take (fs * (i - 1))
    let C := (rows.drop (fs * i)).take fs
    let D := rows.drop (fs * i + fs)
    have hsplit : rows = A ++ B ++ C ++ D := by
      simp only [A, B, C, D]
      have e1 : rows.drop (fs * i) = (rows.drop fs).drop (fs * (i - 1)) := by
        rw [List.drop_drop, hwi]
      have e2 : rows.drop (fs * i + fs) = ((rows.drop fs).drop (fs * (i - 1))).drop fs := by
        rw [List.drop_drop, List.drop_drop, hwi, Nat.add_assoc]
      rw [e2, e1, List.append_assoc, List.append_assoc, List.take_append_drop,
        List.take_append_drop, List.take_append_drop]
    have hA : A.length = fs := by simp only [A, List.length_take]; omega
    have hB : B.length = fs * (i - 1) := by
      simp only [B, List.length_take, List.length_drop]; omega
    have hC : C.length = fs := by simp only [C, List.length_take, List.length_drop]; omega
    have hAB : (A ++ B).length = i * fs := by
      rw [List.length_append, hA, hB, Nat.mul_comm i fs, hwi]
    have t1 : rows.take (i * fs) = A ++ B := by
      conv => lhs; rw [hsplit]
      have : A ++ B ++ C ++ D = (A ++ B) ++ (C ++ D) := by simp
      rw [this]; exact List.take_left' hAB
    have d1 : rows.drop ((i + 1) * fs) = D := by
      conv => lhs; rw [hsplit]
      have : A ++ B ++ C ++ D = (A ++ B ++ C) ++ D := by simp
      rw [this]; apply List.drop_left'
      rw [List.length_append, hAB, hC, Nat.succ_mul]
    rw [t1, d1]
    conv => lhs; rw [hsplit, swapBlock_decomp A B C D i fs 1 (by omega)
      (by rw [Nat.mul_one]; exact hA) (by rw [Nat.mul_one]; exact hB) (by rw [Nat.mul_one]; exact hC)]
    have : C ++ B ++ A ++ D = C ++ (B ++ A ++ D) := by simp
    rw [this, List.drop_left' hC]
    exact List.Perm.append_right _ List.perm_append_comm

end LinfaSpec.Fold

namespace LinfaSpec.Fold

/-! round 3: one fold size for both containers, `ChunksIter`, row counts -/

theorem foldPairs_eq_foldWith {α} (k : Nat) (ds : List α) (hk : k ≠ 0) :
    foldPairs k ds = foldWith (ds.length / k) k ds := by
  unfold foldPairs foldWith
  simp only [hk, if_false]

theorem le_div_div (n k : Nat) (hk : 0 < k) (hn : k ≤ n) : k ≤ n / (n / k) := by
  have hfs : 0 < n / k := Nat.div_pos hn hk
  rw [Nat.le_div_iff_mul_le hfs]
  exact Nat.mul_div_le n k

/-- the first `k` of the (record block, target block) pairs `ChunksIter` yields -/
theorem sampleChunks_zip_take {α β} (n fs p t k : Nat) (a : List α) (b : List β) (h : k ≤ n / fs) :
    ((sampleChunks n fs p a).zip (sampleChunks n fs t b)).take k =
      (List.range k).map fun i =>
        ((a.drop (i * (fs * p))).take (fs * p), (b.drop (i * (fs * t))).take (fs * t)) := by
  unfold sampleChunks
  rw [List.zip_map', ← List.map_take, List.take_range, Nat.min_eq_left h]

theorem flatten_length_uniform {α} (rows : List (List α)) (p : Nat) (h : ∀ r ∈ rows, r.length = p) :
    rows.flatten.length = rows.length * p := by
  induction rows with
  | nil => simp
  | cons r rs ih =>
    have hr : r.length = p := h r (by simp)
    have := ih (fun x hx => h x (by simp [hx]))
    simp only [List.flatten_cons, List.length_append, List.length_cons, this, hr, Nat.succ_mul]
    omega

end LinfaSpec.Fold
