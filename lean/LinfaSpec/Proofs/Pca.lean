/-
Ties the list model `LinfaSpec.Pca` to the Mathlib `Matrix` expressions of `Proofs/PcaMatrix.lean`.
-/
import LinfaSpec.Model.Pca
import LinfaSpec.Proofs.PcaMatrix
import Mathlib.Algebra.BigOperators.Fin
import Mathlib.Algebra.Order.Field.Basic
import Mathlib.Tactic.Positivity
import Mathlib.Tactic.Abel

namespace LinfaSpec.Pca
open Matrix LinfaSpec.PcaMatrix

variable {α : Type} [Field α]

theorem getD_lt {β} (l : List β) (i : Nat) (d : β) (h : i < l.length) : l.getD i d = l[i] := by
  simp [List.getD_eq_getElem?_getD, h]

/-- a list of `r` rows of width `c` -/
def Shape (L : List (List α)) (r c : Nat) : Prop := L.length = r ∧ ∀ x ∈ L, x.length = c

/-- the matrix a list of rows stands for -/
def toM (L : List (List α)) (r c : Nat) : Matrix (Fin r) (Fin c) α :=
  Matrix.of fun i j => (L.getD i []).getD j 0

def toV (v : List α) (c : Nat) : Fin c → α := fun j => v.getD j 0

theorem sum_eq_fin_sum (l : List α) (k : Nat) (h : l.length = k) :
    l.sum = ∑ i : Fin k, l.getD i 0 := by
  induction l generalizing k with
  | nil => subst h; simp
  | cons x l ih =>
    subst h
    rw [List.sum_cons, List.length_cons, Fin.sum_univ_succ, ih l.length rfl]
    simp

theorem sumS_eq_sum (l : List α) : sumS l = l.sum := by
  unfold sumS; rw [List.sum_eq_foldl]

theorem dotS_eq (a b : List α) (c : Nat) (ha : a.length = c) (hb : b.length = c) :
    dotS a b = ∑ j : Fin c, a.getD j 0 * b.getD j 0 := by
  unfold dotS
  rw [sumS_eq_sum, sum_eq_fin_sum _ c (by simp [ha, hb])]
  apply Finset.sum_congr rfl
  intro j _
  have h1 : (j : Nat) < a.length := by omega
  have h2 : (j : Nat) < b.length := by omega
  rw [getD_lt _ _ _ (by simp [h1, h2]), getD_lt _ _ _ h1,
    getD_lt _ _ _ h2, List.getElem_zipWith]

theorem vsub_getD (a b : List α) (c : Nat) (ha : a.length = c) (hb : b.length = c) (j : Fin c) :
    (vsub a b).getD j 0 = a.getD j 0 - b.getD j 0 := by
  have h1 : (j : Nat) < a.length := by omega
  have h2 : (j : Nat) < b.length := by omega
  unfold vsub
  rw [getD_lt _ _ _ (by simp [h1, h2]), getD_lt _ _ _ h1,
    getD_lt _ _ _ h2, List.getElem_zipWith]

theorem vsub_length (a b : List α) (c : Nat) (ha : a.length = c) (hb : b.length = c) :
    (vsub a b).length = c := by simp [vsub, ha, hb]

/-- `transform` computes `(X - mean) · Wᵀ` -/
theorem transform_toM (m : Model α) (X : List (List α)) (n k p : Nat)
    (hX : Shape X n p) (hW : Shape m.embedding k p) (hμ : m.mean.length = p) :
    toM (transform m X) n k = transformM (toM m.embedding k p) (toV m.mean p) (toM X n p) := by
  ext i j
  obtain ⟨hXl, hXw⟩ := hX
  obtain ⟨hWl, hWw⟩ := hW
  have hi : (i : Nat) < X.length := by omega
  have hj : (j : Nat) < m.embedding.length := by omega
  simp only [toM, transformM, Matrix.of_apply, Matrix.mul_apply, Matrix.sub_apply,
    Matrix.transpose_apply, rowConst, toV]
  have hrow : (transform m X).getD i [] =
      m.embedding.map fun v => dotS (vsub X[(i : Nat)] m.mean) v := by
    unfold transform
    rw [getD_lt _ _ _ (by simpa using hi), List.getElem_map]
  rw [hrow, getD_lt _ _ _ (by simpa using hj), List.getElem_map]
  have hx : X[(i : Nat)].length = p := hXw _ (List.getElem_mem hi)
  have hw : m.embedding[(j : Nat)].length = p := hWw _ (List.getElem_mem hj)
  rw [dotS_eq _ _ p (vsub_length _ _ p hx hμ) hw]
  apply Finset.sum_congr rfl
  intro l _
  rw [vsub_getD _ _ p hx hμ, getD_lt _ _ _ hi, getD_lt _ _ _ hj]

/-- `center X μ` — the argument `fit` hands to the solver — is the matrix `X - 1·μᵀ` -/
theorem center_toM (X : List (List α)) (μ : List α) (n p : Nat) (hX : Shape X n p)
    (hμ : μ.length = p) :
    Shape (center X μ) n p ∧ toM (center X μ) n p = toM X n p - rowConst n (toV μ p) := by
  obtain ⟨hXl, hXw⟩ := hX
  refine ⟨⟨by simp [center, hXl], ?_⟩, ?_⟩
  · intro x hx
    simp only [center, List.mem_map] at hx
    obtain ⟨r, hr, rfl⟩ := hx
    exact vsub_length _ _ p (hXw r hr) hμ
  · ext i j
    have hi : (i : Nat) < X.length := by omega
    simp only [toM, Matrix.of_apply, Matrix.sub_apply, rowConst, toV]
    have hrow : (center X μ).getD i [] = vsub X[(i : Nat)] μ := by
      unfold center
      rw [getD_lt _ _ _ (by simpa using hi), List.getElem_map]
    rw [hrow, vsub_getD _ _ p (hXw _ (List.getElem_mem hi)) hμ, getD_lt _ _ _ hi]

theorem vadd_getD (a b : List α) (c : Nat) (ha : a.length = c) (hb : b.length = c) (j : Fin c) :
    (vadd a b).getD j 0 = a.getD j 0 + b.getD j 0 := by
  have h1 : (j : Nat) < a.length := by omega
  have h2 : (j : Nat) < b.length := by omega
  unfold vadd
  rw [getD_lt _ _ _ (by simp [h1, h2]), getD_lt _ _ _ h1, getD_lt _ _ _ h2, List.getElem_zipWith]

theorem vadd_length (a b : List α) (c : Nat) (ha : a.length = c) (hb : b.length = c) :
    (vadd a b).length = c := by simp [vadd, ha, hb]

theorem foldl_vadd (rows : List (List α)) (c : Nat) (hr : ∀ x ∈ rows, x.length = c) :
    ∀ (acc : List α), acc.length = c →
      (rows.foldl vadd acc).length = c ∧
      ∀ j : Fin c, (rows.foldl vadd acc).getD j 0
        = acc.getD j 0 + ∑ i : Fin rows.length, (rows.getD i []).getD j 0 := by
  induction rows with
  | nil => intro acc h; simp [h]
  | cons x rows ih =>
    intro acc h
    have hx : x.length = c := hr x (by simp)
    have := ih (fun y hy => hr y (by simp [hy])) (vadd acc x) (vadd_length _ _ c h hx)
    refine ⟨this.1, ?_⟩
    intro j
    rw [List.foldl_cons, this.2 j, vadd_getD _ _ c h hx, List.length_cons, Fin.sum_univ_succ]
    simp [add_assoc]

theorem replicate_getD (c : Nat) (j : Fin c) : (List.replicate c (0 : α)).getD j 0 = 0 := by
  rw [getD_lt _ _ _ (by simp)]; simp

/-- `combo p z B` is the row `z · B` -/
theorem combo_spec (z : List α) (B : List (List α)) (k p : Nat) (hz : z.length = k)
    (hB : Shape B k p) :
    (combo p z B).length = p ∧
    ∀ j : Fin p, (combo p z B).getD j 0 = ∑ i : Fin k, z.getD i 0 * (B.getD i []).getD j 0 := by
  obtain ⟨hBl, hBw⟩ := hB
  unfold combo
  have hlen : (List.zipWith (fun zi row => row.map (zi * ·)) z B).length = k := by simp [hz, hBl]
  have hrows : ∀ x ∈ List.zipWith (fun zi row => row.map (zi * ·)) z B, x.length = p := by
    intro x hx
    obtain ⟨i, hi, rfl⟩ := List.getElem_of_mem hx
    rw [List.getElem_zipWith, List.length_map]
    exact hBw _ (List.getElem_mem _)
  have := foldl_vadd _ p hrows (List.replicate p 0) (by simp)
  refine ⟨this.1, ?_⟩
  intro j
  rw [this.2 j, replicate_getD, zero_add]
  -- reindex Fin (zipWith …).length to Fin k
  rw [← Fin.sum_congr' _ hlen.symm]
  apply Finset.sum_congr rfl
  intro i _
  have hi1 : (i : Nat) < z.length := by omega
  have hi2 : (i : Nat) < B.length := by omega
  simp only [Fin.val_cast]
  have hw : B[(i : Nat)].length = p := hBw _ (List.getElem_mem hi2)
  have hj : (j : Nat) < B[(i : Nat)].length := by omega
  have e1 : (List.zipWith (fun zi row => row.map (zi * ·)) z B).getD i []
      = B[(i : Nat)].map (z[(i : Nat)] * ·) := by
    rw [getD_lt _ _ _ (by simp [hi1, hi2]), List.getElem_zipWith]
  have e2 : (B[(i : Nat)].map (z[(i : Nat)] * ·)).getD j 0 = z[(i : Nat)] * B[(i : Nat)][(j : Nat)] := by
    rw [getD_lt _ _ _ (by simpa using hj), List.getElem_map]
  rw [e1, e2, getD_lt _ _ _ hi1, getD_lt _ _ _ hi2, getD_lt _ _ _ hj]

/-- `backRows` divides each row by its squared norm -/
theorem backRows_spec (W : List (List α)) (k p : Nat) (hW : Shape W k p) :
    Shape (backRows W) k p ∧ toM (backRows W) k p = backM (toM W k p) := by
  obtain ⟨hWl, hWw⟩ := hW
  refine ⟨⟨by simp [backRows, hWl], ?_⟩, ?_⟩
  · intro x hx
    simp only [backRows, List.mem_map] at hx
    obtain ⟨v, hv, rfl⟩ := hx
    simp [hWw v hv]
  · ext i j
    have hi : (i : Nat) < W.length := by omega
    have hw : W[(i : Nat)].length = p := hWw _ (List.getElem_mem hi)
    simp only [toM, backM, Matrix.of_apply]
    have hrow : (backRows W).getD i [] = W[(i : Nat)].map (· / sqNorm W[(i : Nat)]) := by
      unfold backRows
      rw [getD_lt _ _ _ (by simpa using hi), List.getElem_map]
    rw [hrow, getD_lt _ _ _ (by simp [hw]), List.getElem_map]
    unfold sqNorm
    rw [dotS_eq _ _ p hw hw, getD_lt _ _ _ hi, getD_lt _ _ _ (by omega)]

/-- `inverseTransform` computes `Z · back(W) + mean` -/
theorem inverseTransform_toM (m : Model α) (Z : List (List α)) (n k p : Nat)
    (hZ : Shape Z n k) (hW : Shape m.embedding k p) (hμ : m.mean.length = p) :
    toM (inverseTransform m Z) n p = inverseM (toM m.embedding k p) (toV m.mean p) (toM Z n k) := by
  obtain ⟨hB, hBm⟩ := backRows_spec m.embedding k p hW
  obtain ⟨hZl, hZw⟩ := hZ
  ext i j
  have hi : (i : Nat) < Z.length := by omega
  have hz : Z[(i : Nat)].length = k := hZw _ (List.getElem_mem hi)
  simp only [inverseM, Matrix.add_apply, Matrix.mul_apply, rowConst, Matrix.of_apply, toV]
  rw [← hBm]
  simp only [toM, Matrix.of_apply]
  have hrow : (inverseTransform m Z).getD i [] =
      vadd (combo m.mean.length Z[(i : Nat)] (backRows m.embedding)) m.mean := by
    unfold inverseTransform
    rw [getD_lt _ _ _ (by simpa using hi), List.getElem_map]
  obtain ⟨hcl, hcv⟩ := combo_spec Z[(i : Nat)] (backRows m.embedding) k p hz hB
  rw [hrow, hμ, vadd_getD _ _ p hcl hμ, hcv j, getD_lt _ _ _ hi]

/-- the whitening loop multiplies row `i` by `sqrt(n-1)/sigma_i` -/
theorem whiten_spec [Transc α] (nS : Nat) (V : List (List α)) (σ : List α) (k p : Nat)
    (hV : Shape V k p) (hσ : σ.length = k) :
    Shape (whiten nS V σ) k p ∧
    toM (whiten nS V σ) k p
      = diagonal (fun i : Fin k => Transc.sqrt ((nS : α) - 1) / σ.getD i 0) * toM V k p := by
  obtain ⟨hVl, hVw⟩ := hV
  refine ⟨⟨by simp [whiten, hVl, hσ], ?_⟩, ?_⟩
  · intro x hx
    obtain ⟨i, hi, rfl⟩ := List.getElem_of_mem hx
    simp only [whiten, List.getElem_zipWith, List.length_map]
    exact hVw _ (List.getElem_mem _)
  · ext i j
    have hi1 : (i : Nat) < V.length := by omega
    have hi2 : (i : Nat) < σ.length := by omega
    have hw : V[(i : Nat)].length = p := hVw _ (List.getElem_mem hi1)
    simp only [toM, Matrix.of_apply, Matrix.diagonal_mul]
    have hrow : (whiten nS V σ).getD i [] =
        V[(i : Nat)].map (· * (Transc.sqrt ((nS : α) - 1) / σ[(i : Nat)])) := by
      unfold whiten
      rw [getD_lt _ _ _ (by simp [hi1, hi2]), List.getElem_zipWith]
    rw [hrow, getD_lt _ _ _ (by simp [hw]), List.getElem_map, getD_lt _ _ _ hi1,
      getD_lt _ _ _ hi2, getD_lt _ _ _ (by omega), mul_comm]

/-! ### column mean in every memory layout -/

theorem foldl_add_eq (l : List α) (a : α) : l.foldl (· + ·) a = a + l.sum := by
  induction l generalizing a with
  | nil => simp
  | cons x xs ih => simp [List.foldl_cons, ih, add_assoc]

theorem unrolled8_spec (xs : List α) (q : α × α × α × α × α × α × α × α) :
    let r := unrolled8 xs q
    r.1.1 + r.1.2.1 + r.1.2.2.1 + r.1.2.2.2.1 + r.1.2.2.2.2.1 + r.1.2.2.2.2.2.1 + r.1.2.2.2.2.2.2.1
        + r.1.2.2.2.2.2.2.2 + r.2.sum
      = q.1 + q.2.1 + q.2.2.1 + q.2.2.2.1 + q.2.2.2.2.1 + q.2.2.2.2.2.1 + q.2.2.2.2.2.2.1
        + q.2.2.2.2.2.2.2 + xs.sum := by
  fun_induction unrolled8 xs q with
  | case1 x0 x1 x2 x3 x4 x5 x6 x7 rest p0 p1 p2 p3 p4 p5 p6 p7 ih =>
    simp only [] at ih ⊢
    rw [ih]
    simp only [List.sum_cons]
    abel
  | case2 xs q h => simp

/-- ndarray's eightfold unrolled sum is the sum (real-arithmetic semantics) -/
theorem ndSum_eq_sum (xs : List α) : ndSum xs = xs.sum := by
  have h := unrolled8_spec xs (0, 0, 0, 0, 0, 0, 0, 0)
  simp only [] at h
  unfold ndSum
  generalize unrolled8 xs (0, 0, 0, 0, 0, 0, 0, 0) = r at h
  obtain ⟨⟨p0, p1, p2, p3, p4, p5, p6, p7⟩, rest⟩ := r
  simp only [foldl_add_eq]
  simp only [zero_add] at h ⊢
  rw [← h]
  abel

/-- `colMean` is the column sum over `n`: length `p`, entry `j` = `(Σ_i X_i[j]) / n` -/
theorem colMean_spec (X : List (List α)) (n p : Nat) (hX : Shape X n p) :
    (colMean p X).length = p ∧
    ∀ j : Fin p, (colMean p X).getD j 0 = (∑ i : Fin n, (X.getD i []).getD j 0) / (n : α) := by
  obtain ⟨hXl, hXw⟩ := hX
  have h := foldl_vadd X p hXw (List.replicate p 0) (by simp)
  unfold colMean
  refine ⟨by simp [h.1], ?_⟩
  intro j
  have hj : (j : Nat) < (X.foldl vadd (List.replicate p 0)).length := by rw [h.1]; exact j.2
  rw [getD_lt _ _ _ (by simpa using hj), List.getElem_map, ← getD_lt _ _ 0 hj, h.2 j,
    replicate_getD, zero_add, hXl]

theorem column_sum (X : List (List α)) (n : Nat) (hX : X.length = n) (j : Nat) :
    (column X j).sum = ∑ i : Fin n, (X.getD i []).getD j 0 := by
  rw [sum_eq_fin_sum _ n (by simp [column, hX])]
  apply Finset.sum_congr rfl
  intro i _
  have hi : (i : Nat) < X.length := by omega
  unfold column
  rw [getD_lt _ _ _ (by simpa using hi), List.getElem_map, getD_lt _ _ _ hi]

/-- over a field the column mean does not depend on the memory layout: the unrolled lane sums of a
Fortran-order matrix and the row-by-row additions give the same list -/
theorem colMeanL_eq_colMean (lay : Layout) (X : List (List α)) (n p : Nat) (hX : Shape X n p) :
    colMeanL lay p X = colMean p X := by
  cases lay with
  | f =>
    simp only [colMeanL]
    split
    · obtain ⟨hl, hv⟩ := colMean_spec X n p hX
      apply List.ext_getElem
      · simp [hl]
      · intro j h1 h2
        have hjp : j < p := by simpa using h1
        rw [List.getElem_map, List.getElem_range, ndSum_eq_sum, column_sum X n hX.1 j]
        have := hv ⟨j, hjp⟩
        rw [getD_lt _ _ _ h2] at this
        rw [this, hX.1]
    · rfl
  | c => rfl
  | cStrided => rfl
  | fStrided => rfl

/-- **the projected training data is centred**: when the stored mean is the column mean of the
training matrix (what `fit` stores, in every layout) every coordinate of `predict(X)` sums to zero
over the training rows — so the scatter `ZᵀZ` of the theorems in `Props/C18.lean` is `(n-1)` times
the sample covariance of the projection. -/
theorem transform_colsum_zero (m : Model α) (X : List (List α)) (n k p : Nat)
    (hX : Shape X n p) (hW : Shape m.embedding k p) (hmean : m.mean = colMean p X)
    (hn : (n : α) ≠ 0) (j : Fin k) :
    ∑ i : Fin n, toM (transform m X) n k i j = 0 := by
  obtain ⟨hl, hv⟩ := colMean_spec X n p hX
  have hμ : m.mean.length = p := by rw [hmean]; exact hl
  rw [transform_toM m X n k p hX hW hμ]
  simp only [transformM, Matrix.mul_apply, Matrix.sub_apply, Matrix.transpose_apply, rowConst,
    Matrix.of_apply, toM, toV]
  rw [Finset.sum_comm]
  have : ∀ l : Fin p, ∑ i : Fin n, ((X.getD i []).getD l 0 - m.mean.getD l 0) *
      (m.embedding.getD j []).getD l 0 = 0 := by
    intro l
    rw [← Finset.sum_mul, Finset.sum_sub_distrib, hmean, hv l]
    simp only [Finset.sum_const, Finset.card_univ, Fintype.card_fin, nsmul_eq_mul]
    rw [mul_div_cancel₀ _ hn, sub_self, zero_mul]
  exact Finset.sum_eq_zero fun l _ => this l

end LinfaSpec.Pca
