import LinfaSpec.Proofs.NN
import Mathlib.Algebra.Order.Group.Abs
import Mathlib.Algebra.Order.Ring.Abs
import Mathlib.Analysis.Real.Sqrt
import Mathlib.Tactic.Linarith

/-!
# C07 — helper lemmas: the provided metrics of `linfa-nn` satisfy `Lawful`

`mL1`, `mLinf` (any ordered field) and `mL2` (over ℝ) on the points of a fixed dimension `d` (the batch
rows and a query that passed the dimension guard) are non-negative and satisfy the triangle
inequality; the proofs run over the very `foldl` loops of `Model/NN.lean` (generalised over the
accumulator).  The `Lawful` instances themselves are stated in `Props/C07.lean`.
-/
namespace LinfaSpec.NN
open LinfaSpec
set_option linter.unusedSectionVars false
set_option linter.unusedVariables false

section lawful
variable {α : Type} [Field α] [LinearOrder α] [IsStrictOrderedRing α]

/-- a metric on coordinate lists restricted to the points of dimension `d` (the batch rows and a
query that passed the dimension guard) -/
def onDim (d : Nat) (m : Metric (List α) α) : Metric {l : List α // l.length = d} α :=
  ⟨fun a b => m.dist a.1 b.1, fun a b => m.rdist a.1 b.1, m.toR, m.ofR⟩

theorem absS_eq_abs (x : α) : absS x = |x| := by
  unfold absS
  split
  · rename_i h; exact (abs_of_neg h).symm
  · rename_i h; exact (abs_of_nonneg (not_lt.mp h)).symm

theorem foldl_add_nonneg (l : List α) (hl : ∀ x ∈ l, 0 ≤ x) (i : α) (hi : 0 ≤ i) :
    0 ≤ l.foldl (· + ·) i := by
  induction l generalizing i with
  | nil => simpa
  | cons x xs ih =>
    simp only [List.foldl_cons]
    exact ih (fun y hy => hl y (List.mem_cons_of_mem _ hy)) _
      (add_nonneg hi (hl x List.mem_cons_self))

theorem l1_triangle_aux (a b c : List α) (hab : a.length = b.length) (hbc : b.length = c.length)
    (i1 i2 i3 : α) (hi : i1 ≤ i2 + i3) :
    (List.zipWith (fun x y => absS (x - y)) a c).foldl (· + ·) i1 ≤
      (List.zipWith (fun x y => absS (x - y)) a b).foldl (· + ·) i2 +
      (List.zipWith (fun x y => absS (x - y)) b c).foldl (· + ·) i3 := by
  induction a generalizing b c i1 i2 i3 with
  | nil =>
    cases b with
    | nil => cases c with
      | nil => simpa
      | cons _ _ => simp at hbc
    | cons _ _ => simp at hab
  | cons x xs ih =>
    cases b with
    | nil => simp at hab
    | cons y ys =>
      cases c with
      | nil => simp at hbc
      | cons z zs =>
        simp only [List.zipWith_cons_cons, List.foldl_cons]
        apply ih ys zs (by simpa using hab) (by simpa using hbc)
        rw [absS_eq_abs, absS_eq_abs, absS_eq_abs]
        have := abs_sub_le x y z
        linarith

theorem foldl_max_nonneg (l : List α) (i : α) (hi : 0 ≤ i) :
    0 ≤ l.foldl (fun mx d => if mx < d then d else mx) i := by
  induction l generalizing i with
  | nil => simpa
  | cons x xs ih =>
    simp only [List.foldl_cons]
    apply ih
    split
    · rename_i h; exact le_trans hi (le_of_lt h)
    · exact hi

theorem linf_triangle_aux (a b c : List α) (hab : a.length = b.length) (hbc : b.length = c.length)
    (i1 i2 i3 : α) (hi : i1 ≤ i2 + i3) :
    (List.zipWith (fun x y => absS (x - y)) a c).foldl (fun mx d => if mx < d then d else mx) i1 ≤
      (List.zipWith (fun x y => absS (x - y)) a b).foldl (fun mx d => if mx < d then d else mx) i2 +
      (List.zipWith (fun x y => absS (x - y)) b c).foldl (fun mx d => if mx < d then d else mx) i3 := by
  induction a generalizing b c i1 i2 i3 with
  | nil =>
    cases b with
    | nil => cases c with
      | nil => simpa
      | cons _ _ => simp at hbc
    | cons _ _ => simp at hab
  | cons x xs ih =>
    cases b with
    | nil => simp at hab
    | cons y ys =>
      cases c with
      | nil => simp at hbc
      | cons z zs =>
        simp only [List.zipWith_cons_cons, List.foldl_cons]
        apply ih ys zs (by simpa using hab) (by simpa using hbc)
        rw [absS_eq_abs, absS_eq_abs, absS_eq_abs]
        have := abs_sub_le x y z
        have e : ∀ u v : α, (if u < v then v else u) = max u v := fun u v => maxS_eq_max u v
        rw [e, e, e]
        have h2 : i2 ≤ max i2 |x - y| := le_max_left _ _
        have h2' : |x - y| ≤ max i2 |x - y| := le_max_right _ _
        have h3 : i3 ≤ max i3 |y - z| := le_max_left _ _
        have h3' : |y - z| ≤ max i3 |y - z| := le_max_right _ _
        apply max_le <;> linarith

end lawful

section l2

/-- Minkowski in the plane, the induction step of the triangle inequality of `L2Dist` -/
theorem minkowski2 (p r u v : ℝ) (hp : 0 ≤ p) (hr : 0 ≤ r) :
    Real.sqrt ((p + r) * (p + r) + (u + v) * (u + v)) ≤
      Real.sqrt (p * p + u * u) + Real.sqrt (r * r + v * v) := by
  set A := Real.sqrt (p * p + u * u) with hA
  set B := Real.sqrt (r * r + v * v) with hB
  have hA0 : 0 ≤ A := Real.sqrt_nonneg _
  have hB0 : 0 ≤ B := Real.sqrt_nonneg _
  have hA2 : A * A = p * p + u * u := Real.mul_self_sqrt (add_nonneg (mul_self_nonneg _) (mul_self_nonneg _))
  have hB2 : B * B = r * r + v * v := Real.mul_self_sqrt (add_nonneg (mul_self_nonneg _) (mul_self_nonneg _))
  have hcs : p * r + u * v ≤ A * B := by
    have h1 : (p * r + u * v) * (p * r + u * v) ≤ (A * B) * (A * B) := by
      have : (A * B) * (A * B) = (p * p + u * u) * (r * r + v * v) := by
        rw [← hA2, ← hB2]; ring
      rw [this]
      nlinarith [mul_self_nonneg (p * v - u * r)]
    by_contra hlt
    have := mul_self_lt_mul_self (mul_nonneg hA0 hB0) (not_le.mp hlt)
    linarith
  rw [show A + B = Real.sqrt ((A + B) * (A + B)) from (Real.sqrt_mul_self (add_nonneg hA0 hB0)).symm]
  apply Real.sqrt_le_sqrt
  nlinarith

theorem sqL2_fold_nonneg (l : List ℝ) (hl : ∀ x ∈ l, 0 ≤ x) (i : ℝ) (hi : 0 ≤ i) :
    0 ≤ l.foldl (· + ·) i := by
  induction l generalizing i with
  | nil => simpa
  | cons x xs ih =>
    simp only [List.foldl_cons]
    exact ih (fun y hy => hl y (List.mem_cons_of_mem _ hy)) _
      (add_nonneg hi (hl x List.mem_cons_self))

theorem sqL2_nonneg (a b : List ℝ) : 0 ≤ sqL2 a b := by
  unfold sqL2
  refine sqL2_fold_nonneg _ ?_ 0 le_rfl
  intro x hx
  obtain ⟨i, _, rfl⟩ := List.getElem_of_mem hx
  simp only [List.getElem_zipWith]
  exact mul_self_nonneg _

theorem l2_triangle_aux (a b c : List ℝ) (hab : a.length = b.length) (hbc : b.length = c.length)
    (i1 i2 i3 : ℝ) (h1 : 0 ≤ i1) (h2 : 0 ≤ i2) (h3 : 0 ≤ i3)
    (hi : Real.sqrt i1 ≤ Real.sqrt i2 + Real.sqrt i3) :
    Real.sqrt ((List.zipWith (fun x y => (x - y) * (x - y)) a c).foldl (· + ·) i1) ≤
      Real.sqrt ((List.zipWith (fun x y => (x - y) * (x - y)) a b).foldl (· + ·) i2) +
      Real.sqrt ((List.zipWith (fun x y => (x - y) * (x - y)) b c).foldl (· + ·) i3) := by
  induction a generalizing b c i1 i2 i3 with
  | nil =>
    cases b with
    | nil => cases c with
      | nil => simpa
      | cons _ _ => simp at hbc
    | cons _ _ => simp at hab
  | cons x xs ih =>
    cases b with
    | nil => simp at hab
    | cons y ys =>
      cases c with
      | nil => simp at hbc
      | cons z zs =>
        simp only [List.zipWith_cons_cons, List.foldl_cons]
        apply ih ys zs (by simpa using hab) (by simpa using hbc)
        · exact add_nonneg h1 (mul_self_nonneg _)
        · exact add_nonneg h2 (mul_self_nonneg _)
        · exact add_nonneg h3 (mul_self_nonneg _)
        · -- plane Minkowski with p = √i2, r = √i3, u = x - y, v = y - z
          have hp := Real.sqrt_nonneg i2
          have hr := Real.sqrt_nonneg i3
          have hm := minkowski2 (Real.sqrt i2) (Real.sqrt i3) (x - y) (y - z) hp hr
          rw [Real.mul_self_sqrt h2, Real.mul_self_sqrt h3] at hm
          refine le_trans (Real.sqrt_le_sqrt ?_) hm
          have hsq : i1 ≤ (Real.sqrt i2 + Real.sqrt i3) * (Real.sqrt i2 + Real.sqrt i3) := by
            have := mul_self_le_mul_self (Real.sqrt_nonneg i1) hi
            rwa [Real.mul_self_sqrt h1] at this
          have : x - y + (y - z) = x - z := by ring
          rw [this]
          linarith

end l2

end LinfaSpec.NN
