import LinfaSpec.Proofs.NN
import Mathlib.Algebra.Order.Group.Abs
import Mathlib.Algebra.Order.Ring.Abs
import Mathlib.Analysis.Real.Sqrt
import Mathlib.Analysis.MeanInequalities
import Mathlib.Analysis.SpecialFunctions.Pow.Real
import Mathlib.Tactic.Linarith

/-!
# C07 — helper lemmas: the provided metrics of `linfa-nn` satisfy `Lawful`

`mL1`, `mLinf` (any ordered field) and `mL2` (over ℝ) on the points of a fixed dimension `d` (the batch
rows and a query that passed the dimension guard) are non-negative and satisfy the triangle
inequality; the proofs run over the very `foldl` loops of `Model/NN.lean` (generalised over the
accumulator).  `mLp p` (over ℝ, `powf` = the real power) for every exponent `p ≥ 1`: Minkowski by the same
induction, the two-term step from Mathlib's `Real.Lp_add_le_of_nonneg` over `Fin 2`.  The `Lawful`
instances themselves are stated in `Props/C07.lean`.
-/
namespace LinfaSpec.NN
open LinfaSpec
set_option linter.unusedSectionVars false
set_option linter.unusedVariables false

section lawful
variable {α : Type} [Field α] [LinearOrder α] [IsStrictOrderedRing α]

/-- a metric on coordinate lists restricted to the points of dimension `d` (the batch rows and a
query that passed the dimension guard) -/
def onDim (d : Nat) (m : Metric (List α) α) : Metric {l : List α // l.length = d} α :=
  ⟨fun a b => m.dist a.1 b.1, fun a b => m.rdist a.1 b.1, m.toR, m.ofR⟩

theorem absS_eq_abs (x : α) : absS x = |x| := by
  unfold absS
  split
  · rename_i h; exact (abs_of_neg h).symm
  · rename_i h; exact (abs_of_nonneg (not_lt.mp h)).symm

theorem foldl_add_nonneg (l : List α) (hl : ∀ x ∈ l, 0 ≤ x) (i : α) (hi : 0 ≤ i) :
    0 ≤ l.foldl (· + ·) i := by
  induction l generalizing i with
  | nil => simpa
  | cons x xs ih =>
    simp only [List.foldl_cons]
    exact ih (fun y hy => hl y (List.mem_cons_of_mem _ hy)) _
      (add_nonneg hi (hl x List.mem_cons_self))

theorem l1_triangle_aux (a b c : List α) (hab : a.length = b.length) (hbc : b.length = c.length)
    (i1 i2 i3 : α) (hi : i1 ≤ i2 + i3) :
    (List.zipWith (fun x y => absS (x - y)) a c).foldl (· + ·) i1 ≤
      (List.zipWith (fun x y => absS (x - y)) a b).foldl (· + ·) i2 +
      (List.zipWith (fun x y => absS (x - y)) b c).foldl (· + ·) i3 := by
  induction a generalizing b c i1 i2 i3 with
  | nil =>
    cases b with
    | nil => cases c with
      | nil => simpa
      | cons _ _ => simp at hbc
    | cons _ _ => simp at hab
  | cons x xs ih =>
    cases b with
    | nil => simp at hab
    | cons y ys =>
      cases c with
      | nil => simp at hbc
      | cons z zs =>
        simp only [List.zipWith_cons_cons, List.foldl_cons]
        apply ih ys zs (by simpa using hab) (by simpa using hbc)
        rw [absS_eq_abs, absS_eq_abs, absS_eq_abs]
        have := abs_sub_le x y z
        linarith

theorem foldl_max_nonneg (l : List α) (i : α) (hi : 0 ≤ i) :
    0 ≤ l.foldl (fun mx d => if mx < d then d else mx) i := by
  induction l generalizing i with
  | nil => simpa
  | cons x xs ih =>
    simp only [List.foldl_cons]
    apply ih
    split
    · rename_i h; exact le_trans hi (le_of_lt h)
    · exact hi

theorem linf_triangle_aux (a b c : List α) (hab : a.length = b.length) (hbc : b.length = c.length)
    (i1 i2 i3 : α) (hi : i1 ≤ i2 + i3) :
    (List.zipWith (fun x y => absS (x - y)) a c).foldl (fun mx d => if mx < d then d else mx) i1 ≤
      (List.zipWith (fun x y => absS (x - y)) a b).foldl (fun mx d => if mx < d then d else mx) i2 +
      (List.zipWith (fun x y => absS (x - y)) b c).foldl (fun mx d => if mx < d then d else mx) i3 := by
  induction a generalizing b c i1 i2 i3 with
  | nil =>
    cases b with
    | nil => cases c with
      | nil => simpa
      | cons _ _ => simp at hbc
    | cons _ _ => simp at hab
  | cons x xs ih =>
    cases b with
    | nil => simp at hab
    | cons y ys =>
      cases c with
      | nil => simp at hbc
      | cons z zs =>
        simp only [List.zipWith_cons_cons, List.foldl_cons]
        apply ih ys zs (by simpa using hab) (by simpa using hbc)
        rw [absS_eq_abs, absS_eq_abs, absS_eq_abs]
        have := abs_sub_le x y z
        have e : ∀ u v : α, (if u < v then v else u) = max u v := fun u v => maxS_eq_max u v
        rw [e, e, e]
        have h2 : i2 ≤ max i2 |x - y| := le_max_left _ _
        have h2' : |x - y| ≤ max i2 |x - y| := le_max_right _ _
        have h3 : i3 ≤ max i3 |y - z| := le_max_left _ _
        have h3' : |y - z| ≤ max i3 |y - z| := le_max_right _ _
        apply max_le <;> linarith

end lawful

section l2

/-- Minkowski in the plane, the induction step of the triangle inequality of `L2Dist` -/
theorem minkowski2 (p r u v : ℝ) (hp : 0 ≤ p) (hr : 0 ≤ r) :
    Real.sqrt ((p + r) * (p + r) + (u + v) * (u + v)) ≤
      Real.sqrt (p * p + u * u) + Real.sqrt (r * r + v * v) := by
  set A := Real.sqrt (p * p + u * u) with hA
  set B := Real.sqrt (r * r + v * v) with hB
  have hA0 : 0 ≤ A := Real.sqrt_nonneg _
  have hB0 : 0 ≤ B := Real.sqrt_nonneg _
  have hA2 : A * A = p * p + u * u := Real.mul_self_sqrt (add_nonneg (mul_self_nonneg _) (mul_self_nonneg _))
  have hB2 : B * B = r * r + v * v := Real.mul_self_sqrt (add_nonneg (mul_self_nonneg _) (mul_self_nonneg _))
  have hcs : p * r + u * v ≤ A * B := by
    have h1 : (p * r + u * v) * (p * r + u * v) ≤ (A * B) * (A * B) := by
      have : (A * B) * (A * B) = (p * p + u * u) * (r * r + v * v) := by
        rw [← hA2, ← hB2]; ring
      rw [this]
      nlinarith [mul_self_nonneg (p * v - u * r)]
    by_contra hlt
    have := mul_self_lt_mul_self (mul_nonneg hA0 hB0) (not_le.mp hlt)
    linarith
  rw [show A + B = Real.sqrt ((A + B) * (A + B)) from (Real.sqrt_mul_self (add_nonneg hA0 hB0)).symm]
  apply Real.sqrt_le_sqrt
  nlinarith

theorem sqL2_fold_nonneg (l : List ℝ) (hl : ∀ x ∈ l, 0 ≤ x) (i : ℝ) (hi : 0 ≤ i) :
    0 ≤ l.foldl (· + ·) i := by
  induction l generalizing i with
  | nil => simpa
  | cons x xs ih =>
    simp only [List.foldl_cons]
    exact ih (fun y hy => hl y (List.mem_cons_of_mem _ hy)) _
      (add_nonneg hi (hl x List.mem_cons_self))

theorem sqL2_nonneg (a b : List ℝ) : 0 ≤ sqL2 a b := by
  unfold sqL2
  refine sqL2_fold_nonneg _ ?_ 0 le_rfl
  intro x hx
  obtain ⟨i, _, rfl⟩ := List.getElem_of_mem hx
  simp only [List.getElem_zipWith]
  exact mul_self_nonneg _

theorem l2_triangle_aux (a b c : List ℝ) (hab : a.length = b.length) (hbc : b.length = c.length)
    (i1 i2 i3 : ℝ) (h1 : 0 ≤ i1) (h2 : 0 ≤ i2) (h3 : 0 ≤ i3)
    (hi : Real.sqrt i1 ≤ Real.sqrt i2 + Real.sqrt i3) :
    Real.sqrt ((List.zipWith (fun x y => (x - y) * (x - y)) a c).foldl (· + ·) i1) ≤
      Real.sqrt ((List.zipWith (fun x y => (x - y) * (x - y)) a b).foldl (· + ·) i2) +
      Real.sqrt ((List.zipWith (fun x y => (x - y) * (x - y)) b c).foldl (· + ·) i3) := by
  induction a generalizing b c i1 i2 i3 with
  | nil =>
    cases b with
    | nil => cases c with
      | nil => simpa
      | cons _ _ => simp at hbc
    | cons _ _ => simp at hab
  | cons x xs ih =>
    cases b with
    | nil => simp at hab
    | cons y ys =>
      cases c with
      | nil => simp at hbc
      | cons z zs =>
        simp only [List.zipWith_cons_cons, List.foldl_cons]
        apply ih ys zs (by simpa using hab) (by simpa using hbc)
        · exact add_nonneg h1 (mul_self_nonneg _)
        · exact add_nonneg h2 (mul_self_nonneg _)
        · exact add_nonneg h3 (mul_self_nonneg _)
        · -- plane Minkowski with p = √i2, r = √i3, u = x - y, v = y - z
          have hp := Real.sqrt_nonneg i2
          have hr := Real.sqrt_nonneg i3
          have hm := minkowski2 (Real.sqrt i2) (Real.sqrt i3) (x - y) (y - z) hp hr
          rw [Real.mul_self_sqrt h2, Real.mul_self_sqrt h3] at hm
          refine le_trans (Real.sqrt_le_sqrt ?_) hm
          have hsq : i1 ≤ (Real.sqrt i2 + Real.sqrt i3) * (Real.sqrt i2 + Real.sqrt i3) := by
            have := mul_self_le_mul_self (Real.sqrt_nonneg i1) hi
            rwa [Real.mul_self_sqrt h1] at this
          have : x - y + (y - z) = x - z := by ring
          rw [this]
          linarith

end l2

section lp

/-- `x.powf(p)` on the reals: the real power function -/
noncomputable instance realPowF : PowF ℝ := ⟨fun x y => x ^ y⟩

theorem powf_real (x y : ℝ) : PowF.powf x y = x ^ y := rfl

/-- Minkowski for two terms (the induction step of the triangle inequality of `LpDist`), from
Mathlib's `Real.Lp_add_le_of_nonneg` over `Fin 2` -/
theorem minkowski2p {p : ℝ} (hp : 1 ≤ p) (P R u v : ℝ) (hP : 0 ≤ P) (hR : 0 ≤ R) (hu : 0 ≤ u)
    (hv : 0 ≤ v) :
    ((P + R) ^ p + (u + v) ^ p) ^ (1 / p) ≤ (P ^ p + u ^ p) ^ (1 / p) + (R ^ p + v ^ p) ^ (1 / p) := by
  have h := Real.Lp_add_le_of_nonneg (f := ![P, u]) (g := ![R, v]) (Finset.univ : Finset (Fin 2)) hp
    (by intro i _; fin_cases i <;> simp [hP, hu]) (by intro i _; fin_cases i <;> simp [hR, hv])
  simpa [Fin.sum_univ_two] using h

theorem lp_fold_nonneg (l : List ℝ) (hl : ∀ x ∈ l, 0 ≤ x) (i : ℝ) (hi : 0 ≤ i) :
    0 ≤ l.foldl (· + ·) i := by
  induction l generalizing i with
  | nil => simpa
  | cons x xs ih =>
    simp only [List.foldl_cons]
    exact ih (fun y hy => hl y (List.mem_cons_of_mem _ hy)) _
      (add_nonneg hi (hl x List.mem_cons_self))

theorem lp_triangle_aux {p : ℝ} (hp : 1 ≤ p) (a b c : List ℝ) (hab : a.length = b.length)
    (hbc : b.length = c.length) (i1 i2 i3 : ℝ) (h1 : 0 ≤ i1) (h2 : 0 ≤ i2) (h3 : 0 ≤ i3)
    (hi : i1 ^ (1 / p) ≤ i2 ^ (1 / p) + i3 ^ (1 / p)) :
    ((List.zipWith (fun x y => |x - y| ^ p) a c).foldl (· + ·) i1) ^ (1 / p) ≤
      ((List.zipWith (fun x y => |x - y| ^ p) a b).foldl (· + ·) i2) ^ (1 / p) +
      ((List.zipWith (fun x y => |x - y| ^ p) b c).foldl (· + ·) i3) ^ (1 / p) := by
  have hp0 : 0 < p := lt_of_lt_of_le zero_lt_one hp
  have hinv : 0 ≤ 1 / p := by positivity
  induction a generalizing b c i1 i2 i3 with
  | nil =>
    cases b with
    | nil => cases c with
      | nil => simpa using hi
      | cons _ _ => simp at hbc
    | cons _ _ => simp at hab
  | cons x xs ih =>
    cases b with
    | nil => simp at hab
    | cons y ys =>
      cases c with
      | nil => simp at hbc
      | cons z zs =>
        simp only [List.zipWith_cons_cons, List.foldl_cons]
        have hxz : 0 ≤ |x - z| ^ p := Real.rpow_nonneg (abs_nonneg _) _
        have hxy : 0 ≤ |x - y| ^ p := Real.rpow_nonneg (abs_nonneg _) _
        have hyz : 0 ≤ |y - z| ^ p := Real.rpow_nonneg (abs_nonneg _) _
        apply ih ys zs (by simpa using hab) (by simpa using hbc) _ _ _ (add_nonneg h1 hxz)
          (add_nonneg h2 hxy) (add_nonneg h3 hyz)
        -- two-term Minkowski with P = i2^(1/p), R = i3^(1/p), u = |x - y|, v = |y - z|
        have hP := Real.rpow_nonneg h2 (1 / p)
        have hR := Real.rpow_nonneg h3 (1 / p)
        have back : ∀ t : ℝ, 0 ≤ t → (t ^ (1 / p)) ^ p = t := by
          intro t ht
          rw [← Real.rpow_mul ht, one_div_mul_cancel hp0.ne', Real.rpow_one]
        have hm := minkowski2p hp (i2 ^ (1 / p)) (i3 ^ (1 / p)) |x - y| |y - z| hP hR
          (abs_nonneg _) (abs_nonneg _)
        rw [back i2 h2, back i3 h3] at hm
        refine le_trans (Real.rpow_le_rpow (add_nonneg h1 hxz) ?_ hinv) hm
        have e1 : i1 ≤ (i2 ^ (1 / p) + i3 ^ (1 / p)) ^ p := by
          have := Real.rpow_le_rpow (Real.rpow_nonneg h1 _) hi hp0.le
          rwa [back i1 h1] at this
        have e2 : |x - z| ^ p ≤ (|x - y| + |y - z|) ^ p :=
          Real.rpow_le_rpow (abs_nonneg _) (abs_sub_le x y z) hp0.le
        linarith

/-- the model's `lp` over ℝ written with `|·|` and the real power -/
theorem lp_real (p : ℝ) (a b : List ℝ) :
    lp p a b = ((List.zipWith (fun x y => |x - y| ^ p) a b).foldl (· + ·) 0) ^ (1 / p) := by
  unfold lp
  simp only [powf_real, absS_eq_abs]

theorem lp_nonneg (p : ℝ) (a b : List ℝ) : 0 ≤ lp p a b := by
  rw [lp_real]
  exact Real.rpow_nonneg (lp_fold_nonneg _ (by
    intro x hx
    obtain ⟨i, _, rfl⟩ := List.getElem_of_mem hx
    simp only [List.getElem_zipWith]
    exact Real.rpow_nonneg (abs_nonneg _) _) 0 le_rfl) _

theorem lp_triangle {p : ℝ} (hp : 1 ≤ p) (a b c : List ℝ) (hab : a.length = b.length)
    (hbc : b.length = c.length) : lp p a c ≤ lp p a b + lp p b c := by
  rw [lp_real, lp_real, lp_real]
  have hp0 : 0 < p := lt_of_lt_of_le zero_lt_one hp
  exact lp_triangle_aux hp a b c hab hbc 0 0 0 le_rfl le_rfl le_rfl
    (by rw [Real.zero_rpow (one_div_ne_zero hp0.ne')]; simp)

theorem lp_symm (p : ℝ) (a b : List ℝ) : lp p a b = lp p b a := by
  rw [lp_real, lp_real]
  congr 2
  exact List.zipWith_comm_of_comm (f := fun x y : ℝ => |x - y| ^ p)
    (fun x y => by simp only [abs_sub_comm])

theorem lp_self {p : ℝ} (hp : 0 < p) (a : List ℝ) : lp p a a = 0 := by
  rw [lp_real]
  have : (List.zipWith (fun x y => |x - y| ^ p) a a).foldl (· + ·) 0 = 0 := by
    induction a with
    | nil => rfl
    | cons x xs ih =>
      simp only [List.zipWith_cons_cons, List.foldl_cons, sub_self, abs_zero,
        Real.zero_rpow hp.ne', add_zero]
      exact ih
  rw [this, Real.zero_rpow (one_div_ne_zero hp.ne')]

end lp

end LinfaSpec.NN
