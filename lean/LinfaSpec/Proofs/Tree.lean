import LinfaSpec.Model.Tree
import Mathlib.Algebra.Order.Field.Basic
import Mathlib.Tactic.Linarith

/-!
Helper lemmas for C14 (`LinfaSpec.Tree`).
-/
set_option linter.unusedSimpArgs false
set_option linter.unusedSectionVars false
set_option linter.unusedVariables false
namespace LinfaSpec.Tree
open LinfaSpec

section generic
variable {α β : Type}
variable [Add α] [Sub α] [Div α] [Neg α] [LT α] [DecidableLT α] [LE α] [DecidableLE α]
  [OfNat α 0] [NatCast α]
variable [Add β] [Sub β] [Mul β] [Div β] [Neg β] [LT β] [DecidableLT β]
  [OfNat β 0] [OfNat β 1] [NatCast β]

/-- what one successful call of `TreeNode::fit` did -/
inductive FitStep (P : Params α β) (D : Data α β) (ord : List Nat → List Nat)
    (sorted : List (List (Nat × α))) (fuel : Nat) (mask : List Bool) (depth : Nat) : Tree α → Prop
  | leaf (pred : Nat)
      (hm : modalOf (classWeight D (rowsOf mask)) D.rank (ord (presentClasses D (rowsOf mask))) = some pred) :
      FitStep P D ord sorted fuel mask depth (.leaf pred depth)
  | node (pred : Nat) (b : Cand α β) (l r : Tree α)
      (hm : modalOf (classWeight D (rowsOf mask)) D.rank (ord (presentClasses D (rowsOf mask))) = some pred)
      (hguard : stopGuard P (rowsOf mask).length depth = false)
      (hok : (candidates P D sorted mask (freqOf D (rowsOf mask))).any (fun c => !c.ok) = false)
      (hb : pickBest (candidates P D sorted mask (freqOf D (rowsOf mask))) = some b)
      (hdec : ¬ decOf P D (freqOf D (rowsOf mask)) (some b) < P.minDec)
      (hl : fitNode P D ord sorted fuel (leftMask D mask b.feat b.split) (depth + 1) = some l)
      (hr : fitNode P D ord sorted fuel (rightMask D mask b.feat b.split) (depth + 1) = some r)
      (hle : (rowsOf (leftMask D mask b.feat b.split)).isEmpty = false)
      (hre : (rowsOf (rightMask D mask b.feat b.split)).isEmpty = false) :
      FitStep P D ord sorted fuel mask depth
        (.node b.feat b.split (decOf P D (freqOf D (rowsOf mask)) (some b)) pred depth l r)
  | half (pred : Nat) (b : Cand α β) (il : Bool) (c : Tree α)
      (hguard : stopGuard P (rowsOf mask).length depth = false)
      (hc : fitNode P D ord sorted fuel
        (if il then leftMask D mask b.feat b.split else rightMask D mask b.feat b.split) (depth + 1) = some c)
      (hempty : (rowsOf (if il then rightMask D mask b.feat b.split else leftMask D mask b.feat b.split)).isEmpty = true)
      (hb : pickBest (candidates P D sorted mask (freqOf D (rowsOf mask))) = some b) :
      FitStep P D ord sorted fuel mask depth
        (.half b.feat b.split (decOf P D (freqOf D (rowsOf mask)) (some b)) pred depth il c)

theorem fitNode_inv (P : Params α β) (D : Data α β) (ord : List Nat → List Nat)
    (sorted : List (List (Nat × α))) (fuel : Nat) (mask : List Bool) (depth : Nat) (t : Tree α)
    (h : fitNode P D ord sorted (fuel + 1) mask depth = some t) :
    FitStep P D ord sorted fuel mask depth t := by
  unfold fitNode at h
  simp only at h
  split at h
  · exact absurd h (by simp)
  · rename_i pred hm
    split at h
    · cases h; exact .leaf pred hm
    · rename_i hguard
      split at h
      · exact absurd h (by simp)
      · rename_i hok
        split at h
        · cases h; exact .leaf pred hm
        · rename_i hdec
          split at h
          · exact absurd h (by simp)
          · rename_i b hb
            rw [hb] at hdec
            split at h
            · split at h
              · exact absurd h (by simp)
              · split at h
                · exact absurd h (by simp)
                · cases h
                  rw [hb]
                  refine .node pred b _ _ hm (by simpa using hguard) (by simpa using hok) hb hdec ?_ ?_ ?_ ?_ <;>
                    assumption
            · split at h
              · exact absurd h (by simp)
              · cases h
                rw [hb]
                refine .half pred b true _ (by simpa using hguard) ?_ ?_ hb
                · simp only [if_true, Bool.false_eq_true, if_false]; assumption
                · simp only [if_true, Bool.false_eq_true, if_false]; assumption
            · split at h
              · exact absurd h (by simp)
              · cases h
                rw [hb]
                refine .half pred b false _ (by simpa using hguard) ?_ ?_ hb
                · simp only [if_true, Bool.false_eq_true, if_false]; assumption
                · simp only [if_true, Bool.false_eq_true, if_false]; assumption
            · cases h; exact .leaf pred hm

/-! ### predicates over fitted trees -/

/-- `Q mask feat split dec` holds at every split node, `mask` being the training rows that reach
the node when every split sends `value <= split` to the left (what `fit` does).  A leaf-flagged node
that keeps a child (`half`) is not a split node itself; the split nodes below it are included. -/
def ForallSplits (D : Data α β) (Q : List Bool → Nat → α → α → Prop) : List Bool → Tree α → Prop
  | _, .leaf _ _ => True
  | m, .node f s dec _ _ l r =>
    Q m f s dec ∧ ForallSplits D Q (leftMask D m f s) l ∧ ForallSplits D Q (rightMask D m f s) r
  | m, .half f s _ _ _ il c =>
    ForallSplits D Q (if il then leftMask D m f s else rightMask D m f s) c

/-- `Q mask pred` holds at every leaf (`leaf_node = true`) with the training rows reaching it -/
def ForallLeaves (D : Data α β) (Q : List Bool → Nat → Prop) : List Bool → Tree α → Prop
  | m, .leaf p _ => Q m p
  | m, .node f s _ _ _ l r =>
    ForallLeaves D Q (leftMask D m f s) l ∧ ForallLeaves D Q (rightMask D m f s) r
  | m, .half _ _ _ p _ _ _ => Q m p

/-- depth fields are the true depths; leaves are at depth `≤ max_depth`, splits strictly above -/
def DepthOK (md : Option Nat) : Nat → Tree α → Prop
  | d, .leaf _ d' => d' = d ∧ (∀ m, md = some m → d ≤ m)
  | d, .node _ _ _ _ d' l r =>
    d' = d ∧ (∀ m, md = some m → d < m) ∧ DepthOK md (d + 1) l ∧ DepthOK md (d + 1) r
  | d, .half _ _ _ _ d' _ c => d' = d ∧ (∀ m, md = some m → d < m) ∧ DepthOK md (d + 1) c

/-- no leaf-flagged node keeps a child -/
def NoHalf : Tree α → Prop
  | .leaf _ _ => True
  | .node _ _ _ _ _ l r => NoHalf l ∧ NoHalf r
  | .half _ _ _ _ _ _ _ => False

theorem stopGuard_false_depth (P : Params α β) (n depth m : Nat)
    (h : stopGuard P n depth = false) (hm : P.maxDepth = some m) : depth < m := by
  unfold stopGuard at h
  simp only [hm, Bool.or_eq_false_iff, decide_eq_false_iff_not] at h
  omega

theorem stopGuard_false_split (P : Params α β) (n depth : Nat)
    (h : stopGuard P n depth = false) : ¬ ((n : β) < P.minSplit) := by
  unfold stopGuard at h
  simp only [Bool.or_eq_false_iff, decide_eq_false_iff_not] at h
  exact h.1

theorem fitNode_forallSplits (P : Params α β) (D : Data α β) (ord : List Nat → List Nat)
    (sorted : List (List (Nat × α))) (Q : List Bool → Nat → α → α → Prop)
    (hQ : ∀ mask depth b, stopGuard P (rowsOf mask).length depth = false →
      pickBest (candidates P D sorted mask (freqOf D (rowsOf mask))) = some b →
      ¬ decOf P D (freqOf D (rowsOf mask)) (some b) < P.minDec →
      (rowsOf (leftMask D mask b.feat b.split)).isEmpty = false →
      (rowsOf (rightMask D mask b.feat b.split)).isEmpty = false →
      Q mask b.feat b.split (decOf P D (freqOf D (rowsOf mask)) (some b))) :
    ∀ fuel mask depth t, fitNode P D ord sorted fuel mask depth = some t → ForallSplits D Q mask t := by
  intro fuel
  induction fuel with
  | zero => intro mask depth t h; simp [fitNode] at h
  | succ fuel ih =>
    intro mask depth t h
    cases fitNode_inv P D ord sorted fuel mask depth t h with
    | leaf pred hm => trivial
    | node pred b l r hm hguard hok hb hdec hl hr hle hre =>
      exact ⟨hQ mask depth b hguard hb hdec hle hre, ih _ _ _ hl, ih _ _ _ hr⟩
    | half pred b il c hguard hc hempty hb =>
      simp only [ForallSplits]
      exact ih _ _ _ hc

theorem fitNode_forallLeaves (P : Params α β) (D : Data α β) (ord : List Nat → List Nat)
    (sorted : List (List (Nat × α))) (Q : List Bool → Nat → Prop)
    (hQ : ∀ mask pred,
      modalOf (classWeight D (rowsOf mask)) D.rank (ord (presentClasses D (rowsOf mask))) = some pred → Q mask pred) :
    ∀ fuel mask depth t, fitNode P D ord sorted fuel mask depth = some t →
      (∀ f s dec p d il c, t ≠ .half f s dec p d il c) → NoHalf t → ForallLeaves D Q mask t := by
  intro fuel
  induction fuel with
  | zero => intro mask depth t h; simp [fitNode] at h
  | succ fuel ih =>
    intro mask depth t h hnh hno
    cases fitNode_inv P D ord sorted fuel mask depth t h with
    | leaf pred hm => exact hQ mask pred hm
    | node pred b l r hm hguard hok hb hdec hl hr hle hre =>
      have hl' : NoHalf l := hno.1
      have hr' : NoHalf r := hno.2
      refine ⟨ih _ _ _ hl ?_ hl', ih _ _ _ hr ?_ hr'⟩
      · intro f s dec p d il c hc; rw [hc] at hl'; exact hl'
      · intro f s dec p d il c hc; rw [hc] at hr'; exact hr'
    | half pred b il c hguard hc hempty hb => exact absurd rfl (hnh _ _ _ _ _ _ _)

theorem fitNode_depthOK (P : Params α β) (D : Data α β) (ord : List Nat → List Nat)
    (sorted : List (List (Nat × α))) :
    ∀ fuel mask depth t, fitNode P D ord sorted fuel mask depth = some t →
      (∀ m, P.maxDepth = some m → depth ≤ m) → DepthOK P.maxDepth depth t := by
  intro fuel
  induction fuel with
  | zero => intro mask depth t h; simp [fitNode] at h
  | succ fuel ih =>
    intro mask depth t h hd
    cases fitNode_inv P D ord sorted fuel mask depth t h with
    | leaf pred hm => exact ⟨rfl, hd⟩
    | node pred b l r hm hguard hok hb hdec hl hr hle hre =>
      have hlt : ∀ m, P.maxDepth = some m → depth < m :=
        fun m hm' => stopGuard_false_depth P _ depth m hguard hm'
      exact ⟨rfl, hlt, ih _ _ _ hl (fun m hm' => hlt m hm'), ih _ _ _ hr (fun m hm' => hlt m hm')⟩
    | half pred b il c hguard hc hempty hb =>
      have hlt : ∀ m, P.maxDepth = some m → depth < m :=
        fun m hm' => stopGuard_false_depth P _ depth m hguard hm'
      exact ⟨rfl, hlt, ih _ _ _ hc (fun m hm' => hlt m hm')⟩

/-! ### pruning keeps the per-node facts -/

theorem prune_forallSplits (D : Data α β) (Q : List Bool → Nat → α → α → Prop) :
    ∀ (t : Tree α) (m : List Bool), ForallSplits D Q m t → ForallSplits D Q m (prune t).1 := by
  intro t
  induction t with
  | leaf p d => intro m h; exact h
  | half f s dec p d il c ih => intro m h; exact h
  | node f s dec p d l r ihl ihr =>
    intro m h
    obtain ⟨h1, h2, h3⟩ := h
    simp only [prune]
    split
    · split
      · trivial
      · exact ⟨h1, ihl _ h2, ihr _ h3⟩
    · exact ⟨h1, ihl _ h2, ihr _ h3⟩

theorem prune_depthOK (md : Option Nat) :
    ∀ (t : Tree α) (d : Nat), DepthOK md d t → DepthOK md d (prune t).1 := by
  intro t
  induction t with
  | leaf p d' => intro d h; exact h
  | half f s dec p d' il c ih => intro d h; exact h
  | node f s dec p d' l r ihl ihr =>
    intro d h
    obtain ⟨h0, h1, h2, h3⟩ := h
    simp only [prune]
    split
    · split
      · exact ⟨h0, fun m hm => Nat.le_of_lt (h1 m hm)⟩
      · exact ⟨h0, h1, ihl _ h2, ihr _ h3⟩
    · exact ⟨h0, h1, ihl _ h2, ihr _ h3⟩

theorem routePredict_eq_routeFit (row : List α) (t : Tree α) : routePredict row t = routeFit row t := by
  induction t with
  | leaf p d => rfl
  | half f s dec p d il c ih => rfl
  | node f s dec p d l r ihl ihr => simp only [routePredict, routeFit, ihl, ihr]

/-- the leaf a row ends in when it follows a list of turns -/
def follow : List Bool → Tree α → Tree α
  | true :: rest, .node _ _ _ _ _ l _ => follow rest l
  | false :: rest, .node _ _ _ _ _ _ r => follow rest r
  | _, t => t

def leafPred : Tree α → Nat
  | .leaf p _ => p
  | .half _ _ _ p _ _ _ => p
  | .node _ _ _ p _ _ _ => p

theorem predict_eq_follow (row : List α) (t : Tree α) :
    predict row t = leafPred (follow (routeFit row t) t) := by
  induction t with
  | leaf p d => rfl
  | half f s dec p d il c ih => rfl
  | node f s dec p d l r ihl ihr =>
    simp only [predict, routeFit]
    split
    · simpa [follow] using ihl
    · simpa [follow] using ihr

end generic

/-! ### modal class -/

section modal
variable {β : Type} [LinearOrder β]

/-- one step of the fold of `find_modal_class` -/
def modalStep (freq : Nat → β) (rank : Nat → Nat) (acc : Option Nat) (c : Nat) : Option Nat :=
  match acc with
  | none => some c
  | some b =>
    if freq c < freq b ∨ ((¬ freq b < freq c ∧ ¬ freq c < freq b) ∧ rank b < rank c) then some b
    else some c

theorem modalOf_eq_foldl (freq : Nat → β) (rank : Nat → Nat) (order : List Nat) :
    modalOf freq rank order = order.foldl (modalStep freq rank) none := rfl

/-- `Better c c'`: `c` beats `c'` in the order `find_modal_class` maximises — heavier, or equally
heavy and not later in the label order -/
def Better (freq : Nat → β) (rank : Nat → Nat) (c c' : Nat) : Prop :=
  freq c' ≤ freq c ∧ (freq c' = freq c → rank c ≤ rank c')

theorem Better.trans {freq : Nat → β} {rank : Nat → Nat} {a b c : Nat}
    (h1 : Better freq rank a b) (h2 : Better freq rank b c) : Better freq rank a c := by
  refine ⟨le_trans h2.1 h1.1, fun h => ?_⟩
  have hcb : freq c = freq b := le_antisymm h2.1 (h ▸ h1.1)
  have hba : freq b = freq a := hcb ▸ h
  exact le_trans (h1.2 hba) (h2.2 hcb)

theorem modalStep_some (freq : Nat → β) (rank : Nat → Nat) (b x : Nat) :
    (modalStep freq rank (some b) x = some b ∧ Better freq rank b x) ∨
    (modalStep freq rank (some b) x = some x ∧ Better freq rank x b) := by
  unfold modalStep
  simp only
  split
  · rename_i h
    left
    refine ⟨rfl, ?_⟩
    rcases h with h | ⟨⟨h1, h2⟩, h3⟩
    · exact ⟨le_of_lt h, fun he => absurd he (ne_of_lt h)⟩
    · exact ⟨not_lt.mp h1, fun _ => le_of_lt h3⟩
  · rename_i h
    right
    refine ⟨rfl, ?_⟩
    rw [not_or] at h
    obtain ⟨h1, h2⟩ := h
    refine ⟨not_lt.mp h1, fun he => ?_⟩
    by_contra hr
    exact h2 ⟨⟨by rw [he]; exact lt_irrefl _, by rw [he]; exact lt_irrefl _⟩, not_le.mp hr⟩

theorem modalOf_aux (freq : Nat → β) (rank : Nat → Nat) :
    ∀ (order : List Nat) (b c : Nat),
      order.foldl (modalStep freq rank) (some b) = some c →
      (c = b ∨ c ∈ order) ∧ Better freq rank c b ∧ ∀ c' ∈ order, Better freq rank c c' := by
  intro order
  induction order with
  | nil =>
    intro b c h
    simp only [List.foldl_nil, Option.some.injEq] at h
    subst h
    exact ⟨Or.inl rfl, ⟨le_refl _, fun _ => le_refl _⟩, by simp⟩
  | cons x xs ih =>
    intro b c h
    simp only [List.foldl_cons] at h
    rcases modalStep_some freq rank b x with ⟨hs, hb⟩ | ⟨hs, hb⟩
    · rw [hs] at h
      obtain ⟨h1, h2, h3⟩ := ih b c h
      refine ⟨?_, h2, ?_⟩
      · rcases h1 with h1 | h1
        · exact Or.inl h1
        · exact Or.inr (List.mem_cons_of_mem _ h1)
      · intro c' hc'
        rcases List.mem_cons.mp hc' with hc' | hc'
        · subst hc'; exact h2.trans hb
        · exact h3 c' hc'
    · rw [hs] at h
      obtain ⟨h1, h2, h3⟩ := ih x c h
      refine ⟨?_, h2.trans hb, ?_⟩
      · rcases h1 with h1 | h1
        · exact Or.inr (by simp [h1])
        · exact Or.inr (List.mem_cons_of_mem _ h1)
      · intro c' hc'
        rcases List.mem_cons.mp hc' with hc' | hc'
        · subst hc'; exact h2
        · exact h3 c' hc'

/-- `find_modal_class` returns a key of the map whose weight is maximal among the keys and which,
among the keys of maximal weight, comes first in the order of the label type — whatever the
iteration order of the map -/
theorem modalOf_spec' (freq : Nat → β) (rank : Nat → Nat) (order : List Nat) (c : Nat)
    (h : modalOf freq rank order = some c) : c ∈ order ∧ ∀ c' ∈ order, Better freq rank c c' := by
  rw [modalOf_eq_foldl] at h
  cases order with
  | nil => simp at h
  | cons x xs =>
    simp only [List.foldl_cons] at h
    have hx : modalStep freq rank none x = some x := rfl
    rw [hx] at h
    obtain ⟨h1, h2, h3⟩ := modalOf_aux freq rank xs x c h
    refine ⟨?_, ?_⟩
    · rcases h1 with h1 | h1
      · simp [h1]
      · exact List.mem_cons_of_mem _ h1
    · intro c' hc'
      rcases List.mem_cons.mp hc' with hc' | hc'
      · subst hc'; exact h2
      · exact h3 c' hc'

theorem modalOf_spec (freq : Nat → β) (rank : Nat → Nat) (order : List Nat) (c : Nat)
    (h : modalOf freq rank order = some c) : c ∈ order ∧ ∀ c' ∈ order, freq c' ≤ freq c :=
  ⟨(modalOf_spec' freq rank order c h).1, fun c' hc' => ((modalOf_spec' freq rank order c h).2 c' hc').1⟩

theorem modalOf_isSome (freq : Nat → β) (rank : Nat → Nat) (order : List Nat) (hne : order ≠ []) :
    ∃ c, modalOf freq rank order = some c := by
  rw [modalOf_eq_foldl]
  cases order with
  | nil => exact absurd rfl hne
  | cons x xs =>
    simp only [List.foldl_cons]
    have hx : modalStep freq rank none x = some x := rfl
    rw [hx]
    clear hne hx
    induction xs generalizing x with
    | nil => exact ⟨x, rfl⟩
    | cons y ys ih =>
      simp only [List.foldl_cons]
      rcases modalStep_some freq rank x y with ⟨hs, _⟩ | ⟨hs, _⟩
      · rw [hs]; exact ih x
      · rw [hs]; exact ih y

/-- **the modal class does not depend on the iteration order of the hash map**: two orders with
the same members give the same result when the label order separates the members -/
theorem modalOf_order_irrelevant (freq : Nat → β) (rank : Nat → Nat) (o1 o2 : List Nat)
    (hmem : ∀ c, c ∈ o1 ↔ c ∈ o2)
    (hinj : ∀ a ∈ o1, ∀ b ∈ o1, rank a = rank b → a = b) :
    modalOf freq rank o1 = modalOf freq rank o2 := by
  by_cases h1 : o1 = []
  · have h2 : o2 = [] := by
      cases o2 with
      | nil => rfl
      | cons y ys => have := (hmem y).mpr (by simp); rw [h1] at this; simp at this
    rw [h1, h2]
  · have h2 : o2 ≠ [] := by
      intro h2
      cases o1 with
      | nil => exact h1 rfl
      | cons y ys => have := (hmem y).mp (by simp); rw [h2] at this; simp at this
    obtain ⟨c1, hc1⟩ := modalOf_isSome freq rank o1 h1
    obtain ⟨c2, hc2⟩ := modalOf_isSome freq rank o2 h2
    obtain ⟨m1, b1⟩ := modalOf_spec' freq rank o1 c1 hc1
    obtain ⟨m2, b2⟩ := modalOf_spec' freq rank o2 c2 hc2
    have h12 := b1 c2 ((hmem c2).mpr m2)
    have h21 := b2 c1 ((hmem c1).mp m1)
    have hf : freq c1 = freq c2 := le_antisymm h21.1 h12.1
    have hr : rank c1 = rank c2 := Nat.le_antisymm (h12.2 hf.symm) (h21.2 hf)
    rw [hc1, hc2, hinj c1 m1 c2 ((hmem c2).mpr m2) hr]

end modal
end LinfaSpec.Tree
