import LinfaSpec.Proofs.IncrementalMore

/-!
C15: lifting the coordinate-level running-mean recurrence (`kmTrack`) through
`compute_centroids_incremental` (`kmIncr`) for a whole batch: every coordinate of every centroid
absorbs exactly the coordinates of the observations assigned to its cluster, in order, with the
cumulative count of the cluster.
-/
namespace LinfaSpec.Incremental
open LinfaSpec

set_option linter.unusedSectionVars false
set_option linter.unusedSimpArgs false
set_option linter.unusedVariables false

section Field
variable {α : Type} [Field α] [LinearOrder α] [IsStrictOrderedRing α]

/-- coordinate `j` of the observations assigned to cluster `c`, in batch order -/
def coordSeq (c j : Nat) (pairs : List (List α × Nat)) : List α :=
  (pairs.filter fun xm => xm.2 = c).map fun xm => xm.1.getD j 0

omit [LinearOrder α] [IsStrictOrderedRing α] in
theorem getD_zipWith_lt (f : α → α → α) (a b : List α) (j : Nat) (ha : j < a.length) (hb : j < b.length) :
    (List.zipWith f a b).getD j 0 = f (a.getD j 0) (b.getD j 0) := by
  simp [List.getD_eq_getElem?_getD, List.getElem?_zipWith, List.getElem?_eq_getElem ha,
    List.getElem?_eq_getElem hb]

omit [LinearOrder α] [IsStrictOrderedRing α] in
theorem kmAddPoint_lengths (st : KState α) (x : List α) (m : Nat) :
    (kmAddPoint st x m).centroids.length = st.centroids.length ∧
    (kmAddPoint st x m).counts.length = st.counts.length := by
  simp [kmAddPoint]

omit [LinearOrder α] [IsStrictOrderedRing α] in
theorem kmAddPoint_other (st : KState α) (x : List α) (m c : Nat) (h : m ≠ c) :
    (kmAddPoint st x m).centroids.getD c [] = st.centroids.getD c [] ∧
    (kmAddPoint st x m).counts.getD c 0 = st.counts.getD c 0 := by
  simp [kmAddPoint, List.getD_eq_getElem?_getD, List.getElem?_set_ne h]

omit [LinearOrder α] [IsStrictOrderedRing α] in
theorem kmAddPoint_same (st : KState α) (x : List α) (c : Nat) (hc : c < st.centroids.length)
    (hc' : c < st.counts.length) :
    (kmAddPoint st x c).centroids.getD c [] =
      List.zipWith (fun ci xi => ci + (xi - ci) / (st.counts.getD c 0 + 1)) (st.centroids.getD c []) x ∧
    (kmAddPoint st x c).counts.getD c 0 = st.counts.getD c 0 + 1 := by
  simp [kmAddPoint, List.getD_eq_getElem?_getD, List.getElem?_set_self, hc, hc']

/-- **whole-batch lifting**: after `compute_centroids_incremental` on the (observation, membership)
pairs, coordinate `j` of centroid `c` is the `kmTrack` recurrence run over the `j`-th coordinates of
the observations assigned to `c` (in order), started at the old coordinate with the old cumulative
count `n`; the new cumulative count is `n +` the number of those observations. -/
theorem kmIncr_cluster (c j : Nat) (pairs : List (List α × Nat)) :
    ∀ (st : KState α) (n : Nat),
      c < st.centroids.length → c < st.counts.length → st.counts.getD c 0 = (n : α) →
      j < (st.centroids.getD c []).length →
      (∀ xm ∈ pairs, (st.centroids.getD c []).length ≤ xm.1.length) →
      (((pairs.foldl (fun s xc => kmAddPoint s xc.1 xc.2) st).centroids.getD c []).getD j 0 =
          ((coordSeq c j pairs).foldl kmTrack ((st.centroids.getD c []).getD j 0, n)).1) ∧
      (pairs.foldl (fun s xc => kmAddPoint s xc.1 xc.2) st).counts.getD c 0 =
          ((n + (coordSeq c j pairs).length : Nat) : α) := by
  induction pairs with
  | nil =>
    intro st n _ _ hn _ _
    simp only [coordSeq, List.foldl_nil, List.filter_nil, List.map_nil, List.length_nil, Nat.add_zero]
    exact ⟨trivial, hn⟩
  | cons xm rest ih =>
    intro st n hc hc' hn hj hlen
    obtain ⟨x, m⟩ := xm
    simp only [List.foldl_cons]
    have hl := kmAddPoint_lengths st x m
    have hx : (st.centroids.getD c []).length ≤ x.length := hlen (x, m) List.mem_cons_self
    by_cases hm : m = c
    · subst hm
      obtain ⟨h1, h2⟩ := kmAddPoint_same st x m hc hc'
      have hrow : ((kmAddPoint st x m).centroids.getD m []).length = (st.centroids.getD m []).length := by
        rw [h1, List.length_zipWith]; omega
      have hcnt : (kmAddPoint st x m).counts.getD m 0 = ((n + 1 : Nat) : α) := by
        rw [h2, hn]; push_cast; ring
      have := ih (kmAddPoint st x m) (n + 1) (by rw [hl.1]; exact hc) (by rw [hl.2]; exact hc') hcnt
        (by rw [hrow]; exact hj)
        (by intro ym hym; rw [hrow]; exact hlen ym (List.mem_cons_of_mem _ hym))
      obtain ⟨g1, g2⟩ := this
      have hcoord : ((kmAddPoint st x m).centroids.getD m []).getD j 0 =
          (kmTrack ((st.centroids.getD m []).getD j 0, n) (x.getD j 0)).1 := by
        rw [h1, getD_zipWith_lt _ _ _ j hj (lt_of_lt_of_le hj hx), hn]
        simp [kmTrack]
      have hseq : coordSeq m j ((x, m) :: rest) = x.getD j 0 :: coordSeq m j rest := by
        simp [coordSeq]
      rw [hseq, List.foldl_cons, List.length_cons]
      refine ⟨?_, ?_⟩
      · rw [g1, hcoord]; rfl
      · rw [g2]; congr 1; omega
    · obtain ⟨h1, h2⟩ := kmAddPoint_other st x m c hm
      have := ih (kmAddPoint st x m) n (by rw [hl.1]; exact hc) (by rw [hl.2]; exact hc')
        (by rw [h2]; exact hn) (by rw [h1]; exact hj)
        (by intro ym hym; rw [h1]; exact hlen ym (List.mem_cons_of_mem _ hym))
      obtain ⟨g1, g2⟩ := this
      have hseq : coordSeq c j ((x, m) :: rest) = coordSeq c j rest := by
        simp [coordSeq, hm]
      rw [hseq, g1, g2, h1]
      exact ⟨rfl, rfl⟩

/-- corollary with the closed form: the new coordinate times the new count is the old coordinate
times the old count plus the sum of everything absorbed (cumulative running mean) -/
theorem kmIncr_cluster_sum (c j : Nat) (pairs : List (List α × Nat)) (st : KState α) (n : Nat)
    (hc : c < st.centroids.length) (hc' : c < st.counts.length) (hn : st.counts.getD c 0 = (n : α))
    (hj : j < (st.centroids.getD c []).length)
    (hlen : ∀ xm ∈ pairs, (st.centroids.getD c []).length ≤ xm.1.length) :
    ((pairs.foldl (fun s xc => kmAddPoint s xc.1 xc.2) st).centroids.getD c []).getD j 0 *
        ((n + (coordSeq c j pairs).length : Nat) : α) =
      (st.centroids.getD c []).getD j 0 * (n : α) + sumS (coordSeq c j pairs) := by
  obtain ⟨g1, _⟩ := kmIncr_cluster c j pairs st n hc hc' hn hj hlen
  rw [g1]
  exact (kmTrack_invariant (coordSeq c j pairs) _ n).2

end Field
end LinfaSpec.Incremental
