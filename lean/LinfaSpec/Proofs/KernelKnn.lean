import LinfaSpec.Proofs.Sparse
import Mathlib.Data.List.Perm.Subperm
import Mathlib.Order.Basic
import Mathlib.Order.Defs.LinearOrder

/-! C06 — "whichever neighbour index is used": the sparse kernel depends on the neighbour lists only through
their members, and on tie-free records the members are determined by the distances. -/
namespace LinfaSpec.Kernel
open LinfaSpec

/-- the stored pattern depends on the neighbour lists only through their members (order and repetitions
inside a list, i.e. the order in which an index reports the neighbours, are irrelevant) -/
theorem support_congr (n : Nat) (nb nb' : List (List Nat))
    (h : ∀ i j, i < n → (j ∈ nb.getD i [] ↔ j ∈ nb'.getD i [])) :
    support n (adjPattern n nb) = support n (adjPattern n nb') := by
  unfold support
  apply List.map_congr_left
  intro i hi
  apply List.filter_congr
  intro j hj
  have hi' : i < n := List.mem_range.mp hi
  have hj' : j < n := List.mem_range.mp hj
  have e1 : ((adjPattern n nb).getD i []).contains j = ((adjPattern n nb').getD i []).contains j := by
    rw [Bool.eq_iff_iff, adjPattern_contains n nb i j hi', adjPattern_contains n nb' i j hi', h i j hi']
  have e2 : ((adjPattern n nb).getD j []).contains i = ((adjPattern n nb').getD j []).contains i := by
    rw [Bool.eq_iff_iff, adjPattern_contains n nb j i hj', adjPattern_contains n nb' j i hj', h j i hj']
  rw [e1, e2]

/-- `l` is *the* set of the `c` points nearest to the query under the distances `d` (tie-free reading):
`c` distinct points below `n`, each strictly closer than every point left out.  This is the contract of
`k_nearest(row, c)` on records without distance ties (validated by the harness per case, tie-aware). -/
def Nearest {β : Type} [LT β] (d : Nat → β) (n c : Nat) (l : List Nat) : Prop :=
  l.Nodup ∧ l.length = c ∧ (∀ a ∈ l, a < n) ∧ ∀ a ∈ l, ∀ b, b < n → b ∉ l → d a < d b

/-- two answers that both satisfy the tie-free contract have the same members -/
theorem nearest_unique {β : Type} [Preorder β] (d : Nat → β) (n c : Nat) (l l' : List Nat)
    (h : Nearest d n c l) (h' : Nearest d n c l') : ∀ a, a ∈ l ↔ a ∈ l' := by
  have key : ∀ (l l' : List Nat), Nearest d n c l → Nearest d n c l' → ∀ a, a ∈ l → a ∈ l' := by
    intro l l' h h' a ha
    by_contra hna
    -- some member of `l'` is missing from `l`, otherwise `l' ⊆ l` with equal lengths gives `a ∈ l'`
    have hex : ∃ b ∈ l', b ∉ l := by
      by_contra hno
      have hsub : l' ⊆ l := by
        intro b hb
        by_contra hbl
        exact hno ⟨b, hb, hbl⟩
      have hp : l'.Perm l :=
        (h'.1.subperm hsub).perm_of_length_le (by rw [h.2.1, h'.2.1])
      exact hna (hp.mem_iff.mpr ha)
    obtain ⟨b, hb, hbl⟩ := hex
    have h1 : d a < d b := h.2.2.2 a ha b (h'.2.2.1 b hb) hbl
    have h2 : d b < d a := h'.2.2.2 b hb a (h.2.2.1 a ha) hna
    exact lt_irrefl _ (lt_trans h1 h2)
  intro a
  exact ⟨key l l' h h' a, key l' l h' h a⟩

end LinfaSpec.Kernel
