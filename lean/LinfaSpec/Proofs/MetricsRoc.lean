import LinfaSpec.Proofs.Metrics

/-!
Helper lemmas for the ROC / AUC part of C05: the loop invariant that ties the trapezoid area of the
curve built by `rocStep` to the Mann-Whitney count of the processed prefix.
-/
namespace LinfaSpec.Metrics
open LinfaSpec

section Roc
variable {α : Type} [Field α] [LinearOrder α] [IsStrictOrderedRing α]

/-- recursive form of the trapezoid rule -/
def trapR : List (α × α) → α
  | [] => 0
  | [_] => 0
  | p :: q :: rest => (q.1 - p.1) * (p.2 + q.2) / 2 + trapR (q :: rest)

theorem trapezoid_fold (acc : α) (p : α × α) (rest : List (α × α)) :
    (rest.foldl (fun (acc : α × α × α) q =>
      (acc.1 + (q.1 - acc.2.1) * (acc.2.2 + q.2) / 2, q.1, q.2)) (acc, p.1, p.2)).1 = acc + trapR (p :: rest) := by
  induction rest generalizing acc p with
  | nil => simp [trapR]
  | cons q qs ih =>
    simp only [List.foldl_cons]
    rw [ih]
    simp only [trapR]; ring

theorem trapezoid_eq_trapR (c : List (α × α)) : trapezoid c = trapR c := by
  cases c with
  | nil => rfl
  | cons p rest =>
    show (rest.foldl (fun (acc : α × α × α) q =>
      (acc.1 + (q.1 - acc.2.1) * (acc.2.2 + q.2) / 2, q.1, q.2)) (0, p.1, p.2)).1 = trapR (p :: rest)
    rw [trapezoid_fold]; simp

theorem trapR_snoc (c : List (α × α)) (p q : α × α) :
    trapR (c ++ [p, q]) = trapR (c ++ [p]) + (q.1 - p.1) * (p.2 + q.2) / 2 := by
  induction c with
  | nil => simp [trapR]
  | cons a as ih =>
    cases as with
    | nil => simp [trapR]
    | cons b bs =>
      simp only [List.cons_append, trapR] at ih ⊢
      rw [ih]; ring

theorem trapR_scale (a b : α) (c : List (α × α)) :
    trapR (c.map fun p => (p.1 / a, p.2 / b)) = trapR c / (a * b) := by
  induction c with
  | nil => simp [trapR]
  | cons p ps ih =>
    cases ps with
    | nil => simp [trapR]
    | cons q qs =>
      simp only [List.map_cons, trapR] at ih ⊢
      rw [ih]; ring

/-- sum of `f score` over the positives / the negatives of a sample list -/
def posSum (l : List (α × Bool)) (f : α → α) : α := (l.map fun p => if p.2 then f p.1 else 0).sum
def negSum (l : List (α × Bool)) (f : α → α) : α := (l.map fun p => if p.2 then 0 else f p.1).sum

theorem posSum_snoc (l : List (α × Bool)) (x : α × Bool) (f : α → α) :
    posSum (l ++ [x]) f = posSum l f + if x.2 then f x.1 else 0 := by
  simp [posSum]

theorem negSum_snoc (l : List (α × Bool)) (x : α × Bool) (f : α → α) :
    negSum (l ++ [x]) f = negSum l f + if x.2 then 0 else f x.1 := by
  simp [negSum]

theorem posSum_add (l : List (α × Bool)) (f g : α → α) :
    posSum l (fun s => f s + g s) = posSum l f + posSum l g := by
  induction l with
  | nil => simp [posSum]
  | cons x xs ih =>
    simp only [posSum, List.map_cons, List.sum_cons] at ih ⊢
    rw [ih]; split <;> ring

theorem posSum_congr (l : List (α × Bool)) (f g : α → α) (h : ∀ x ∈ l, f x.1 = g x.1) :
    posSum l f = posSum l g := by
  unfold posSum
  congr 1
  apply List.map_congr_left
  intro x hx; rw [h x hx]

theorem negSum_congr (l : List (α × Bool)) (f g : α → α) (h : ∀ x ∈ l, f x.1 = g x.1) :
    negSum l f = negSum l g := by
  unfold negSum
  congr 1
  apply List.map_congr_left
  intro x hx; rw [h x hx]

theorem negSum_add (l : List (α × Bool)) (f g : α → α) :
    negSum l (fun s => f s + g s) = negSum l f + negSum l g := by
  induction l with
  | nil => simp [negSum]
  | cons x xs ih =>
    simp only [negSum, List.map_cons, List.sum_cons] at ih ⊢
    rw [ih]; split <;> ring

theorem posSum_zero (l : List (α × Bool)) : posSum l (fun _ => 0) = 0 := by
  simp [posSum]

theorem countPos_eq (l : List (α × Bool)) : countPos l = posSum l fun _ => 1 := by
  simp [countPos, posSum, sumS_eq_sum]

theorem countNeg_eq (l : List (α × Bool)) : countNeg l = negSum l fun _ => 1 := by
  simp [countNeg, negSum, sumS_eq_sum]

theorem mwCount2_eq (l : List (α × Bool)) :
    mwCount2 l = posSum l fun s => negSum l fun t => mwWeight t s := by
  simp [mwCount2, posSum, negSum, sumS_eq_sum]

/-- appending a sample adds its pairs with the earlier samples of the other class -/
theorem mwCount2_snoc (l : List (α × Bool)) (x : α × Bool) :
    mwCount2 (l ++ [x]) = mwCount2 l +
      if x.2 then negSum l (fun t => mwWeight t x.1) else posSum l (fun s => mwWeight x.1 s) := by
  rw [mwCount2_eq, mwCount2_eq]
  have : (fun s => negSum (l ++ [x]) fun t => mwWeight t s) =
      fun s => (negSum l fun t => mwWeight t s) + (if x.2 then 0 else mwWeight x.1 s) := by
    funext s; rw [negSum_snoc]
  rw [this, posSum_add, posSum_snoc, posSum_snoc]
  cases hx : x.2 <;> simp [posSum_zero]

/-- indicator of `t < s` as a scalar -/
def ltInd (s t : α) : α := if t < s then 1 else 0

/-- the loop state after the sorted prefix `pre` has been consumed -/
structure RocInv (pre : List (α × Bool)) (st : RocState α) : Prop where
  tp_eq : st.tp = posSum pre fun _ => 1
  fp_eq : st.fp = negSum pre fun _ => 1
  area : 2 * trapR (st.pts ++ [(st.tp, st.fp)]) = mwCount2 pre
  grp : match st.s0 with
    | none => pre = [] ∧ st.pts = []
    | some s => (∃ y ∈ pre, y.1 = s) ∧ (∀ y ∈ pre, y.1 ≤ s) ∧
        ∃ c, st.pts = c ++ [(posSum pre (ltInd s), negSum pre (ltInd s))]

theorem rocInv_init : RocInv ([] : List (α × Bool)) { tp := 0, fp := 0, s0 := none, pts := [], thr := [] } := by
  refine ⟨by simp [posSum], by simp [negSum], ?_, by simp⟩
  simp [trapR, mwCount2_eq, posSum]

theorem rocStep_fresh (eps : α) (st : RocState α) (x : α × Bool) (h : isFresh eps st.s0 x.1 = true) :
    rocStep eps st x =
      if x.2 then { tp := st.tp + 1, fp := st.fp, s0 := some x.1, pts := st.pts ++ [(st.tp, st.fp)], thr := st.thr ++ [x.1] }
      else { tp := st.tp, fp := st.fp + 1, s0 := some x.1, pts := st.pts ++ [(st.tp, st.fp)], thr := st.thr ++ [x.1] } := by
  unfold rocStep
  simp only [h, if_true]

theorem rocStep_same (eps : α) (st : RocState α) (x : α × Bool) (h : isFresh eps st.s0 x.1 = false) :
    rocStep eps st x =
      if x.2 then { st with tp := st.tp + 1 } else { st with fp := st.fp + 1 } := by
  unfold rocStep
  simp [h]

theorem rocInv_step (eps : α) (pre : List (α × Bool)) (st : RocState α) (x : α × Bool)
    (h : RocInv pre st) (hle : ∀ y ∈ pre, y.1 ≤ x.1)
    (hsep : ∀ s, st.s0 = some s → (isFresh eps (some s) x.1 = true ↔ x.1 ≠ s)) :
    RocInv (pre ++ [x]) (rocStep eps st x) := by
  obtain ⟨htp, hfp, harea, hgrp⟩ := h
  cases hs0 : st.s0 with
  | none =>
    rw [hs0] at hgrp
    obtain ⟨rfl, hpts⟩ := hgrp
    have hfr : isFresh eps st.s0 x.1 = true := by rw [hs0]; rfl
    rw [rocStep_fresh eps st x hfr]
    have htp0 : st.tp = 0 := by rw [htp]; simp [posSum]
    have hfp0 : st.fp = 0 := by rw [hfp]; simp [negSum]
    cases hx : x.2
    · refine ⟨by simp [posSum, hx, htp0], by simp [negSum, hx, hfp0], ?_, ?_⟩
      · simp [hpts, trapR, htp0, hfp0, mwCount2_eq, posSum, hx]
      · simp [hpts, posSum, negSum, ltInd, hx, htp0, hfp0]
    · refine ⟨by simp [posSum, hx, htp0], by simp [negSum, hx, hfp0], ?_, ?_⟩
      · simp [hpts, trapR, htp0, hfp0, mwCount2_eq, posSum, negSum, hx]
      · simp [hpts, posSum, negSum, ltInd, hx, htp0, hfp0]
  | some s =>
    rw [hs0] at hgrp
    obtain ⟨⟨y0, hy0, hy0s⟩, hall, c, hpts⟩ := hgrp
    have hsx : s ≤ x.1 := hy0s ▸ hle y0 hy0
    by_cases hxs : x.1 = s
    · -- same group
      have hfr : isFresh eps st.s0 x.1 = false := by
        rw [hs0]
        cases hf : isFresh eps (some s) x.1
        · rfl
        · exact absurd hxs ((hsep s hs0).mp hf)
      rw [rocStep_same eps st x hfr]
      have hw1 : negSum pre (fun t => mwWeight t x.1) = st.fp + negSum pre (ltInd s) := by
        rw [hfp, ← negSum_add]
        apply negSum_congr
        intro y hy
        have := hall y hy
        unfold mwWeight ltInd
        rw [hxs]
        by_cases hlt : y.1 < s
        · simp [hlt]; norm_num
        · have : ¬ s < y.1 := not_lt.mpr this
          simp [hlt, this]
      have hw2 : posSum pre (fun p => mwWeight x.1 p) + posSum pre (ltInd s) = st.tp := by
        rw [htp, ← posSum_add]
        apply posSum_congr
        intro y hy
        have := hall y hy
        unfold mwWeight ltInd
        rw [hxs]
        by_cases hlt : y.1 < s
        · have : ¬ s < y.1 := not_lt.mpr this
          simp [hlt, this]
        · have : ¬ s < y.1 := not_lt.mpr this
          simp [hlt, this]
      rw [hpts, List.append_assoc, List.singleton_append, trapR_snoc] at harea
      cases hx : x.2
      · simp only [Bool.false_eq_true, if_false]
        refine ⟨by simp [posSum_snoc, hx, htp], by simp [negSum_snoc, hx, hfp], ?_, ?_⟩
        · simp only [hpts, List.append_assoc, List.singleton_append, trapR_snoc]
          rw [mwCount2_snoc]; simp only [hx, Bool.false_eq_true, if_false]
          linear_combination harea - hw2
        · simp only [hs0]
          refine ⟨⟨y0, by simp [hy0], hy0s⟩, ?_, c, ?_⟩
          · intro y hy
            rcases List.mem_append.mp hy with hy | hy
            · exact hall y hy
            · simp at hy; rw [hy, hxs]
          · simp [hpts, posSum_snoc, negSum_snoc, hx, ltInd, hxs]
      · simp only [if_true]
        refine ⟨by simp [posSum_snoc, hx, htp], by simp [negSum_snoc, hx, hfp], ?_, ?_⟩
        · simp only [hpts, List.append_assoc, List.singleton_append, trapR_snoc]
          rw [mwCount2_snoc]; simp only [hx, if_true]
          linear_combination harea - hw1
        · simp only [hs0]
          refine ⟨⟨y0, by simp [hy0], hy0s⟩, ?_, c, ?_⟩
          · intro y hy
            rcases List.mem_append.mp hy with hy | hy
            · exact hall y hy
            · simp at hy; rw [hy, hxs]
          · simp [hpts, posSum_snoc, negSum_snoc, hx, ltInd, hxs]
    · -- new group
      have hlt : s < x.1 := lt_of_le_of_ne hsx (Ne.symm hxs)
      have hfr : isFresh eps st.s0 x.1 = true := by rw [hs0]; exact (hsep s hs0).mpr hxs
      rw [rocStep_fresh eps st x hfr]
      have hall' : ∀ y ∈ pre, y.1 < x.1 := fun y hy => lt_of_le_of_lt (hall y hy) hlt
      have hw1 : negSum pre (fun t => mwWeight t x.1) = 2 * st.fp := by
        rw [hfp, two_mul, ← negSum_add]
        apply negSum_congr
        intro y hy
        unfold mwWeight
        simp [hall' y hy]; norm_num
      have hw2 : posSum pre (fun p => mwWeight x.1 p) = 0 := by
        rw [← posSum_zero pre]
        apply posSum_congr
        intro y hy
        unfold mwWeight
        have : ¬ x.1 < y.1 := not_lt.mpr (le_of_lt (hall' y hy))
        simp [hall' y hy, this]
      have hg1 : posSum pre (ltInd x.1) = st.tp := by
        rw [htp]; apply posSum_congr; intro y hy; simp [ltInd, hall' y hy]
      have hg2 : negSum pre (ltInd x.1) = st.fp := by
        rw [hfp]; apply negSum_congr; intro y hy; simp [ltInd, hall' y hy]
      cases hx : x.2
      · simp only [Bool.false_eq_true, if_false]
        refine ⟨by simp [posSum_snoc, hx, htp], by simp [negSum_snoc, hx, hfp], ?_, ?_⟩
        · show 2 * trapR ((st.pts ++ [(st.tp, st.fp)]) ++ [(st.tp, st.fp + 1)]) = _
          rw [List.append_assoc, List.singleton_append, trapR_snoc, mwCount2_snoc]
          simp only [hx, Bool.false_eq_true, if_false]
          linear_combination harea - hw2
        · refine ⟨⟨x, by simp, rfl⟩, ?_, st.pts, ?_⟩
          · intro y hy
            rcases List.mem_append.mp hy with hy | hy
            · exact le_of_lt (hall' y hy)
            · simp at hy; rw [hy]
          · simp [posSum_snoc, negSum_snoc, hx, hg1, hg2, ltInd]
      · simp only [if_true]
        refine ⟨by simp [posSum_snoc, hx, htp], by simp [negSum_snoc, hx, hfp], ?_, ?_⟩
        · show 2 * trapR ((st.pts ++ [(st.tp, st.fp)]) ++ [(st.tp + 1, st.fp)]) = _
          rw [List.append_assoc, List.singleton_append, trapR_snoc, mwCount2_snoc]
          simp only [hx, if_true]
          linear_combination harea - hw1
        · refine ⟨⟨x, by simp, rfl⟩, ?_, st.pts, ?_⟩
          · intro y hy
            rcases List.mem_append.mp hy with hy | hy
            · exact le_of_lt (hall' y hy)
            · simp at hy; rw [hy]
          · simp [posSum_snoc, negSum_snoc, hx, hg1, hg2, ltInd]

theorem isFresh_iff_ne (eps : α) (heps : 0 ≤ eps) (s t : α) (hsep : t ≠ s → eps < |t - s|) :
    isFresh eps (some s) t = true ↔ t ≠ s := by
  unfold isFresh
  simp only [decide_eq_true_eq, absS_eq_abs]
  constructor
  · intro h hts
    rw [hts, sub_self, abs_zero] at h
    exact absurd h (not_lt.mpr heps)
  · exact hsep

/-- the invariant holds after the whole loop, for every sorted sample list whose distinct scores are
further apart than the grouping threshold -/
theorem rocInv_foldl (eps : α) (heps : 0 ≤ eps) (l : List (α × Bool))
    (hsorted : l.Pairwise fun a b => a.1 ≤ b.1)
    (hsep : ∀ x ∈ l, ∀ y ∈ l, x.1 ≠ y.1 → eps < |x.1 - y.1|) :
    RocInv l (l.foldl (rocStep eps) { tp := 0, fp := 0, s0 := none, pts := [], thr := [] }) := by
  induction l using List.reverseRecOn with
  | nil => exact rocInv_init
  | append_singleton pre x ih =>
    rw [List.foldl_append]
    simp only [List.foldl_cons, List.foldl_nil]
    have hs := List.pairwise_append.mp hsorted
    have ih' := ih hs.1 (fun a ha b hb => hsep a (by simp [ha]) b (by simp [hb]))
    apply rocInv_step eps pre _ x ih' (fun y hy => hs.2.2 y hy x (by simp))
    intro s hs0
    have hg := ih'.grp
    rw [hs0] at hg
    obtain ⟨⟨y0, hy0, hy0s⟩, _, _⟩ := hg
    apply isFresh_iff_ne eps heps
    intro hne
    rw [← hy0s] at hne ⊢
    exact hsep x (by simp) y0 (by simp [hy0]) hne

/-- pushed points are never removed -/
theorem rocStep_pts_prefix (eps : α) (l : List (α × Bool)) (st : RocState α) :
    ∃ e, (l.foldl (rocStep eps) st).pts = st.pts ++ e := by
  induction l generalizing st with
  | nil => exact ⟨[], by simp⟩
  | cons x xs ih =>
    simp only [List.foldl_cons]
    obtain ⟨e, he⟩ := ih (rocStep eps st x)
    rw [he]
    cases hf : isFresh eps st.s0 x.1
    · rw [rocStep_same eps st x hf]
      refine ⟨e, ?_⟩
      split <;> rfl
    · rw [rocStep_fresh eps st x hf]
      refine ⟨(st.tp, st.fp) :: e, ?_⟩
      split <;> simp

theorem rocFold_counts (eps : α) (l : List (α × Bool)) (st : RocState α) :
    (l.foldl (rocStep eps) st).tp = st.tp + posSum l (fun _ => 1) ∧
    (l.foldl (rocStep eps) st).fp = st.fp + negSum l (fun _ => 1) := by
  induction l generalizing st with
  | nil => simp [posSum, negSum]
  | cons x xs ih =>
    simp only [List.foldl_cons]
    obtain ⟨h1, h2⟩ := ih (rocStep eps st x)
    rw [h1, h2]
    cases hf : isFresh eps st.s0 x.1
    · rw [rocStep_same eps st x hf]
      cases hx : x.2 <;> simp [posSum, negSum, hx] <;> ring
    · rw [rocStep_fresh eps st x hf]
      cases hx : x.2 <;> simp [posSum, negSum, hx] <;> ring

/-- componentwise order on curve points -/
def le2 (p q : α × α) : Prop := p.1 ≤ q.1 ∧ p.2 ≤ q.2

theorem pairwise_snoc_le2 (l : List (α × α)) (p q : α × α) (h : (l ++ [p]).Pairwise le2) (hpq : le2 p q) :
    (l ++ [q]).Pairwise le2 ∧ (l ++ [p] ++ [q]).Pairwise le2 := by
  obtain ⟨hl, _, hlp⟩ := List.pairwise_append.mp h
  have hlq : ∀ a ∈ l, le2 a q := fun a ha =>
    ⟨le_trans (hlp a ha p (by simp)).1 hpq.1, le_trans (hlp a ha p (by simp)).2 hpq.2⟩
  refine ⟨List.pairwise_append.mpr ⟨hl, by simp, fun a ha b hb => by simp at hb; rw [hb]; exact hlq a ha⟩, ?_⟩
  refine List.pairwise_append.mpr ⟨h, by simp, fun a ha b hb => ?_⟩
  simp at hb; rw [hb]
  rcases List.mem_append.mp ha with ha | ha
  · exact hlq a ha
  · simp at ha; rw [ha]; exact hpq

theorem rocStep_mono (eps : α) (st : RocState α) (x : α × Bool)
    (h : (st.pts ++ [(st.tp, st.fp)]).Pairwise le2) :
    ((rocStep eps st x).pts ++ [((rocStep eps st x).tp, (rocStep eps st x).fp)]).Pairwise le2 := by
  have h1 : le2 (st.tp, st.fp) (st.tp + 1, st.fp) := ⟨by simp, le_refl _⟩
  have h2 : le2 (st.tp, st.fp) (st.tp, st.fp + 1) := ⟨le_refl _, by simp⟩
  cases hf : isFresh eps st.s0 x.1
  · rw [rocStep_same eps st x hf]
    cases hx : x.2
    · exact (pairwise_snoc_le2 _ _ _ h h2).1
    · exact (pairwise_snoc_le2 _ _ _ h h1).1
  · rw [rocStep_fresh eps st x hf]
    cases hx : x.2
    · exact (pairwise_snoc_le2 _ _ _ h h2).2
    · exact (pairwise_snoc_le2 _ _ _ h h1).2

theorem rocFold_mono (eps : α) (l : List (α × Bool)) (st : RocState α)
    (h : (st.pts ++ [(st.tp, st.fp)]).Pairwise le2) :
    ((l.foldl (rocStep eps) st).pts ++ [((l.foldl (rocStep eps) st).tp, (l.foldl (rocStep eps) st).fp)]).Pairwise le2 := by
  induction l generalizing st with
  | nil => exact h
  | cons x xs ih => exact ih _ (rocStep_mono eps st x h)

theorem posSum_one_nonneg (l : List (α × Bool)) : 0 ≤ posSum l (fun _ => 1) := by
  unfold posSum
  apply List.sum_nonneg
  intro a ha
  simp only [List.mem_map] at ha
  obtain ⟨p, _, rfl⟩ := ha
  split <;> simp

theorem negSum_one_nonneg (l : List (α × Bool)) : 0 ≤ negSum l (fun _ => 1) := by
  unfold negSum
  apply List.sum_nonneg
  intro a ha
  simp only [List.mem_map] at ha
  obtain ⟨p, _, rfl⟩ := ha
  split <;> simp

/-! ### sorting by score -/

theorem perm_insertByScore (x : α × Bool) (l : List (α × Bool)) : (insertByScore x l).Perm (x :: l) := by
  induction l with
  | nil => simp [insertByScore]
  | cons y ys ih =>
    unfold insertByScore
    split
    · exact List.Perm.refl _
    · exact (List.Perm.cons y ih).trans (List.Perm.swap x y ys)

theorem sorted_insertByScore (x : α × Bool) (l : List (α × Bool)) (h : l.Pairwise fun a b => a.1 ≤ b.1) :
    (insertByScore x l).Pairwise fun a b => a.1 ≤ b.1 := by
  induction l with
  | nil => simp [insertByScore]
  | cons y ys ih =>
    obtain ⟨hy, hys⟩ := List.pairwise_cons.mp h
    unfold insertByScore
    split
    · rename_i hxy
      refine List.pairwise_cons.mpr ⟨?_, h⟩
      intro a ha
      rcases List.mem_cons.mp ha with rfl | ha
      · exact le_of_lt hxy
      · exact le_trans (le_of_lt hxy) (hy a ha)
    · rename_i hxy
      refine List.pairwise_cons.mpr ⟨?_, ih hys⟩
      intro a ha
      rcases List.mem_cons.mp ((perm_insertByScore x ys).mem_iff.mp ha) with rfl | ha
      · exact not_lt.mp hxy
      · exact hy a ha

theorem perm_sortByScore (l : List (α × Bool)) : (sortByScore l).Perm l := by
  induction l with
  | nil => simp [sortByScore]
  | cons x xs ih =>
    have : sortByScore (x :: xs) = insertByScore x (sortByScore xs) := rfl
    rw [this]
    exact (perm_insertByScore x _).trans (List.Perm.cons x ih)

theorem sorted_sortByScore (l : List (α × Bool)) : (sortByScore l).Pairwise fun a b => a.1 ≤ b.1 := by
  induction l with
  | nil => simp [sortByScore]
  | cons x xs ih => exact sorted_insertByScore x _ ih

theorem posSum_perm {l l' : List (α × Bool)} (h : l.Perm l') (f : α → α) : posSum l f = posSum l' f :=
  (h.map _).sum_eq

theorem negSum_perm {l l' : List (α × Bool)} (h : l.Perm l') (f : α → α) : negSum l f = negSum l' f :=
  (h.map _).sum_eq

theorem mwCount2_perm {l l' : List (α × Bool)} (h : l.Perm l') : mwCount2 l = mwCount2 l' := by
  rw [mwCount2_eq, mwCount2_eq, posSum_perm h]
  congr 1
  funext s
  exact negSum_perm h _

theorem mannWhitney_perm {l l' : List (α × Bool)} (h : l.Perm l') : mannWhitney l = mannWhitney l' := by
  unfold mannWhitney
  rw [mwCount2_perm h, countPos_eq, countPos_eq, countNeg_eq, countNeg_eq, posSum_perm h, negSum_perm h]
end Roc

end LinfaSpec.Metrics
