import LinfaSpec.Model.Kernel
import LinfaSpec.Proofs.Kernel
import LinfaSpec.Proofs.Sparse

/-! Column sums of a CSR matrix (`sSum`) — helper lemmas for `views_sum` of C06. -/

namespace LinfaSpec.Kernel
open LinfaSpec
variable {α : Type} [Field α]

/-- what one CSR row adds to column `c` -/
def colContribution (row : List (Nat × α)) (c : Nat) : α :=
  ((row.filter (fun e => e.1 == c)).map (·.2)).sum

theorem rowStep_length (row : List (Nat × α)) (acc : List α) :
    (row.foldl (fun acc e => acc.set e.1 (acc.getD e.1 0 + e.2)) acc).length = acc.length := by
  induction row generalizing acc with
  | nil => rfl
  | cons e rest ih => rw [List.foldl_cons, ih, List.length_set]

theorem rowStep_getD (row : List (Nat × α)) (acc : List α) (c : Nat) (hc : c < acc.length) :
    (row.foldl (fun acc e => acc.set e.1 (acc.getD e.1 0 + e.2)) acc).getD c 0
      = acc.getD c 0 + colContribution row c := by
  induction row generalizing acc with
  | nil => simp [colContribution]
  | cons e rest ih =>
    rw [List.foldl_cons, ih _ (by simpa using hc)]
    unfold colContribution
    by_cases he : e.1 = c
    · subst he
      simp [List.filter_cons, List.getD_eq_getElem?_getD, hc, add_assoc]
    · have : (e.1 == c) = false := by simp [he]
      simp [List.filter_cons, this, List.getD_eq_getElem?_getD, List.getElem?_set_ne he]

theorem sSum_getD (n : Nat) (S : Csr α) (c : Nat) (hc : c < n) :
    (sSum n S).getD c 0 = (S.map fun row => colContribution row c).sum := by
  unfold sSum
  have gen : ∀ (acc : List α), c < acc.length →
      (S.foldl (fun acc row => row.foldl (fun acc e => acc.set e.1 (acc.getD e.1 0 + e.2)) acc) acc).getD c 0
        = acc.getD c 0 + (S.map fun row => colContribution row c).sum := by
    induction S with
    | nil => intro acc _; simp
    | cons row rest ih =>
      intro acc hacc
      rw [List.foldl_cons, ih _ (by rw [rowStep_length]; exact hacc), rowStep_getD _ _ _ hacc]
      simp [add_assoc]
  rw [gen _ (by simpa using hc)]
  simp [List.getD_eq_getElem?_getD, hc]

theorem sSum_length (n : Nat) (S : Csr α) : (sSum n S).length = n := by
  unfold sSum
  have gen : ∀ (acc : List α),
      (S.foldl (fun acc row => row.foldl (fun acc e => acc.set e.1 (acc.getD e.1 0 + e.2)) acc) acc).length
        = acc.length := by
    induction S with
    | nil => intro acc; rfl
    | cons row rest ih => intro acc; rw [List.foldl_cons, ih, rowStep_length]
  rw [gen]; simp

/-- with distinct columns in a row the contribution is the stored entry (or 0) -/
theorem colContribution_eq (row : List (Nat × α)) (c : Nat) (hn : (row.map (·.1)).Nodup) :
    colContribution row c = ((row.find? (fun e => e.1 == c)).map (·.2)).getD 0 := by
  unfold colContribution
  induction row with
  | nil => simp
  | cons e rest ih =>
    rw [List.map_cons, List.nodup_cons] at hn
    by_cases he : e.1 = c
    · have hrest : rest.filter (fun e => e.1 == c) = [] := by
        rw [List.filter_eq_nil_iff]
        intro x hx hxc
        apply hn.1
        have : x.1 = e.1 := by rw [he]; simpa using hxc
        rw [← this]; exact List.mem_map_of_mem hx
      simp [List.filter_cons, List.find?_cons, he, hrest]
    · have : (e.1 == c) = false := by simp [he]
      simp only [List.filter_cons, this, List.find?_cons]
      exact ih hn.2


theorem map_eq_range_map {β γ : Type} (g : β → γ) (l : List β) (d : β) :
    l.map g = (List.range l.length).map fun i => g (l.getD i d) := by
  apply List.ext_getElem?
  intro i
  by_cases hi : i < l.length
  · simp [hi, List.getD_eq_getElem?_getD]
  · simp [hi]

theorem support_row_nodup (n : Nat) (pat : List (List Nat)) (i : Nat) :
    ((support n pat).getD i []).Nodup := by
  by_cases hi : i < n
  · rw [support_getD n pat i hi]
    exact List.Nodup.filter _ List.nodup_range
  · simp [support, List.getD_eq_getElem?_getD, hi]

section
variable [Transc α] [KPow α]

/-- entry `c` of the sparse `sum` (column sums in CSR order) is `Σ_i get(i, c)` -/
theorem sparse_sSum_getD (m : Method α) (X : List (List α)) (k : Nat) (nb : List (List Nat)) (S : Csr α)
    (h : sparseFromFn m X k nb = some S) (c : Nat) (hc : c < X.length) :
    (sSum X.length S).getD c 0 = ((List.range X.length).map fun i => (sGet S i c).getD 0).sum := by
  rw [sSum_getD _ _ _ hc, map_eq_range_map _ S [], sparse_length m X k nb S h]
  congr 1
  apply List.map_congr_left
  intro i hi
  have hi' : i < X.length := List.mem_range.mp hi
  rw [colContribution_eq]
  · rfl
  · rw [sparse_row m X k nb S h i hi', List.map_map]
    have : ((fun e : Nat × α => e.1) ∘ fun j => (j, kernelFn m (X.getD i []) (X.getD j []))) = id := rfl
    rw [this, List.map_id]
    exact support_row_nodup _ _ _

end
end LinfaSpec.Kernel
