import LinfaSpec.Proofs.MetricsCall
import LinfaSpec.Proofs.MetricsGlue

/-!
Permutation invariance of the silhouette score (round 3, second audit): the score of the records
`x` with labels `l` is rewritten without positions (`silS`: total distances, cluster sizes and the
label set are functions of the multiset of (record, label) pairs; the minimum over the other clusters
is characterised by membership + lower bound, so the first-appearance order of the labels is
immaterial), then permuted.
-/

namespace LinfaSpec.Metrics
open LinfaSpec

/-! ### `labelSet`: distinct labels, no duplicates -/

theorem labelSet_aux (labels : List Nat) : ∀ acc : List Nat, acc.Nodup →
    (labels.foldl (fun acc l => if acc.contains l then acc else acc ++ [l]) acc).Nodup ∧
    ∀ a, a ∈ labels.foldl (fun acc l => if acc.contains l then acc else acc ++ [l]) acc ↔ a ∈ acc ∨ a ∈ labels := by
  induction labels with
  | nil => intro acc hacc; simp [hacc]
  | cons l ls ih =>
    intro acc hacc
    simp only [List.foldl_cons]
    by_cases hc : acc.contains l = true
    · simp only [hc, if_true]
      obtain ⟨h1, h2⟩ := ih acc hacc
      refine ⟨h1, fun a => ?_⟩
      rw [h2 a]
      have hl : l ∈ acc := by simpa using hc
      constructor
      · rintro (h | h)
        · exact Or.inl h
        · exact Or.inr (List.mem_cons_of_mem _ h)
      · rintro (h | h)
        · exact Or.inl h
        · rcases List.mem_cons.mp h with rfl | h
          · exact Or.inl hl
          · exact Or.inr h
    · have hl : l ∉ acc := by simpa using hc
      rw [if_neg hc]
      obtain ⟨h1, h2⟩ := ih (acc ++ [l]) (by
        rw [List.nodup_append]
        refine ⟨hacc, by simp, ?_⟩
        intro a ha b hb
        simp at hb; subst hb
        intro hab; subst hab; exact hl ha)
      refine ⟨h1, fun a => ?_⟩
      rw [h2 a]
      simp only [List.mem_append, List.mem_cons]
      tauto

theorem nodup_labelSet (labels : List Nat) : (labelSet labels).Nodup :=
  (labelSet_aux labels [] List.nodup_nil).1

theorem mem_labelSet (labels : List Nat) (a : Nat) : a ∈ labelSet labels ↔ a ∈ labels := by
  have := (labelSet_aux labels [] List.nodup_nil).2 a
  simpa [labelSet] using this

theorem labelSet_perm {l l' : List Nat} (h : l.Perm l') : (labelSet l).Perm (labelSet l') :=
  (List.perm_ext_iff_of_nodup (nodup_labelSet l) (nodup_labelSet l')).mpr
    (fun a => by rw [mem_labelSet, mem_labelSet, h.mem_iff])

theorem labelCount_perm {l l' : List Nat} (h : l.Perm l') (c : Nat) : labelCount l c = labelCount l' c := by
  unfold labelCount
  exact (h.filter _).length_eq

/-! ### the silhouette of a sample without positions -/

/-- total distance of the record `xi` to the samples of `ps` labelled `c` -/
noncomputable def tdist (ps : List (List ℝ × Nat)) (xi : List ℝ) (c : Nat) : ℝ :=
  (ps.filterMap fun p => if p.2 == c then some (Real.sqrt (sqDist xi p.1)) else none).sum

theorem tdist_perm {ps ps' : List (List ℝ × Nat)} (h : ps.Perm ps') (xi : List ℝ) (c : Nat) :
    tdist ps xi c = tdist ps' xi c := by
  unfold tdist
  exact (h.filterMap _).sum_eq

/-- the value the `match` on the list of mean distances returns -/
noncomputable def pickMin (a : ℝ) : List ℝ → ℝ
  | [] => 0
  | m0 :: ms =>
    let b := ms.foldl (fun v m => if m < v then m else v) m0
    if b ≤ a then (b - a) / a else (b - a) / b

theorem pickMin_perm (a : ℝ) {m m' : List ℝ} (h : m.Perm m') : pickMin a m = pickMin a m' := by
  cases m with
  | nil => rw [h.nil_eq]
  | cons m0 ms =>
    cases m' with
    | nil => exact absurd h.symm.nil_eq (by simp)
    | cons m0' ms' =>
      obtain ⟨h1, h2⟩ := foldl_min_spec ms m0
      obtain ⟨h1', h2'⟩ := foldl_min_spec ms' m0'
      have e : ms.foldl (fun v m => if m < v then m else v) m0 = ms'.foldl (fun v m => if m < v then m else v) m0' :=
        le_antisymm (h1 _ (h.mem_iff.mpr h2')) (h1' _ (h.mem_iff.mp h2))
      simp only [pickMin, e]

noncomputable def silS (ps : List (List ℝ × Nat)) (xi : List ℝ) (li : Nat) : ℝ :=
  pickMin (if labelCount (ps.map Prod.snd) li = 1 then 0
      else tdist ps xi li / ((labelCount (ps.map Prod.snd) li - 1 : Nat) : ℝ))
    (((labelSet (ps.map Prod.snd)).filter (· != li)).map fun c =>
      tdist ps xi c / ((labelCount (ps.map Prod.snd) c : Nat) : ℝ))

theorem silS_perm {ps ps' : List (List ℝ × Nat)} (h : ps.Perm ps') (xi : List ℝ) (li : Nat) :
    silS ps xi li = silS ps' xi li := by
  have hl : (ps.map Prod.snd).Perm (ps'.map Prod.snd) := h.map _
  unfold silS
  rw [labelCount_perm hl li, tdist_perm h xi li]
  apply pickMin_perm
  have hf : (fun c => tdist ps xi c / ((labelCount (ps.map Prod.snd) c : Nat) : ℝ)) =
      fun c => tdist ps' xi c / ((labelCount (ps'.map Prod.snd) c : Nat) : ℝ) := by
    funext c; rw [labelCount_perm hl c, tdist_perm h xi c]
  rw [hf]
  exact ((labelSet_perm hl).filter _).map _

theorem totalDist_eq_tdist (ps : List (List ℝ × Nat)) (i : Nat) (hi : i < ps.length) (c : Nat) :
    totalDist (distMatrix (ps.map Prod.fst)) (ps.map Prod.snd) i c = tdist ps (ps[i]).1 c := by
  have hrow : (distMatrix (ps.map Prod.fst)).getD i [] =
      (ps.map Prod.fst).map fun xj => Real.sqrt (sqDist (ps[i]).1 xj) := by
    unfold distMatrix
    rw [List.getD_eq_getElem?_getD, List.getElem?_map, List.getElem?_map, List.getElem?_eq_getElem hi]
    rfl
  unfold totalDist tdist
  rw [hrow, sumS_eq_sum, List.map_map, List.zip_map', List.filterMap_map]
  rfl

theorem silSample_eq_silS (ps : List (List ℝ × Nat)) (i : Nat) (hi : i < ps.length) (li : Nat) :
    silSample (distMatrix (ps.map Prod.fst)) (ps.map Prod.snd) i li = silS ps (ps[i]).1 li := by
  have hA := totalDist_eq_tdist ps i hi
  unfold silSample silS
  simp only [hA]
  generalize ((labelSet (ps.map Prod.snd)).filter (· != li)).map
    (fun c => tdist ps (ps[i]).1 c / ((labelCount (ps.map Prod.snd) c : Nat) : ℝ)) = means
  cases means <;> rfl

theorem silhouettePts_eq (ps : List (List ℝ × Nat)) :
    silhouettePts (ps.map Prod.fst) (ps.map Prod.snd) =
      if (labelSet (ps.map Prod.snd)).length = 1 then 1
      else (ps.map fun p => silS ps p.1 p.2).sum / (ps.length : ℝ) := by
  unfold silhouettePts silhouette
  split
  · rfl
  · simp only [sumS_eq_sum, List.length_map]
    congr 2
    apply List.ext_getElem
    · simp
    · intro k h1 h2
      have hk : k < ps.length := by simpa using h2
      simp only [List.getElem_map, List.getElem_zip, List.getElem_range]
      exact silSample_eq_silS ps k hk _

theorem silhouettePts_perm {ps ps' : List (List ℝ × Nat)} (h : ps.Perm ps') :
    silhouettePts (ps.map Prod.fst) (ps.map Prod.snd) = silhouettePts (ps'.map Prod.fst) (ps'.map Prod.snd) := by
  rw [silhouettePts_eq, silhouettePts_eq, (labelSet_perm (h.map Prod.snd)).length_eq, h.length_eq]
  have : (ps.map fun p => silS ps p.1 p.2).sum = (ps'.map fun p => silS ps' p.1 p.2).sum := by
    rw [(h.map _).sum_eq]
    congr 1
    apply List.map_congr_left
    intro p _
    exact silS_perm h p.1 p.2
  rw [this]

/-! ### stale label caches -/

theorem labelCache_fst (cl : List Nat) : (labelCache cl).map Prod.fst = labelSet cl := by
  unfold labelCache
  rw [List.map_map]
  induction labelSet cl with
  | nil => rfl
  | cons a as ih => simp [ih]

theorem cacheCount_fresh (cl : List Nat) : cacheCount (labelCache cl) = labelCount cl := by
  funext l
  unfold cacheCount labelCache
  rw [List.find?_map]
  by_cases h : l ∈ labelSet cl
  · have : ((labelSet cl).find? ((fun p : Nat × Nat => p.1 == l) ∘ fun l => (l, labelCount cl l))) = some l := by
      rw [List.find?_eq_some_iff_append]
      obtain ⟨s, t, hst⟩ := List.append_of_mem h
      have hnd := nodup_labelSet cl
      rw [hst] at hnd
      refine ⟨by simp, s, t, hst, ?_⟩
      intro a ha
      have : a ≠ l := by
        rintro rfl
        have := (List.nodup_append.mp hnd).2.2 a ha a (by simp)
        exact this rfl
      simpa using this
    rw [this]; rfl
  · have : ((labelSet cl).find? ((fun p : Nat × Nat => p.1 == l) ∘ fun l => (l, labelCount cl l))) = none := by
      rw [List.find?_eq_none]
      intro a ha
      have : a ≠ l := by rintro rfl; exact h ha
      simpa using this
    rw [this]
    have hl : l ∉ cl := fun hc => h ((mem_labelSet cl l).mpr hc)
    simp only [Option.map_none, Option.getD_none, labelCount]
    symm
    rw [List.length_eq_zero_iff, List.filter_eq_nil_iff]
    intro a ha
    have : a ≠ l := by rintro rfl; exact hl ha
    simpa using this

/-- a fresh cache (counted on the labels themselves) gives the plain score -/
theorem silhouetteC_fresh {α : Type} [Field α] [LinearOrder α] (d : List (List α)) (labels : List Nat) :
    silhouetteC (labelCache labels) d labels = some (silhouette d labels) := by
  unfold silhouetteC silhouette
  simp only [labelCache_fst, cacheCount_fresh]
  have hany : labels.any (fun l => !(labelSet labels).contains l) = false := by
    rw [List.any_eq_false]
    intro l hl
    simp [(mem_labelSet labels l).mpr hl]
  rw [hany]
  split
  · rfl
  · rfl

end LinfaSpec.Metrics
