import LinfaSpec.Proofs.Determinism
import Mathlib.Data.Prod.Lex
import Mathlib.Order.MinMax

/-!
Helper lemmas for C20 that need order theory (single Mathlib modules): the decision-tree modal
class is the maximum of a linear order on (frequency, reversed label), sorting is invariant under
permutation.
-/
namespace LinfaSpec.Determinism
open List

section Modal
variable {κ ν : Type} [LinearOrder κ] [LinearOrder ν]

def modalRank (e : κ × ν) : Lex (ν × κᵒᵈ) := toLex (e.2, OrderDual.toDual e.1)

omit [LinearOrder κ] [LinearOrder ν] in
theorem modalRank_injective : Function.Injective (modalRank (κ := κ) (ν := ν)) := by
  intro a b h
  have h' := toLex.injective h
  simp only [Prod.mk.injEq] at h'
  exact Prod.ext (OrderDual.toDual.injective h'.2) h'.1

theorem modal_keep_iff (b e : κ × ν) :
    (e.2 < b.2 ∨ (¬ b.2 < e.2 ∧ b.1 < e.1)) ↔ modalRank e < modalRank b := by
  unfold modalRank
  rw [Prod.Lex.toLex_lt_toLex]
  simp only [OrderDual.toDual_lt_toDual]
  constructor
  · rintro (h | ⟨h1, h2⟩)
    · exact Or.inl h
    · rcases lt_or_eq_of_le (not_lt.mp h1) with h | h
      · exact Or.inl h
      · exact Or.inr ⟨h, h2⟩
  · rintro (h | ⟨h1, h2⟩)
    · exact Or.inl h
    · exact Or.inr ⟨by rw [h1]; exact lt_irrefl _, h2⟩

def modalPick (b e : κ × ν) : κ × ν := if modalRank e < modalRank b then b else e

theorem modalStep_some (b e : κ × ν) : modalStep (some b) e = some (modalPick b e) := by
  unfold modalStep modalPick
  simp only
  by_cases h : modalRank e < modalRank b
  · rw [if_pos ((modal_keep_iff b e).mpr h), if_pos h]
  · rw [if_neg (fun h' => h ((modal_keep_iff b e).mp h')), if_neg h]

theorem modalRank_pick (b e : κ × ν) :
    modalRank (modalPick b e) = max (modalRank b) (modalRank e) := by
  unfold modalPick
  by_cases h : modalRank e < modalRank b
  · rw [if_pos h, max_eq_left h.le]
  · rw [if_neg h, max_eq_right (not_lt.mp h)]

theorem modalPick_right_comm (b x y : κ × ν) :
    modalPick (modalPick b x) y = modalPick (modalPick b y) x := by
  apply modalRank_injective
  simp only [modalRank_pick]
  exact max_right_comm _ _ _

theorem modalPick_comm (x y : κ × ν) : modalPick x y = modalPick y x := by
  apply modalRank_injective
  simp only [modalRank_pick]
  exact max_comm _ _

theorem modalStep_right_comm (z : Option (κ × ν)) (x y : κ × ν) :
    modalStep (modalStep z x) y = modalStep (modalStep z y) x := by
  cases z with
  | none =>
    show modalStep (some x) y = modalStep (some y) x
    rw [modalStep_some, modalStep_some, modalPick_comm]
  | some b =>
    rw [modalStep_some, modalStep_some, modalStep_some, modalStep_some, modalPick_right_comm]

theorem foldl_modalStep_perm {m₁ m₂ : List (κ × ν)} (p : m₁ ~ m₂) (z : Option (κ × ν)) :
    m₁.foldl modalStep z = m₂.foldl modalStep z :=
  p.foldl_eq' (fun x _ y _ z => modalStep_right_comm z x y) z

/-- what the fold returns: a member of maximal rank -/
theorem foldl_modalStep_some (b : κ × ν) (m : List (κ × ν)) :
    ∃ e, m.foldl modalStep (some b) = some e ∧ e ∈ b :: m ∧ ∀ x ∈ b :: m, modalRank x ≤ modalRank e := by
  induction m generalizing b with
  | nil => exact ⟨b, rfl, by simp, by simp⟩
  | cons a as ih =>
    rw [List.foldl_cons, modalStep_some]
    obtain ⟨e, he, hmem, hmax⟩ := ih (modalPick b a)
    refine ⟨e, he, ?_, ?_⟩
    · rcases List.mem_cons.mp hmem with h | h
      · rw [h]; unfold modalPick; split <;> simp
      · simp [h]
    · intro x hx
      have hp : modalRank (modalPick b a) ≤ modalRank e := hmax _ (by simp)
      rw [modalRank_pick] at hp
      rcases List.mem_cons.mp hx with h | h
      · rw [h]; exact le_trans (le_max_left _ _) hp
      · rcases List.mem_cons.mp h with h | h
        · rw [h]; exact le_trans (le_max_right _ _) hp
        · exact hmax x (by simp [h])

end Modal

/-! ### sorting -/

theorem mergeSort_perm_invariant {α} (le : α → α → Bool)
    (trans : ∀ a b c, le a b → le b c → le a c) (total : ∀ a b, le a b || le b a)
    {l₁ l₂ : List α} (p : l₁ ~ l₂)
    (antisymm : ∀ a b, a ∈ l₁ → b ∈ l₁ → le a b → le b a → a = b) :
    l₁.mergeSort le = l₂.mergeSort le := by
  apply List.Perm.eq_of_pairwise (le := fun a b => le a b)
  · intro a b ha hb hab hba
    have ha' : a ∈ l₁ := (List.mergeSort_perm l₁ le).subset ha
    have hb' : b ∈ l₁ := p.symm.subset ((List.mergeSort_perm l₂ le).subset hb)
    exact antisymm a b ha' hb' hab hba
  · exact List.pairwise_mergeSort trans total l₁
  · exact List.pairwise_mergeSort trans total l₂
  · exact (List.mergeSort_perm l₁ le).trans (p.trans (List.mergeSort_perm l₂ le).symm)

section Sorting
variable {κ : Type} [LinearOrder κ]

theorem sortByKey_perm {ν} {m₁ m₂ : List (κ × ν)} (p : m₁ ~ m₂) (hnd : (m₁.map Prod.fst).Nodup) :
    sortByKey m₁ = sortByKey m₂ := by
  unfold sortByKey
  apply mergeSort_perm_invariant _ _ _ p
  · intro a b ha hb hab hba
    simp only [decide_eq_true_eq, not_lt] at hab hba
    exact eq_of_map_eq Prod.fst hnd ha hb (le_antisymm hab hba)
  · intro a b c hab hbc
    simp only [decide_eq_true_eq, not_lt] at *
    exact le_trans hab hbc
  · intro a b
    simp only [Bool.or_eq_true, decide_eq_true_eq, not_lt]
    exact le_total _ _

theorem sortLabels_perm {l₁ l₂ : List κ} (p : l₁ ~ l₂) : sortLabels l₁ = sortLabels l₂ := by
  unfold sortLabels
  apply mergeSort_perm_invariant _ _ _ p
  · intro a b _ _ hab hba
    simp only [decide_eq_true_eq, not_lt] at hab hba
    exact le_antisymm hab hba
  · intro a b c hab hbc
    simp only [decide_eq_true_eq, not_lt] at *
    exact le_trans hab hbc
  · intro a b
    simp only [Bool.or_eq_true, decide_eq_true_eq, not_lt]
    exact le_total _ _

/-- evaluating the sorts on concrete lists: any sorted permutation is the result -/
theorem sortByKey_eq {ν} {m s : List (κ × ν)} (p : m ~ s) (hnd : (m.map Prod.fst).Nodup)
    (hs : s.Pairwise fun a b => decide (¬ b.1 < a.1) = true) : sortByKey m = s := by
  rw [sortByKey_perm p hnd]
  exact List.mergeSort_of_pairwise hs

theorem sortLabels_eq {l s : List κ} (p : l ~ s)
    (hs : s.Pairwise fun a b => decide (¬ b < a) = true) : sortLabels l = s := by
  rw [sortLabels_perm p]
  exact List.mergeSort_of_pairwise hs

end Sorting

end LinfaSpec.Determinism
