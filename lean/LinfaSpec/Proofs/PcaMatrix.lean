/-
Matrix-level (Mathlib `Matrix`) certificate lemmas for C18.  Everything here is about the
matrix expressions that `LinfaSpec.Pca.transform / inverseTransform / whiten / backRows`
compute (`Proofs/Pca.lean` ties the list model to these expressions).
-/
import Mathlib.LinearAlgebra.Matrix.NonsingularInverse
import Mathlib.Data.Matrix.Mul
import Mathlib.Data.Matrix.Diagonal
import Mathlib.Tactic.Ring
import Mathlib.Tactic.FieldSimp
import Mathlib.Tactic.Linarith

namespace LinfaSpec.PcaMatrix
open Matrix

variable {α : Type} [Field α] {n p k : Nat}

/-- the mean row repeated `n` times (`&mean` broadcast over the rows) -/
def rowConst (n : Nat) (μ : Fin p → α) : Matrix (Fin n) (Fin p) α := Matrix.of fun _ j => μ j

/-- `predict`: `(X - mean) · Wᵀ` -/
def transformM (W : Matrix (Fin k) (Fin p) α) (μ : Fin p → α) (X : Matrix (Fin n) (Fin p) α) :
    Matrix (Fin n) (Fin k) α := (X - rowConst n μ) * Wᵀ

/-- rows divided by their squared norm (`backRows`) -/
def backM (W : Matrix (Fin k) (Fin p) α) : Matrix (Fin k) (Fin p) α :=
  Matrix.of fun i j => W i j / ∑ l, W i l * W i l

/-- `inverse_transform`: `Z · back(W) + mean` -/
def inverseM (W : Matrix (Fin k) (Fin p) α) (μ : Fin p → α) (Z : Matrix (Fin n) (Fin k) α) :
    Matrix (Fin n) (Fin p) α := Z * backM W + rowConst n μ

/-- `P = Vᵀ V` for orthonormal rows `V Vᵀ = 1` is idempotent -/
theorem proj_idem (V : Matrix (Fin k) (Fin p) α) (h : V * Vᵀ = 1) :
    (Vᵀ * V) * (Vᵀ * V) = Vᵀ * V := by
  calc (Vᵀ * V) * (Vᵀ * V) = Vᵀ * ((V * Vᵀ) * V) := by simp only [Matrix.mul_assoc]
    _ = Vᵀ * V := by rw [h, Matrix.one_mul]

theorem proj_symm (V : Matrix (Fin k) (Fin p) α) : (Vᵀ * V)ᵀ = Vᵀ * V := by
  rw [Matrix.transpose_mul, Matrix.transpose_transpose]

/-- rows of `diagonal d * V` : squared norm `d i ^ 2` when `V` has orthonormal rows -/
theorem scaled_row_sqnorm (V : Matrix (Fin k) (Fin p) α) (d : Fin k → α) (h : V * Vᵀ = 1) (i : Fin k) :
    ∑ l, (diagonal d * V) i l * (diagonal d * V) i l = d i * d i := by
  have h1 : (V * Vᵀ) i i = 1 := by rw [h]; simp
  rw [Matrix.mul_apply] at h1
  simp only [Matrix.transpose_apply] at h1
  simp only [Matrix.diagonal_mul]
  calc ∑ l, d i * V i l * (d i * V i l) = d i * d i * ∑ l, V i l * V i l := by
        rw [Finset.mul_sum]; apply Finset.sum_congr rfl; intro l _; ring
    _ = d i * d i := by rw [h1, mul_one]

theorem backM_scaled (V : Matrix (Fin k) (Fin p) α) (d : Fin k → α) (h : V * Vᵀ = 1)
    (hd : ∀ i, d i ≠ 0) : backM (diagonal d * V) = diagonal (fun i => (d i)⁻¹) * V := by
  ext i j
  simp only [backM, Matrix.of_apply]
  rw [scaled_row_sqnorm V d h i]
  simp only [Matrix.diagonal_mul]
  have := hd i
  field_simp

/-- `inverse_transform (predict X) = (X - mean) · VᵀV + mean` for an embedding whose rows are
orthonormal directions `V` scaled by non-zero factors `d` (`d = 1`: no whitening;
`d i = sqrt(n-1)/sigma_i`: whitening) -/
theorem inverse_transform_eq (V : Matrix (Fin k) (Fin p) α) (d : Fin k → α) (h : V * Vᵀ = 1)
    (hd : ∀ i, d i ≠ 0) (μ : Fin p → α) (X : Matrix (Fin n) (Fin p) α) :
    inverseM (diagonal d * V) μ (transformM (diagonal d * V) μ X)
      = (X - rowConst n μ) * (Vᵀ * V) + rowConst n μ := by
  unfold inverseM transformM
  rw [backM_scaled V d h hd]
  congr 1
  rw [Matrix.transpose_mul, Matrix.diagonal_transpose]
  have e : diagonal d * (diagonal (fun i => (d i)⁻¹) * V) = V := by
    rw [← Matrix.mul_assoc, Matrix.diagonal_mul_diagonal]
    have : (fun i => d i * (d i)⁻¹) = fun _ => (1 : α) := by
      funext i; exact mul_inv_cancel₀ (hd i)
    rw [this, Matrix.diagonal_one, Matrix.one_mul]
  calc (X - rowConst n μ) * (Vᵀ * diagonal d) * (diagonal (fun i => (d i)⁻¹) * V)
      = (X - rowConst n μ) * (Vᵀ * (diagonal d * (diagonal (fun i => (d i)⁻¹) * V))) := by
        simp only [Matrix.mul_assoc]
    _ = (X - rowConst n μ) * (Vᵀ * V) := by rw [e]

/-- all components kept (`k = p`): orthonormal rows of a square matrix are an orthogonal matrix,
so the projection is the identity -/
theorem full_proj_eq_one (V : Matrix (Fin p) (Fin p) α) (h : V * Vᵀ = 1) : Vᵀ * V = 1 :=
  mul_eq_one_comm.mp h

theorem inverse_transform_full (V : Matrix (Fin p) (Fin p) α) (d : Fin p → α) (h : V * Vᵀ = 1)
    (hd : ∀ i, d i ≠ 0) (μ : Fin p → α) (X : Matrix (Fin n) (Fin p) α) :
    inverseM (diagonal d * V) μ (transformM (diagonal d * V) μ X) = X := by
  rw [inverse_transform_eq V d h hd, full_proj_eq_one V h, Matrix.mul_one, sub_add_cancel]

/-- eigen-certificate ⇒ the projected centred data has diagonal scatter:
`Z = Xc Vᵀ`, `(XcᵀXc) Vᵀ = Vᵀ diag(s)`, `V Vᵀ = 1` ⇒ `ZᵀZ = diag(s)` -/
theorem projected_scatter_diag (V : Matrix (Fin k) (Fin p) α) (Xc : Matrix (Fin n) (Fin p) α)
    (s : Fin k → α) (h : V * Vᵀ = 1) (hc : (Xcᵀ * Xc) * Vᵀ = Vᵀ * diagonal s) :
    (Xc * Vᵀ)ᵀ * (Xc * Vᵀ) = diagonal s := by
  rw [Matrix.transpose_mul, Matrix.transpose_transpose]
  calc V * Xcᵀ * (Xc * Vᵀ) = V * ((Xcᵀ * Xc) * Vᵀ) := by simp only [Matrix.mul_assoc]
    _ = (V * Vᵀ) * diagonal s := by rw [hc, Matrix.mul_assoc]
    _ = diagonal s := by rw [h, Matrix.one_mul]

/-- the same with the whitening scale `d`: `Zw = Xc (diag d · V)ᵀ` has scatter `diag(d² s)` -/
theorem whitened_scatter_diag (V : Matrix (Fin k) (Fin p) α) (Xc : Matrix (Fin n) (Fin p) α)
    (s d : Fin k → α) (h : V * Vᵀ = 1) (hc : (Xcᵀ * Xc) * Vᵀ = Vᵀ * diagonal s) :
    (Xc * (diagonal d * V)ᵀ)ᵀ * (Xc * (diagonal d * V)ᵀ) = diagonal fun i => d i * s i * d i := by
  have e : Xc * (diagonal d * V)ᵀ = (Xc * Vᵀ) * diagonal d := by
    rw [Matrix.transpose_mul, Matrix.diagonal_transpose, Matrix.mul_assoc]
  rw [e, Matrix.transpose_mul, Matrix.diagonal_transpose]
  calc diagonal d * (Xc * Vᵀ)ᵀ * (Xc * Vᵀ * diagonal d)
      = diagonal d * ((Xc * Vᵀ)ᵀ * (Xc * Vᵀ)) * diagonal d := by simp only [Matrix.mul_assoc]
    _ = diagonal d * diagonal s * diagonal d := by rw [projected_scatter_diag V Xc s h hc]
    _ = diagonal fun i => d i * s i * d i := by
        rw [Matrix.diagonal_mul_diagonal, Matrix.diagonal_mul_diagonal]

end LinfaSpec.PcaMatrix
