import LinfaSpec.Model.Serde
import LinfaSpec.Proofs.Wire

/-!
Helper lemmas for the serde-derive glue model (C19).  Core Lean only.
-/
namespace LinfaSpec.Serde
open LinfaSpec.Wire

/-- every skipped field of the original already holds its default -/
def SkippedAtDefault (dflt : FieldInfo → Val) : List FieldInfo → List Val → Prop
  | f :: fs, v :: vs => (f.skip = true → v = dflt f) ∧ SkippedAtDefault dflt fs vs
  | _, _ => True

theorem serFields_length : ∀ (fs : List FieldInfo) (vs : List Val), fs.length = vs.length →
    (serFields fs vs).length = (liveFields fs).length
  | [], [], _ => rfl
  | [], _ :: _, h => by simp at h
  | _ :: _, [], h => by simp at h
  | f :: fs, v :: vs, h => by
    have ih := serFields_length fs vs (by simpa using h)
    cases hs : f.skip <;> simp [serFields, liveFields, List.filter, hs] <;> simpa [liveFields] using ih

theorem serNamed_keys : ∀ (fs : List FieldInfo) (vs : List Val), fs.length = vs.length →
    (serNamed fs vs).map (fun kv => render kv.1) = liveKeys fs
  | [], [], _ => rfl
  | [], _ :: _, h => by simp at h
  | _ :: _, [], h => by simp at h
  | f :: fs, v :: vs, h => by
    have ih := serNamed_keys fs vs (by simpa using h)
    cases hs : f.skip <;> simp [serNamed, liveKeys, liveFields, List.filter, hs, keyOf] <;>
      simpa [liveKeys, liveFields, keyOf] using ih

theorem deFieldsSeq_serFields (dflt : FieldInfo → Val) : ∀ (fs : List FieldInfo) (vs : List Val),
    fs.length = vs.length → deFieldsSeq dflt fs (serFields fs vs) = some (restore dflt fs vs)
  | [], [], _ => rfl
  | [], _ :: _, h => by simp at h
  | _ :: _, [], h => by simp at h
  | f :: fs, v :: vs, h => by
    have ih := deFieldsSeq_serFields dflt fs vs (by simpa using h)
    cases hs : f.skip <;> simp [serFields, deFieldsSeq, restore, hs, ih]

theorem deFieldsSeq_short (dflt : FieldInfo → Val) : ∀ (fs : List FieldInfo) (xs : List Val),
    xs.length < (liveFields fs).length → deFieldsSeq dflt fs xs = none
  | [], xs, h => by simp [liveFields] at h
  | f :: fs, xs, h => by
    cases hs : f.skip
    · -- live field: consumes one element
      cases xs with
      | nil => simp [deFieldsSeq, hs]
      | cons x xs =>
        have h' : xs.length < (liveFields fs).length := by
          simp [liveFields, List.filter, hs] at h; simpa [liveFields] using h
        simp [deFieldsSeq, hs, deFieldsSeq_short dflt fs xs h']
    · have h' : xs.length < (liveFields fs).length := by
        simp [liveFields, List.filter, hs] at h; simpa [liveFields] using h
      simp [deFieldsSeq, hs, deFieldsSeq_short dflt fs xs h']

theorem restore_eq_iff (dflt : FieldInfo → Val) : ∀ (fs : List FieldInfo) (vs : List Val),
    fs.length = vs.length → (restore dflt fs vs = vs ↔ SkippedAtDefault dflt fs vs)
  | [], [], _ => by simp [restore, SkippedAtDefault]
  | [], _ :: _, h => by simp at h
  | _ :: _, [], h => by simp at h
  | f :: fs, v :: vs, h => by
    have ih := restore_eq_iff dflt fs vs (by simpa using h)
    cases hs : f.skip
    · simp [restore, SkippedAtDefault, hs, ih]
    · simp [restore, SkippedAtDefault, hs, ih]
      intro _; constructor <;> intro e <;> exact e.symm

/-! ### named layout -/

theorem lookupKey_append_none (k : String) : ∀ (pre post : List (Val × Val)),
    lookupKey k pre = none → lookupKey k (pre ++ post) = lookupKey k post
  | [], _, _ => rfl
  | (k', v) :: r, post, h => by
    simp only [lookupKey] at h
    by_cases hk : (render k' == k) = true
    · simp [hk] at h
    · simp only [hk] at h
      simp only [List.cons_append, lookupKey, hk]
      exact lookupKey_append_none k r post h

theorem not_contains_of_nodup {s : String} {r : List String} (h : nodupStrings (s :: r) = true) :
    ∀ t ∈ r, t ≠ s := by
  intro t ht e
  simp only [nodupStrings, Bool.and_eq_true, Bool.not_eq_true'] at h
  have : r.contains s = true := by
    rw [List.contains_iff_mem]; exact e ▸ ht
  rw [this] at h; exact Bool.noConfusion h.1

theorem deFieldsMap_serNamed_aux (dflt : FieldInfo → Val) : ∀ (fs : List FieldInfo) (vs : List Val)
    (pre : List (Val × Val)), fs.length = vs.length → nodupStrings (liveKeys fs) = true →
    (∀ g ∈ liveFields fs, lookupKey (keyOf g) pre = none) →
    deFieldsMap dflt (pre ++ serNamed fs vs) fs = some (restore dflt fs vs)
  | [], [], _, _, _, _ => rfl
  | [], _ :: _, _, h, _, _ => by simp at h
  | _ :: _, [], _, h, _, _ => by simp at h
  | f :: fs, v :: vs, pre, h, hn, hp => by
    have hl : fs.length = vs.length := by simpa using h
    cases hs : f.skip
    · -- live field
      have hlive : liveFields (f :: fs) = f :: liveFields fs := by simp [liveFields, List.filter, hs]
      have hn' : nodupStrings (keyOf f :: liveKeys fs) = true := by
        simpa [liveKeys, hlive] using hn
      have hn2 : nodupStrings (liveKeys fs) = true := by
        simp only [nodupStrings, Bool.and_eq_true] at hn'; exact hn'.2
      have hne := not_contains_of_nodup hn'
      have hpf : lookupKey (keyOf f) pre = none := hp f (by rw [hlive]; exact List.mem_cons_self)
      have hhead : lookupKey (keyOf f) (pre ++ (strVal f.name, v) :: serNamed fs vs) = some v := by
        rw [lookupKey_append_none _ _ _ hpf]; simp [lookupKey, keyOf]
      have hp' : ∀ g ∈ liveFields fs, lookupKey (keyOf g) (pre ++ [(strVal f.name, v)]) = none := by
        intro g hg
        have hgp : lookupKey (keyOf g) pre = none := hp g (by rw [hlive]; exact List.mem_cons_of_mem _ hg)
        rw [lookupKey_append_none _ _ _ hgp]
        have : keyOf g ≠ keyOf f := hne (keyOf g) (by simp only [liveKeys]; exact List.mem_map_of_mem hg)
        have hb : (render (strVal f.name) == keyOf g) = false := by
          simp only [beq_eq_false_iff_ne]; intro e; exact this (by simpa [keyOf] using e.symm)
        simp [lookupKey, hb]
      have ih := deFieldsMap_serNamed_aux dflt fs vs (pre ++ [(strVal f.name, v)]) hl hn2 hp'
      have hcat : pre ++ (strVal f.name, v) :: serNamed fs vs = (pre ++ [(strVal f.name, v)]) ++ serNamed fs vs := by simp
      have hff : fieldFromMap dflt (pre ++ (strVal f.name, v) :: serNamed fs vs) f = some v := by
        simp [fieldFromMap, hs, hhead]
      simp only [serNamed, hs, deFieldsMap, restore, Bool.false_eq_true, if_false]
      rw [hff, hcat, ih]
    · have hlive : liveFields (f :: fs) = liveFields fs := by simp [liveFields, List.filter, hs]
      have ih := deFieldsMap_serNamed_aux dflt fs vs pre hl (by simpa [liveKeys, hlive] using hn)
        (by intro g hg; exact hp g (by rw [hlive]; exact hg))
      have hff : fieldFromMap dflt (pre ++ serNamed fs vs) f = some (dflt f) := by simp [fieldFromMap, hs]
      simp only [serNamed, hs, deFieldsMap, restore, if_true]
      rw [hff, ih]

theorem deFieldsMap_serNamed (dflt : FieldInfo → Val) (fs : List FieldInfo) (vs : List Val)
    (h : fs.length = vs.length) (hn : nodupStrings (liveKeys fs) = true) :
    deFieldsMap dflt (serNamed fs vs) fs = some (restore dflt fs vs) := by
  have := deFieldsMap_serNamed_aux dflt fs vs [] h hn (by intro g _; rfl)
  simpa using this


/-! ### named layout: duplicate / unknown / absent keys, entry order -/

/-- keys of a message as canonical text -/
def keysOf (kvs : List (Val × Val)) : List String := kvs.map fun kv => render kv.1

theorem knownKeys_serNamed (fs : List FieldInfo) (vs : List Val) (h : fs.length = vs.length) :
    knownKeys fs (serNamed fs vs) = liveKeys fs := by
  simp only [knownKeys, serNamed_keys fs vs h]
  rw [List.filter_eq_self]
  intro a ha
  simpa [List.contains_iff_mem] using ha

theorem deStruct_serNamed (dflt : FieldInfo → Val) (fs : List FieldInfo) (vs : List Val)
    (h : fs.length = vs.length) (hn : nodupStrings (liveKeys fs) = true) :
    deStruct dflt fs (.map (serNamed fs vs)) = some (restore dflt fs vs) := by
  simp [deStruct, knownKeys_serNamed fs vs h, hn, deFieldsMap_serNamed dflt fs vs h hn]

theorem lookupKey_none_iff (k : String) : ∀ (kvs : List (Val × Val)),
    lookupKey k kvs = none ↔ ∀ p ∈ kvs, (render p.1 == k) = false
  | [] => by simp [lookupKey]
  | (k', v) :: r => by
    by_cases hk : (render k' == k) = true
    · simp only [lookupKey, hk, if_true]
      constructor
      · intro h; cases h
      · intro h
        have := h (k', v) List.mem_cons_self
        rw [hk] at this; cases this
    · have hk' : (render k' == k) = false := by simpa using hk
      simp only [lookupKey, hk', Bool.false_eq_true, if_false, List.mem_cons, forall_eq_or_imp, true_and]
      exact lookupKey_none_iff k r

theorem lookupKey_some_mem (k : String) : ∀ (kvs : List (Val × Val)) (v : Val),
    lookupKey k kvs = some v → ∃ k', (k', v) ∈ kvs ∧ (render k' == k) = true
  | [], _, h => by simp [lookupKey] at h
  | (k', w) :: r, v, h => by
    by_cases hk : (render k' == k) = true
    · simp only [lookupKey, hk, if_true] at h
      have : w = v := Option.some.inj h
      exact ⟨k', by simp [this], hk⟩
    · simp only [lookupKey, hk] at h
      obtain ⟨k'', hm, hk''⟩ := lookupKey_some_mem k r v h
      exact ⟨k'', List.mem_cons_of_mem _ hm, hk''⟩

theorem lookupKey_of_mem_nodup : ∀ (kvs : List (Val × Val)) (k' : Val) (v : Val),
    nodupStrings (keysOf kvs) = true → (k', v) ∈ kvs → lookupKey (render k') kvs = some v
  | [], _, _, _, h => by cases h
  | (k0, v0) :: r, k', v, hn, hm => by
    have hn' : nodupStrings (render k0 :: keysOf r) = true := by simpa [keysOf] using hn
    have hn2 : nodupStrings (keysOf r) = true := by
      simp only [nodupStrings, Bool.and_eq_true] at hn'; exact hn'.2
    rcases List.mem_cons.mp hm with e | hr
    · have e1 : k' = k0 := congrArg Prod.fst e
      have e2 : v = v0 := congrArg Prod.snd e
      subst e1; subst e2
      simp [lookupKey]
    · have hne : render k' ≠ render k0 :=
        not_contains_of_nodup hn' (render k') (by simp only [keysOf]; exact List.mem_map_of_mem (f := fun kv => render kv.1) hr)
      have hb : (render k0 == render k') = false := by
        simp only [beq_eq_false_iff_ne]; exact fun e => hne e.symm
      simp only [lookupKey, hb, Bool.false_eq_true, if_false]
      exact lookupKey_of_mem_nodup r k' v hn2 hr

/-- with distinct keys a lookup depends only on the set of entries -/
theorem lookupKey_congr (k : String) (kvs kvs' : List (Val × Val))
    (h' : nodupStrings (keysOf kvs') = true) (hm : ∀ p, p ∈ kvs' ↔ p ∈ kvs) :
    lookupKey k kvs' = lookupKey k kvs := by
  cases hl : lookupKey k kvs with
  | none =>
    rw [lookupKey_none_iff] at hl ⊢
    intro p hp; exact hl p ((hm p).mp hp)
  | some v =>
    obtain ⟨k', hmem, hk⟩ := lookupKey_some_mem k kvs v hl
    have := lookupKey_of_mem_nodup kvs' k' v h' ((hm _).mpr hmem)
    rw [eq_of_beq hk] at this; exact this

theorem nodupStrings_filter (p : String → Bool) : ∀ (l : List String), nodupStrings l = true →
    nodupStrings (l.filter p) = true
  | [], _ => rfl
  | a :: r, h => by
    simp only [nodupStrings, Bool.and_eq_true, Bool.not_eq_true'] at h
    have ih := nodupStrings_filter p r h.2
    by_cases hp : p a = true
    · simp only [List.filter, hp, nodupStrings, Bool.and_eq_true, Bool.not_eq_true', ih, and_true]
      cases hc : (r.filter p).contains a with
      | false => rfl
      | true =>
        have : a ∈ r := (List.mem_filter.mp (List.contains_iff_mem.mp hc)).1
        have : r.contains a = true := List.contains_iff_mem.mpr this
        rw [this] at h; exact absurd h.1 (by simp)
    · have hp' : p a = false := by simpa using hp
      simpa [List.filter, hp'] using ih

theorem deFieldsMap_congr (dflt : FieldInfo → Val) (kvs kvs' : List (Val × Val))
    (h : ∀ k, lookupKey k kvs' = lookupKey k kvs) : ∀ (fs : List FieldInfo),
    deFieldsMap dflt kvs' fs = deFieldsMap dflt kvs fs
  | [] => rfl
  | f :: fs => by
    simp only [deFieldsMap, fieldFromMap, h, deFieldsMap_congr dflt kvs kvs' h fs]

/-- **entry order is irrelevant in the named layout**: two messages with distinct keys and the same set of
entries deserialise alike -/
theorem deStruct_map_order_irrelevant (dflt : FieldInfo → Val) (fs : List FieldInfo) (kvs kvs' : List (Val × Val))
    (h : nodupStrings (keysOf kvs) = true) (h' : nodupStrings (keysOf kvs') = true)
    (hm : ∀ p, p ∈ kvs' ↔ p ∈ kvs) :
    deStruct dflt fs (.map kvs') = deStruct dflt fs (.map kvs) := by
  have e1 : nodupStrings (knownKeys fs kvs) = true := nodupStrings_filter _ _ h
  have e2 : nodupStrings (knownKeys fs kvs') = true := nodupStrings_filter _ _ h'
  simp only [deStruct, e1, e2, if_true]
  exact deFieldsMap_congr dflt kvs kvs' (fun k => lookupKey_congr k kvs kvs' h' hm) fs

theorem lookupKey_append_ne (key : String) (k x : Val) (hk : (render k == key) = false) :
    ∀ (kvs : List (Val × Val)), lookupKey key (kvs ++ [(k, x)]) = lookupKey key kvs
  | [] => by simp [lookupKey, hk]
  | (k', v) :: r => by
    by_cases hb : (render k' == key) = true
    · simp [lookupKey, hb]
    · simp only [List.cons_append, lookupKey, hb]
      exact lookupKey_append_ne key k x hk r

theorem deFieldsMap_append_unknown (dflt : FieldInfo → Val) (kvs : List (Val × Val)) (k x : Val) :
    ∀ (fs : List FieldInfo), (∀ f ∈ liveFields fs, (render k == keyOf f) = false) →
    deFieldsMap dflt (kvs ++ [(k, x)]) fs = deFieldsMap dflt kvs fs
  | [], _ => rfl
  | f :: fs, h => by
    cases hs : f.skip
    · have hlive : liveFields (f :: fs) = f :: liveFields fs := by simp [liveFields, List.filter, hs]
      have hf := h f (by rw [hlive]; exact List.mem_cons_self)
      have ih := deFieldsMap_append_unknown dflt kvs k x fs
        (fun g hg => h g (by rw [hlive]; exact List.mem_cons_of_mem _ hg))
      simp only [deFieldsMap, fieldFromMap, hs, lookupKey_append_ne _ k x hf kvs, ih]
    · have hlive : liveFields (f :: fs) = liveFields fs := by simp [liveFields, List.filter, hs]
      have ih := deFieldsMap_append_unknown dflt kvs k x fs (fun g hg => h g (by rw [hlive]; exact hg))
      simp [deFieldsMap, fieldFromMap, hs, ih]

/-- **an entry under a key that names no live field is ignored** (unknown fields, names of skipped fields) -/
theorem deStruct_unknown_key_ignored (dflt : FieldInfo → Val) (fs : List FieldInfo) (kvs : List (Val × Val))
    (k x : Val) (hk : (liveKeys fs).contains (render k) = false) :
    deStruct dflt fs (.map (kvs ++ [(k, x)])) = deStruct dflt fs (.map kvs) := by
  have hk' : render k ∉ liveKeys fs := by simpa using hk
  have hkk : knownKeys fs (kvs ++ [(k, x)]) = knownKeys fs kvs := by
    simp [knownKeys, List.filter_append, List.filter, hk']
  have hne : ∀ f ∈ liveFields fs, (render k == keyOf f) = false := by
    intro f hf
    simp only [beq_eq_false_iff_ne]
    intro e
    have : (liveKeys fs).contains (render k) = true := by
      rw [List.contains_iff_mem, e]; exact List.mem_map_of_mem hf
    rw [this] at hk; exact Bool.noConfusion hk
  simp only [deStruct, hkk, deFieldsMap_append_unknown dflt kvs k x fs hne]

theorem nodupStrings_append_mem (a : String) : ∀ (l : List String), a ∈ l → nodupStrings (l ++ [a]) = false
  | [], h => by cases h
  | b :: r, h => by
    rcases List.mem_cons.mp h with e | hr
    · subst e
      have : (r ++ [a]).contains a = true := by simp [List.contains_iff_mem]
      simp [nodupStrings, this]
    · simp [nodupStrings, nodupStrings_append_mem a r hr]

/-- **a live field's key occurring twice is rejected** ("duplicate field") -/
theorem deStruct_duplicate_key_rejected (dflt : FieldInfo → Val) (fs : List FieldInfo) (kvs : List (Val × Val))
    (k x : Val) (hk : (liveKeys fs).contains (render k) = true) (hd : render k ∈ keysOf kvs) :
    deStruct dflt fs (.map (kvs ++ [(k, x)])) = none := by
  have hk' : render k ∈ liveKeys fs := by simpa using hk
  have hkk : knownKeys fs (kvs ++ [(k, x)]) = knownKeys fs kvs ++ [render k] := by
    simp [knownKeys, List.filter_append, List.filter, hk']
  have hmem : render k ∈ knownKeys fs kvs := by
    simp only [knownKeys, List.mem_filter]; exact ⟨hd, hk⟩
  simp [deStruct, hkk, nodupStrings_append_mem _ _ hmem]

/-- **an absent key**: a required live field makes the whole struct fail ("missing field") … -/
theorem deFieldsMap_missing_required (dflt : FieldInfo → Val) (kvs : List (Val × Val)) (f : FieldInfo)
    (hs : f.skip = false) (ho : isOptional f = false) (hl : lookupKey (keyOf f) kvs = none) :
    ∀ (fs : List FieldInfo), f ∈ fs → deFieldsMap dflt kvs fs = none
  | [], h => by cases h
  | g :: fs, h => by
    rcases List.mem_cons.mp h with e | hr
    · subst e
      simp [deFieldsMap, fieldFromMap, hs, ho, hl]
    · have ih := deFieldsMap_missing_required dflt kvs f hs ho hl fs hr
      simp only [deFieldsMap, ih]
      cases fieldFromMap dflt kvs g <;> rfl

/-- … an `Option` field reads as `None` -/
theorem fieldFromMap_missing_optional (dflt : FieldInfo → Val) (kvs : List (Val × Val)) (f : FieldInfo)
    (hs : f.skip = false) (ho : isOptional f = true) (hl : lookupKey (keyOf f) kvs = none) :
    fieldFromMap dflt kvs f = some .nil := by
  simp [fieldFromMap, hs, ho, hl]

/-! ### variant indices -/

/-- a skipped variant cannot be written at all (derive(Serialize) returns "the enum variant … cannot be
serialized"), whatever stands before or after it -/
theorem serIndex_skipped (w : VariantInfo) (post : List VariantInfo) (hs : w.skip = true) :
    ∀ (pre : List VariantInfo), (∀ u ∈ pre, (u.name == w.name) = false) → serIndex w.name (pre ++ w :: post) = none
  | [], _ => by simp [serIndex, hs]
  | u :: pre, h => by
    have hu := h u List.mem_cons_self
    have ih := serIndex_skipped w post hs pre (fun x hx => h x (List.mem_cons_of_mem _ hx))
    simp [serIndex, hu, ih]

theorem serIndex_none_of_all_skip (name : String) : ∀ (ws : List VariantInfo),
    ws.all (fun v => v.skip) = true → serIndex name ws = none
  | [], _ => rfl
  | w :: ws, h => by
    simp only [List.all_cons, Bool.and_eq_true] at h
    simp [serIndex, h.1, serIndex_none_of_all_skip name ws h.2]

theorem deVariant_serIndex (name : String) : ∀ (ws : List VariantInfo) (k : Nat),
    skippedLast ws = true → serIndex name ws = some k → deVariant ws k = some name
  | [], _, _, h => by simp [serIndex] at h
  | w :: ws, k, hl, h => by
    cases hs : w.skip
    · simp only [skippedLast, hs, Bool.false_eq_true, if_false] at hl
      simp only [serIndex, hs, Bool.false_eq_true, if_false] at h
      by_cases hn : (w.name == name) = true
      · simp only [hn, if_true] at h
        have hk : k = 0 := (Option.some.inj h).symm
        subst hk
        simp [deVariant, hs, eq_of_beq hn]
      · simp only [hn] at h
        cases hr : serIndex name ws with
        | none => simp [hr] at h
        | some k' =>
          simp only [hr] at h
          have hk : k = k' + 1 := (Option.some.inj h).symm
          subst hk
          simp only [deVariant, hs, Bool.false_eq_true, if_false]
          exact deVariant_serIndex name ws k' hl hr
    · simp only [skippedLast, hs, if_true] at hl
      have := serIndex_none_of_all_skip name ws hl
      simp [serIndex, hs, this] at h

/-- a skipped variant declared in front shifts every later variant by one position -/
theorem deVariant_shift (name : String) (w : VariantInfo) (ws : List VariantInfo) (k : Nat)
    (hs : w.skip = true) (hn : (w.name == name) = false) (h : serIndex name ws = some k) :
    serIndex name (w :: ws) = some (k + 1) ∧ deVariant (w :: ws) (k + 1) = deVariant ws (k + 1) := by
  constructor
  · simp [serIndex, hn, h]
  · simp [deVariant, hs]

theorem mem_liveNames_of_deVariant : ∀ (ws : List VariantInfo) (k : Nat) (n : String),
    deVariant ws k = some n → n ∈ liveNames ws
  | [], _, _, h => by simp [deVariant] at h
  | w :: ws, k, n, h => by
    cases hs : w.skip
    · simp only [deVariant, hs, Bool.false_eq_true, if_false] at h
      cases k with
      | zero =>
        have : w.name = n := Option.some.inj h
        simp [liveNames, List.filter, hs, this]
      | succ k =>
        have := mem_liveNames_of_deVariant ws k n h
        simp only [liveNames, List.filter, hs, Bool.not_false, List.map_cons, List.mem_cons]
        exact Or.inr (by simpa [liveNames] using this)
    · simp only [deVariant, hs, if_true] at h
      have := mem_liveNames_of_deVariant ws k n h
      simpa [liveNames, List.filter, hs] using this

/-- with distinct live names, no position beyond `serIndex name` reads back as `name` (the declaration
index is never smaller than the position among the live variants) -/
theorem deVariant_beyond_ne (name : String) : ∀ (ws : List VariantInfo) (k m : Nat),
    nodupStrings (liveNames ws) = true → serIndex name ws = some k → k < m → deVariant ws m ≠ some name
  | [], _, _, _, h, _ => by simp [serIndex] at h
  | w :: ws, k, m, hn, h, hm => by
    cases hs : w.skip
    · have hlive : liveNames (w :: ws) = w.name :: liveNames ws := by simp [liveNames, List.filter, hs]
      rw [hlive] at hn
      have hn2 : nodupStrings (liveNames ws) = true := by
        simp only [nodupStrings, Bool.and_eq_true] at hn; exact hn.2
      simp only [serIndex, hs, Bool.false_eq_true, if_false] at h
      cases m with
      | zero => exact absurd hm (Nat.not_lt_zero _)
      | succ m' =>
        simp only [deVariant, hs, Bool.false_eq_true, if_false]
        by_cases hb : (w.name == name) = true
        · intro e
          have hmem := mem_liveNames_of_deVariant ws m' name e
          exact not_contains_of_nodup hn name hmem (eq_of_beq hb).symm
        · simp only [hb] at h
          cases hr : serIndex name ws with
          | none => simp [hr] at h
          | some k' =>
            simp only [hr] at h
            have hk : k = k' + 1 := (Option.some.inj h).symm
            subst hk
            exact deVariant_beyond_ne name ws k' m' hn2 hr (Nat.lt_of_succ_lt_succ hm)
    · have hlive : liveNames (w :: ws) = liveNames ws := by simp [liveNames, List.filter, hs]
      rw [hlive] at hn
      by_cases hb : (w.name == name) = true
      · simp [serIndex, hb, hs] at h
      · simp only [serIndex, hb] at h
        cases hr : serIndex name ws with
        | none => simp [hr] at h
        | some k' =>
          simp only [hr] at h
          have hk : k = k' + 1 := (Option.some.inj h).symm
          subst hk
          simp only [deVariant, hs, if_true]
          exact deVariant_beyond_ne name ws k' m hn hr (Nat.lt_trans (Nat.lt_succ_self k') hm)

end LinfaSpec.Serde
