import LinfaSpec.Model.Serde
import LinfaSpec.Proofs.Wire

/-!
Helper lemmas for the serde-derive glue model (C19).  Core Lean only.
-/
namespace LinfaSpec.Serde
open LinfaSpec.Wire

/-- every skipped field of the original already holds its default -/
def SkippedAtDefault (dflt : FieldInfo → Val) : List FieldInfo → List Val → Prop
  | f :: fs, v :: vs => (f.skip = true → v = dflt f) ∧ SkippedAtDefault dflt fs vs
  | _, _ => True

theorem serFields_length : ∀ (fs : List FieldInfo) (vs : List Val), fs.length = vs.length →
    (serFields fs vs).length = (liveFields fs).length
  | [], [], _ => rfl
  | [], _ :: _, h => by simp at h
  | _ :: _, [], h => by simp at h
  | f :: fs, v :: vs, h => by
    have ih := serFields_length fs vs (by simpa using h)
    cases hs : f.skip <;> simp [serFields, liveFields, List.filter, hs] <;> simpa [liveFields] using ih

theorem serNamed_keys : ∀ (fs : List FieldInfo) (vs : List Val), fs.length = vs.length →
    (serNamed fs vs).map (fun kv => render kv.1) = liveKeys fs
  | [], [], _ => rfl
  | [], _ :: _, h => by simp at h
  | _ :: _, [], h => by simp at h
  | f :: fs, v :: vs, h => by
    have ih := serNamed_keys fs vs (by simpa using h)
    cases hs : f.skip <;> simp [serNamed, liveKeys, liveFields, List.filter, hs, keyOf] <;>
      simpa [liveKeys, liveFields, keyOf] using ih

theorem deFieldsSeq_serFields (dflt : FieldInfo → Val) : ∀ (fs : List FieldInfo) (vs : List Val),
    fs.length = vs.length → deFieldsSeq dflt fs (serFields fs vs) = some (restore dflt fs vs)
  | [], [], _ => rfl
  | [], _ :: _, h => by simp at h
  | _ :: _, [], h => by simp at h
  | f :: fs, v :: vs, h => by
    have ih := deFieldsSeq_serFields dflt fs vs (by simpa using h)
    cases hs : f.skip <;> simp [serFields, deFieldsSeq, restore, hs, ih]

theorem deFieldsSeq_short (dflt : FieldInfo → Val) : ∀ (fs : List FieldInfo) (xs : List Val),
    xs.length < (liveFields fs).length → deFieldsSeq dflt fs xs = none
  | [], xs, h => by simp [liveFields] at h
  | f :: fs, xs, h => by
    cases hs : f.skip
    · -- live field: consumes one element
      cases xs with
      | nil => simp [deFieldsSeq, hs]
      | cons x xs =>
        have h' : xs.length < (liveFields fs).length := by
          simp [liveFields, List.filter, hs] at h; simpa [liveFields] using h
        simp [deFieldsSeq, hs, deFieldsSeq_short dflt fs xs h']
    · have h' : xs.length < (liveFields fs).length := by
        simp [liveFields, List.filter, hs] at h; simpa [liveFields] using h
      simp [deFieldsSeq, hs, deFieldsSeq_short dflt fs xs h']

theorem restore_eq_iff (dflt : FieldInfo → Val) : ∀ (fs : List FieldInfo) (vs : List Val),
    fs.length = vs.length → (restore dflt fs vs = vs ↔ SkippedAtDefault dflt fs vs)
  | [], [], _ => by simp [restore, SkippedAtDefault]
  | [], _ :: _, h => by simp at h
  | _ :: _, [], h => by simp at h
  | f :: fs, v :: vs, h => by
    have ih := restore_eq_iff dflt fs vs (by simpa using h)
    cases hs : f.skip
    · simp [restore, SkippedAtDefault, hs, ih]
    · simp [restore, SkippedAtDefault, hs, ih]
      intro _; constructor <;> intro e <;> exact e.symm

/-! ### named layout -/

theorem lookupKey_append_none (k : String) : ∀ (pre post : List (Val × Val)),
    lookupKey k pre = none → lookupKey k (pre ++ post) = lookupKey k post
  | [], _, _ => rfl
  | (k', v) :: r, post, h => by
    simp only [lookupKey] at h
    by_cases hk : (render k' == k) = true
    · simp [hk] at h
    · simp only [hk] at h
      simp only [List.cons_append, lookupKey, hk]
      exact lookupKey_append_none k r post h

theorem not_contains_of_nodup {s : String} {r : List String} (h : nodupStrings (s :: r) = true) :
    ∀ t ∈ r, t ≠ s := by
  intro t ht e
  simp only [nodupStrings, Bool.and_eq_true, Bool.not_eq_true'] at h
  have : r.contains s = true := by
    rw [List.contains_iff_mem]; exact e ▸ ht
  rw [this] at h; exact Bool.noConfusion h.1

theorem deFieldsMap_serNamed_aux (dflt : FieldInfo → Val) : ∀ (fs : List FieldInfo) (vs : List Val)
    (pre : List (Val × Val)), fs.length = vs.length → nodupStrings (liveKeys fs) = true →
    (∀ g ∈ liveFields fs, lookupKey (keyOf g) pre = none) →
    deFieldsMap dflt (pre ++ serNamed fs vs) fs = some (restore dflt fs vs)
  | [], [], _, _, _, _ => rfl
  | [], _ :: _, _, h, _, _ => by simp at h
  | _ :: _, [], _, h, _, _ => by simp at h
  | f :: fs, v :: vs, pre, h, hn, hp => by
    have hl : fs.length = vs.length := by simpa using h
    cases hs : f.skip
    · -- live field
      have hlive : liveFields (f :: fs) = f :: liveFields fs := by simp [liveFields, List.filter, hs]
      have hn' : nodupStrings (keyOf f :: liveKeys fs) = true := by
        simpa [liveKeys, hlive] using hn
      have hn2 : nodupStrings (liveKeys fs) = true := by
        simp only [nodupStrings, Bool.and_eq_true] at hn'; exact hn'.2
      have hne := not_contains_of_nodup hn'
      have hpf : lookupKey (keyOf f) pre = none := hp f (by rw [hlive]; exact List.mem_cons_self)
      have hhead : lookupKey (keyOf f) (pre ++ (strVal f.name, v) :: serNamed fs vs) = some v := by
        rw [lookupKey_append_none _ _ _ hpf]; simp [lookupKey, keyOf]
      have hp' : ∀ g ∈ liveFields fs, lookupKey (keyOf g) (pre ++ [(strVal f.name, v)]) = none := by
        intro g hg
        have hgp : lookupKey (keyOf g) pre = none := hp g (by rw [hlive]; exact List.mem_cons_of_mem _ hg)
        rw [lookupKey_append_none _ _ _ hgp]
        have : keyOf g ≠ keyOf f := hne (keyOf g) (by simp only [liveKeys]; exact List.mem_map_of_mem hg)
        have hb : (render (strVal f.name) == keyOf g) = false := by
          simp only [beq_eq_false_iff_ne]; intro e; exact this (by simpa [keyOf] using e.symm)
        simp [lookupKey, hb]
      have ih := deFieldsMap_serNamed_aux dflt fs vs (pre ++ [(strVal f.name, v)]) hl hn2 hp'
      have hcat : pre ++ (strVal f.name, v) :: serNamed fs vs = (pre ++ [(strVal f.name, v)]) ++ serNamed fs vs := by simp
      simp only [serNamed, hs, deFieldsMap, restore, Bool.false_eq_true, if_false]
      rw [hhead, hcat, ih]
    · have hlive : liveFields (f :: fs) = liveFields fs := by simp [liveFields, List.filter, hs]
      have ih := deFieldsMap_serNamed_aux dflt fs vs pre hl (by simpa [liveKeys, hlive] using hn)
        (by intro g hg; exact hp g (by rw [hlive]; exact hg))
      simp only [serNamed, hs, deFieldsMap, restore, if_true]
      rw [ih]

theorem deFieldsMap_serNamed (dflt : FieldInfo → Val) (fs : List FieldInfo) (vs : List Val)
    (h : fs.length = vs.length) (hn : nodupStrings (liveKeys fs) = true) :
    deFieldsMap dflt (serNamed fs vs) fs = some (restore dflt fs vs) := by
  have := deFieldsMap_serNamed_aux dflt fs vs [] h hn (by intro g _; rfl)
  simpa using this

/-! ### variant indices -/

theorem serIndex_none_of_all_skip (name : String) : ∀ (ws : List VariantInfo),
    ws.all (fun v => v.skip) = true → serIndex name ws = none
  | [], _ => rfl
  | w :: ws, h => by
    simp only [List.all_cons, Bool.and_eq_true] at h
    simp [serIndex, h.1, serIndex_none_of_all_skip name ws h.2]

theorem deVariant_serIndex (name : String) : ∀ (ws : List VariantInfo) (k : Nat),
    skippedLast ws = true → serIndex name ws = some k → deVariant ws k = some name
  | [], _, _, h => by simp [serIndex] at h
  | w :: ws, k, hl, h => by
    cases hs : w.skip
    · simp only [skippedLast, hs, Bool.false_eq_true, if_false] at hl
      simp only [serIndex, hs, Bool.false_eq_true, if_false] at h
      by_cases hn : (w.name == name) = true
      · simp only [hn, if_true] at h
        have hk : k = 0 := (Option.some.inj h).symm
        subst hk
        simp [deVariant, hs, eq_of_beq hn]
      · simp only [hn] at h
        cases hr : serIndex name ws with
        | none => simp [hr] at h
        | some k' =>
          simp only [hr] at h
          have hk : k = k' + 1 := (Option.some.inj h).symm
          subst hk
          simp only [deVariant, hs, Bool.false_eq_true, if_false]
          exact deVariant_serIndex name ws k' hl hr
    · simp only [skippedLast, hs, if_true] at hl
      have := serIndex_none_of_all_skip name ws hl
      simp [serIndex, hs, this] at h

/-- a skipped variant declared in front shifts every later variant by one position -/
theorem deVariant_shift (name : String) (w : VariantInfo) (ws : List VariantInfo) (k : Nat)
    (hs : w.skip = true) (hn : (w.name == name) = false) (h : serIndex name ws = some k) :
    serIndex name (w :: ws) = some (k + 1) ∧ deVariant (w :: ws) (k + 1) = deVariant ws (k + 1) := by
  constructor
  · simp [serIndex, hn, h]
  · simp [deVariant, hs]

theorem mem_liveNames_of_deVariant : ∀ (ws : List VariantInfo) (k : Nat) (n : String),
    deVariant ws k = some n → n ∈ liveNames ws
  | [], _, _, h => by simp [deVariant] at h
  | w :: ws, k, n, h => by
    cases hs : w.skip
    · simp only [deVariant, hs, Bool.false_eq_true, if_false] at h
      cases k with
      | zero =>
        have : w.name = n := Option.some.inj h
        simp [liveNames, List.filter, hs, this]
      | succ k =>
        have := mem_liveNames_of_deVariant ws k n h
        simp only [liveNames, List.filter, hs, Bool.not_false, List.map_cons, List.mem_cons]
        exact Or.inr (by simpa [liveNames] using this)
    · simp only [deVariant, hs, if_true] at h
      have := mem_liveNames_of_deVariant ws k n h
      simpa [liveNames, List.filter, hs] using this

/-- with distinct live names, no position beyond `serIndex name` reads back as `name` (the declaration
index is never smaller than the position among the live variants) -/
theorem deVariant_beyond_ne (name : String) : ∀ (ws : List VariantInfo) (k m : Nat),
    nodupStrings (liveNames ws) = true → serIndex name ws = some k → k < m → deVariant ws m ≠ some name
  | [], _, _, _, h, _ => by simp [serIndex] at h
  | w :: ws, k, m, hn, h, hm => by
    cases hs : w.skip
    · have hlive : liveNames (w :: ws) = w.name :: liveNames ws := by simp [liveNames, List.filter, hs]
      rw [hlive] at hn
      have hn2 : nodupStrings (liveNames ws) = true := by
        simp only [nodupStrings, Bool.and_eq_true] at hn; exact hn.2
      simp only [serIndex, hs, Bool.false_eq_true, if_false] at h
      cases m with
      | zero => exact absurd hm (Nat.not_lt_zero _)
      | succ m' =>
        simp only [deVariant, hs, Bool.false_eq_true, if_false]
        by_cases hb : (w.name == name) = true
        · intro e
          have hmem := mem_liveNames_of_deVariant ws m' name e
          exact not_contains_of_nodup hn name hmem (eq_of_beq hb).symm
        · simp only [hb] at h
          cases hr : serIndex name ws with
          | none => simp [hr] at h
          | some k' =>
            simp only [hr] at h
            have hk : k = k' + 1 := (Option.some.inj h).symm
            subst hk
            exact deVariant_beyond_ne name ws k' m' hn2 hr (Nat.lt_of_succ_lt_succ hm)
    · have hlive : liveNames (w :: ws) = liveNames ws := by simp [liveNames, List.filter, hs]
      rw [hlive] at hn
      by_cases hb : (w.name == name) = true
      · simp [serIndex, hb, hs] at h
      · simp only [serIndex, hb] at h
        cases hr : serIndex name ws with
        | none => simp [hr] at h
        | some k' =>
          simp only [hr] at h
          have hk : k = k' + 1 := (Option.some.inj h).symm
          subst hk
          simp only [deVariant, hs, if_true]
          exact deVariant_beyond_ne name ws k' m hn hr (Nat.lt_trans (Nat.lt_succ_self k') hm)

end LinfaSpec.Serde
