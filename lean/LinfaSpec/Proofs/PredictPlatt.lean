import LinfaSpec.Model.Predict
import Mathlib.Analysis.Complex.Exponential
import Mathlib.Tactic.FieldSimp
import Mathlib.Tactic.Linarith

/-! Platt scaling over `ℝ` (`Transc.exp := Real.exp`). -/
namespace LinfaSpec.Predict

/-- only `exp` is used by Platt scaling; `sqrt`, `ln` are placeholders here -/
noncomputable instance : Transc ℝ := ⟨fun x => x, Real.exp, fun x => x⟩

theorem transc_exp_real (t : ℝ) : Transc.exp t = Real.exp t := rfl

/-- both branches of `platt_predict` are `1 / (1 + e^t)` -/
theorem plattRaw_eq (t : ℝ) : plattRaw t = 1 / (1 + Real.exp t) := by
  unfold plattRaw
  split
  · rw [transc_exp_real, Real.exp_neg]
    have h : 0 < Real.exp t := Real.exp_pos t
    field_simp
    ring
  · rfl

end LinfaSpec.Predict
