/-
Helper lemmas for C04: the guard chain `firstErr`, and the IEEE comparison functions of `XF` on finite values.
-/
import LinfaSpec.Model.ParamGuard
import Mathlib.Tactic.Linarith
import Mathlib.Algebra.Order.Ring.Rat

namespace LinfaSpec.ParamGuard

@[simp] theorem firstErr_nil : firstErr [] = .ok () := rfl

@[simp] theorem firstErr_cons_ite (c : Prop) [Decidable c] (t : String) (rest : List (Option String)) :
    firstErr ((if c then some t else none) :: rest) = if c then .error t else firstErr rest := by
  by_cases h : c <;> simp [h, firstErr]

@[simp] theorem firstErr_cons_none (rest : List (Option String)) : firstErr (none :: rest) = firstErr rest := rfl
@[simp] theorem firstErr_cons_some (t : String) (rest : List (Option String)) : firstErr (some t :: rest) = .error t := rfl

@[simp] theorem ite_error_eq_ok {c : Prop} [Decidable c] (t : String) (e : Except String Unit) :
    (if c then Except.error t else e) = Except.ok () ↔ ¬c ∧ e = .ok () := by
  by_cases h : c <;> simp [h]

/-- the chain accepts iff no guard fires -/
theorem firstErr_ok_iff (gs : List (Option String)) : firstErr gs = .ok () ↔ ∀ g ∈ gs, g = none := by
  induction gs with
  | nil => simp
  | cons g rest ih =>
    cases g with
    | none => simp [firstErr_cons_none, ih]
    | some t => simp [firstErr_cons_some]

/-- the error returned is the tag of the first guard that fires (chain order) -/
theorem firstErr_error_iff (gs : List (Option String)) (t : String) :
    firstErr gs = .error t ↔ ∃ pre post, gs = pre ++ some t :: post ∧ ∀ g ∈ pre, g = none := by
  induction gs with
  | nil => simp
  | cons g rest ih =>
    cases g with
    | none =>
      rw [firstErr_cons_none, ih]
      constructor
      · rintro ⟨pre, post, rfl, h⟩
        exact ⟨none :: pre, post, rfl, by simpa using h⟩
      · rintro ⟨pre, post, h, hp⟩
        cases pre with
        | nil => simp at h
        | cons a pre =>
          simp only [List.cons_append, List.cons.injEq] at h
          exact ⟨pre, post, h.2, fun g hg => hp g (List.mem_cons_of_mem _ hg)⟩
    | some u =>
      rw [firstErr_cons_some]
      constructor
      · intro h
        cases h
        exact ⟨[], rest, rfl, by simp⟩
      · rintro ⟨pre, post, h, hp⟩
        cases pre with
        | nil => simp at h; rw [h.1]
        | cons a pre =>
          simp only [List.cons_append, List.cons.injEq] at h
          have := hp a (List.mem_cons_self)
          rw [← h.1] at this; cases this

/-- whatever the order of the guards: the error returned is the tag of a guard that fires -/
theorem firstErr_error_mem (gs : List (Option String)) (t : String) (h : firstErr gs = .error t) : some t ∈ gs := by
  obtain ⟨pre, post, rfl, _⟩ := (firstErr_error_iff gs t).mp h
  simp

/-- a chain with a firing guard returns an error -/
theorem firstErr_error_of_mem (gs : List (Option String)) (t : String) (h : some t ∈ gs) : ∃ u, firstErr gs = .error u := by
  cases hf : firstErr gs with
  | error u => exact ⟨u, rfl⟩
  | ok _ =>
    have := (firstErr_ok_iff gs).mp hf (some t) h
    cases this

/-! ### guards that also reject non-finite values, on the whole of `XF` (no finiteness hypothesis) -/

/-- `(0..=1).contains(&x)` holds exactly for the finite values in `[0, 1]` -/
theorem XF.inClosed01_iff (x : XF) : XF.inClosed XF.zero XF.one x = true ↔ x.Sat (fun q => 0 ≤ q ∧ q ≤ 1) := by
  cases x <;> simp [XF.inClosed, XF.le, XF.Sat, XF.zero, XF.one]

/-! ### the setter model of `SvmParams` -/

/-- setters that assign the weights (`c` / `nu`); `.eps` only touches the solver tolerance -/
def SvmSet.isWeight {α : Type} : SvmSet α → Bool
  | .eps _ => false
  | _ => true

theorem svmApply_exactly_one {α : Type} (k : SvmConsts α) (s : SvmState α) (op : SvmSet α)
    (h : s.c.isSome = !s.nu.isSome) : (op.apply k s).c.isSome = !(op.apply k s).nu.isSome := by
  cases op <;> simp [SvmSet.apply, h]

theorem svmFold_exactly_one {α : Type} (k : SvmConsts α) (ops : List (SvmSet α)) (s : SvmState α)
    (h : s.c.isSome = !s.nu.isSome) :
    (ops.foldl (SvmSet.apply k) s).c.isSome = !(ops.foldl (SvmSet.apply k) s).nu.isSome := by
  induction ops generalizing s with
  | nil => simpa using h
  | cons op rest ih => exact ih _ (svmApply_exactly_one k s op h)

namespace XF
variable (q : Rat)

@[simp] theorem le_fin_zero : le (fin q) zero = decide (q ≤ 0) := rfl
@[simp] theorem lt_fin_zero : lt (fin q) zero = decide (q < 0) := rfl
@[simp] theorem le_zero_fin : le zero (fin q) = decide (0 ≤ q) := rfl
@[simp] theorem lt_zero_fin : lt zero (fin q) = decide (0 < q) := rfl
@[simp] theorem le_fin_one : le (fin q) one = decide (q ≤ 1) := rfl
@[simp] theorem lt_fin_one : lt (fin q) one = decide (q < 1) := rfl
@[simp] theorem lt_one_fin : lt one (fin q) = decide (1 < q) := rfl
@[simp] theorem le_fin_fin (a b : Rat) : le (fin a) (fin b) = decide (a ≤ b) := rfl
@[simp] theorem lt_fin_fin (a b : Rat) : lt (fin a) (fin b) = decide (a < b) := rfl
@[simp] theorem isNegative_fin : isNegative (fin q) = decide (q < 0) := rfl
@[simp] theorem isSignNegative_fin : isSignNegative (fin q) = decide (q < 0) := rfl
@[simp] theorem isNan_fin : isNan (fin q) = false := rfl
@[simp] theorem isInfinite_fin : isInfinite (fin q) = false := rfl
@[simp] theorem isFinite_fin : isFinite (fin q) = true := rfl
@[simp] theorem sat_fin (P : Rat → Prop) : Sat (fin q) P ↔ P q := Iff.rfl
@[simp] theorem finite_fin : Finite (fin q) := rfl

theorem finite_iff (x : XF) : x.Finite ↔ ∃ q, x = fin q := by
  cases x <;> simp [Finite, isFinite]

end XF
end LinfaSpec.ParamGuard
