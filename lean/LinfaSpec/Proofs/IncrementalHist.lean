import LinfaSpec.Proofs.IncrementalKm
import Mathlib.Analysis.Real.Sqrt
import Mathlib.Analysis.SpecialFunctions.Log.Basic

/-!
C15, third layer: statements over whole histories that were oracle-only so far.

* mini-batch k-means: the trace of a history entry by entry (`kmRunBy_entry`), hence a truthful
  `converged` report after every batch of every history; the L2 report in reduced-distance form;
  the cumulative counts add up to the number of rows ever fed.
* naive Bayes: class bookkeeping of one `fit_with` call on an arbitrary state (a class that a batch
  introduces, a class the batch lacks, the prior of every stored class).
* FTRL: the accumulators `z` and `n` over a whole sequence of updates, coordinate by coordinate
  (`n` = start + Σ g², the learning-rate increments σ telescope, `z` = start + Σ g − Σ σ·w).
-/
namespace LinfaSpec.Incremental
open LinfaSpec

set_option linter.unusedSectionVars false
set_option linter.unusedSimpArgs false
set_option linter.unusedVariables false

section Field
variable {α : Type} [Field α] [LinearOrder α] [IsStrictOrderedRing α]

/-! ### mini-batch k-means: the trace of a history -/

/-- the state after a list of batches (what `fit_with` hands to the next call, `Ok` or
`Err(NotConverged(model))` alike) -/
def kmStateAfter [Transc α] (m : Metric) (tol : α) (st : KState α) (hist : List (List (List α))) :
    KState α :=
  hist.foldl (fun s b => (kmStepBy m tol s b).1) st

theorem kmRunBy_length [Transc α] (m : Metric) (tol : α) (hist : List (List (List α))) :
    ∀ st : KState α, (kmRunBy m tol st hist).length = hist.length := by
  induction hist with
  | nil => intro st; simp [kmRunBy]
  | cons b rest ih => intro st; simp [kmRunBy, ih]

theorem kmRunBy_append [Transc α] (m : Metric) (tol : α) (h1 h2 : List (List (List α))) :
    ∀ st : KState α, kmRunBy m tol st (h1 ++ h2) =
      kmRunBy m tol st h1 ++ kmRunBy m tol (kmStateAfter m tol st h1) h2 := by
  induction h1 with
  | nil => intro st; simp [kmRunBy, kmStateAfter]
  | cons b rest ih =>
    intro st
    simp only [List.cons_append, kmRunBy, ih, kmStateAfter, List.foldl_cons]

/-- entry `i` of the trace of any history is one `fit_with` step applied to the state after the
first `i` batches -/
theorem kmRunBy_entry [Transc α] (m : Metric) (tol : α) (st : KState α)
    (pre : List (List (List α))) (b : List (List α)) (post : List (List (List α))) :
    (kmRunBy m tol st (pre ++ b :: post))[pre.length]? =
      some (kmStepBy m tol (kmStateAfter m tol st pre) b) := by
  rw [kmRunBy_append]
  have hl := kmRunBy_length m tol pre st
  rw [List.getElem?_append_right (by omega)]
  simp [hl, kmRunBy]

/-! ### L2: the report in reduced-distance form -/

theorem sumS_nonneg (l : List α) (h : ∀ x ∈ l, 0 ≤ x) : 0 ≤ sumS l := by
  rw [sumS_eq_sum]; exact List.sum_nonneg h

theorem sqDist_nonneg (a b : List α) : 0 ≤ sqDist a b := by
  apply sumS_nonneg
  intro x hx
  obtain ⟨i, hi, rfl⟩ := List.getElem_of_mem hx
  simp only [List.getElem_zipWith]
  exact mul_self_nonneg _

/-- for a square root that is a square root (non-negative, squares back) comparing it with a
non-negative tolerance is comparing the radicand with the squared tolerance -/
theorem sqrt_lt_iff_lt_sq [Transc α]
    (hs : ∀ x : α, 0 ≤ x → 0 ≤ Transc.sqrt x ∧ Transc.sqrt x * Transc.sqrt x = x)
    (s tol : α) (h0 : 0 ≤ s) (ht : 0 ≤ tol) : Transc.sqrt s < tol ↔ s < tol * tol := by
  obtain ⟨hr, hsq⟩ := hs s h0
  constructor
  · intro h
    rw [← hsq]
    exact mul_self_lt_mul_self hr h
  · intro h
    by_contra hn
    have hn : tol ≤ Transc.sqrt s := not_lt.mp hn
    have := mul_self_le_mul_self ht hn
    rw [hsq] at this
    exact absurd h (not_lt.mpr this)

/-! ### cumulative counts add up to the rows fed -/

theorem sumS_set (l : List α) (i : Nat) (v : α) (hi : i < l.length) :
    sumS (l.set i v) = sumS l - l.getD i 0 + v := by
  induction l generalizing i with
  | nil => simp at hi
  | cons x rest ih =>
    cases i with
    | zero => simp [sumS_cons]; ring
    | succ i =>
      have hi' : i < rest.length := by simpa using hi
      simp only [List.set_cons_succ, sumS_cons, ih i hi', List.getD_cons_succ]
      ring

theorem kmAddPoint_total (st : KState α) (x : List α) (c : Nat) (hc : c < st.counts.length) :
    sumS (kmAddPoint st x c).counts = sumS st.counts + 1 := by
  simp only [kmAddPoint]
  rw [sumS_set _ _ _ hc]; ring

theorem kmIncr_total (pairs : List (List α × Nat)) :
    ∀ st : KState α, (∀ xm ∈ pairs, xm.2 < st.counts.length) →
      sumS (pairs.foldl (fun s xc => kmAddPoint s xc.1 xc.2) st).counts =
        sumS st.counts + (pairs.length : α) := by
  induction pairs with
  | nil => intro st _; simp
  | cons xm rest ih =>
    intro st h
    simp only [List.foldl_cons, List.length_cons]
    have hl := (kmAddPoint_lengths st xm.1 xm.2).2
    rw [ih (kmAddPoint st xm.1 xm.2) (by
      intro ym hym; rw [hl]; exact h ym (List.mem_cons_of_mem _ hym)),
      kmAddPoint_total st xm.1 xm.2 (h xm List.mem_cons_self)]
    push_cast; ring

/-- the index `closest_centroid` returns is a valid cluster index -/
theorem closestBy_fold_idx (m : Metric) (x : List α) (k : Nat) (l : List (List α × Nat))
    (hl : ∀ ci ∈ l, ci.2 < k) (init : Nat × α) (hi : init.1 < k) :
    (l.foldl (fun (best : Nat × α) (ci : List α × Nat) =>
      let d := rdistBy m ci.1 x
      if d < best.2 then (ci.2, d) else best) init).1 < k := by
  induction l generalizing init with
  | nil => simpa using hi
  | cons ci rest ih =>
    simp only [List.foldl_cons]
    apply ih (fun cj hcj => hl cj (List.mem_cons_of_mem _ hcj))
    by_cases h : rdistBy m ci.1 x < init.2
    · simp only [h, if_true]; exact hl ci List.mem_cons_self
    · simp only [h, if_false]; exact hi

theorem closestBy_idx_lt (m : Metric) (cs : List (List α)) (x : List α) (h : cs ≠ []) :
    (closestBy m cs x).1 < cs.length := by
  cases cs with
  | nil => exact absurd rfl h
  | cons c0 rest =>
    simp only [closestBy]
    apply closestBy_fold_idx
    · intro ci hci
      obtain ⟨c, i⟩ := ci
      have := List.mk_mem_zipIdx_iff_getElem?.mp hci
      have hlt : i < (c0 :: rest).length := by
        by_contra hge
        rw [List.getElem?_eq_none (by omega)] at this
        exact absurd this (by simp)
      exact hlt
    · simp

/-- one `fit_with` call raises the sum of the cumulative counts by the number of rows of the batch -/
theorem kmStepBy_total [Transc α] (m : Metric) (tol : α) (st : KState α) (obs : List (List α))
    (hne : st.centroids ≠ []) (hk : st.counts.length = st.centroids.length) :
    sumS (kmStepBy m tol st obs).1.counts = sumS st.counts + (obs.length : α) := by
  simp only [kmStepBy, kmIncr]
  rw [kmIncr_total]
  · simp [kmAssignBy]
  · intro xm hxm
    obtain ⟨x, c⟩ := xm
    have h2 := (List.of_mem_zip hxm).2
    simp only [kmAssignBy, List.mem_map] at h2
    obtain ⟨y, _, rfl⟩ := h2
    rw [hk]
    exact closestBy_idx_lt m st.centroids y hne

theorem kmIncr_lengths (pairs : List (List α × Nat)) :
    ∀ st : KState α,
      (pairs.foldl (fun s xc => kmAddPoint s xc.1 xc.2) st).centroids.length = st.centroids.length ∧
      (pairs.foldl (fun s xc => kmAddPoint s xc.1 xc.2) st).counts.length = st.counts.length := by
  induction pairs with
  | nil => intro st; simp
  | cons xm rest ih =>
    intro st
    simp only [List.foldl_cons]
    obtain ⟨h1, h2⟩ := ih (kmAddPoint st xm.1 xm.2)
    obtain ⟨g1, g2⟩ := kmAddPoint_lengths st xm.1 xm.2
    exact ⟨h1.trans g1, h2.trans g2⟩

theorem kmStepBy_lengths [Transc α] (m : Metric) (tol : α) (st : KState α) (obs : List (List α)) :
    (kmStepBy m tol st obs).1.centroids.length = st.centroids.length ∧
    (kmStepBy m tol st obs).1.counts.length = st.counts.length := by
  simp only [kmStepBy, kmIncr]
  exact kmIncr_lengths _ st

/-- over a whole history: the cumulative counts add up to what they were plus every row fed -/
theorem kmStateAfter_total [Transc α] (m : Metric) (tol : α) (hist : List (List (List α))) :
    ∀ st : KState α, st.centroids ≠ [] → st.counts.length = st.centroids.length →
      sumS (kmStateAfter m tol st hist).counts = sumS st.counts + (hist.flatten.length : α) := by
  induction hist with
  | nil => intro st _ _; simp [kmStateAfter]
  | cons b rest ih =>
    intro st hne hk
    obtain ⟨l1, l2⟩ := kmStepBy_lengths m tol st b
    have hne' : (kmStepBy m tol st b).1.centroids ≠ [] := by
      intro h; apply hne; apply List.eq_nil_of_length_eq_zero; rw [← l1, h]; rfl
    have := ih (kmStepBy m tol st b).1 hne' (by rw [l1, l2, hk])
    simp only [kmStateAfter, List.foldl_cons] at this ⊢
    rw [this, kmStepBy_total m tol st b hne hk]
    simp only [List.flatten_cons, List.length_append]
    push_cast; ring

/-! ### naive Bayes: class bookkeeping of one `fit_with` call on an arbitrary state -/

/-- **a class the batch introduces** (not stored yet, at least one row in the batch) is stored with
the number, the column means and the column variances `+ epsilon` of its rows in this batch -/
theorem gnbStep_new_class (vs : α) (p : Nat) (st : GState α) (b : Batch α) (c : Nat)
    (hnone : lookup c st = none) (hb : rowsOf c b ≠ []) :
    (lookup c (gnbStep vs p st b)).map gProj =
      some ((rowsOf c b).length, (columns p (rowsOf c b)).map meanL,
        (columns p (rowsOf c b)).map fun xs => varL xs + gnbEps vs p b) := by
  have hl : c ∈ labelsOf b := (mem_labelsOf c b).mpr hb
  simp only [gnbStep, gnbPriors, lookup_mapVals, gnbClassLoop_eq,
    lookup_foldl_upsert _ _ (nodup_labelsOf _), Option.map_map, hl, if_true, hnone]
  simp [Function.comp, gProj, gnbF, GInfo.default, gnbUpdateClass_fresh, List.map_map]

/-- **a class the batch lacks** keeps its count, means and variances (epsilon is subtracted and added
back); a class that is neither stored nor in the batch stays absent -/
theorem gnbStep_absent_class (vs : α) (p : Nat) (st : GState α) (b : Batch α) (c : Nat)
    (hb : rowsOf c b = []) :
    (lookup c (gnbStep vs p st b)).map gProj = (lookup c st).map gProj := by
  have hl : c ∉ labelsOf b := fun h => (mem_labelsOf c b).mp h hb
  simp only [gnbStep, gnbPriors, lookup_mapVals, gnbClassLoop_eq,
    lookup_foldl_upsert _ _ (nodup_labelsOf _), Option.map_map, hl, if_false]
  cases lookup c st with
  | none => simp
  | some i =>
    have hid : ∀ l : List α,
        l.map ((fun x => x + gnbEps vs p b) ∘ fun x => x - gnbEps vs p b) = l := by
      intro l
      induction l with
      | nil => rfl
      | cons a t ih => simp [ih]
    simp [gProj, List.map_map, hid]

/-- **the prior of every stored class after a call** is its count over (sum of the counts stored
before + rows of the batch) — also for the classes the batch lacks -/
theorem gnbStep_prior_total (vs : α) (p : Nat) (st : GState α) (b : Batch α) (c : Nat) (i : GInfo α)
    (h : lookup c (gnbStep vs p st b) = some i) :
    i.prior = (i.count : α) / ((gnbTotal st + b.length : Nat) : α) := by
  rw [gnbStep_prior vs p st b c i h, ← gnbTotal_eq_foldl, gnbStep_total]

/-- the stored classes are exactly the classes seen so far -/
theorem gnbRun_isSome (vs : α) (p : Nat) (hist : List (Batch α)) (c : Nat) :
    (lookup c (gnbRun vs p hist)).isSome = true ↔ rowsOf c hist.flatten ≠ [] := by
  have h := gnbRun_stats_sm vs p hist c
  by_cases hd : rowsOf c hist.flatten = []
  · simp only [gnbStatsSm, hd, if_true] at h
    cases hl : lookup c (gnbRun vs p hist) with
    | none => simp [hd]
    | some i => rw [hl] at h; simp at h
  · simp only [gnbStatsSm, hd, if_false] at h
    cases hl : lookup c (gnbRun vs p hist) with
    | none => rw [hl] at h; simp at h
    | some i => simp [hd]

/-- multinomial: a class the batch introduces -/
theorem mnbStep_new_class [Transc α] (a : α) (p : Nat) (st : MState α) (b : Batch α) (c : Nat)
    (hnone : lookup c st = none) (hb : rowsOf c b ≠ []) :
    (lookup c (mnbStep a p st b)).map mProj =
      some ((rowsOf c b).length, (columns p (rowsOf c b)).map sumS,
        mnbLogProb a ((columns p (rowsOf c b)).map sumS)) := by
  have hl : c ∈ labelsOf b := (mem_labelsOf c b).mpr hb
  have hlen : (rowsOf c b).length ≠ 0 := by simpa using hb
  simp only [mnbStep, mnbPriors, lookup_mapVals, mnbClassLoop_eq,
    lookup_foldl_upsert _ _ (nodup_labelsOf _), Option.map_map, hl, if_true, hnone]
  simp [Function.comp, mProj, mnbF, MInfo.default, mnbUpdateClass, hlen]

/-- multinomial: a class the batch lacks keeps count, feature counts and log-frequencies -/
theorem mnbStep_absent_class [Transc α] (a : α) (p : Nat) (st : MState α) (b : Batch α) (c : Nat)
    (hb : rowsOf c b = []) :
    (lookup c (mnbStep a p st b)).map mProj = (lookup c st).map mProj := by
  have hl : c ∉ labelsOf b := fun h => (mem_labelsOf c b).mp h hb
  simp only [mnbStep, mnbPriors, lookup_mapVals, mnbClassLoop_eq,
    lookup_foldl_upsert _ _ (nodup_labelsOf _), Option.map_map, hl, if_false]
  cases lookup c st with
  | none => simp
  | some i => simp [mProj, Function.comp]

/-! ### FTRL: the accumulators over a sequence of updates -/

/-- one coordinate through a sequence of gradients -/
def ftrlCoordRun [Transc α] (hp : FtrlHp α) (zn : α × α) (gs : List α) : α × α :=
  gs.foldl (fun s g => ftrlCoord hp s.1 s.2 g) zn

/-- the learning-rate increments `σ_t` of one coordinate along a sequence of gradients -/
def ftrlSigmaSeq [Transc α] (hp : FtrlHp α) (n : α) : List α → List α
  | [] => []
  | g :: gs => ftrlSigma hp n g :: ftrlSigmaSeq hp (n + g * g) gs

/-- the corrections `σ_t · w_t` subtracted from `z` along a sequence of gradients -/
def ftrlCorrSeq [Transc α] (hp : FtrlHp α) (z n : α) : List α → List α
  | [] => []
  | g :: gs => ftrlSigma hp n g * ftrlWeight hp z n ::
      ftrlCorrSeq hp (ftrlCoord hp z n g).1 (n + g * g) gs

theorem sumS_cons' (x : α) (l : List α) : sumS (x :: l) = x + sumS l := by
  simp [sumS_eq_sum]

/-- `n` is the accumulated sum of squared gradients -/
theorem ftrlCoordRun_n [Transc α] (hp : FtrlHp α) (gs : List α) :
    ∀ z n : α, (ftrlCoordRun hp (z, n) gs).2 = n + sumS (gs.map fun g => g * g) := by
  induction gs with
  | nil => intro z n; simp [ftrlCoordRun, sumS_nil]
  | cons g rest ih =>
    intro z n
    have := ih (ftrlCoord hp z n g).1 (ftrlCoord hp z n g).2
    simp only [ftrlCoordRun, List.foldl_cons, List.map_cons, sumS_cons] at this ⊢
    rw [this]; simp only [ftrlCoord]; ring

theorem ftrlCoordRun_n_mono [Transc α] (hp : FtrlHp α) (gs : List α) (z n : α) :
    n ≤ (ftrlCoordRun hp (z, n) gs).2 := by
  rw [ftrlCoordRun_n]
  have : 0 ≤ sumS (gs.map fun g => g * g) := by
    apply sumS_nonneg
    intro x hx
    obtain ⟨g, _, rfl⟩ := List.mem_map.mp hx
    exact mul_self_nonneg g
  linarith

/-- the learning-rate increments telescope: `Σ σ_t = (√n_T − √n_0) / α` (the per-coordinate
learning-rate schedule `1/η_t = √n_t / α` of FTRL-proximal), for ANY function `sqrt` -/
theorem ftrlSigmaSeq_telescope [Transc α] (hp : FtrlHp α) (gs : List α) :
    ∀ n : α, sumS (ftrlSigmaSeq hp n gs) =
      (Transc.sqrt (n + sumS (gs.map fun g => g * g)) - Transc.sqrt n) / hp.alpha := by
  induction gs with
  | nil => intro n; simp [ftrlSigmaSeq, sumS_nil]
  | cons g rest ih =>
    intro n
    simp only [ftrlSigmaSeq, sumS_cons, List.map_cons, ih, ftrlSigma, add_assoc]
    ring

/-- `z` is the start value plus the accumulated gradients minus the accumulated corrections `σ_t·w_t` -/
theorem ftrlCoordRun_z [Transc α] (hp : FtrlHp α) (gs : List α) :
    ∀ z n : α, (ftrlCoordRun hp (z, n) gs).1 = z + sumS gs - sumS (ftrlCorrSeq hp z n gs) := by
  induction gs with
  | nil => intro z n; simp [ftrlCoordRun, ftrlCorrSeq, sumS_nil]
  | cons g rest ih =>
    intro z n
    have := ih (ftrlCoord hp z n g).1 (ftrlCoord hp z n g).2
    simp only [ftrlCoordRun, List.foldl_cons, ftrlCorrSeq, sumS_cons] at this ⊢
    rw [this]
    simp only [ftrlCoord]
    ring

/-- **the coordinates are independent**: coordinate `j` of the state after any sequence of
`update_params` calls is the one-coordinate recurrence run on the `j`-th components -/
theorem ftrlUpdate_coord [Transc α] (hp : FtrlHp α) (gs : List (List α)) (j : Nat) :
    ∀ (st : FState α) (z n : α), st.z[j]? = some z → st.n[j]? = some n →
      (∀ g ∈ gs, j < g.length) →
      (gs.foldl (ftrlUpdate hp) st).z[j]? = some (ftrlCoordRun hp (z, n) (gs.map fun g => g.getD j 0)).1 ∧
      (gs.foldl (ftrlUpdate hp) st).n[j]? = some (ftrlCoordRun hp (z, n) (gs.map fun g => g.getD j 0)).2 := by
  induction gs with
  | nil => intro st z n hz hn _; simp [ftrlCoordRun, hz, hn]
  | cons g rest ih =>
    intro st z n hz hn hg
    have hj : j < g.length := hg g List.mem_cons_self
    obtain ⟨gj, hgj⟩ : ∃ gj, g[j]? = some gj := ⟨g[j], List.getElem?_eq_getElem hj⟩
    have hgd : g.getD j 0 = gj := by simp [List.getD_eq_getElem?_getD, hgj]
    have hzn : (st.z.zip st.n)[j]? = some (z, n) := List.getElem?_zip_eq_some.mpr ⟨hz, hn⟩
    have h1 : (ftrlUpdate hp st g).z[j]? = some (ftrlCoord hp z n gj).1 := by
      simp [ftrlUpdate, List.getElem?_zipWith, hzn, hgj]
    have h2 : (ftrlUpdate hp st g).n[j]? = some (ftrlCoord hp z n gj).2 := by
      simp [ftrlUpdate, List.getElem?_zipWith, hzn, hgj]
    have := ih (ftrlUpdate hp st g) _ _ h1 h2 (fun g' hg' => hg g' (List.mem_cons_of_mem _ hg'))
    subst hgd
    simpa [ftrlCoordRun] using this

theorem ftrlGradient_length (p : Nat) (probs : List α) (xs : List (List α)) (ys : List Bool) :
    (ftrlGradient p probs xs ys).length = p := by
  simp [ftrlGradient]

/-- a history of `fit_with` calls is a sequence of `update_params` calls with one gradient vector of
length `p` per batch -/
theorem ftrlRun_is_update_fold [Transc α] (m : α) (r32 : α → α) (hp : FtrlHp α) (p : Nat)
    (hist : List (List (List α) × List Bool)) :
    ∀ st : FState α, ∃ gs : List (List α), gs.length = hist.length ∧ (∀ g ∈ gs, g.length = p) ∧
      ftrlRun m r32 hp p st hist = gs.foldl (ftrlUpdate hp) st := by
  induction hist with
  | nil => intro st; exact ⟨[], rfl, by simp, rfl⟩
  | cons b rest ih =>
    intro st
    obtain ⟨gs, hlen, hall, heq⟩ := ih (ftrlStep m r32 hp p st b)
    refine ⟨ftrlGradient p (ftrlProbs m r32 hp st b.1) b.1 b.2 :: gs, by simp [hlen], ?_, ?_⟩
    · intro g hg
      rcases List.mem_cons.mp hg with rfl | hg
      · exact ftrlGradient_length _ _ _ _
      · exact hall g hg
    · simp only [ftrlRun, List.foldl_cons] at heq ⊢
      rw [heq]; rfl

/-! ### the glue: `Option` model in, guard, caller's loop -/

/-- on guarded batches the caller's loop succeeds, returns one model per batch, and its last model is
the step folded over the history from the incoming model (`None` = the empty map) -/
theorem nbFitHistory_ok {σ : Type} (step : σ → Batch α → σ) (e : σ) (guard : Batch α → Bool)
    (hist : List (Batch α)) (hg : ∀ b ∈ hist, guard b = true) :
    ∀ model : Option σ, ∃ sts, nbFitHistory step e guard model hist = some sts ∧
      sts.length = hist.length ∧
      sts.getLastD (model.getD e) = hist.foldl step (model.getD e) := by
  induction hist with
  | nil => intro model; exact ⟨[], rfl, rfl, rfl⟩
  | cons b rest ih =>
    intro model
    have hb : guard b = true := hg b List.mem_cons_self
    obtain ⟨sts, h1, h2, h3⟩ := ih (fun b' hb' => hg b' (List.mem_cons_of_mem _ hb'))
      (some (step (model.getD e) b))
    refine ⟨step (model.getD e) b :: sts, ?_, by simp [h2], ?_⟩
    · simp [nbFitHistory, nbFitWith, hb, h1]
    · simp only [Option.getD_some] at h3
      simp only [List.foldl_cons, ← h3]
      cases sts with
      | nil => rfl
      | cons x xs => simp [List.getLastD]

/-- a batch that fails the guard makes the loop return the error -/
theorem nbFitHistory_err {σ : Type} (step : σ → Batch α → σ) (e : σ) (guard : Batch α → Bool)
    (hist : List (Batch α)) (hg : ∃ b ∈ hist, guard b = false) :
    ∀ model : Option σ, nbFitHistory step e guard model hist = none := by
  induction hist with
  | nil => obtain ⟨b, hb, _⟩ := hg; simp at hb
  | cons b rest ih =>
    intro model
    obtain ⟨b', hb', hf⟩ := hg
    by_cases hb : guard b = true
    · have hb'' : b' ∈ rest := by
        rcases List.mem_cons.mp hb' with rfl | h
        · rw [hb] at hf; exact absurd hf (by simp)
        · exact h
      simp [nbFitHistory, nbFitWith, hb, ih ⟨b', hb'', hf⟩]
    · simp [nbFitHistory, nbFitWith, hb]

/-- the caller's loop of mini-batch k-means is the trace from the incoming model (`None` = the
precomputed centroids with zero counts) -/
theorem kmFitHistory_eq_run [Transc α] (m : Metric) (tol : α) (c0 : List (List α))
    (hist : List (List (List α))) :
    ∀ model : Option (KState α),
      kmFitHistory m tol c0 model hist = kmRunBy m tol (model.getD (kmFresh c0)) hist := by
  induction hist with
  | nil => intro model; simp [kmFitHistory, kmRunBy]
  | cons b rest ih =>
    intro model
    simp [kmFitHistory, kmRunBy, kmFitWith, ih]

/-- the caller's loop of FTRL ends in the step folded over the history from the incoming model
(`None` = `Ftrl::new`: the drawn `z`, `n = 0`) -/
theorem ftrlFitHistory_last [Transc α] (m : α) (r32 : α → α) (hp : FtrlHp α) (z0 : List α)
    (hist : List (List (List α) × List Bool)) :
    ∀ model : Option (FState α),
      (ftrlFitHistory m r32 hp z0 model hist).length = hist.length ∧
      (ftrlFitHistory m r32 hp z0 model hist).getLastD (model.getD (ftrlFresh z0)) =
        ftrlRun m r32 hp z0.length (model.getD (ftrlFresh z0)) hist := by
  induction hist with
  | nil => intro model; simp [ftrlFitHistory, ftrlRun]
  | cons b rest ih =>
    intro model
    obtain ⟨h1, h2⟩ := ih (some (ftrlFitWith m r32 hp z0 model b))
    refine ⟨by simp [ftrlFitHistory, h1], ?_⟩
    simp only [Option.getD_some] at h2
    simp only [ftrlFitHistory, ftrlRun, List.foldl_cons] at h2 ⊢
    rw [show ftrlStep m r32 hp z0.length (model.getD (ftrlFresh z0)) b =
      ftrlFitWith m r32 hp z0 model b from rfl, ← h2]
    cases ftrlFitHistory m r32 hp z0 (some (ftrlFitWith m r32 hp z0 model b)) rest with
    | nil => rfl
    | cons x xs => simp [List.getLastD]

/-! ### inertia: the minimum over all assignments -/

theorem sumS_le_sumS_map {β : Type} (l : List β) (f g : β → α) (h : ∀ x ∈ l, f x ≤ g x) :
    sumS (l.map f) ≤ sumS (l.map g) := by
  induction l with
  | nil => simp
  | cons x rest ih =>
    simp only [List.map_cons, sumS_cons]
    exact add_le_add (h x List.mem_cons_self) (ih fun y hy => h y (List.mem_cons_of_mem _ hy))

/-- the inertia numerator `dists.sum()` is at most the total reduced distance of ANY assignment of the
batch to centroids of the model -/
theorem kmInertia_le (m : Metric) (cs : List (List α)) (obs : List (List α))
    (a : List α → List α) (ha : ∀ x ∈ obs, a x ∈ cs) :
    sumS (obs.map fun x => (closestBy m cs x).2) ≤ sumS (obs.map fun x => rdistBy m (a x) x) :=
  sumS_le_sumS_map obs _ _ fun x hx => closestBy_le m cs x (a x) (ha x hx)

/-! ### FTRL: the weight is the minimiser of the proximal objective -/

/-- the per-coordinate FTRL-proximal objective `z·w + l1·|w| + ½·d·w²`, `d = (√n + β)/α + l2` -/
def ftrlObjective [Transc α] (hp : FtrlHp α) (z n w : α) : α :=
  z * w + hp.l1 * |w| + ((Transc.sqrt n + hp.beta) / hp.alpha + hp.l2) / 2 * (w * w)

theorem ftrlWeight_minimises [Transc α] (hp : FtrlHp α) (z n : α) (hl1 : 0 ≤ hp.l1)
    (hd : 0 < (Transc.sqrt n + hp.beta) / hp.alpha + hp.l2) (w : α) :
    ftrlObjective hp z n (ftrlWeight hp z n) ≤ ftrlObjective hp z n w := by
  set d := (Transc.sqrt n + hp.beta) / hp.alpha + hp.l2 with hdd
  have habs1 : -|w| ≤ w := neg_abs_le w
  have habs2 : w ≤ |w| := le_abs_self w
  have habs0 : 0 ≤ |w| := abs_nonneg w
  unfold ftrlObjective ftrlWeight
  rw [← hdd]
  by_cases hz : z < 0
  · by_cases h1 : z * -1 ≤ hp.l1
    · simp only [hz, if_true, h1, mul_zero, abs_zero, add_zero]
      nlinarith [mul_self_nonneg w, mul_nonneg hl1 habs0]
    · have h1' : hp.l1 < -z := by linarith [not_le.mp h1]
      simp only [hz, if_true, h1, if_false]
      set ws := (-1 * hp.l1 - z) / d with hws
      have hwsd : ws * d = -1 * hp.l1 - z := by rw [hws]; field_simp
      have hpos : 0 < ws := by rw [hws]; apply div_pos <;> linarith
      rw [abs_of_pos hpos]
      nlinarith [mul_self_nonneg (w - ws), mul_nonneg hl1 (sub_nonneg.mpr habs2), hd.le]
  · by_cases h1 : z * 1 ≤ hp.l1
    · simp only [hz, if_false, h1, if_true, mul_zero, abs_zero, add_zero]
      nlinarith [mul_self_nonneg w, mul_nonneg hl1 habs0]
    · have h1' : hp.l1 < z := by linarith [not_le.mp h1]
      simp only [hz, if_false, h1]
      set ws := (1 * hp.l1 - z) / d with hws
      have hwsd : ws * d = 1 * hp.l1 - z := by rw [hws]; field_simp
      have hneg : ws < 0 := by rw [hws]; apply div_neg_of_neg_of_pos <;> linarith
      rw [abs_of_neg hneg]
      nlinarith [mul_self_nonneg (w - ws), mul_nonneg hl1 (by linarith : (0:α) ≤ |w| + w), hd.le]

end Field

/-! ### multinomial: the stored log-frequencies are the logarithms of the smoothed frequencies (reals) -/

noncomputable section Reals

/-- the real instance of the "external call" primitives -/
local instance transcReal : Transc ℝ := ⟨Real.sqrt, Real.exp, Real.log⟩

theorem mnbLogProb_exp (a : ℝ) (fc : List ℝ) (hpos : ∀ x ∈ fc, 0 < x + a)
    (j : Nat) (x : ℝ) (hj : fc[j]? = some x) :
    ((mnbLogProb a fc).map Real.exp)[j]? = some ((x + a) / sumS (fc.map (· + a))) := by
  have hx : x ∈ fc := List.mem_of_getElem? hj
  have hxa : 0 < x + a := hpos x hx
  have hsum : 0 < sumS (fc.map (· + a)) := by
    rw [sumS_eq_sum]
    apply List.sum_pos
    · intro y hy
      obtain ⟨v, hv, rfl⟩ := List.mem_map.mp hy
      exact hpos v hv
    · intro hnil
      have : fc = [] := by simpa using hnil
      rw [this] at hx; simp at hx
  simp only [mnbLogProb, List.map_map, List.getElem?_map, hj, Option.map_some, Function.comp,
    Option.some.injEq]
  show Real.exp (Real.log (x + a) - Real.log (sumS (fc.map (· + a)))) = _
  rw [Real.exp_sub, Real.exp_log hxa, Real.exp_log hsum]

end Reals

end LinfaSpec.Incremental
