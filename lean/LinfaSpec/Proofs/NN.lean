import LinfaSpec.Model.NN
import Mathlib.Order.Defs.LinearOrder
import Mathlib.Order.Basic
import Mathlib.Algebra.Order.Field.Basic
import Mathlib.Tactic.Linarith

/-! Helper lemmas for C07: sorted insertion, the "k nearest up to ties" specification, the
linear scan, the ball invariant, soundness of the pruning bound, the search loop invariant. -/
namespace LinfaSpec.NN
set_option linter.unusedSectionVars false

section order
variable {α β : Type} [LinearOrder α]

/-- ascending in the key -/
def Asc (l : List (α × β)) : Prop := l.Pairwise (fun a b => a.1 ≤ b.1)

theorem insertAsc_perm (x : α × β) (l : List (α × β)) : (insertAsc x l).Perm (x :: l) := by
  induction l with
  | nil => simp [insertAsc]
  | cons y ys ih =>
    simp only [insertAsc]
    split
    · exact List.Perm.refl _
    · exact (List.Perm.cons y ih).trans (List.Perm.swap x y ys)

theorem insertAsc_length (x : α × β) (l : List (α × β)) : (insertAsc x l).length = l.length + 1 := by
  simpa using (insertAsc_perm x l).length_eq

theorem mem_insertAsc {x y : α × β} {l : List (α × β)} : y ∈ insertAsc x l ↔ y = x ∨ y ∈ l := by
  rw [(insertAsc_perm x l).mem_iff]; simp

theorem insertAsc_asc (x : α × β) {l : List (α × β)} (h : Asc l) : Asc (insertAsc x l) := by
  induction l with
  | nil => simp [insertAsc, Asc]
  | cons y ys ih =>
    simp only [insertAsc]
    have hy := List.pairwise_cons.mp h
    split
    · rename_i hlt
      refine List.pairwise_cons.mpr ⟨?_, h⟩
      intro z hz
      rcases List.mem_cons.mp hz with rfl | hz
      · exact le_of_lt hlt
      · exact le_trans (le_of_lt hlt) (hy.1 z hz)
    · rename_i hnlt
      refine List.pairwise_cons.mpr ⟨?_, ih hy.2⟩
      intro z hz
      rcases mem_insertAsc.mp hz with rfl | hz
      · exact not_lt.mp hnlt
      · exact hy.1 z hz

/-- **the k nearest of `E`, ties broken arbitrarily**: `out` is ascending, has `min k |E|`
elements, is a sub-multiset of `E`, and everything of `E` left out is at least as far as
everything returned. -/
def IsKnn (E out : List (α × β)) (k : Nat) : Prop :=
  ∃ rest, (out ++ rest).Perm E ∧ out.length = min k E.length ∧ Asc out ∧
    ∀ y ∈ out, ∀ x ∈ rest, y.1 ≤ x.1

theorem asc_take_drop {l : List (α × β)} (h : Asc l) (k : Nat) :
    ∀ y ∈ l.take k, ∀ x ∈ l.drop k, y.1 ≤ x.1 := by
  have h' : Asc (l.take k ++ l.drop k) := by rw [List.take_append_drop]; exact h
  exact fun y hy x hx => (List.pairwise_append.mp h').2.2 y hy x hx

theorem isKnn_take_of_sorted {E s : List (α × β)} (hp : s.Perm E) (hs : Asc s) (k : Nat) :
    IsKnn E (s.take k) k := by
  refine ⟨s.drop k, ?_, ?_, ?_, asc_take_drop hs k⟩
  · rw [List.take_append_drop]; exact hp
  · rw [List.length_take, hp.length_eq]
  · exact List.Pairwise.sublist (List.take_sublist k s) hs

/-- two ascending "smallest elements" selections of the same length from the same multiset are equal -/
theorem smallest_unique {E o1 o2 r1 r2 : List α} (p1 : (o1 ++ r1).Perm E) (p2 : (o2 ++ r2).Perm E)
    (a1 : o1.Pairwise (· ≤ ·)) (a2 : o2.Pairwise (· ≤ ·)) (hlen : o1.length = o2.length)
    (m1 : ∀ y ∈ o1, ∀ x ∈ r1, y ≤ x) (m2 : ∀ y ∈ o2, ∀ x ∈ r2, y ≤ x) : o1 = o2 := by
  induction o1 generalizing E o2 with
  | nil =>
    have : o2 = [] := List.length_eq_zero_iff.mp (by simpa using hlen.symm)
    simp [this]
  | cons a o1 ih =>
    cases o2 with
    | nil => simp at hlen
    | cons b o2 =>
      have ha1 := List.pairwise_cons.mp a1
      have ha2 := List.pairwise_cons.mp a2
      have hbE : b ∈ E := p2.subset (by simp)
      have haE : a ∈ E := p1.subset (by simp)
      have hab : a ≤ b := by
        have : b ∈ (a :: o1) ++ r1 := p1.symm.subset hbE
        rcases List.mem_append.mp this with h | h
        · rcases List.mem_cons.mp h with rfl | h
          · exact le_refl _
          · exact ha1.1 b h
        · exact m1 a (by simp) b h
      have hba : b ≤ a := by
        have : a ∈ (b :: o2) ++ r2 := p2.symm.subset haE
        rcases List.mem_append.mp this with h | h
        · rcases List.mem_cons.mp h with rfl | h
          · exact le_refl _
          · exact ha2.1 a h
        · exact m2 b (by simp) a h
      have hkey : a = b := le_antisymm hab hba
      subst hkey
      have p12 : (o1 ++ r1).Perm (o2 ++ r2) := by
        have : (a :: (o1 ++ r1)).Perm (a :: (o2 ++ r2)) := by
          simpa using p1.trans p2.symm
        exact List.Perm.cons_inv this
      have := ih (E := o2 ++ r2) (o2 := o2) p12 (List.Perm.refl _) ha1.2 ha2.2
        (by simpa using hlen) (fun y hy x hx => m1 y (by simp [hy]) x hx)
        (fun y hy x hx => m2 y (by simp [hy]) x hx)
      rw [this]

/-- the key sequence of a k-nearest answer is determined by `E` and `k` -/
theorem isKnn_keys_unique {E o1 o2 : List (α × β)} {k : Nat} (h1 : IsKnn E o1 k) (h2 : IsKnn E o2 k) :
    o1.map (·.1) = o2.map (·.1) := by
  obtain ⟨r1, p1, l1, a1, m1⟩ := h1
  obtain ⟨r2, p2, l2, a2, m2⟩ := h2
  refine smallest_unique (E := E.map (·.1)) (r1 := r1.map (·.1)) (r2 := r2.map (·.1)) ?_ ?_ ?_ ?_ ?_ ?_ ?_
  · simpa using p1.map (·.1)
  · simpa using p2.map (·.1)
  · exact List.pairwise_map.mpr a1
  · exact List.pairwise_map.mpr a2
  · simp [l1, l2]
  · intro y hy x hx
    obtain ⟨y', hy', rfl⟩ := List.mem_map.mp hy
    obtain ⟨x', hx', rfl⟩ := List.mem_map.mp hx
    exact m1 y' hy' x' hx'
  · intro y hy x hx
    obtain ⟨y', hy', rfl⟩ := List.mem_map.mp hy
    obtain ⟨x', hx', rfl⟩ := List.mem_map.mp hx
    exact m2 y' hy' x' hx'

end order

section linear
variable {P α : Type} [LinearOrder α]

theorem foldl_insert_spec (f : Pt P → α × Pt P) (pts : List (Pt P)) (acc : List (α × Pt P))
    (hacc : Asc acc) :
    (pts.foldl (fun heap p => insertAsc (f p) heap) acc).Perm (acc ++ pts.map f) ∧
      Asc (pts.foldl (fun heap p => insertAsc (f p) heap) acc) := by
  induction pts generalizing acc with
  | nil => simpa using hacc
  | cons p ps ih =>
    obtain ⟨hp, ha⟩ := ih (insertAsc (f p) acc) (insertAsc_asc _ hacc)
    refine ⟨?_, ha⟩
    simp only [List.foldl_cons, List.map_cons]
    refine hp.trans ?_
    refine ((insertAsc_perm (f p) acc).append_right _).trans ?_
    simp only [List.cons_append]
    exact List.perm_middle.symm

theorem linearKnnTagged_isKnn (m : Metric P α) (q : P) (k : Nat) (pts : List (Pt P)) :
    IsKnn (pts.map (tag m q)) (linearKnnTagged m q k pts) k := by
  obtain ⟨hp, ha⟩ := foldl_insert_spec (tag m q) pts [] (by simp [Asc])
  exact isKnn_take_of_sorted (by simpa using hp) ha k

end linear

section metric
variable {P α : Type} [Field α] [LinearOrder α] [IsStrictOrderedRing α]

/-- what the search needs of a `Distance` implementation -/
structure Lawful (m : Metric P α) : Prop where
  dist_nonneg : ∀ a b, 0 ≤ m.dist a b
  triangle : ∀ a b c, m.dist a c ≤ m.dist a b + m.dist b c
  rdist_eq : ∀ a b, m.rdist a b = m.toR (m.dist a b)
  toR_strictMono : ∀ a b, 0 ≤ a → a < b → m.toR a < m.toR b
  ofR_toR : ∀ a, 0 ≤ a → m.ofR (m.toR a) = a

theorem Lawful.toR_mono {m : Metric P α} (h : Lawful m) {a b : α} (ha : 0 ≤ a) (hab : a ≤ b) :
    m.toR a ≤ m.toR b := by
  rcases lt_or_eq_of_le hab with h1 | h1
  · exact le_of_lt (h.toR_strictMono a b ha h1)
  · rw [h1]

theorem Lawful.le_of_toR_le {m : Metric P α} (h : Lawful m) {a b : α} (hb : 0 ≤ b)
    (hab : m.toR a ≤ m.toR b) : a ≤ b := by
  by_contra hlt
  exact absurd (h.toR_strictMono b a hb (not_le.mp hlt)) (not_lt.mpr hab)

theorem maxS_eq_max (a b : α) : maxS a b = max a b := by
  unfold maxS
  split
  · rename_i h; exact (max_eq_right (le_of_lt h)).symm
  · rename_i h; exact (max_eq_left (not_lt.mp h)).symm

theorem foldl_maxS_spec (xs : List α) (init : α) :
    init ≤ xs.foldl maxS init ∧ (∀ x ∈ xs, x ≤ xs.foldl maxS init) ∧
      (xs.foldl maxS init = init ∨ xs.foldl maxS init ∈ xs) := by
  induction xs generalizing init with
  | nil => simp
  | cons y ys ih =>
    obtain ⟨h1, h2, h3⟩ := ih (maxS init y)
    simp only [List.foldl_cons]
    rw [maxS_eq_max] at h1 h2 h3 ⊢
    refine ⟨le_trans (le_max_left _ _) h1, ?_, ?_⟩
    · intro x hx
      rcases List.mem_cons.mp hx with rfl | hx
      · exact le_trans (le_max_right _ _) h1
      · exact h2 x hx
    · rcases h3 with h3 | h3
      · rcases max_choice init y with hc | hc
        · left; rw [h3, hc]
        · right; rw [h3, hc]; simp
      · right; exact List.mem_cons_of_mem _ h3

theorem maxList_spec {l : List α} (hne : l ≠ []) : maxList l ∈ l ∧ ∀ x ∈ l, x ≤ maxList l := by
  cases l with
  | nil => exact absurd rfl hne
  | cons y ys =>
    obtain ⟨h1, h2, h3⟩ := foldl_maxS_spec ys y
    simp only [maxList]
    refine ⟨?_, ?_⟩
    · rcases h3 with h3 | h3
      · rw [h3]; simp
      · exact List.mem_cons_of_mem _ h3
    · intro x hx
      rcases List.mem_cons.mp hx with rfl | hx
      · exact h1
      · exact h2 x hx

/-- `calc_radius` covers every point it was computed from -/
theorem calcRadius_ge {m : Metric P α} (h : Lawful m) (c : P) (pts : List (Pt P)) :
    ∀ x ∈ pts, m.dist x.1 c ≤ calcRadius m c pts := by
  intro x hx
  have hne : pts.map (fun p => m.rdist p.1 c) ≠ [] := by
    intro h0; rw [List.map_eq_nil_iff] at h0; rw [h0] at hx; simp at hx
  obtain ⟨hmem, hge⟩ := maxList_spec hne
  obtain ⟨y, _, hy⟩ := List.mem_map.mp hmem
  unfold calcRadius
  rw [← hy, h.rdist_eq, h.ofR_toR _ (h.dist_nonneg _ _)]
  apply h.le_of_toR_le (h.dist_nonneg _ _)
  rw [← h.rdist_eq, ← h.rdist_eq, hy]
  exact hge _ (List.mem_map.mpr ⟨x, hx, rfl⟩)

/-- the state invariant of the ball tree: every point of a subtree lies within `radius` of `center` -/
inductive BallInv (m : Metric P α) : Ball P α → Prop
  | leaf (c : P) (r : α) (pts : List (Pt P)) :
      (∀ x ∈ pts, m.dist x.1 c ≤ r) → BallInv m (.leaf c r pts)
  | branch (c : P) (r : α) (l rr : Ball P α) : BallInv m l → BallInv m rr →
      (∀ x ∈ l.points ++ rr.points, m.dist x.1 c ≤ r) → BallInv m (.branch c r l rr)

theorem BallInv.root {m : Metric P α} {node : Ball P α} (h : BallInv m node) :
    ∀ x ∈ node.points, m.dist x.1 node.center ≤ node.radius := by
  cases h with
  | leaf c r pts h => exact h
  | branch c r l rr _ _ h => exact h

/-- contract of `partition`: the two halves together are the input points.  Only asked on inputs
whose row positions are pairwise distinct — all the builder ever passes (sub-lists of
`batch.rows().enumerate()`), and what makes it provable for the split the driver replays
(`Props/C07.scriptSplit_splitPerm`). -/
def SplitPerm (split : List (Pt P) → Option (List (Pt P) × P × List (Pt P))) : Prop :=
  ∀ pts a c b, (pts.map (·.2)).Nodup → split pts = some (a, c, b) → (a ++ b).Perm pts

/-- the row positions of `batch.rows().enumerate()` are pairwise distinct -/
theorem enumerate_nodup (rows : List P) : ((enumerate rows).map (·.2)).Nodup := by
  unfold enumerate
  rw [List.zipIdx_map_snd]
  exact List.nodup_range'

theorem nodup_halves {a b pts : List (Pt P)} (hp : (a ++ b).Perm pts) (hnd : (pts.map (·.2)).Nodup) :
    (a.map (·.2)).Nodup ∧ (b.map (·.2)).Nodup := by
  have h1 : ((a ++ b).map (·.2)).Nodup := ((hp.map (·.2)).nodup_iff).mpr hnd
  rw [List.map_append] at h1
  exact ⟨(List.nodup_append.mp h1).1, (List.nodup_append.mp h1).2.1⟩

theorem leafOf_points (m : Metric P α) (mean : List P → P) (pts : List (Pt P)) :
    (leafOf m mean pts).points = pts := rfl

theorem leafOf_inv {m : Metric P α} (h : Lawful m) (mean : List P → P) (pts : List (Pt P)) :
    BallInv m (leafOf m mean pts) := by
  unfold leafOf
  apply BallInv.leaf
  intro x hx
  cases pts with
  | nil => simp at hx
  | cons p ps => exact calcRadius_ge h _ _ x hx

theorem build_perm {m : Metric P α} {mean : List P → P}
    {split : List (Pt P) → Option (List (Pt P) × P × List (Pt P))} (hs : SplitPerm split)
    (leafSize fuel : Nat) (pts : List (Pt P)) (hnd : (pts.map (·.2)).Nodup) :
    (build m mean split leafSize fuel pts).points.Perm pts := by
  induction fuel generalizing pts with
  | zero => simp [build, leafOf_points]
  | succ n ih =>
    unfold build
    split
    · simp [leafOf_points]
    · split
      · simp [leafOf_points]
      · rename_i a c b heq
        simp only [Ball.points]
        have hp := hs _ _ _ _ hnd heq
        obtain ⟨ha, hb⟩ := nodup_halves hp hnd
        exact ((ih a ha).append (ih b hb)).trans hp

theorem build_inv {m : Metric P α} (h : Lawful m) {mean : List P → P}
    {split : List (Pt P) → Option (List (Pt P) × P × List (Pt P))} (hs : SplitPerm split)
    (leafSize fuel : Nat) (pts : List (Pt P)) (hnd : (pts.map (·.2)).Nodup) :
    BallInv m (build m mean split leafSize fuel pts) := by
  induction fuel generalizing pts with
  | zero => exact leafOf_inv h mean pts
  | succ n ih =>
    unfold build
    split
    · exact leafOf_inv h mean pts
    · split
      · exact leafOf_inv h mean pts
      · rename_i a c b heq
        obtain ⟨ha, hb⟩ := nodup_halves (hs _ _ _ _ hnd heq) hnd
        refine BallInv.branch _ _ _ _ (ih a ha) (ih b hb) ?_
        intro x hx
        apply calcRadius_ge h
        exact (((build_perm hs leafSize n a ha).append (build_perm hs leafSize n b hb)).subset hx)

/-- **soundness of the pruning bound**: nothing in the ball is nearer (in reduced distance) than `lower` -/
theorem lower_le {m : Metric P α} (h : Lawful m) (q : P) {node : Ball P α} (hn : BallInv m node) :
    ∀ x ∈ node.points, lower m q node ≤ m.rdist q x.1 := by
  intro x hx
  have hr := hn.root x hx
  have ht := h.triangle q x.1 node.center
  unfold lower
  rw [maxS_eq_max, h.rdist_eq]
  apply h.toR_mono (le_max_right _ _)
  apply max_le
  · linarith
  · exact h.dist_nonneg _ _

end metric

section search
variable {P α : Type} [Field α] [LinearOrder α] [IsStrictOrderedRing α]

/-- the eligible (reduced distance `< max_radius`) stored points, tagged with their distance -/
def Elig (m : Metric P α) (q : P) (R : Option α) (pts : List (Pt P)) : List (α × Pt P) :=
  (pts.map (tag m q)).filter (fun e => ltR e.1 R)

theorem Elig_append (m : Metric P α) (q : P) (R : Option α) (a b : List (Pt P)) :
    Elig m q R (a ++ b) = Elig m q R a ++ Elig m q R b := by
  simp [Elig]

theorem Elig_perm (m : Metric P α) (q : P) (R : Option α) {a b : List (Pt P)} (h : a.Perm b) :
    (Elig m q R a).Perm (Elig m q R b) := (h.map _).filter _

theorem Elig_nil_of (m : Metric P α) (q : P) (R : Option α) (pts : List (Pt P))
    (h : ∀ x ∈ pts, ltR (m.rdist q x.1) R = false) : Elig m q R pts = [] := by
  unfold Elig
  rw [List.filter_eq_nil_iff]
  intro e he
  obtain ⟨x, hx, rfl⟩ := List.mem_map.mp he
  simp [tag, h x hx]

theorem ltR_false_of_geR {d d' : α} {R : Option α} (h : geR d R = true) (hd : d ≤ d') :
    ltR d' R = false := by
  cases R with
  | none => simp [geR] at h
  | some r =>
    simp only [geR, decide_eq_true_eq] at h
    simp only [ltR, decide_eq_false_iff_not, not_lt]
    exact le_trans h hd

theorem ltR_false_of_not_leR {d d' : α} {R : Option α} (h : leR d R = false) (hd : d ≤ d') :
    ltR d' R = false := by
  cases R with
  | none => simp [leR] at h
  | some r =>
    simp only [leR, decide_eq_false_iff_not, not_le] at h
    simp only [ltR, decide_eq_false_iff_not, not_lt]
    exact le_trans (le_of_lt h) hd

/-- invariant of the bounded max-heap `out` against the eligible points seen so far but not kept -/
structure KInv (k : Nat) (out rest : List (α × Pt P)) : Prop where
  asc : Asc out
  len : out.length = min k (out.length + rest.length)
  le : ∀ y ∈ out, ∀ x ∈ rest, y.1 ≤ x.1

theorem dropLast_append_of_getLast? {γ : Type} {l : List γ} {a : γ} (h : l.getLast? = some a) :
    l.dropLast ++ [a] = l := by
  obtain ⟨ys, rfl⟩ := List.getLast?_eq_some_iff.mp h
  simp

theorem asc_le_getLast {l : List (α × Pt P)} (h : Asc l) {e : α × Pt P} (he : l.getLast? = some e) :
    ∀ y ∈ l, y.1 ≤ e.1 := by
  have hl : l.dropLast ++ [e] = l := dropLast_append_of_getLast? he
  intro y hy
  rw [← hl] at hy h
  rcases List.mem_append.mp hy with hy | hy
  · exact (List.pairwise_append.mp h).2.2 y hy e (by simp)
  · simp at hy; rw [hy]

theorem visit_inv (m : Metric P α) (q : P) {k : Nat} (hk : 0 < k) (R : Option α)
    {out rest : List (α × Pt P)} (hi : KInv k out rest) (p : Pt P) :
    ∃ rest', (visit m q k R out p ++ rest').Perm (out ++ rest ++ Elig m q R [p]) ∧
      KInv k (visit m q k R out p) rest' := by
  have hE : Elig m q R [p] = if ltR (m.rdist q p.1) R then [(m.rdist q p.1, p)] else [] := by
    simp only [Elig, tag, List.map_cons, List.map_nil, List.filter_cons, List.filter_nil]
  by_cases hlt : ltR (m.rdist q p.1) R = true
  · -- eligible
    rw [hE, if_pos hlt]
    by_cases hlen : out.length < k
    · -- heap not full: rest is empty
      have hrest : rest = [] := by
        have := hi.len
        apply List.length_eq_zero_iff.mp
        omega
      subst hrest
      have hv : visit m q k R out p = insertAsc (m.rdist q p.1, p) out := by
        simp only [visit, hlt, hlen, decide_true, Bool.true_or, Bool.and_self, if_true,
          insertAsc_length]
        rw [if_neg (by omega)]
      refine ⟨[], ?_, ?_⟩
      · rw [hv]
        simp only [List.append_nil]
        exact (insertAsc_perm _ _).trans (List.perm_append_singleton _ _).symm
      · rw [hv]
        refine ⟨insertAsc_asc _ hi.asc, ?_, by simp⟩
        simp only [insertAsc_length, List.length_nil, Nat.add_zero]
        omega
    · -- heap full
      have hfull : out.length = k := by have := hi.len; omega
      have hne : out ≠ [] := by
        intro h0; rw [h0] at hfull; simp at hfull; omega
      obtain ⟨e, he⟩ : ∃ e, out.getLast? = some e := by
        cases hgl : out.getLast? with
        | none => exact absurd (List.getLast?_eq_none_iff.mp hgl) hne
        | some e => exact ⟨e, rfl⟩
      have hle_e := asc_le_getLast hi.asc he
      have heout : e ∈ out := List.mem_of_getLast? he
      by_cases hd : m.rdist q p.1 < e.1
      · -- replaces the current maximum
        have hv : visit m q k R out p = (insertAsc (m.rdist q p.1, p) out).dropLast := by
          simp only [visit, hlt, he, hd, decide_true, Bool.or_true, Bool.and_self, if_true,
            insertAsc_length]
          rw [if_pos (by omega)]
        set L := insertAsc (m.rdist q p.1, p) out with hL
        have hLne : L ≠ [] := by
          intro h0
          have := insertAsc_length (m.rdist q p.1, p) out
          rw [← hL, h0] at this; simp at this
        obtain ⟨z, hz⟩ : ∃ z, L.getLast? = some z := by
          cases hgl : L.getLast? with
          | none => exact absurd (List.getLast?_eq_none_iff.mp hgl) hLne
          | some z => exact ⟨z, rfl⟩
        have hsplit : L.dropLast ++ [z] = L := dropLast_append_of_getLast? hz
        have hLasc : Asc L := insertAsc_asc _ hi.asc
        refine ⟨z :: rest, ?_, ?_⟩
        · rw [hv]
          have h1 : (L.dropLast ++ z :: rest).Perm (L ++ rest) := by
            have : L.dropLast ++ z :: rest = (L.dropLast ++ [z]) ++ rest := by simp
            rw [this, hsplit]
          refine h1.trans ?_
          refine ((insertAsc_perm _ out).append_right rest).trans ?_
          simp only [List.cons_append]
          have : (out ++ rest ++ [(m.rdist q p.1, p)]) = (out ++ rest) ++ [(m.rdist q p.1, p)] := rfl
          exact (List.perm_append_singleton _ _).symm
        · rw [hv]
          have hdl : Asc (L.dropLast ++ [z]) := by rw [hsplit]; exact hLasc
          refine ⟨(List.pairwise_append.mp hdl).1, ?_, ?_⟩
          · have : L.length = k + 1 := by rw [hL, insertAsc_length, hfull]
            simp only [List.length_dropLast, this, List.length_cons]
            omega
          · intro y hy x hx
            rcases List.mem_cons.mp hx with rfl | hx
            · exact (List.pairwise_append.mp hdl).2.2 y hy x (by simp)
            · have hyL : y ∈ L := List.dropLast_subset L hy
              rcases mem_insertAsc.mp hyL with rfl | hyo
              · exact le_trans (le_of_lt hd) (hi.le e heout x hx)
              · exact hi.le y hyo x hx
      · -- not nearer than the current maximum: left out
        have hv : visit m q k R out p = out := by
          simp only [visit, hlt, hlen, he, hd, decide_false, Bool.or_self, Bool.and_false]
          simp
        refine ⟨(m.rdist q p.1, p) :: rest, ?_, ?_⟩
        · rw [hv]
          have : out ++ (m.rdist q p.1, p) :: rest = out ++ ([(m.rdist q p.1, p)] ++ rest) := by simp
          rw [this, List.append_assoc]
          exact List.Perm.append_left _ List.perm_append_comm
        · rw [hv]
          refine ⟨hi.asc, ?_, ?_⟩
          · simp only [List.length_cons]; omega
          · intro y hy x hx
            rcases List.mem_cons.mp hx with rfl | hx
            · exact le_trans (hle_e y hy) (not_lt.mp hd)
            · exact hi.le y hy x hx
  · -- not eligible: skipped
    have hlt' : ltR (m.rdist q p.1) R = false := by simpa using hlt
    rw [hE, hlt']
    have hv : visit m q k R out p = out := by
      simp [visit, hlt']
    refine ⟨rest, ?_, ?_⟩
    · rw [hv]; simp
    · rw [hv]; exact hi

theorem visitFold_inv (m : Metric P α) (q : P) {k : Nat} (hk : 0 < k) (R : Option α)
    (pts : List (Pt P)) {out rest : List (α × Pt P)} (hi : KInv k out rest) :
    ∃ rest', (pts.foldl (visit m q k R) out ++ rest').Perm (out ++ rest ++ Elig m q R pts) ∧
      KInv k (pts.foldl (visit m q k R) out) rest' := by
  induction pts generalizing out rest with
  | nil => exact ⟨rest, by simp [Elig], hi⟩
  | cons p ps ih =>
    obtain ⟨rest1, hp1, hi1⟩ := visit_inv m q hk R hi p
    obtain ⟨rest2, hp2, hi2⟩ := ih hi1
    refine ⟨rest2, ?_, hi2⟩
    simp only [List.foldl_cons]
    refine hp2.trans ?_
    have : Elig m q R (p :: ps) = Elig m q R [p] ++ Elig m q R ps := by
      rw [← Elig_append]; rfl
    rw [this, ← List.append_assoc]
    exact hp1.append_right _

/-- points / nodes waiting in the queue -/
def qpts (queue : List (α × Ball P α)) : List (Pt P) := queue.flatMap (·.2.points)
def qnodes (queue : List (α × Ball P α)) : Nat := (queue.map (·.2.nodes)).sum

theorem Ball.nodes_pos (b : Ball P α) : 0 < b.nodes := by
  cases b <;> simp [Ball.nodes]

theorem qnodes_insert (e : α × Ball P α) (Q : List (α × Ball P α)) :
    qnodes (insertAsc e Q) = e.2.nodes + qnodes Q := by
  induction Q with
  | nil => simp [insertAsc, qnodes]
  | cons y ys ih =>
    simp only [insertAsc]
    split
    · simp [qnodes]
    · simp only [qnodes, List.map_cons, List.sum_cons] at ih ⊢
      omega

theorem qpts_insert (e : α × Ball P α) (Q : List (α × Ball P α)) :
    (qpts (insertAsc e Q)).Perm (e.2.points ++ qpts Q) := by
  have := (insertAsc_perm e Q).flatMap_right (fun x : α × Ball P α => x.2.points)
  simpa [qpts] using this

/-- invariant of the best-first queue: ascending lower bounds, each a sound bound of its ball -/
structure QInv (m : Metric P α) (q : P) (queue : List (α × Ball P α)) : Prop where
  asc : Asc queue
  inv : ∀ e ∈ queue, BallInv m e.2
  lb : ∀ e ∈ queue, ∀ x ∈ e.2.points, e.1 ≤ m.rdist q x.1

theorem push_spec {m : Metric P α} (h : Lawful m) (q : P) (R : Option α) {c : Ball P α}
    (hc : BallInv m c) {Q : List (α × Ball P α)} (hQ : QInv m q Q) :
    QInv m q (if leR (lower m q c) R then insertAsc (lower m q c, c) Q else Q) ∧
    qnodes (if leR (lower m q c) R then insertAsc (lower m q c, c) Q else Q) ≤ c.nodes + qnodes Q ∧
    (Elig m q R (qpts (if leR (lower m q c) R then insertAsc (lower m q c, c) Q else Q))).Perm
      (Elig m q R (c.points ++ qpts Q)) := by
  by_cases hle : leR (lower m q c) R = true
  · simp only [hle, if_true]
    refine ⟨⟨insertAsc_asc _ hQ.asc, ?_, ?_⟩, ?_, ?_⟩
    · intro e he
      rcases mem_insertAsc.mp he with rfl | he
      · exact hc
      · exact hQ.inv e he
    · intro e he
      rcases mem_insertAsc.mp he with rfl | he
      · exact lower_le h q hc
      · exact hQ.lb e he
    · rw [qnodes_insert]
    · exact Elig_perm m q R (qpts_insert _ _)
  · have hle' : leR (lower m q c) R = false := by simpa using hle
    simp only [hle', Bool.false_eq_true, if_false]
    refine ⟨hQ, by omega, ?_⟩
    rw [Elig_append, Elig_nil_of m q R c.points]
    · simp
    · intro x hx
      exact ltR_false_of_not_leR hle' (lower_le h q hc x hx)

theorem searchLoop_spec {m : Metric P α} (h : Lawful m) (q : P) {k : Nat} (hk : 0 < k) (R : Option α) :
    ∀ (fuel : Nat) (queue : List (α × Ball P α)) (out rest : List (α × Pt P)),
      KInv k out rest → QInv m q queue → qnodes queue ≤ fuel →
      ∃ rest', (searchLoop m q k R fuel queue out ++ rest').Perm
          (out ++ rest ++ Elig m q R (qpts queue)) ∧
        KInv k (searchLoop m q k R fuel queue out) rest' := by
  intro fuel
  induction fuel with
  | zero =>
    intro queue out rest hi hQ hf
    have hq : queue = [] := by
      cases queue with
      | nil => rfl
      | cons e es =>
        have := Ball.nodes_pos e.2
        simp [qnodes] at hf
        omega
    subst hq
    exact ⟨rest, by simp [searchLoop, qpts, Elig], by simpa [searchLoop] using hi⟩
  | succ n ih =>
    intro queue out rest hi hQ hf
    cases queue with
    | nil => exact ⟨rest, by simp [searchLoop, qpts, Elig], by simpa [searchLoop] using hi⟩
    | cons top restQ =>
      obtain ⟨d, node⟩ := top
      have hQasc := List.pairwise_cons.mp hQ.asc
      have hQtail : QInv m q restQ :=
        ⟨hQasc.2, fun e he => hQ.inv e (List.mem_cons_of_mem _ he),
          fun e he => hQ.lb e (List.mem_cons_of_mem _ he)⟩
      -- every queued point is at least `d` away
      have hfar : ∀ x ∈ qpts ((d, node) :: restQ), d ≤ m.rdist q x.1 := by
        intro x hx
        simp only [qpts, List.mem_flatMap] at hx
        obtain ⟨e, he, hxe⟩ := hx
        have hde : d ≤ e.1 := by
          rcases List.mem_cons.mp he with rfl | he'
          · exact le_refl _
          · exact hQasc.1 e he'
        exact le_trans hde (hQ.lb e he x hxe)
      by_cases hstop : stop k R d out = true
      · -- the loop breaks: nothing queued can enter the answer
        have hres : searchLoop m q k R (n + 1) ((d, node) :: restQ) out = out := by
          simp [searchLoop, hstop]
        rw [hres]
        refine ⟨rest ++ Elig m q R (qpts ((d, node) :: restQ)), by simp, ?_⟩
        simp only [stop, Bool.or_eq_true, Bool.and_eq_true, beq_iff_eq] at hstop
        rcases hstop with hge | ⟨hfull, hlast⟩
        · rw [Elig_nil_of m q R _ (fun x hx => ltR_false_of_geR hge (hfar x hx))]
          simpa using hi
        · cases hgl : out.getLast? with
          | none =>
            have : out = [] := List.getLast?_eq_none_iff.mp hgl
            rw [this] at hfull; simp at hfull; omega
          | some e =>
            rw [hgl] at hlast
            simp only [decide_eq_true_eq] at hlast
            have hle_e := asc_le_getLast hi.asc hgl
            refine ⟨hi.asc, ?_, ?_⟩
            · simp only [List.length_append]; omega
            · intro y hy x hx
              rcases List.mem_append.mp hx with hx | hx
              · exact hi.le y hy x hx
              · simp only [Elig, List.mem_filter, List.mem_map] at hx
                obtain ⟨⟨p, hp, rfl⟩, _⟩ := hx
                exact le_trans (hle_e y hy) (le_trans hlast (hfar p hp))
      · have hstop' : stop k R d out = false := by simpa using hstop
        cases node with
        | leaf c r pts =>
          have hres : searchLoop m q k R (n + 1) ((d, Ball.leaf c r pts) :: restQ) out =
              searchLoop m q k R n restQ (pts.foldl (visit m q k R) out) := by
            simp [searchLoop, hstop']
          rw [hres]
          obtain ⟨rest1, hp1, hi1⟩ := visitFold_inv m q hk R pts hi
          have hf' : qnodes restQ ≤ n := by
            simp [qnodes, Ball.nodes] at hf ⊢; omega
          obtain ⟨rest2, hp2, hi2⟩ := ih restQ _ rest1 hi1 hQtail hf'
          refine ⟨rest2, ?_, hi2⟩
          refine hp2.trans ?_
          have : qpts ((d, Ball.leaf c r pts) :: restQ) = pts ++ qpts restQ := by
            simp [qpts, Ball.points]
          rw [this, Elig_append, ← List.append_assoc]
          exact hp1.append_right _
        | branch c r l rr =>
          have hnode : BallInv m (Ball.branch c r l rr) := hQ.inv (d, Ball.branch c r l rr) (by simp)
          have hl : BallInv m l := by cases hnode; assumption
          have hr : BallInv m rr := by cases hnode; assumption
          obtain ⟨hQ1, hn1, hE1⟩ := push_spec h q R hl hQtail
          obtain ⟨hQ2, hn2, hE2⟩ := push_spec h q R hr hQ1
          have hres : searchLoop m q k R (n + 1) ((d, Ball.branch c r l rr) :: restQ) out =
              searchLoop m q k R n
                (if leR (lower m q rr) R then
                  insertAsc (lower m q rr, rr)
                    (if leR (lower m q l) R then insertAsc (lower m q l, l) restQ else restQ)
                 else (if leR (lower m q l) R then insertAsc (lower m q l, l) restQ else restQ))
                out := by
            simp [searchLoop, hstop']
          rw [hres]
          have hf' : qnodes (if leR (lower m q rr) R then
                  insertAsc (lower m q rr, rr)
                    (if leR (lower m q l) R then insertAsc (lower m q l, l) restQ else restQ)
                 else (if leR (lower m q l) R then insertAsc (lower m q l, l) restQ else restQ)) ≤ n := by
            simp [qnodes, Ball.nodes] at hf
            simp only [qnodes] at hn1 hn2 ⊢
            omega
          obtain ⟨rest2, hp2, hi2⟩ := ih _ out rest hi hQ2 hf'
          refine ⟨rest2, ?_, hi2⟩
          refine hp2.trans ?_
          apply List.Perm.append_left
          refine hE2.trans ?_
          rw [Elig_append]
          refine (List.Perm.append_left _ hE1).trans ?_
          have : qpts ((d, Ball.branch c r l rr) :: restQ) = (l.points ++ rr.points) ++ qpts restQ := by
            simp [qpts, Ball.points]
          rw [this, Elig_append, Elig_append, Elig_append]
          rw [← List.append_assoc]
          exact List.Perm.append_right _ List.perm_append_comm

end search
end LinfaSpec.NN
