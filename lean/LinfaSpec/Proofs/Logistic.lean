import LinfaSpec.Model.Logistic
import Mathlib.Tactic.Ring
import Mathlib.Tactic.Linarith
import Mathlib.Algebra.Order.Field.Basic
import Mathlib.Data.List.Count

/-!
Helper lemmas for C12 (label coding part): the scan invariant of `label_classes`.
-/
namespace LinfaSpec.Logistic
variable {C : Type} [DecidableEq C]

/-- what the scan of `label_classes` knows after reading the prefix `pre` -/
def ScanInv (pre : List C) : BinState C → Prop
  | (none, none) => pre = []
  | (some (a, na), none) => na = pre.count a ∧ 0 < na ∧ ∀ x ∈ pre, x = a
  | (some (a, na), some (b, nb)) =>
      a ≠ b ∧ na = pre.count a ∧ nb = pre.count b ∧ 0 < na ∧ 0 < nb ∧ ∀ x ∈ pre, x = a ∨ x = b
  | (none, some _) => False

theorem binStep_inv (pre : List C) (st st' : BinState C) (c : C)
    (h : binStep st c = some st') (hi : ScanInv pre st) : ScanInv (pre ++ [c]) st' := by
  obtain ⟨s1, s2⟩ := st
  cases s1 with
  | none =>
    cases s2 with
    | none =>
      simp only [binStep, Option.some.injEq] at h
      subst h
      simp only [ScanInv] at hi ⊢
      subst hi
      simp
    | some b => simp [ScanInv] at hi
  | some a =>
    obtain ⟨a, na⟩ := a
    cases s2 with
    | none =>
      simp only [binStep] at h
      simp only [ScanInv] at hi
      obtain ⟨h1, h2, h3⟩ := hi
      by_cases hac : a = c
      · subst hac
        simp only [if_true, Option.some.injEq] at h
        subst h
        simp only [ScanInv]
        refine ⟨by simp [h1], by omega, ?_⟩
        intro x hx
        rcases List.mem_append.mp hx with hx | hx
        · exact h3 x hx
        · simpa using hx
      · simp only [hac, if_false, Option.some.injEq] at h
        subst h
        simp only [ScanInv]
        have hc : pre.count c = 0 := by
          rw [List.count_eq_zero]
          intro hmem
          exact hac (h3 c hmem).symm
        have hca : ¬ c = a := fun h => hac h.symm
        refine ⟨hac, by simp [h1, List.count_append, List.count_cons, hca], by simp [List.count_append, hc], h2, by omega, ?_⟩
        intro x hx
        rcases List.mem_append.mp hx with hx | hx
        · exact Or.inl (h3 x hx)
        · right; simpa using hx
    | some b =>
      obtain ⟨b, nb⟩ := b
      simp only [binStep] at h
      simp only [ScanInv] at hi
      obtain ⟨hab, h1, h2, h3, h4, h5⟩ := hi
      by_cases hac : a = c
      · subst hac
        simp only [if_true, Option.some.injEq] at h
        subst h
        simp only [ScanInv]
        refine ⟨hab, by simp [h1, List.count_append], ?_, by omega, h4, ?_⟩
        · have : ¬ (a = b) := hab
          simp [h2, List.count_append, this]
        · intro x hx
          rcases List.mem_append.mp hx with hx | hx
          · exact h5 x hx
          · left; simpa using hx
      · simp only [hac, if_false] at h
        by_cases hbc : b = c
        · subst hbc
          simp only [if_true, Option.some.injEq] at h
          subst h
          simp only [ScanInv]
          refine ⟨hab, ?_, by simp [h2, List.count_append], h3, by omega, ?_⟩
          · have : ¬ (b = a) := fun h => hab h.symm
            simp [h1, List.count_append, this]
          · intro x hx
            rcases List.mem_append.mp hx with hx | hx
            · exact h5 x hx
            · right; simpa using hx
        · simp [hbc] at h

theorem binScan_inv (cs : List C) : ∀ (pre : List C) (st st' : BinState C),
    binScan st cs = some st' → ScanInv pre st → ScanInv (pre ++ cs) st' := by
  induction cs with
  | nil =>
    intro pre st st' h hi
    simp only [binScan, Option.some.injEq] at h
    subst h
    simpa using hi
  | cons c cs ih =>
    intro pre st st' h hi
    simp only [binScan] at h
    cases hs : binStep st c with
    | none => simp [hs] at h
    | some st1 =>
      simp only [hs] at h
      have := ih (pre ++ [c]) st1 st' h (binStep_inv pre st st1 c hs hi)
      simpa using this

end LinfaSpec.Logistic

namespace LinfaSpec.Logistic
section Multi
variable {C : Type} [LinearOrder C]

theorem mem_dedupAdj (l : List C) (x : C) : x ∈ dedupAdj l ↔ x ∈ l := by
  fun_induction dedupAdj l with
  | case1 => simp
  | case2 a => simp
  | case3 b rest ih =>
    rw [ih]; simp
  | case4 a b rest hab ih =>
    simp only [List.mem_cons] at ih ⊢
    rw [ih]

theorem pairwise_dedupAdj (l : List C) (h : l.Pairwise (· ≤ ·)) : (dedupAdj l).Pairwise (· < ·) := by
  fun_induction dedupAdj l with
  | case1 => simp
  | case2 a => simp
  | case3 b rest ih =>
    exact ih (List.Pairwise.of_cons h)
  | case4 a b rest hab ih =>
    rw [List.pairwise_cons] at h ⊢
    refine ⟨?_, ih h.2⟩
    intro x hx
    rw [mem_dedupAdj] at hx
    have hb : a ≤ b := h.1 b (by simp)
    have hlt : a < b := lt_of_le_of_ne hb hab
    rcases List.mem_cons.mp hx with e | e
    · subst e; exact hlt
    · have := (List.pairwise_cons.mp h.2).1 x e
      exact lt_of_lt_of_le hlt this

theorem classesOf_pairwise (y : List C) : (classesOf y).Pairwise (· < ·) := by
  unfold classesOf
  apply pairwise_dedupAdj
  have := List.pairwise_mergeSort (le := fun a b : C => decide (a ≤ b))
    (by intro a b c; simp only [decide_eq_true_eq]; exact le_trans)
    (by intro a b; simp only [Bool.or_eq_true, decide_eq_true_eq]; exact le_total a b) y
  simpa using this

theorem mem_classesOf (y : List C) (x : C) : x ∈ classesOf y ↔ x ∈ y := by
  unfold classesOf
  rw [mem_dedupAdj, List.mem_mergeSort]

end Multi
end LinfaSpec.Logistic
